import LitexProofs.Stream.HandshakeBasic
import LitexProofs.Stream.HandshakeStatus
import LitexProofs.Stream.HandshakeConv
import LitexProofs.Stream.HandshakeRoute
import LitexProofs.Stream.HandshakeGearbox
import LitexModel.Stream.NumG
import LitexProofs.Stream.HandshakePacket
import LitexProofs.Stream.HandshakePacketFifo
import LitexProofs.Stream.HandshakePacketFifoBuffered
import LitexProofs.Stream.HandshakeArbiter
import LitexProofs.Stream.HandshakeArbiter2
import LitexProofs.Stream.HandshakePacketizer
import LitexProofs.Stream.HandshakePacketizerU
import LitexProofs.Stream.HandshakeLive
import LitexProofs.Stream.HandshakeGlue
import LitexProofs.Stream.HandshakeFlow
import LitexProofs.Stream.HandshakePipeActor
import LitexProofs.Stream.HandshakeCrossbar
import LitexProofs.Stream.HandshakeGearboxLive
/-
  INVENTORY (session 2) — every class of the two anchor files, with its C04 theorems and how the model is tied.
  stab = handshake stability (`KeepsContract`, or the trace form for routers); prog = progress / no livelock
  (`ProgressWithin` K, `DeliversWithin` K', `AcceptsWithin` K_acc); Live = member of the composition-closed class
  `Live`/`Good` (`X_live`), i.e. usable in `pipeline_*`/`compose_good` without a side condition.
  Tie: A = exhaustive co-exploration of (netlist, model, pending obligations), B = lock-step co-simulation with a holding
  producer; in both the model-independent monitors run: (S) stability, (P) cooperative watchdog from every visited
  state against the K of the theorem, (F) source.valid/token independent of source.ready.

  stream.py
  | class                         | Lean element                         | stab                      | prog                                  | Live | tie (driver machine)                |
  |-------------------------------|--------------------------------------|---------------------------|---------------------------------------|------|-------------------------------------|
  | Endpoint.connect              | wire                                 | wire_stable               | wire_no_livelock 1, accepts 1         | yes  | A,B `wire`, `stages w`              |
  | PipeValid                     | pipeValid                            | pipeValid_stable          | progress 1, no_livelock 2, accepts 1  | yes  | A,B `pipevalid`                     |
  | PipeReady                     | pipeReady                            | pipeReady_stable          | no_livelock 1, accepts 2              | yes  | A,B `pipeready`                     |
  | Buffer(pv, pr) (4 variants)   | stages (bufferStages pv pr)          | buffer_stable             | buffer_no_livelock_tight 1+Σlat ≤ 2   | yes  | A,B `buffer pv pr`, `buffer_vr`     |
  | _FIFOWrapper/SyncFIFO d ≥ 2   | syncFifo d / syncFifoBuffered d      | syncFifo(_Buffered)_stable| progress 1, no_livelock 2/3, acc 2    | yes  | A,B `syncfifo d`, `syncfifo_buffered d` |
  | SyncFIFO, every depth ≥ 0     | stages (syncFifoStages d buffered)   | syncFifoAny_stable        | syncFifoAny_no_livelock_tight ≤ 3     | yes  | A,B `sfifo d b` (selection in model)|
  | AsyncFIFO                     | —  (two clocks: C05)                 | C05                       | C05                                   | —    | C05                                 |
  | ClockDomainCrossing same cd   | stages (cdcSameStages b)             | cdcSame_stable            | cdcSame_no_livelock_tight ≤ 2         | yes  | A,B `cdcsame b`; other cd: C05      |
  | Delay n                       | delay n / stages (delayStages n)     | delay_stable, delayn_stable | delay(n)_no_livelock(_tight) n+1, accepts 1 | yes | A,B `delay n`, `delayn n`   |
  | Pipeline(m_1..m_n)            | stages l (any stage list) / comp     | pipeline_stable           | pipeline_no_livelock_tight 1+Σlat (tight), ∏K in class, accepts 1 (v,w) | yes | A,B `stages …`, chain3, chain_fb_pr |
  | BufferizeEndpoints            | bufferize bs bd pv pr e (any Good e) | bufferize_stable          | bufferize_no_livelock, up/down, acc 1 | yes  | A,B `bufferize …`, `bufferized_up`  |
  | _UpConverter / Pack           | upConv r                             | upConv_stable             | accepts 1, no_livelock r+1            | yes  | A,B `up …`                          |
  | _DownConverter / Unpack       | downConv r                           | downConv_stable           | no_livelock 1, accepts r              | yes  | A,B `down …`                        |
  | _IdentityConverter            | downConv 1 / wire                    | downConv_stable           | no_livelock 1                         | yes  | A `converter n n`                   |
  | Converter (class selection)   | converterKind + the class chosen     | converter_up/down_stable  | converter_up/down_no_livelock         | yes  | A,B `converter nf nt …` + calls     |
  | StrideConverter               | strideUp r / downConv r (+ Cast)     | strideUp_stable, downConv | accepts 1, no_livelock r+1 / 1        | yes  | A,B `strideup`, `stridedown`        |
  | Gearbox i o                   | gearbox (ioLcm i o) i o              | gearbox_stable (all i,o>0)| progress 1, no_livelock ⌈o/i⌉+1       | yes  | A,B `gearbox i o msb`               |
  | Cast / CombinatorialActor     | mapElem f                            | cast_stable               | no_livelock 1, accepts 1              | yes  | A,B `cast …`                        |
  | Gate                          | gate srd (enable with the sink wires)| gate_stable(+_sharp)      | gate_no_livelock 1 (enabled)          | n/a (control input) | A,B `gate srd`        |
  | Shifter / PipelinedActor(2)   | shifter dw                           | shifter_stable (ShiftHeld)| accepts 1, no_livelock 3              | n/a (control input) | A,B `shifter dw`     |
  | PipelinedActor(L), BinaryActor| pipeActor L (every L ≥ 0)            | pipeActor_stable          | pipeActor_progress (acc 1), no_livelock L+1 | yes | A,B `pipeactor L`               |
  | Multiplexer / Demultiplexer   | muxOut / demuxOut                    | mux_stable, demux_stable (sel held) | mux_progress, demux_progress | n/a | R,B0 `mux n`, `demux n`, `muxw`, `demuxw` |
  | Crossbar                      | crossbar n (= demux ∘ mux)           | crossbar_stable (sels with the sink wires) | crossbar_no_livelock 1 (routed) | n/a (control) | A,B `crossbar n`        |
  | Monitor                       | monitored e (Monitor on e.source)    | monitored_stable          | monitored_no_livelock, _transparent   | yes  | A,B `monitored …`; B0 read-back of the watched endpoint |
  | EndpointDescription, Endpoint | layouts only (C03 DW checks)         | —                         | —                                     | —    | —                                   |

  packet.py
  | Status                        | status                               | —                         | status_first_last, status_outputs     | —    | A0,B0 `status`                      |
  | Arbiter                       | arbiter n                            | arbiter_stable            | arbiter_progress, _progress_subset 2, no_starvation n | — | AP,BP `arbiter n`       |
  | Dispatcher                    | dispatcher m oneHot                  | (comb: as Demultiplexer)  | dispatcher_progress 1                 | —    | AP,BP `dispatcher m oh`             |
  | Packetizer (aligned)          | packetizer c                         | packetizer_stable         | packetizer_no_livelock 1, packetizer_accepts W+1 | — | AP,BP `packetizer …`          |
  | Depacketizer (aligned)        | depacketizer c                       | depacketizer_stable       | depacketizer_no_livelock W+1          | —    | AP,BP `depacketizer …`              |
  | Packetizer, any header length | packetizer c                         | packetizer_stable_partial (FirstBeatHeld: single-beat corner only; neg. witness) | packetizer_no_livelock_any 1; sink service: neg. witness (C16 single-beat) | — | AP,BP |
  | Depacketizer unaligned        | depacketizer c                       | OPEN (monitors, UOk dom.) | OPEN (monitors; open C16 findings)    | —    | AP,BP                               |
  | PacketFIFO plain              | packetFifo pd qd                     | (FIFO outputs: syncFifo)  | packetfifo_progress 1, no_livelock pd+1 (packets ≤ pd) | — | AP,BP `packetfifo` |
  | PacketFIFO buffered           | packetFifoBuffered pd qd (pd,qd ≥ 2) | (register outputs)        | packetfifo_buffered_progress 1, no_livelock pd+2 (packets ≤ pd) | — | AP,BP `packetfifo_buffered` |
  | Header, HeaderField           | C16                                  | —                         | —                                     | —    | C16                                 |
-/
/-
  C04 — Stream elements keep the handshake contract and never stall forever.

  Vocabulary (definitions in `LitexProofs/Stream/Handshake.lean`, `LitexModel/Stream/Core.lean`):
  * `In` = what the environment drives in one cycle (sink.valid, sink token, source.ready); an input list is one
    valid/ready schedule together with one token sequence (garbage tokens allowed while valid = 0).
  * `StableIn e s ins`  — along `ins`, started in state `s`, the producer keeps the contract: a token offered and
    not accepted (the element's own `sink.ready` was low) is offered again, unchanged, in the next cycle.
  * `StableOut e s ins` — the element keeps the same contract on its source: `source.valid ∧ ¬source.ready` at
    cycle `t` implies `source.valid` and the same payload/param/first/last at `t+1` (`contract_index_form`).
  * `KeepsContract e`   — `StableIn → StableOut` from **every reachable state** and for every continuation.
  * `Coop i`            — a cooperative cycle: valid = 1 and ready = 1 (any token).
  * `ProgressWithin e K`  — from every reachable state, `n*K` cooperative cycles contain ≥ `n` handshakes.
  * `DeliversWithin e K`  — from every reachable state, `n*K` cooperative cycles deliver ≥ `n` tokens.
  * `AcceptsWithin e K`   — from every reachable state, `n*K` cooperative cycles accept ≥ `n` tokens (the sink is
    served); `…WithinC e C K` are the same with a stronger cooperation assumption `C` on each cycle (Gate: enabled).
  * `KeepsContractX e X`  — `KeepsContract` under an extra, explicit assumption `X` on each cycle boundary
    (Shifter: `shift` held while a token waits at the source).
  The bounds `K` of the single elements are tight: the harness measures, from every explored state of the real
  netlist, the longest cooperative run without a handshake / delivery / sink handshake, and reports any excess over
  `K` as a disagreement.  So are the additive windows of pipelines of identity stages (`pipeline_no_livelock_tight`: 1 + Σ stage latencies;
  measured gap = bound on every explored pipeline).  The bounds obtained through the composition-closed class `Live`
  (`bufferize_*`, `compose_good`, `pipeline_no_livelock`) are products of the element windows: valid for every
  composition, tight for cascaded converters, generous otherwise; the harness enforces them as upper bounds.
-/
namespace Litex.C04
open Litex.Stream Litex.Stream.Elem
variable {α β γ σ τ : Type}

/-! ## Generic lifting lemmas -/

/-- (1) Stability lifting: a one-cycle lemma (`StepStable`: the invariant is inductive and `HoldsIn` between two
    consecutive cycles implies `HoldsOut` between them) gives the contract along every input list. -/
theorem stable_lifting {e : Elem α β σ} {Inv : σ → Prop} (h : StepStable e Inv)
    (s : σ) (hs : Inv s) (ins : List (In α)) : StableIn e s ins → StableOut e s ins :=
  stable_of_step h s hs ins

/-- What `StableOut` says cycle by cycle: if at cycle `t` the source offered (`o.valid`) and the consumer did not
    take (`x.ready = false`), then at `t+1` the source still offers the identical token. -/
theorem contract_index_form (e : Elem α β σ) (s : σ) (ins : List (In α)) (h : StableOut e s ins)
    (t : Nat) (o o' : Out β) (x : In α)
    (h1 : (e.outs s ins)[t]? = some o) (h2 : (e.outs s ins)[t + 1]? = some o') (h3 : ins[t]? = some x) :
    o.valid = true → x.ready = false → (o'.valid = true ∧ o'.tok = o.tok) :=
  stableOut_index e s ins h t o o' x h1 h2 h3

/-- What suffices for `StableIn`, cycle by cycle: the producer re-offers at `t+1` the token it offered at `t`
    whenever `sink.ready` was low at `t`. -/
theorem producer_index_form (e : Elem α β σ) (s : σ) (ins : List (In α))
    (h : ∀ (t : Nat) (x x' : In α) (o : Out β),
        ins[t]? = some x → ins[t + 1]? = some x' → (e.outs s ins)[t]? = some o →
        x.valid = true → o.ready = false → (x'.valid = true ∧ x'.tok = x.tok)) : StableIn e s ins :=
  stableIn_of_index e s ins h

/-- (2) Composition: the contract of `a ⟫ b` (a.source wired to b.sink as `Endpoint.connect`/`Pipeline` do)
    follows from the one-cycle lemmas of `a` and `b`; no separate proof about the composite. -/
theorem stable_composition {a : Elem α β σ} {b : Elem β γ τ} {Ia : σ → Prop} {Ib : τ → Prop}
    (ha : StepStable a Ia) (hb : StepStable b Ib) (s : σ × τ) (hsa : Ia s.1) (hsb : Ib s.2)
    (ins : List (In α)) : StableIn (a.comp b) s ins → StableOut (a.comp b) s ins :=
  comp_stable ha hb s hsa hsb ins

/-- (3) Progress lifting: if every window of `K` cooperative cycles from an invariant state contains a
    handshake, then `n*K` cooperative cycles contain at least `n`: handshakes never stop. -/
theorem progress_lifting (e : Elem α β σ) (Inv : σ → Prop) (hstep : ∀ s i, Inv s → Inv (e.step s i)) (K : Nat)
    (hwin : ∀ s ins, Inv s → (∀ i ∈ ins, Coop i) → ins.length = K → 1 ≤ e.hsCount s ins)
    (n : Nat) (s : σ) (ins : List (In α)) (hs : Inv s) (hc : ∀ i ∈ ins, Coop i) (hlen : n * K ≤ ins.length) :
    n ≤ e.hsCount s ins :=
  hsCount_ge_of_window e Inv hstep Coop K hwin n s ins hs hc hlen

/-- Same for deliveries (no livelock). -/
theorem delivery_lifting (e : Elem α β σ) (Inv : σ → Prop) (hstep : ∀ s i, Inv s → Inv (e.step s i)) (K : Nat)
    (hwin : ∀ s ins, Inv s → (∀ i ∈ ins, Coop i) → ins.length = K → 1 ≤ (e.delivered s ins).length)
    (n : Nat) (s : σ) (ins : List (In α)) (hs : Inv s) (hc : ∀ i ∈ ins, Coop i) (hlen : n * K ≤ ins.length) :
    n ≤ (e.delivered s ins).length :=
  delivered_ge_of_window e Inv hstep Coop K hwin n s ins hs hc hlen

/-! ## PipeValid -/

theorem pipeValid_stable (z : Tok α) : KeepsContract (pipeValid z) :=
  keepsContract_of_stepStable (pipeValid_stepStable z) trivial

/-- A sink handshake in every cooperative cycle (`K = 1`). -/
theorem pipeValid_progress (z : Tok α) : ProgressWithin (pipeValid z) 1 :=
  progressWithin_of_window _ (fun _ => True) trivial (fun _ _ _ => trivial) 1
    (fun s ins _ hc hl => pipeValid_hs_window z s ins hc hl)

/-- At least one delivery every 2 cooperative cycles from any state. -/
theorem pipeValid_no_livelock (z : Tok α) : DeliversWithin (pipeValid z) 2 :=
  deliversWithin_of_window _ (fun _ => True) trivial (fun _ _ _ => trivial) 2
    (fun s ins _ hc hl => pipeValid_del_window z s ins hc hl)

/-! ## PipeReady -/

theorem pipeReady_stable (z : Tok α) : KeepsContract (pipeReady z) :=
  keepsContract_of_stepStable (pipeReady_stepStable z) (by simp [prInv, pipeReady])

/-- A delivery (hence a handshake) in every cooperative cycle. -/
theorem pipeReady_no_livelock (z : Tok α) : DeliversWithin (pipeReady z) 1 :=
  deliversWithin_of_window _ prInv (by simp [prInv, pipeReady]) (pipeReady_inv_step z) 1
    (fun s ins hs hc hl => pipeReady_hs_window z s hs ins hc hl)

theorem pipeReady_progress (z : Tok α) : ProgressWithin (pipeReady z) 1 :=
  (pipeReady_no_livelock z).progress

/-! ## Wire (`Endpoint.connect`, `SyncFIFO(depth=0)`, same-domain unbuffered `ClockDomainCrossing`) -/

theorem wire_stable : KeepsContract (wire (α := α)) :=
  keepsContract_of_stepStable wire_stepStable trivial

theorem wire_no_livelock : DeliversWithin (wire (α := α)) 1 :=
  deliversWithin_of_window _ (fun _ => True) trivial (fun _ _ _ => trivial) 1
    (fun s ins _ hc hl => wire_del_window s ins hc hl)

theorem wire_progress : ProgressWithin (wire (α := α)) 1 := wire_no_livelock.progress

/-! ## SyncFIFO (Migen `SyncFIFO`, fwft) -/

theorem syncFifo_stable (depth : Nat) (z : Tok α) : KeepsContract (syncFifo depth z) :=
  keepsContract_of_stepStable (syncFifo_stepStable depth z) (by simp [fifoInv, syncFifo])

/-- Any depth ≥ 1: a handshake in every cooperative cycle (a full FIFO is a non-empty FIFO). -/
theorem syncFifo_progress (depth : Nat) (hd : 0 < depth) (z : Tok α) : ProgressWithin (syncFifo depth z) 1 :=
  progressWithin_of_window _ (fifoInv depth) (by simp [fifoInv, syncFifo]) (syncFifo_inv_step depth z) 1
    (fun s ins _ hc hl => syncFifo_hs_window depth hd z s ins hc hl)

theorem syncFifo_no_livelock (depth : Nat) (hd : 0 < depth) (z : Tok α) :
    DeliversWithin (syncFifo depth z) 2 :=
  deliversWithin_of_window _ (fifoInv depth) (by simp [fifoInv, syncFifo]) (syncFifo_inv_step depth z) 2
    (fun s ins _ hc hl => syncFifo_del_window depth hd z s ins hc hl)

/-- The hypothesis `0 < depth` is needed: the queue model with depth 0 never accepts (LiteX builds a wire for
    depth 0 and a `Buffer` for depth 1, and never instantiates the Migen FIFO below depth 2). -/
example : (syncFifo 0 (⟨0, false, false⟩ : Tok Nat)).hsCount []
    [⟨true, ⟨1, false, false⟩, true⟩, ⟨true, ⟨1, false, false⟩, true⟩, ⟨true, ⟨1, false, false⟩, true⟩] = 0 := by
  decide

/-! ## SyncFIFOBuffered (Migen `SyncFIFOBuffered`: non-fwft FIFO + output register) -/

theorem syncFifoBuffered_stable (depth : Nat) (hd : 1 ≤ depth) (z : Tok α) :
    KeepsContract (syncFifoBuffered depth z) :=
  keepsContract_of_stepStable (syncFifoBuffered_stepStable depth hd z) (by simp [fbInv, syncFifoBuffered])

/-- Depth ≥ 2 (the only depths LiteX instantiates): a handshake in every cooperative cycle.  Uses the
    invariant "output register empty → inner FIFO holds ≤ 1 word". -/
theorem syncFifoBuffered_progress (depth : Nat) (hd : 2 ≤ depth) (z : Tok α) :
    ProgressWithin (syncFifoBuffered depth z) 1 :=
  progressWithin_of_window _ (fbInv depth) (by simp [fbInv, syncFifoBuffered])
    (syncFifoBuffered_inv_step depth (by omega) z) 1
    (fun s ins hs hc hl => syncFifoBuffered_hs_window depth hd z s hs ins hc hl)

/-- At least one delivery every 3 cooperative cycles (write, inner read, output register). -/
theorem syncFifoBuffered_no_livelock (depth : Nat) (hd : 1 ≤ depth) (z : Tok α) :
    DeliversWithin (syncFifoBuffered depth z) 3 :=
  deliversWithin_of_window _ (fbInv depth) (by simp [fbInv, syncFifoBuffered])
    (syncFifoBuffered_inv_step depth hd z) 3
    (fun s ins _ hc hl => syncFifoBuffered_del_window depth hd z s ins hc hl)

/-! ## Buffer(pipe_valid=True, pipe_ready=True) = PipeValid ⟫ PipeReady -/

/-- Obtained from the two element lemmas through `StepStable.comp`. -/
theorem bufferVR_stable (z : Tok α) : KeepsContract (bufferVR z) :=
  keepsContract_of_stepStable (bufferVR_stepStable z)
    ⟨trivial, by simp [prInv, bufferVR, Elem.comp, pipeReady]⟩

theorem bufferVR_progress (z : Tok α) : ProgressWithin (bufferVR z) 1 :=
  progressWithin_of_window _ (fun s => True ∧ prInv s.2)
    ⟨trivial, by simp [prInv, bufferVR, Elem.comp, pipeReady]⟩ (bufferVR_stepStable z).inv_step 1
    (fun s ins hs hc hl => bufferVR_hs_window z s hs.2 ins hc hl)

theorem bufferVR_no_livelock (z : Tok α) : DeliversWithin (bufferVR z) 2 :=
  deliversWithin_of_window _ (fun s => True ∧ prInv s.2)
    ⟨trivial, by simp [prInv, bufferVR, Elem.comp, pipeReady]⟩ (bufferVR_stepStable z).inv_step 2
    (fun s ins hs hc hl => bufferVR_del_window z s hs.2 ins hc hl)

/-! ## The sink is served (`AcceptsWithin`) — basic elements -/

theorem pipeValid_accepts (z : Tok α) : AcceptsWithin (pipeValid z) 1 :=
  ReadyTransparent.accepts (Inv := fun _ => True) (fun s v t _ => (pipeValid_back z).ready s v t trivial) trivial
    (fun _ _ _ => trivial)

/-- A parked token leaves in one cycle, then the sink is ready again. -/
theorem pipeReady_accepts (z : Tok α) : AcceptsWithin (pipeReady z) 2 :=
  acceptsWithin_of_measure _ prInv (by simp [prInv, pipeReady]) (pipeReady_inv_step z)
    (fun s => if s.valid then 1 else 0) 1 (fun s _ => by split <;> omega) (pipeReady_acc_dec z)

theorem wire_accepts : AcceptsWithin (wire (α := α)) 1 :=
  wire_readyTransparent.accepts trivial (fun _ _ _ => trivial)

theorem cast_accepts (f : α → β) : AcceptsWithin (mapElem f) 1 :=
  (mapElem_readyTransparent f).accepts trivial (fun _ _ _ => trivial)

/-- A full FIFO pops under a ready consumer and is writable in the next cycle. -/
theorem syncFifo_accepts (depth : Nat) (hd : 0 < depth) (z : Tok α) : AcceptsWithin (syncFifo depth z) 2 :=
  acceptsWithin_of_measure _ (fifoInv depth) (by simp [fifoInv, syncFifo]) (syncFifo_inv_step depth z)
    (fun q => if q.length = depth then 1 else 0) 1 (fun q _ => by split <;> omega) (syncFifo_acc_dec depth hd z)

theorem syncFifoBuffered_accepts (depth : Nat) (hd : 2 ≤ depth) (z : Tok α) :
    AcceptsWithin (syncFifoBuffered depth z) 2 :=
  acceptsWithin_of_measure _ (fbInv depth) (by simp [fbInv, syncFifoBuffered])
    (syncFifoBuffered_inv_step depth (by omega) z)
    (fun s => if s.q.length = depth then 1 else 0) 1 (fun s _ => by split <;> omega)
    (syncFifoBuffered_acc_dec depth hd z)

/-! ## Progress through composition

  `DelMeasure e Inv μ B`: `Inv` is inductive, `μ ≤ B` on `Inv`, and in every cooperative cycle from an `Inv` state
  the element delivers or `μ` strictly decreases — hence a delivery in every window of `B + 1` cooperative cycles.
  Measures compose through `a ⟫ b` when `a` is a *front* element (offers one cycle after any cycle with
  sink.valid: PipeValid, PipeReady, wire, FIFO depth ≥ 2, down-converter, Cast) or `b` is a *back* element
  (PipeValid).  This covers `Buffer`, `Delay`, `BufferizeEndpoints` and `Pipeline`s of front elements. -/

theorem compose_progress_front {a : Elem α β σ} {b : Elem β γ τ} {Ia : σ → Prop} {Ib : τ → Prop}
    {hot : σ → Bool} {μ : τ → Nat} {B : Nat} (ha : Front a Ia hot) (hb : DelMeasure b Ib μ B)
    (h0a : Ia a.init) (h0b : Ib b.init) : DeliversWithin (a.comp b) (B + 2) :=
  (ha.comp hb).delivers ⟨h0a, h0b⟩

theorem compose_progress_back {a : Elem α β σ} {b : Elem β γ τ} {Ia : σ → Prop} {Ib : τ → Prop}
    {full : τ → Bool} {μ : σ → Nat} {B : Nat} (ha : DelMeasure a Ia μ B) (hb : Back b Ib full)
    (h0a : Ia a.init) (h0b : Ib b.init) : DeliversWithin (a.comp b) (B + 2) :=
  (Back.comp ha hb).delivers ⟨h0a, h0b⟩

/-- An element whose `sink.ready` follows `source.ready` accepts in every cooperative cycle; the class is closed
    under `⟫` (`ReadyTransparent.comp`). -/
theorem compose_accepts {a : Elem α β σ} {b : Elem β γ τ} {Ia : σ → Prop} {Ib : τ → Prop}
    (ha : ReadyTransparent a Ia) (hb : ReadyTransparent b Ib)
    (hsa : ∀ s i, Ia s → Ia (a.step s i)) (hsb : ∀ s i, Ib s → Ib (b.step s i))
    (h0a : Ia a.init) (h0b : Ib b.init) : AcceptsWithin (a.comp b) 1 :=
  (ha.comp hb).accepts ⟨h0a, h0b⟩ (fun s i h => by
    rw [comp_step]; exact ⟨hsa s.1 _ h.1, hsb s.2 _ h.2⟩)

/-! ## General progress of `a ⟫ b` (beyond the front/back classes)

  Weakest sufficient condition proved: `a` answers a steady supply with an offer within `Na + 1` cycles whatever its
  consumer does (`OfferMeasure`), and `b` has a delivery measure bounded by `Bb` that never rises in a cycle without
  a delivery (`IdleMono`).  Then `a ⟫ b` delivers at least every `(Bb + 1)·(Na + 1)` cooperative cycles, from every
  reachable state.  The product cannot be improved in general (two cascaded up-converters need `r₁·r₂` sub-words). -/

theorem compose_progress_general {a : Elem α β σ} {b : Elem β γ τ} {Ia : σ → Prop} {Ib : τ → Prop}
    {ν : σ → Nat} {Na : Nat} {μ : τ → Nat} {Bb : Nat}
    (ha : OfferMeasure a Ia ν Na) (hb : DelMeasure b Ib μ Bb) (hm : IdleMono b Ib μ)
    (h0a : Ia a.init) (h0b : Ib b.init) : DeliversWithin (a.comp b) (Bb * (Na + 1) + Na + 1) :=
  (ha.comp hb hm).delivers ⟨h0a, h0b⟩

/-- Instance outside both classes: a buffered FIFO (needs two cycles to offer) in front of a PipeReady — the
    driver's `chain_fb_pr d`, compared with `Pipeline(SyncFIFO(d, buffered=True), PipeReady)`. -/
theorem bufferedFifo_pipeReady_no_livelock (depth : Nat) (hd : 1 ≤ depth) (z : Tok α) :
    DeliversWithin ((syncFifoBuffered depth z).comp (pipeReady z)) 3 :=
  compose_progress_general (syncFifoBuffered_offer depth hd z) (pipeReady_measure z) (pipeReady_idleMono z)
    (by simp [fbInv, syncFifoBuffered]) (by simp [prInv, pipeReady])

theorem bufferedFifo_pipeReady_stable (depth : Nat) (hd : 1 ≤ depth) (z : Tok α) :
    KeepsContract ((syncFifoBuffered depth z).comp (pipeReady z)) :=
  keepsContract_of_stepStable ((syncFifoBuffered_stepStable depth hd z).comp (pipeReady_stepStable z))
    ⟨by simp [fbInv, syncFifoBuffered, Elem.comp], by simp [prInv, pipeReady, Elem.comp]⟩

/-- An up-converter (offers after up to `r` sub-words) in front of a PipeReady: a word at least every `r + 1`
    cooperative cycles — the bound of the converter alone, so here the general theorem is tight. -/
theorem upConv_pipeReady_no_livelock {π : Type} (r : Nat) (hr : 0 < r) (z : α) (p0 : π) (z2 : Tok (UpWord α π)) :
    DeliversWithin ((upConv r z p0).comp (pipeReady z2)) (0 * (r + 1) + r + 1) :=
  compose_progress_general (upConv_offer r hr z p0) (pipeReady_measure z2) (pipeReady_idleMono z2)
    (by simpa [upInv, upConv] using hr) (by simp [prInv, pipeReady])

/-! ## _UpConverter / Pack (`upConv r`, `r ≥ 1`) -/

theorem upConv_stable {π : Type} (r : Nat) (z : α) (p0 : π) : KeepsContract (upConv r z p0) :=
  keepsContract_of_stepStable (upConv_stepStable r z p0) trivial

/-- `sink.ready = ~strobe_all | source.ready`: a sink handshake in every cooperative cycle. -/
theorem upConv_progress {π : Type} (r : Nat) (hr : 0 < r) (z : α) (p0 : π) : AcceptsWithin (upConv r z p0) 1 :=
  (upConv_readyTransparent r z p0).accepts (by simpa [upInv, upConv] using hr) (upConv_inv_step r hr z p0)

/-- A word at least every `r + 1` cooperative cycles (`r` sub-words, then the strobe cycle). -/
theorem upConv_no_livelock {π : Type} (r : Nat) (hr : 0 < r) (z : α) (p0 : π) :
    DeliversWithin (upConv r z p0) (r + 1) :=
  (upConv_measure r hr z p0).delivers (by simpa [upInv, upConv] using hr)

/-! ## StrideConverter, up-converting (`strideUp r`; after fix 3f0170f the param register is loaded with the
    sub-word, so the plain contract holds — before the fix `source.param` followed the idle sink lines) -/

theorem strideUp_stable {π : Type} (r : Nat) (z : α) (p0 : π) : KeepsContract (strideUp r z p0) :=
  keepsContract_of_stepStable (strideUp_stepStable r z p0) trivial

theorem strideUp_progress {π : Type} (r : Nat) (hr : 0 < r) (z : α) (p0 : π) :
    AcceptsWithin (strideUp r z p0) 1 :=
  (strideUp_readyTransparent r z p0).accepts (by simpa [upInv, strideUp, upConv] using hr)
    (fun s i h => strideUp_inv_step r hr z p0 s i h)

theorem strideUp_no_livelock {π : Type} (r : Nat) (hr : 0 < r) (z : α) (p0 : π) :
    DeliversWithin (strideUp r z p0) (r + 1) :=
  (strideUp_measure r hr z p0).delivers (by simpa [upInv, strideUp, upConv] using hr)

/-! ## _DownConverter / Unpack / StrideConverter down (`downConv r`) -/

theorem downConv_stable {π : Type} (r : Nat) (z : α) : KeepsContract (downConv (π := π) r z) :=
  keepsContract_of_stepStable (downConv_stepStable r z) trivial

/-- `source.valid = sink.valid`: a delivery in every cooperative cycle. -/
theorem downConv_no_livelock {π : Type} (r : Nat) (hr : 0 < r) (z : α) :
    DeliversWithin (downConv (π := π) r z) 1 :=
  (downConv_measure r hr z).delivers (by simpa [downInv, downConv] using hr)

/-- ... and the sink is served once every `r` cooperative cycles. -/
theorem downConv_accepts {π : Type} (r : Nat) (hr : 0 < r) (z : α) :
    AcceptsWithin (downConv (π := π) r z) (r - 1 + 1) :=
  acceptsWithin_of_measure _ (downInv r) (by simpa [downInv, downConv] using hr) (downConv_inv_step r hr z)
    (fun m => r - 1 - m) (r - 1) (fun m _ => Nat.sub_le _ _) (fun m i h hc => downConv_acc_dec r z m i h hc)

/-! ## Cast (`mapElem f`, any combinational re-labelling of the data) -/

theorem cast_stable (f : α → β) : KeepsContract (mapElem f) :=
  keepsContract_of_stepStable (mapElem_stepStable f) trivial

theorem cast_no_livelock (f : α → β) : DeliversWithin (mapElem f) 1 :=
  (mapElem_measure f).delivers trivial

/-! ## Gate

  The model carries `enable` with the sink-side wires: a sink token is `(payload, enable)`.  The producer contract
  `StableIn` therefore *includes* "enable is held while a token is refused" — the explicit selector hypothesis of
  this element.  Without it the gate retracts by design (negative witness below). -/

theorem gate_stable (srd : Bool) (z : α) : KeepsContract (gate srd z) :=
  keepsContract_of_stepStable (gate_stepStable srd z) trivial

/-- Sharper one-cycle form with the two roles separated: the *producer* re-offers valid/payload/first/last of a
    refused token (`GateHoldsIn`: nothing is asked of `enable`), and whoever drives `enable` holds it while a
    token waits at the *source* (`EnableHeld`). -/
theorem gate_stable_sharp (srd : Bool) (z : α) (i i' : In (α × Bool))
    (hin : GateHoldsIn i i' ((gate srd z).out () i).ready) (hen : EnableHeld i i' ((gate srd z).out () i)) :
    HoldsOut ((gate srd z).out () i) ((gate srd z).out ((gate srd z).step () i) i') i :=
  gate_hold_sharp srd z i i' hin hen

/-- Cooperative and enabled: a delivery in every cycle. -/
theorem gate_no_livelock (srd : Bool) (z : α) : DeliversWithinC (gate srd z) GateCoop 1 :=
  deliversWithin_of_window _ (fun _ => True) trivial (fun _ _ _ => trivial) 1
    (fun s ins _ hc hl => gate_del_window srd z s ins hc hl)

/-- Negative witness: the payload is held but `enable` drops while the token waits → `source.valid` retracts. -/
example :
    let ins : List (In (Nat × Bool)) := [⟨true, ⟨(5, true), false, false⟩, false⟩, ⟨true, ⟨(5, false), false, false⟩, false⟩]
    ¬ StableOut (gate false (0 : Nat)) () ins := by
  simp [StableOut, StableOutFrom, HoldsOut, gate, Elem.out]

/-! ## Shifter (PipelinedActor, latency 2)

  `source.data` is selected combinationally by the `shift` input (sink token data = (data, shift)); the contract
  needs `ShiftHeld`: while a token waits at the source (`valid_2 ∧ ¬source.ready`) the `shift` input is held. -/

theorem shifter_stable (dw : Nat) : KeepsContractX (shifter dw) ShiftHeld :=
  keepsContractX_of_stepStable (shifter_stepStable dw) trivial

theorem shifter_progress (dw : Nat) : AcceptsWithin (shifter dw) 1 :=
  (shifter_readyTransparent dw).accepts trivial (fun _ _ _ => trivial)

/-- `pipe_ce = source.ready | ~valid`: a delivery at least every `L + 1 = 3` cooperative cycles. -/
theorem shifter_no_livelock (dw : Nat) : DeliversWithin (shifter dw) 3 :=
  (shifter_measure dw).delivers trivial

/-- Negative witness: `shift` moves (0 → 1) while the token waits → the source data changes (r = 0b1001:
    `r[0:2] = 1`, `r[1:3] = 0`). -/
example :
    let s : ShState := { v1 := false, v2 := true, f1 := false, f2 := false, l1 := false, l2 := false, rlo := 1, rhi := 2 }
    let i  : In (Nat × Nat) := ⟨false, ⟨(0, 0), false, false⟩, false⟩
    let i' : In (Nat × Nat) := ⟨false, ⟨(0, 1), false, false⟩, false⟩
    ¬ HoldsOut ((shifter 2).out s i) ((shifter 2).out ((shifter 2).step s i) i') i := by
  intro s i i' h
  have h2 := (h rfl rfl).2
  revert h2
  decide

/-! ## Delay n (n PipeValid stages in a Pipeline) -/

theorem delay_stable (z : Tok α) (n : Nat) : KeepsContract (delay z n) :=
  keepsContract_of_stepStable (delay_stepStable z n) trivial

theorem delay_progress (z : Tok α) (n : Nat) : AcceptsWithin (delay z n) 1 :=
  (delay_readyTransparent z n).accepts trivial (fun _ _ _ => trivial)

/-- By induction over the stages with `Front.comp`: a delivery at least every `n + 1` cooperative cycles. -/
theorem delay_no_livelock (z : Tok α) (n : Nat) : DeliversWithin (delay z n) (n + 1) := by
  obtain ⟨μ, h⟩ := delay_measure z n
  exact h.delivers trivial

/-! ## BufferizeEndpoints around an _UpConverter: PipeValid ⟫ upConv ⟫ PipeValid (a 3-element composition) -/

theorem bufferized_stable {π : Type} (r : Nat) (z1 : Tok (α × π)) (z : α) (p0 : π) (z2 : Tok (UpWord α π)) :
    KeepsContract ((pipeValid z1).comp ((upConv r z p0).comp (pipeValid z2))) :=
  keepsContract_of_stepStable
    ((pipeValid_stepStable z1).comp ((upConv_stepStable r z p0).comp (pipeValid_stepStable z2)))
    ⟨trivial, trivial, trivial⟩

theorem bufferized_no_livelock {π : Type} (r : Nat) (hr : 0 < r) (z1 : Tok (α × π)) (z : α) (p0 : π)
    (z2 : Tok (UpWord α π)) :
    DeliversWithin ((pipeValid z1).comp ((upConv r z p0).comp (pipeValid z2))) (r + 3) :=
  ((pipeValid_front z1).comp (Back.comp (upConv_measure r hr z p0) (pipeValid_back z2))).delivers
    ⟨trivial, by simpa [upInv, upConv, Elem.comp] using hr, trivial⟩

theorem bufferized_progress {π : Type} (r : Nat) (hr : 0 < r) (z1 : Tok (α × π)) (z : α) (p0 : π)
    (z2 : Tok (UpWord α π)) :
    AcceptsWithin ((pipeValid z1).comp ((upConv r z p0).comp (pipeValid z2))) 1 :=
  (ReadyTransparent.comp (Ia := fun _ => True) (fun s v t _ => (pipeValid_back z1).ready s v t trivial)
    (ReadyTransparent.comp (upConv_readyTransparent r z p0)
      (Ib := fun _ => True) (fun s v t _ => (pipeValid_back z2).ready s v t trivial))).accepts
    ⟨trivial, by simpa [upInv, upConv, Elem.comp] using hr, trivial⟩
    ((pipeValid_front z1).comp (Back.comp (upConv_measure r hr z p0) (pipeValid_back z2))).inv_step

/-- The driver's `bufferized_up r` machine is this composition. -/
example (r : Nat) : bufferizedUp r =
    (pipeValid ⟨(0, 0), false, false⟩).comp ((upConv r 0 0).comp (pipeValid ⟨⟨List.replicate r 0, 0, 0⟩, false, false⟩)) := rfl

/-! ## A mixed 3-element Pipeline: PipeValid ⟫ SyncFIFO(depth) ⟫ PipeReady -/

theorem chain3_stable (depth : Nat) (z : Tok α) :
    KeepsContract ((pipeValid z).comp ((syncFifo depth z).comp (pipeReady z))) :=
  keepsContract_of_stepStable
    ((pipeValid_stepStable z).comp ((syncFifo_stepStable depth z).comp (pipeReady_stepStable z)))
    ⟨trivial, by simp [fifoInv, syncFifo, Elem.comp], by simp [prInv, pipeReady, Elem.comp]⟩

/-- PipeReady delivers at once (B = 0), the FIFO and PipeValid in front of it are front elements: a delivery at
    least every 3 cooperative cycles from every reachable state of the chain. -/
theorem chain3_no_livelock (depth : Nat) (hd : 2 ≤ depth) (z : Tok α) :
    DeliversWithin ((pipeValid z).comp ((syncFifo depth z).comp (pipeReady z))) 3 :=
  ((pipeValid_front z).comp ((syncFifo_front depth hd z).comp (pipeReady_measure z))).delivers
    ⟨trivial, by simp [fifoInv, syncFifo, Elem.comp], by simp [prInv, pipeReady, Elem.comp]⟩

/-- ... and a handshake in every cooperative cycle (parked token → delivery; FIFO non-empty → delivery through
    PipeReady; FIFO empty → writable → PipeValid accepts). -/
theorem chain3_progress (depth : Nat) (hd : 0 < depth) (z : Tok α) :
    ProgressWithin ((pipeValid z).comp ((syncFifo depth z).comp (pipeReady z))) 1 :=
  progressWithin_of_window _ (fun s => True ∧ (fifoInv depth s.2.1 ∧ prInv s.2.2))
    ⟨trivial, by simp [fifoInv, syncFifo, Elem.comp], by simp [prInv, pipeReady, Elem.comp]⟩
    ((pipeValid_stepStable z).comp ((syncFifo_stepStable depth z).comp (pipeReady_stepStable z))).inv_step 1
    (fun s ins hs hc hl => chain3_hs_window depth hd z s hs.2.2 ins hc hl)

/-! ## Gearbox (`L = io_lcm` as computed by the constructor) -/

theorem gearbox_stable (i o : Nat) (hi : 0 < i) (ho : 0 < o) (z : α) :
    KeepsContract (gearbox (ioLcm i o) i o z) := by
  obtain ⟨hiL, hoL, h2i, h2o⟩ := ioLcm_facts i o hi ho
  exact keepsContract_of_stepStable (gearbox_stepStable _ i o hi ho hiL hoL z) (gbInv_init _ i o hi ho h2i h2o z)

/-- `io_lcm ≥ 2·max(i, o)`: whenever the sink is not ready (`level ≥ io_lcm − i`) the source is valid
    (`level ≥ o`), so every cooperative cycle has a handshake — no deadlock. -/
theorem gearbox_progress (i o : Nat) (hi : 0 < i) (ho : 0 < o) (z : α) :
    ProgressWithin (gearbox (ioLcm i o) i o z) 1 := by
  obtain ⟨hiL, hoL, h2i, h2o⟩ := ioLcm_facts i o hi ho
  exact progressWithin_of_window _ (gbInv _ i o z) (gbInv_init _ i o hi ho h2i h2o z)
    (gbInv_step _ i o hi ho hiL hoL z) 1 (fun s ins _ hc hl => gearbox_hs_window _ i o h2i h2o z s ins hc hl)

/-- A source word at least every `⌈o / i⌉ + 1` cooperative cycles. -/
theorem gearbox_no_livelock (i o : Nat) (hi : 0 < i) (ho : 0 < o) (z : α) :
    DeliversWithin (gearbox (ioLcm i o) i o z) ((o + (i - 1)) / i + 1) := by
  obtain ⟨hiL, hoL, h2i, h2o⟩ := ioLcm_facts i o hi ho
  exact (gearbox_measure _ i o hi ho hiL hoL h2i h2o z).delivers (gbInv_init _ i o hi ho h2i h2o z)

/-! ## Multiplexer / Demultiplexer (combinational; the selector hypothesis is explicit) -/

/-- Along any input list on which (`hsel`) the selector is held while a token waits at the source and (`hprod`)
    every sink producer re-offers a refused token, the source keeps the contract at every cycle boundary. -/
theorem mux_stable (n : Nat) (z : Tok α) (ins : List (MuxIn α))
    (hsel : ∀ t i i', ins[t]? = some i → ins[t + 1]? = some i' →
      (muxOut n z i).valid = true → i.ready = false → i'.sel = i.sel)
    (hprod : ∀ t i i' k, ins[t]? = some i → ins[t + 1]? = some i' →
      (i.sinks.getD k (false, z)).1 = true → (muxOut n z i).readies.getD k false = false →
      i'.sinks.getD k (false, z) = (true, (i.sinks.getD k (false, z)).2)) :
    ∀ t i i', ins[t]? = some i → ins[t + 1]? = some i' → (muxOut n z i).valid = true → i.ready = false →
      ((muxOut n z i').valid = true ∧ (muxOut n z i').tok = (muxOut n z i).tok) :=
  mux_stable_trace n z ins hsel hprod

/-- The selected token moves in the very cycle in which its sink offers and the consumer is ready. -/
theorem mux_progress (n : Nat) (z : Tok α) (i : MuxIn α) (hlt : i.sel < n)
    (hv : (i.sinks.getD i.sel (false, z)).1 = true) (hr : i.ready = true) :
    muxDel n z i = [(i.sinks.getD i.sel (false, z)).2] ∧
    muxAccAt n z i.sel i = [(i.sinks.getD i.sel (false, z)).2] :=
  mux_moves n z i hlt hv hr

theorem demux_stable (n : Nat) (z : Tok α) (ins : List (DemuxIn α))
    (hsel : ∀ t i i', ins[t]? = some i → ins[t + 1]? = some i' →
      i.valid = true → (demuxOut n z i).ready = false → i'.sel = i.sel)
    (hprod : ∀ t i i', ins[t]? = some i → ins[t + 1]? = some i' →
      i.valid = true → (demuxOut n z i).ready = false → (i'.valid = true ∧ i'.tok = i.tok)) :
    ∀ t i i' k, ins[t]? = some i → ins[t + 1]? = some i' →
      ((demuxOut n z i).sources.getD k (false, z)).1 = true → i.readies.getD k false = false →
      (((demuxOut n z i').sources.getD k (false, z)).1 = true ∧
       ((demuxOut n z i').sources.getD k (false, z)).2 = ((demuxOut n z i).sources.getD k (false, z)).2) :=
  demux_stable_trace n z ins hsel hprod

theorem demux_progress (n : Nat) (z : Tok α) (i : DemuxIn α) (hlt : i.sel < n) (hv : i.valid = true)
    (hr : i.readies.getD i.sel false = true) :
    demuxAcc n z i = [i.tok] ∧ demuxDelAt n z i.sel i = [i.tok] :=
  demux_moves n z i hlt hv hr

/-- Negative witness for the selector hypothesis: sink 0 offers and holds, the consumer stalls, `sel` moves to the
    idle sink 1 → `source.valid` retracts. -/
example :
    let z : Tok Nat := ⟨0, false, false⟩
    let i  : MuxIn Nat := { sel := 0, sinks := [(true, ⟨7, true, false⟩), (false, z)], ready := false }
    let i' : MuxIn Nat := { sel := 1, sinks := [(true, ⟨7, true, false⟩), (false, z)], ready := false }
    (muxOut 2 z i).valid = true ∧ (muxOut 2 z i').valid = false := by decide


/-! ## The composition-closed class `Good` (= `StepStable` + `Live`): stability and progress of ANY pipeline

  `Live e Inv μ B`: while the producer offers (any `source.ready`) the element offers or `μ ≤ B` strictly decreases, and
  `μ` never increases in a cycle in which the element does not offer.  This single condition implies `OfferMeasure`,
  `DelMeasure` and `IdleMono` (the three hypotheses of `compose_progress_general`) and is preserved by `⟫`
  (`Live.comp`), so the side condition is discharged once per element class (`X_live`) and never again. -/

/-- Closure: `a ⟫ b` is `Good` when `a` and `b` are; delivery window `(B_b + 1)·(B_a + 1)`. -/
theorem compose_good {a : Elem α β σ} {b : Elem β γ τ} {Ia : σ → Prop} {Ib : τ → Prop}
    {μa : σ → Nat} {Ba : Nat} {μb : τ → Nat} {Bb : Nat} (ha : Good a Ia μa Ba) (hb : Good b Ib μb Bb) :
    Good (a.comp b) (fun s => Ia s.1 ∧ Ib s.2) (fun s => μb s.2 * (Ba + 1) + μa s.1) (Bb * (Ba + 1) + Ba) :=
  Good.comp ha hb

theorem good_stable {e : Elem α β σ} {Inv : σ → Prop} {μ : σ → Nat} {B : Nat} (h : Good e Inv μ B)
    (h0 : Inv e.init) : KeepsContract e := h.keepsContract h0

theorem good_no_livelock {e : Elem α β σ} {Inv : σ → Prop} {μ : σ → Nat} {B : Nat} (h : Good e Inv μ B)
    (h0 : Inv e.init) : DeliversWithin e (B + 1) := h.delivers h0

/-- `compose_progress_general` with both side conditions discharged by class membership. -/
theorem compose_progress_auto {a : Elem α β σ} {b : Elem β γ τ} {Ia : σ → Prop} {Ib : τ → Prop}
    {μa : σ → Nat} {Ba : Nat} {μb : τ → Nat} {Bb : Nat} (ha : Live a Ia μa Ba) (hb : Live b Ib μb Bb)
    (h0a : Ia a.init) (h0b : Ib b.init) : DeliversWithin (a.comp b) (Bb * (Ba + 1) + Ba + 1) :=
  compose_progress_general ha.offer hb.measure hb.idleMono h0a h0b

/-- The per-class lemmas (each is `Good`): PipeValid, PipeReady, connect, SyncFIFO, SyncFIFOBuffered, _UpConverter /
    Pack, _DownConverter / Unpack (without and with the count flag), Cast. -/
theorem element_classes_good (z : Tok α) {π : Type} (zp : α) (p0 : π) (d r : Nat) (hd : 1 ≤ d) (hr : 0 < r)
    (f : α → β) :
    Good (pipeValid z) (fun _ => True) (fun s => if s.valid then 0 else 1) 1 ∧
    Good (pipeReady z) prInv (fun _ => 0) 0 ∧
    Good (wire (α := α)) (fun _ => True) (fun _ => 0) 0 ∧
    Good (syncFifo d z) (fifoInv d) (fun q => if q.isEmpty then 1 else 0) 1 ∧
    Good (syncFifoBuffered d z) (fbInv d) (fun s => if s.readable then 0 else if s.q.isEmpty then 2 else 1) 2 ∧
    Good (upConv r zp p0) (upInv r) (upMu r) r ∧
    Good (downConv (π := π) r zp) (downInv r) (fun _ => 0) 0 ∧
    Good (downConvV (π := π) r zp) (downInv r) (fun _ => 0) 0 ∧
    Good (mapElem f) (fun _ => True) (fun _ => 0) 0 :=
  ⟨pipeValid_good z, pipeReady_good z, wire_good, syncFifo_good d hd z, syncFifoBuffered_good d hd z,
   upConv_good r hr zp p0, downConv_good r hr zp, downConvV_good r hr zp, mapElem_good f⟩

/-- A heterogeneous example obtained with no side condition at all: `_DownConverter(r₁) ⟫ PipeValid ⟫ _UpConverter(r₂)
    ⟫ SyncFIFOBuffered(d)` keeps the contract and delivers at least every `3·(r₂ + 1)·2·1` cooperative cycles. -/
theorem mixed_chain_good {π : Type} (r1 r2 d : Nat) (h1 : 0 < r1) (h2 : 0 < r2) (hd : 1 ≤ d) (z : α) (p0 : π)
    (z1 : Tok (α × π)) (z2 : Tok (UpWord α π)) :
    KeepsContract ((downConv r1 z).comp ((pipeValid z1).comp ((upConv r2 z p0).comp (syncFifoBuffered d z2)))) ∧
    DeliversWithin ((downConv r1 z).comp ((pipeValid z1).comp ((upConv r2 z p0).comp (syncFifoBuffered d z2))))
      (((2 * (r2 + 1) + r2) * (1 + 1) + 1) * (0 + 1) + 0 + 1) := by
  have g := compose_good (downConv_good (π := π) r1 h1 z)
    (compose_good (pipeValid_good z1) (compose_good (upConv_good r2 h2 z p0) (syncFifoBuffered_good d hd z2)))
  have h0 : downInv r1 (downConv (π := π) r1 z).init ∧ True ∧ upInv r2 (upConv r2 z p0).init ∧
      fbInv d (syncFifoBuffered d z2).init :=
    ⟨by simpa [downInv, downConv] using h1, trivial, by simpa [upInv, upConv] using h2,
     by simp [fbInv, syncFifoBuffered]⟩
  exact ⟨g.keepsContract h0, g.delivers h0⟩

/-! ## Pipeline(m_1, …, m_n) over ANY list of stages (connect, PipeValid, PipeReady, SyncFIFO d, SyncFIFOBuffered d):
    by induction over the list (`stages_good`) -/

theorem pipeline_stable (z : Tok α) (l : List Stage) (hl : ∀ st ∈ l, stageOk st) : KeepsContract (stages z l) :=
  (stages_good z l hl).keepsContract (pipeInv_init z l)

/-- A delivery at least every `pipeB l + 1 = ∏ (window of stage k)` cooperative cycles, from every reachable state. -/
theorem pipeline_no_livelock (z : Tok α) (l : List Stage) (hl : ∀ st ∈ l, stageOk st) :
    DeliversWithin (stages z l) (pipeB l + 1) :=
  (stages_good z l hl).delivers (pipeInv_init z l)

theorem pipeline_progress (z : Tok α) (l : List Stage) (hl : ∀ st ∈ l, stageOk st) :
    ProgressWithin (stages z l) (pipeB l + 1) := (pipeline_no_livelock z l hl).progress

/-- Pipelines of connect / PipeValid stages (Delay, Buffer(pipe_valid)) serve their sink in every cooperative cycle. -/
theorem pipeline_accepts (z : Tok α) (l : List Stage) (hl : ∀ st ∈ l, stageRT st) (hok : ∀ st ∈ l, stageOk st) :
    AcceptsWithin (stages z l) 1 :=
  (stages_readyTransparent z l hl).accepts (pipeInv_init z l) (stages_good z l hok).live.inv_step

/-- Non-vacuity: the window of `Pipeline(PipeValid, SyncFIFO(2), PipeReady)` is 2·2·1 = 4, of
    `Pipeline(PipeReady, SyncFIFO(16, buffered), SyncFIFO(3), PipeReady, PipeValid, connect, SyncFIFO(2))` 24; four
    cooperative cycles through the former from reset deliver 2 tokens. -/
example : pipeB [.pv, .fifo 2, .pr] + 1 = 4 ∧ pipeB [.pr, .fifoB 16, .fifo 3, .pr, .pv, .wire, .fifo 2] + 1 = 24 ∧
    (let c : In Nat := ⟨true, ⟨1, false, false⟩, true⟩
     ((stages zTok [.pv, .fifo 2, .pr]).delivered (stages zTok [.pv, .fifo 2, .pr]).init [c, c, c, c]).length = 2) := by
  decide

/-! ### Tight (additive) windows for pipelines of stages

  For store-and-forward stages the windows add instead of multiplying (`Flow.comp`: once a token is in the downstream
  part it drains whatever the upstream part does): a delivery at least every `1 + Σ stageLat` cooperative cycles,
  `stageLat` = 0 (connect, PipeReady), 1 (PipeValid, SyncFIFO), 2 (SyncFIFOBuffered). -/

theorem pipeline_no_livelock_tight (z : Tok α) (l : List Stage) (hl : ∀ st ∈ l, stageOk st) :
    DeliversWithin (stages z l) (pipeLat l + 1) :=
  (stages_drain z l hl).delivers (pipeInv_init z l)

theorem pipeline_progress_tight (z : Tok α) (l : List Stage) (hl : ∀ st ∈ l, stageOk st) :
    ProgressWithin (stages z l) (pipeLat l + 1) := (pipeline_no_livelock_tight z l hl).progress

/-- The bound is attained: the 7-stage pipeline of the B-mode grid has window 6 (the product bound is 24); five
    cooperative cycles from reset deliver nothing, six deliver one token. -/
example :
    let l : List Stage := [.pr, .fifoB 16, .fifo 3, .pr, .pv, .wire, .fifo 2]
    let c : In Nat := ⟨true, ⟨1, false, true⟩, true⟩
    pipeLat l + 1 = 6 ∧ ((stages zTok l).delivered (stages zTok l).init (List.replicate 5 c)).length = 0 ∧
    ((stages zTok l).delivered (stages zTok l).init (List.replicate 6 c)).length = 1 := by decide

theorem buffer_no_livelock_tight (z : Tok α) (pv pr : Bool) :
    DeliversWithin (stages z (bufferStages pv pr)) (pipeLat (bufferStages pv pr) + 1) :=
  pipeline_no_livelock_tight z _ (bufferStages_ok pv pr)

/-- `SyncFIFO(layout, depth, buffered)`, every depth: a delivery at least every 3 cooperative cycles. -/
theorem syncFifoAny_no_livelock_tight (z : Tok α) (depth : Nat) (buffered : Bool) :
    DeliversWithin (stages z (syncFifoStages depth buffered)) (pipeLat (syncFifoStages depth buffered) + 1) ∧
    pipeLat (syncFifoStages depth buffered) + 1 ≤ 3 :=
  ⟨pipeline_no_livelock_tight z _ (syncFifoStages_ok depth buffered),
   Nat.succ_le_succ (pipeLat_syncFifoStages_le depth buffered)⟩

/-- `Delay(layout, n)`: window exactly `n + 1`. -/
theorem delayn_no_livelock_tight (z : Tok α) (n : Nat) : DeliversWithin (stages z (delayStages n)) (n + 1) := by
  have h := pipeline_no_livelock_tight z _ (delayStages_ok n)
  rw [pipeLat_delayStages] at h
  exact h

theorem cdcSame_no_livelock_tight (z : Tok α) (b : Bool) :
    DeliversWithin (stages z (cdcSameStages b)) (pipeLat (cdcSameStages b) + 1) :=
  pipeline_no_livelock_tight z _ (cdcSameStages_ok b)

/-! ### The stage selections of stream.py: every constructor call gives a legal stage list -/

theorem buffer_stable (z : Tok α) (pv pr : Bool) : KeepsContract (stages z (bufferStages pv pr)) :=
  pipeline_stable z _ (bufferStages_ok pv pr)

theorem buffer_no_livelock (z : Tok α) (pv pr : Bool) :
    DeliversWithin (stages z (bufferStages pv pr)) (pipeB (bufferStages pv pr) + 1) :=
  pipeline_no_livelock z _ (bufferStages_ok pv pr)

/-- `SyncFIFO(layout, depth, buffered)` for EVERY depth (0: connect, 1: Buffer, ≥ 2: the Migen FIFOs). -/
theorem syncFifoAny_stable (z : Tok α) (depth : Nat) (buffered : Bool) :
    KeepsContract (stages z (syncFifoStages depth buffered)) :=
  pipeline_stable z _ (syncFifoStages_ok depth buffered)

theorem syncFifoAny_no_livelock (z : Tok α) (depth : Nat) (buffered : Bool) :
    DeliversWithin (stages z (syncFifoStages depth buffered)) (pipeB (syncFifoStages depth buffered) + 1) :=
  pipeline_no_livelock z _ (syncFifoStages_ok depth buffered)

/-- The window is at most 3 whatever the depth. -/
theorem syncFifoAny_window (depth : Nat) (buffered : Bool) : pipeB (syncFifoStages depth buffered) + 1 ≤ 3 := by
  unfold syncFifoStages
  by_cases h2 : depth ≥ 2
  · cases buffered <;> simp [h2, pipeB, stageB]
  · by_cases h1 : depth = 1
    · simp [h1, bufferStages, pipeB, stageB]
    · simp [h2, h1, pipeB]

theorem delayn_stable (z : Tok α) (n : Nat) : KeepsContract (stages z (delayStages n)) :=
  pipeline_stable z _ (delayStages_ok n)

theorem delayn_no_livelock (z : Tok α) (n : Nat) :
    DeliversWithin (stages z (delayStages n)) (pipeB (delayStages n) + 1) :=
  pipeline_no_livelock z _ (delayStages_ok n)

theorem delayn_accepts (z : Tok α) (n : Nat) : AcceptsWithin (stages z (delayStages n)) 1 :=
  pipeline_accepts z _ (delayStages_rt n) (delayStages_ok n)

theorem cdcSame_stable (z : Tok α) (b : Bool) : KeepsContract (stages z (cdcSameStages b)) :=
  pipeline_stable z _ (cdcSameStages_ok b)

theorem cdcSame_no_livelock (z : Tok α) (b : Bool) :
    DeliversWithin (stages z (cdcSameStages b)) (pipeB (cdcSameStages b) + 1) :=
  pipeline_no_livelock z _ (cdcSameStages_ok b)

/-! ## BufferizeEndpoints({sink?, source?}, pipe_valid, pipe_ready) around ANY `Good` element -/

theorem bufferize_stable {ρ : Type} (bs bd pv pr : Bool) (zi : Tok α) (zo : Tok β) {e : Elem α β ρ}
    {Inv : ρ → Prop} {μ : ρ → Nat} {B : Nat} (he : Good e Inv μ B) (h0 : Inv e.init) :
    KeepsContract (bufferize bs bd pv pr zi zo e) := by
  obtain ⟨I, m, K, hg, hi, _⟩ := bufferize_good bs bd pv pr zi zo he
  exact hg.keepsContract (hi h0)

/-- Window = (window of the source buffer) · (window of the element) · (window of the sink buffer). -/
theorem bufferize_no_livelock {ρ : Type} (bs bd pv pr : Bool) (zi : Tok α) (zo : Tok β) {e : Elem α β ρ}
    {Inv : ρ → Prop} {μ : ρ → Nat} {B : Nat} (he : Good e Inv μ B) (h0 : Inv e.init) :
    DeliversWithin (bufferize bs bd pv pr zi zo e)
      ((pipeB (if bd then bufferStages pv pr else []) + 1) * (B + 1) *
       (pipeB (if bs then bufferStages pv pr else []) + 1)) := by
  obtain ⟨I, m, K, hg, hi, hK⟩ := bufferize_good bs bd pv pr zi zo he
  rw [← hK]
  exact hg.delivers (hi h0)

/-- Instances served by the driver (`bufferize … up …` / `bufferize … down …`). -/
theorem bufferize_up_stable {π : Type} (bs bd pv pr : Bool) (r : Nat) (hr : 0 < r) (zi : Tok (α × π))
    (zo : Tok (UpWord α π)) (z : α) (p0 : π) : KeepsContract (bufferize bs bd pv pr zi zo (upConv r z p0)) :=
  bufferize_stable bs bd pv pr zi zo (upConv_good r hr z p0)
    (by simpa [upInv, upConv] using hr)

theorem bufferize_up_no_livelock {π : Type} (bs bd pv pr : Bool) (r : Nat) (hr : 0 < r) (zi : Tok (α × π))
    (zo : Tok (UpWord α π)) (z : α) (p0 : π) :
    DeliversWithin (bufferize bs bd pv pr zi zo (upConv r z p0))
      ((pipeB (if bd then bufferStages pv pr else []) + 1) * (r + 1) *
       (pipeB (if bs then bufferStages pv pr else []) + 1)) :=
  bufferize_no_livelock bs bd pv pr zi zo (upConv_good r hr z p0)
    (by simpa [upInv, upConv] using hr)

/-- Without PipeReady the sink of a bufferized up-converter is served in every cooperative cycle. -/
theorem bufferize_up_accepts {π : Type} (bs bd pv : Bool) (r : Nat) (hr : 0 < r) (zi : Tok (α × π))
    (zo : Tok (UpWord α π)) (z : α) (p0 : π) : AcceptsWithin (bufferize bs bd pv false zi zo (upConv r z p0)) 1 :=
  (bufferize_readyTransparent bs bd pv zi zo (upConv_readyTransparent r z p0)).accepts
    ⟨pipeInv_init zi _, (show upInv r (upConv r z p0).init by simpa [upInv, upConv] using hr), pipeInv_init zo _⟩
    (fun s i h => by
      have hs : ∀ st ∈ (if bs then bufferStages pv false else []), stageOk st := by
        intro st hst; cases bs
        · simp at hst
        · exact bufferStages_ok pv false st (by simpa using hst)
      have hd : ∀ st ∈ (if bd then bufferStages pv false else []), stageOk st := by
        intro st hst; cases bd
        · simp at hst
        · exact bufferStages_ok pv false st (by simpa using hst)
      exact ((stages_good zi _ hs).live.comp ((upConv_live r hr z p0).comp (stages_good zo _ hd).live)).inv_step s i h)

theorem bufferize_down_stable {π : Type} (bs bd pv pr : Bool) (r : Nat) (hr : 0 < r) (zi : Tok (List α × π))
    (zo : Tok ((α × π) × Bool)) (z : α) : KeepsContract (bufferize bs bd pv pr zi zo (downConvV r z)) :=
  bufferize_stable bs bd pv pr zi zo (downConvV_good r hr z) (by simpa [downInv, downConvV, downConv] using hr)

theorem bufferize_down_no_livelock {π : Type} (bs bd pv pr : Bool) (r : Nat) (hr : 0 < r) (zi : Tok (List α × π))
    (zo : Tok ((α × π) × Bool)) (z : α) :
    DeliversWithin (bufferize bs bd pv pr zi zo (downConvV r z))
      ((pipeB (if bd then bufferStages pv pr else []) + 1) * (0 + 1) *
       (pipeB (if bs then bufferStages pv pr else []) + 1)) :=
  bufferize_no_livelock bs bd pv pr zi zo (downConvV_good r hr z) (by simpa [downInv, downConvV, downConv] using hr)

/-- The driver's machines are these compositions. -/
example (bs bd pv pr : Bool) (r : Nat) :
    bufferize bs bd pv pr zUpIn (zUpOut r) (upConv r 0 0) =
      (stages zUpIn (if bs then bufferStages pv pr else [])).comp
        ((upConv r 0 0).comp (stages (zUpOut r) (if bd then bufferStages pv pr else []))) := rfl

/-! ## Converter(nbits_from, nbits_to): whatever class `_get_converter_ratio` selects, its ratio is ≥ 1, so the
    converter theorems apply to every constructor call that does not raise -/

theorem converter_up_stable_and_live {π : Type} (nf nt r : Nat) (hf : 0 < nf) (ht : 0 < nt)
    (h : converterKind nf nt = some (.up, r)) (z : α) (p0 : π) :
    nt = r * nf ∧ KeepsContract (upConv r z p0) ∧ AcceptsWithin (upConv r z p0) 1 ∧
    DeliversWithin (upConv r z p0) (r + 1) := by
  obtain ⟨hr, hup, _, _⟩ := converterKind_ratio nf nt hf ht _ _ h
  exact ⟨hup rfl, upConv_stable r z p0, upConv_progress r hr z p0, upConv_no_livelock r hr z p0⟩

theorem converter_down_stable_and_live {π : Type} (nf nt r : Nat) (hf : 0 < nf) (ht : 0 < nt)
    (h : converterKind nf nt = some (.down, r)) (z : α) :
    nf = r * nt ∧ KeepsContract (downConv (π := π) r z) ∧ DeliversWithin (downConv (π := π) r z) 1 ∧
    AcceptsWithin (downConv (π := π) r z) (r - 1 + 1) := by
  obtain ⟨hr, _, hdn, _⟩ := converterKind_ratio nf nt hf ht _ _ h
  exact ⟨hdn rfl, downConv_stable r z, downConv_no_livelock r hr z, downConv_accepts r hr z⟩

theorem converter_ident_stable_and_live {π : Type} (nf nt r : Nat) (hf : 0 < nf) (ht : 0 < nt)
    (h : converterKind nf nt = some (.ident, r)) (z : α) :
    nf = nt ∧ r = 1 ∧ KeepsContract (downConv (π := π) 1 z) ∧ DeliversWithin (downConv (π := π) 1 z) 1 := by
  obtain ⟨_, _, _, hid⟩ := converterKind_ratio nf nt hf ht _ _ h
  exact ⟨(hid rfl).1, (hid rfl).2, downConv_stable 1 z, downConv_no_livelock 1 (by omega) z⟩

/-- Non-vacuity / negative side: 8→24 selects up ×3, 24→8 down ×3, 8→8 identity, 8→12 raises. -/
example : converterKind 8 24 = some (.up, 3) ∧ converterKind 24 8 = some (.down, 3) ∧
    converterKind 8 8 = some (.ident, 1) ∧ converterKind 8 12 = none := by decide

/-! ## Monitor: watching an endpoint does not touch its handshake -/

/-- The complete output trace (sink.ready, source.valid, source token) of an element with a Monitor on its source is
    the trace of the element alone, from every pair of states and for every input list. -/
theorem monitored_transparent {ρ : Type} (e : Elem α β ρ) (w : Nat) (cfg : MonCfg) (df : Bool) (s : ρ × MonState)
    (ins : List (In α)) : (monitored e w cfg df).outs s ins = e.outs s.1 ins :=
  monitored_outs e w cfg df ins s

theorem monitored_stable {ρ : Type} {e : Elem α β ρ} {Inv : ρ → Prop} {μ : ρ → Nat} {B : Nat} (h : Good e Inv μ B)
    (h0 : Inv e.init) (w : Nat) (cfg : MonCfg) (df : Bool) : KeepsContract (monitored e w cfg df) :=
  (monitored_good h w cfg df).keepsContract h0

theorem monitored_no_livelock {ρ : Type} {e : Elem α β ρ} {Inv : ρ → Prop} {μ : ρ → Nat} {B : Nat}
    (h : Good e Inv μ B) (h0 : Inv e.init) (w : Nat) (cfg : MonCfg) (df : Bool) :
    DeliversWithin (monitored e w cfg df) (B + 1) :=
  (monitored_good h w cfg df).delivers h0

/-- The driver's `monitored … c_1 … c_k` machines: a monitored pipeline of stages. -/
theorem monitored_pipeline (z : Tok α) (l : List Stage) (hl : ∀ st ∈ l, stageOk st) (w : Nat) (cfg : MonCfg)
    (df : Bool) :
    KeepsContract (monitored (stages z l) w cfg df) ∧ DeliversWithin (monitored (stages z l) w cfg df) (pipeB l + 1) :=
  ⟨monitored_stable (stages_good z l hl) (pipeInv_init z l) w cfg df,
   monitored_no_livelock (stages_good z l hl) (pipeInv_init z l) w cfg df⟩

/-- ... with the tight window of the pipeline (the Monitor adds no latency). -/
theorem monitored_pipeline_tight (z : Tok α) (l : List Stage) (hl : ∀ st ∈ l, stageOk st) (w : Nat) (cfg : MonCfg)
    (df : Bool) : DeliversWithin (monitored (stages z l) w cfg df) (pipeLat l + 1) :=
  (monitored_delMeasure (stages_drain z l hl).measure w cfg df).delivers (pipeInv_init z l)

/-- Non-vacuity: a PipeValid with a 4-bit token counter on its source — three cooperative cycles deliver two tokens
    and the counter has counted exactly those two source handshakes. -/
example :
    let m := monitored (stages zTok [.pv]) 4 ⟨true, false, false, false⟩ false
    let c : In Nat := ⟨true, ⟨1, false, true⟩, true⟩
    (m.delivered m.init [c, c, c]).length = 2 ∧ (m.runFrom m.init [c, c, c]).2.tokens.count = 2 := by decide

/-- Non-vacuity for BufferizeEndpoints (both endpoints, pipe_valid and pipe_ready, around `_UpConverter(ratio 2)`):
    window (1·2)·3·(1·2) = 12; seven cooperative cycles from reset deliver two words, four deliver none. -/
example :
    let e := bufferize true true true true zUpIn (zUpOut 2) (upConv 2 0 0)
    let c : In (Nat × Nat) := ⟨true, ⟨(1, 0), false, false⟩, true⟩
    (pipeB (bufferStages true true) + 1) * (2 + 1) * (pipeB (bufferStages true true) + 1) = 12 ∧
    (e.delivered e.init (List.replicate 7 c)).length = 2 ∧ (e.delivered e.init (List.replicate 4 c)).length = 0 := by
  decide

/-- What the counter shows: below saturation the token counter advances exactly on a source handshake. -/
theorem monitor_counts_handshakes (w : Nat) (cfg : MonCfg) (df : Bool) (s : MonState) (i : MonIn)
    (ht : cfg.tokens = true) (hr : i.reset = false) (hsat : s.tokens.count + 1 < 2 ^ w) :
    ((monitor w cfg df).next s i).tokens.count = s.tokens.count + (if i.valid && i.ready then 1 else 0) :=
  monitor_tokens_next w cfg df s i ht hr hsat

/-! ## PipelinedActor(latency = L) / BinaryActor control path, EVERY L (`pipe_ce = source.ready | ~valid_L`) -/

theorem pipeActor_stable (L : Nat) (z : Tok α) : KeepsContract (pipeActor L z) :=
  (pipeActor_good L z).keepsContract (by simp [paInv, pipeActor])

/-- `sink.ready = pipe_ce` follows `source.ready`: the sink is served in every cooperative cycle. -/
theorem pipeActor_progress (L : Nat) (z : Tok α) : AcceptsWithin (pipeActor L z) 1 :=
  (pipeActor_readyTransparent L z).accepts (by simp [paInv, pipeActor]) (pipeActor_inv_step L z)

/-- A token offered at the latest `L + 1` cooperative cycles after any reachable state (`trail` = number of empty
    trailing stages is the measure); `L = 0` is the combinational actor. -/
theorem pipeActor_no_livelock (L : Nat) (z : Tok α) : DeliversWithin (pipeActor L z) (L + 1) :=
  (pipeActor_good L z).delivers (by simp [paInv, pipeActor])

/-- Non-vacuity (L = 3): from reset the first delivery needs exactly 4 cooperative cycles. -/
example :
    let e := pipeActor 3 (⟨0, false, false⟩ : Tok Nat)
    let c : In Nat := ⟨true, ⟨1, true, false⟩, true⟩
    (e.delivered e.init [c, c, c, c]).length = 1 ∧ (e.delivered e.init [c, c, c]).length = 0 := by decide

/-! ## Crossbar (Demultiplexer feeding Multiplexer): both selectors travel with the sink wires, so the producer
    contract includes "selectors held while the token is refused" (negative witnesses: `mux`/`demux` above) -/

theorem crossbar_stable (n : Nat) (z : α) : KeepsContract (crossbar n z) :=
  keepsContract_of_stepStable (crossbar_stepStable n z) trivial

/-- Cooperative and routed (`demux.sel = mux.sel < n`): a delivery in every cycle. -/
theorem crossbar_no_livelock (n : Nat) (z : α) : DeliversWithinC (crossbar n z) (XbarCoop n) 1 :=
  deliversWithin_of_window _ (fun _ => True) trivial (fun _ _ _ => trivial) 1
    (fun s ins _ hc hl => crossbar_del_window n z s ins hc hl)

/-- Negative witness for the routing condition: selectors that disagree deliver nothing, however cooperative. -/
example :
    let c : In (Nat × Nat × Nat) := ⟨true, ⟨(5, 0, 1), false, false⟩, true⟩
    ((crossbar 2 (0 : Nat)).delivered () [c, c, c]).length = 0 := by decide

/-! ## Gearbox and StrideConverter(up) are members of the class too: they may stand anywhere in a pipeline -/

theorem gearbox_in_class (i o : Nat) (hi : 0 < i) (ho : 0 < o) (z : α) :
    Good (gearbox (ioLcm i o) i o z) (gbInv (ioLcm i o) i o z) (gbMu i o) ((o + (i - 1)) / i) :=
  gearbox_good i o hi ho z

theorem strideUp_in_class {π : Type} (r : Nat) (hr : 0 < r) (z : α) (p0 : π) :
    Good (strideUp r z p0) (fun s => upInv r s.1) (fun s => upMu r s.1) r :=
  strideUp_good r hr z p0

theorem pipeActor_in_class (L : Nat) (z : Tok α) : Good (pipeActor L z) (paInv L) trail L := pipeActor_good L z

/-- Example with no side condition: `PipeReady ⟫ Gearbox(i, o) ⟫ SyncFIFO(d)` for all widths and depths. -/
theorem gearbox_chain (i o d : Nat) (hi : 0 < i) (ho : 0 < o) (hd : 0 < d) (z : α) (z1 z2 : Tok (List α)) :
    KeepsContract ((pipeReady z1).comp ((gearbox (ioLcm i o) i o z).comp (syncFifo d z2))) ∧
    DeliversWithin ((pipeReady z1).comp ((gearbox (ioLcm i o) i o z).comp (syncFifo d z2)))
      ((1 * ((o + (i - 1)) / i + 1) + (o + (i - 1)) / i) * (0 + 1) + 0 + 1) := by
  obtain ⟨hiL, hoL, h2i, h2o⟩ := ioLcm_facts i o hi ho
  have g := compose_good (pipeReady_good z1) (compose_good (gearbox_good i o hi ho z) (syncFifo_good d hd z2))
  have h0 : prInv (pipeReady z1).init ∧ gbInv (ioLcm i o) i o z (gearbox (ioLcm i o) i o z).init ∧
      fifoInv d (syncFifo d z2).init :=
    ⟨by simp [prInv, pipeReady], gbInv_init _ i o hi ho h2i h2o z, by simp [fifoInv, syncFifo]⟩
  exact ⟨g.keepsContract h0, g.delivers h0⟩

/-! ## packet.Dispatcher -/

/-- Under cooperative slaves (every `slave_k.ready` high) `master.ready` is high in the same cycle, from *every*
    state and for *every* selector value — binary or one-hot, matched or not (an unmatched selector drains the
    packet through the `default` case).  Hence a master beat offered is transferred at once: K = 1. -/
theorem dispatcher_progress (m : Nat) (oneHot : Bool) (s : Litex.Packet.DispState) (i : Litex.Packet.DispIn)
    (hr : ∀ k, k < m → i.readys.getD k false = true) :
    ((Litex.Packet.dispatcher m oneHot).out s i).ready = true :=
  Litex.Packet.dispReady_of_all_ready m oneHot s i hr

/-- Non-vacuity incl. the unmatched selector: 3 slaves, binary `sel = 3`, all slaves ready, mid-packet state. -/
example :
    ((Litex.Packet.dispatcher 3 false).out { first := false, selOngoing := 3 }
      { master := { valid := true, data := 1, last := false }, sel := 0, readys := [true, true, true] }).ready = true ∧
    ((Litex.Packet.dispatcher 3 false).out { first := true, selOngoing := 0 }
      { master := { valid := true, data := 1, last := false }, sel := 1, readys := [true, false, true] }).ready = false := by
  decide

/-! ## packet.PacketFIFO (plain FIFOs)

  `PfLegal pd s i` is the documented store-and-forward limit as an explicit hypothesis on the producer: a non-last
  beat is offered only while the open packet, with it, still leaves room for its last beat — packets ≤
  `payload_depth`.  States are those reachable from reset by *any* valid/ready schedule within the limit (`pre`),
  then `ins` is cooperative (valid = 1, ready = 1) within the limit (`PfCoop`). -/

/-- No deadlock state is reachable: a handshake in every cooperative cycle (a full payload FIFO holds a complete
    packet, so it is offered; a full param FIFO is a non-empty one).  `param_depth` may be smaller than
    `payload_depth` (`qd = param_depth + 1 ≥ 1`). -/
theorem packetfifo_progress (pd qd : Nat) (hpd : 1 ≤ pd) (hqd : 1 ≤ qd) (pre ins : List (In Litex.Packet.PBeat))
    (hpre : RunC (Litex.Packet.packetFifo pd qd) (Litex.Packet.PfLegal pd) (Litex.Packet.packetFifo pd qd).init pre)
    (hins : RunC (Litex.Packet.packetFifo pd qd) (Litex.Packet.PfCoop pd)
      ((Litex.Packet.packetFifo pd qd).runFrom (Litex.Packet.packetFifo pd qd).init pre) ins)
    (n : Nat) (hn : n * 1 ≤ ins.length) :
    n ≤ (Litex.Packet.packetFifo pd qd).hsCount
      ((Litex.Packet.packetFifo pd qd).runFrom (Litex.Packet.packetFifo pd qd).init pre) ins :=
  Litex.Packet.packetFifo_progress_run pd qd hpd hqd _ (Litex.Packet.pfInv_reach pd qd hpd pre hpre) ins hins n hn

/-- No livelock: a beat of a complete packet is delivered at least every `payload_depth + 1` cooperative cycles. -/
theorem packetfifo_no_livelock (pd qd : Nat) (hpd : 1 ≤ pd) (hqd : 1 ≤ qd) (pre ins : List (In Litex.Packet.PBeat))
    (hpre : RunC (Litex.Packet.packetFifo pd qd) (Litex.Packet.PfLegal pd) (Litex.Packet.packetFifo pd qd).init pre)
    (hins : RunC (Litex.Packet.packetFifo pd qd) (Litex.Packet.PfCoop pd)
      ((Litex.Packet.packetFifo pd qd).runFrom (Litex.Packet.packetFifo pd qd).init pre) ins)
    (n : Nat) (hn : n * (pd + 1) ≤ ins.length) :
    n ≤ ((Litex.Packet.packetFifo pd qd).delivered
      ((Litex.Packet.packetFifo pd qd).runFrom (Litex.Packet.packetFifo pd qd).init pre) ins).length :=
  Litex.Packet.packetFifo_delivers_run pd qd hpd hqd _ (Litex.Packet.pfInv_reach pd qd hpd pre hpre) ins hins n hn

/-- Negative witness for the limit (payload_depth 2): two non-last beats fill the FIFO without a complete packet;
    three further cooperative cycles see no handshake at all.  And non-vacuity: a 2-beat packet goes through. -/
example :
    let e := Litex.Packet.packetFifo 2 3
    let b (l : Bool) : In Litex.Packet.PBeat := ⟨true, ⟨⟨1, 7⟩, false, l⟩, true⟩
    e.hsCount (e.runFrom e.init [b false, b false]) [b true, b true, b true] = 0 ∧
    (e.delivered e.init [b false, b true, b false, b true]).length = 2 := by decide

/-! ## packet.PacketFIFO(buffered=True) (two `SyncFIFOBuffered`; `payload_depth ≥ 2`, `param_depth + 1 ≥ 2`)

  Same statements as for the plain FIFO; `PfbLegal` is the store-and-forward limit on what is stored (output register
  + inner FIFO).  The delivery bound is one more than for the plain FIFO: a param written into an empty param FIFO
  needs a cycle to reach its output register (`source.valid = param_fifo.source.valid`). -/

theorem packetfifo_buffered_progress (pd qd : Nat) (hpd : 2 ≤ pd) (hqd : 2 ≤ qd) (pre ins : List (In Litex.Packet.PBeat))
    (hpre : RunC (Litex.Packet.packetFifoBuffered pd qd) (Litex.Packet.PfbLegal pd)
      (Litex.Packet.packetFifoBuffered pd qd).init pre)
    (hins : RunC (Litex.Packet.packetFifoBuffered pd qd) (Litex.Packet.PfbCoop pd)
      ((Litex.Packet.packetFifoBuffered pd qd).runFrom (Litex.Packet.packetFifoBuffered pd qd).init pre) ins)
    (n : Nat) (hn : n * 1 ≤ ins.length) :
    n ≤ (Litex.Packet.packetFifoBuffered pd qd).hsCount
      ((Litex.Packet.packetFifoBuffered pd qd).runFrom (Litex.Packet.packetFifoBuffered pd qd).init pre) ins :=
  Litex.Packet.packetFifoBuffered_progress_run pd qd hpd hqd _
    (Litex.Packet.pfbInv_reach pd qd (by omega) pre hpre) ins hins n hn

/-- A beat of a complete packet is delivered at least every `payload_depth + 2` cooperative cycles. -/
theorem packetfifo_buffered_no_livelock (pd qd : Nat) (hpd : 1 ≤ pd) (hqd : 1 ≤ qd)
    (pre ins : List (In Litex.Packet.PBeat))
    (hpre : RunC (Litex.Packet.packetFifoBuffered pd qd) (Litex.Packet.PfbLegal pd)
      (Litex.Packet.packetFifoBuffered pd qd).init pre)
    (hins : RunC (Litex.Packet.packetFifoBuffered pd qd) (Litex.Packet.PfbCoop pd)
      ((Litex.Packet.packetFifoBuffered pd qd).runFrom (Litex.Packet.packetFifoBuffered pd qd).init pre) ins)
    (n : Nat) (hn : n * (pd + 1 + 1) ≤ ins.length) :
    n ≤ ((Litex.Packet.packetFifoBuffered pd qd).delivered
      ((Litex.Packet.packetFifoBuffered pd qd).runFrom (Litex.Packet.packetFifoBuffered pd qd).init pre) ins).length :=
  Litex.Packet.packetFifoBuffered_delivers_run pd qd hqd _ (Litex.Packet.pfbInv_reach pd qd hpd pre hpre) ins hins n hn

/-- Since fix ab9acb6 the code computes `source.valid = param_fifo.source.valid & payload_fifo.source.valid`; on every
    state reachable within the limit the second factor is implied by the first (invariant `parV → payV`), so the
    machine above — `source.valid = param_fifo.source.valid` — shows the same ports (checked by the correspondence). -/
theorem packetfifo_buffered_valid_agrees (pd qd : Nat) (hpd : 1 ≤ pd) (pre : List (In Litex.Packet.PBeat))
    (hpre : RunC (Litex.Packet.packetFifoBuffered pd qd) (Litex.Packet.PfbLegal pd)
      (Litex.Packet.packetFifoBuffered pd qd).init pre) :
    (((Litex.Packet.packetFifoBuffered pd qd).runFrom (Litex.Packet.packetFifoBuffered pd qd).init pre).parV &&
     ((Litex.Packet.packetFifoBuffered pd qd).runFrom (Litex.Packet.packetFifoBuffered pd qd).init pre).payV) =
    ((Litex.Packet.packetFifoBuffered pd qd).runFrom (Litex.Packet.packetFifoBuffered pd qd).init pre).parV := by
  obtain ⟨_, _, _, h4, _⟩ := Litex.Packet.pfbInv_reach pd qd hpd pre hpre
  cases hp : ((Litex.Packet.packetFifoBuffered pd qd).runFrom (Litex.Packet.packetFifoBuffered pd qd).init pre).parV with
  | false => rfl
  | true => simp [h4 hp]

/-- Negative witness for the limit (payload_depth 2, buffered: capacity 3): three non-last beats fill register and
    FIFO without a complete packet; three further cooperative cycles see no handshake.  Non-vacuity: 2-beat packets
    go through, the first delivery in the 4th (= pd + 2) cooperative cycle from reset — the bound is tight. -/
example :
    let e := Litex.Packet.packetFifoBuffered 2 3
    let b (l : Bool) : In Litex.Packet.PBeat := ⟨true, ⟨⟨1, 7⟩, false, l⟩, true⟩
    e.hsCount (e.runFrom e.init [b false, b false, b false]) [b true, b true, b true] = 0 ∧
    (e.delivered e.init [b false, b true, b false]).length = 0 ∧
    (e.delivered e.init [b false, b true, b false, b true]).length = 1 := by decide

/-! ## packet.Arbiter (n ≥ 2 masters; model of b-c16, round-robin lemmas of b-c06/b-c16)

  States: everything reachable from reset (`(arbiter n).run pre`, any inputs). -/

/-- Stability of the arbiter's source: while the slave stalls an offered beat the grant stays (the granted master's
    `Status.ongoing` keeps requesting), so a master that re-offers its refused beat unchanged — its `ready` was low:
    the stream contract — is seen unchanged by the slave in the next cycle. -/
theorem arbiter_stable (n : Nat) (hn : 2 ≤ n) (pre : List Litex.Packet.ArbIn) (i i' : Litex.Packet.ArbIn)
    (hv : ((Litex.Packet.arbiter n).out ((Litex.Packet.arbiter n).run pre) i).slave.valid = true)
    (hr : i.ready = false)
    (hprod : i'.masters.getD ((Litex.Packet.arbiter n).run pre).grant Litex.Packet.Beat.idle =
             i.masters.getD ((Litex.Packet.arbiter n).run pre).grant Litex.Packet.Beat.idle) :
    ((Litex.Packet.arbiter n).out ((Litex.Packet.arbiter n).next ((Litex.Packet.arbiter n).run pre) i) i').slave =
      ((Litex.Packet.arbiter n).out ((Litex.Packet.arbiter n).run pre) i).slave :=
  (Litex.Packet.arbiter_hold n hn _ (Litex.Packet.arbiter_grant_lt n hn pre) i i' hv hr hprod).2

/-- Progress: whenever the granted master offers and the slave is ready — in particular whenever every master
    offers — a beat is transferred in this very cycle. -/
theorem arbiter_progress (n : Nat) (hn : 2 ≤ n) (pre : List Litex.Packet.ArbIn) (i : Litex.Packet.ArbIn)
    (hv : (i.masters.getD ((Litex.Packet.arbiter n).run pre).grant Litex.Packet.Beat.idle).valid = true)
    (hr : i.ready = true) :
    ((Litex.Packet.arbiter n).out ((Litex.Packet.arbiter n).run pre) i).slave.valid = true ∧
    ((Litex.Packet.arbiter n).out ((Litex.Packet.arbiter n).run pre) i).readys.getD
      ((Litex.Packet.arbiter n).run pre).grant false = true :=
  Litex.Packet.arbiter_moves n _ (Litex.Packet.arbiter_grant_lt n hn pre) i hv hr

/-- Progress with only SOME masters offering: if in a cycle at least one master requests (offers, or is inside a
    packet) and every requesting master offers in the following cycle (no bubbles inside packets) with the slave
    ready, a beat is transferred in that following cycle at the latest — from every reachable state: K = 2, the bound
    the harness measures for the subset modes. -/
theorem arbiter_progress_subset (n : Nat) (hn : 2 ≤ n) (pre : List Litex.Packet.ArbIn) (i i' : Litex.Packet.ArbIn)
    (hr' : i'.ready = true)
    (hsome : ∃ k, k < n ∧ Litex.Packet.arbRequest ((Litex.Packet.arbiter n).run pre) i k = true)
    (hkeep : ∀ j, j < n → Litex.Packet.arbRequest ((Litex.Packet.arbiter n).run pre) i j = true →
      (i'.masters.getD j Litex.Packet.Beat.idle).valid = true) :
    ((Litex.Packet.arbiter n).out ((Litex.Packet.arbiter n).next ((Litex.Packet.arbiter n).run pre) i) i').slave.valid = true ∧
    ((Litex.Packet.arbiter n).out ((Litex.Packet.arbiter n).next ((Litex.Packet.arbiter n).run pre) i) i').readys.getD
      ((Litex.Packet.arbiter n).next ((Litex.Packet.arbiter n).run pre) i).grant false = true :=
  Litex.Packet.arbiter_moves_next n hn _ (Litex.Packet.arbiter_grant_lt n hn pre) i i' hr' hsome hkeep

/-- Non-vacuity and tightness (3 masters, only master 2 offers, from reset): nothing moves in the first cycle (the
    grant is at master 0), the beat is transferred in the second. -/
example :
    let i : Litex.Packet.ArbIn := { masters := [⟨false, 0, false⟩, ⟨false, 0, false⟩, ⟨true, 3, true⟩], ready := true }
    ((Litex.Packet.arbiter 3).out (Litex.Packet.arbiter 3).init i).slave.valid = false ∧
    ((Litex.Packet.arbiter 3).out ((Litex.Packet.arbiter 3).next (Litex.Packet.arbiter 3).init i) i).slave.valid = true ∧
    ((Litex.Packet.arbiter 3).out ((Litex.Packet.arbiter 3).next (Litex.Packet.arbiter 3).init i) i).readys =
      [false, false, true] := by decide

/-- No starvation: if every master offers single-beat packets and the slave is ready, master `k` owns the grant after
    exactly `dist(grant, k) ≤ n − 1` cycles and is served in the cycle that follows: every master is served within the
    round-robin bound of `n` cycles (the bound the harness measures from every explored state). -/
theorem arbiter_no_starvation (n : Nat) (hn : 2 ≤ n) (k : Nat) (hk : k < n) (pre ins : List Litex.Packet.ArbIn)
    (i : Litex.Packet.ArbIn)
    (hlen : ins.length = Litex.RoundRobin.dist n ((Litex.Packet.arbiter n).run pre).grant k)
    (hall : ∀ j ∈ ins, Litex.Packet.AllOfferLast n j) (hi : Litex.Packet.AllOfferLast n i) :
    ins.length ≤ n - 1 ∧
    ((Litex.Packet.arbiter n).out ((Litex.Packet.arbiter n).runFrom ((Litex.Packet.arbiter n).run pre) ins) i).readys.getD
      k false = true := by
  have hg := Litex.Packet.arbiter_grant_lt n hn pre
  have hreach := Litex.Packet.arbiter_reaches n hn k hk _ _ ins hg hlen.symm rfl hall
  have hg' : ((Litex.Packet.arbiter n).runFrom ((Litex.Packet.arbiter n).run pre) ins).grant < n := by
    rw [hreach]; exact hk
  refine ⟨by rw [hlen]; have := Litex.RoundRobin.dist_lt n ((Litex.Packet.arbiter n).run pre).grant k (by omega); omega, ?_⟩
  have := (Litex.Packet.arbiter_moves n _ hg' i (by rw [hreach]; exact (hi.2 k hk).1) hi.1).2
  rw [hreach] at this
  exact this

/-- Non-vacuity (3 masters, all offering single-beat packets from reset): master 2 is served in cycle 3. -/
example :
    let i : Litex.Packet.ArbIn := { masters := [⟨true, 1, true⟩, ⟨true, 2, true⟩, ⟨true, 3, true⟩], ready := true }
    ((Litex.Packet.arbiter 3).out ((Litex.Packet.arbiter 3).runFrom (Litex.Packet.arbiter 3).init [i, i]) i).readys =
      [false, false, true] := by decide

/-! ## packet.Packetizer, EVERY header length (aligned or not): stability

  Before the fix of C04-packetizer-flush-padding-unstable: while the residue beat of a packet is flushed
  (`sink_d.last`, `source.valid` high without `sink.valid`) the upper bytes of `source.data` were wired to the sink
  data lines of a producer that offers nothing, and moved with them while the consumer stalled (real Packetizer,
  dw = 16, 3-byte header: 0x00bb → 0xffbb with valid = 1, ready = 0; replayed by the probe of that finding).  Since
  the fix (`If(~sink_d.last | fsm_from_idle, source.data[leftover*8:].eq(sink.data))`) the flush beat shows registers
  only.  Full statement `KeepsContract (packetizer c)`: still refuted in ONE corner, inside the open finding
  C16-packetizer-unaligned-single-beat — the first copy beat of a one-beat packet is valid through `sink_d.last` too
  and carries the sink data lines (the packet's payload); from a state reached by a producer that *withdrew* that
  refused beat (it broke the contract one boundary earlier) the lanes follow idle lines.  Proved `_partial` under
  `FirstBeatHeld` (in exactly that state the sink data lines are held); negative witness below, same trace on the
  real (fixed) code: 0x00c3 → 0xffc3.  Along every run from reset on which the producer keeps the contract the state
  is never met without a sink token, and every other state needs no hypothesis. -/

theorem packetizer_stable_partial (c : Litex.Packet.PkCfg) :
    KeepsContractX (Litex.Packet.packetizer c) (Litex.Packet.FirstBeatHeld c) :=
  Litex.Packet.packetizer_keepsContractX c

/-- Negative witness for `FirstBeatHeld` (dw = 16, H = 3): a one-beat packet is offered once and withdrawn; the first
    copy beat waits (valid through `sink_d.last`), the idle producer moves its data lines 0x0000 → 0x00ff. -/
example :
    let c : Litex.Packet.PkCfg := ⟨2, 3⟩
    let e := Litex.Packet.packetizer c
    let s := e.runFrom e.init [⟨true, ⟨⟨0x2211, 0xc3b2a1⟩, false, true⟩, true⟩]
    let i  : In Litex.Packet.HBeat := ⟨false, ⟨⟨0x0000, 0xc3b2a1⟩, false, false⟩, false⟩
    let i' : In Litex.Packet.HBeat := ⟨false, ⟨⟨0x00ff, 0xc3b2a1⟩, false, false⟩, false⟩
    s.st = .ucopy ∧ s.fromIdle = true ∧ s.dLast = true ∧
    (e.out s i).valid = true ∧ (e.out s i).tok.data = 0x00c3 ∧ (e.out (e.step s i) i').tok.data = 0xffc3 ∧
    ¬ HoldsOut (e.out s i) (e.out (e.step s i) i') i := by
  refine ⟨by decide, by decide, by decide, by decide, by decide, by decide, ?_⟩
  intro h
  have h2 := (h (by decide) rfl).2
  revert h2
  decide

/-- The former negative witness (genuine flush beat waiting, the idle producer moves its data lines 0x0000 → 0x00ff):
    the pre-fix expression `pkUDataPre` moves (0x00bb → 0xffbb), the fixed machine holds its token, and the fix
    changes nothing outside the genuine flush beat. -/
example :
    let c : Litex.Packet.PkCfg := ⟨2, 3⟩
    let s : Litex.Packet.PkState :=
      { st := .ucopy, sr := 0, count := 0, fromIdle := false, dData := 0xbbcc, dLast := true }
    let i  : In Litex.Packet.HBeat := ⟨false, ⟨⟨0x0000, 0⟩, false, false⟩, false⟩
    let i' : In Litex.Packet.HBeat := ⟨false, ⟨⟨0x00ff, 0⟩, false, false⟩, false⟩
    c.pkUDataPre s 0x0000 = 0x00bb ∧ c.pkUDataPre s 0x00ff = 0xffbb ∧
    ((Litex.Packet.packetizer c).out s i).valid = true ∧ ((Litex.Packet.packetizer c).out s i).tok.data = 0x00bb ∧
    ((Litex.Packet.packetizer c).out ((Litex.Packet.packetizer c).step s i) i').tok.data = 0x00bb ∧
    HoldsOut ((Litex.Packet.packetizer c).out s i)
      ((Litex.Packet.packetizer c).out ((Litex.Packet.packetizer c).step s i) i') i ∧
    c.pkUData { s with dLast := false } 0x00ff = c.pkUDataPre { s with dLast := false } 0x00ff := by
  refine ⟨by decide, by decide, by decide, by decide, by decide, ?_, by decide⟩
  intro _ _
  exact ⟨by decide, by decide⟩

/-- Non-vacuity: the flush state of the witness is reachable (2-beat packet through the dw16/H3 packetizer). -/
example :
    let c : Litex.Packet.PkCfg := ⟨2, 3⟩
    let e := Litex.Packet.packetizer c
    let b (d : Nat) (l : Bool) : In Litex.Packet.HBeat := ⟨true, ⟨⟨d, 0x332211⟩, false, l⟩, true⟩
    (e.runFrom e.init [b 0xaaaa false, b 0xaaaa false, b 0xaaaa false, b 0xbbcc true]).st = .ucopy ∧
    (e.runFrom e.init [b 0xaaaa false, b 0xaaaa false, b 0xaaaa false, b 0xbbcc true]).dLast = true := by decide

/-- Progress of the Packetizer for every header length, source side: every cooperative cycle delivers a beat. -/
theorem packetizer_no_livelock_any (c : Litex.Packet.PkCfg) : DeliversWithin (Litex.Packet.packetizer c) 1 :=
  (Litex.Packet.packetizer_measure_all c).delivers trivial

/-- ... but the full statement "tokens keep moving" needs the *sink* to be served, and that fails for unaligned headers
    (open finding C16-packetizer-unaligned-single-beat): dw = 16, 3-byte header, a one-beat packet offered for ever
    under a ready consumer — the header word and the truncated beat are delivered again and again and no sink
    handshake ever happens; with a two-beat-or-longer packet the sink is served (non-vacuity of the contrast). -/
example :
    let e := Litex.Packet.packetizer ⟨2, 3⟩
    let b (l : Bool) : In Litex.Packet.HBeat := ⟨true, ⟨⟨0xbbcc, 0x332211⟩, false, l⟩, true⟩
    (e.accepted e.init (List.replicate 12 (b true))).length = 0 ∧
    (e.delivered e.init (List.replicate 12 (b true))).length = 12 ∧
    (e.accepted e.init (List.replicate 12 (b false))).length = 11 := by decide

/-! ## packet.Packetizer / packet.Depacketizer, header a multiple of the beat (`c.aligned`, `W ≥ 1` header words) -/

theorem packetizer_stable (c : Litex.Packet.PkCfg) (ha : c.aligned = true) :
    KeepsContract (Litex.Packet.packetizer c) :=
  keepsContract_of_stepStable (Litex.Packet.packetizer_stepStable c ha)
    (by simp [Litex.Packet.pkInv, Litex.Packet.packetizer, Litex.Packet.PkState.reset])

/-- Every cooperative cycle delivers a beat (header word or payload), from every reachable state. -/
theorem packetizer_no_livelock (c : Litex.Packet.PkCfg) (ha : c.aligned = true) :
    DeliversWithin (Litex.Packet.packetizer c) 1 :=
  (Litex.Packet.packetizer_measure c ha).delivers
    (by simp [Litex.Packet.pkInv, Litex.Packet.packetizer, Litex.Packet.PkState.reset])

/-- The aligned Packetizer serves its sink: the `W` header words, then every cooperative cycle accepts a beat. -/
theorem packetizer_accepts (c : Litex.Packet.PkCfg) (ha : c.aligned = true) (hW : 1 ≤ c.W) :
    AcceptsWithin (Litex.Packet.packetizer c) (c.W + 1) :=
  Litex.Packet.packetizer_acceptsWithin c ha hW

theorem depacketizer_stable (c : Litex.Packet.PkCfg) (ha : c.aligned = true) (hW : 1 ≤ c.W) :
    KeepsContract (Litex.Packet.depacketizer c) :=
  keepsContract_of_stepStable (Litex.Packet.depacketizer_stepStable c ha hW)
    (by simp [Litex.Packet.dpInv, Litex.Packet.depacketizer, Litex.Packet.PkState.reset])

/-- The `W` header words are swallowed, then every cooperative cycle delivers: a delivery at least every `W + 1`
    cooperative cycles (the bound the harness measures). -/
theorem depacketizer_no_livelock (c : Litex.Packet.PkCfg) (ha : c.aligned = true) (hW : 1 ≤ c.W) :
    DeliversWithin (Litex.Packet.depacketizer c) (c.W + 1) :=
  (Litex.Packet.depacketizer_measure c ha hW).delivers
    (by simp [Litex.Packet.dpInv, Litex.Packet.depacketizer, Litex.Packet.PkState.reset])

/-- Non-vacuity: dw = 8, 2-byte header: the instance is aligned with `W = 2`; three cooperative cycles through the
    Depacketizer from reset deliver exactly one beat. -/
example :
    let c : Litex.Packet.PkCfg := ⟨1, 2⟩
    let b : In Nat := ⟨true, ⟨5, false, false⟩, true⟩
    c.aligned = true ∧ c.W = 2 ∧
    ((Litex.Packet.depacketizer c).delivered (Litex.Packet.depacketizer c).init [b, b, b]).length = 1 := by decide

/-
  Not proved (kept as open statements; the behaviour is validated by the correspondence and the monitors only):

  (session 2: the buffered PacketFIFO statements are now proved: packetfifo_buffered_progress / _no_livelock.)
  (session 2: Packetizer stability for every header length after the fix of C04-packetizer-flush-padding-unstable:
   packetizer_stable_partial, hypothesis FirstBeatHeld confined to the single-beat corner.)
  theorem depacketizer_unaligned_stable_open :
      inside C16's `UOk` producer domain, with the padding bytes of a `last` beat masked, the unaligned
      Depacketizer keeps the contract (harness: exhaustive dw16/H3, random dw32/H6, dw64/H11).
  (session 2: packetizer_accepts is proved.)
  (session 2: arbiter_progress_subset is proved.)
  theorem pipeline_handshake_every_cycle_open : ProgressWithin (stages z l) 1 for every legal stage list (measured
      K = 1 on every explored instance; needs cross-stage invariants such as "PipeValid empty → FIFO before it holds
      ≤ 1 word"; proved for chain3 and for the single stages only).
  theorem packetizer_unaligned_accepts_open : sink service of the unaligned Packetizer outside the open C16 findings
      (the full statement is refuted by the negative witness next to packetizer_no_livelock_any).
-/

/-! ## packet.Status -/

/-- `Status.first` is 1 exactly when the next beat is the first of a packet — no beat transferred yet, or the
    latest transferred beat carried `last` — and the `ongoing` register is 1 exactly when `valid` was seen since
    the most recent last-beat handshake; for every history of the observed endpoint. -/
theorem status_first_last (ins : List StatusIn) :
    (status.run ins).first = (((beats ins).getLast?).map (·.last)).getD true ∧
    (status.run ins).ongoing = (sinceLast ins).any (·.valid) :=
  ⟨status_first_run ins, status_ongoing_run ins⟩

/-- The combinational outputs in a cycle with inputs `i` after history `ins`: `last` flags the transfer of a last
    beat, `ongoing` = (valid now or seen since the last packet end) and not ending now. -/
theorem status_outputs (ins : List StatusIn) (i : StatusIn) :
    (status.out (status.run ins) i).last = (i.valid && i.last && i.ready) ∧
    (status.out (status.run ins) i).ongoing =
      ((i.valid || (sinceLast ins).any (·.valid)) && !(i.valid && i.last && i.ready)) ∧
    (status.out (status.run ins) i).first = (((beats ins).getLast?).map (·.last)).getD true := by
  refine ⟨rfl, ?_, status_first_run ins⟩
  show ((i.valid || (status.run ins).ongoing) && !i.lastHs) = _
  rw [status_ongoing_run]; rfl

/-! ## Non-vacuity and negative witnesses -/

/-- The hypotheses are satisfiable on a run in which the contract actually bites: the consumer stalls a valid
    token for two cycles, the producer (which must hold: PipeValid is full) holds, and both contracts hold. -/
example :
    let z : Tok Nat := ⟨0, false, false⟩
    let ins : List (In Nat) :=
      [⟨true, ⟨5, true, false⟩, false⟩, ⟨true, ⟨6, false, true⟩, false⟩, ⟨true, ⟨6, false, true⟩, false⟩,
       ⟨true, ⟨6, false, true⟩, true⟩, ⟨false, ⟨9, true, true⟩, true⟩]
    StableIn (pipeValid z) (pipeValid z).init ins ∧ StableOut (pipeValid z) (pipeValid z).init ins ∧
    ((pipeValid z).outs (pipeValid z).init ins).map (·.valid) = [false, true, true, true, true] := by
  simp [StableIn, StableInFrom, StableOut, StableOutFrom, HoldsIn, HoldsOut, pipeValid, Elem.out, Elem.step,
    Elem.outs, Machine.traceFrom, Elem.toMachine]

/-- The producer hypothesis is necessary: a wire driven by a producer that retracts shows a retraction. -/
example :
    let ins : List (In Nat) := [⟨true, ⟨5, false, false⟩, false⟩, ⟨false, ⟨5, false, false⟩, false⟩]
    ¬ StableOut (wire (α := Nat)) () ins := by
  simp [StableOut, StableOutFrom, HoldsOut, wire, Elem.out]

/-- Progress is not vacuous: three cooperative cycles through a depth-2 FIFO from reset give 3 sink handshakes
    and 2 deliveries. -/
example :
    let e := syncFifo 2 (⟨0, false, false⟩ : Tok Nat)
    let ins : List (In Nat) := [⟨true, ⟨1, true, false⟩, true⟩, ⟨true, ⟨2, false, false⟩, true⟩, ⟨true, ⟨3, false, true⟩, true⟩]
    (e.accepted [] ins).length = 3 ∧ (e.delivered [] ins).length = 2 := by decide

/-- Non-vacuity for a converter: `upConv 2` fed by a holding producer against a stalling consumer.  The word
    [5,6] is complete after two cycles, waits two cycles (ready = 0) while the producer — refused — holds 7, and
    both contracts hold; source.valid is high for three consecutive cycles. -/
example :
    let e := upConv (π := Unit) 2 (0 : Nat) ()
    let ins : List (In (Nat × Unit)) :=
      [⟨true, ⟨(5, ()), true, false⟩, false⟩, ⟨true, ⟨(6, ()), false, false⟩, false⟩,
       ⟨true, ⟨(7, ()), false, false⟩, false⟩, ⟨true, ⟨(7, ()), false, false⟩, false⟩,
       ⟨true, ⟨(7, ()), false, false⟩, true⟩]
    StableIn e e.init ins ∧ StableOut e e.init ins ∧
    (e.outs e.init ins).map (·.valid) = [false, false, true, true, true] ∧
    (e.delivered e.init ins).map (·.data.lanes) = [[5, 6]] := by
  simp [StableIn, StableInFrom, StableOut, StableOutFrom, HoldsIn, HoldsOut, upConv, Elem.out, Elem.step, Elem.outs,
    Machine.traceFrom, Elem.toMachine, UpState.outTok, Elem.delivered, Elem.delNow]

/-- Non-vacuity for the gearbox bound: 1 → 3 bits (`io_lcm = 6`, `⌈3/1⌉ + 1 = 4`): four cooperative cycles from
    reset deliver exactly one word, and three do not deliver any (the bound is tight). -/
example :
    let e := gearbox (ioLcm 1 3) 1 3 false
    let c : In (List Bool) := ⟨true, ⟨[true], false, false⟩, true⟩
    (e.delivered e.init [c, c, c, c]).length = 1 ∧ (e.delivered e.init [c, c, c]).length = 0 := by decide


/-- Status on a two-packet history: beats (f l) = (1 0) (0 1) | (1 1); `first` is back to 1 after each `last`. -/
example :
    let ins : List StatusIn := [⟨true, false, true⟩, ⟨true, true, false⟩, ⟨true, true, true⟩]
    (status.run ins).first = true ∧ (status.run (ins.take 1)).first = false ∧
    (status.run (ins.take 2)).ongoing = true ∧ (status.run ins).ongoing = false := by decide

end Litex.C04
