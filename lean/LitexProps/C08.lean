import LitexProofs.Axi.LiteRun
import LitexProofs.Axi.LiteSharedData
import LitexProofs.Axi.LiteCrossbarData
/-
  C08 — AXI-Lite (and AXI) interconnect keeps grants and routes until every response has returned.

  Models (`LitexModel/Axi/Lite*.lean`): one *direction* (write: aw/w/b, read: ar/r) of
    `Shared.machine c rd`    = `AXILiteInterconnectShared` / `AXIInterconnectShared`  (arbiter → bus → decoder),
    `Crossbar.machine c rd`  = `AXILiteCrossbar` / `AXICrossbar`  (a decoder per master, an arbiter per slave);
  the complete fabric is `both (… false) (… true)` (`Shared.full`, `Crossbar.full`).  `c.full` selects the AXI4
  classes (read responses counted on `last`).  Masters and slaves are environment: `x : DirIn` gives, for one cycle,
  arbitrary values of every master's address/data valid, address, payloads, response ready and of every slave's
  readies, response valid/last/payload.

  Quantifiers.  Run theorems are by induction over `ins : List DirIn` — every schedule of the five channels (address
  before/with/after data, several outstanding requests, back-pressure, any slave latency and acceptance order);
  the numbers of masters and slaves `c.n`, `c.m`, the address map `c.dec`, the data width (`c.shift`) and AXI-Lite vs
  AXI4 are arbitrary.  Hypotheses are explicit and decidable cycle by cycle against the routing scoreboard
  (`EnvOK`, `LitexModel/Axi/LiteInterconnectSpec.lean`):
      slaveLegal   a slave raises a response only while it holds an unanswered request          (AXI)
      sameSlave    SameSlaveWhileLocked: a master with unanswered requests at slave j presents only addresses of j
      noOverflow   a slave holding 255 unanswered requests does not accept another one          (8-bit counters)
  and `Disjoint c` (no address belongs to two slaves; C13 provides this for SoC regions), `0 < c.n`.
  The write-data theorems (`axl_route_data_partial`, `…_crossbar_partial`) additionally assume `DEnvOK`
      dataAfterAddr  NoDataBeforeAddr: data is presented only for an accepted address still waiting for it, or for the
                     address being presented
      addrHeld       an address whose data went ahead stays presented (same slave) until accepted      (AXI)
      respAfterData  B is given only after the data                                                    (AXI)
  and cover single-beat data (AXI-Lite, AXI4 `len = 0`); AXI4 write bursts are covered by co-simulation and the
  monitor only.  The theorems about the read direction of the AXI4 classes count responses on `last` (`c.full`).

  The property as written ("each accepted address reaches the slave chosen by its address … for all schedules") is
  FALSE on the code without `sameSlave`, and the write-data part is false without NoDataBeforeAddr: see the two
  negative witnesses at the end (both are known findings, replayed on the real code by `harness/props/c08.py`).
-/
namespace Litex.C08
open Litex Litex.Axi.Lite

/-! ## Outstanding-request counters -/

/-- **`axl_counter_inv`** — the counter register equals accepted requests minus delivered responses, for every
    event sequence in which a response leaves only while a request is outstanding (or together with one) and at
    most 255 requests are outstanding. -/
theorem axl_counter_inv (evs : List (Bool × Bool)) (h : CtrLegal 0 evs) :
    ctrRun 0 evs = outstandingSpec 0 evs :=
  ctrRun_spec evs 0 h

/-- non-vacuity: request, request+response, response. -/
example : CtrLegal 0 [(true, false), (true, true), (false, true)] ∧
    ctrRun 0 [(true, false), (true, true), (false, true)] = 0 ∧ ctrRun 0 [(true, false), (true, false)] = 2 := by
  refine ⟨?_, by decide, by decide⟩
  simp [CtrLegal, maxReq]

/-- Saturation as coded (`stall` is computed and never used): from 255 the 256th unanswered request is accepted by
    the fabric but not counted — the region excluded by the second conjunct of `CtrLegal`. -/
example : ctrRun 255 [(true, false)] = 255 ∧ outstandingSpec 255 [(true, false)] = 256 := by decide

/-- **`axl_counter_inv_shared`** — in every state the shared interconnect reaches under a behaving environment,
    the arbiter's and the decoder's counter both equal the number of unanswered requests on the port-level
    scoreboard (accepted at the slaves, response not yet handed back). -/
theorem axl_counter_inv_shared (c : Cfg) (rd : Bool) (hd : Disjoint c) (hn : 0 < c.n) (ins : List DirIn)
    (henv : EnvAll (Shared.machine c rd) c rd (Shared.init c rd) Fifo.empty ins) :
    let r := runSB (Shared.machine c rd) c rd (Shared.init c rd) Fifo.empty ins
    r.1.arb.cnt = r.2.total c.m ∧ r.1.dec.cnt = r.2.total c.m :=
  Shared.counters c _ _ (Shared.inv_run c rd hd ins _ _ (Shared.inv_reset c rd hn) henv)

/-- **`axl_counter_inv_crossbar`** — crossbar: the arbiter in front of slave `j` counts slave `j`'s unanswered
    requests, the decoder behind master `i` counts master `i`'s. -/
theorem axl_counter_inv_crossbar (c : Cfg) (rd : Bool) (hd : Disjoint c) (hn : 0 < c.n) (ins : List DirIn)
    (henv : EnvAll (Crossbar.machine c rd) c rd (Crossbar.init c rd) Fifo.empty ins) :
    let r := runSB (Crossbar.machine c rd) c rd (Crossbar.init c rd) Fifo.empty ins
    (∀ j, j < c.m → (Crossbar.arb r.1 j).cnt = (r.2 j).length) ∧
    (∀ i, i < c.n → (Crossbar.dcd r.1 i).cnt = r.2.ofMaster c.m i) :=
  Crossbar.counters c _ _ (Crossbar.inv_run c rd hd ins _ _ (Crossbar.inv_reset c rd hn) henv)

/-! ## Frozen grant and frozen select -/

/-- **`axl_grant_frozen`** — in EVERY state and for EVERY input: the write (read) grant of an arbiter does not
    change at the clock edge while that direction's counter is non-zero or the owner drives `aw|w` (`ar`) valid or
    the target drives `b` (`r`) valid. -/
theorem axl_grant_frozen (n : Nat) (gated : Bool) (s : ArbState) (ms : Nat → DMS) (sm : DSM) (hg : s.grant < n)
    (h : s.cnt ≠ 0 ∨ (ms s.grant).aValid = true ∨ (ms s.grant).dValid = true ∨ sm.rValid = true) :
    (Arb.next n gated s ms sm).grant = s.grant :=
  Arb.grant_frozen n gated s ms sm hg h

/-- **`axl_lock_held_shared`** — along every run with a behaving environment: while some slave `j` holds an
    unanswered request (scoreboard entry, i.e. accepted at the slave port and not yet answered), whatever the
    masters and slaves drive next, the grant does not move, the select points at `j` and only at `j` regardless of the
    address lines, and all unanswered requests are the grant owner's. -/
theorem axl_lock_held_shared (c : Cfg) (rd : Bool) (hd : Disjoint c) (hn : 0 < c.n) (ins : List DirIn)
    (henv : EnvAll (Shared.machine c rd) c rd (Shared.init c rd) Fifo.empty ins) :
    let r := runSB (Shared.machine c rd) c rd (Shared.init c rd) Fifo.empty ins
    ∀ j, j < c.m → r.2 j ≠ [] →
      (∀ x, (Shared.next c rd r.1 x).arb.grant = r.1.arb.grant) ∧
      (∀ x k, k < c.m → Shared.selOf c rd r.1 x k = (k == j)) ∧
      (∀ a ∈ r.2 j, a = r.1.arb.grant) := by
  intro r j hj hne
  exact Shared.lock_held c rd _ _ (Shared.inv_run c rd hd ins _ _ (Shared.inv_reset c rd hn) henv) j hj hne

/-- **`axl_lock_held_crossbar`** — crossbar: while slave `j` holds an unanswered request its arbiter's grant does
    not move, the requests are all the grant owner's, and the decoder of every master with an unanswered request at
    `j` selects `j` and only `j`. -/
theorem axl_lock_held_crossbar (c : Cfg) (rd : Bool) (hd : Disjoint c) (hn : 0 < c.n) (ins : List DirIn)
    (henv : EnvAll (Crossbar.machine c rd) c rd (Crossbar.init c rd) Fifo.empty ins) :
    let r := runSB (Crossbar.machine c rd) c rd (Crossbar.init c rd) Fifo.empty ins
    ∀ j, j < c.m → r.2 j ≠ [] →
      (∀ x, (Crossbar.arb (Crossbar.next c rd r.1 x) j).grant = (Crossbar.arb r.1 j).grant) ∧
      (∀ i, i < c.n → i ∈ r.2 j → ∀ x k, k < c.m → Crossbar.selI c rd r.1 x i k = (k == j)) ∧
      (∀ a ∈ r.2 j, a = (Crossbar.arb r.1 j).grant) := by
  intro r j hj hne
  exact Crossbar.lock_held c rd _ _ (Crossbar.inv_run c rd hd ins _ _ (Crossbar.inv_reset c rd hn) henv) j hj hne

/-! ## Independence of the write and the read direction -/

/-- **`axl_rw_independent`** — a complete fabric run is the write machine on the write signals next to the read
    machine on the read signals: the registers of either direction after any run, and everything any port sees on
    the channels of that direction in any cycle, are functions of that direction's inputs alone. -/
theorem axl_rw_independent {σ : Type} (mw mr : Machine DirIn σ DirOut) (ins : List BusIn) :
    ((both mw mr).run ins).w = mw.run (ins.map wIn) ∧ ((both mw mr).run ins).r = mr.run (ins.map rIn) ∧
    ((both mw mr).trace ins).map (fun o => (fun j => (o.toS j).w, fun i => (o.toM i).w)) =
      (mw.trace (ins.map wIn)).map (fun o => (o.toS, o.toM)) ∧
    ((both mw mr).trace ins).map (fun o => (fun j => (o.toS j).r, fun i => (o.toM i).r)) =
      (mr.trace (ins.map rIn)).map (fun o => (o.toS, o.toM)) :=
  ⟨(both_run mw mr ins _).1, (both_run mw mr ins _).2, (both_trace mw mr ins _).1, (both_trace mw mr ins _).2⟩

/-! ## Routing -/

/- Full statement (FALSE on the code, see the negative witnesses):
   theorem axl_route : ∀ ins, Holds' … where the environment is only required to be AXI-legal. -/

/-- **`axl_route_partial`** (shared interconnect) — for every run from reset: in every cycle up to which the
    environment has behaved (`EnvOK`: AXI-legal slaves, SameSlaveWhileLocked, ≤ 255 outstanding)
      * every address handshake at a master is an address handshake at the slave its address decodes to, and every
        address handshake at a slave is the request of exactly one master, with that master's address and payload;
      * every response handshake at slave `j` is in the same cycle a response handshake, with the same payload, at
        the issuer of slave `j`'s oldest unanswered request, and every response handshake at a master comes from
        exactly one such slave (delivered exactly once, to the issuer, in issue order);
      * all unanswered requests of the bus belong to one master. -/
theorem axl_route_partial (c : Cfg) (rd : Bool) (hd : Disjoint c) (hn : 0 < c.n) (ins : List DirIn) :
    Holds (Shared.machine c rd) c rd true (Shared.init c rd) Fifo.empty ins :=
  Shared.holds_of_inv c rd hd ins _ _ (Shared.inv_reset c rd hn)

/-- **`axl_route_crossbar_partial`** — the same for the crossbar, with one owner per slave. -/
theorem axl_route_crossbar_partial (c : Cfg) (rd : Bool) (hd : Disjoint c) (hn : 0 < c.n) (ins : List DirIn) :
    Holds (Crossbar.machine c rd) c rd false (Crossbar.init c rd) Fifo.empty ins :=
  Crossbar.holds_of_inv c rd hd ins _ _ (Crossbar.inv_reset c rd hn)

/- Full statement of the data part (FALSE on the code, negative witness 2): every write-data handshake reaches the slave
   of its address, for every AXI-legal master (AXI allows W before AW). -/

/-- **`axl_route_data_partial`** (shared interconnect, single-beat data = AXI-Lite) — address/response part and data
    part together, for every run from reset: in every cycle up to which the environment has behaved (`EnvOK` and
    `DEnvOK`: NoDataBeforeAddr, an address whose data went ahead stays presented, B only after the data)
      * `RouteOK` (as in `axl_route_partial`), and
      * every write-data handshake at a master is, in the same cycle and with the same payload, a data handshake at
        exactly the slave of that master's oldest accepted address still waiting for data — or, with no such address,
        at the slave of the address it is presenting — and every data handshake at a slave is the data of exactly
        one such master.
    Together with `RouteOK.addr_m` the address/data pair of a write reaches one and the same slave, chosen by the
    address. -/
theorem axl_route_data_partial (c : Cfg) (rd : Bool) (hd : Disjoint c) (hn : 0 < c.n) (ins : List DirIn) :
    HoldsD (Shared.machine c rd) c rd true (Shared.init c rd) Fifo.empty DGhost.empty ins :=
  Shared.holdsD_of_inv c rd hd ins _ _ _ (Shared.inv_reset c rd hn) (Shared.dinv_reset c rd)

/-- **`axl_route_data_crossbar_partial`** — the same for the crossbar. -/
theorem axl_route_data_crossbar_partial (c : Cfg) (rd : Bool) (hd : Disjoint c) (hn : 0 < c.n) (ins : List DirIn) :
    HoldsD (Crossbar.machine c rd) c rd false (Crossbar.init c rd) Fifo.empty DGhost.empty ins :=
  Crossbar.holdsD_of_inv c rd hd ins _ _ _ (Crossbar.inv_reset c rd hn) (Crossbar.dinv_reset c rd)

/-! ## Bounded waiting -/

/-- **`axl_eventually_served`** (shared) — while master `i` keeps presenting an address, every cycle in which the
    bus can be handed over (`rr.ce`: the owner drives nothing and no response is outstanding — the end of a lock
    period) and `i` is not the owner moves the grant strictly closer to `i`:
    (number of such cycles) + (distance still to go) ≤ initial distance ≤ n-1.
    With slaves that eventually answer and masters that eventually accept, every lock period ends, so `i` is
    granted after at most n-1 lock periods of other masters. -/
theorem axl_eventually_served (c : Cfg) (rd : Bool) (i : Nat) (hi : i < c.n) (s : ShDir) (hg : s.arb.grant < c.n)
    (ins : List DirIn) (hreq : ∀ x ∈ ins, (x.ms i).aValid = true) :
    Shared.handovers c rd i s ins + RoundRobin.dist c.n ((Shared.machine c rd).runFrom s ins).arb.grant i
      ≤ RoundRobin.dist c.n s.arb.grant i ∧ RoundRobin.dist c.n s.arb.grant i ≤ c.n - 1 :=
  ⟨Shared.bounded_wait c rd i hi ins s hg hreq, by have := RoundRobin.dist_lt c.n s.arb.grant i (by omega); omega⟩

/-- … hence after n-1 hand-over opportunities `i` owns the bus. -/
theorem axl_served_within (c : Cfg) (rd : Bool) (i : Nat) (hi : i < c.n) (s : ShDir) (hg : s.arb.grant < c.n)
    (ins : List DirIn) (hreq : ∀ x ∈ ins, (x.ms i).aValid = true)
    (hmany : c.n - 1 ≤ Shared.handovers c rd i s ins) :
    ((Shared.machine c rd).runFrom s ins).arb.grant = i := by
  obtain ⟨h1, h2⟩ := axl_eventually_served c rd i hi s hg ins hreq
  have hfin : ((Shared.machine c rd).runFrom s ins).arb.grant < c.n := by
    clear h1 h2 hmany hreq
    induction ins generalizing s with
    | nil => exact hg
    | cons x xs ih => exact ih (Shared.next c rd s x) (Arb.next_grant_lt _ _ _ _ _ hg)
  exact RoundRobin.dist_eq_zero hfin hi (by omega)

/-- **`axl_eventually_served_crossbar`** — the same for the arbiter in front of slave `j` while master `i` keeps
    presenting an address that its decoder forwards to `j`. -/
theorem axl_eventually_served_crossbar (c : Cfg) (rd : Bool) (i j : Nat) (hi : i < c.n) (hj : j < c.m)
    (s : XbDir) (hg : (Crossbar.arb s j).grant < c.n) (ins : List DirIn) (hreq : Crossbar.Requests c rd i j s ins) :
    Crossbar.handovers c rd i j s ins +
      RoundRobin.dist c.n (Crossbar.arb ((Crossbar.machine c rd).runFrom s ins) j).grant i
      ≤ RoundRobin.dist c.n (Crossbar.arb s j).grant i ∧ RoundRobin.dist c.n (Crossbar.arb s j).grant i ≤ c.n - 1 :=
  ⟨Crossbar.bounded_wait c rd i j hi hj ins s hg hreq,
   by have := RoundRobin.dist_lt c.n (Crossbar.arb s j).grant i (by omega); omega⟩

/-- … hence after n-1 hand-over opportunities `i` owns slave `j`. -/
theorem axl_served_within_crossbar (c : Cfg) (rd : Bool) (i j : Nat) (hi : i < c.n) (hj : j < c.m)
    (s : XbDir) (hg : (Crossbar.arb s j).grant < c.n) (ins : List DirIn) (hreq : Crossbar.Requests c rd i j s ins)
    (hmany : c.n - 1 ≤ Crossbar.handovers c rd i j s ins) :
    (Crossbar.arb ((Crossbar.machine c rd).runFrom s ins) j).grant = i := by
  obtain ⟨h1, h2⟩ := axl_eventually_served_crossbar c rd i j hi hj s hg ins hreq
  have hfin : (Crossbar.arb ((Crossbar.machine c rd).runFrom s ins) j).grant < c.n := by
    clear h1 h2 hmany hreq
    induction ins generalizing s with
    | nil => exact hg
    | cons x xs ih =>
      apply ih (Crossbar.next c rd s x)
      rw [Crossbar.arb_next' c rd s x j hj]
      exact Arb.next_grant_lt _ _ _ _ _ hg
  exact RoundRobin.dist_eq_zero hfin hi (by omega)

/-! ## Point-to-point -/

/-- **`axl_p2p_transparent`** — `InterconnectPointToPoint` is wiring: the slave sees exactly what the master drives
    and vice versa, in every cycle (so every handshake trivially reaches the one slave and its one master). -/
theorem axl_p2p_transparent (x : DirIn) : (P2P.machine.out () x).toS 0 = x.ms 0 ∧ (P2P.machine.out () x).toM 0 = x.ss 0 :=
  ⟨rfl, rfl⟩

/-! ## Concrete instances: the hypotheses are satisfiable, and the excluded regions really fail -/

/-- 2 masters, 2 slaves, 8-bit data, slave `j` owns the byte addresses with `a >> 1 = j` (harness map "cover"). -/
def cfg22 : Cfg := { n := 2, m := 2, dec := fun j a => (a >>> 1) == j, shift := 0, full := false }

theorem cfg22_disjoint : Disjoint cfg22 := by
  intro a j k _ _ h1 h2
  simp only [cfg22, beq_iff_eq] at h1 h2
  omega

/-- cycle 0: master 0 presents address 2 (slave 1), slave 1 accepts. -/
def xa : DirIn :=
  { ms := fun i => if i = 0 then { aValid := true, aAddr := 2, aPay := 5, rReady := true } else {},
    ss := fun j => if j = 1 then { aReady := true } else {} }
/-- cycle 1: slave 1 answers, master 0 takes the response. -/
def xb : DirIn :=
  { ms := fun i => if i = 0 then { rReady := true } else {},
    ss := fun j => if j = 1 then { rValid := true, rPay := 3 } else {} }

/-- Non-vacuity of `axl_route_partial` / `axl_lock_held_shared`: a run inside the hypotheses with an accepted address
    (master 0 → slave 1), a held lock and a delivered response. -/
example :
    let M := Shared.machine cfg22 false
    let s0 := Shared.init cfg22 false
    let o0 := M.out s0 xa
    let s1 := M.next s0 xa
    let g1 := fifoNext cfg22 false Fifo.empty xa o0
    let o1 := M.out s1 xb
    mReq xa o0 0 = true ∧ sReq xa o0 1 = true ∧ sReq xa o0 0 = false ∧ g1 1 = [0] ∧ g1 0 = [] ∧
    s1.arb.cnt = 1 ∧ s1.dec.cnt = 1 ∧
    sRsp xb o1 1 = true ∧ mRsp xb o1 0 = true ∧ mRsp xb o1 1 = false ∧ (o1.toM 0).rPay = 3 ∧
    (M.next s1 xb).arb.cnt = 0 := by
  decide

example : EnvAll (Shared.machine cfg22 false) cfg22 false (Shared.init cfg22 false) Fifo.empty [xa, xb] := by
  have hg1 : fifoNext cfg22 false Fifo.empty xa ((Shared.machine cfg22 false).out (Shared.init cfg22 false) xa) 1 = [0] := by
    decide
  refine ⟨⟨?_, ?_, ?_⟩, ⟨?_, ?_, ?_⟩, trivial⟩
  · intro j _ h
    by_cases e : j = 1 <;> simp [xa, e] at h
  · intro i j _ _ _ hm; cases hm
  · intro j _ _; simp [Fifo.empty, maxReq]
  · intro j hj h
    have e : j = 1 := by
      by_cases e : j = 1
      · exact e
      · simp [xb, e] at h
    subst e
    rw [hg1]; simp
  · intro i j _ _ h
    by_cases e : i = 0 <;> simp [xb, e] at h
  · intro j hj h
    by_cases e : j = 1 <;> simp [xb, e] at h

/-- The same run on the crossbar (non-vacuity of `axl_route_crossbar_partial` / `axl_lock_held_crossbar`). -/
example :
    let M := Crossbar.machine cfg22 false
    let s0 := Crossbar.init cfg22 false
    let o0 := M.out s0 xa
    let s1 := M.next s0 xa
    let g1 := fifoNext cfg22 false Fifo.empty xa o0
    let o1 := M.out s1 xb
    mReq xa o0 0 = true ∧ sReq xa o0 1 = true ∧ sReq xa o0 0 = false ∧ g1 1 = [0] ∧ g1 0 = [] ∧
    (Crossbar.arb s1 1).cnt = 1 ∧ (Crossbar.dcd s1 0).cnt = 1 ∧ (Crossbar.arb s1 0).cnt = 0 ∧
    sRsp xb o1 1 = true ∧ mRsp xb o1 0 = true ∧ mRsp xb o1 1 = false ∧ (o1.toM 0).rPay = 3 := by
  decide

/-- Non-vacuity of `axl_eventually_served` / `axl_served_within`: master 1 presents an address while master 0
    owns the idle bus — one hand-over opportunity (n-1 = 1), after which master 1 owns the bus. -/
def xh : DirIn :=
  { ms := fun i => if i = 1 then { aValid := true, aAddr := 0 } else {}, ss := fun _ => {} }

example :
    Shared.handovers cfg22 false 1 (Shared.init cfg22 false) [xh] = 1 ∧
    ((Shared.machine cfg22 false).runFrom (Shared.init cfg22 false) [xh]).arb.grant = 1 ∧
    (∀ x ∈ [xh], (x.ms 1).aValid = true) := by
  refine ⟨by decide, by decide, ?_⟩
  intro x hx
  simp only [List.mem_singleton] at hx
  subst hx; rfl

/-! ### Negative witness 1 — known finding `C08-decoder-second-addr-other-slave`

  Master 0 has an unanswered request at slave 0 and presents an address of slave 1 (outside `sameSlave`): the
  decoder's select is the locked register, so slave 0 sees and accepts it, slave 1 sees nothing. -/

/-- cycle 0: address 0 (slave 0) accepted. -/
def xc : DirIn :=
  { ms := fun i => if i = 0 then { aValid := true, aAddr := 0 } else {},
    ss := fun _ => { aReady := true } }
/-- cycle 1: address 2 (slave 1) presented while the response of the first is outstanding; both slaves ready. -/
def xd : DirIn :=
  { ms := fun i => if i = 0 then { aValid := true, aAddr := 2 } else {},
    ss := fun _ => { aReady := true } }

example :
    let M := Shared.machine cfg22 false
    let s1 := M.next (Shared.init cfg22 false) xc
    let o1 := M.out s1 xd
    mReq xd o1 0 = true ∧ routes cfg22 1 (xd.ms 0).aAddr = true ∧ routes cfg22 0 (xd.ms 0).aAddr = false ∧
    sReq xd o1 0 = true ∧ (o1.toS 0).aAddr = 2 ∧ sReq xd o1 1 = false := by
  decide

/-- … so the guarantee `RouteOK.addr_m` fails in that cycle (the same on the crossbar and for `rd = true`). -/
example :
    let M := Shared.machine cfg22 false
    let s1 := M.next (Shared.init cfg22 false) xc
    let g1 := fifoNext cfg22 false Fifo.empty xc (M.out (Shared.init cfg22 false) xc)
    ¬ RouteOK cfg22 true g1 xd (M.out s1 xd) := by
  intro M s1 g1 h
  obtain ⟨j, hj, hr, hs⟩ := h.addr_m 0 (by decide) (by decide)
  have : j = 0 ∨ j = 1 := by
    have : j < 2 := hj
    omega
  rcases this with e | e <;> subst e
  · revert hr; decide
  · revert hs; decide

example :
    let M := Crossbar.machine { cfg22 with full := true } true
    let s1 := M.next (Crossbar.init { cfg22 with full := true } true) xc
    let o1 := M.out s1 xd
    mReq xd o1 0 = true ∧ sReq xd o1 0 = true ∧ sReq xd o1 1 = false := by
  decide

/-! ### Negative witness 2 — known finding `C08-decoder-w-before-aw`

  Write data handed over before its address is presented (outside NoDataBeforeAddr): with the counter at zero the
  select is decoded from the idle `aw.addr` lines (0 → slave 0), so slave 0 takes the data; the address (slave 1)
  presented in the next cycle goes to slave 1. -/

/-- cycle 0: data valid, address idle (lines at 0); both slaves ready for data. -/
def xe : DirIn :=
  { ms := fun i => if i = 0 then { dValid := true, dPay := 0x155, aAddr := 0 } else {},
    ss := fun _ => { dReady := true } }

example :
    let M := Shared.machine cfg22 false
    let o0 := M.out (Shared.init cfg22 false) xe
    let s1 := M.next (Shared.init cfg22 false) xe
    let o1 := M.out s1 xd
    mDat xe o0 0 = true ∧ sDat xe o0 0 = true ∧ sDat xe o0 1 = false ∧ (o0.toS 0).dPay = 0x155 ∧
    mReq xd o1 0 = true ∧ sReq xd o1 1 = true ∧ sReq xd o1 0 = false := by
  decide

/-- The environment assumption that excludes it: `DEnvOK.dataAfterAddr` fails in cycle 0. -/
example : ¬ DEnvOK cfg22 DGhost.empty xe := by
  intro h
  rcases h.dataAfterAddr 0 (by decide) (by decide) with h1 | h1
  · exact h1 rfl
  · revert h1; decide

/-- Non-vacuity of `axl_route_data_partial`: data presented together with its address, taken by the slave one cycle
    before the address (inside NoDataBeforeAddr), the address then accepted by the same slave. -/
def xf : DirIn :=
  { ms := fun i => if i = 0 then { aValid := true, aAddr := 2, dValid := true, dPay := 0x155 } else {},
    ss := fun j => if j = 1 then { dReady := true } else {} }
def xg : DirIn :=
  { ms := fun i => if i = 0 then { aValid := true, aAddr := 2 } else {},
    ss := fun j => if j = 1 then { aReady := true } else {} }

example :
    let M := Shared.machine cfg22 false
    let s0 := Shared.init cfg22 false
    let o0 := M.out s0 xf
    let dg1 := dgNext cfg22 false DGhost.empty xf o0
    let o1 := M.out (M.next s0 xf) xg
    mDat xf o0 0 = true ∧ sDat xf o0 1 = true ∧ sDat xf o0 0 = false ∧ mReq xf o0 0 = false ∧
    dg1.ahead 0 = some 1 ∧ dg1.sd 1 = 1 ∧
    mReq xg o1 0 = true ∧ sReq xg o1 1 = true ∧ (dgNext cfg22 false dg1 xg o1).ahead 0 = none ∧
    (dgNext cfg22 false dg1 xg o1).wq 0 = [] := by
  decide

example : DEnvOK cfg22 DGhost.empty xf := by
  refine ⟨?_, ?_, ?_⟩
  · intro i _ h
    by_cases e : i = 0
    · subst e; right; exact ⟨rfl, rfl⟩
    · simp [xf, e] at h
  · intro i k _ h; cases h
  · intro j _ h
    by_cases e : j = 1 <;> simp [xf, e] at h

end Litex.C08
