import LitexModel.Axi.LiteInterconnect
import LitexProofs.RoundRobin
/-
  C08 — AXI-Lite (and AXI) interconnect keeps grants and routes until every response has returned.
  (first milestone: one-step facts; the trace-level theorems follow)
-/
namespace Litex.Axi.Lite
open Litex

/-- The grant of one direction of the arbiter does not move in a cycle in which that direction's counter is
    non-zero or the owner drives an address/data valid or the target drives a response valid. -/
theorem axl_grant_frozen_step (n : Nat) (gated : Bool) (s : ArbState) (ms : Nat → DMS) (sm : DSM)
    (hg : s.grant < n)
    (h : s.cnt ≠ 0 ∨ (ms s.grant).aValid = true ∨ (ms s.grant).dValid = true ∨ sm.rValid = true) :
    (Arb.next n gated s ms sm).grant = s.grant := by
  have hce : Arb.ce s ms sm = false := by
    unfold Arb.ce Arb.tgt ctrEmpty
    rcases h with h | h | h | h
    · have : (s.cnt == 0) = false := by simpa using h
      simp [this]
    · simp [h]
    · simp [h]
    · simp [h]
  simp only [Arb.next, hce]
  exact RoundRobin.next_ce_hold _ hg

end Litex.Axi.Lite
