import LitexProofs.Axi.LiteRun
import LitexProofs.Axi.LiteSharedData
import LitexProofs.Axi.LiteCrossbarData
import LitexProofs.Axi.LiteTimeout
import LitexProofs.Axi.LiteClosed
import LitexModel.Axi.LiteSoc
import LitexProofs.Wishbone.InterconnectSoc
/-
  C08 — AXI-Lite (and AXI) interconnect keeps grants and routes until every response has returned.

  Models (`LitexModel/Axi/Lite*.lean`): one *direction* (write: aw/w/b, read: ar/r) of
    `Shared.machine c rd`    = `AXILiteInterconnectShared` / `AXIInterconnectShared`  (arbiter → bus → decoder),
    `Crossbar.machine c rd`  = `AXILiteCrossbar` / `AXICrossbar`  (a decoder per master, an arbiter per slave);
  the complete fabric is `both (… false) (… true)` (`Shared.full`, `Crossbar.full`).  `c.full` selects the AXI4
  classes (read responses counted on `last`).  Masters and slaves are environment: `x : DirIn` gives, for one cycle,
  arbitrary values of every master's address/data valid, address, payloads, response ready and of every slave's
  readies, response valid/last/payload.

  Quantifiers.  Run theorems are by induction over `ins : List DirIn` — every schedule of the five channels (address
  before/with/after data, several outstanding requests, back-pressure, any slave latency and acceptance order);
  the numbers of masters and slaves `c.n`, `c.m`, the address map `c.dec`, the data width (`c.shift`) and AXI-Lite vs
  AXI4 are arbitrary.  Hypotheses are explicit and decidable cycle by cycle against the routing scoreboard
  (`EnvOK`, `LitexModel/Axi/LiteInterconnectSpec.lean`):
      slaveLegal   a slave raises a response only while it holds an unanswered request          (AXI)
      sameSlave    SameSlaveWhileLocked: a master with unanswered requests at slave j presents only addresses of j
      noOverflow   a slave holding 255 unanswered requests does not accept another one          (8-bit counters)
  and `Disjoint c` (no address belongs to two slaves; C13 provides this for SoC regions), `0 < c.n`.
  The write-data theorems (`axl_route_data_partial`, `…_crossbar_partial`) additionally assume `DEnvOK`
      dataAfterAddr  NoDataBeforeAddr: data is presented only for an accepted address still waiting for it, or for the
                     address being presented
      addrHeld       an address whose data went ahead stays presented (same slave) until accepted      (AXI)
      respAfterData  B is given only after the data                                                    (AXI)
  and cover AXI-Lite transfers and AXI4 write bursts (`c.wlast` = where `last` sits in the packed payload).  The theorems about the read direction of the AXI4 classes count responses on `last` (`c.full`).

  CLOSED SYSTEM (`axl_closed_*`, `axl_end_to_end_*`, `axl_soc_end_to_end_partial`): `EnvOK` is not an assumption of the
  final statements — it is derived, for every schedule, from rules each master / slave follows on its own port
  (`LocalOK`: a master with unanswered requests stays with the slave of its last accepted address; a slave answers only
  requests it holds and accepts at most 255), and `Disjoint` is derived from an accepted SoC region list.  What remains
  assumed: NoDataBeforeAddr (open finding), ≤ 255 requests held per slave (the counters do not guard themselves:
  saturation witnesses), a healthy bus where a finite timeout is configured.

  The property as written ("each accepted address reaches the slave chosen by its address … for all schedules") is
  FALSE on the code without `sameSlave`, and the write-data part is false without NoDataBeforeAddr: see the two
  negative witnesses at the end (both are known findings, replayed on the real code by `harness/props/c08.py`).
-/
/-
  INVENTORY of the anchored code (litex/soc/interconnect/axi/axi_lite.py, axi_full.py, axi_common.py, and the SoC glue
  that instantiates it).  tie: A = exhaustive co-exploration of the reachable product (small shapes), B = seeded lock-step
  co-simulation (32..128-bit shapes, AXI-legal and arbitrary environments), P = pure function compared on a grid,
  every instance additionally through the model-independent AxiMonitor (protocol + routing scoreboard).

  class / function (Lite | AXI4 twin)               model                               theorems                                     tie
  ------------------------------------------------- ----------------------------------- -------------------------------------------- ---------------------------
  _AXILiteRequestCounter | _AXIRequestCounter       ctrNext, ctrEmpty (8 bit, saturates  axl_counter_inv, axl_counter_bounded,        P exhaustive (256 x 2 x 2, both
                                                     at 255, `stall` unused as coded)     axl_counter_saturates, saturation            classes) + 258-deep lock-step
                                                                                          witnesses (fabric level)                     runs inside 3 fabrics
  AXILiteArbiter | AXIArbiter                       Arb / ArbFabric (+ RoundRobin .ce)   axl_grant_frozen, axl_eventually_served,     A n = 1..3 w/r (exhaustive), B 3->1
                                                                                          axl_served_within, axl_crossbar_composition  32 bit; RoundRobin P exhaustive n<=4
  AXILiteDecoder | AXIDecoder                       Dec / DecFabric                      lock part of axl_lock_held_*, negative       A m = 1..3, 2 maps, w/r; B 1->3
                                                                                          witnesses 1 + 2 (the two open findings)      regions 32 bit
  AXILiteInterconnectPointToPoint | AXI…PointToPoint P2P (wiring = connect_axi)          axl_p2p_transparent, witness `socP`          A joint (Lite + AXI4), B 32 bit
  AXILiteInterconnectShared | AXIInterconnectShared Shared (timeout None), SharedT       axl_route(_data)_partial, axl_lock_held_,    A 1x2 2x1 2x2 (3x2 2x3 3x3 thorough,
    (adr/id width = max over masters)                (finite timeout_cycles, with         axl_counter_inv_shared, axl_id_preserved,    sampled), joint w x r; B 3x3 2x3 4x2
                                                     b-c11's AXI(Lite)Timeout FSM)        axl_timeout_transparent_partial,             16..128 bit, id_width 4, unequal
                                                                                          axl_closed_shared, axl_end_to_end_shared     master address widths, timeouts
  AXILiteCrossbar | AXICrossbar                     Crossbar (n decoders x m arbiters,   axl_route(_data)_crossbar_partial,           A as Shared; B 3x3 2x3 4x2 …;
    (timeout_cycles accepted and ignored)            arbitrary n, m)                      axl_lock_held_crossbar, axl_counter_inv_     3x3 walks
                                                                                          crossbar, axl_crossbar_composition,
                                                                                          axl_closed_crossbar, axl_end_to_end_crossbar
  AXILiteTimeout | AXITimeout                       b-c11's Timeout.Axi (C11 owns it)    C11; here only the composition SharedT       B healthy + firing buses
  get_check_parameters (both files)                 checkParameters                      axl_check_parameters                         P (equal / unequal width lists)
  AXI(Lite)Interface.layout_flat, axi_layout_flat,  not separately: they enumerate the   —                                            every signal of every channel is
    connect_axi (axi_common.py)                      signals the models carry as aValid/                                               driven and compared at port level
                                                     aAddr/aPay/dValid/dPay/rReady, …                                                  (widths checked against the
                                                     (`*Pay` = all pass-through fields)                                                constructor arguments)
  r.last-qualified read release (AXI4), w.last      `gated` (= full && rd), `c.wlast`    axl_read_burst_holds_lock, axl_read_burst_    A (AXI4 read letters carry last),
                                                                                          beat_keeps_entry, data theorems              B bursts 1..4 beats
  id / dest / user / first / last side-bands        packed in `*Pay` at full width       axl_id_preserved(_run)                       B id_width 4 (after fix 1eff3cf); masters
                                                                                                                                       with UNEQUAL id widths: direct id check
  SoCBusHandler.do_finalize (soc.py; standard       SocAxi.fabric / SocAxi.cfg over      axl_soc_fabric_p2p_iff, axl_soc_fabric_      P fabric class vs SocAxi.fabric,
    "axi-lite" / "axi": P2P / Shared / Crossbar,     b-c06's busTopology (shared model    decoded, axl_soc_closed_route,               B through real SoCBusHandlers
    SoCRegion.decoder, timeout, register)            of the one do_finalize statement)    axl_soc_accepted_disjoint_partial,           (`open socaxi`, model picks the fabric)
                                                                                          axl_soc_end_to_end_partial, witness `socP`
  legal AXI master / slave (environment)            LocalOK / LocalAll (port-local)      axl_closed_* (EnvOK DERIVED, not assumed)    `open localmon`: the harness's AXI-
                                                                                                                                       legal environments satisfy LocalOK in
                                                                                                                                       every cycle; finding witnesses do not
  other classes of the three files (AXILiteSRAM, axi_lite_to_simple, Up/DownConverter, Converter, ClockDomainCrossing,
  Remapper, AXIBurst2Beat, connect_to_pads): properties C05 / C07 / C09 / C10 / C11, not C08.
-/
namespace Litex.C08
open Litex Litex.Axi.Lite

/-! ## Outstanding-request counters -/

/-- **`axl_counter_inv`** — the counter register equals accepted requests minus delivered responses, for every
    event sequence in which a response leaves only while a request is outstanding (or together with one) and at
    most 255 requests are outstanding. -/
theorem axl_counter_inv (evs : List (Bool × Bool)) (h : CtrLegal 0 evs) :
    ctrRun 0 evs = outstandingSpec 0 evs :=
  ctrRun_spec evs 0 h

/-- non-vacuity: request, request+response, response. -/
example : CtrLegal 0 [(true, false), (true, true), (false, true)] ∧
    ctrRun 0 [(true, false), (true, true), (false, true)] = 0 ∧ ctrRun 0 [(true, false), (true, false)] = 2 := by
  refine ⟨?_, by decide, by decide⟩
  simp [CtrLegal, maxReq]

/-- Saturation as coded (`stall` is computed and never used): from 255 the 256th unanswered request is accepted by
    the fabric but not counted — the region excluded by the second conjunct of `CtrLegal`. -/
example : ctrRun 255 [(true, false)] = 255 ∧ outstandingSpec 255 [(true, false)] = 256 := by decide

/-- **`axl_counter_inv_shared`** — in every state the shared interconnect reaches under a behaving environment,
    the arbiter's and the decoder's counter both equal the number of unanswered requests on the port-level
    scoreboard (accepted at the slaves, response not yet handed back). -/
theorem axl_counter_inv_shared (c : Cfg) (rd : Bool) (hd : Disjoint c) (hn : 0 < c.n) (ins : List DirIn)
    (henv : EnvAll (Shared.machine c rd) c rd (Shared.init c rd) Fifo.empty ins) :
    let r := runSB (Shared.machine c rd) c rd (Shared.init c rd) Fifo.empty ins
    r.1.arb.cnt = r.2.total c.m ∧ r.1.dec.cnt = r.2.total c.m :=
  Shared.counters c _ _ (Shared.inv_run c rd hd ins _ _ (Shared.inv_reset c rd hn) henv)

/-- **`axl_counter_inv_crossbar`** — crossbar: the arbiter in front of slave `j` counts slave `j`'s unanswered
    requests, the decoder behind master `i` counts master `i`'s. -/
theorem axl_counter_inv_crossbar (c : Cfg) (rd : Bool) (hd : Disjoint c) (hn : 0 < c.n) (ins : List DirIn)
    (henv : EnvAll (Crossbar.machine c rd) c rd (Crossbar.init c rd) Fifo.empty ins) :
    let r := runSB (Crossbar.machine c rd) c rd (Crossbar.init c rd) Fifo.empty ins
    (∀ j, j < c.m → (Crossbar.arb r.1 j).cnt = (r.2 j).length) ∧
    (∀ i, i < c.n → (Crossbar.dcd r.1 i).cnt = r.2.ofMaster c.m i) :=
  Crossbar.counters c _ _ (Crossbar.inv_run c rd hd ins _ _ (Crossbar.inv_reset c rd hn) henv)

/-! ## Frozen grant and frozen select -/

/-- **`axl_grant_frozen`** — in EVERY state and for EVERY input: the write (read) grant of an arbiter does not
    change at the clock edge while that direction's counter is non-zero or the owner drives `aw|w` (`ar`) valid or
    the target drives `b` (`r`) valid. -/
theorem axl_grant_frozen (n : Nat) (gated : Bool) (s : ArbState) (ms : Nat → DMS) (sm : DSM) (hg : s.grant < n)
    (h : s.cnt ≠ 0 ∨ (ms s.grant).aValid = true ∨ (ms s.grant).dValid = true ∨ sm.rValid = true) :
    (Arb.next n gated s ms sm).grant = s.grant :=
  Arb.grant_frozen n gated s ms sm hg h

/-- **`axl_lock_held_shared`** — along every run with a behaving environment: while some slave `j` holds an
    unanswered request (scoreboard entry, i.e. accepted at the slave port and not yet answered), whatever the
    masters and slaves drive next, the grant does not move, the select points at `j` and only at `j` regardless of the
    address lines, and all unanswered requests are the grant owner's. -/
theorem axl_lock_held_shared (c : Cfg) (rd : Bool) (hd : Disjoint c) (hn : 0 < c.n) (ins : List DirIn)
    (henv : EnvAll (Shared.machine c rd) c rd (Shared.init c rd) Fifo.empty ins) :
    let r := runSB (Shared.machine c rd) c rd (Shared.init c rd) Fifo.empty ins
    ∀ j, j < c.m → r.2 j ≠ [] →
      (∀ x, (Shared.next c rd r.1 x).arb.grant = r.1.arb.grant) ∧
      (∀ x k, k < c.m → Shared.selOf c rd r.1 x k = (k == j)) ∧
      (∀ a ∈ r.2 j, a = r.1.arb.grant) := by
  intro r j hj hne
  exact Shared.lock_held c rd _ _ (Shared.inv_run c rd hd ins _ _ (Shared.inv_reset c rd hn) henv) j hj hne

/-- **`axl_lock_held_crossbar`** — crossbar: while slave `j` holds an unanswered request its arbiter's grant does
    not move, the requests are all the grant owner's, and the decoder of every master with an unanswered request at
    `j` selects `j` and only `j`. -/
theorem axl_lock_held_crossbar (c : Cfg) (rd : Bool) (hd : Disjoint c) (hn : 0 < c.n) (ins : List DirIn)
    (henv : EnvAll (Crossbar.machine c rd) c rd (Crossbar.init c rd) Fifo.empty ins) :
    let r := runSB (Crossbar.machine c rd) c rd (Crossbar.init c rd) Fifo.empty ins
    ∀ j, j < c.m → r.2 j ≠ [] →
      (∀ x, (Crossbar.arb (Crossbar.next c rd r.1 x) j).grant = (Crossbar.arb r.1 j).grant) ∧
      (∀ i, i < c.n → i ∈ r.2 j → ∀ x k, k < c.m → Crossbar.selI c rd r.1 x i k = (k == j)) ∧
      (∀ a ∈ r.2 j, a = (Crossbar.arb r.1 j).grant) := by
  intro r j hj hne
  exact Crossbar.lock_held c rd _ _ (Crossbar.inv_run c rd hd ins _ _ (Crossbar.inv_reset c rd hn) henv) j hj hne

/-! ## Independence of the write and the read direction -/

/-- **`axl_rw_independent`** — a complete fabric run is the write machine on the write signals next to the read
    machine on the read signals: the registers of either direction after any run, and everything any port sees on
    the channels of that direction in any cycle, are functions of that direction's inputs alone. -/
theorem axl_rw_independent {σ : Type} (mw mr : Machine DirIn σ DirOut) (ins : List BusIn) :
    ((both mw mr).run ins).w = mw.run (ins.map wIn) ∧ ((both mw mr).run ins).r = mr.run (ins.map rIn) ∧
    ((both mw mr).trace ins).map (fun o => (fun j => (o.toS j).w, fun i => (o.toM i).w)) =
      (mw.trace (ins.map wIn)).map (fun o => (o.toS, o.toM)) ∧
    ((both mw mr).trace ins).map (fun o => (fun j => (o.toS j).r, fun i => (o.toM i).r)) =
      (mr.trace (ins.map rIn)).map (fun o => (o.toS, o.toM)) :=
  ⟨(both_run mw mr ins _).1, (both_run mw mr ins _).2, (both_trace mw mr ins _).1, (both_trace mw mr ins _).2⟩

/-! ## Routing -/

/- Full statement (FALSE on the code, see the negative witnesses):
   theorem axl_route : ∀ ins, Holds' … where the environment is only required to be AXI-legal. -/

/-- **`axl_route_partial`** (shared interconnect) — for every run from reset: in every cycle up to which the
    environment has behaved (`EnvOK`: AXI-legal slaves, SameSlaveWhileLocked, ≤ 255 outstanding)
      * every address handshake at a master is an address handshake at the slave its address decodes to, and every
        address handshake at a slave is the request of exactly one master, with that master's address and payload;
      * every response handshake at slave `j` is in the same cycle a response handshake, with the same payload, at
        the issuer of slave `j`'s oldest unanswered request, and every response handshake at a master comes from
        exactly one such slave (delivered exactly once, to the issuer, in issue order);
      * all unanswered requests of the bus belong to one master. -/
theorem axl_route_partial (c : Cfg) (rd : Bool) (hd : Disjoint c) (hn : 0 < c.n) (ins : List DirIn) :
    Holds (Shared.machine c rd) c rd true (Shared.init c rd) Fifo.empty ins :=
  Shared.holds_of_inv c rd hd ins _ _ (Shared.inv_reset c rd hn)

/-- **`axl_route_crossbar_partial`** — the same for the crossbar, with one owner per slave. -/
theorem axl_route_crossbar_partial (c : Cfg) (rd : Bool) (hd : Disjoint c) (hn : 0 < c.n) (ins : List DirIn) :
    Holds (Crossbar.machine c rd) c rd false (Crossbar.init c rd) Fifo.empty ins :=
  Crossbar.holds_of_inv c rd hd ins _ _ (Crossbar.inv_reset c rd hn)

/-- **`axl_id_preserved`** — IDs (and every other pass-through field: the model carries the packed payloads at full
    width, as the code does since fix 1eff3cf) are unchanged by the fabric.  For ANY field extractor `idOf` on the
    packed payload: in a cycle in which the routing guarantee holds, the request id seen by a slave at its address
    handshake is the id driven by the one master whose request it is, and the response id seen by the issuer at its
    response handshake is the id driven by the slave.  With `axl_route_partial` / `axl_route_crossbar_partial` this
    holds in every cycle of every run with a behaving environment (`axl_id_preserved_run`). -/
theorem axl_id_preserved (c : Cfg) (shared : Bool) (g : Fifo) (x : DirIn) (o : DirOut) (h : RouteOK c shared g x o)
    (idOf : Nat → Nat) :
    (∀ j, j < c.m → sReq x o j = true →
        ∃ i, i < c.n ∧ issuersTo c x o j = [i] ∧ idOf (o.toS j).aPay = idOf (x.ms i).aPay) ∧
    (∀ j, j < c.m → sRsp x o j = true →
        ∃ i, i < c.n ∧ (g j).head? = some i ∧ mRsp x o i = true ∧ idOf (o.toM i).rPay = idOf (x.ss j).rPay) := by
  constructor
  · intro j hj hs
    obtain ⟨i, hi, hiss, _, hp⟩ := h.addr_s j hj hs
    exact ⟨i, hi, hiss, by rw [hp]⟩
  · intro j hj hs
    obtain ⟨i, hi, hh, hm, hp, _⟩ := h.resp_s j hj hs
    exact ⟨i, hi, hh, hm, by rw [hp]⟩

/-- … in the first cycle after any run from reset of the shared interconnect (the crossbar is the same with
    `axl_route_crossbar_partial`). -/
theorem axl_id_preserved_run (c : Cfg) (rd : Bool) (hd : Disjoint c) (hn : 0 < c.n) (ins : List DirIn) (x : DirIn)
    (henv : EnvAll (Shared.machine c rd) c rd (Shared.init c rd) Fifo.empty ins) (idOf : Nat → Nat) :
    let r := runSB (Shared.machine c rd) c rd (Shared.init c rd) Fifo.empty ins
    EnvOK c r.2 x →
    (∀ j, j < c.m → sReq x (Shared.out c rd r.1 x) j = true →
        ∃ i, i < c.n ∧ issuersTo c x (Shared.out c rd r.1 x) j = [i] ∧
             idOf ((Shared.out c rd r.1 x).toS j).aPay = idOf (x.ms i).aPay) ∧
    (∀ j, j < c.m → sRsp x (Shared.out c rd r.1 x) j = true →
        ∃ i, i < c.n ∧ (r.2 j).head? = some i ∧ mRsp x (Shared.out c rd r.1 x) i = true ∧
             idOf ((Shared.out c rd r.1 x).toM i).rPay = idOf (x.ss j).rPay) := by
  intro r env
  have hinv := Shared.inv_run c rd hd ins _ _ (Shared.inv_reset c rd hn) henv
  exact axl_id_preserved c true r.2 x _ (Shared.step c rd hd r.1 r.2 x hinv env).1 idOf

/- Full statement of the data part (FALSE on the code, negative witness 2): every write-data handshake reaches the slave
   of its address, for every AXI-legal master (AXI allows W before AW). -/

/-- **`axl_route_data_partial`** (shared interconnect; AXI-Lite transfers and AXI4 write BURSTS: `c.wlast` reads `last`
    off the packed data payload, a burst is the beats up to and including `last`, bursts belong to addresses in
    order) — address/response part and data part together, for every run from reset: in every cycle up to which the environment has behaved (`EnvOK` and
    `DEnvOK`: NoDataBeforeAddr, an address whose data went ahead stays presented, B only after the data)
      * `RouteOK` (as in `axl_route_partial`), and
      * every write-data beat handed over by a master is, in the same cycle and with the same payload (hence the same
        `last`), a data handshake at exactly the slave of that master's oldest accepted address whose burst is not
        complete — or, with no such address, at the slave of the address it is presenting — and every data handshake
        at a slave is the beat of exactly one such master; `last` closes the burst (`dgNext`): all beats of a burst
        reach the slave of its address, in order; the counters count AW/B as coded (`axl_counter_inv_*`).
    Together with `RouteOK.addr_m` the address/data pair of a write reaches one and the same slave, chosen by the
    address. -/
theorem axl_route_data_partial (c : Cfg) (rd : Bool) (hd : Disjoint c) (hn : 0 < c.n) (ins : List DirIn) :
    HoldsD (Shared.machine c rd) c rd true (Shared.init c rd) Fifo.empty DGhost.empty ins :=
  Shared.holdsD_of_inv c rd hd ins _ _ _ (Shared.inv_reset c rd hn) (Shared.dinv_reset c rd)

/-- **`axl_route_data_crossbar_partial`** — the same for the crossbar. -/
theorem axl_route_data_crossbar_partial (c : Cfg) (rd : Bool) (hd : Disjoint c) (hn : 0 < c.n) (ins : List DirIn) :
    HoldsD (Crossbar.machine c rd) c rd false (Crossbar.init c rd) Fifo.empty DGhost.empty ins :=
  Crossbar.holdsD_of_inv c rd hd ins _ _ _ (Crossbar.inv_reset c rd hn) (Crossbar.dinv_reset c rd)

/-! ## Bounded waiting -/

/-- **`axl_eventually_served`** (shared) — while master `i` keeps presenting an address, every cycle in which the
    bus can be handed over (`rr.ce`: the owner drives nothing and no response is outstanding — the end of a lock
    period) and `i` is not the owner moves the grant strictly closer to `i`:
    (number of such cycles) + (distance still to go) ≤ initial distance ≤ n-1.
    With slaves that eventually answer and masters that eventually accept, every lock period ends, so `i` is
    granted after at most n-1 lock periods of other masters. -/
theorem axl_eventually_served (c : Cfg) (rd : Bool) (i : Nat) (hi : i < c.n) (s : ShDir) (hg : s.arb.grant < c.n)
    (ins : List DirIn) (hreq : ∀ x ∈ ins, (x.ms i).aValid = true) :
    Shared.handovers c rd i s ins + RoundRobin.dist c.n ((Shared.machine c rd).runFrom s ins).arb.grant i
      ≤ RoundRobin.dist c.n s.arb.grant i ∧ RoundRobin.dist c.n s.arb.grant i ≤ c.n - 1 :=
  ⟨Shared.bounded_wait c rd i hi ins s hg hreq, by have := RoundRobin.dist_lt c.n s.arb.grant i (by omega); omega⟩

/-- … hence after n-1 hand-over opportunities `i` owns the bus. -/
theorem axl_served_within (c : Cfg) (rd : Bool) (i : Nat) (hi : i < c.n) (s : ShDir) (hg : s.arb.grant < c.n)
    (ins : List DirIn) (hreq : ∀ x ∈ ins, (x.ms i).aValid = true)
    (hmany : c.n - 1 ≤ Shared.handovers c rd i s ins) :
    ((Shared.machine c rd).runFrom s ins).arb.grant = i := by
  obtain ⟨h1, h2⟩ := axl_eventually_served c rd i hi s hg ins hreq
  have hfin : ((Shared.machine c rd).runFrom s ins).arb.grant < c.n := by
    clear h1 h2 hmany hreq
    induction ins generalizing s with
    | nil => exact hg
    | cons x xs ih => exact ih (Shared.next c rd s x) (Arb.next_grant_lt _ _ _ _ _ hg)
  exact RoundRobin.dist_eq_zero hfin hi (by omega)

/-- **`axl_eventually_served_crossbar`** — the same for the arbiter in front of slave `j` while master `i` keeps
    presenting an address that its decoder forwards to `j`. -/
theorem axl_eventually_served_crossbar (c : Cfg) (rd : Bool) (i j : Nat) (hi : i < c.n) (hj : j < c.m)
    (s : XbDir) (hg : (Crossbar.arb s j).grant < c.n) (ins : List DirIn) (hreq : Crossbar.Requests c rd i j s ins) :
    Crossbar.handovers c rd i j s ins +
      RoundRobin.dist c.n (Crossbar.arb ((Crossbar.machine c rd).runFrom s ins) j).grant i
      ≤ RoundRobin.dist c.n (Crossbar.arb s j).grant i ∧ RoundRobin.dist c.n (Crossbar.arb s j).grant i ≤ c.n - 1 :=
  ⟨Crossbar.bounded_wait c rd i j hi hj ins s hg hreq,
   by have := RoundRobin.dist_lt c.n (Crossbar.arb s j).grant i (by omega); omega⟩

/-- … hence after n-1 hand-over opportunities `i` owns slave `j`. -/
theorem axl_served_within_crossbar (c : Cfg) (rd : Bool) (i j : Nat) (hi : i < c.n) (hj : j < c.m)
    (s : XbDir) (hg : (Crossbar.arb s j).grant < c.n) (ins : List DirIn) (hreq : Crossbar.Requests c rd i j s ins)
    (hmany : c.n - 1 ≤ Crossbar.handovers c rd i j s ins) :
    (Crossbar.arb ((Crossbar.machine c rd).runFrom s ins) j).grant = i := by
  obtain ⟨h1, h2⟩ := axl_eventually_served_crossbar c rd i j hi hj s hg ins hreq
  have hfin : (Crossbar.arb ((Crossbar.machine c rd).runFrom s ins) j).grant < c.n := by
    clear h1 h2 hmany hreq
    induction ins generalizing s with
    | nil => exact hg
    | cons x xs ih =>
      apply ih (Crossbar.next c rd s x)
      rw [Crossbar.arb_next' c rd s x j hj]
      exact Arb.next_grant_lt _ _ _ _ _ hg
  exact RoundRobin.dist_eq_zero hfin hi (by omega)

/-! ## Point-to-point -/

/-- **`axl_p2p_transparent`** — `InterconnectPointToPoint` is wiring: the slave sees exactly what the master drives
    and vice versa, in every cycle (so every handshake trivially reaches the one slave and its one master). -/
theorem axl_p2p_transparent (x : DirIn) : (P2P.machine.out () x).toS 0 = x.ms 0 ∧ (P2P.machine.out () x).toM 0 = x.ss 0 :=
  ⟨rfl, rfl⟩

/-! ## Finite bus timeout (`AXI(Lite)InterconnectShared(timeout_cycles = t)`) -/

/- Full statement (FALSE: a dead slave makes the watchdog answer in its place — that is its purpose, property C11):
   the shared interconnect with a timeout behaves as the one without. -/

/-- **`axl_timeout_transparent_partial`** — `SharedT.machine` = the shared interconnect composed with b-c11's
    `AXI(Lite)Timeout` FSM as the class wires it (override of the shared bus, both lock counters read the overridden
    bus).  On a HEALTHY bus — along the run no streak of consecutive cycles in which an address (write: or data)
    transfer of the bus owner is presented and not accepted grows beyond `t` (`Shared.Healthy`) — the fabric with
    `timeout_cycles = t` produces, from reset, exactly the outputs of the timeout-less fabric in every cycle, ends with
    the same arbiter/decoder registers, and its watchdog never leaves WAIT.  Hence every theorem above
    (`axl_route_partial`, `axl_route_data_partial`, `axl_lock_held_shared`, …) holds verbatim for the fabric users
    build with a finite timeout, on every healthy run. -/
theorem axl_timeout_transparent_partial (c : TCfg) (rd : Bool) (ins : List DirIn)
    (hh : Shared.Healthy c.toCfg rd c.t (Shared.init c.toCfg rd) 0 ins) :
    (SharedT.machine c rd).trace ins = (Shared.machine c.toCfg rd).trace ins ∧
    ((SharedT.machine c rd).run ins).sh = (Shared.machine c.toCfg rd).run ins ∧
    ((SharedT.machine c rd).run ins).tm.respond = false :=
  SharedT.transparent c rd ins (SharedT.init c rd) 0 rfl (by simp [SharedT.init, Timeout.Axi.fInit]) hh

/-- … in particular the routing guarantee of `axl_route_partial`. -/
theorem axl_route_timeout_partial (c : TCfg) (rd : Bool) (hd : Disjoint c.toCfg) (hn : 0 < c.n) (ins : List DirIn)
    (hh : Shared.Healthy c.toCfg rd c.t (Shared.init c.toCfg rd) 0 ins) :
    (SharedT.machine c rd).trace ins = (Shared.machine c.toCfg rd).trace ins ∧
    Holds (Shared.machine c.toCfg rd) c.toCfg rd true (Shared.init c.toCfg rd) Fifo.empty ins :=
  ⟨(axl_timeout_transparent_partial c rd ins hh).1, axl_route_partial c.toCfg rd hd hn ins⟩

/-! ## Closed system: legal masters + legal slaves + disjoint map ⇒ the guarantee, in every cycle

  The theorems above assume `EnvOK` cycle by cycle against the GLOBAL scoreboard.  Here the assumption is replaced by
  rules each master / slave can follow from what it sees on ITS OWN port (`LocalOK`, LitexModel/Axi/LiteClosed.lean):
  a master with unanswered requests (its own count) presents only addresses of the slave of its last accepted address;
  a slave answers only requests it holds (its own count) and does not accept a 256th.  `EnvOK` is then DERIVED for every
  schedule (`closed_env`: circular assume/guarantee induction, for any machine satisfying `Holds`). -/

/-- **`axl_closed_shared`** — shared interconnect, every schedule in which masters and slaves follow the local rules:
    the global assumptions hold in every cycle, hence (no assumption left) the routing guarantee `RouteOK` holds in
    EVERY cycle of the run. -/
theorem axl_closed_shared (c : Cfg) (rd : Bool) (hd : Disjoint c) (hn : 0 < c.n) (ins : List DirIn)
    (hloc : LocalAll (Shared.machine c rd) c rd (Shared.init c rd) (fun _ => {}) (fun _ => 0) ins) :
    EnvAll (Shared.machine c rd) c rd (Shared.init c rd) Fifo.empty ins ∧
    Guar (Shared.machine c rd) c rd true (Shared.init c rd) Fifo.empty ins := by
  have hh := axl_route_partial c rd hd hn ins
  have he := closed_env _ c rd true hd ins _ _ _ _ (coupled_reset c) hh hloc
  exact ⟨he, guar_of_holds _ c rd true ins _ _ hh he⟩

/-- **`axl_closed_crossbar`** — the same for the crossbar. -/
theorem axl_closed_crossbar (c : Cfg) (rd : Bool) (hd : Disjoint c) (hn : 0 < c.n) (ins : List DirIn)
    (hloc : LocalAll (Crossbar.machine c rd) c rd (Crossbar.init c rd) (fun _ => {}) (fun _ => 0) ins) :
    EnvAll (Crossbar.machine c rd) c rd (Crossbar.init c rd) Fifo.empty ins ∧
    Guar (Crossbar.machine c rd) c rd false (Crossbar.init c rd) Fifo.empty ins := by
  have hh := axl_route_crossbar_partial c rd hd hn ins
  have he := closed_env _ c rd false hd ins _ _ _ _ (coupled_reset c) hh hloc
  exact ⟨he, guar_of_holds _ c rd false ins _ _ hh he⟩

/-- **`axl_closed_data_shared`** / **`…_crossbar`** — with the write-data rules as well (`DEnvOK`: NoDataBeforeAddr,
    address held, B after the data — each clause is about one master's own waiting list or one slave's own burst count):
    address, response AND data guarantee in every cycle. -/
theorem axl_closed_data_shared (c : Cfg) (rd : Bool) (hd : Disjoint c) (hn : 0 < c.n) (ins : List DirIn)
    (hloc : LocalAll (Shared.machine c rd) c rd (Shared.init c rd) (fun _ => {}) (fun _ => 0) ins)
    (hdat : DEnvAll (Shared.machine c rd) c rd (Shared.init c rd) DGhost.empty ins) :
    GuarD (Shared.machine c rd) c rd true (Shared.init c rd) Fifo.empty DGhost.empty ins :=
  guarD_of_holdsD _ c rd true ins _ _ _ (axl_route_data_partial c rd hd hn ins) (axl_closed_shared c rd hd hn ins hloc).1 hdat

theorem axl_closed_data_crossbar (c : Cfg) (rd : Bool) (hd : Disjoint c) (hn : 0 < c.n) (ins : List DirIn)
    (hloc : LocalAll (Crossbar.machine c rd) c rd (Crossbar.init c rd) (fun _ => {}) (fun _ => 0) ins)
    (hdat : DEnvAll (Crossbar.machine c rd) c rd (Crossbar.init c rd) DGhost.empty ins) :
    GuarD (Crossbar.machine c rd) c rd false (Crossbar.init c rd) Fifo.empty DGhost.empty ins :=
  guarD_of_holdsD _ c rd false ins _ _ _ (axl_route_data_crossbar_partial c rd hd hn ins)
    (axl_closed_crossbar c rd hd hn ins hloc).1 hdat

/-- **`axl_end_to_end_shared`** — the property as one statement: legal masters + legal slaves + disjoint address map ⇒
    (1) in every cycle every accepted address reaches exactly its decoded slave and every response returns exactly once
    to its issuer, in issue order (`Guar`); (2) after the run both counters equal the number of unanswered requests;
    (3) while any request is unanswered the grant cannot move whatever is driven next, the select points at that slave
    only, and all unanswered requests are the owner's. -/
theorem axl_end_to_end_shared (c : Cfg) (rd : Bool) (hd : Disjoint c) (hn : 0 < c.n) (ins : List DirIn)
    (hloc : LocalAll (Shared.machine c rd) c rd (Shared.init c rd) (fun _ => {}) (fun _ => 0) ins) :
    Guar (Shared.machine c rd) c rd true (Shared.init c rd) Fifo.empty ins ∧
    (let r := runSB (Shared.machine c rd) c rd (Shared.init c rd) Fifo.empty ins
     (r.1.arb.cnt = r.2.total c.m ∧ r.1.dec.cnt = r.2.total c.m) ∧
     ∀ j, j < c.m → r.2 j ≠ [] →
      (∀ x, (Shared.next c rd r.1 x).arb.grant = r.1.arb.grant) ∧
      (∀ x k, k < c.m → Shared.selOf c rd r.1 x k = (k == j)) ∧
      (∀ a ∈ r.2 j, a = r.1.arb.grant)) := by
  obtain ⟨he, hg⟩ := axl_closed_shared c rd hd hn ins hloc
  exact ⟨hg, axl_counter_inv_shared c rd hd hn ins he, axl_lock_held_shared c rd hd hn ins he⟩

/-- **`axl_end_to_end_crossbar`** — the same for the crossbar (one owner per slave). -/
theorem axl_end_to_end_crossbar (c : Cfg) (rd : Bool) (hd : Disjoint c) (hn : 0 < c.n) (ins : List DirIn)
    (hloc : LocalAll (Crossbar.machine c rd) c rd (Crossbar.init c rd) (fun _ => {}) (fun _ => 0) ins) :
    Guar (Crossbar.machine c rd) c rd false (Crossbar.init c rd) Fifo.empty ins ∧
    (let r := runSB (Crossbar.machine c rd) c rd (Crossbar.init c rd) Fifo.empty ins
     ((∀ j, j < c.m → (Crossbar.arb r.1 j).cnt = (r.2 j).length) ∧
      (∀ i, i < c.n → (Crossbar.dcd r.1 i).cnt = r.2.ofMaster c.m i)) ∧
     ∀ j, j < c.m → r.2 j ≠ [] →
      (∀ x, (Crossbar.arb (Crossbar.next c rd r.1 x) j).grant = (Crossbar.arb r.1 j).grant) ∧
      (∀ i, i < c.n → i ∈ r.2 j → ∀ x k, k < c.m → Crossbar.selI c rd r.1 x i k = (k == j)) ∧
      (∀ a ∈ r.2 j, a = (Crossbar.arb r.1 j).grant)) := by
  obtain ⟨he, hg⟩ := axl_closed_crossbar c rd hd hn ins hloc
  exact ⟨hg, axl_counter_inv_crossbar c rd hd hn ins he, axl_lock_held_crossbar c rd hd hn ins he⟩

/-- **`axl_rw_closed`** — complete fabric, both directions at once: the write machine sees only the write signals and
    the read machine only the read signals (`axl_rw_independent`), so local legality of the write traffic alone gives
    the write guarantee in every cycle whatever happens on the read channels (legal or not), and vice versa. -/
theorem axl_rw_closed (c : Cfg) (hd : Disjoint c) (hn : 0 < c.n) (ins : List BusIn) :
    (LocalAll (Shared.machine c false) c false (Shared.init c false) (fun _ => {}) (fun _ => 0) (ins.map wIn) →
       Guar (Shared.machine c false) c false true (Shared.init c false) Fifo.empty (ins.map wIn) ∧
       ((Shared.full c).run ins).w = (Shared.machine c false).run (ins.map wIn)) ∧
    (LocalAll (Shared.machine c true) c true (Shared.init c true) (fun _ => {}) (fun _ => 0) (ins.map rIn) →
       Guar (Shared.machine c true) c true true (Shared.init c true) Fifo.empty (ins.map rIn) ∧
       ((Shared.full c).run ins).r = (Shared.machine c true).run (ins.map rIn)) :=
  ⟨fun h => ⟨(axl_closed_shared c false hd hn _ h).2, (axl_rw_independent _ _ ins).1⟩,
   fun h => ⟨(axl_closed_shared c true hd hn _ h).2, (axl_rw_independent _ _ ins).2.1⟩⟩

/-- … the same for the crossbar. -/
theorem axl_rw_closed_crossbar (c : Cfg) (hd : Disjoint c) (hn : 0 < c.n) (ins : List BusIn) :
    (LocalAll (Crossbar.machine c false) c false (Crossbar.init c false) (fun _ => {}) (fun _ => 0) (ins.map wIn) →
       Guar (Crossbar.machine c false) c false false (Crossbar.init c false) Fifo.empty (ins.map wIn) ∧
       ((Crossbar.full c).run ins).w = (Crossbar.machine c false).run (ins.map wIn)) ∧
    (LocalAll (Crossbar.machine c true) c true (Crossbar.init c true) (fun _ => {}) (fun _ => 0) (ins.map rIn) →
       Guar (Crossbar.machine c true) c true false (Crossbar.init c true) Fifo.empty (ins.map rIn) ∧
       ((Crossbar.full c).run ins).r = (Crossbar.machine c true).run (ins.map rIn)) :=
  ⟨fun h => ⟨(axl_closed_crossbar c false hd hn _ h).2, (axl_rw_independent _ _ ins).1⟩,
   fun h => ⟨(axl_closed_crossbar c true hd hn _ h).2, (axl_rw_independent _ _ ins).2.1⟩⟩

/-- **`axl_closed_timeout_partial`** — the shared interconnect as users build it (finite `timeout_cycles`, the SoC default
    is 10^6): on a healthy bus (`Shared.Healthy`, see `axl_timeout_transparent_partial`) with legal masters and slaves the
    fabric WITH the watchdog shows, cycle for cycle, the outputs of the timeout-less fabric, and for those the routing
    guarantee holds in every cycle.  (`_partial`: `Healthy` — a dead slave makes the watchdog answer, property C11.) -/
theorem axl_closed_timeout_partial (c : TCfg) (rd : Bool) (hd : Disjoint c.toCfg) (hn : 0 < c.n) (ins : List DirIn)
    (hh : Shared.Healthy c.toCfg rd c.t (Shared.init c.toCfg rd) 0 ins)
    (hloc : LocalAll (Shared.machine c.toCfg rd) c.toCfg rd (Shared.init c.toCfg rd) (fun _ => {}) (fun _ => 0) ins) :
    (SharedT.machine c rd).trace ins = (Shared.machine c.toCfg rd).trace ins ∧
    Guar (Shared.machine c.toCfg rd) c.toCfg rd true (Shared.init c.toCfg rd) Fifo.empty ins :=
  ⟨(axl_timeout_transparent_partial c rd ins hh).1, (axl_closed_shared c.toCfg rd hd hn ins hloc).2⟩

/-- **`axl_read_burst_holds_lock`** (AXI4 read direction, `c.full`) — a read beat WITHOUT `last` retires nothing: the
    scoreboard queue of the slave is unchanged by it (so, by `axl_counter_inv_*` / `axl_lock_held_*`, counters, grant and
    select stay as they are until the beat that carries `last`). -/
theorem axl_read_burst_holds_lock (c : Cfg) (hf : c.full = true) (g : Fifo) (x : DirIn) (o : DirOut) (j : Nat)
    (hl : (x.ss j).rLast = false) (hq : sReq x o j = false) : fifoNext c true g x o j = g j := by
  simp [fifoNext, sDone, Cfg.gated, hf, hl, hq]

/-- **`axl_read_burst_beat_keeps_entry`** — … and with an AXI-legal slave (it answers only a request it holds) the
    burst's scoreboard entry is still there, still the oldest, after every beat without `last`: the following beats of
    the burst go to the same issuer (`RouteOK.resp_s` reads the head) and the lock theorems keep applying (`g j ≠ []`)
    until the beat that carries `last`.  Multi-beat R bursts of any length. -/
theorem axl_read_burst_beat_keeps_entry (c : Cfg) (hf : c.full = true) (g : Fifo) (x : DirIn) (o : DirOut) (j : Nat)
    (hj : j < c.m) (env : EnvOK c g x) (hv : (x.ss j).rValid = true) (hl : (x.ss j).rLast = false) :
    fifoNext c true g x o j ≠ [] ∧ (fifoNext c true g x o j).head? = (g j).head? := by
  have hne := env.slaveLegal j hj hv
  have hd : sDone (c.gated true) x o j = false := by simp [sDone, Cfg.gated, hf, hl]
  simp only [fifoNext, hd]
  cases hg : g j with
  | nil => exact absurd hg hne
  | cons a t => simp

/-! ## Counter width and saturation (`Signal(max=256)`, `full = counter == 255`, `stall` computed and unused) -/

/-- **`axl_counter_bounded`** — the 8-bit register never wraps: from a value ≤ 255 every event sequence keeps it ≤ 255. -/
theorem axl_counter_bounded (evs : List (Bool × Bool)) (c : Nat) (h : c ≤ maxReq - 1) : ctrRun c evs ≤ maxReq - 1 := by
  induction evs generalizing c with
  | nil => exact h
  | cons e es ih => exact ih _ (ctrNext_le c e.1 e.2 h)

/-- **`axl_counter_saturates`** — … because it saturates: `k` requests without a response leave `min k 255`; the
    256th and later requests are accepted by the fabric (nothing reads `stall`) and NOT counted. -/
theorem axl_counter_saturates (k : Nat) : ctrRun 0 (List.replicate k (true, false)) = min k (maxReq - 1) := by
  suffices h : ∀ k c, c ≤ maxReq - 1 → ctrRun c (List.replicate k (true, false)) = min (c + k) (maxReq - 1) by
    simpa using h k 0 (by decide)
  intro k
  induction k with
  | zero => intro c hc; simp [ctrRun]; omega
  | succ k ih =>
    intro c hc
    simp only [List.replicate_succ, ctrRun]
    by_cases hlt : c < maxReq - 1
    · rw [ctrNext_req c hlt, ih (c + 1) (by omega)]; congr 1; omega
    · have e : c = maxReq - 1 := by omega
      rw [e, ctrNext_req_full, ih _ (by decide)]
      simp [maxReq]

/- Full statement (FALSE on the code): `ctrRun 0 evs = outstandingSpec 0 evs` for every sequence in which responses
   answer requests (first conjunct of `CtrLegal` only).  `axl_counter_inv` is the `_partial` form (≤ 255 outstanding). -/

/-- Negative witness at counter level: 256 requests then 255 responses — the register reads 0 ("idle, unlock") while one
    request is still unanswered. -/
example : ctrRun 0 (List.replicate 256 (true, false) ++ List.replicate 255 (false, true)) = 0 ∧
    outstandingSpec 0 (List.replicate 256 (true, false) ++ List.replicate 255 (false, true)) = 1 := by
  decide +kernel

/-- 2 masters, 1 slave owning every address. -/
def cfg21 : Cfg := { n := 2, m := 1, dec := fun _ _ => true, shift := 0, full := false }
/-- master 0 presents a read address, the slave accepts it. -/
def xq : DirIn := { ms := fun i => if i = 0 then { aValid := true } else {}, ss := fun _ => { aReady := true } }
/-- the slave answers, master 0 takes the response. -/
def xr : DirIn := { ms := fun i => if i = 0 then { rReady := true } else {}, ss := fun _ => { rValid := true, rPay := 7 } }
/-- master 1 presents an address, nothing else happens. -/
def xo : DirIn := { ms := fun i => if i = 1 then { aValid := true } else {}, ss := fun _ => {} }
/-- the slave gives its 256th response; both masters are ready for one. -/
def xl : DirIn :=
  { ms := fun i => if i = 1 then { aValid := true, rReady := true } else { rReady := true },
    ss := fun _ => { rValid := true, rPay := 9 } }

/-- **Negative witness at fabric level** (`axl_counter_saturation_witness`): master 0 gets 256 read addresses accepted
    (a slave with acceptance capability 256: outside `slaveCap`/`noOverflow`), 255 are answered — both counters read 0
    while the scoreboard still holds master 0's 256th request; master 1 then takes the grant, and the 256th response is
    handed to master 1, not to its issuer.  (`_saturation_case` in the harness replays this run on the real netlist in
    lock step with the model.) -/
example :
    let M := Shared.machine cfg21 true
    let r := runSB M cfg21 true (Shared.init cfg21 true) Fifo.empty
               (List.replicate 256 xq ++ List.replicate 255 xr ++ [xo])
    r.1.arb.cnt = 0 ∧ r.1.dec.cnt = 0 ∧ r.1.arb.grant = 1 ∧ r.2 0 = [0] ∧
    mRsp xl (M.out r.1 xl) 1 = true ∧ mRsp xl (M.out r.1 xl) 0 = false := by
  decide +kernel

/-- … and the local rules exclude exactly that: 255 accepted requests are inside `LocalAll`, the 256th acceptance is
    not (`slaveCap`). -/
example :
    LocalAll (Shared.machine cfg21 true) cfg21 true (Shared.init cfg21 true) (fun _ => {}) (fun _ => 0)
      (List.replicate 255 xq) ∧
    ¬ LocalAll (Shared.machine cfg21 true) cfg21 true (Shared.init cfg21 true) (fun _ => {}) (fun _ => 0)
      (List.replicate 256 xq) := by
  decide +kernel

/-! ## Crossbar = decoders × arbiters, for every n and m -/

/-- **`axl_crossbar_composition`** — for ARBITRARY numbers of masters and slaves, every state and every input: the
    arbiter in front of slave `j` steps and drives its slave exactly as the stand-alone `AXI(Lite)Arbiter`
    (`ArbFabric`, tied exhaustively on its own) fed with column `j` of the access matrix, and the decoder behind master
    `i` steps and answers its master exactly as the stand-alone `AXI(Lite)Decoder` (`DecFabric`) fed with row `i`. -/
theorem axl_crossbar_composition (c : Cfg) (rd : Bool) (s : XbDir) (x : DirIn) :
    (∀ j, j < c.m →
      let col : DirIn := { ms := fun i => Crossbar.accMS c rd s x i j, ss := fun _ => x.ss j }
      Crossbar.arb (Crossbar.next c rd s x) j = (ArbFabric.machine c rd).next (Crossbar.arb s j) col ∧
      (Crossbar.out c rd s x).toS j = ((ArbFabric.machine c rd).out (Crossbar.arb s j) col).toS 0 ∧
      ∀ i, Crossbar.accSM s x i j = ((ArbFabric.machine c rd).out (Crossbar.arb s j) col).toM i) ∧
    (∀ i, i < c.n →
      let row : DirIn := { ms := fun _ => x.ms i, ss := fun j => Crossbar.accSM s x i j }
      Crossbar.dcd (Crossbar.next c rd s x) i = (DecFabric.machine c rd).next (Crossbar.dcd s i) row ∧
      (Crossbar.out c rd s x).toM i = ((DecFabric.machine c rd).out (Crossbar.dcd s i) row).toM 0 ∧
      ∀ j, Crossbar.accMS c rd s x i j = ((DecFabric.machine c rd).out (Crossbar.dcd s i) row).toS j) := by
  refine ⟨fun j hj => ⟨Crossbar.arb_next' c rd s x j hj, rfl, fun _ => rfl⟩, fun i hi => ⟨?_, rfl, fun _ => rfl⟩⟩
  show (Crossbar.next c rd s x).decs.getD i {} = _
  exact getD_map_range' c.n i hi _ _

/-! ## SoC glue: `SoCBusHandler.do_finalize` for the axi-lite / axi standards -/

/-- **`axl_check_parameters`** — `get_check_parameters`: the constructor accepts exactly the port lists whose data
    widths are all equal, and uses that width. -/
theorem axl_check_parameters (w : Nat) (ws : List Nat) :
    (checkParameters (w :: ws) = some w ↔ ∀ v ∈ ws, v = w) ∧ (checkParameters (w :: ws) ≠ some w → checkParameters (w :: ws) = none) := by
  have hall : (ws.all (· == w) = true) ↔ ∀ v ∈ ws, v = w := by simp [List.all_eq_true]
  simp only [checkParameters]
  by_cases h : ws.all (· == w) = true
  · rw [if_pos h]
    exact ⟨⟨fun _ => hall.mp h, fun _ => rfl⟩, fun hne => absurd rfl hne⟩
  · rw [if_neg h]
    exact ⟨⟨fun hh => (by cases hh), fun ha => absurd (hall.mpr ha) h⟩, fun _ => rfl⟩

/-- **`axl_soc_fabric_p2p_iff`** — the glue wires point-to-point exactly for one master, one slave, slave region at
    origin 0. -/
theorem axl_soc_fabric_p2p_iff (c : SocAxi) : c.fabric = .p2p ↔ c.n = 1 ∧ c.m = 1 ∧ c.origin0 = 0 := by
  have key : c.topology = .p2p ↔ c.n = 1 ∧ c.m = 1 ∧ c.origin0 = 0 := by
    unfold SocAxi.topology Wishbone.busTopology
    by_cases h0 : c.n = 0 ∨ c.m = 0
    · rw [if_pos h0]
      constructor
      · intro h; cases h
      · intro ⟨_, _, _⟩; omega
    · rw [if_neg h0]
      by_cases h1 : c.n = 1 ∧ c.m = 1 ∧ c.origin0 = 0
      · rw [if_pos h1]; exact ⟨fun _ => h1, fun _ => rfl⟩
      · rw [if_neg h1]
        constructor
        · intro h; cases hk : c.kind <;> rw [hk] at h <;> cases h
        · intro h; exact absurd h h1
  rw [← key]
  unfold SocAxi.fabric
  cases c.topology with
  | none => simp
  | p2p => simp
  | shared => cases c.timeout <;> simp
  | crossbar => simp

/-- **`axl_soc_fabric_decoded`** — otherwise (some master, some slave) it builds the interconnect class named by
    `bus_interconnect` over ALL masters and ALL slave regions, with `SoCRegion.decoder` predicates on the word address
    and the bus data width; the shared interconnect gets the SoC's `timeout`, the crossbar ignores it. -/
theorem axl_soc_fabric_decoded (c : SocAxi) (hn : c.n ≠ 0) (hm : c.m ≠ 0) (hp : ¬ (c.n = 1 ∧ c.m = 1 ∧ c.origin0 = 0)) :
    (c.kind = .shared → c.timeout = none → c.fabric = .shared c.cfg) ∧
    (c.kind = .shared → ∀ t, c.timeout = some t → c.fabric = .sharedT { toCfg := c.cfg, t := t, dw := c.dw }) ∧
    (c.kind = .crossbar → c.fabric = .xbar c.cfg) ∧
    c.cfg.n = c.n ∧ c.cfg.m = c.regions.length ∧ c.cfg.full = c.full := by
  have h0 : ¬ (c.n = 0 ∨ c.m = 0) := by omega
  have ht : c.topology = match c.kind with | .shared => .shared | .crossbar => .crossbar := by
    unfold SocAxi.topology Wishbone.busTopology
    rw [if_neg h0, if_neg hp]
    cases c.kind <;> rfl
  refine ⟨fun hk hto => ?_, fun hk t hto => ?_, fun hk => ?_, rfl, rfl, rfl⟩ <;>
    (unfold SocAxi.fabric; rw [ht, hk]) <;> simp [hto]

/-- **`axl_soc_closed_route`** — end to end through the glue: a SoC bus with at least one master whose slave regions
    decode disjointly (`Disjoint c.cfg`: discharged for every map `check_regions_overlap` accepts by b-c06/b-c13,
    `soc_accepted_disjoint_decoders_partial`), not in the point-to-point case, legal masters and slaves ⇒ the fabric
    `do_finalize` builds routes every accepted address to its region's slave and returns every response to its issuer,
    in every cycle (shared without timeout and crossbar; with a timeout: `axl_timeout_transparent_partial`). -/
theorem axl_soc_closed_route (c : SocAxi) (rd : Bool) (hn : c.n ≠ 0) (hd : Disjoint c.cfg) (ins : List DirIn) :
    (c.fabric = .shared c.cfg →
      LocalAll (Shared.machine c.cfg rd) c.cfg rd (Shared.init c.cfg rd) (fun _ => {}) (fun _ => 0) ins →
      Guar (Shared.machine c.cfg rd) c.cfg rd true (Shared.init c.cfg rd) Fifo.empty ins) ∧
    (c.fabric = .xbar c.cfg →
      LocalAll (Crossbar.machine c.cfg rd) c.cfg rd (Crossbar.init c.cfg rd) (fun _ => {}) (fun _ => 0) ins →
      Guar (Crossbar.machine c.cfg rd) c.cfg rd false (Crossbar.init c.cfg rd) Fifo.empty ins) :=
  ⟨fun _ h => (axl_closed_shared c.cfg rd hd (Nat.pos_of_ne_zero hn) ins h).2,
   fun _ h => (axl_closed_crossbar c.cfg rd hd (Nat.pos_of_ne_zero hn) ins h).2⟩

/- Full statement (does not hold, witnesses in LitexProps/C06.lean / C13.lean): every region list accepted by
   `check_regions_overlap` gives disjoint decoders.  `_partial`: `RegionsDecodable` (b-c06 / b-c13: no slave on a linker
   region — the check skips those —, `decode=True`, origin aligned on `size_pow2`, window of at least one bus word). -/

/-- **`axl_soc_accepted_disjoint_partial`** — the `Disjoint` hypothesis of every routing theorem above is DISCHARGED for
    the decoders `do_finalize` hands to the AXI(-Lite) interconnect, for every slave-region list that
    `SoCBusHandler.check_regions_overlap` accepts (b-c06's `checkRegionsOverlap` = the check as computed, b-c13's
    `accepted_regions_pairwise_disjoint_decoders`, imported read-only). -/
theorem axl_soc_accepted_disjoint_partial (c : SocAxi) (rs : List Soc.Region) (sh : Nat)
    (hr : c.regions = Wishbone.pairsOf rs) (hdw : c.dw / 8 = 2 ^ sh) (hsh : sh ≤ c.aw)
    (hacc : Wishbone.checkRegionsOverlap false rs = none) (hall : Wishbone.RegionsDecodable c.dw rs) :
    Disjoint c.cfg := by
  intro a j k hj hk h1 h2
  have hm : c.cfg.m = rs.length := by simp [SocAxi.cfg, SocAxi.m, hr, Wishbone.pairsOf]
  have hlog : Nat.log2 (c.dw / 8) = sh := by rw [hdw]; exact Nat.log2_two_pow
  have key : ∀ j (hj : j < rs.length),
      Wishbone.decOfSpecs c.dw c.aw (c.regions.map fun p => Wishbone.DecSpec.region p.1 p.2) j a =
        Soc.decoderAccepts c.aw c.dw rs[j] a := by
    intro j hj
    have hd := (hall _ (List.getElem_mem hj)).2.1
    have hget : (c.regions.map fun p => Wishbone.DecSpec.region p.1 p.2)[j]? =
        some (Wishbone.DecSpec.region rs[j].origin rs[j].size) := by
      rw [hr, Wishbone.pairsOf, List.map_map, List.getElem?_map, List.getElem?_eq_getElem hj]; rfl
    unfold Wishbone.decOfSpecs
    rw [hget]
    show Wishbone.regionDec _ _ _ _ _ = _
    rw [Wishbone.regionDec_eq_decoderAccepts _ _ _ _ _ rs[j].cached rs[j].linker]
    have : (⟨rs[j].origin, rs[j].size, rs[j].cached, rs[j].linker, true⟩ : Soc.Region) = rs[j] := by
      cases hrj : rs[j] with
      | mk o s c l d => rw [hrj] at hd; simp at hd; subst hd; rfl
    rw [this]
  rw [hm] at hj hk
  simp only [SocAxi.cfg, Bool.and_eq_true, decide_eq_true_eq] at h1 h2
  rw [key j hj] at h1
  rw [key k hk] at h2
  exact Wishbone.accepted_index_disjoint c.aw c.dw sh rs hdw hsh hacc hall a (by rw [← hlog]; exact h1.1) j k hj hk
    h1.2 h2.2

/-- **`axl_soc_end_to_end_partial`** — the whole chain: masters and slaves registered on a `SoCBusHandler` of standard
    axi-lite / axi, slave regions accepted by `check_regions_overlap`, not the one-master-one-slave-at-0 case, legal
    masters and slaves (local rules) ⇒ the interconnect `do_finalize` instantiates (`SocAxi.fabric`: shared without
    timeout, crossbar, or — the SoC default — shared with the bus watchdog on a healthy bus) delivers every accepted address to the
    slave of the region it lies in and every response exactly once to its issuer, in every cycle of every schedule. -/
theorem axl_soc_end_to_end_partial (c : SocAxi) (rd : Bool) (rs : List Soc.Region) (sh : Nat) (hn : c.n ≠ 0)
    (hr : c.regions = Wishbone.pairsOf rs) (hdw : c.dw / 8 = 2 ^ sh) (hsh : sh ≤ c.aw)
    (hacc : Wishbone.checkRegionsOverlap false rs = none) (hall : Wishbone.RegionsDecodable c.dw rs)
    (ins : List DirIn) :
    (c.fabric = .shared c.cfg →
      LocalAll (Shared.machine c.cfg rd) c.cfg rd (Shared.init c.cfg rd) (fun _ => {}) (fun _ => 0) ins →
      Guar (Shared.machine c.cfg rd) c.cfg rd true (Shared.init c.cfg rd) Fifo.empty ins) ∧
    (c.fabric = .xbar c.cfg →
      LocalAll (Crossbar.machine c.cfg rd) c.cfg rd (Crossbar.init c.cfg rd) (fun _ => {}) (fun _ => 0) ins →
      Guar (Crossbar.machine c.cfg rd) c.cfg rd false (Crossbar.init c.cfg rd) Fifo.empty ins) ∧
    -- the SoC default (`timeout = 10^6`): shared interconnect with the bus watchdog, on a healthy bus
    (∀ t, c.fabric = .sharedT { toCfg := c.cfg, t := t, dw := c.dw } →
      Shared.Healthy c.cfg rd t (Shared.init c.cfg rd) 0 ins →
      LocalAll (Shared.machine c.cfg rd) c.cfg rd (Shared.init c.cfg rd) (fun _ => {}) (fun _ => 0) ins →
      (SharedT.machine { toCfg := c.cfg, t := t, dw := c.dw } rd).trace ins = (Shared.machine c.cfg rd).trace ins ∧
      Guar (Shared.machine c.cfg rd) c.cfg rd true (Shared.init c.cfg rd) Fifo.empty ins) := by
  have hd := axl_soc_accepted_disjoint_partial c rs sh hr hdw hsh hacc hall
  refine ⟨(axl_soc_closed_route c rd hn hd ins).1, (axl_soc_closed_route c rd hn hd ins).2, ?_⟩
  intro t _ hh hloc
  exact axl_closed_timeout_partial { toCfg := c.cfg, t := t, dw := c.dw } rd hd (Nat.pos_of_ne_zero hn) ins hh hloc

/- Full statement for the point-to-point case (FALSE): "an address reaches the slave only if it lies in the slave's
   region".  `InterconnectPointToPoint` has no decoder (b-c06's open finding C06-p2p-partial-region-origin0; the statement
   in `do_finalize` is shared by all three bus standards). -/

/-- 1 master, 1 slave with a 4 KiB region at origin 0 on a 32-bit axi-lite bus. -/
def socP : SocAxi := { n := 1, regions := [(0, 0x1000)], kind := .shared, full := false, timeout := some 1000000,
                       dw := 32, aw := 32 }

/-- **`axl_soc_p2p_ignores_region`** (negative witness): the glue wires `socP` point-to-point; address 0x2000 does not
    belong to the slave's region (`SocAxi.cfg` decoder) and is presented to the slave all the same. -/
example :
    socP.fabricName = "p2p" ∧ routes socP.cfg 0 0x2000 = false ∧ routes socP.cfg 0 0xffc = true ∧
    ((P2P.machine.out () { ms := fun _ => { aValid := true, aAddr := 0x2000 }, ss := fun _ => {} }).toS 0).aValid = true := by
  refine ⟨by decide, by decide, by decide, rfl⟩

/-- Non-vacuity of `axl_soc_fabric_decoded` / `axl_soc_closed_route`: 2 masters, regions at 0x1000_0000 and 0x4000_0000. -/
def socS : SocAxi := { n := 2, regions := [(0x10000000, 0x1000), (0x40000000, 0x10000)], kind := .crossbar, full := true,
                       timeout := some 1000000, dw := 32, aw := 32 }

/-- Non-vacuity of `axl_soc_accepted_disjoint_partial`: `socS`'s two regions are accepted and decodable. -/
example :
    let rs : List Soc.Region := [{ origin := 0x10000000, size := 0x1000 }, { origin := 0x40000000, size := 0x10000 }]
    socS.regions = Wishbone.pairsOf rs ∧ socS.dw / 8 = 2 ^ 2 ∧ Wishbone.checkRegionsOverlap false rs = none ∧
    Wishbone.RegionsDecodable socS.dw rs := by
  refine ⟨rfl, by decide, by decide, ?_⟩
  intro r hr
  simp only [List.mem_cons, List.not_mem_nil, or_false] at hr
  rcases hr with rfl | rfl <;> decide

example : socS.fabricName = "xbar" ∧ routes socS.cfg 0 0x10000ffc = true ∧ routes socS.cfg 1 0x10000ffc = false ∧
    routes socS.cfg 1 0x4000fff0 = true ∧ routes socS.cfg 0 0x20000000 = false ∧ routes socS.cfg 1 0x20000000 = false := by
  decide

/-! ## Concrete instances: the hypotheses are satisfiable, and the excluded regions really fail -/

/-- 2 masters, 2 slaves, 8-bit data, slave `j` owns the byte addresses with `a >> 1 = j` (harness map "cover"). -/
def cfg22 : Cfg := { n := 2, m := 2, dec := fun j a => (a >>> 1) == j, shift := 0, full := false }

theorem cfg22_disjoint : Disjoint cfg22 := by
  intro a j k _ _ h1 h2
  simp only [cfg22, beq_iff_eq] at h1 h2
  omega

/-- cycle 0: master 0 presents address 2 (slave 1), slave 1 accepts. -/
def xa : DirIn :=
  { ms := fun i => if i = 0 then { aValid := true, aAddr := 2, aPay := 5, rReady := true } else {},
    ss := fun j => if j = 1 then { aReady := true } else {} }
/-- cycle 1: slave 1 answers, master 0 takes the response. -/
def xb : DirIn :=
  { ms := fun i => if i = 0 then { rReady := true } else {},
    ss := fun j => if j = 1 then { rValid := true, rPay := 3 } else {} }

/-- Non-vacuity of `axl_route_partial` / `axl_lock_held_shared`: a run inside the hypotheses with an accepted address
    (master 0 → slave 1), a held lock and a delivered response. -/
example :
    let M := Shared.machine cfg22 false
    let s0 := Shared.init cfg22 false
    let o0 := M.out s0 xa
    let s1 := M.next s0 xa
    let g1 := fifoNext cfg22 false Fifo.empty xa o0
    let o1 := M.out s1 xb
    mReq xa o0 0 = true ∧ sReq xa o0 1 = true ∧ sReq xa o0 0 = false ∧ g1 1 = [0] ∧ g1 0 = [] ∧
    s1.arb.cnt = 1 ∧ s1.dec.cnt = 1 ∧
    sRsp xb o1 1 = true ∧ mRsp xb o1 0 = true ∧ mRsp xb o1 1 = false ∧ (o1.toM 0).rPay = 3 ∧
    (M.next s1 xb).arb.cnt = 0 := by
  decide

example : EnvAll (Shared.machine cfg22 false) cfg22 false (Shared.init cfg22 false) Fifo.empty [xa, xb] := by
  have hg1 : fifoNext cfg22 false Fifo.empty xa ((Shared.machine cfg22 false).out (Shared.init cfg22 false) xa) 1 = [0] := by
    decide
  refine ⟨⟨?_, ?_, ?_⟩, ⟨?_, ?_, ?_⟩, trivial⟩
  · intro j _ h
    by_cases e : j = 1 <;> simp [xa, e] at h
  · intro i j _ _ _ hm; cases hm
  · intro j _ _; simp [Fifo.empty, maxReq]
  · intro j hj h
    have e : j = 1 := by
      by_cases e : j = 1
      · exact e
      · simp [xb, e] at h
    subst e
    rw [hg1]; simp
  · intro i j _ _ h
    by_cases e : i = 0 <;> simp [xb, e] at h
  · intro j hj h
    by_cases e : j = 1 <;> simp [xb, e] at h

/-- The same run on the crossbar (non-vacuity of `axl_route_crossbar_partial` / `axl_lock_held_crossbar`). -/
example :
    let M := Crossbar.machine cfg22 false
    let s0 := Crossbar.init cfg22 false
    let o0 := M.out s0 xa
    let s1 := M.next s0 xa
    let g1 := fifoNext cfg22 false Fifo.empty xa o0
    let o1 := M.out s1 xb
    mReq xa o0 0 = true ∧ sReq xa o0 1 = true ∧ sReq xa o0 0 = false ∧ g1 1 = [0] ∧ g1 0 = [] ∧
    (Crossbar.arb s1 1).cnt = 1 ∧ (Crossbar.dcd s1 0).cnt = 1 ∧ (Crossbar.arb s1 0).cnt = 0 ∧
    sRsp xb o1 1 = true ∧ mRsp xb o1 0 = true ∧ mRsp xb o1 1 = false ∧ (o1.toM 0).rPay = 3 := by
  decide

/-- Non-vacuity of `axl_eventually_served` / `axl_served_within`: master 1 presents an address while master 0
    owns the idle bus — one hand-over opportunity (n-1 = 1), after which master 1 owns the bus. -/
def xh : DirIn :=
  { ms := fun i => if i = 1 then { aValid := true, aAddr := 0 } else {}, ss := fun _ => {} }

example :
    Shared.handovers cfg22 false 1 (Shared.init cfg22 false) [xh] = 1 ∧
    ((Shared.machine cfg22 false).runFrom (Shared.init cfg22 false) [xh]).arb.grant = 1 ∧
    (∀ x ∈ [xh], (x.ms 1).aValid = true) := by
  refine ⟨by decide, by decide, ?_⟩
  intro x hx
  simp only [List.mem_singleton] at hx
  subst hx; rfl

/-! ### Negative witness 1 — known finding `C08-decoder-second-addr-other-slave`

  Master 0 has an unanswered request at slave 0 and presents an address of slave 1 (outside `sameSlave`): the
  decoder's select is the locked register, so slave 0 sees and accepts it, slave 1 sees nothing. -/

/-- cycle 0: address 0 (slave 0) accepted. -/
def xc : DirIn :=
  { ms := fun i => if i = 0 then { aValid := true, aAddr := 0 } else {},
    ss := fun _ => { aReady := true } }
/-- cycle 1: address 2 (slave 1) presented while the response of the first is outstanding; both slaves ready. -/
def xd : DirIn :=
  { ms := fun i => if i = 0 then { aValid := true, aAddr := 2 } else {},
    ss := fun _ => { aReady := true } }

example :
    let M := Shared.machine cfg22 false
    let s1 := M.next (Shared.init cfg22 false) xc
    let o1 := M.out s1 xd
    mReq xd o1 0 = true ∧ routes cfg22 1 (xd.ms 0).aAddr = true ∧ routes cfg22 0 (xd.ms 0).aAddr = false ∧
    sReq xd o1 0 = true ∧ (o1.toS 0).aAddr = 2 ∧ sReq xd o1 1 = false := by
  decide

/-- … so the guarantee `RouteOK.addr_m` fails in that cycle (the same on the crossbar and for `rd = true`). -/
example :
    let M := Shared.machine cfg22 false
    let s1 := M.next (Shared.init cfg22 false) xc
    let g1 := fifoNext cfg22 false Fifo.empty xc (M.out (Shared.init cfg22 false) xc)
    ¬ RouteOK cfg22 true g1 xd (M.out s1 xd) := by
  intro M s1 g1 h
  obtain ⟨j, hj, hr, hs⟩ := h.addr_m 0 (by decide) (by decide)
  have : j = 0 ∨ j = 1 := by
    have : j < 2 := hj
    omega
  rcases this with e | e <;> subst e
  · revert hr; decide
  · revert hs; decide

example :
    let M := Crossbar.machine { cfg22 with full := true } true
    let s1 := M.next (Crossbar.init { cfg22 with full := true } true) xc
    let o1 := M.out s1 xd
    mReq xd o1 0 = true ∧ sReq xd o1 0 = true ∧ sReq xd o1 1 = false := by
  decide

/-! ### Negative witness 2 — known finding `C08-decoder-w-before-aw`

  Write data handed over before its address is presented (outside NoDataBeforeAddr): with the counter at zero the
  select is decoded from the idle `aw.addr` lines (0 → slave 0), so slave 0 takes the data; the address (slave 1)
  presented in the next cycle goes to slave 1. -/

/-- cycle 0: data valid, address idle (lines at 0); both slaves ready for data. -/
def xe : DirIn :=
  { ms := fun i => if i = 0 then { dValid := true, dPay := 0x155, aAddr := 0 } else {},
    ss := fun _ => { dReady := true } }

example :
    let M := Shared.machine cfg22 false
    let o0 := M.out (Shared.init cfg22 false) xe
    let s1 := M.next (Shared.init cfg22 false) xe
    let o1 := M.out s1 xd
    mDat xe o0 0 = true ∧ sDat xe o0 0 = true ∧ sDat xe o0 1 = false ∧ (o0.toS 0).dPay = 0x155 ∧
    mReq xd o1 0 = true ∧ sReq xd o1 1 = true ∧ sReq xd o1 0 = false := by
  decide

/-- The environment assumption that excludes it: `DEnvOK.dataAfterAddr` fails in cycle 0. -/
example : ¬ DEnvOK cfg22 DGhost.empty xe := by
  intro h
  rcases h.dataAfterAddr 0 (by decide) (by decide) with h1 | h1
  · exact h1 rfl
  · exact absurd h1.1 (by decide)

/-- Non-vacuity of `axl_route_data_partial`: data presented together with its address, taken by the slave one cycle
    before the address (inside NoDataBeforeAddr), the address then accepted by the same slave. -/
def xf : DirIn :=
  { ms := fun i => if i = 0 then { aValid := true, aAddr := 2, dValid := true, dPay := 0x155 } else {},
    ss := fun j => if j = 1 then { dReady := true } else {} }
def xg : DirIn :=
  { ms := fun i => if i = 0 then { aValid := true, aAddr := 2 } else {},
    ss := fun j => if j = 1 then { aReady := true } else {} }

example :
    let M := Shared.machine cfg22 false
    let s0 := Shared.init cfg22 false
    let o0 := M.out s0 xf
    let dg1 := dgNext cfg22 false DGhost.empty xf o0
    let o1 := M.out (M.next s0 xf) xg
    mDat xf o0 0 = true ∧ sDat xf o0 1 = true ∧ sDat xf o0 0 = false ∧ mReq xf o0 0 = false ∧
    dg1.ahead 0 = some (1, true) ∧ dg1.sd 1 = 1 ∧
    mReq xg o1 0 = true ∧ sReq xg o1 1 = true ∧ (dgNext cfg22 false dg1 xg o1).ahead 0 = none ∧
    (dgNext cfg22 false dg1 xg o1).wq 0 = [] := by
  decide

example : DEnvOK cfg22 DGhost.empty xf := by
  refine ⟨?_, ?_, ?_⟩
  · intro i _ h
    by_cases e : i = 0
    · subst e; right; exact ⟨rfl, fun k h => by cases h⟩
    · simp [xf, e] at h
  · intro i k b _ h; cases h
  · intro j _ h
    by_cases e : j = 1 <;> simp [xf, e] at h

/-- Non-vacuity of the burst reading (`c.wlast`): an AXI4 configuration whose packed `w` payload carries `last` in
    bit 8.  A two-beat burst whose first beat goes ahead of the address acceptance: the address joins the waiting list
    (the burst is not complete), the second beat (`last`) retires it and completes the burst at the slave. -/
def cfgB : Cfg := { cfg22 with full := true, wlast := fun p => p.testBit 8 }
def xb1 : DirIn :=   -- beat 1 (not last) with the address presented, slave 1 takes the data only
  { ms := fun i => if i = 0 then { aValid := true, aAddr := 2, dValid := true, dPay := 0x011 } else {},
    ss := fun j => if j = 1 then { dReady := true } else {} }
def xb2 : DirIn :=   -- address accepted, beat 2 stalled
  { ms := fun i => if i = 0 then { aValid := true, aAddr := 2, dValid := true, dPay := 0x122 } else {},
    ss := fun j => if j = 1 then { aReady := true } else {} }
def xb3 : DirIn :=   -- beat 2 (last) accepted
  { ms := fun i => if i = 0 then { dValid := true, dPay := 0x122 } else {},
    ss := fun j => if j = 1 then { dReady := true } else {} }

example :
    let M := Crossbar.machine cfgB false
    let s0 := Crossbar.init cfgB false
    let o0 := M.out s0 xb1
    let dg1 := dgNext cfgB false DGhost.empty xb1 o0
    let s1 := M.next s0 xb1
    let o1 := M.out s1 xb2
    let dg2 := dgNext cfgB false dg1 xb2 o1
    let s2 := M.next s1 xb2
    let o2 := M.out s2 xb3
    let dg3 := dgNext cfgB false dg2 xb3 o2
    sDat xb1 o0 1 = true ∧ dg1.ahead 0 = some (1, false) ∧ dg1.sd 1 = 0 ∧
    sReq xb2 o1 1 = true ∧ dg2.ahead 0 = none ∧ dg2.wq 0 = [1] ∧
    sDat xb3 o2 1 = true ∧ (o2.toS 1).dPay = 0x122 ∧ dg3.wq 0 = [] ∧ dg3.sd 1 = 1 := by
  decide

/-! ### Finite timeout: non-vacuity and the excluded region -/

def cfgT : TCfg := { toCfg := cfg22, t := 1, dw := 8 }
/-- master 0 presents read address 0, slave 0 does not accept it. -/
def xs0 : DirIn := { ms := fun i => if i = 0 then { aValid := true, aAddr := 0, rReady := true } else {}, ss := fun _ => {} }
/-- … slave 0 accepts it. -/
def xs1 : DirIn :=
  { ms := fun i => if i = 0 then { aValid := true, aAddr := 0, rReady := true } else {},
    ss := fun j => if j = 0 then { aReady := true } else {} }

/-- healthy for t = 1: one stalled cycle, then the handshake. -/
example : Shared.Healthy cfg22 true 1 (Shared.init cfg22 true) 0 [xs0, xs1] := by
  refine ⟨fun _ => by decide, ?_, trivial⟩
  intro h
  exact absurd h (by decide)

example :
    (((SharedT.machine cfgT true).trace [xs0, xs1]).map fun o => ((o.toM 0).aReady, (o.toS 0).aValid))
      = [(false, true), (true, true)] := by decide

/-- Outside `Healthy` (two stalled cycles with t = 1): the watchdog fires, and in the third cycle the fabric accepts
    the address itself — the master sees `ar.ready`, no slave is ready — unlike the timeout-less fabric. -/
example :
    ¬ Shared.Healthy cfg22 true 1 (Shared.init cfg22 true) 0 [xs0, xs0, xs0] ∧
    (((SharedT.machine cfgT true).trace [xs0, xs0, xs0]).map fun o => (o.toM 0).aReady) = [false, false, true] ∧
    (((Shared.machine cfg22 true).trace [xs0, xs0, xs0]).map fun o => (o.toM 0).aReady) = [false, false, false] := by
  refine ⟨?_, by decide, by decide⟩
  intro h
  have := h.2.1
  revert this
  decide


/-! ### Closed system: non-vacuity and the excluded region -/

/-- Non-vacuity of `axl_closed_shared` / `axl_closed_crossbar` / `axl_end_to_end_*`: the request/response run `[xa, xb]`
    follows the local rules (and so does the early-data write `[xf, xg]`). -/
example :
    LocalAll (Shared.machine cfg22 false) cfg22 false (Shared.init cfg22 false) (fun _ => {}) (fun _ => 0) [xa, xb] ∧
    LocalAll (Crossbar.machine cfg22 true) cfg22 true (Crossbar.init cfg22 true) (fun _ => {}) (fun _ => 0) [xa, xb] ∧
    LocalAll (Shared.machine cfg22 false) cfg22 false (Shared.init cfg22 false) (fun _ => {}) (fun _ => 0) [xf, xg] := by
  decide

/-- The run of negative witness 1 (second address to another slave while the first is unanswered) breaks the MASTER's
    local rule in its second cycle — the master itself can tell (its own `pend = 1`, `last = 0`). -/
example :
    ¬ LocalAll (Shared.machine cfg22 false) cfg22 false (Shared.init cfg22 false) (fun _ => {}) (fun _ => 0) [xc, xd] ∧
    LocalAll (Shared.machine cfg22 false) cfg22 false (Shared.init cfg22 false) (fun _ => {}) (fun _ => 0) [xc] := by
  decide

/-- Non-vacuity: an AXI4 read burst of two beats on the 2×2 fabric — the first beat (no `last`) leaves both counters at
    1 and the entry on the scoreboard, the second (`last`) releases; both beats reach master 0. -/
example :
    let cF : Cfg := { cfg22 with full := true }
    let M := Shared.machine cF true
    let b1 : DirIn := { ms := fun i => if i = 0 then { rReady := true } else {},
                        ss := fun j => if j = 1 then { rValid := true, rLast := false, rPay := 5 } else {} }
    let b2 : DirIn := { ms := fun i => if i = 0 then { rReady := true } else {},
                        ss := fun j => if j = 1 then { rValid := true, rLast := true, rPay := 6 } else {} }
    let r1 := runSB M cF true (Shared.init cF true) Fifo.empty [xa]
    let r2 := runSB M cF true (Shared.init cF true) Fifo.empty [xa, b1]
    let r3 := runSB M cF true (Shared.init cF true) Fifo.empty [xa, b1, b2]
    r1.1.arb.cnt = 1 ∧ r1.2 1 = [0] ∧ mRsp b1 (M.out r1.1 b1) 0 = true ∧
    r2.1.arb.cnt = 1 ∧ r2.1.dec.cnt = 1 ∧ r2.2 1 = [0] ∧ mRsp b2 (M.out r2.1 b2) 0 = true ∧
    r3.1.arb.cnt = 0 ∧ r3.1.dec.cnt = 0 ∧ r3.2 1 = [] := by
  decide

end Litex.C08
