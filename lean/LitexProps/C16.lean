import LitexModel.Packet.Num
/-
  C16 — Packet framing: headers round-trip and packets are never interleaved or torn.   (theorems follow)
-/
namespace Litex.C16
end Litex.C16
