import LitexProofs.Packet.Header
import LitexProofs.Packet.Fifo
import LitexProofs.Packet.FifoBuffered
import LitexProofs.Packet.Arbiter
import LitexProofs.Packet.Fair
import LitexProofs.Packet.RoundTrip
import LitexProofs.Packet.Bytes
import LitexProofs.Packet.UnalignedStep
import LitexProofs.Packet.UnalignedRoundTrip
import LitexProofs.Packet.Ctor
import LitexProofs.Packet.HeaderClip
import LitexProofs.Packet.FifoAll
import LitexProofs.Packet.UnalignedDepackTightEx
import LitexProofs.Packet.UnalignedTightEx
import LitexProofs.Packet.UnalignedTightRTEx
import LitexProofs.Packet.UnalignedTightExact
import LitexModel.Packet.Num
/-
  INVENTORY of the anchor file litex/soc/interconnect/packet.py (every class / method / code path):

  element                         | model (LitexModel/…)                  | theorems (this file)                          | tie to /repo (harness/props/c16.py)
  --------------------------------+---------------------------------------+-----------------------------------------------+---------------------------------------------
  Status (first/last/ongoing)     | Stream/Status.lean `status`           | used inside arbiter_* / dispatcher_* (§3);    | A+B `packet.Status` jobs of C04 (driver
                                  |                                       | its own laws are C04's                        | drv_c04 "status"); inside Arbiter/Dispatcher here
  Arbiter, n ≥ 2 (RoundRobin +    | Packet/Arbiter.lean `arbiter n`,      | arbiter_atomic, _lossless, _fair,             | A: n = 2,3 (4 thorough) all letters; B: n = 3..9,
    Status per master + Case)     | RoundRobin.lean                       | _request_remembered                           | payload 8..128 bit, monitor (single source, fairness)
  Arbiter, n = 1 (`connect`)      | `arbiterConnect` / `arbiterCtor 1`    | arbiter_atomic_all_ports, _lossless_all_ports,| A "Arbiter(1)/plain connect"
                                  |                                       | arbiter_single_master_wire                    |
  Arbiter, n = 0 (`pass`)         | `arbiterEmpty` / `arbiterCtor 0`      | arbiter_atomic_all_ports                      | A "Arbiter(0)/nothing connected"
  Dispatcher, m ≥ 2 or one_hot    | `dispatcher m oneHot`                 | dispatcher_atomic, dispatcher_one_slave,      | A: m = 1..3 (4,5 thorough) binary + one_hot, all sel
    (Status, sel latch, Case,     |                                       | dispatcher_log_ports                          | values incl. unmatched; B: m = 3..9, monitor
    default: ready = 1)           |                                       |                                               |
  Dispatcher, m = 1, no one_hot   | `dispatcherConnect`/`dispatcherCtor`  | dispatcher_atomic_all_ports,                  | A "Dispatcher(1)/plain connect"
                                  |                                       | dispatcher_single_slave_wire                  |
  Dispatcher, m = 0               | `dispatcherEmpty`                     | dispatcher_no_slave_dead                      | A "Dispatcher(0)…" (binary and one_hot)
  `**kwargs` of connect (omit/keep)| not modelled (pure pass-through to     | —                                             | not exercised (no user in /repo passes them)
                                  | Endpoint.connect, C03's subject)      |                                               |
  HeaderField(byte,offset,width)  | Packet/Header.lean `HField`           | all of §1                                     | C: random tables (bytes, bit offsets, widths)
  Header.encode / decode          | `encode`/`decode` (unbounded signal), | header_roundtrip_partial, _noswap,            | C: `header_tie` (well-formed + overlapping tables),
    incl. table order, slice      | HeaderClip.lean `encodeL`/`decodeL`   | header_roundtrip_len_partial, encode_layout,  | `c16hdr.header_clip_tie` (fields beyond the length,
    clipping at 8·length          | (signal of 8·length bits)             | encode_fits, header_encode_within_length,     | overlaps, random name order) through the real
                                  |                                       | header_overlap_last_writer, _field_roundtrip, | Header on a Netlist; layout/round-trip oracles
                                  |                                       | header_clipped_field_noswap/_swap, _beyond    |
  reverse_bytes (swap_field_bytes)| `revBytes`, `swapField`               | swap_involutive; _fails_odd_width (finding)   | C: `revbytes` call + swapped tables
  Header.get_field (_lsb/_msb,    | HeaderClip.lean `getField`,           | get_field_width_check,                        | C: named tables (lsb/msb pairs, single halves,
    width check, AttributeError)  | `encodeObj`/`decodeObj`               | header_lsb_msb_roundtrip                      | wrong widths, missing attributes) incl. exceptions
  Header.get_layout               | `getLayout` (table order = sorted)    | — (definition)                                | C: compared with sorted (name, width)
  Packetizer: IDLE / HEADER-SEND /| Packet/Packetizer.lean `packetizer c` | packetizer_bytes_partial (aligned, all B, H), | A: dw 8/16 (24/32 thorough), H 1..5 (8 thorough) all
    ALIGNED-DATA-COPY, sr, count  | (parametric in B, H; count wrap,      | packetizer_header_bytes, frame_bytes          | letters incl. garbage on invalid sink; B: test_packet
    header_words == 1 shortcut    | srFrom min(), W = 1 special cases)    |                                               | header dw 8..128, eth/ip-like, random (B,H), monitor
  Packetizer: UNALIGNED-DATA-COPY,| same machine (`ucopy`, `pkUData`,     | packetizer_bytes_unaligned_partial,           | A: dw16 H3/H5 (dw24/32 thorough); B: unaligned random
    sink_d, fsm_from_idle, flush  | `dData`/`dLast`, `fromIdle`)          | _tight_partial (exact boundary),              | (B,H) with monitors inside the proved region, defect
                                  |                                       | packetizer_bubble_condition_exact; findings:  | regions compared without monitor + probes
                                  |                                       | single-beat, bubble (negative witnesses)      |
  Packetizer/Depacketizer, H < B  | same machines (W = 0)                 | negative witness (finding shorter-than-beat)  | A: dw16/H1; probe
  Depacketizer: IDLE / HEADER-    | `depacketizer c` (dpShift,            | depacketizer_bytes_partial (aligned, all      | as Packetizer (A + B + monitor DeframingMonitor)
    RECEIVE / ALIGNED copy, sr    | W = 1 ∧ L = 0 special case)           | inputs, no hypothesis)                        |
  Depacketizer: UNALIGNED copy,   | same machine (`dpShiftLeft`,          | depacketizer_bytes_unaligned_partial,         | A: dw16 H3/H5; B; probe residue-end
    sr_shift_leftover, sink_d     | `dpUData`)                            | _tight_partial; finding residue-end (witness) |
  Packetizer → Depacketizer       | `pkdpk c` = Elem.comp                 | pkt_depkt_roundtrip_partial, _unaligned_      | A: composites of the small grid; B: all B-grid points
    (closed system)               |                                       | partial, _unaligned_tight_partial,            | with RoundTripMonitor
                                  |                                       | deframe_frame_eq                              |
  `error` pass-through            | Packet/Num.lean `errorWire`,          | error_passthrough                             | A: dw8/dw16 both-sided and source-only; B: eth dw32
                                  | `withError` (port wrapper)            |                                               |
  `last_be`                       | — (this version of packet.py has none)| —                                             | —
  PacketFIFO, depths ≥ 2          | Packet/Fifo.lean `packetFifo`,        | packetfifo_atomic, _valid_complete,           | A: depth 2..4 plain/buffered; B: depths 3..64, param
    (plain / buffered)            | `packetFifoBuffered`                  | _buffered_atomic, _capacity                   | depths 1..20, 8..128 bit, monitor PacketFifoMonitor
  PacketFIFO, every depth incl.   | Packet/FifoAll.lean `packetFifoAll`   | packetfifo_atomic_all_depths (full strength), | A: (1), (1,pd0), (1,buffered), (0), (2,pd0), …;
    0 / 1, mixed kinds, param_    | (QKind never/pipe/fifo/bfifo)         | _valid_complete_all_depths,                   | B: depth-1 / param_depth-0 grid; all PacketFIFO jobs
    depth = 0, dummy param        |                                       | packetfifo_depth0_dead, _all_depths_extends,  | except two legacy ones run against this model;
                                  |                                       | _buffered_param_depth0_fixed / _prefix_defect | fixed finding: probe + corpus + monitored jobs
  PacketFIFO `param_layout == []` | same machines with param ≡ 0 (a 1-bit | (the theorems above, param = 0)               | A "PacketFIFO(2)/no params", B "(5,buffered)/no params"
    → dummy param                 | `dummy` that is never connected)      |                                               |

  C16 — Packet framing: headers round-trip and packets are never interleaved or torn.

  Models: `LitexModel/Packet/{Header,Packetizer,Fifo,Arbiter}.lean` (litex/soc/interconnect/packet.py).
  Every hardware theorem quantifies over `ins`, an arbitrary list of per-cycle inputs: all valid/ready
  schedules, all data, garbage on the lines while valid = 0, selector changes at any time.
-/
namespace Litex.C16
open Litex Litex.Packet Litex.Stream Litex.Stream.Elem

/-! ## 1. Header: encode / decode -/

/-- **header_roundtrip** (`_partial`: fields are swapped by `reverse_bytes`, which is an involution only on
    fields of at most 8 bits or a whole number of bytes — hypothesis `hs`).
    For every field table whose fields do not overlap, with values that fit their fields, with and without
    `swap_field_bytes`:  `decode (encode vals) = vals`.
    Full statement (without `hs`) is false, see `header_roundtrip_fails_odd_width`. -/
theorem header_roundtrip_partial (swap : Bool) (fields : List HField) (vals : List Nat)
    (hlen : vals.length = fields.length) (hd : pairwiseDisjoint fields = true)
    (hs : swap = true → ∀ f ∈ fields, f.swappable = true)
    (hv : ∀ p ∈ fields.zip vals, p.2 < 2 ^ p.1.width) :
    decode swap fields (encode swap fields vals) = vals :=
  decode_encode swap fields vals hlen hd hs hv

/-- Without byte swapping the round trip holds for every non-overlapping table (no width restriction). -/
theorem header_roundtrip_noswap (fields : List HField) (vals : List Nat)
    (hlen : vals.length = fields.length) (hd : pairwiseDisjoint fields = true)
    (hv : ∀ p ∈ fields.zip vals, p.2 < 2 ^ p.1.width) :
    decode false fields (encode false fields vals) = vals :=
  decode_encode false fields vals hlen hd (by simp) hv

/-- **encode_layout**: field `i` of a non-overlapping table occupies bits `[8·byte+offset, +width)` of the
    header signal and holds the (swapped) value; nothing else is written there. -/
theorem encode_layout (swap : Bool) (fields : List HField) (vals : List Nat)
    (hlen : vals.length = fields.length) (hd : pairwiseDisjoint fields = true)
    (i : Nat) (hi : i < fields.length) :
    slice (fields[i]).start (fields[i]).width (encode swap fields vals)
      = swapField swap (fields[i]).width (vals[i]'(by omega)) :=
  Litex.Packet.encode_layout swap fields vals hlen hd i hi

/-- A table that fits in `len` bytes encodes into the `8·len`-bit header signal. -/
theorem encode_fits (swap : Bool) (len : Nat) (fields : List HField) (vals : List Nat)
    (hf : fitsIn len fields = true) : encode swap fields vals < 2 ^ (8 * len) :=
  encode_lt swap len fields vals hf

/-- Byte swapping whole bytes is big-endian storage: an involution. -/
theorem swap_involutive (w x : Nat) (h : w ≤ 8 ∨ w % 8 = 0) : revBytes w (revBytes w x) = x % 2 ^ w := by
  rcases h with h | h
  · rw [revBytes_small w x h, revBytes_small w _ h, Nat.mod_mod]
  · exact revBytes_revBytes w x h

/-- Non-vacuity: the header of `test/test_packet.py` (31 bytes, five fields, swapped) satisfies the hypotheses. -/
example :
    let fields : List HField := [⟨15, 0, 128⟩, ⟨1, 0, 16⟩, ⟨3, 0, 32⟩, ⟨7, 0, 64⟩, ⟨0, 0, 8⟩]
    pairwiseDisjoint fields = true ∧ fitsIn 31 fields = true ∧ (∀ f ∈ fields, f.swappable = true) ∧
    encode true [⟨0, 0, 8⟩, ⟨1, 0, 16⟩] [0xa1, 0xb2c3] = 0xc3b2a1 ∧
    decode true [⟨0, 0, 8⟩, ⟨1, 0, 16⟩] 0xc3b2a1 = [0xa1, 0xb2c3] := by decide

/-- Negative witness (finding C16-header-swap-odd-width): a swapped 12-bit field does not round-trip. -/
theorem header_roundtrip_fails_odd_width :
    decode true [⟨0, 0, 12⟩] (encode true [⟨0, 0, 12⟩] [0xdef]) = [0xfde] := by decide

/-! ### Header with its LENGTH, ill-formed tables, and the `get_field` name convention

  `encodeL len` / `decodeL len` (`LitexModel/Packet/HeaderClip.lean`) are `Header(fields, len, swap).encode/decode`
  on the `8·len`-bit signal, including what Migen's slice clipping does to fields that reach beyond it.
  `Header` itself never checks a table: overlaps and fields beyond the length elaborate silently. -/

/-- **header_roundtrip for ALL well-formed headers** (`_partial` only in the byte-swap width condition `hs`, finding
    C16-header-swap-odd-width): any field list — bytes, bit offsets, widths arbitrary — whose fields do not overlap
    and lie inside the `len`-byte header round-trips through the real signal width.  By induction over the list. -/
theorem header_roundtrip_len_partial (len : Nat) (swap : Bool) (fields : List HField) (vals : List Nat)
    (hlen : vals.length = fields.length) (hd : pairwiseDisjoint fields = true) (hf : fitsIn len fields = true)
    (hs : swap = true → ∀ f ∈ fields, f.swappable = true)
    (hv : ∀ p ∈ fields.zip vals, p.2 < 2 ^ p.1.width) :
    decodeL len swap fields (encodeL len swap fields vals) = vals :=
  header_roundtrip_len len swap fields vals hlen hd hf hs hv

/-- For tables inside the header the length plays no role (the section-1 theorems are about the same function). -/
theorem header_len_irrelevant_when_fits (len : Nat) (swap : Bool) (fields : List HField) (vals : List Nat) (sig : Nat)
    (hf : fitsIn len fields = true) :
    encodeL len swap fields vals = encode swap fields vals ∧ decodeL len swap fields sig = decode swap fields sig :=
  ⟨encodeL_eq_encode len swap fields vals hf, decodeL_eq_decode len swap fields sig hf⟩

/-- The header signal never exceeds its `8·len` bits — for EVERY table, well formed or not. -/
theorem header_encode_within_length (len : Nat) (swap : Bool) (fields : List HField) (vals : List Nat) :
    encodeL len swap fields vals < 2 ^ (8 * len) := encodeL_lt len swap fields vals

/-- **Ill-formed, overlap: the last writer wins** (assignments in `sorted(fields)` order).  For every table, every
    header bit `j` covered by field `i` and by no later field carries field `i`'s (swapped) value bit. -/
theorem header_overlap_last_writer (len : Nat) (swap : Bool) (fields : List HField) (vals : List Nat)
    (hlen : vals.length = fields.length) (i : Nat) (hi : i < fields.length) (j : Nat)
    (hc : ((fields[i]).clip (8 * len)).covers j = true)
    (hlater : ∀ k (hk : k < fields.length), i < k → ((fields[k]).clip (8 * len)).covers j = false) :
    (encodeL len swap fields vals).testBit j
      = (swapField swap (fields[i]).width (vals[i]'(by omega))).testBit (j - ((fields[i]).clip (8 * len)).start) :=
  encodeL_bit_last_writer len swap fields vals hlen i hi j hc hlater

/-- … hence field `i` round-trips whenever no LATER field overlaps it and it lies inside the header; earlier
    overlapping fields and other fields beyond the length do not matter (full strength, no global hypothesis). -/
theorem header_field_roundtrip (len : Nat) (swap : Bool) (fields : List HField) (vals : List Nat)
    (hlen : vals.length = fields.length) (i : Nat) (hi : i < fields.length)
    (hlater : ∀ k (hk : k < fields.length), i < k → (fields[i]).disjoint (fields[k]) = true)
    (hfit : (fields[i]).stop ≤ 8 * len) (hs : swap = true → (fields[i]).swappable = true)
    (hv : vals[i]'(by omega) < 2 ^ (fields[i]).width) :
    (decodeL len swap fields (encodeL len swap fields vals))[i]'(by simp [decodeL, hi]) = vals[i]'(by omega) :=
  decodeL_encodeL_field len swap fields vals hlen i hi hlater hfit hs hv

/-- Negative witness: an EARLIER field overlapped by a later one does not round-trip (`a = 0xff` reads back `0x0f`). -/
theorem header_overlap_earlier_field_lost :
    decodeL 2 false [⟨0, 0, 8⟩, ⟨0, 4, 8⟩] (encodeL 2 false [⟨0, 0, 8⟩, ⟨0, 4, 8⟩] [0xff, 0]) = [0x0f, 0] :=
  overlap_earlier_field_lost

/-- **Ill-formed, beyond the length.**  Without byte swap a clipped field gives back the low bits that fit … -/
theorem header_clipped_field_noswap (len : Nat) (fields : List HField) (vals : List Nat)
    (hlen : vals.length = fields.length) (i : Nat) (hi : i < fields.length)
    (hlater : ∀ k (hk : k < fields.length), i < k →
      ((fields[i]).clip (8 * len)).disjoint ((fields[k]).clip (8 * len)) = true) :
    (decodeL len false fields (encodeL len false fields vals))[i]'(by simp [decodeL, hi])
      = vals[i]'(by omega) % 2 ^ ((fields[i]).clip (8 * len)).width :=
  decodeL_encodeL_clipped_noswap len fields vals hlen i hi hlater

/-- … with byte swap (whole-byte widths `8a`, `8b` bytes remaining) the TOP `b` bytes come back (encode swaps at
    the full width, decode at the clipped width) … -/
theorem header_clipped_field_swap (len : Nat) (fields : List HField) (vals : List Nat)
    (hlen : vals.length = fields.length) (i : Nat) (hi : i < fields.length)
    (hlater : ∀ k (hk : k < fields.length), i < k →
      ((fields[i]).clip (8 * len)).disjoint ((fields[k]).clip (8 * len)) = true)
    (a b : Nat) (ha : (fields[i]).width = 8 * a) (hb : ((fields[i]).clip (8 * len)).width = 8 * b) :
    (decodeL len true fields (encodeL len true fields vals))[i]'(by simp [decodeL, hi])
      = vals[i]'(by omega) % 2 ^ (8 * a) / 2 ^ (8 * (a - b)) :=
  decodeL_encodeL_clipped_swap_bytes len fields vals hlen i hi hlater a b ha hb

/-- … a field entirely beyond the header is not encoded at all and decodes to 0; for a swapped clipped field whose
    remaining width is not a whole number of bytes there is no clean formula (kernel-checked witness). -/
theorem header_field_beyond (len : Nat) (swap : Bool) (sig : Nat) (f : HField) (h : 8 * len ≤ f.start)
    (l : List (HField × Nat)) (s0 : Nat) :
    decodeFieldL (8 * len) swap sig f = 0 ∧
    encodeFromL (8 * len) swap s0 l = encodeFromL (8 * len) swap s0 (l.filter fun p => decide (p.1.start < 8 * len)) :=
  ⟨decodeFieldL_beyond len swap sig f h, encodeFromL_filter_beyond (8 * len) swap l s0⟩

theorem header_clipped_swap_odd_witness :
    encodeL 2 true [⟨0, 4, 24⟩] [0xabcdef] = 0xdab0 ∧
    decodeL 2 true [⟨0, 4, 24⟩] (encodeL 2 true [⟨0, 4, 24⟩] [0xabcdef]) = [0xabd] :=
  clipped_swap_odd_no_formula

/-- **`get_field`**: the `Width mismatch` ValueError is raised exactly when the selected part of the record signal
    (`x` itself, `x[:w]` for `x_lsb`, `x[w:2w]` for `x_msb`, Python-clipped to `len(x)`) is not `w` bits wide. -/
theorem get_field_width_check (W : Nat) (k : FKind) (w : Nat) :
    ((∃ e, getField W k w = .error e) ↔ (k.range W w).2 ≠ w) ∧
    (getField W .plain w = if W = w then .ok (0, W) else .error "Width mismatch") ∧
    (getField W .lsb w = .ok (0, w) ↔ w ≤ W) ∧ ((∃ r, getField W .msb w = .ok r) ↔ (2 * w ≤ W ∨ w = 0)) :=
  ⟨getField_error_iff W k w, getField_plain W w, getField_lsb_ok_iff W w, getField_msb_ok_iff W w⟩

/-- A record signal `x` of `2w` bits carried by the pair of header fields `x_lsb` / `x_msb` (any two disjoint
    `w`-bit places inside the header) round-trips as a whole. -/
theorem header_lsb_msb_roundtrip (len : Nat) (swap : Bool) (fl fm : HField) (w x : Nat)
    (hl : fl.width = w) (hm : fm.width = w) (hd : fl.disjoint fm = true)
    (hfl : fl.stop ≤ 8 * len) (hfm : fm.stop ≤ 8 * len)
    (hs : swap = true → fl.swappable = true ∧ fm.swappable = true) (hx : x < 2 ^ (2 * w)) :
    let tbl : List NField := [⟨fl, 0, .lsb⟩, ⟨fm, 0, .msb⟩]
    ∃ sig, encodeObj len swap tbl [(2 * w, x)] = .ok sig ∧ sig < 2 ^ (8 * len) ∧
      decodeObj len swap tbl [2 * w] sig = .ok [x] :=
  lsb_msb_roundtrip len swap fl fm w x hl hm hd hfl hfm hs hx

/-- Non-vacuity: the `test_packet.py` table is well formed at its length 31 and NOT at length 30 (its 128-bit field
    is clipped to 120 bits there); a 32-bit `x = 0xabcdef12` through swapped `x_lsb`/`x_msb` halves in a 4-byte
    header. -/
example :
    let fields : List HField := [⟨15, 0, 128⟩, ⟨1, 0, 16⟩, ⟨3, 0, 32⟩, ⟨7, 0, 64⟩, ⟨0, 0, 8⟩]
    fitsIn 31 fields = true ∧ fitsIn 30 fields = false ∧ ((fields[0]).clip (8 * 30)).width = 120 ∧
    encodeObj 4 true [⟨⟨0, 0, 16⟩, 0, .lsb⟩, ⟨⟨2, 0, 16⟩, 0, .msb⟩] [(32, 0xabcdef12)] = .ok 0xcdab12ef ∧
    decodeObj 4 true [⟨⟨0, 0, 16⟩, 0, .lsb⟩, ⟨⟨2, 0, 16⟩, 0, .msb⟩] [32] 0xcdab12ef = .ok [0xabcdef12] := by
  decide

/-! ## 2. PacketFIFO -/

/-- **packetfifo_atomic**.  For every input sequence (`pd` = payload depth, `qd` = depth of the param FIFO):
    * the delivered beats are a prefix of `annT accepted`: the accepted beats in order, data and last
      unchanged, each carrying the param presented with the *last* beat of its own packet;
    * the stored beats are exactly the accepted, not yet delivered ones, and the param FIFO holds one entry per
      *complete* stored packet (so `source.valid`, which is "param FIFO not empty", is raised only while a
      complete packet is stored, and never on an empty payload FIFO);
    * the occupancies never exceed the depths. -/
theorem packetfifo_atomic (pd qd : Nat) (ins : List (In PBeat)) :
    let e := packetFifo pd qd
    let s := e.runFrom e.init ins
    e.delivered e.init ins <+: annT (e.accepted e.init ins) ∧
    (e.accepted e.init ins).length = (e.delivered e.init ins).length + s.pay.length ∧
    s.par.length = (s.pay.filter (fun x => x.2)).length ∧
    s.pay.length ≤ pd ∧ s.par.length ≤ qd := by
  intro e s
  have h := rel_run_init e (fun s a d => pfRel s a d ∧ pfBound pd qd s)
    ⟨⟨[], by simp [e, packetFifo], by simp [e, packetFifo, paramsOf], fun ext => by simp⟩,
      by simp [pfBound, e, packetFifo]⟩
    (fun s a d i h => ⟨packetFifo_step pd qd s a d i h.1, packetFifo_bound_step pd qd s i h.2⟩) ins
  obtain ⟨⟨a2, hpay, hpar, hext⟩, hb1, hb2⟩ := h
  have h0 := hext []
  simp only [List.append_nil] at h0
  refine ⟨⟨_, h0.symm⟩, ?_, ?_, hb1, hb2⟩
  · have := congrArg List.length h0
    simp only [List.length_append, annT_length] at this
    show _ = _ + s.pay.length
    rw [show s.pay = a2.map payOf from hpay]
    simpa using this
  · show s.par.length = (s.pay.filter _).length
    rw [show s.pay = a2.map payOf from hpay, show s.par = paramsOf a2 from hpar]
    exact paramsOf_length a2

/-- `source.valid` in any reachable state means that the payload FIFO holds a last beat (a complete packet). -/
theorem packetfifo_valid_complete (pd qd : Nat) (ins : List (In PBeat)) (i : In PBeat) :
    let e := packetFifo pd qd
    (e.out (e.runFrom e.init ins) i).valid = true →
      ∃ x ∈ (e.runFrom e.init ins).pay, x.2 = true := by
  intro e hv
  have h := (packetfifo_atomic pd qd ins).2.2.1
  have hne : (e.runFrom e.init ins).par ≠ [] := by
    simpa [e, Elem.out, packetFifo] using hv
  have : 0 < ((e.runFrom e.init ins).pay.filter (fun x => x.2)).length := by
    rw [← h]; exact List.length_pos_iff.mpr hne
  obtain ⟨x, hx⟩ := List.exists_mem_of_length_pos this
  simp only [List.mem_filter] at hx
  exact ⟨x, hx.1, hx.2⟩

/-- **packetfifo_atomic** for `buffered=True` (both queues are `SyncFIFOBuffered`: inner FIFO + output register).
    Same statement; "stored" = output register followed by the inner FIFO; additionally the param register is
    never valid without the payload register being valid (no `source.valid` on stale payload data). -/
theorem packetfifo_buffered_atomic (pd qd : Nat) (ins : List (In PBeat)) :
    let e := packetFifoBuffered pd qd
    let s := e.runFrom e.init ins
    e.delivered e.init ins <+: annT (e.accepted e.init ins) ∧
    (e.accepted e.init ins).length = (e.delivered e.init ins).length + (storedPay s).length ∧
    (storedPar s).length = ((storedPay s).filter (fun x => x.2)).length ∧
    (s.parV = true → s.payV = true) ∧
    s.payQ.length ≤ pd ∧ s.parQ.length ≤ qd := by
  intro e s
  have h := rel_run_init e (fun s a d => pfbRel s a d ∧ pfbBound pd qd s)
    ⟨⟨[], by simp [e, packetFifoBuffered, storedPay], by simp [e, packetFifoBuffered, storedPar, paramsOf],
        by simp [e, packetFifoBuffered], fun ext => by simp⟩,
      by simp [pfbBound, e, packetFifoBuffered]⟩
    (fun s a d i h => ⟨packetFifoBuffered_step pd qd s a d i h.1, packetFifoBuffered_bound_step pd qd s i h.2⟩)
    ins
  obtain ⟨⟨a2, hpay, hpar, hinv, hext⟩, hb1, hb2⟩ := h
  have h0 := hext []
  simp only [List.append_nil] at h0
  refine ⟨⟨_, h0.symm⟩, ?_, ?_, hinv, hb1, hb2⟩
  · have := congrArg List.length h0
    simp only [List.length_append, annT_length] at this
    show _ = _ + (storedPay s).length
    rw [show storedPay s = a2.map payOf from hpay]
    simpa using this
  · show (storedPar s).length = ((storedPay s).filter _).length
    rw [show storedPay s = a2.map payOf from hpay, show storedPar s = paramsOf a2 from hpar]
    exact paramsOf_length a2

/-- **packetfifo_capacity** (documented store-and-forward limit, not a violation): once the payload FIFO is
    full without holding a complete packet, nothing is accepted or delivered ever again, whatever the
    environment does — a packet longer than `payload_depth` never completes. -/
theorem packetfifo_capacity (pd qd : Nat) (s : PFState) (hfull : s.pay.length = pd) (hnone : s.par = [])
    (ins : List (In PBeat)) :
    let e := packetFifo pd qd
    e.runFrom s ins = s ∧ e.accepted s ins = [] ∧ e.delivered s ins = [] := by
  induction ins with
  | nil => simp [Elem.accepted, Elem.delivered]
  | cons i is ih =>
    obtain ⟨h1, h2, h3⟩ := packetFifo_stuck_step pd qd s hfull hnone i
    simp only [Elem.runFrom_cons, Elem.accepted, Elem.delivered, h1, h2, h3, List.nil_append]
    exact ih

/-- Non-vacuity / reachability of the capacity limit: two non-last beats fill `PacketFIFO(2)` for good. -/
example :
    let e := packetFifo 2 3
    let b : Tok PBeat := ⟨⟨7, 1⟩, false, false⟩
    let s := e.runFrom e.init [⟨true, b, true⟩, ⟨true, b, true⟩]
    s.pay.length = 2 ∧ s.par = [] := by decide

/-- Non-vacuity of `packetfifo_atomic`: packets (1,2 | param 9) and (3 | param 5) through `PacketFIFO(2)` with a
    consumer that stalls while the payload FIFO is full exactly at a last beat (the witness of the fixed finding
    C16-packetfifo-param-dup): every beat comes out once, with the param of its own packet's last beat. -/
example :
    let e := packetFifo 2 3
    let t (d p : Nat) (l : Bool) : Tok PBeat := ⟨⟨d, p⟩, false, l⟩
    let ins : List (In PBeat) :=
      [⟨true, t 1 0 false, false⟩, ⟨true, t 2 9 true, false⟩, ⟨true, t 3 5 true, false⟩,
       ⟨true, t 3 5 true, false⟩, ⟨true, t 3 5 true, true⟩, ⟨true, t 3 5 true, true⟩,
       ⟨false, t 0 0 false, true⟩, ⟨false, t 0 0 false, true⟩]
    e.delivered e.init ins = [t 1 9 false, t 2 9 true, t 3 5 true] := by decide

/-! ### Every depth (`packetFifoAll pd qd buffered`)

  `stream.SyncFIFO` builds four different circuits: depth 0 a wire, depth 1 a `PipeValid` register (`buffered`
  ignored), depth ≥ 2 a Migen `SyncFIFO` or `SyncFIFOBuffered`; PacketFIFO combines two of them (payload: `pd`,
  params: `qd = param_depth + 1 ≥ 1`).  `packetFifoAll` models every combination over one generic queue
  (`QSt`: `stored`, `readable`, `dout`, `writable`, `next`), powers of two or not. -/

/-- **packetfifo_atomic for every payload/param depth and both `buffered` values** — full strength, no exclusion
    (the model follows the code after the fix of finding C16-packetfifo-buffered-param-depth0:
    `source.valid = param_fifo.source.valid & payload_fifo.source.valid`).  Same conclusions as
    `packetfifo_atomic`; `stored` = what the queue of that kind holds (register and/or FIFO content), capacities
    0 / 1 / depth / depth+1; `source.valid` only while both queues really show their head. -/
theorem packetfifo_atomic_all_depths (pd qd : Nat) (buffered : Bool) (ins : List (In PBeat)) :
    let e := packetFifoAll pd qd buffered
    let kp := qkind pd buffered
    let kq := qkind qd buffered
    let s := e.runFrom e.init ins
    e.delivered e.init ins <+: annT (e.accepted e.init ins) ∧
    (e.accepted e.init ins).length = (e.delivered e.init ins).length + (s.pay.stored kp).length ∧
    (s.par.stored kq).length = ((s.pay.stored kp).filter (fun x => x.2)).length ∧
    (∀ i, (e.out s i).valid = true → s.par.readable kq = true ∧ s.pay.readable kp = true) ∧
    (s.pay.stored kp).length ≤ QSt.cap kp pd ∧ (s.par.stored kq).length ≤ QSt.cap kq qd :=
  packetFifoAll_atomic pd qd buffered ins

/-- `source.valid` (in any reachable state, every parameterisation) shows the head of the stored payload with the
    head of the stored params, and a complete packet is stored. -/
theorem packetfifo_valid_complete_all_depths (pd qd : Nat) (buffered : Bool) (ins : List (In PBeat))
    (i : In PBeat) :
    let e := packetFifoAll pd qd buffered
    let s := e.runFrom e.init ins
    (e.out s i).valid = true →
      (∃ rest, s.pay.stored (qkind pd buffered) = ((e.out s i).tok.data.data, (e.out s i).tok.last) :: rest) ∧
      (∃ rest, s.par.stored (qkind qd buffered) = (e.out s i).tok.data.param :: rest) ∧
      ∃ x ∈ s.pay.stored (qkind pd buffered), x.2 = true :=
  packetFifoAll_valid_complete pd qd buffered ins i

/-- Outside `buffered ∧ payload_depth ≥ 2 ∧ param_depth = 0` the param queue is never readable before the payload
    queue: there the added `& payload_fifo.source.valid` changes nothing at the ports. -/
theorem packetfifo_fix_neutral_elsewhere (pd qd : Nat) (buffered : Bool)
    (hnd : ¬ (buffered = true ∧ 2 ≤ pd ∧ qd = 1)) (ins : List (In PBeat)) :
    let e := packetFifoAll pd qd buffered
    let s := e.runFrom e.init ins
    s.par.readable (qkind qd buffered) = true → s.pay.readable (qkind pd buffered) = true :=
  packetFifoAll_readable_inv pd qd buffered hnd ins

/-- The witness of the fixed finding on the fixed machine `PacketFIFO(2, param_depth=0, buffered=True)`: the
    single-beat packet `(107 | param 48)` is delivered exactly once; after the first cycle the param register is
    readable, the payload output register not yet, and `source.valid` stays low. -/
theorem packetfifo_buffered_param_depth0_fixed :
    let t (d p : Nat) (l : Bool) : Tok PBeat := ⟨⟨d, p⟩, false, l⟩
    let e := packetFifoAll 2 1 true
    let ins : List (In PBeat) := [⟨true, t 107 48 true, true⟩, ⟨false, t 0 0 false, true⟩,
      ⟨false, t 0 0 false, true⟩, ⟨false, t 0 0 false, true⟩]
    e.accepted e.init ins = [t 107 48 true] ∧ e.delivered e.init ins = [t 107 48 true] := by
  have h := packetFifoAll_fixed_witness
  exact ⟨h.1, h.2.1⟩

/-- Negative witness of the method BEFORE the fix (`packetFifoAllPre`: `source.valid` = param queue readable only):
    the same inputs deliver a beat that was never accepted (`data 0`, `last 0`) first. -/
theorem packetfifo_buffered_param_depth0_prefix_defect :
    let t (d p : Nat) (l : Bool) : Tok PBeat := ⟨⟨d, p⟩, false, l⟩
    let e := packetFifoAllPre 2 1 true
    let ins : List (In PBeat) := [⟨true, t 107 48 true, true⟩, ⟨false, t 0 0 false, true⟩,
      ⟨false, t 0 0 false, true⟩, ⟨false, t 0 0 false, true⟩]
    e.accepted e.init ins = [t 107 48 true] ∧
    e.delivered e.init ins = [t 0 48 false, t 107 48 true] ∧
    ¬ (e.delivered e.init ins <+: annT (e.accepted e.init ins)) :=
  packetFifoPre_defect

/-- `payload_depth = 0`: the FIFO is dead from reset — nothing is ever accepted or delivered (the degenerate case of
    `packetfifo_capacity`: no packet fits). -/
theorem packetfifo_depth0_dead (qd : Nat) (buffered : Bool) (ins : List (In PBeat)) :
    let e := packetFifoAll 0 qd buffered
    e.accepted e.init ins = [] ∧ e.delivered e.init ins = [] ∧
      ∀ i, (e.out (e.runFrom e.init ins) i).ready = false ∧ (e.out (e.runFrom e.init ins) i).valid = false :=
  Litex.Packet.packetfifo_depth0_dead qd buffered ins

/-- For depths ≥ 2 `packetFifoAll` and the machines of `packetfifo_atomic` / `packetfifo_buffered_atomic` (which keep
    `source.valid` = param queue non-empty: on their reachable states that implies a non-empty payload queue, so
    they are port-equivalent to the fixed code) accept and deliver the same streams from reset, for every input
    list (state maps `pfaOfPlain` / `pfaOfBuffered`, simulation under the machines' own invariant). -/
theorem packetfifo_all_depths_extends (pd qd : Nat) (hp : 2 ≤ pd) (hq : 2 ≤ qd) (ins : List (In PBeat)) :
    (packetFifo pd qd).accepted (packetFifo pd qd).init ins
        = (packetFifoAll pd qd false).accepted (packetFifoAll pd qd false).init ins ∧
    (packetFifo pd qd).delivered (packetFifo pd qd).init ins
        = (packetFifoAll pd qd false).delivered (packetFifoAll pd qd false).init ins ∧
    (packetFifoBuffered pd qd).accepted (packetFifoBuffered pd qd).init ins
        = (packetFifoAll pd qd true).accepted (packetFifoAll pd qd true).init ins ∧
    (packetFifoBuffered pd qd).delivered (packetFifoBuffered pd qd).init ins
        = (packetFifoAll pd qd true).delivered (packetFifoAll pd qd true).init ins := by
  have h1 := packetFifoAll_eq_plain_init pd qd hp hq ins
  have h2 := packetFifoAll_eq_buffered_init pd qd hp hq ins
  exact ⟨h1.1, h1.2, h2.1, h2.2⟩

/-- Non-vacuity: three back-to-back single-beat packets through `PacketFIFO(1)` (payload `PipeValid`: a beat is
    accepted in the cycle the previous one is popped) come out in order with their own params, also with
    `param_depth = 0` (both queues `PipeValid`). -/
example :
    let t (d p : Nat) : Tok PBeat := ⟨⟨d, p⟩, false, true⟩
    let ins : List (In PBeat) := [⟨true, t 1 7, true⟩, ⟨true, t 2 8, true⟩, ⟨true, t 3 9, true⟩,
      ⟨false, t 0 0, true⟩, ⟨false, t 0 0, true⟩]
    (packetFifoAll 1 2 false).delivered (packetFifoAll 1 2 false).init ins = [t 1 7, t 2 8, t 3 9] ∧
    (packetFifoAll 1 1 false).delivered (packetFifoAll 1 1 false).init ins = [t 1 7, t 2 8, t 3 9] ∧
    (packetFifoAll 1 1 true).delivered (packetFifoAll 1 1 true).init ins = [t 1 7, t 2 8, t 3 9] := by decide

/-! ## 3. Arbiter and Dispatcher -/

/-- **arbiter_atomic**: for `n ≥ 2` masters and every input sequence, the beats handed to the slave (each tagged
    with the master it comes from) never interleave packets: once a master's non-last beat has been
    transferred, every beat up to and including its last beat comes from the same master (the grant is frozen
    while `ongoing`), also when that master pauses `valid` in the middle of the packet and other masters
    request. -/
theorem arbiter_atomic (n : Nat) (hn : 2 ≤ n) (ins : List ArbIn) :
    atomicFrom none (arbLog n (arbiter n).init ins) :=
  arbiter_atomic_from n hn ins _ none ⟨by simp [arbiter]; omega, by simp⟩

/-- No loss, duplication or reordering per master: what master `k` got accepted is exactly the slave's stream
    restricted to `k`'s beats (the beats themselves are forwarded unchanged by construction of `arbXfer`). -/
theorem arbiter_lossless (n : Nat) (hn : 2 ≤ n) (k : Nat) (hk : k < n) (ins : List ArbIn) :
    arbAccepted n k (arbiter n).init ins =
      ((arbLog n (arbiter n).init ins).filter (fun x => x.1 == k)).map (fun x => x.2) :=
  arbiter_accepted_eq n hn k hk ins _ (by simp [arbiter]; omega)

/-- Non-vacuity: master 0 sends (1, pause, 2 last) while master 1 keeps requesting with a one-beat packet:
    the slave sees 1, 2 from master 0, then master 1's beat. -/
example :
    let b (v : Bool) (d : Nat) (l : Bool) : Beat := ⟨v, d, l⟩
    arbLog 2 (arbiter 2).init
      [⟨[b true 1 false, b true 7 true], true⟩, ⟨[b false 0 true, b true 7 true], true⟩,
       ⟨[b false 0 false, b true 7 true], true⟩, ⟨[b true 2 true, b true 7 true], true⟩,
       ⟨[b false 0 false, b true 7 true], true⟩]
      = [(0, b true 1 false), (0, b true 2 true), (1, b true 7 true)] := by decide

/-- **arbiter_fair** (round-robin bounded wait).  Take any state in which master `k` is waiting: it has
    requested (its `ongoing` register is set — `arbiter_request_sticks`: one cycle with `valid` while not
    granted sets it, and it stays set until `k`'s own last beat is transferred) and another master holds the
    grant.  Then along every run in which `k` is still not granted, every change of the grant moves the
    round-robin pointer strictly closer to `k`:
        (number of grant changes) + dist(final grant, k) ≤ dist(initial grant, k) ≤ n − 1,
    so at most `n − 2` other masters are served before `k`, whatever the other masters and the slave do. -/
theorem arbiter_fair (n : Nat) (hn : 2 ≤ n) (k : Nat) (hk : k < n) (ins : List ArbIn) (s : ArbState)
    (hg : s.grant < n) (hgk : s.grant ≠ k) (hw : s.ongoing.getD k false = true)
    (hng : arbNeverGranted n k s ins) :
    arbChanges n s ins + RoundRobin.dist n ((arbiter n).runFrom s ins).grant k ≤ RoundRobin.dist n s.grant k ∧
    RoundRobin.dist n s.grant k < n :=
  ⟨arbiter_wait_bound n hn k hk ins s hg hgk hw hng, Nat.mod_lt _ (by omega)⟩

/-- A request made while another master is granted is remembered (`Status.ongoing`). -/
theorem arbiter_request_remembered (n : Nat) (s : ArbState) (i : ArbIn) (k : Nat) (hk : k < n)
    (hgk : s.grant ≠ k) (hv : (i.masters.getD k Beat.idle).valid = true) :
    ((arbiter n).next s i).ongoing.getD k false = true :=
  arbiter_request_sticks n s i k hk (by rw [arbRequest_not_granted s i k hgk, hv]; rfl)

/-- Non-vacuity: three masters, master 2 waits while master 0 finishes and master 1 is served (one grant change,
    distance 2 → 1), then it gets the grant. -/
example :
    let b (v : Bool) (l : Bool) : Beat := ⟨v, 0, l⟩
    let i : ArbIn := ⟨[b true true, b true true, b true true], true⟩
    let s1 := (arbiter 3).next (arbiter 3).init i
    s1.grant = 1 ∧ s1.ongoing.getD 2 false = true ∧ arbNeverGranted 3 2 (arbiter 3).init [i] ∧
    arbChanges 3 (arbiter 3).init [i] = 1 ∧ ((arbiter 3).runFrom s1 [i]).grant = 2 := by
  refine ⟨by decide, by decide, ⟨by decide, trivial⟩, by decide, by decide⟩

/-- **dispatcher_atomic**: for every input sequence, the destination of a packet is the slave addressed by the
    `sel` input in the cycle in which its first beat is transferred (no slave if `sel` addresses none: the
    packet is drained), and every further beat up to `last` goes to that same destination whatever `sel` does
    in the meantime (the Dispatcher latches `sel` while `status.first`).
    (This is the machine the constructor builds for ≥ 2 slaves or `one_hot`; for a single slave without `one_hot`
    it builds a plain connection, modelled as `dispatcherConnect`, where there is nothing to tear.) -/
theorem dispatcher_atomic (m : Nat) (oneHot : Bool) (ins : List DispIn) :
    routedFrom m oneHot none (dispLog m oneHot (dispatcher m oneHot).init ins) :=
  dispatcher_atomic_from m oneHot ins _ none (by simp [dispInv, dispatcher])

/-- A beat is presented to at most one slave, unchanged: slave `k` sees the master's beat iff its `Case` key
    equals the effective selector, and two different slaves never have the same key. -/
theorem dispatcher_one_slave (m : Nat) (oneHot : Bool) (s : DispState) (i : DispIn) (k1 k2 : Nat)
    (h1 : k1 < m) (h2 : k2 < m)
    (v1 : (((dispatcher m oneHot).out s i).slaves.getD k1 Beat.idle).valid = true)
    (v2 : (((dispatcher m oneHot).out s i).slaves.getD k2 Beat.idle).valid = true) :
    k1 = k2 ∧ ((dispatcher m oneHot).out s i).slaves.getD k1 Beat.idle = i.master := by
  have e : ∀ k, k < m → ((dispatcher m oneHot).out s i).slaves.getD k Beat.idle =
      if dispKey oneHot k == dispSel s i then i.master else Beat.idle := by
    intro k hk; simp [dispatcher, List.getD, hk]
  rw [e k1 h1] at v1 ⊢
  rw [e k2 h2] at v2
  by_cases c1 : (dispKey oneHot k1 == dispSel s i) = true
  · by_cases c2 : (dispKey oneHot k2 == dispSel s i) = true
    · refine ⟨?_, by simp [c1]⟩
      have hk : dispKey oneHot k1 = dispKey oneHot k2 := by
        rw [beq_iff_eq] at c1 c2; rw [c1, c2]
      unfold dispKey at hk
      cases oneHot with
      | false => simpa using hk
      | true => exact Nat.pow_right_injective (Nat.le_refl 2) (by simpa using hk)
    · simp [c2, Beat.idle] at v2
  · simp [c1, Beat.idle] at v1

/-- Non-vacuity: a two-beat packet started towards slave 1 stays there although `sel` flips to 0 before the
    second beat; the next packet (sel = 5 addresses nobody) is drained. -/
example :
    let b (d : Nat) (l : Bool) : Beat := ⟨true, d, l⟩
    dispLog 2 false (dispatcher 2 false).init
      [⟨b 1 false, 1, [true, true]⟩, ⟨b 2 true, 0, [false, true]⟩, ⟨b 3 true, 5, [false, false]⟩]
      = [(some 1, 1, b 1 false), (some 1, 0, b 2 true), (none, 5, b 3 true)] := by decide

/-! ### Every port count (what the constructors build: `arbiterCtor n`, `dispatcherCtor m oneHot`)

  `Arbiter` / `Dispatcher` build the round-robin / selector logic only for ≥ 2 ports (Dispatcher: or `one_hot`);
  with one port they are a plain `Endpoint.connect`, with none nothing is connected.  The logs below are read
  off the ports of whichever machine is built (`arbLogM`: slave beat tagged with the `grant` output;
  `dispLogM`: the slave whose port shows `valid`), so one statement covers all variants. -/

/-- **arbiter_atomic, all port counts** (`n = 0, 1, 2, …`): the beats handed to the slave never interleave
    packets of different masters. -/
theorem arbiter_atomic_all_ports (n : Nat) (ins : List ArbIn) :
    atomicFrom none (arbLogM (arbiterCtor n) (arbiterCtor n).init ins) :=
  arbiterCtor_atomic n ins

/-- **arbiter_lossless, all port counts**: what master `k` got accepted is the slave's stream restricted to the
    beats granted to `k`. -/
theorem arbiter_lossless_all_ports (n k : Nat) (hk : k < n) (ins : List ArbIn) :
    arbAcceptedM (arbiterCtor n) k (arbiterCtor n).init ins =
      ((arbLogM (arbiterCtor n) (arbiterCtor n).init ins).filter (fun x => x.1 == k)).map (fun x => x.2) :=
  arbiterCtor_lossless n k hk ins

/-- For ≥ 2 masters the port-level log is the log of `arbiter_atomic` (the `grant` output is the grant register). -/
theorem arbiter_log_ports (n : Nat) (ins : List ArbIn) :
    arbLogM (arbiterCtor (n + 2)) (arbiterCtor (n + 2)).init ins = arbLog (n + 2) (arbiter (n + 2)).init ins :=
  arbLogM_arbiter (n + 2) ins _

/-- One master: the slave port is the master port, `grant` is constant 0. -/
theorem arbiter_single_master_wire (s : ArbState) (i : ArbIn) :
    ((arbiterCtor 1).out s i).slave = i.masters.getD 0 Beat.idle ∧
    ((arbiterCtor 1).out s i).readys = [i.ready] ∧ ((arbiterCtor 1).out s i).grant = 0 :=
  arbiter_one_is_wire s i

/-- Non-vacuity: a single master's two-beat packet with a stalled cycle arrives complete, tagged 0. -/
example :
    let b (v : Bool) (d : Nat) (l : Bool) : Beat := ⟨v, d, l⟩
    arbLogM (arbiterCtor 1) (arbiterCtor 1).init
      [⟨[b true 1 false], true⟩, ⟨[b true 2 true], false⟩, ⟨[b true 2 true], true⟩, ⟨[b false 0 false], true⟩]
      = [(0, b true 1 false), (0, b true 2 true)] := by decide

/-- **dispatcher_atomic, all port counts, binary and one-hot selector**: the destination of a packet is the slave
    `ctorTarget m oneHot sel` addressed in the cycle of its first transferred beat (selector logic: the slave whose
    key equals `sel`, nobody = drained; single slave without `one_hot`: that slave whatever `sel` says) and every
    further beat up to `last` goes to the same destination.  The destination is read off the slave ports
    (`dispDest`: the slave that is shown `valid`). -/
theorem dispatcher_atomic_all_ports (m : Nat) (oneHot : Bool) (ins : List DispIn) :
    routedFromG (ctorTarget m oneHot) none
      (dispLogM (dispatcherCtor m oneHot) (dispatcherCtor m oneHot).init ins) :=
  dispatcherCtor_atomic m oneHot ins

/-- For the selector logic the port-level log is the log of `dispatcher_atomic`: the slave that sees `valid` is
    the one whose key equals the effective selector. -/
theorem dispatcher_log_ports (m : Nat) (oneHot : Bool) (ins : List DispIn) :
    dispLogM (dispatcher m oneHot) (dispatcher m oneHot).init ins =
      dispLog m oneHot (dispatcher m oneHot).init ins :=
  dispLogM_dispatcher m oneHot ins _

/-- `Dispatcher(master, [])`: `master.ready` is never raised, nothing is ever transferred (the code leaves the
    master undriven — a packet offered to it waits forever; not a tearing, but worth knowing). -/
theorem dispatcher_no_slave_dead (oneHot : Bool) (ins : List DispIn) (s : DispState) (i : DispIn) :
    ((dispatcherCtor 0 oneHot).out s i).ready = false ∧
    dispLogM (dispatcherCtor 0 oneHot) (dispatcherCtor 0 oneHot).init ins = [] :=
  dispatcher_zero_dead oneHot ins s i

/-- One slave without `one_hot`: the slave port is the master port. -/
theorem dispatcher_single_slave_wire (s : DispState) (i : DispIn) :
    ((dispatcherCtor 1 false).out s i).slaves = [i.master] ∧
    ((dispatcherCtor 1 false).out s i).ready = i.readys.getD 0 false :=
  dispatcher_one_is_wire s i

/-- Non-vacuity: the single slave gets both beats although `sel` says 1 and then 0; with `one_hot` and one slave the
    selector logic is built: `sel = 1` addresses slave 0, `sel = 0` nobody (the packet is drained). -/
example :
    let b (d : Nat) (l : Bool) : Beat := ⟨true, d, l⟩
    dispLogM (dispatcherCtor 1 false) (dispatcherCtor 1 false).init
      [⟨b 1 false, 1, [true]⟩, ⟨b 2 true, 0, [true]⟩] = [(some 0, 1, b 1 false), (some 0, 0, b 2 true)] ∧
    dispLogM (dispatcherCtor 1 true) (dispatcherCtor 1 true).init
      [⟨b 1 false, 1, [true]⟩, ⟨b 2 true, 0, [true]⟩, ⟨b 3 true, 0, [false]⟩]
      = [(some 0, 1, b 1 false), (some 0, 0, b 2 true), (none, 0, b 3 true)] := by decide

/-! ## 4. Packetizer / Depacketizer

  `c : PkCfg` = (`B` bytes per beat, `H` header bytes).  `AlignedCfg c`: `B > 0`, `H > 0`, `H % B = 0`
  (the header is a whole number `W = H / B ≥ 1` of beats) — for **every** such data width and header length.

  `Compliant e s none ins`: the producer obeys the stream contract (a beat offered and not accepted is offered
  again unchanged); nothing is assumed about `source.ready`, about the lines while `valid = 0`, or about
  idle cycles between beats or packets.

  Full statements (all `c` with `B, H > 0`) are false on the current tree — findings
  C16-header-shorter-than-beat (`H < B`), C16-packetizer-unaligned-single-beat,
  C16-packetizer-unaligned-bubble, C16-depacketizer-residue-end — see the negative witnesses below.  Headers that
  are not a multiple of the data width (`UnalignedCfg c`: `H % B ≠ 0`, `H ≥ B`) are proved separately further
  down, under hypotheses that exclude exactly those findings. -/

/-- **packetizer_bytes** (`_partial`: aligned header).  For every contract-abiding input sequence the beats
    delivered so far are exactly `frame accepted` — per packet the `W` header words of the header presented with
    the packet's first beat (`hdrWord k` = bits `[k·dw, (k+1)·dw)` of the header signal, i.e. header bytes
    `k·B … k·B+B-1`, lane 0 first), then the payload beats unchanged with `last` on the final one — followed, if
    a first beat is on offer and not yet accepted, by a prefix of that packet's header words. -/
theorem packetizer_bytes_partial (c : PkCfg) (hc : AlignedCfg c) (ins : List (In HBeat))
    (hcomp : Compliant (packetizer c) (packetizer c).init none ins) :
    let e := packetizer c
    let a := e.accepted e.init ins
    let d := e.delivered e.init ins
    d = frame c a ∨ (endSt true a = true ∧ ∃ t k, pendRun e e.init none ins = some t ∧ k ≤ c.W ∧
      d = frame c a ++ (hdrWords c (hdrOf c t)).take k) := by
  intro e a d
  have h := rel_run_compliant e (pkRel c) (packetizer_step c hc) ins e.init none [] []
    (by simp [pkRel, e, packetizer, PkState.reset, endSt, frame, frameAux]) hcomp
  simp only [List.nil_append] at h
  exact pkRel_shape c _ _ _ _ h

/-- **depacketizer_bytes** (`_partial`: aligned header).  For *every* input sequence (no contract needed) the
    delivered beats are `deframe accepted`: the first `W` beats of a packet are collected as the header
    (beat `k` at bits `[k·dw, (k+1)·dw)`), every following beat up to `last` is delivered unchanged together
    with that header — the same header on every beat of the packet (stable from first payload beat to last). -/
theorem depacketizer_bytes_partial (c : PkCfg) (hc : AlignedCfg c) (ins : List (In Nat)) :
    let e := depacketizer c
    e.delivered e.init ins = deframe c (e.accepted e.init ins) := by
  intro e
  have h := rel_run_init e (dpRel c)
    (by simp [dpRel, e, depacketizer, PkState.reset, deframe, deframeAux, dfSt, Nat.two_pow_pos])
    (depacketizer_step c hc) ins
  exact h.1

/-- **pkt_depkt_roundtrip** (`_partial`: aligned header).  Packetizer → Depacketizer delivers, for every
    contract-abiding input sequence and at every moment, exactly the accepted beats (payload and `last`
    unchanged, payload length ≥ 1 beat, back-to-back packets included), each carrying the header signal
    presented with the first beat of its packet.  With `header_roundtrip` this gives back the header fields. -/
theorem pkt_depkt_roundtrip_partial (c : PkCfg) (hc : AlignedCfg c) (ins : List (In HBeat))
    (hcomp : Compliant (pkdpk c) (pkdpk c).init none ins) :
    (pkdpk c).delivered (pkdpk c).init ins = annot c ((pkdpk c).accepted (pkdpk c).init ins) := by
  have h := rel_run_compliant (pkdpk c) (rtRel c) (pkdpk_step c hc) ins (pkdpk c).init none [] []
    ⟨[], by simp [pkRel, pkdpk, Elem.comp, packetizer, PkState.reset, endSt, frame, frameAux],
         by simp [dpRel, pkdpk, Elem.comp, depacketizer, PkState.reset, deframe, deframeAux, dfSt, Nat.two_pow_pos]⟩
    hcomp
  simp only [List.nil_append] at h
  obtain ⟨mid, h1, h2⟩ := h
  rw [h2.1]
  rcases pkRel_shape c _ _ _ _ h1 with hm | ⟨hend, t, k, _, hk, hm⟩
  · rw [hm]; exact deframe_frame c hc _
  · rw [hm]
    exact deframe_frame_ahead c hc _ _ hend (by simp [hdrWords])

/-- Non-vacuity (dw = 8, 2-byte header `a1 b2`): a contract-abiding producer, a consumer that stalls during the
    header; the delivered stream is header bytes, then the payload with `last` at the end; through the
    Depacketizer every payload beat comes back with header `0xb2a1`. -/
example :
    let c : PkCfg := ⟨1, 2⟩
    let i (d : Nat) (l rdy : Bool) : In HBeat := ⟨true, ⟨⟨d, 0xb2a1⟩, false, l⟩, rdy⟩
    let ins := [i 0x11 false true, i 0x11 false false, i 0x11 false true, i 0x11 false true, i 0x22 true true]
    AlignedCfg c ∧ Compliant (packetizer c) (packetizer c).init none ins ∧
    (packetizer c).delivered (packetizer c).init ins =
      [⟨0xa1, false, false⟩, ⟨0xb2, false, false⟩, ⟨0x11, false, false⟩, ⟨0x22, false, true⟩] ∧
    Compliant (pkdpk c) (pkdpk c).init none ins ∧
    (pkdpk c).delivered (pkdpk c).init ins =
      [⟨⟨0x11, 0xb2a1⟩, false, false⟩, ⟨⟨0x11, 0xb2a1⟩, false, false⟩, ⟨⟨0x22, 0xb2a1⟩, false, true⟩] := by
  refine ⟨⟨by decide, by decide, by decide⟩, compliant_of_B _ _ _ _ (by decide), by decide,
    compliant_of_B _ _ _ _ (by decide), by decide⟩

/-- Negative witness, finding C16-packetizer-unaligned-single-beat (dw = 16, 3-byte header `a1 b2 c3`): a
    single-beat packet `0x2211` is emitted as `b2a1, 11c3+last` again and again and is never accepted (the fix of
    C04-packetizer-flush-padding-unstable zeroes the padding lanes of genuine flush beats only, not of the first copy
    beat). -/
example :
    let c : PkCfg := ⟨2, 3⟩
    let ins : List (In HBeat) := List.replicate 4 ⟨true, ⟨⟨0x2211, 0xc3b2a1⟩, false, true⟩, true⟩
    (packetizer c).delivered (packetizer c).init ins =
      [⟨0xb2a1, false, false⟩, ⟨0x11c3, false, true⟩, ⟨0xb2a1, false, false⟩, ⟨0x11c3, false, true⟩] ∧
    (packetizer c).accepted (packetizer c).init ins = [] := by decide

/-- Negative witness, finding C16-packetizer-unaligned-bubble: one cycle with `valid = 0` (lines showing
    `0x9999`, `last = 1`) inside the packet `2211 4433 6655`: the third delivered beat carries the bubble's byte
    and `last`; the rest of the packet is sent as a new packet. -/
example :
    let c : PkCfg := ⟨2, 3⟩
    let i (v : Bool) (d : Nat) (l : Bool) : In HBeat := ⟨v, ⟨⟨d, 0xc3b2a1⟩, false, l⟩, true⟩
    (packetizer c).delivered (packetizer c).init
      [i true 0x2211 false, i true 0x2211 false, i false 0x9999 true, i true 0x4433 false, i true 0x6655 true,
       i false 0 false] =
      [⟨0xb2a1, false, false⟩, ⟨0x11c3, false, false⟩, ⟨0x0099, false, true⟩, ⟨0xb2a1, false, false⟩,
       ⟨0x00c3, false, true⟩] := by decide

/-- Negative witness, finding C16-header-shorter-than-beat (dw = 16, 1-byte header): both FSMs stay in their
    header state. -/
example :
    let c : PkCfg := ⟨2, 1⟩
    ((packetizer c).runFrom (packetizer c).init
        (List.replicate 5 ⟨true, ⟨⟨0x2211, 0xa1⟩, false, true⟩, true⟩)).st = .hdr ∧
    ((depacketizer c).runFrom (depacketizer c).init
        (List.replicate 5 ⟨true, ⟨0x2211, false, true⟩, true⟩)).st = .hdr := by decide

/-- Negative witness, finding C16-depacketizer-residue-end (dw = 16, 3-byte header): packet `b2a1, 11c3+last`
    (header `a1 b2 c3` + one payload byte) followed by packet `e2d1, 21f3, 4332, 0044+last` (header `d1 e2 f3`):
    the second packet is delivered with header `0x3221f3` and one beat short. -/
example :
    let c : PkCfg := ⟨2, 3⟩
    let i (d : Nat) (l : Bool) : In Nat := ⟨true, ⟨d, false, l⟩, true⟩
    (depacketizer c).delivered (depacketizer c).init
      [i 0xb2a1 false, i 0x11c3 true, i 0xe2d1 false, i 0x21f3 false, i 0x4332 false, i 0x0044 true] =
      [⟨⟨0xd111, 0xc3b2a1⟩, false, true⟩, ⟨⟨0x4443, 0x3221f3⟩, false, true⟩] := by decide

/-- **packetizer_bytes, header not a multiple of the data width** (`_partial`).
    `UnalignedCfg c`: `H % B = L ≠ 0` and `H ≥ B` (at least one whole header word) — every such data width and
    header length.  `UOk` (the hypotheses that exclude the three findings above, cycle by cycle): (1) the
    producer obeys the stream contract, (2) while it pauses *inside* a packet it keeps its data/last lines
    unchanged (excludes C16-packetizer-unaligned-bubble), (3) the first beat of a packet does not carry `last`
    (excludes C16-packetizer-unaligned-single-beat).  Nothing is assumed about `source.ready`.

    Then the delivered stream — with the `B − L` padding bytes of every `last` beat masked (`maskPad`; they show
    whatever the sink lines carry) — is `frameU accepted`: per packet the `W` header words, then the beat
    `header residue (L bytes) ++ low B−L bytes of payload beat 0`, then for every further payload beat `j` the beat
    `top L bytes of beat j−1 ++ low B−L bytes of beat j`, then the flush beat `top L bytes of the last beat` with
    `last` — i.e. byte for byte `header ++ payload ++ padding`; possibly followed by header words running ahead
    of a first beat on offer, or still missing the flush beat of the packet just accepted. -/
theorem packetizer_bytes_unaligned_partial (c : PkCfg) (hc : UnalignedCfg c) (ins : List (In HBeat))
    (hok : UOk (packetizer c) (packetizer c).init none ins) :
    let e := packetizer c
    let a := e.accepted e.init ins
    let d := e.delivered e.init ins
    d.map (maskPad c) = frameU c a ∨
    (∃ v k, uenvRun e e.init none ins = some v ∧ v.pend = true ∧ k ≤ c.W ∧
      d.map (maskPad c) = frameU c a ++ (hdrWords c (hdrOf c v.lines)).take k) ∨
    (∃ x, d.map (maskPad c) ++ [flushBeat c x] = frameU c a) := by
  intro e a d
  have h := rel_run_uok e (uRel c) (upacketizer_step c hc) ins e.init none [] []
    (by simp [uRel, e, packetizer, PkState.reset, uEnd, frameU, frameUAux, envAtStart]) hok
  simp only [List.nil_append] at h
  exact uRel_shape c _ _ _ _ h

/-- Non-vacuity (dw = 16, 3-byte header `a1 b2 c3`, the configuration of the negative witnesses): the two-beat
    packet `2211 4433` with a stalling consumer satisfies `UOk` and comes out as
    `a1 b2 | c3 11 | 22 33 | 44 pad`, `last` on the flush beat. -/
example :
    let c : PkCfg := ⟨2, 3⟩
    let i (v : Bool) (d : Nat) (l rdy : Bool) : In HBeat := ⟨v, ⟨⟨d, 0xc3b2a1⟩, false, l⟩, rdy⟩
    let ins := [i true 0x2211 false true, i true 0x2211 false false, i true 0x2211 false true,
                i false 0x2211 false true, i true 0x4433 true true, i false 0x4433 true true]
    UnalignedCfg c ∧ UOk (packetizer c) (packetizer c).init none ins ∧
    ((packetizer c).delivered (packetizer c).init ins).map (maskPad c) =
      [⟨0xb2a1, false, false⟩, ⟨0x11c3, false, false⟩, ⟨0x3322, false, false⟩, ⟨0x44, false, true⟩] ∧
    frameU c ((packetizer c).accepted (packetizer c).init ins) =
      [⟨0xb2a1, false, false⟩, ⟨0x11c3, false, false⟩, ⟨0x3322, false, false⟩, ⟨0x44, false, true⟩] := by
  refine ⟨⟨by decide, by decide, by decide⟩, uok_of_B _ _ _ _ (by decide), by decide, by decide⟩

/-- **depacketizer_bytes, header not a multiple of the data width** (`_partial`).  For every input sequence (no
    contract needed) such that no accepted header beat and no residue beat carries `last` — every packet has at
    least `W + 2` beats; this excludes finding C16-depacketizer-residue-end — the delivered beats are
    `deframeU accepted`: the header is the first `H` bytes of the packet (the `W` header beats and the low `L`
    bytes of the next one), every following whole beat of payload (`top B−L bytes of beat j ++ low L bytes of
    beat j+1`) is delivered with that header, `last` with the packet's last beat; the `B − L` trailing bytes of
    the last beat (the Packetizer's padding) are dropped. -/
theorem depacketizer_bytes_unaligned_partial (c : PkCfg) (hc : UnalignedCfg c) (ins : List (In Nat))
    (hwf : udWellFormed c (.hdr 0 0) ((depacketizer c).accepted (depacketizer c).init ins)) :
    (depacketizer c).delivered (depacketizer c).init ins =
      deframeU c ((depacketizer c).accepted (depacketizer c).init ins) :=
  (udepacketizer_run c hc ins hwf).1

/-- **pkt_depkt_roundtrip, header not a multiple of the data width** (`_partial`, hypotheses `UOk` as for
    `packetizer_bytes_unaligned_partial`).  Packetizer → Depacketizer delivers exactly the accepted beats, payload
    and `last` unchanged, each with the header presented with the first beat of its packet — except that the most
    recently accepted beat may still be in flight (half of it sits in `sink_d`): `delivered ++ tail = annot accepted`
    with `tail` of length at most 1. -/
theorem pkt_depkt_roundtrip_unaligned_partial (c : PkCfg) (hc : UnalignedCfg c) (ins : List (In HBeat))
    (hok : UOk (pkdpk c) (pkdpk c).init none ins) :
    ∃ tail, (pkdpk c).delivered (pkdpk c).init ins ++ tail = annot c ((pkdpk c).accepted (pkdpk c).init ins) ∧
      tail.length ≤ 1 := by
  have h := rel_run_uok (pkdpk c) (urtRel c) (upkdpk_step c hc) ins (pkdpk c).init none [] []
    (urtRel_init c) hok
  simp only [List.nil_append] at h
  exact urtRel_concl c hc _ _ _ _ h

/-- Non-vacuity of the unaligned round trip (dw = 16, 3-byte header): the packet `2211 4433 6655` comes back
    complete, every beat with header `0xc3b2a1`. -/
example :
    let c : PkCfg := ⟨2, 3⟩
    let i (v : Bool) (d : Nat) (l rdy : Bool) : In HBeat := ⟨v, ⟨⟨d, 0xc3b2a1⟩, false, l⟩, rdy⟩
    let ins := [i true 0x2211 false true, i true 0x2211 false true,
                i false 0x2211 false true, i true 0x4433 false false, i true 0x4433 false true,
                i true 0x6655 true true, i false 0x6655 true true, i false 0 false true]
    UOk (pkdpk c) (pkdpk c).init none ins ∧
    (pkdpk c).delivered (pkdpk c).init ins =
      [⟨⟨0x2211, 0xc3b2a1⟩, false, false⟩, ⟨⟨0x4433, 0xc3b2a1⟩, false, false⟩, ⟨⟨0x6655, 0xc3b2a1⟩, false, true⟩] := by
  refine ⟨uok_of_B _ _ _ _ (by decide), by decide⟩

/-! ### The unaligned theorems at the exact boundary of the findings

  `UOk2` / `udWellFormed2` are implied by `UOk` / `udWellFormed` (`uok2_of_uok_init`,
  `udWellFormed2_of_udWellFormed`), so the three theorems below subsume the three above. -/

/-- **packetizer_bytes, unaligned, tight** (`_partial`).  `UOk2`, cycle by cycle: (1) stream contract, (3) no
    single-beat packet — as before — and instead of "all lines held in every pause inside a packet" only
    (2) in a cycle with `valid = 0` AND `source.ready = 1` strictly inside a packet, the `last` line is low and the
    TOP `L` bytes of the data line equal those of the beat accepted last.
    Nothing is required in cycles with `ready = 0`, of the low `B − L` data bytes, of the header lines, or of
    pauses during IDLE / HEADER-SEND (the code samples `sink_d` on every `source.ready`, but reads only
    `sink_d.last` and the top `L` bytes, and only in UNALIGNED-DATA-COPY).  Same conclusion as
    `packetizer_bytes_unaligned_partial`. -/
theorem packetizer_bytes_unaligned_tight_partial (c : PkCfg) (hc : UnalignedCfg c) (ins : List (In HBeat))
    (hok : UOk2 c (packetizer c) (packetizer c).init none ins) :
    let e := packetizer c
    let a := e.accepted e.init ins
    let d := e.delivered e.init ins
    d.map (maskPad c) = frameU c a ∨
    (∃ v k, uenvRun2 e e.init none ins = some v ∧ v.pend = true ∧ k ≤ c.W ∧
      d.map (maskPad c) = frameU c a ++ (hdrWords c (hdrOf c v.lines)).take k) ∨
    (∃ x, d.map (maskPad c) ++ [flushBeat c x] = frameU c a) :=
  packetizer_bytes_unaligned_tight c hc ins hok

/-- The old hypothesis implies the tight one (for any machine `e` whose `ready` defines acceptance). -/
theorem uok_implies_uok2 {β σ : Type} (c : PkCfg) (e : Elem HBeat β σ) (ins : List (In HBeat))
    (h : UOk e e.init none ins) : UOk2 c e e.init none ins := uok2_of_uok_init c e ins h

/-- **Exactness of condition (2)**, for every unaligned configuration: from UNALIGNED-DATA-COPY inside a packet
    (`p` = the beat accepted last), after ONE sampled pause cycle showing lines `t`, the next beat `x` — offered and
    taken — is the right one **iff** `t.last = 0` and the top `L` bytes of `t` equal those of `p`. -/
theorem packetizer_bubble_condition_exact (c : PkCfg) (hc : UnalignedCfg c) (sr cnt dd p : Nat) (t x : Tok HBeat)
    (hp : p < 2 ^ c.dw) :
    let e := packetizer c
    let s : PkState := { st := .ucopy, sr := sr, count := cnt, fromIdle := false, dData := dd, dLast := false }
    e.delNow s ⟨false, t, true⟩ = [] ∧ e.accNow s ⟨false, t, true⟩ = [] ∧
    (e.delNow (e.step s ⟨false, t, true⟩) ⟨true, x, true⟩ =
        [{ data := ubeat c (resid c p) (sinkData c x), first := false, last := false }] ↔
      (t.last = false ∧ resid c (sinkData c t) = resid c p)) :=
  upacketizer_bubble_exact c hc sr cnt dd p t x hp

/-- Non-vacuity / newly covered: pause cycles in which ALL lines change while `ready = 0` and the low data byte
    and the header lines change while `ready = 1`: the old `UOk` is false, `UOk2` holds, framing correct.
    (More boundary examples, incl. the two kernel-checked violations of condition (2), in
    `LitexProofs/Packet/UnalignedTightEx.lean`.) -/
example :
    let c : PkCfg := ⟨2, 3⟩
    let e := packetizer c
    let i (v : Bool) (d h : Nat) (l rdy : Bool) : In HBeat := ⟨v, ⟨⟨d, h⟩, false, l⟩, rdy⟩
    let ins := [i true 0x2211 0xc3b2a1 false true, i true 0x2211 0xc3b2a1 false true,
                i false 0x9999 0 true false, i false 0x2299 0 false true, i false 0x8888 0 true false,
                i true 0x4433 0xc3b2a1 false true, i true 0x6655 0xc3b2a1 true true, i false 0 0 false true]
    UOk2 c e e.init none ins ∧ uokB e e.init none ins = false ∧
    (e.delivered e.init ins).map (maskPad c) = frameU c (e.accepted e.init ins) := by
  refine ⟨uok2_of_B _ _ _ _ _ (by decide), by decide, by decide⟩

/-- **depacketizer_bytes, unaligned, tight** (`_partial`).  `udWellFormed2` forbids `last` only on the FINAL header
    beat (`W − 1`) and on the residue beat; a `last` on header beats `0 … W − 2` is ignored by the code exactly as the
    aligned Depacketizer ignores it (`sink_d` is overwritten by every accepted beat).  Both remaining exclusions
    are necessary (kernel-checked witnesses in `LitexProofs/Packet/UnalignedDepackTightEx.lean`: `last` on header
    beat `W − 1` enters UNALIGNED-DATA-COPY with `sink_d.last = 1` and emits a spurious last beat — unless the
    consumer happens to stall in that very cycle; `last` on the residue beat is finding
    C16-depacketizer-residue-end). -/
theorem depacketizer_bytes_unaligned_tight_partial (c : PkCfg) (hc : UnalignedCfg c) (ins : List (In Nat))
    (hwf : udWellFormed2 c (.hdr 0 0) ((depacketizer c).accepted (depacketizer c).init ins)) :
    (depacketizer c).delivered (depacketizer c).init ins =
      deframeU c ((depacketizer c).accepted (depacketizer c).init ins) :=
  depacketizer_bytes_unaligned_tight c hc ins hwf

theorem udWellFormed_implies_tight (c : PkCfg) (l : List (Tok Nat)) (st : UDSt)
    (h : udWellFormed c st l) : udWellFormed2 c st l := udWellFormed2_of_udWellFormed c l st h

/-- Non-vacuity / newly covered (dw = 16, 5-byte header, `W = 2`): `last` on header beat 0 is ignored. -/
example :
    let c : PkCfg := ⟨2, 5⟩
    let i (d : Nat) (l : Bool) : In Nat := ⟨true, ⟨d, false, l⟩, true⟩
    let ins := [i 0xb2a1 true, i 0xd4c3 false, i 0x11e5 false, i 0x3322 false, i 0x0044 true]
    let acc := (depacketizer c).accepted (depacketizer c).init ins
    UnalignedCfg c ∧ udWellFormed2 c (.hdr 0 0) acc ∧ ¬ udWellFormed c (.hdr 0 0) acc ∧
    (depacketizer c).delivered (depacketizer c).init ins =
      [⟨⟨0x2211, 0xe5d4c3b2a1⟩, false, false⟩, ⟨⟨0x4433, 0xe5d4c3b2a1⟩, false, true⟩] := by
  refine ⟨⟨by decide, by decide, by decide⟩, udWf2_of_B _ _ _ (by decide), ?_, by decide⟩
  rw [← udWfB_iff]; decide

/-- **pkt_depkt_roundtrip, unaligned, tight** (`_partial`, hypothesis `UOk2` on the closed system: `ready` is the
    Depacketizer's `source.ready`; strictly inside a packet that is what the Packetizer sees — `urt_ready`). -/
theorem pkt_depkt_roundtrip_unaligned_tight_partial (c : PkCfg) (hc : UnalignedCfg c) (ins : List (In HBeat))
    (hok : UOk2 c (pkdpk c) (pkdpk c).init none ins) :
    ∃ tail, (pkdpk c).delivered (pkdpk c).init ins ++ tail = annot c ((pkdpk c).accepted (pkdpk c).init ins) ∧
      tail.length ≤ 1 :=
  pkt_depkt_roundtrip_unaligned_tight c hc ins hok

/-
  Not covered by any theorem (findings, see the negative witnesses above): headers shorter than one beat
  (`H < B`, `header_words = 0`), single-beat packets and producer bubbles with changing lines through an unaligned
  Packetizer, packets ending inside the residue beat at an unaligned Depacketizer.  These regions are modelled
  bit-exactly and compared with the code exhaustively in the correspondence.
-/

/-- **Byte layout** (aligned header): the `W` header beats, flattened to bytes lane 0 first, are the header bytes
    `0 … H-1` of the header signal (whose fields sit where `encode_layout` says). -/
theorem packetizer_header_bytes (c : PkCfg) (hc : AlignedCfg c) (h : Nat) :
    beatBytes c (hdrWords c h) = toBytes c.H h := hdrWords_bytes c hc h

/-- … so a framed packet reads, byte by byte: `header bytes ++ payload bytes of beat 1 ++ …`. -/
theorem frame_bytes (c : PkCfg) (hc : AlignedCfg c) (t : Tok HBeat) (r : List (Tok HBeat)) :
    beatBytes c (frame c (t :: r)) =
      toBytes c.H (hdrOf c t) ++ toBytes c.B (t.data.data % 2 ^ c.dw) ++ beatBytes c (frameAux c t.last r) :=
  frame_bytes_cons c hc t r

/-- The framing functions are inverse to each other on whole packets (pure statement). -/
theorem deframe_frame_eq (c : PkCfg) (hc : AlignedCfg c) (a : List (Tok HBeat)) :
    deframe c (frame c a) = annot c a := deframe_frame c hc a

/-- **`error` pass-through** of Packetizer and Depacketizer (`source.error.eq(sink.error)` when both endpoints have
    the field): a combinational wire beside the FSM — in every cycle and every state the last output of the
    wrapped machine is the sink's `error` input of that same cycle (not delayed with the realigned data); with a
    source-only `error` field it stays 0. -/
theorem error_passthrough {σ : Type} (m : Litex.Driver.NumMachine σ) (ew : Nat) (both : Bool) (s s' : σ)
    (ins o : List Nat) (e : Nat) (h : (withError m ew both).step s (ins ++ [e]) = some (s', o)) :
    o.getLast? = some (if both then e % 2 ^ ew else 0) ∧
    ∃ o', m.step s ins = some (s', o') ∧ o = o' ++ [errorWire ew both e] := by
  simp only [withError, List.getLast?_append, List.getLast?_singleton, Option.some_or,
    List.dropLast_concat] at h
  cases hm : m.step s ins with
  | none => simp [hm] at h
  | some r =>
    obtain ⟨s1, o1⟩ := r
    simp only [hm, Option.map_some, Option.some.injEq, Prod.mk.injEq] at h
    obtain ⟨h1, h2⟩ := h
    subst h1; subst h2
    exact ⟨by simp [errorWire], o1, rfl, rfl⟩

end Litex.C16
