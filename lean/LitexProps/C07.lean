import LitexProofs.Mem
/-
  C07 — Wishbone adapters and memories are transparent to the master (flat byte-addressable memory).
-/
namespace Litex.C07
open Litex

/-- The specification memory: replaying masked writes in order gives, at every byte, the data of the last write
    that enabled that byte, or the initial content. -/
theorem mem_last_enabled_write_wins (init : Mem) (ws : List Mem.Write) (a : Nat) :
    init.applyAll ws a = Mem.lastEnabled init ws a := Mem.applyAll_eq_lastEnabled init ws a

end Litex.C07
