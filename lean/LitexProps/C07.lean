import LitexProofs.Mem
import LitexProofs.Wishbone.Sram
import LitexProofs.Wishbone.SramBurst
import LitexProofs.Wishbone.Conv
import LitexProofs.Wishbone.ConvBurst
import LitexProofs.Wishbone.Remap
import LitexProofs.Wishbone.ToCsr
import LitexProofs.Wishbone.Cache
import LitexProofs.Wishbone.ConvLive
import LitexProofs.Wishbone.CacheLive
import LitexProofs.Wishbone.BurstWait
import LitexProofs.Wishbone.ToCsrBankSide
import LitexProofs.Wishbone.AddrGlue
/-
  C07 — Wishbone adapters and memories are transparent to the master: flat byte-addressable memory semantics.

  Vocabulary (LitexModel/Wishbone/SramBus.lean, LitexModel/Mem.lean):
  * `ins : List (Req × ω)` is an arbitrary cycle-by-cycle history of what the master drives (`Req`: cyc, stb, we,
    adr, sel, dat_w, cti, bte — garbage allowed whenever it does not strobe) and of what the environment chooses
    (`ω`: nothing for an SRAM, the slave's latency/garbage oracle for an adapter).
  * `Classic m ins`: the master follows the classic handshake (a presented strobe is held unchanged until the
    cycle in which `ack` is seen); idle gaps of any length, back-to-back requests, `cyc` without `stb` are free.
  * `ops m f ins`: the bus cycles completed during the run (cycles with `cyc ∧ stb ∧ ack`), with the data
    written or the data returned; `f` is the device's address decoding.
  * `Consistent nb M0 history`: replayed in order on a byte memory starting from `M0`, every write updates
    exactly its selected bytes and every read returned, on each selected lane, the current content —
    by `mem_last_enabled_write_wins` that is the byte of the last write that enabled it, or the initial content.
  * `AckOnlyStrobed m ins`: in no cycle of the run is `ack` given while no strobe is presented.
-/
namespace Litex.C07
open Litex Litex.WbMem

/-- The specification memory: replaying masked writes in order gives, at every byte, the data of the last write
    that enabled that byte, or the initial content. -/
theorem mem_last_enabled_write_wins (init : Mem) (ws : List Mem.Write) (a : Nat) :
    init.applyAll ws a = Mem.lastEnabled init ws a := Mem.applyAll_eq_lastEnabled init ws a

/-! ## SRAM, classic cycles -/

/-- **`wishbone.SRAM` is a flat byte memory** (any width, any depth, any initial content): for every history of
    a protocol-following master made of classic cycles (anything but `cti = 2` on a bursting bus), with
    arbitrary gaps, the completed cycles are a consistent byte-memory history — reads return per selected byte
    the last enabled write or the initial content, writes touch only the selected bytes of the addressed word —
    and `ack` is never given without a strobe. -/
theorem sram_refines_mem (c : SramCfg) (hd : 0 < c.depth) (hrw : c.readOnly = false) (init : List Byte)
    (ins : List (Req × Unit)) (hm : Classic (sram c init) ins) (hc : ∀ i ∈ ins, Sram.NoBurst c i) :
    Consistent c.nb (Mem.ofList (Sram.initMem c init)) (ops (sram c init) c.idx ins) ∧
    AckOnlyStrobed (sram c init) ins := by
  have h := refines_of_inv (sram c init) c.idx c.nb (Sram.keep c) (Sram.NoBurst c) (Sram.Inv c)
    (fun s p M i hi hh hp => Sram.step_ok c hd init s p M i hi hh hp) ins (sram c init).init none _
    (Sram.inv_init c init) hm hc
  have hk : (opsFrom (sram c init) c.idx (sram c init).init ins).filter (Sram.keep c) =
      opsFrom (sram c init) c.idx (sram c init).init ins := by
    apply List.filter_eq_self.mpr; intro op _; simp [Sram.keep, hrw]
  rw [hk] at h
  exact h

/-- **Read-only memories ignore writes**: every completed read of a `read_only` SRAM returns the initial content
    on every selected lane, whatever writes the history contains. -/
theorem sram_ro_ignores_writes (c : SramCfg) (hd : 0 < c.depth) (hro : c.readOnly = true) (init : List Byte)
    (ins : List (Req × Unit)) (hm : Classic (sram c init) ins) (hc : ∀ i ∈ ins, Sram.NoBurst c i) :
    (∀ op ∈ ops (sram c init) c.idx ins, op.we = false → op.readOk c.nb (Mem.ofList (Sram.initMem c init))) ∧
    AckOnlyStrobed (sram c init) ins := by
  have h := refines_of_inv (sram c init) c.idx c.nb (Sram.keep c) (Sram.NoBurst c) (Sram.Inv c)
    (fun s p M i hi hh hp => Sram.step_ok c hd init s p M i hi hh hp) ins (sram c init).init none _
    (Sram.inv_init c init) hm hc
  refine ⟨?_, h.2⟩
  have hr := (consistent_reads c.nb _ _ (by
    intro op hop; have := (List.mem_filter.mp hop).2; simpa [Sram.keep, hro] using this)).mp h.1
  intro op hop hwe
  exact hr op (List.mem_filter.mpr ⟨hop, by simp [Sram.keep, hwe]⟩)

/-- **One acknowledge per strobe phase**: a classic strobe presented while `ack` is low is acknowledged in the
    very next cycle, and `ack` is low again in the cycle after an acknowledge — so with `sram_refines_mem`
    (no ack without strobe) each request of a protocol-following master is acknowledged exactly once. -/
theorem sram_one_ack_per_request (c : SramCfg) (init : List Byte) (s : SramState) (r : Req)
    (hb : Sram.adrBurst c r = false) :
    ((sram c init).next s (r, ())).ack = (r.active && !s.ack) := by
  simp [sram, Sram.next, hb]

/-! Non-vacuity: a 16-bit, 4-word SRAM; partial write (lane 1 only), read back, idle gap, full read. -/
example :
    let c : SramCfg := { nb := 2, depth := 4, aw := 3, readOnly := false, burst := false }
    let w : Req := { cyc := true, stb := true, we := true, adr := 6, sel := [false, true], dat := [0x11, 0x22], cti := 0, bte := 0 }
    let r : Req := { w with we := false, sel := [true, true], dat := [] }
    let ins : List (Req × Unit) := [(w, ()), (w, ()), (Req.idle, ()), (r, ()), (r, ())]
    Classic (sram c [1, 2, 3, 4, 5, 6, 7, 8]) ins ∧
    ops (sram c [1, 2, 3, 4, 5, 6, 7, 8]) c.idx ins =
      [{ adr := 2, we := true, sel := [false, true], dat := [0x11, 0x22] },
       { adr := 2, we := false, sel := [true, true], dat := [5, 0x22] }] := by decide

/-! ## SRAM, burst cycles

  `BurstMaster m maxWrap ins`: the master follows the Wishbone registered-feedback burst rules through the whole
  run (LitexModel/Wishbone/SramBurst.lean): every beat is held until acknowledged; after an acknowledged
  incrementing beat (`cti = 2`) the next beat follows in the next cycle with `cyc`/`stb` still asserted, the same
  `we`/`bte`, the next linear/wrapping address and `cti ∈ {2, 7}`; bursts end with `cti = 7`; classic, constant
  address and lone end-of-burst cycles are single beats; arbitrary gaps between bursts.  `maxWrap = true`
  additionally limits a wrapping burst to its wrap length (4/8/16 beats). -/

/-- **`wishbone.SRAM` with the burst address counter is a flat byte memory** for incrementing bursts of any
    length and wrapping bursts up to the wrap length, reads and writes, partial `sel` per beat, mixed with
    classic cycles and gaps (`_partial`: hypothesis `maxWrap`).

    Full statement (fails on the code, witness below, finding C07-sram-wrap-burst-overrun): the same with
    `BurstMaster (sram c init) false ins` — wrapping bursts of any length. -/
theorem sram_burst_refines_mem_partial (c : SramCfg) (hd : 0 < c.depth) (hrw : c.readOnly = false)
    (hb : c.burst = true) (haw : 4 ≤ c.aw) (init : List Byte) (ins : List (Req × Unit))
    (hm : BurstMaster (sram c init) true ins) (hadr : ∀ i ∈ ins, i.1.adr < 2 ^ c.aw) :
    Consistent c.nb (Mem.ofList (Sram.initMem c init)) (ops (sram c init) c.idx ins) ∧
    AckOnlyStrobed (sram c init) ins :=
  Sram.burst_run c hd hrw hb haw init ins _ .free _ (Sram.binv_init c init) hm hadr

/-- Non-vacuity: 8-bit, 8-word bursting SRAM; a wrap-4 write burst of 4 beats from address 6 (6,7,4,5), then a
    linear read burst of 3 beats from 4: one beat per cycle after the first. -/
example :
    let c : SramCfg := { nb := 1, depth := 8, aw := 4, readOnly := false, burst := true }
    let w (a d cti : Nat) : Req × Unit :=
      ({ cyc := true, stb := true, we := true, adr := a, sel := [true], dat := [d], cti := cti, bte := 1 }, ())
    let r (a cti : Nat) : Req × Unit :=
      ({ cyc := true, stb := true, we := false, adr := a, sel := [true], dat := [], cti := cti, bte := 0 }, ())
    let ins := [w 6 0x66 2, w 6 0x66 2, w 7 0x77 2, w 4 0x44 2, w 5 0x55 7, (Req.idle, ()),
                r 4 2, r 4 2, r 5 2, r 6 7]
    BurstMaster (sram c []) true ins ∧
    (ops (sram c []) c.idx ins).map (fun op => (op.adr, op.we, op.dat)) =
      [(6, true, [0x66]), (7, true, [0x77]), (4, true, [0x44]), (5, true, [0x55]),
       (4, false, [0x44]), (5, false, [0x55]), (6, false, [0x66])] := by decide

/-- Negative witness for the excluded region: a wrap-4 read burst of 6 beats from address 2 (2,3,0,1,2,3) over
    content `mem[a] = a`: beats 5 and 6 return words 6 and 7 — not a flat-memory history. -/
example :
    let c : SramCfg := { nb := 1, depth := 8, aw := 4, readOnly := false, burst := true }
    let r (a cti : Nat) : Req × Unit :=
      ({ cyc := true, stb := true, we := false, adr := a, sel := [true], dat := [], cti := cti, bte := 1 }, ())
    let ins := [r 2 2, r 2 2, r 3 2, r 0 2, r 1 2, r 2 2, r 3 7]
    BurstMaster (sram c [0, 1, 2, 3, 4, 5, 6, 7]) false ins ∧
    (ops (sram c [0, 1, 2, 3, 4, 5, 6, 7]) c.idx ins).map (fun op => (op.adr, op.dat)) =
      [(2, [2]), (3, [3]), (0, [0]), (1, [1]), (2, [6]), (3, [7])] ∧
    ¬ Consistent c.nb (Mem.ofList [0, 1, 2, 3, 4, 5, 6, 7]) (ops (sram c [0, 1, 2, 3, 4, 5, 6, 7]) c.idx ins) := by
  decide

/-! ### Bursts with master wait states

  `BurstMasterW m maxWrap ins` (LitexModel/Wishbone/SramBurst.lean): as `BurstMaster`, and between two beats of a
  burst the master may also present no strobe — a wait state (`stb` low with `cyc` held; `we`/`adr`/`sel`/`dat`/
  `cti`/`bte` held *or* garbage), for any number of cycles, or the abandonment of the burst (`cyc` dropped).
  Afterwards it is free: it resumes the burst at the next address, starts another burst (other `we`, other
  address, other `bte`) or a classic cycle, or idles.  Ending a burst early with `cti = 7` and changing `we`
  between back-to-back bursts are already part of `BurstMaster`.  `BurstMaster` is the special case without
  such cycles (`BurstFrom.toW`). -/

/-- **`wishbone.SRAM` with the burst address counter is a flat byte memory for burst masters that insert wait
    states or abandon bursts** (`_partial`: `maxWrap`, as `sram_burst_refines_mem_partial`).  A cycle without strobe
    resets the address counter; the next beat is served at the address the master presents and the counter is
    latched again from it — so no beat is transferred in a wait state and none is served at a stale counter
    value (seeded change C07-r4m2: the counter advanced during wait states).

    The acknowledge statement is `AckStrobedOrPre`: `ack` is given to a presented strobe, or without one only in
    the cycle right after an acknowledged `cti = 2` beat (the registered-feedback pre-acknowledge, which
    completes no cycle: `ops` counts strobed cycles only).  The strict `AckOnlyStrobed` does *not* hold for
    these masters — witness below. -/
theorem sram_burst_waits_refines_mem_partial (c : SramCfg) (hd : 0 < c.depth) (hrw : c.readOnly = false)
    (hb : c.burst = true) (haw : 4 ≤ c.aw) (init : List Byte) (ins : List (Req × Unit))
    (hm : BurstMasterW (sram c init) true ins) (hadr : ∀ i ∈ ins, i.1.adr < 2 ^ c.aw) :
    Consistent c.nb (Mem.ofList (Sram.initMem c init)) (ops (sram c init) c.idx ins) ∧
    AckStrobedOrPre (sram c init) ins :=
  (Sram.brefines c hd hrw hb haw init).runW (Sram.waitOk c init) ins _ .free _ (Sram.binv_init c init) hm hadr

/-- Every `BurstMaster` history is a `BurstMasterW` history. -/
theorem burstMaster_is_burstMasterW {ω τ : Type} (m : Slave ω τ) (mw : Bool) (ins : List (Req × ω))
    (h : BurstMaster m mw ins) : BurstMasterW m mw ins := BurstFrom.toW m mw ins _ _ h

/-- Non-vacuity (the scenario of seeded change C07-r4m2): 8-bit, 16-word bursting SRAM.  Linear write burst to
    4, 5, 6, 7 with two wait states after the second beat (`stb` low, `cyc`/`cti`/`adr` of the coming beat held),
    one wait state with garbage on the lines after the third, then a read burst 4, 5 abandoned by dropping `cyc`
    and a read burst 6, 7 ended with `cti = 7`: every beat lands at / comes from its own address. -/
example :
    let c : SramCfg := { nb := 1, depth := 16, aw := 4, readOnly := false, burst := true }
    let q (stb we : Bool) (a d cti : Nat) : Req × Unit :=
      ({ cyc := true, stb := stb, we := we, adr := a, sel := [true], dat := [d], cti := cti, bte := 0 }, ())
    let w := q true true
    let r (a cti : Nat) := q true false a 0 cti
    let ins := [w 4 0x44 2, w 4 0x44 2, w 5 0x55 2, q false true 6 0x66 2, q false true 6 0x66 2, w 6 0x66 2,
                w 6 0x66 2, q false false 13 0x99 7, w 7 0x77 7, w 7 0x77 7,
                r 4 2, r 4 2, r 5 2, (Req.idle, ()), r 6 2, r 6 2, r 7 7]
    BurstMasterW (sram c []) true ins ∧ ¬ BurstMaster (sram c []) true ins ∧
    (ops (sram c []) c.idx ins).map (fun op => (op.adr, op.we, op.dat)) =
      [(4, true, [0x44]), (5, true, [0x55]), (6, true, [0x66]), (7, true, [0x77]),
       (4, false, [0x44]), (5, false, [0x55]), (6, false, [0x66]), (7, false, [0x77])] ∧
    AckStrobedOrPre (sram c []) ins := by decide

/-- The strict acknowledge statement fails with wait states: a read beat with `cti = 2`, acknowledged, followed
    by a wait state — `ack` is still up in the wait state (it completes no cycle). -/
example :
    let c : SramCfg := { nb := 1, depth := 16, aw := 4, readOnly := false, burst := true }
    let q (stb : Bool) : Req × Unit :=
      ({ cyc := true, stb := stb, we := false, adr := 4, sel := [true], dat := [], cti := 2, bte := 0 }, ())
    let ins := [q true, q true, q false]
    BurstMasterW (sram c []) true ins ∧ ¬ AckOnlyStrobed (sram c []) ins ∧
    (ops (sram c []) c.idx ins).length = 1 := by decide

/-! ## Width converters in front of a byte memory with arbitrary latency

  `latMem nb M0` is the abstract slave: a byte memory that acknowledges a presented strobe in a cycle chosen by
  the environment (`Lat.ack`, part of the input history — every slave latency, including zero and unbounded
  waits) and drives garbage (`Lat.junk`) on lanes it was not asked for. -/

/-- **`wishbone.DownConverter` is transparent** — every ratio `2^cbits`, every slave width, every partial
    `sel` (sub-words with no byte selected are skipped), every slave latency, every burst tag on the master
    side: the master sees a flat byte memory and is never acknowledged without a strobe. -/
theorem down_refines (c : DownCfg) (M0 : Mem) (ins : List (Req × Lat))
    (hm : Classic ((downConv c).over (latMem c.nbs M0)) ins) :
    Consistent c.nbm M0 (ops ((downConv c).over (latMem c.nbs M0)) id ins) ∧
    AckOnlyStrobed ((downConv c).over (latMem c.nbs M0)) ins :=
  (Down.refines c (latMem c.nbs M0) id id (fun t _ M => t = M) (fun _ _ _ => rfl) (fun _ => True) (fun _ => True)
      (fun _ _ _ _ => trivial) (latMem_refines c.nbs M0)).run M0
    ⟨Down.ratio_pos c, rfl, rfl⟩ ins hm (fun _ _ => trivial)

/-- **`wishbone.UpConverter` is transparent** — every ratio, every narrow width (`nbm > 0` byte lanes),
    every `sel`, every slave latency. -/
theorem up_refines (c : UpCfg) (hpos : 0 < c.nbm) (M0 : Mem) (ins : List (Req × Lat))
    (hm : Classic ((upConv c).over (latMem c.nbs M0)) ins) :
    Consistent c.nbm M0 (ops ((upConv c).over (latMem c.nbs M0)) id ins) ∧
    AckOnlyStrobed ((upConv c).over (latMem c.nbs M0)) ins :=
  (Up.refines c (latMem c.nbs M0) id id (fun t _ M => t = M) hpos
      (fun a => by simp only [id]; rw [Nat.mul_comm]; exact (Nat.div_add_mod a c.ratio).symm)
      (fun _ => True) (fun _ => True) (fun _ _ _ => trivial) (latMem_refines c.nbs M0)).run M0
    rfl ins hm (fun _ _ => trivial)

/-- The acknowledge a master gets through the down-converter is exactly the completion of its last sub-word
    (slave acknowledge or skip while `count = ratio − 1`): one acknowledge per request. -/
theorem down_ack_iff (c : DownCfg) (s : DownState) (r : Req) (rsp : Rsp) :
    (Down.toMaster c s r rsp).ack = (r.active && (rsp.ack || Down.skip c s r) && Down.done c s) := rfl

/-! ## Remapper -/

/-- **`wishbone.Remapper` is transparent up to its address map**: through the remapper the master sees the
    slave's byte memory at the translated word address `Remap.mapAdr c adr` (origin/mask, then the last active
    region) — for every origin, size, region list, signal widths and slave latency. -/
theorem remap_refines (c : RemapCfg) (nb : Nat) (M0 : Mem) (ins : List (Req × Lat))
    (hm : Classic ((remapper c).over (latMem nb M0)) ins) :
    Consistent nb M0 (ops ((remapper c).over (latMem nb M0)) (Remap.mapAdr c) ins) ∧
    AckOnlyStrobed ((remapper c).over (latMem nb M0)) ins := by
  rw [remapper_eq] at hm ⊢
  exact (AdrAdapter.refines (Remap.mapAdr c) (latMem nb M0) id nb (fun t _ M => t = M) (fun _ => True) (fun _ => True)
      (fun _ _ _ => trivial) (latMem_refines nb M0)).run M0 rfl ins hm (fun _ _ => trivial)

/-- What the map is, without regions: `(origin >> shift) | (adr & mask)` truncated to the slave address width. -/
theorem remap_origin_mask (c : RemapCfg) (h : c.regions = []) (a : Nat) :
    Remap.mapAdr c a = ((c.origin >>> c.shift) ||| (a % 2 ^ c.aw % 2 ^ (Nat.log2 c.size - c.shift))) % 2 ^ c.saw :=
  Remap.mapAdr_no_regions c h a

/-- What the map is, with regions: an address whose origin-remapped byte address lies in source region `g` (and
    in no later one) goes to `g.dstOrigin + (src_adr − g.srcOrigin)`, as a word address. -/
theorem remap_region (c : RemapCfg) (l1 l2 : List RemapRegion) (g : RemapRegion) (h : c.regions = l1 ++ g :: l2)
    (a : Nat) (hg : Remap.regionActive c g a = true) (h2 : ∀ g' ∈ l2, Remap.regionActive c g' a = false) :
    Remap.mapAdr c a =
      (((g.dstOrigin + Remap.srcAdr c a - g.srcOrigin) % 2 ^ Remap.tmpBits c) >>> c.shift) % 2 ^ c.saw := by
  simp only [Remap.mapAdr, h, Remap.applyRegions_last c a l1 l2 g _ hg h2, Remap.regionAdr]

/-- The region test is made on the exact byte address for every bus width (the temporaries are
    `len(adr) + shift + 1` bits wide — the repaired defect C07-remapper-wide-bus-region): a region is active
    iff `src.origin ≤ adr_remap·2^shift < src.origin + src.size`. -/
theorem remap_region_test_exact (c : RemapCfg) (ho : c.origin >>> c.shift < 2 ^ c.aw) (g : RemapRegion) (a : Nat) :
    Remap.regionActive c g a =
      (decide (g.srcOrigin ≤ Remap.adrRemap c a * 2 ^ c.shift) &&
       decide (Remap.adrRemap c a * 2 ^ c.shift < g.srcOrigin + g.srcSize)) := by
  simp only [Remap.regionActive, Remap.srcAdr_exact c ho]

/-- 64-bit bus, region `0x9000_0000 → 0x1000_0000` (the witness of the repaired defect): translated. -/
example :
    let c : RemapCfg := { aw := 29, saw := 29, shift := 3, origin := 0, size := 2 ^ 32,
                          regions := [{ srcOrigin := 0x90000000, srcSize := 0x1000, dstOrigin := 0x10000000 }] }
    Remap.mapAdr c (0x90000008 / 8) = 0x10000008 / 8 := by decide

/-! ## Wishbone2CSR -/

/-- **`wishbone.Wishbone2CSR` over a CSR register file is a flat memory of CSR words** — both `register`
    modes, every gap — provided every write selects all byte lanes or none (`_partial`: the CSR bus has no byte
    enables, see the negative witness below).  A cycle with `sel = 0` performs no CSR access and leaves the
    registers unchanged; reads with any `sel` return the addressed word.

    Full statement (fails, witness below): the same without `FullSelWrites`. -/
theorem wb2csr_refines_partial (c : ToCsrCfg) (init : Mem) (ins : List (Req × Unit))
    (hm : Classic (wb2csrOver c init) ins) (hsel : ∀ i ∈ ins, ToCsr.FullSelWrites c i) :
    Consistent c.nb init (ops (wb2csrOver c init) (ToCsr.adrMap c) ins) ∧
    AckOnlyStrobed (wb2csrOver c init) ins :=
  (ToCsr.refines c init).run init (ToCsr.inv_init c init) ins hm hsel

/-- Negative witness for the excluded region: a 16-bit bridge, write of lane 0 only (`sel = 01`) to a register
    holding `[5, 6]`, then a full read: the read returns `[0x11, 0x22]` — the unselected byte was overwritten —
    so the history is *not* a flat byte-memory history. -/
example :
    let c : ToCsrCfg := { nb := 2, register := true, shift := 0, caw := 14 }
    let w : Req := { cyc := true, stb := true, we := true, adr := 0, sel := [true, false], dat := [0x11, 0x22], cti := 0, bte := 0 }
    let r : Req := { w with we := false, sel := [true, true], dat := [] }
    let ins : List (Req × Unit) := [(w, ()), (w, ()), (w, ()), (r, ()), (r, ()), (r, ())]
    Classic (wb2csrOver c (Mem.ofList [5, 6])) ins ∧
    ops (wb2csrOver c (Mem.ofList [5, 6])) (ToCsr.adrMap c) ins =
      [{ adr := 0, we := true, sel := [true, false], dat := [0x11, 0x22] },
       { adr := 0, we := false, sel := [true, true], dat := [0x11, 0x22] }] ∧
    ¬ Consistent c.nb (Mem.ofList [5, 6]) (ops (wb2csrOver c (Mem.ofList [5, 6])) (ToCsr.adrMap c) ins) := by
  decide

/-! ## Cache -/

/-- **`wishbone.Cache` is transparent** (`_partial`): write-back, direct-mapped, every geometry — any number of
    lines, master narrower or wider than the slave, line = several master words or several slave words,
    `reverse` on or off (`Cache.fmap` is the identity unless `reverse`) — every slave latency, every history of a
    protocol-following master that stays within `NG` global lines: read hits, write hits, clean misses, dirty
    evictions followed by the refill of the same set.  `Cache.Geo c NG` lists the geometry side conditions
    (`nbm·2^offsetbits = nbs·2^wordbits`, address widths large enough).

    Hypothesis `hzero`: the backing memory holds 0 wherever the tag is 0 (the first `2^linebits` lines).
    Full statement (fails on the code, witness below, finding C07-cache-no-valid-bit): the same without `hzero`
    — the cache has no valid bit, its power-up state claims to hold the tag-0 lines. -/
theorem cache_refines_mem_partial (c : CacheCfg) (NG : Nat) (g : Cache.Geo c NG) (M0 : Mem)
    (hzero : ∀ x, x < 2 ^ c.linebits * Cache.LB c → M0 x = 0)
    (ins : List (Req × Lat)) (hm : Classic ((cache c).over (latMem c.nbs M0)) ins)
    (hadr : ∀ i ∈ ins, Cache.gline c i.1.adr < NG) :
    Consistent c.nbm M0 (ops ((cache c).over (latMem c.nbs M0)) (Cache.fmap c) ins) ∧
    AckOnlyStrobed ((cache c).over (latMem c.nbs M0)) ins :=
  (Cache.refines (latMem c.nbs M0) (fun t _ M => t = M) NG g (fun i => Cache.gline c i.1.adr < NG) (fun _ => True)
      (fun _ _ _ _ => trivial) (fun _ _ h => h) (latMem_refines c.nbs M0)).run M0
    (Cache.inv_init (latMem c.nbs M0) _ NG g M0 rfl hzero) ins hm hadr

/-- The geometry side conditions hold for what `Cache.__init__` computes — e.g. the SoC's L2 cache (8 KiB =
    2048 words, 32-bit master with 30 address bits, 128-bit slave with 28) and a wide-to-narrow cache (64-bit
    master with 10 address bits over a 16-bit slave with 12, 32 words). -/
example : Cache.Geo { nbm := 4, nbs := 16, offsetbits := 2, linebits := 9, tagbits := 21, wordbits := 0, saw := 28,
                      reverse := false } (2 ^ 28) :=
  ⟨by decide, by decide, by decide, by decide, by decide, by decide⟩

example : Cache.Geo { nbm := 8, nbs := 2, offsetbits := 0, linebits := 5, tagbits := 7, wordbits := 2, saw := 12,
                      reverse := true } (2 ^ 10) :=
  ⟨by decide, by decide, by decide, by decide, by decide, by decide⟩

/-- The master's address map is the identity when `reverse` is off. -/
theorem cache_fmap_id (c : CacheCfg) (h : c.reverse = false) (a : Nat) : Cache.fmap c a = a := by
  simp only [Cache.fmap, Cache.gline, Cache.chunk, h, Bool.false_eq_true, if_false]
  rw [Nat.mul_comm]; exact Nat.div_add_mod a _

/-- Non-vacuity: 2 lines × 2 slave words (16-bit master over an 8-bit slave, zero-latency oracle), backing
    memory 0 on the tag-0 lines and `x + 1` elsewhere.  Write to a cold line, conflicting read (dirty eviction
    + refill), read of the first address again (clean miss + refill): all data as a flat memory holds it. -/
example :
    let c : CacheCfg := { nbm := 2, nbs := 1, offsetbits := 0, linebits := 1, tagbits := 2, wordbits := 1, saw := 3, reverse := true }
    let M0 : Mem := fun x => if x < 4 then 0 else x + 1
    let q (we : Bool) (a : Nat) (d : List Byte) : Req × Lat :=
      ({ cyc := true, stb := true, we := we, adr := a, sel := [true, true], dat := d, cti := 0, bte := 0 }, ⟨true, []⟩)
    let ins := List.replicate 2 (q true 1 [0x11, 0x22]) ++ List.replicate 7 (q false 3 []) ++
               List.replicate 5 (q false 1 [])
    Classic ((cache c).over (latMem c.nbs M0)) ins ∧
    ops ((cache c).over (latMem c.nbs M0)) (Cache.fmap c) ins =
      [{ adr := 1, we := true, sel := [true, true], dat := [0x11, 0x22] },
       { adr := 3, we := false, sel := [true, true], dat := [7, 8] },
       { adr := 1, we := false, sel := [true, true], dat := [0x11, 0x22] }] := by decide

/-- Negative witness for the excluded region: same cache, backing memory `x + 1` everywhere.  The very first
    read of address 1 (tag 0) "hits" and returns `[0, 0]`; the backing memory holds `[3, 4]`. -/
example :
    let c : CacheCfg := { nbm := 2, nbs := 1, offsetbits := 0, linebits := 1, tagbits := 2, wordbits := 1, saw := 3, reverse := true }
    let M0 : Mem := fun x => x + 1
    let q (a : Nat) : Req × Lat :=
      ({ cyc := true, stb := true, we := false, adr := a, sel := [true, true], dat := [], cti := 0, bte := 0 }, ⟨true, []⟩)
    let ins := [q 1, q 1]
    Classic ((cache c).over (latMem c.nbs M0)) ins ∧
    ops ((cache c).over (latMem c.nbs M0)) (Cache.fmap c) ins = [{ adr := 1, we := false, sel := [true, true], dat := [0, 0] }] ∧
    ¬ Consistent c.nbm M0 (ops ((cache c).over (latMem c.nbs M0)) (Cache.fmap c) ins) := by decide

/-- **`wishbone.Cache` is transparent once its lines are warm — with NO assumption on the backing memory**
    (`cache_refines_after_warmup`).  The tag-0 hypothesis of `cache_refines_mem_partial` is only needed for the
    power-up state.  From *any* idle cache state `s` whose memories are well formed and whose clean lines hold the
    backing bytes of the line their stored tag names (`Cache.Coherent`, a per-line condition: it is what the refill
    of a line establishes for that line, and it constrains dirty lines not at all) over *any* backing memory `Ms`,
    every continuation of a protocol-following master is a flat byte-memory history of
    `Cache.absMem c s.data s.tags Ms` (the backing memory overlaid with the cached lines), for every geometry and
    slave latency.  At power-up `Coherent` fails exactly on the lines whose tag-0 backing bytes are not 0 (no valid
    bit: finding C07-cache-no-valid-bit, negative witness above); line by line it holds from the first refill on. -/
theorem cache_refines_after_warmup (c : CacheCfg) (NG : Nat) (g : Cache.Geo c NG) (s : CacheState) (Ms : Mem)
    (hidle : s.fsm = .idle) (hwf : Cache.WF c NG s.data s.tags) (hcoh : Cache.Coherent c s.data s.tags Ms)
    (ins : List (Req × Lat)) (hm : ClassicFrom ((cache c).over (latMem c.nbs Ms)) (s, Ms) none ins)
    (hadr : ∀ i ∈ ins, Cache.gline c i.1.adr < NG) :
    Consistent c.nbm (Cache.absMem c s.data s.tags Ms)
      (opsFrom ((cache c).over (latMem c.nbs Ms)) (Cache.fmap c) (s, Ms) ins) ∧
    AckOnlyStrobedFrom ((cache c).over (latMem c.nbs Ms)) (s, Ms) ins := by
  have hR := Cache.refines (latMem c.nbs Ms) (fun t _ M => t = M) NG g (fun i => Cache.gline c i.1.adr < NG)
    (fun _ => True) (fun _ _ _ _ => trivial) (fun _ _ h => h) (latMem_refines c.nbs Ms)
  have h := refines_of_inv _ (Cache.fmap c) c.nbm (fun _ => true) _ _ hR ins (s, Ms) none _
    (Cache.Inv.mk_idle (s := s) (t := Ms) hidle hwf rfl rfl hcoh) hm hadr
  have hk : ∀ l : List Op, l.filter (fun _ => true) = l := fun l => List.filter_eq_self.mpr (fun _ _ => rfl)
  rw [hk] at h
  exact h

/-- Non-vacuity, on the configuration and backing memory of the negative witness (`x + 1` everywhere, so the
    tag-0 hypothesis is false): two reads with tag 1 (addresses 2 and 3) warm both lines — the state reached from
    reset is idle, well formed and coherent — and from it the tag-0 addresses 1 and 0 read what the backing memory
    holds (`[3, 4]`, `[1, 2]`; cold, address 1 read `[0, 0]`), also after a write and a dirty eviction. -/
example :
    let c : CacheCfg := { nbm := 2, nbs := 1, offsetbits := 0, linebits := 1, tagbits := 2, wordbits := 1, saw := 3, reverse := true }
    let M0 : Mem := fun x => x + 1
    let q (we : Bool) (a n : Nat) (d : List Byte) : List (Req × Lat) :=
      List.replicate n ({ cyc := true, stb := true, we := we, adr := a, sel := [true, true], dat := d, cti := 0, bte := 0 }, ⟨true, []⟩)
    let sl := (cache c).over (latMem c.nbs M0)
    let warm := q false 2 5 [] ++ q false 3 5 []
    let s := (sl.runFrom sl.init warm).1
    let ins := q false 1 5 [] ++ q false 0 5 [] ++ q true 1 2 [0x11, 0x22] ++ q false 3 7 [] ++ q false 1 5 []
    s.fsm = .idle ∧ s.tags = [(1, false), (1, false)] ∧ s.data = [5, 6, 7, 8] ∧
    Cache.WF c 8 s.data s.tags ∧ Cache.Coherent c s.data s.tags M0 ∧ M0 0 ≠ 0 ∧
    ClassicFrom sl (s, M0) none ins ∧
    (opsFrom sl (Cache.fmap c) (s, M0) ins).map (fun op => (op.adr, op.we, op.dat)) =
      [(1, false, [3, 4]), (0, false, [1, 2]), (1, true, [0x11, 0x22]), (3, false, [7, 8]), (1, false, [0x11, 0x22])] := by
  refine ⟨by decide, by decide, by decide, ?_, ?_, by decide, by decide, by decide⟩
  · unfold Cache.WF; decide
  · unfold Cache.Coherent; decide

/-! ## Bounded liveness: every presented request is acknowledged within an explicit number of cycles

  `Within L w os`: the slave answers within `L` — the latency oracle `os` never stays silent for more than `L`
  consecutive cycles (`w` = cycles of silence so far).  `ackedIn m r s os`: while the master keeps presenting `r`
  from state `s`, some cycle of the run carries `ack`.  Together with `AckOnlyStrobed` and the classic hold rule
  this is "each cycle is acknowledged exactly once".  (SRAM: `sram_one_ack_per_request`, the cycle after the
  strobe.) -/

/-- **DownConverter**: a request is acknowledged within `ratio·(L+1)` cycles (`ratio` over a zero-latency
    slave; a skipped sub-word costs one cycle). -/
theorem down_ack_within (c : DownCfg) (L : Nat) (M0 : Mem) (r : Req) (hact : r.active = true) (datR : List Byte)
    (mem : Mem) (os : List Lat) (hW : Within L 0 os) (hlen : c.ratio * (L + 1) ≤ os.length) :
    ackedIn ((downConv c).over (latMem c.nbs M0)) r ({ count := 0, datR := datR }, mem) os = true :=
  Down.ack_within c L M0 r hact os _ mem 0 (Down.ratio_pos c) (Nat.zero_le _) hW (by simpa using hlen)

/-- **UpConverter, Remapper, equal-width Converter**: purely combinational — the master is acknowledged in the
    very cycle in which the slave acknowledges (`K = L + 1`). -/
theorem up_ack_same_cycle (c : UpCfg) (r : Req) (rsp : Rsp) : (Up.toMaster c () r rsp).ack = rsp.ack := rfl

theorem remap_ack_same_cycle (c : RemapCfg) (r : Req) (rsp : Rsp) : ((remapper c).toMaster () r rsp).ack = rsp.ack := rfl

/-- **Wishbone2CSR**: acknowledged in the third cycle of a request (registered access) resp. the second
    (un-registered access), whatever the CSR side returns. -/
theorem wb2csr_ack_latency (c : ToCsrCfg) (init : Mem) (r : Req) (hact : r.active = true) (s : ToCsrState)
    (cf : CsrFileState) (hs : s.fsm = if c.register then .idle else .writeRead) :
    ackedIn (wb2csrOver c init) r (s, cf) (List.replicate (if c.register then 3 else 2) ()) = true := by
  cases hreg : c.register <;>
    simp [hreg] at hs <;>
    simp [ackedIn, List.replicate, wb2csrOver, ToCsr.rsp, ToCsr.next, hreg, hs, hact]

/-- **Cache**: a hit is acknowledged in the TEST_HIT cycle (the second cycle of the request). -/
theorem cache_hit_ack (c : CacheCfg) (s : CacheState) (r : Req) (rsp : Rsp) (hf : s.fsm = .testHit)
    (hh : Cache.hit c s r = true) : (Cache.toMaster c s r rsp).ack = true := by
  simp [Cache.toMaster, Cache.mack, hf, hh]

/-- **Cache**: from IDLE every request — hit, clean miss, or miss with dirty eviction — is acknowledged within
    `3 + 2·2^wordbits·(L+1)` cycles when the slave answers each of the `2^wordbits` evicted and refilled words
    within `L`. -/
theorem cache_ack_within (c : CacheCfg) (L : Nat) (M0 : Mem) (r : Req) (hact : r.active = true) (s : CacheState)
    (mem : Mem) (hidle : s.fsm = .idle) (htags : s.tags.length = 2 ^ c.linebits)
    (os : List Lat) (hW : Within L 0 os) (hlen : 3 + 2 * (2 ^ c.wordbits * (L + 1)) ≤ os.length) :
    ackedIn ((cache c).over (latMem c.nbs M0)) r (s, mem) os = true :=
  Cache.ack_within c L M0 r hact os s mem 0 ⟨htags, by simp only [hidle]⟩ (Nat.zero_le _) hW
    (by rw [Cache.idle_bound c L s r 0 hidle]; exact hlen)

/-- Non-vacuity of the bound (and tightness): 16-bit master over an 8-bit slave that answers every second cycle
    (`L = 1`), ratio 2 ⇒ acknowledged within 4 cycles, and not within 3. -/
example :
    let os : List Lat := [⟨false, []⟩, ⟨true, []⟩, ⟨false, []⟩, ⟨true, []⟩]
    let r : Req := { cyc := true, stb := true, we := false, adr := 1, sel := [true, true], dat := [], cti := 0, bte := 0 }
    Within 1 0 os ∧
    ackedIn ((downConv { nbs := 1, cbits := 1 }).over (latMem 1 (fun x => x))) r ({ count := 0, datR := [0, 0] }, fun x => x) os = true ∧
    ackedIn ((downConv { nbs := 1, cbits := 1 }).over (latMem 1 (fun x => x))) r ({ count := 0, datR := [0, 0] }, fun x => x)
      (os.take 3) = false := by decide

/-! ## Compositions with the real SRAM model (the SoC's usual stacks) -/

/-- **`master → DownConverter → SRAM` is a flat byte memory** (`converter_over_sram`, narrowing direction).
    The SRAM has `2^n = ratio · dm` words of the narrow width; the master sees `dm` wide words (addresses wrap
    modulo `dm`).  Obtained by composing `Down.refines` with `Sram.refines` — no proof about the product. -/
theorem down_over_sram_refines (c : DownCfg) (sc : SramCfg) (init : List Byte) (n dm : Nat)
    (hnb : sc.nb = c.nbs) (hrw : sc.readOnly = false) (hnb0 : sc.burst = false)
    (hdepth : sc.depth = 2 ^ n) (haw : n ≤ sc.aw) (hdm : sc.depth = c.ratio * dm)
    (ins : List (Req × Unit)) (hm : Classic ((downConv c).over (sram sc init)) ins) :
    Consistent c.nbm (Mem.ofList (Sram.initMem sc init)) (ops ((downConv c).over (sram sc init)) (· % dm) ins) ∧
    AckOnlyStrobed ((downConv c).over (sram sc init)) ins := by
  have hd : 0 < sc.depth := by rw [hdepth]; exact Nat.two_pow_pos n
  have hdmpos : 0 < dm := by
    rcases Nat.eq_zero_or_pos dm with h | h
    · rw [h, Nat.mul_zero] at hdm; omega
    · exact h
  have hS := Sram.refines sc hd hrw init
  rw [hnb] at hS
  exact (Down.refines c (sram sc init) sc.idx (· % dm) (Sram.Inv sc)
      (fun a k hk => by
        simp only [Sram.idx_pow2 sc n hdepth haw, hdm]
        exact Down.mod_split c.ratio dm a k hk hdmpos)
      (fun _ => True) (Sram.NoBurst sc) (fun _ _ _ _ => by simp [Sram.NoBurst, Sram.adrBurst, hnb0]) hS).run _
    ⟨Down.ratio_pos c, rfl, Sram.inv_init sc init⟩ ins hm (fun _ _ => trivial)

/-- **`burst master → DownConverter → bursting SRAM` is a flat byte memory** (`down_burst`, full strength): linear
    bursts of any length are forwarded as one linear burst of sub-words (the SRAM's address counter serves them,
    one sub-word per cycle), wrapping bursts *of any length* are degraded to classic sub-word cycles by the
    converter's guard, classic cycles (with skipped sub-words) in between, arbitrary gaps between bursts; the
    master's addresses fit `awm` bits with `ratio·2^awm ≤ 2^aw`.  Composition of `Down.brefines` with
    `Sram.brefines` — the slave-side obligations (`Expect`) are part of the refinement relation. -/
theorem down_burst_over_sram_refines (c : DownCfg) (sc : SramCfg) (init : List Byte) (n dm awm : Nat)
    (hnb : sc.nb = c.nbs) (hrw : sc.readOnly = false) (hb : sc.burst = true) (haw4 : 4 ≤ sc.aw)
    (hdepth : sc.depth = 2 ^ n) (haw : n ≤ sc.aw) (hdm : sc.depth = c.ratio * dm)
    (hfit : c.ratio * 2 ^ awm ≤ 2 ^ sc.aw)
    (ins : List (Req × Unit)) (hm : BurstMaster ((downConv c).over (sram sc init)) false ins)
    (hadr : ∀ i ∈ ins, i.1.adr < 2 ^ awm) :
    Consistent c.nbm (Mem.ofList (Sram.initMem sc init)) (ops ((downConv c).over (sram sc init)) (· % dm) ins) ∧
    AckOnlyStrobed ((downConv c).over (sram sc init)) ins := by
  have hd : 0 < sc.depth := by rw [hdepth]; exact Nat.two_pow_pos n
  have hdmpos : 0 < dm := by
    rcases Nat.eq_zero_or_pos dm with h | h
    · rw [h, Nat.mul_zero] at hdm; omega
    · exact h
  have hS := Sram.brefines sc hd hrw hb haw4 init
  rw [hnb] at hS
  exact (Down.brefines c (sram sc init) sc.idx (· % dm) (Sram.BInv sc)
      (fun a k hk => by
        simp only [Sram.idx_pow2 sc n hdepth haw, hdm]
        exact Down.mod_split c.ratio dm a k hk hdmpos)
      false (fun i => i.1.adr < 2 ^ awm) _
      (fun s r _ hcnt hP => by
        show s.count + c.ratio * r.adr < 2 ^ sc.aw
        have hP' : r.adr < 2 ^ awm := hP
        calc s.count + c.ratio * r.adr < c.ratio + c.ratio * r.adr := by omega
          _ = c.ratio * (r.adr + 1) := by rw [Nat.mul_add, Nat.mul_one, Nat.add_comm]
          _ ≤ c.ratio * 2 ^ awm := Nat.mul_le_mul_left _ hP'
          _ ≤ 2 ^ sc.aw := hfit) hS).run ins _ .free _
    ⟨Down.ratio_pos c, _, .free, Sram.binv_init sc init, rfl, rfl, rfl⟩ hm hadr

/-- **`burst master with wait states → DownConverter → bursting SRAM` is a flat byte memory**: as
    `down_burst_over_sram_refines`, for masters that insert wait states between beats or abandon bursts
    (`BurstMasterW`).  A master wait state is a wait state of the sub-word burst on the narrow side (the SRAM's
    counter resets, the next sub-word is served at the address the converter presents).  The converter gates its
    acknowledge with the master's strobe, so the strict `AckOnlyStrobed` holds here. -/
theorem down_burst_waits_over_sram_refines (c : DownCfg) (sc : SramCfg) (init : List Byte) (n dm awm : Nat)
    (hnb : sc.nb = c.nbs) (hrw : sc.readOnly = false) (hb : sc.burst = true) (haw4 : 4 ≤ sc.aw)
    (hdepth : sc.depth = 2 ^ n) (haw : n ≤ sc.aw) (hdm : sc.depth = c.ratio * dm)
    (hfit : c.ratio * 2 ^ awm ≤ 2 ^ sc.aw)
    (ins : List (Req × Unit)) (hm : BurstMasterW ((downConv c).over (sram sc init)) false ins)
    (hadr : ∀ i ∈ ins, i.1.adr < 2 ^ awm) :
    Consistent c.nbm (Mem.ofList (Sram.initMem sc init)) (ops ((downConv c).over (sram sc init)) (· % dm) ins) ∧
    AckOnlyStrobed ((downConv c).over (sram sc init)) ins := by
  have hd : 0 < sc.depth := by rw [hdepth]; exact Nat.two_pow_pos n
  have hdmpos : 0 < dm := by
    rcases Nat.eq_zero_or_pos dm with h | h
    · rw [h, Nat.mul_zero] at hdm; omega
    · exact h
  have hS := Sram.brefines sc hd hrw hb haw4 init
  have hSw := Sram.waitOk sc init
  rw [hnb] at hS
  have hfg : ∀ a k, k < c.ratio → sc.idx (k + c.ratio * a) = k + c.ratio * (a % dm) := fun a k hk => by
    simp only [Sram.idx_pow2 sc n hdepth haw, hdm]
    exact Down.mod_split c.ratio dm a k hk hdmpos
  have hP : ∀ (s : DownState) (r : Req) (o : Unit), s.count < c.ratio → r.adr < 2 ^ awm →
      (Down.toSlave c s r).adr < 2 ^ sc.aw := fun s r _ hcnt hP' => by
    show s.count + c.ratio * r.adr < 2 ^ sc.aw
    calc s.count + c.ratio * r.adr < c.ratio + c.ratio * r.adr := by omega
      _ = c.ratio * (r.adr + 1) := by rw [Nat.mul_add, Nat.mul_one, Nat.add_comm]
      _ ≤ c.ratio * 2 ^ awm := Nat.mul_le_mul_left _ hP'
      _ ≤ 2 ^ sc.aw := hfit
  refine ⟨?_, Down.ack_only_strobed c (sram sc init) ins _⟩
  exact ((Down.brefines c (sram sc init) sc.idx (· % dm) (Sram.BInv sc) hfg false (fun i => i.1.adr < 2 ^ awm) _ hP hS).runW
      (Down.waitOk c (sram sc init) sc.idx (· % dm) (Sram.BInv sc) (fun i => i.1.adr < 2 ^ awm) _ hP hS hSw) ins _ .free _
    ⟨Down.ratio_pos c, _, .free, Sram.binv_init sc init, rfl, rfl, rfl⟩ hm hadr).1

/-- Non-vacuity: 16-bit master over an 8-bit bursting SRAM of 16 words; linear write burst 2, 3, 4 with a wait
    state (lines held) after the first beat and a garbage wait state after the second, read back by a burst that
    is abandoned after two beats, then a classic read. -/
example :
    let c : DownCfg := { nbs := 1, cbits := 1 }
    let sc : SramCfg := { nb := 1, depth := 16, aw := 4, readOnly := false, burst := true }
    let q (stb we : Bool) (a : Nat) (d : List Byte) (cti n : Nat) : List (Req × Unit) :=
      List.replicate n ({ cyc := true, stb := stb, we := we, adr := a, sel := [true, true], dat := d, cti := cti, bte := 0 }, ())
    let ins := q true true 2 [0x20, 0x21] 2 3 ++ q false true 3 [0x30, 0x31] 2 2 ++ q true true 3 [0x30, 0x31] 2 3 ++
               q false false 9 [0x99] 7 1 ++ q true true 4 [0x40, 0x41] 7 3 ++
               q true false 2 [] 2 3 ++ q true false 3 [] 2 2 ++ [(Req.idle, ())] ++ q true false 4 [] 0 4
    BurstMasterW ((downConv c).over (sram sc [])) false ins ∧
    (ops ((downConv c).over (sram sc [])) (· % 8) ins).map (fun op => (op.adr, op.we, op.dat)) =
      [(2, true, [0x20, 0x21]), (3, true, [0x30, 0x31]), (4, true, [0x40, 0x41]),
       (2, false, [0x20, 0x21]), (3, false, [0x30, 0x31]), (4, false, [0x40, 0x41])] := by decide

/-- Non-vacuity: 16-bit master over an 8-bit bursting SRAM of 16 words.  A linear write burst of 3 beats from 2
    (6 sub-words: 2 cycles for the first, then one per cycle), a wrap-4 read burst 3, 0, 1 (degraded to classic
    sub-word cycles) and a classic partial write with a skipped sub-word. -/
example :
    let c : DownCfg := { nbs := 1, cbits := 1 }
    let sc : SramCfg := { nb := 1, depth := 16, aw := 4, readOnly := false, burst := true }
    let q (we : Bool) (a : Nat) (sel : List Bool) (d : List Byte) (cti bte n : Nat) : List (Req × Unit) :=
      List.replicate n ({ cyc := true, stb := true, we := we, adr := a, sel := sel, dat := d, cti := cti, bte := bte }, ())
    let ins := q true 2 [true, true] [0x20, 0x21] 2 0 3 ++ q true 3 [true, true] [0x30, 0x31] 2 0 2 ++
               q true 4 [true, true] [0x40, 0x41] 7 0 2 ++ [(Req.idle, ())] ++
               q false 3 [true, true] [] 2 1 4 ++ q false 0 [true, true] [] 2 1 4 ++ q false 1 [true, true] [] 7 1 4 ++
               q true 2 [false, true] [0x99, 0x77] 0 0 3 ++ q false 2 [true, true] [] 0 0 4
    BurstMaster ((downConv c).over (sram sc [])) false ins ∧
    (ops ((downConv c).over (sram sc [])) (· % 8) ins).map (fun op => (op.adr, op.we, op.dat)) =
      [(2, true, [0x20, 0x21]), (3, true, [0x30, 0x31]), (4, true, [0x40, 0x41]),
       (3, false, [0x30, 0x31]), (0, false, [0, 0]), (1, false, [0, 0]),
       (2, true, [0x99, 0x77]), (2, false, [0x20, 0x77])] := by decide

/-- **`master → UpConverter → SRAM` is a flat byte memory** (`converter_over_sram`, widening direction): the
    master sees `ratio · 2^n` narrow words.  Holds for bursting SRAM buses too, whatever burst tags the master
    drives: the converter does not forward them (the wide slave sees classic cycles). -/
theorem up_over_sram_refines (c : UpCfg) (hpos : 0 < c.nbm) (sc : SramCfg) (init : List Byte) (n : Nat)
    (hnb : sc.nb = c.nbs) (hrw : sc.readOnly = false)
    (hdepth : sc.depth = 2 ^ n) (haw : n ≤ sc.aw)
    (ins : List (Req × Unit)) (hm : Classic ((upConv c).over (sram sc init)) ins) :
    Consistent c.nbm (Mem.ofList (Sram.initMem sc init))
      (ops ((upConv c).over (sram sc init)) (fun a => (a / c.ratio % sc.depth) * c.ratio + a % c.ratio) ins) ∧
    AckOnlyStrobed ((upConv c).over (sram sc init)) ins := by
  have hd : 0 < sc.depth := by rw [hdepth]; exact Nat.two_pow_pos n
  have hS := Sram.refines sc hd hrw init
  rw [hnb] at hS
  exact (Up.refines c (sram sc init) sc.idx _ (Sram.Inv sc) hpos
      (fun a => by simp only [Sram.idx_pow2 sc n hdepth haw])
      (fun _ => True) (Sram.NoBurst sc) (fun _ _ _ => by simp [Sram.NoBurst, Sram.adrBurst, Up.toSlave]) hS).run _
    (Sram.inv_init sc init) ins hm (fun _ _ => trivial)

/-- The repaired defect C07-upconverter-burst-passthrough (the UpConverter used to forward `cti`, so a bursting
    SRAM advanced its address counter on every narrow beat): 8-bit master over a 16-bit *bursting* SRAM, write
    burst to 2, 3, 4 (`cti` 2, 2, 7), then classic reads of 3 and 5 — now a flat-memory history. -/
example :
    let c : UpCfg := { nbm := 1, cbits := 1 }
    let sc : SramCfg := { nb := 2, depth := 8, aw := 4, readOnly := false, burst := true }
    let w (a d cti : Nat) : Req × Unit :=
      ({ cyc := true, stb := true, we := true, adr := a, sel := [true], dat := [d], cti := cti, bte := 0 }, ())
    let r (a : Nat) : Req × Unit :=
      ({ cyc := true, stb := true, we := false, adr := a, sel := [true], dat := [], cti := 0, bte := 0 }, ())
    let ins := [w 2 0xA2 2, w 2 0xA2 2, w 3 0xB3 2, w 3 0xB3 2, w 4 0xC4 7, w 4 0xC4 7, (Req.idle, ()), r 3, r 3,
                (Req.idle, ()), r 5, r 5]
    Classic ((upConv c).over (sram sc [])) ins ∧
    (ops ((upConv c).over (sram sc [])) id ins).map (fun op => (op.adr, op.we, op.dat)) =
      [(2, true, [0xA2]), (3, true, [0xB3]), (4, true, [0xC4]), (3, false, [0xB3]), (5, false, [0])] := by decide

/-- **`master → Remapper → SRAM` is a flat byte memory at the translated address** (non-bursting SRAM bus: the
    remapper forwards the burst tags): decoding `idx ∘ mapAdr`. -/
theorem remap_over_sram_refines (c : RemapCfg) (sc : SramCfg) (init : List Byte) (hd : 0 < sc.depth)
    (hrw : sc.readOnly = false) (hnb0 : sc.burst = false)
    (ins : List (Req × Unit)) (hm : Classic ((remapper c).over (sram sc init)) ins) :
    Consistent sc.nb (Mem.ofList (Sram.initMem sc init))
      (ops ((remapper c).over (sram sc init)) (fun a => sc.idx (Remap.mapAdr c a)) ins) ∧
    AckOnlyStrobed ((remapper c).over (sram sc init)) ins := by
  rw [remapper_eq] at hm ⊢
  exact (AdrAdapter.refines (Remap.mapAdr c) (sram sc init) sc.idx sc.nb (Sram.Inv sc) (fun _ => True) (Sram.NoBurst sc)
      (fun _ _ _ => by simp [Sram.NoBurst, Sram.adrBurst, hnb0]) (Sram.refines sc hd hrw init)).run _
    (Sram.inv_init sc init) ins hm (fun _ _ => trivial)

/-! ## Wishbone2CSR over a `CSRBank` (b-c12's bank model `Csr.bank`, imported unchanged)

  `wb2csrBank c b` (LitexModel/Wishbone/ToCsrBank.lean): the bridge wired to the bank; the environment input of
  every cycle is the device side of the registers (`List Csr.Dev`, arbitrary).  `PlainBank nb b`: every register
  is a `CSRStorage` exactly one bus word wide without `write_from_dev`, and the bank fits its page.
  `bankV nb b s`: the register contents as a byte memory (CSR word `a` at bytes `a·nb ..`).
  `ToCsr.PB c (bankMapped b) i`: all-or-nothing write selects, the CSR address `(adr >> shift) mod 2^caw` decodes
  to a register of the bank, the data lines carry bytes. -/

/-- **`Wishbone2CSR` over a `CSRBank` of one-word storages is a flat memory of the register contents**
    (`_partial`: all-or-nothing write selects — finding C07-wb2csr-no-byte-enables, witness below): reads return
    the register contents (initially the reset values), full-word writes land in exactly the addressed register,
    reads have no side effect on the contents (a later read returns the same), no acknowledge without a strobe
    — both `register` modes, word and byte addressing (`shift`), every bank address/paging, every device-side
    input, every gap.  Obtained from `ToCsr.refinesOn` (the bridge over any CSR side that is a register file on
    its mapped addresses) and `bank_sideOk` (b-c12's `Csr.bank` is one). -/
theorem wb2csr_over_csrbank_refines_partial (c : ToCsrCfg) (b : Csr.BankCfg) (hp : PlainBank c.nb b)
    (ins : List (Req × List Csr.Dev)) (hm : Classic (wb2csrBank c b) ins)
    (hP : ∀ i ∈ ins, ToCsr.PB c (bankMapped b) i) :
    Consistent c.nb (bankV c.nb b (Csr.bank b).init) (ops (wb2csrBank c b) (ToCsr.adrMap c) ins) ∧
    AckOnlyStrobed (wb2csrBank c b) ins :=
  (ToCsr.refinesOn c (bankSide c.nb b) (bankV c.nb b) (bankMapped b) (bank_sideOk c.nb b hp)).run _
    (ToCsr.invOn_init c _ _ _ rfl) ins hm hP

/-- The same bridge over *any* CSR side that behaves as a register file on its mapped addresses (`CsrSideOk`:
    no change without `we`, whole-word replacement with `we`, `dat_r` one cycle after the address). -/
theorem wb2csr_over_side_refines_partial {ω κ : Type} (c : ToCsrCfg) (side : CsrSide ω κ) (V : κ → Mem)
    (Mapped : Nat → Prop) (h : CsrSideOk side c.nb V Mapped) (ins : List (Req × ω))
    (hm : Classic (wb2csrOn c side) ins) (hP : ∀ i ∈ ins, ToCsr.PB c Mapped i) :
    Consistent c.nb (V side.init) (ops (wb2csrOn c side) (ToCsr.adrMap c) ins) ∧
    AckOnlyStrobed (wb2csrOn c side) ins :=
  (ToCsr.refinesOn c side V Mapped h).run _ (ToCsr.invOn_init c _ _ _ rfl) ins hm hP

/-- One acknowledge per access, over any CSR side: in the third cycle of a request (registered access) resp. the
    second (un-registered access). -/
theorem wb2csr_on_ack_latency {ω κ : Type} (c : ToCsrCfg) (side : CsrSide ω κ) (r : Req) (hact : r.active = true)
    (s : ToCsrState) (t : κ) (o : ω) (hs : s.fsm = if c.register then .idle else .writeRead) :
    ackedIn (wb2csrOn c side) r (s, t) (List.replicate (if c.register then 3 else 2) o) = true := by
  cases hreg : c.register <;>
    simp [hreg] at hs <;>
    simp [ackedIn, List.replicate, wb2csrOn, ToCsr.rsp, ToCsr.next, hreg, hs, hact]

/-- Non-vacuity: 16-bit bridge (registered) over bank number 1 (`paging = 0x10`: 4 words per page) with two 16-bit
    storages, resets `0xB2A1` and `0`.  Read of register 0 (CSR address 4) returns its reset value, full-word
    write to register 1 (address 5), read back, read of register 0 again: untouched. -/
example :
    let c : ToCsrCfg := { nb := 2, register := true, shift := 0, caw := 4 }
    let b : Csr.BankCfg := { bw := 16, ord := .big, pbits := 2, address := 1,
                             regs := [{ kind := .storage, size := 16, reset := 0xB2A1 }, { kind := .storage, size := 16 }] }
    let q (we : Bool) (a : Nat) (d : List Byte) : List (Req × List Csr.Dev) :=
      List.replicate 3 ({ cyc := true, stb := true, we := we, adr := a, sel := [true, true], dat := d, cti := 0, bte := 0 }, [])
    let ins := q false 4 [] ++ q true 5 [0x34, 0x12] ++ q false 5 [] ++ q false 4 []
    PlainBank c.nb b ∧ Classic (wb2csrBank c b) ins ∧ (∀ i ∈ ins, bankMapped b (ToCsr.csrAdr c i.1)) ∧
    (ops (wb2csrBank c b) (ToCsr.adrMap c) ins).map (fun op => (op.adr, op.we, op.dat)) =
      [(4, false, [0xA1, 0xB2]), (5, true, [0x34, 0x12]), (5, false, [0x34, 0x12]), (4, false, [0xA1, 0xB2])] := by
  refine ⟨⟨by decide, by decide, by decide, by decide⟩, by decide, by decide, by decide⟩

/-- Negative witness for the excluded region, on the bank: write of lane 0 only (`sel = 01`) to register 0 holding
    `0xB2A1`, then a full read returns `[0x11, 0x22]` — the unselected byte was overwritten. -/
example :
    let c : ToCsrCfg := { nb := 2, register := true, shift := 0, caw := 4 }
    let b : Csr.BankCfg := { bw := 16, ord := .big, pbits := 2, address := 1,
                             regs := [{ kind := .storage, size := 16, reset := 0xB2A1 }, { kind := .storage, size := 16 }] }
    let q (we : Bool) (sel : List Bool) (d : List Byte) : List (Req × List Csr.Dev) :=
      List.replicate 3 ({ cyc := true, stb := true, we := we, adr := 4, sel := sel, dat := d, cti := 0, bte := 0 }, [])
    let ins := q true [true, false] [0x11, 0x22] ++ q false [true, true] []
    Classic (wb2csrBank c b) ins ∧
    (ops (wb2csrBank c b) (ToCsr.adrMap c) ins).map (fun op => (op.adr, op.we, op.dat)) =
      [(4, true, [0x11, 0x22]), (4, false, [0x11, 0x22])] ∧
    bankV c.nb b (Csr.bank b).init 9 = 0xB2 := by
  refine ⟨by decide, by decide, by decide⟩

/-- **`master → Cache → SRAM` is a flat byte memory** (`_partial`, same hypothesis as `cache_refines_mem_partial`):
    the real SRAM model (two-cycle classic slave that writes in both cycles) fills the cache's slave address space
    (`depth = 2^saw`), initial content 0 on the tag-0 lines.  Composition of `Cache.refines` with `Sram.refines`. -/
theorem cache_over_sram_refines_partial (c : CacheCfg) (NG : Nat) (g : Cache.Geo c NG) (sc : SramCfg) (init : List Byte)
    (hnb : sc.nb = c.nbs) (hrw : sc.readOnly = false) (hnb0 : sc.burst = false)
    (hdepth : sc.depth = 2 ^ c.saw) (haw : c.saw ≤ sc.aw)
    (hzero : ∀ x, x < 2 ^ c.linebits * Cache.LB c → Mem.ofList (Sram.initMem sc init) x = 0)
    (ins : List (Req × Unit)) (hm : Classic ((cache c).over (sram sc init)) ins)
    (hadr : ∀ i ∈ ins, Cache.gline c i.1.adr < NG) :
    Consistent c.nbm (Mem.ofList (Sram.initMem sc init)) (ops ((cache c).over (sram sc init)) (Cache.fmap c) ins) ∧
    AckOnlyStrobed ((cache c).over (sram sc init)) ins := by
  have hd : 0 < sc.depth := by rw [hdepth]; exact Nat.two_pow_pos _
  have hS := (Sram.refines sc hd hrw init).restrict (fun i => i.1.adr < sc.depth) id (fun i hi => by
    refine ⟨by simp [Sram.NoBurst, Sram.adrBurst, hnb0], ?_⟩
    simp only [id, Sram.idx_pow2 sc c.saw hdepth haw]
    exact (Nat.mod_eq_of_lt hi).symm)
  rw [hnb] at hS
  exact (Cache.refines (sram sc init) (Sram.Inv sc) NG g (fun i => Cache.gline c i.1.adr < NG) _
      (fun s r _ _ => by
        show (Cache.toSlave c s r).adr < sc.depth
        rw [hdepth]; exact Nat.mod_lt _ (Nat.two_pow_pos _))
      (fun _ _ h => h) hS).run _
    (Cache.inv_init (sram sc init) _ NG g _ (Sram.inv_init sc init) hzero) ins hm hadr

/-- **Chains compose**: `master → Cache → DownConverter → memory` (an L2 cache in front of a narrower memory
    port, arbitrary latency) — `Cache.refines` applied to `Down.refines` applied to the abstract memory. -/
theorem cache_over_down_refines_partial (c : CacheCfg) (NG : Nat) (g : Cache.Geo c NG) (dc : DownCfg)
    (hnb : dc.nbm = c.nbs) (M0 : Mem) (hzero : ∀ x, x < 2 ^ c.linebits * Cache.LB c → M0 x = 0)
    (ins : List (Req × Lat)) (hm : Classic ((cache c).over ((downConv dc).over (latMem dc.nbs M0))) ins)
    (hadr : ∀ i ∈ ins, Cache.gline c i.1.adr < NG) :
    Consistent c.nbm M0 (ops ((cache c).over ((downConv dc).over (latMem dc.nbs M0))) (Cache.fmap c) ins) ∧
    AckOnlyStrobed ((cache c).over ((downConv dc).over (latMem dc.nbs M0))) ins := by
  have hD := Down.refines dc (latMem dc.nbs M0) id id (fun t _ M => t = M) (fun _ _ _ => rfl) (fun _ => True)
    (fun _ => True) (fun _ _ _ _ => trivial) (latMem_refines dc.nbs M0)
  rw [hnb] at hD
  exact (Cache.refines ((downConv dc).over (latMem dc.nbs M0)) _ NG g (fun i => Cache.gline c i.1.adr < NG) _
      (fun _ _ _ _ => trivial) (fun _ _ h => h) hD).run M0
    (Cache.inv_init ((downConv dc).over (latMem dc.nbs M0)) _ NG g M0 ⟨Down.ratio_pos dc, rfl, rfl⟩ hzero) ins hm hadr

/-! Non-vacuity: 16-bit master over an 8-bit, 4-word SRAM (ratio 2).  Partial write of the upper byte of wide
    word 1 (the lower sub-word is skipped: 3 cycles), then a full read of it (2 sub-word reads: 4 cycles). -/
example :
    let c : DownCfg := { nbs := 1, cbits := 1 }
    let sc : SramCfg := { nb := 1, depth := 4, aw := 3, readOnly := false, burst := false }
    let w : Req := { cyc := true, stb := true, we := true, adr := 1, sel := [false, true], dat := [0x11, 0x22], cti := 0, bte := 0 }
    let r : Req := { w with we := false, sel := [true, true], dat := [] }
    let ins : List (Req × Unit) := [(w, ()), (w, ()), (w, ()), (Req.idle, ()), (r, ()), (r, ()), (r, ()), (r, ())]
    Classic ((downConv c).over (sram sc [5, 6, 7, 8])) ins ∧
    ops ((downConv c).over (sram sc [5, 6, 7, 8])) (· % 2) ins =
      [{ adr := 1, we := true, sel := [false, true], dat := [0x11, 0x22] },
       { adr := 1, we := false, sel := [true, true], dat := [7, 0x22] }] := by decide

/-! ## The adapters as `SoCBusHandler.add_adapter` composes them (width conversion, then addressing conversion)

  On a byte-addressed main bus (AXI-Lite / AXI) a word-addressed Wishbone interface of another width gets a
  `wishbone.Converter` to the bus width *and then* the word->byte re-wiring `adapted.adr[shift:] = adr` with
  `shift = log2(bus bytes)` (the width of the converted interface — seeded change C07-r5m3 took the original one).
  `gluedMem nb sh M0`: the byte-addressed bus (a byte memory of `nb` lanes behind `adr[sh:]`) seen through that
  re-wiring; the address functions are b2-c09's `Bridge.Adapter.elemByte` (`glueSubAddr`, imported unchanged). -/

/-- **Converter (narrowing) composed with the addressing shift refines the byte memory**: the wide master sees a
    flat byte memory in which lane `j` of word `a` is byte `a·nbm + j` — every ratio, partial `sel`, every latency. -/
theorem down_over_addressing_refines (c : DownCfg) (sh : Nat) (M0 : Mem) (ins : List (Req × Lat))
    (hm : Classic ((downConv c).over (gluedMem c.nbs sh M0)) ins) :
    Consistent c.nbm M0 (ops ((downConv c).over (gluedMem c.nbs sh M0)) id ins) ∧
    AckOnlyStrobed ((downConv c).over (gluedMem c.nbs sh M0)) ins :=
  (Down.refines c (gluedMem c.nbs sh M0) (fun a => byteToWord sh (wordToByte sh a)) id _
      (fun a k _ => by simp only [byteToWord_wordToByte, id]) (fun _ => True) (fun _ => True)
      (fun _ _ _ _ => trivial) (gluedMem_refines c.nbs sh M0)).run M0
    ⟨Down.ratio_pos c, rfl, rfl⟩ ins hm (fun _ _ => trivial)

/-- **Converter (widening) composed with the addressing shift refines the byte memory.** -/
theorem up_over_addressing_refines (c : UpCfg) (hpos : 0 < c.nbm) (sh : Nat) (M0 : Mem) (ins : List (Req × Lat))
    (hm : Classic ((upConv c).over (gluedMem c.nbs sh M0)) ins) :
    Consistent c.nbm M0 (ops ((upConv c).over (gluedMem c.nbs sh M0)) id ins) ∧
    AckOnlyStrobed ((upConv c).over (gluedMem c.nbs sh M0)) ins :=
  (Up.refines c (gluedMem c.nbs sh M0) (fun a => byteToWord sh (wordToByte sh a)) id _ hpos
      (fun a => by simp only [byteToWord_wordToByte, id]; rw [Nat.mul_comm]; exact (Nat.div_add_mod a c.ratio).symm)
      (fun _ => True) (fun _ => True) (fun _ _ _ => trivial) (gluedMem_refines c.nbs sh M0)).run M0
    rfl ins hm (fun _ _ => trivial)

/-- **The byte address on the bus is the byte address the master means**: for a bus of `nbs = 2^sh` byte lanes,
    sub-word `count` of the wide word `a` goes (through C09's byte map of the addressing glue) to byte address
    `a·nbm + count·nbs` — the word address shifted by `log2(bus bytes)`, not by `log2(master bytes)`. -/
theorem glue_byte_address (c : DownCfg) (sh count a : Nat) (hsh : c.nbs = 2 ^ sh) :
    glueSubAddr c sh count a = a * c.nbm + count * c.nbs := by
  rw [glueSubAddr_eq, wordToByte, ← hsh, DownCfg.nbm]; ring

/-- The witness of seeded change C07-r5m3: 64-bit master on a 32-bit byte-addressed bus, word 1 = bytes 8..15:
    sub-words at byte addresses 8 and 12 (the changed code produced 16 and 24). -/
example : glueSubAddr { nbs := 4, cbits := 1 } 2 0 1 = 8 ∧ glueSubAddr { nbs := 4, cbits := 1 } 2 1 1 = 12 := by decide

/-- Non-vacuity: 32-bit master over a 16-bit byte-addressed bus (`sh = 1`), ratio 2, zero-latency memory holding `x + 1`:
    read of wide word 1 returns bytes 4..7. -/
example :
    let c : DownCfg := { nbs := 2, cbits := 1 }
    let M0 : Mem := fun x => x + 1
    let r : Req × Lat := ({ cyc := true, stb := true, we := false, adr := 1, sel := [true, true, true, true], dat := [],
                            cti := 0, bte := 0 }, ⟨true, []⟩)
    Classic ((downConv c).over (gluedMem c.nbs 1 M0)) [r, r] ∧
    (ops ((downConv c).over (gluedMem c.nbs 1 M0)) id [r, r]).map (fun op => (op.adr, op.dat)) = [(1, [5, 6, 7, 8])] := by
  decide

end Litex.C07
