import LitexModel.Codes.Code8b10b
namespace Litex.C17
open Litex.Code8b10b

theorem roundtrip : ∀ d < 256, ∀ k disp : Bool, (Sym.mk d k).Valid →
    decode1 (encode1 d k disp).1 = (d, k, false) := by decide +kernel

end Litex.C17
