import LitexProofs.Codes.NoBubble
/-
  C17 — 8b/10b coding is invertible, DC-balanced and comma-safe (`litex/soc/cores/code_8b10b.py`).

  `encode1 d k disp` / `decode1 word` transcribe `SingleEncoder` / `Decoder` over the ten tables regenerated from
  the repository on every run (`LitexModel/Generated/Tables8b10b.lean`).  A disparity bit is `false` for RD−,
  `true` for RD+; `rd` maps it to −1/+1.  `encodeSeq disp syms` is the successive encoding of a symbol sequence
  with chained running disparity, `serial` its bit stream in transmission order, `bal` = ones − zeros.
  The finite facts are checked by the kernel over the whole domain (all 256 bytes × K flag × both disparities,
  all 1024 decoder inputs); the sequence theorems are inductions over symbol sequences of arbitrary length.
-/
namespace Litex.C17
open Litex.Code8b10b Litex.Stream Litex.Stream.Elem

/-! ## Invertibility -/

/-- Every data byte and every defined control symbol, under either running disparity, decodes to itself with
    the right control flag and `invalid = 0`. -/
theorem roundtrip (s : Sym) (h : s.Valid) (disp : Bool) :
    decode1 (encode1 s.d s.k disp).1 = (s.d, s.k, false) :=
  fin_roundtrip s.d h.1 s.k disp h

/-- … hence for symbol sequences of any length, from either start disparity. -/
theorem roundtrip_seq (disp : Bool) (syms : List Sym) (h : AllValid syms) :
    (encodeSeq disp syms).map decode1 = syms.map fun s => (s.d, s.k, false) :=
  seq_roundtrip disp syms h

example : (Sym.mk 0xBC true).Valid ∧ (Sym.mk 0xF7 true).Valid ∧ ¬ (Sym.mk 0x00 true).Valid := by decide
example : (encode1 0xBC true false).1 = 0b0011111010 ∧ (encode1 0xBC true true).1 = 0b1100000101 := by decide

/-! ## DC balance -/

/-- `disp_out` differs from `disp_in` exactly by the disparity of the emitted word: a word is balanced (5 ones)
    iff the disparity is kept, has 6 ones iff RD− → RD+, 4 ones iff RD+ → RD−; the same for the 6b sub-block
    against `disp_inter` and the 4b sub-block.  Holds for all 1024 encoder inputs (also K on undefined symbols). -/
theorem disparity_step (d : Nat) (hd : d < 256) (k disp : Bool) :
    bal (bitsMsb 10 (encode1 d k disp).1) = rd (encode1 d k disp).2 - rd disp ∧
    bal (bitsMsb 6 ((encode1 d k disp).1 / 16)) = rd (dispInter (stage1 d k) disp) - rd disp ∧
    bal (bitsMsb 4 ((encode1 d k disp).1 % 16)) = rd (encode1 d k disp).2 - rd (dispInter (stage1 d k) disp) :=
  ⟨fin_disp_word d hd k disp, fin_disp_halves d hd k disp⟩

/-- Over any symbol sequence from either start: at every symbol boundary the running disparity (start value plus
    ones − zeros of everything emitted) equals the encoder's disparity bit, i.e. is −1 or +1 — within one bit of
    balance — and at every bit position inside a symbol it stays within [−3, +3]. -/
theorem running_disparity_bound (disp : Bool) (syms : List Sym) (h : Bytes syms) :
    (∀ k, rd disp + bal ((serial (encodeSeq disp syms)).take (10 * k)) = rd (dispAfter disp (syms.take k))) ∧
    (∀ k, rd disp + bal ((serial (encodeSeq disp syms)).take (10 * k)) = 1 ∨
          rd disp + bal ((serial (encodeSeq disp syms)).take (10 * k)) = -1) ∧
    (∀ m, -3 ≤ rd disp + bal ((serial (encodeSeq disp syms)).take m) ∧
          rd disp + bal ((serial (encodeSeq disp syms)).take m) ≤ 3) :=
  ⟨seq_disparity_boundary disp syms h,
   fun k => by rw [seq_disparity_boundary disp syms h k]; exact rd_cases _,
   seq_disparity_inside disp syms h⟩

example : bal (serial (encodeSeq false [⟨3, false⟩, ⟨3, false⟩, ⟨0xBC, true⟩])) = 2 ∧
    dispAfter false [⟨3, false⟩, ⟨3, false⟩, ⟨0xBC, true⟩] = true := by decide

/-! ## Run length -/

/-- No six equal bits in a row anywhere in the serial stream of any symbol sequence, from either start
    (stronger than the property: also with the K flag on undefined symbols). -/
theorem run_length_5 (disp : Bool) (syms : List Sym) (h : Bytes syms) (b : Bool) :
    ¬ List.replicate 6 b <:+: serial (encodeSeq disp syms) :=
  seq_run_length disp syms h b

/-- Five in a row does occur (K.28.5), so the bound is tight. -/
example : List.replicate 5 true <:+: serial (encodeSeq false [⟨0xBC, true⟩]) := by decide

/-! ## Comma safety -/

/-- In any sequence of data symbols, from either start, no 7-bit window of the serial stream — inside a word or
    across a word boundary — equals a comma `0011111` / `1100000`. -/
theorem no_false_comma (disp : Bool) (ds : List Nat) (h : ∀ d ∈ ds, d < 256) :
    ¬ [false, false, true, true, true, true, true] <:+: serial (encodeSeq disp (dataSyms ds)) ∧
    ¬ [true, true, false, false, false, false, false] <:+: serial (encodeSeq disp (dataSyms ds)) :=
  seq_no_comma disp ds h

/-- The comma control symbols do contain it (the statement is not vacuous about the pattern). -/
example : [false, false, true, true, true, true, true] <:+: serial (encodeSeq false [⟨0xBC, true⟩]) := by decide

/-! ## Invalid detection -/

/-- `invalid` is raised exactly for the inputs whose number of ones is not 4, 5 or 6 (all 1024 inputs); in
    particular every word with an impossible number of ones is reported. -/
theorem invalid_ones (w : Nat) (h : w < 1024) :
    (decode1 w).2.2 = true ↔ ¬ (ones10 w = 4 ∨ ones10 w = 5 ∨ ones10 w = 6) := by
  rw [fin_invalid w h]
  simp [and_assoc]

example : (decode1 0b1111111000).2.2 = true ∧ (decode1 0b0011111010).2.2 = false := by decide

/-! ## Multi-word encoder -/

/-- `Encoder(nwords, lsb_first)` for every `ce` pattern: once two enabled edges have passed, the `n` parallel
    output words are the `n` successive single encodings of the group presented at the last-but-one enabled edge,
    chained from the running disparity left by all earlier groups (RD− at reset), in either bit order; the
    `disparity` outputs are the running disparities after each word. -/
theorem encoderN_chain (n : Nat) (lsb : Bool) (ins : List (Bool × List Sym))
    (pre : List (List Sym)) (g last : List Sym) (h : enabledGroups ins = pre ++ [g, last]) :
    ((encoder n lsb).run ins).outs = (encodeSeq (dispAfter false pre.flatten) g).map (fmt lsb) ∧
    ((encoder n lsb).run ins).disps = dispSeq (dispAfter false pre.flatten) g ∧
    ((encoder n lsb).run ins).disp = dispAfter false (pre.flatten ++ g) := by
  have hr : (encoder n lsb).run ins = encRun lsb n (pre ++ [g, last]) := by
    rw [← h]; exact encoder_runFrom n lsb ins _
  rw [hr]
  obtain ⟨h1, h2, h3, _⟩ := encRun_two lsb n pre g last
  exact ⟨h1, h2, h3⟩

example : enabledGroups [(true, [⟨3, false⟩, ⟨0xBC, true⟩]), (false, []), (true, [⟨5, false⟩, ⟨6, false⟩])] =
    [] ++ [[⟨3, false⟩, ⟨0xBC, true⟩], [⟨5, false⟩, ⟨6, false⟩]] := by decide

/-- `Decoder(lsb_first)` for every `ce` pattern: its outputs are the decoding of the last word presented at an
    enabled edge, held across any number of disabled cycles; if that word is the encoder's output for a valid
    symbol (same bit order, either disparity) the outputs are that symbol with `invalid = 0`. -/
theorem decoder_ce_roundtrip (lsb : Bool) (ins : List (Bool × Nat)) (s : Sym) (hs : s.Valid) (disp : Bool)
    (h : lastEnabled ins = some (fmt lsb (encode1 s.d s.k disp).1)) (i : Bool × Nat) :
    (decoder lsb).out ((decoder lsb).run ins) i = (s.d, s.k, false) := by
  have hr : (decoder lsb).run ins = decStep lsb (fmt lsb (encode1 s.d s.k disp).1) := by
    have := decoder_runFrom lsb ins (decoder lsb).init
    rw [h] at this
    exact this
  rw [hr]
  cases lsb
  · have hw := fin_word_lt s.d hs.1 s.k disp
    simp only [decoder, decStep, fmt, Bool.false_eq_true, ite_false, Nat.mod_eq_of_lt hw]
    exact fin_roundtrip s.d hs.1 s.k disp hs
  · exact fin_roundtrip_lsb s.d hs.1 s.k disp hs

example : lastEnabled [(true, 5), (true, 0b0011111010), (false, 7), (false, 9)] = some 0b0011111010 := by decide

/-! ## Stream wrappers, every valid/ready schedule -/

/-- `StreamDecoder(n)`: the accepted words, decoded, are the delivered tokens followed by the one in the output
    stage — nothing lost, duplicated or reordered, first/last preserved. -/
theorem streamDecoder_token_rel (n : Nat) (ins : List (In (List Nat))) :
    ((streamDecoder n).accepted (streamDecoder n).init ins).map decTok =
      (streamDecoder n).delivered (streamDecoder n).init ins ++
        decInflight n ((streamDecoder n).runFrom (streamDecoder n).init ins) :=
  rel_run_init (streamDecoder n) (decRel n) (by simp [decRel, streamDecoder, pipe1, decInflight])
    (streamDecoder_step n) ins

/-- `StreamEncoder(n)`: if the accepted tokens consist of bytes / defined control symbols, decoding everything
    delivered and in flight gives back the accepted tokens — also across bubbles and stalls. -/
theorem streamEncoder_decodable (n : Nat) (ins : List (In (List Sym)))
    (h : ∀ t ∈ (streamEncoder n).accepted (streamEncoder n).init ins, AllValid t.data) :
    (streamEncoder n).accepted (streamEncoder n).init ins =
      ((streamEncoder n).delivered (streamEncoder n).init ins ++
        encInflight ((streamEncoder n).runFrom (streamEncoder n).init ins)).map decTok :=
  rel_run_init (streamEncoder n) encRel (by simp [encRel, streamEncoder, pipe2, encInflight])
    (streamEncoder_step n) ins h

/-- `StreamEncoder(n)` connected to `StreamDecoder(n)`: for every valid/ready schedule, the decoded token stream
    is the accepted one (tokens of valid symbols), in order, up to the at most three tokens still in flight. -/
theorem stream_roundtrip (n : Nat) (ins : List (In (List Sym))) :
    let e := (streamEncoder n).comp (streamDecoder n)
    (∀ t ∈ e.accepted e.init ins, AllValid t.data) →
      e.accepted e.init ins =
        e.delivered e.init ins ++ decInflight n (e.runFrom e.init ins).2 ++
          (encInflight (e.runFrom e.init ins).1).map decTok ∧
      e.delivered e.init ins <+: e.accepted e.init ins ∧
      (e.accepted e.init ins).length ≤ (e.delivered e.init ins).length + 3 := by
  intro e hv
  have h := rel_run_init e (fun s x d => ∃ mid, encRel s.1 x mid ∧ decRel n s.2 mid d)
    ⟨[], by simp [e, encRel, comp, streamEncoder, pipe2, encInflight],
         by simp [e, decRel, comp, streamDecoder, pipe1, decInflight]⟩
    (comp_rel (streamEncoder n) (streamDecoder n) encRel (decRel n) (streamEncoder_step n)
      (streamDecoder_step n)) ins
  obtain ⟨mid, h1, h2⟩ := h
  have h1' := h1 hv
  unfold decRel at h2
  have heq : e.accepted e.init ins =
      e.delivered e.init ins ++ decInflight n (e.runFrom e.init ins).2 ++
        (encInflight (e.runFrom e.init ins).1).map decTok := by
    rw [h1', List.map_append, h2]
  refine ⟨heq, ?_, ?_⟩
  · rw [heq, List.append_assoc]; exact List.prefix_append _ _
  · rw [heq]
    simp only [List.length_append, List.length_map, decInflight, encInflight]
    split <;> split <;> split <;> simp

/-- Full statement (FALSE on the code as it is): for every schedule the words delivered by `StreamEncoder` are the
    chained encoding of the accepted symbols, so that the delivered serial stream is DC balanced.
        theorem stream_disparity_open : ∀ ins, … delivered words = chained encoding of accepted symbols …
    The encoder's disparity register is clocked by `pipe_ce` also when `sink.valid = 0`, with whatever is on the
    data lines (see the negative witness below).  Proved: the statement in the region
    "every enabled cycle carries a valid token" (`NoBubble`): the serial stream delivered (lsb-first words, word 0
    first) is exactly the chained encoding from RD− of all accepted symbols but those of the last two tokens
    (still in the pipeline); hence running disparity ±1 at word boundaries, within ±3 inside, no run of six, and
    no comma if only data symbols were accepted. -/
theorem stream_disparity_partial (n : Nat) (ins : List (In (List Sym)))
    (hnb : NoBubble (streamEncoder n) ins)
    (hb : ∀ t ∈ (streamEncoder n).accepted (streamEncoder n).init ins, Bytes t.data) :
    let acc := (streamEncoder n).accepted (streamEncoder n).init ins
    let bits := serialLsb (((streamEncoder n).delivered (streamEncoder n).init ins).flatMap (·.data))
    let syms := acc.dropLast.dropLast.flatMap (·.data)
    bits = serial (encodeSeq false syms) ∧
    (∀ k, rd false + bal (bits.take (10 * k)) = 1 ∨ rd false + bal (bits.take (10 * k)) = -1) ∧
    (∀ m, -3 ≤ rd false + bal (bits.take m) ∧ rd false + bal (bits.take m) ≤ 3) ∧
    (∀ b, ¬ List.replicate 6 b <:+: bits) ∧
    ((∀ t ∈ acc, ∀ s ∈ t.data, s.k = false) →
      ¬ [false, false, true, true, true, true, true] <:+: bits ∧
      ¬ [true, true, false, false, false, false, false] <:+: bits) := by
  intro acc bits syms
  have h := rel_run_along (streamEncoder n) (nbRel n) (NoBubbleAt (streamEncoder n))
    (streamEncoder_nb_step n) ins (streamEncoder n).init [] []
    (by simp [nbRel, streamEncoder, pipe2, encDatapath, encRun, encodeSeq]) hnb
  simp only [List.nil_append] at h
  obtain ⟨_, _, _, hd⟩ := h
  have hsyms : Bytes syms := by
    intro s hs
    simp only [syms, List.mem_flatMap] at hs
    obtain ⟨t, ht, hst⟩ := hs
    exact hb t (mem_of_mem_dropLast2 ht) s hst
  have hbits : bits = serial (encodeSeq false syms) := by
    simp only [bits]
    rw [hd]
    exact serialLsb_fmt _ (encodeSeq_lt false syms hsyms)
  obtain ⟨_, hb1, hb2⟩ := running_disparity_bound false syms hsyms
  refine ⟨hbits, ?_, ?_, ?_, ?_⟩
  · rw [hbits]; exact hb1
  · rw [hbits]; exact hb2
  · rw [hbits]; exact run_length_5 false syms hsyms
  · intro hk
    have hdata : syms = dataSyms (syms.map (·.d)) := by
      simp only [dataSyms, List.map_map]
      conv => lhs; rw [← List.map_id syms]
      apply List.map_congr_left
      intro s hs
      simp only [syms, List.mem_flatMap] at hs
      obtain ⟨t, ht, hst⟩ := hs
      have := hk t (mem_of_mem_dropLast2 ht) s hst
      cases s; simp_all
    rw [hbits, hdata]
    exact no_false_comma false _ (by
      intro d hd
      simp only [List.mem_map] at hd
      obtain ⟨s, hs, rfl⟩ := hd
      exact hsyms s hs)

/-- A producer that always offers a token (D3.0, D3.0, D3.0, D5.0, …) with a consumer that stalls. -/
def fullIns : List (In (List Sym)) :=
  let t (d : Nat) : Tok (List Sym) := ⟨[⟨d, false⟩], false, false⟩
  [⟨true, t 3, true⟩, ⟨true, t 3, false⟩, ⟨true, t 3, true⟩, ⟨true, t 5, false⟩, ⟨false, t 9, false⟩,
   ⟨true, t 5, true⟩]

/-- Non-vacuity of the region: `fullIns` satisfies `NoBubble`, and tokens are really delivered. -/
example : NoBubble (streamEncoder 1) fullIns ∧
    ((streamEncoder 1).delivered (streamEncoder 1).init fullIns).map (·.data) =
      [[rev10 0b1100011011], [rev10 0b1100010100]] := by
  decide +kernel

/-- D3.0 tokens separated by one `valid = 0` cycle with the data lines unchanged, consumer always ready. -/
def bubbleIns : List (In (List Sym)) :=
  let t : Tok (List Sym) := ⟨[⟨3, false⟩], false, false⟩
  [⟨true, t, true⟩, ⟨false, t, true⟩, ⟨true, t, true⟩, ⟨false, t, true⟩, ⟨true, t, true⟩, ⟨false, t, true⟩,
   ⟨true, t, true⟩, ⟨false, t, true⟩, ⟨false, t, true⟩, ⟨false, t, true⟩]

def bubbleWords : List Nat :=
  ((streamEncoder 1).delivered (streamEncoder 1).init bubbleIns).flatMap (·.data)

/-- **Negative witness** (known finding `C17-stream-bubble-disparity`) on `bubbleIns`: every delivered word has
    6 ones, the cumulative disparity of the delivered stream is 2, 4, 6, 8 — the conclusion of
    `stream_disparity_partial` fails (its hypothesis `NoBubble` fails on this schedule), while the words still
    decode correctly. -/
example :
    ¬ NoBubble (streamEncoder 1) bubbleIns ∧
    bubbleWords.map ones10 = [6, 6, 6, 6] ∧
    bal (serialLsb bubbleWords) = 8 ∧
    ¬ (rd false + bal ((serialLsb bubbleWords).take (10 * 2)) = 1 ∨
       rd false + bal ((serialLsb bubbleWords).take (10 * 2)) = -1) ∧
    bubbleWords.map decodeSym = [⟨3, false⟩, ⟨3, false⟩, ⟨3, false⟩, ⟨3, false⟩] := by
  decide +kernel

end Litex.C17
