import LitexProofs.Bridge.Axl2Wb
import LitexProofs.Bridge.Wb2Axl
import LitexProofs.Bridge.Simple
import LitexProofs.Bridge.Down
import LitexProofs.Bridge.DownOpen
import LitexProofs.Bridge.DownBytes
import LitexProofs.Bridge.Up
import LitexProofs.Bridge.Ahb2Wb
import LitexProofs.Bridge.Axi2Axl
import LitexProofs.Bridge.Adapter
import LitexProofs.Bridge.DownRW
import LitexProofs.Bridge.Chain
import LitexModel.Bridge.NumChain
/-
  C09 — Bus bridges and AXI-Lite converters preserve memory semantics and protocol rules.

  Models (`LitexModel/Bridge/*`): one Mealy machine per bridge with BOTH sides open (inputs = what the bus master
  drives and what the slave-side partner drives, per cycle).  Specification (`LitexModel/Bridge/Spec.lean`):
    * `AxlGhost` / `WbGhost` — observers fed with the port signals of each cycle only: which valids must be
      repeated (`reqHeld`, `rspHeld`), which requests are pending, and the reference byte memory `ref` the master
      is entitled to (`memOk`: one response per request, read data = reference content, a write reaches the
      reference at its OKAY response);
    * `wbMemRsp/wbMemNext`, `AxlMem` — memory-behaved partners whose latency (and, for AXI-Lite, acceptance order,
      internal execution time, response time, queue depth) is chosen by an oracle input every cycle.
  Quantifiers: every theorem below is for ALL input sequences `ins` (induction over the run), i.e. all
  transaction histories, all master timings allowed by the protocol (`reqHeld` is the only assumption: a
  presented request is repeated until accepted), all partner latencies/timings, and all configurations
  (address width, lane count, address shift, base address are variables).
-/
/-
  INVENTORY of the anchored code (session 2).  "tie": A = exhaustive product co-exploration of model and netlist with
  both sides open, B = seeded lock-step co-simulation with protocol environments, D = differential over an enumerated
  grid of constructor arguments, M = model-independent monitors only (flat memory / stability / errors / bursts /
  progress).

  file / class or function                     | Lean model                           | theorems                                   | tie
  ---------------------------------------------+--------------------------------------+--------------------------------------------+------
  axi_lite_to_wishbone.py
    AXILite2Wishbone                           | Bridge/Axl2Wb (+ Closed: sys/osys/   | axl2wb_refines_mem, _valid_stable, _fair,  | A B M
                                               |  fsys)                               |  _err_partial (+ negative witness)         |
    Wishbone2AXILite                           | Bridge/Wb2Axl                        | wb2axl_refines_mem, _valid_stable, _err,   | A B M
                                               |                                      |  _base_address                             |
  axi_full_to_axi_lite.py
    AXI2AXILite                                | Bridge/Axi2Axl (AXIBurst2Beat: C10's | axi2axl_read_burst_partial, _bursts_partial| A B M
                                               |  Litex.Axi.b2b*)                     |  (3 negative witnesses), _as_built         |
    AXILite2AXI (write_id/read_id/prot/burst)  | Bridge/Axi2Axl: Axl2Axi (stateless)  | axl2axi_wiring (every input, all params)   | B M
  axi_full_to_wishbone.py
    AXI2Wishbone                               | composition numAxi2Wb (Num.lean)     | per-element theorems; byte map             | A B M
    Wishbone2AXI                               | composition numWb2Axi                |  adapter_elem_preserves_byte               | A B M
  axi_lite_to_csr.py
    AXILite2CSR (register=False/True unused)   | Bridge/Simple: Axl2Csr               | axl2csr_refines_regs                       | A B M
  axi_lite.py
    ax/w/b/r_lite_description, AXILiteInterface| port records Ports.lean (widths =    | -                                          | field widths checked (c09lib.field_widths)
                                               |  harness parameters)                 |                                            |
    AXILiteInterface.write/read (sim helpers)  | not modelled (test-bench generators) | -                                          | -
    AXILiteRemapper                            | not modelled (C13/C14: address maps) | -                                          | -
    axi_lite_to_simple                         | Bridge/Simple                        | axlsram_refines_mem, axl2csr_refines_regs  | A B M
    AXILiteSRAM (size / Memory / default bus,  | Bridge/Simple: AxlSram, Closed:      | axlsram_refines_mem                        | A B M
      read_only)                               |  AxlSramM                            |                                            |
    _AXILiteDownConverterWrite                 | Bridge/Down: DownW                   | axldown_write_refines_mem,                 | A B M
                                               |                                      |  _write_stable_sticky, _reference_is_byte_ |
                                               |                                      |  memory, axldown_rw_* (reads + writes      |
                                               |                                      |  interleaved)                              |
    _AXILiteDownConverterRead                  | Bridge/Down: DownR                   | axldown_read_refines_mem,                  | A B M
                                               |                                      |  _read_stable_sticky, axldown_rw_*         |
    AXILiteDownConverter                       | Down.machine (product)               | axldown_rw_* over ONE shared memory        | A B M
    AXILiteUpConverter                         | Bridge/Up                            | axlup_lane_partial (+ negative witness),   | A B M
                                               |                                      |  axlup_passthrough                         |
    AXILiteConverter (down / up / direct)      | Adapter.converterChoice              | converter_choice_total                     | D B M
    AXILiteClockDomainCrossing                 | not here (C05: CDC)                  | -                                          | -
    AXILiteTimeout, _AXILiteRequestCounter,    | not here (C08 interconnect, C11      | -                                          | -
      AXILiteArbiter, AXILiteDecoder,          |  timeouts)                           |                                            |
      AXILiteInterconnect*, AXILiteCrossbar    |                                      |                                            |
  ahb.py
    AHBTransferType, ahb_description,          | constants / port record in           | -                                          | A B
      AHBInterface                             |  Bridge/Ahb2Wb                       |                                            |
    AHB2Wishbone                               | Bridge/Ahb2Wb                        | ahb2wb_sel_table, _refines_mem, _resp      | A B M
  soc.py
    SoCBusHandler.add_adapter                  | Bridge/Adapter: adapterChain         | adapter_result_is_bus,                     | D (all combinations) + B M
      bus_data_width_convert                   |   widthStep                          |  adapter_chain_linked,                     |  on 20 built chains
      bus_addressing_convert                   |   addrStep (+ elemByte wbAddressing) |  adapter_elem_preserves_byte,              | D + netlist wiring
      bus_standard_convert                     |   stdStep, bridgeOf                  |  adapter_chain_preserves_bytes             | D
    (wishbone.Converter, AXIConverter: C07/C10;| elemByte: their byte maps only       |  (same theorems)                           | D (wishbone.Converter byte map)
      selected here)                           |                                      |                                            |
    chain AXILiteDownConverter ; AXILite2Wishbone | Chain.machine / Chain.sys (ClosedChain,  | chain_down_axl2wb_protocol (any Wishbone   | B (real add_adapter chain
      (built by add_adapter, axi-lite/wide ->  |  NumChain)                           |  partner, all ports), chain_sys_is_tied_   |  vs composite) M
      wishbone/narrow)                         |                                      |  machine                                   |
  Cycle-level composition is proved for ONE chain shape (down-converter ; AXILite2Wishbone: protocol legality on every
  port for any Wishbone partner).  For the other chains the chain theorem is at the transaction level (which byte of
  the flat memory a byte lane of a master transfer is carried to) and the protocol interplay of the composed elements
  is tied by monitors on the built chains.  Not done: AXILite2CSR over the C12 bank model (the bank truncates and
  splits registers into words; it does not refine the simple register file of axl2csr_refines_regs without a new
  abstraction); memory refinement (data) of a composed chain at cycle level.
-/
namespace Litex.C09
open Litex Litex.Bridge

/-! ## AXILite2Wishbone -/
section Axl2WbThms
variable (c : A2WCfg)

/-- **Memory semantics.**  AXILite2Wishbone in front of a Wishbone byte memory of arbitrary latency: for every
    behaviour of a protocol-following AXI-Lite master and every latency choice of the memory, in every cycle
    (1) presented B / R responses are repeated unchanged until taken,
    (2) a response is only presented for an accepted request, a second request is never accepted while one is
        pending, and read data is the reference content of word `(addr - base)[shift:]` (`AxlGhost.memOk`),
    (3) the memory behind the bridge equals the master's reference memory except while the response of a
        performed write is still pending. -/
theorem axl2wb_refines_mem (mem0 : Mem) (ins : List (AxlM × WbOracle)) :
    let S := Axl2Wb.sys c mem0
    S.LegalFrom (fun s i => s.g.reqHeld i.1) S.init ins →
    S.AlwaysFrom (fun s i =>
        s.g.rspHeld (S.out s i).1 ∧ s.g.memOk (byteRd c.nb (Axl2Wb.wbAdr c)) i.1 (S.out s i).1 ∧
        (s.br.st ≠ .sendB → s.mem = s.g.ref)) S.init ins := by
  intro S
  refine Machine.always_of_invariant S _ _ (Axl2Wb.Inv c) (fun s i hinv hok => ?_) ins S.init ?_
  · exact Axl2Wb.step c s i hinv hok
  · simp [S, Axl2Wb.sys, Axl2Wb.Inv, Axl2Wb.init, AxlGhost.init]

/-- **Valid stability, any partner.**  Whatever the Wishbone partner answers (arbitrary `ack`/`dat_r`/`err`
    every cycle), with a protocol-following AXI-Lite master: a presented Wishbone request (`cyc ∧ stb`, `we`,
    `adr`, `sel`, `dat_w`) is repeated unchanged until the cycle of its `ack`, and presented B / R responses are
    repeated unchanged until taken. -/
theorem axl2wb_valid_stable (ins : List (AxlM × WbS)) :
    let S := Axl2Wb.osys c
    S.LegalFrom (fun s i => s.g.reqHeld i.1) S.init ins →
    S.AlwaysFrom (fun s i => s.h.reqHeld (S.out s i).2 ∧ s.g.rspHeld (S.out s i).1) S.init ins := by
  intro S
  refine Machine.always_of_invariant S _ _ (Axl2Wb.OInv c) (fun s i hinv hok => ?_) ins S.init ?_
  · exact Axl2Wb.ostep c s i hinv hok
  · simp [S, Axl2Wb.osys, Axl2Wb.OInv, Axl2Wb.init, AxlGhost.init, WbGhost.init]

/-- **Read/write alternation.**  For any partner and any protocol-following master: while a read address is
    waiting, at most one write transaction is started before it (`wOver ≤ 1`), and symmetrically. -/
theorem axl2wb_fair (ins : List (AxlM × WbS)) :
    let S := Axl2Wb.fsys c
    S.LegalFrom (fun s i => s.g.reqHeld i.1) S.init ins →
    (S.runFrom S.init ins).wOver ≤ 1 ∧ (S.runFrom S.init ins).rOver ≤ 1 := by
  intro S hl
  have h := Machine.invariant_of_legal S _ Axl2Wb.FInv (fun s i hinv hok => Axl2Wb.fstep c s i hinv hok) ins S.init
    (by simp [S, Axl2Wb.fsys, Axl2Wb.FInv, Axl2Wb.init, AxlGhost.init]) hl
  exact ⟨h.1, h.2.1⟩

/-- Non-vacuity: a write of 0xAB to address 5 (base 4, byte-wide bus) by a master that holds its requests, memory
    acknowledging at once: the run is legal, ends idle, and the memory behind the bridge holds the byte. -/
example :
    let c : A2WCfg := { aw := 4, nb := 1, shift := 0, base := 4 }
    let S := Axl2Wb.sys c (fun _ => 0)
    let w : AxlM := { AxlM.idle with awvalid := true, awaddr := 5, wvalid := true, wdata := 0xAB, wstrb := 1, bready := true }
    let ins : List (AxlM × WbOracle) := [(w, ⟨true, 0⟩), (w, ⟨true, 0⟩), ({ AxlM.idle with bready := true }, ⟨false, 0⟩)]
    S.LegalFrom (fun s i => s.g.reqHeld i.1) S.init ins ∧ (S.runFrom S.init ins).br.st = .idle ∧
      (S.runFrom S.init ins).mem 1 = 0xAB := by
  refine ⟨?_, ?_, ?_⟩ <;> simp [Machine.LegalFrom, Machine.runFrom, Axl2Wb.sys, Axl2Wb.sysOut, Axl2Wb.init,
    Axl2Wb.next, Axl2Wb.toSlave, Axl2Wb.toMaster, AxlGhost.reqHeld, AxlGhost.next, AxlGhost.init, AxlM.idle, AxlS.idle,
    wbMemRsp, wbMemNext, WbM.active, Axl2Wb.wbAdr, subTrunc, Mem.writeWord, Mem.writeMasked, selBits, wordBytes, byteWr]

/-- FULL STATEMENT (false on the code, finding C09-axil2wb-err-ignored):
      a Wishbone cycle terminated with `ack ∧ err` is answered on AXI-Lite with a response ≠ OKAY.
    The code never reads `wishbone.err`.  What holds: every response the bridge gives is OKAY, which is the right
    answer exactly when the partner never raises `err` — the hypothesis of `axl2wb_refines_mem` (`wbMemRsp` has
    `err = false`). -/
theorem axl2wb_err_partial (s : A2WState) (m : AxlM) (r : WbS) :
    (Axl2Wb.toMaster s m r).bresp = respOkay ∧ (Axl2Wb.toMaster s m r).rresp = respOkay := by
  cases h : s.st <;> simp [Axl2Wb.toMaster, h, AxlS.idle, respOkay]

/-- Negative witness: a read acknowledged with `err` is answered `r.valid ∧ r.resp = OKAY`. -/
example :
    let c : A2WCfg := { aw := 32, nb := 4, shift := 2, base := 0 }
    let S := Axl2Wb.machine c
    let rd : AxlM := { AxlM.idle with arvalid := true, araddr := 0x10, rready := true }
    let s := S.runFrom S.init [(rd, WbS.idle), (rd, { ack := true, datr := 0xDEAD, err := true })]
    (S.out s (AxlM.idle, WbS.idle)).1.rvalid = true ∧ (S.out s (AxlM.idle, WbS.idle)).1.rresp = respOkay := by
  decide

/-- Why `reqHeld` (a presented W is held until taken — AXI A3.2.1) is an assumption of every theorem about
    `AXILite2Wishbone`, not a finding: a master that WITHDRAWS `w.valid` in the cycle a registered-ack Wishbone slave
    (`wishbone.SRAM`) acknowledges sees `aw.ready ∧ w.ready` with `w.valid = 0` — the address is consumed without its
    data (behind `AXI2AXILite` the W beats then pair with the wrong AW beats and the last one is never accepted: the
    hang the C10 builder's first driver ran into).  The run violates `reqHeld` in its third cycle. -/
example :
    let c : A2WCfg := { aw := 32, nb := 4, shift := 2, base := 0 }
    let S := Axl2Wb.osys c
    let aww : AxlM := { AxlM.idle with awvalid := true, awaddr := 0x10, wvalid := true, wdata := 7, wstrb := 15 }
    let awo : AxlM := { aww with wvalid := false }
    let s := S.runFrom S.init [(aww, WbS.idle), (aww, WbS.idle)]
    let o := S.out s (awo, { ack := true, datr := 0, err := false })
    (S.out s (aww, WbS.idle)).2.stb = true ∧ o.1.awready = true ∧ o.1.wready = true ∧
    (S.next s (awo, { ack := true, datr := 0, err := false })).br.st = .sendB ∧ ¬ s.g.reqHeld awo := by
  refine ⟨by decide, by decide, by decide, by decide, ?_⟩
  intro h
  have := (h.2.1 (7, 15) (by decide)).1
  exact absurd this (by decide)

end Axl2WbThms

/-! ## Wishbone2AXILite -/
section Wb2AxlThms
variable (c : W2ACfg) (nb : Nat)

/-- **Memory semantics.**  Wishbone2AXILite in front of an AXI-Lite byte memory that may accept requests early
    or late, execute them after any delay and present responses after any further delay (all chosen by the
    oracle input, cycle by cycle): for every classic Wishbone master, every `ack` answers a presented strobe,
    a read `ack` carries the reference content of the addressed word, a write reaches the reference memory at
    its `ack`, and between bus cycles the memory behind the bridge equals the reference memory.
    The addressed word is `axAddr c adr / nb`, the byte address minus the base (`wb2axl_base_address`). -/
theorem wb2axl_refines_mem (mem0 : Mem) (ins : List (WbM × AxlOracle)) :
    let S := Wb2Axl.sys c nb mem0
    S.LegalFrom (fun s i => s.g.reqHeld i.1) S.init ins →
    S.AlwaysFrom (fun s i =>
        s.g.memOk nb (Wb2Axl.amap c nb) i.1 (S.out s i).1 ∧ (s.br.st = .idle → s.p.mem = s.g.ref)) S.init ins := by
  intro S
  refine Machine.always_of_invariant S _ _ (Wb2Axl.Inv c nb) (fun s i hinv hok => ?_) ins S.init ?_
  · exact Wb2Axl.step c nb s i hinv hok
  · simp [S, Wb2Axl.sys, Wb2Axl.Inv, Wb2Axl.init, AxlMem.init, WbGhost.init]

/-- **Valid stability, any partner.**  Whatever the AXI-Lite partner does (arbitrary readies, valids, responses
    every cycle — legal or not), with a classic Wishbone master: AW, W and AR, once presented, are repeated with
    unchanged address / data / strobe until the cycle of their ready. -/
theorem wb2axl_valid_stable (ins : List (WbM × AxlS)) :
    let S := Wb2Axl.osys c
    S.LegalFrom (fun s i => s.g.reqHeld i.1) S.init ins →
    S.AlwaysFrom (fun s i => s.h.reqHeld (S.out s i).2) S.init ins := by
  intro S
  refine Machine.always_of_invariant S _ _ (Wb2Axl.OInv c) (fun s i hinv hok => ?_) ins S.init ?_
  · exact Wb2Axl.ostep c s i hinv hok
  · simp [S, Wb2Axl.osys, Wb2Axl.OInv, Wb2Axl.init, AxlGhost.init]

/-- **Error propagation** (every state, every input).  `err` is raised exactly in the ERROR state and always with
    `ack`; a non-OKAY B or R taken by the bridge leads to ERROR without acknowledging, an OKAY one acknowledges
    without `err` in the same cycle (a read with the partner's data). -/
theorem wb2axl_err (s : W2AState) (m : WbM) (r : AxlS) :
    (((Wb2Axl.toMaster s m r).err = true ↔ s.st = .error) ∧ (s.st = .error → (Wb2Axl.toMaster s m r).ack = true)) ∧
    (s.st = .write → r.bvalid = true → (Wb2Axl.toSlave c s m).bready = true →
      (r.bresp ≠ respOkay → (Wb2Axl.next s m r).st = .error ∧ (Wb2Axl.toMaster s m r).ack = false) ∧
      (r.bresp = respOkay → (Wb2Axl.toMaster s m r).ack = true ∧ (Wb2Axl.toMaster s m r).err = false)) ∧
    (s.st = .read → r.rvalid = true → (Wb2Axl.toSlave c s m).rready = true →
      (r.rresp ≠ respOkay → (Wb2Axl.next s m r).st = .error ∧ (Wb2Axl.toMaster s m r).ack = false) ∧
      (r.rresp = respOkay → (Wb2Axl.toMaster s m r).ack = true ∧ (Wb2Axl.toMaster s m r).err = false ∧
        (Wb2Axl.toMaster s m r).datr = r.rdata)) := by
  refine ⟨Wb2Axl.err_iff s m r, fun hs hv hr => ?_, fun hs hv hr => ?_⟩
  · have h := Wb2Axl.err_write c s m r hs hv hr
    exact ⟨h.1, fun hb => (h.2 hb).2⟩
  · have h := Wb2Axl.err_read c s m r hs hv hr
    exact ⟨h.1, fun hb => (h.2 hb).2⟩

/-- **Base address** (all word sizes, both addressings; the code as of fix 8039af6).  For a base address
    aligned to the bus word, the AXI-Lite address is the Wishbone byte address minus `base_address`, modulo the
    address width.  (Before the fix `base_address // 4` was subtracted from the word address whatever the word
    size: 64-bit bus, base 0x1000, byte address 0x1018 went out as 0xfffff018 — fixed finding
    C09-wb2axil-base-address-dw64.) -/
theorem wb2axl_base_address (hb : c.base % 2 ^ c.shift = 0) (adr : Nat) :
    Wb2Axl.axAddr c adr = subTrunc (c.adrBits + c.shift) (adr * 2 ^ c.shift) c.base :=
  Wb2Axl.axAddr_correct c hb adr

/-- The witness of the fixed finding now gives the right address: 64-bit bus (`shift = 3`, 29 word-address
    bits), base 0x1000, byte address 0x1018 (word 0x203) goes out as 0x18. -/
example :
    let c : W2ACfg := { adrBits := 29, shift := 3, base := 0x1000 }
    Wb2Axl.axAddr c 0x203 = 0x18 ∧ c.base % 2 ^ c.shift = 0 := by decide

/-- Non-vacuity of `wb2axl_refines_mem`: a held write of 0x5A to word 3, partner accepting and executing at once;
    the run is legal, the bus cycle completes and the partner memory holds the byte. -/
example :
    let c : W2ACfg := { adrBits := 4, shift := 0, base := 0 }
    let S := Wb2Axl.sys c 1 (fun _ => 0)
    let w : WbM := { cyc := true, stb := true, we := true, adr := 3, sel := 1, datw := 0x5A }
    let o : AxlOracle := ⟨true, true, true, true, true, true, true⟩
    let ins : List (WbM × AxlOracle) := [(w, o), (w, o), (w, o), (w, o)]
    S.LegalFrom (fun s i => s.g.reqHeld i.1) S.init ins ∧ (S.runFrom S.init ins).br.st = .idle ∧
      (S.runFrom S.init ins).p.mem 3 = 0x5A ∧ (S.runFrom S.init ins).g.ref 3 = 0x5A := by
  refine ⟨?_, ?_, ?_, ?_⟩ <;> simp [Machine.LegalFrom, Machine.runFrom, Wb2Axl.sys, Wb2Axl.sysOut, Wb2Axl.init,
    Wb2Axl.next, Wb2Axl.toSlave, Wb2Axl.toMaster, WbGhost.reqHeld, WbGhost.next, WbGhost.init, AxlM.idle, WbS.idle,
    AxlMem.init, AxlMem.out, AxlMem.next, WbM.active, Wb2Axl.axAddr, Wb2Axl.amap, subTrunc, Mem.writeWord,
    Mem.writeMasked, selBits, wordBytes, respOkay]

end Wb2AxlThms

/-! ## axi_lite_to_simple: AXILiteSRAM and AXILite2CSR -/
section SimpleThms
variable (c : SimpleCfg)

/-- **AXILiteSRAM is a flat byte memory.**  For every behaviour of a protocol-following AXI-Lite master
    (AW before/after/with W, reads and writes presented concurrently, responses taken late): responses are
    repeated until taken, one response per request, read data is the reference content of word
    `addr[shift:] mod 2^adrBits`, a write reaches the reference at its response, and the storage equals the
    reference memory except while the response of a performed write is pending. -/
theorem axlsram_refines_mem (mem0 : Mem) (ins : List AxlM) :
    let S := AxlSramM.sys c mem0
    S.LegalFrom (fun s m => s.g.reqHeld m) S.init ins →
    S.AlwaysFrom (fun s m =>
        s.g.rspHeld (S.out s m) ∧ s.g.memOk (byteRd c.nb (Simple.portAdrOf c)) m (S.out s m) ∧
        (s.fe.st ≠ .sendB → s.mem = s.g.ref)) S.init ins := by
  intro S
  refine Machine.always_of_invariant S _ _ (AxlSramM.Inv c) (fun s i hinv hok => ?_) ins S.init ?_
  · exact AxlSramM.step c s i hinv hok
  · simp [S, AxlSramM.sys, AxlSramM.Inv, Simple.init, AxlGhost.init]

/-- **AXILite2CSR gives register semantics.**  In front of a register file that answers like a CSR bank (read
    data one cycle after the address): one response per request, read data is the reference value of register
    `addr[shift:]`, a write with any strobe bit replaces the whole register (an all-zero strobe writes nothing)
    and reaches the reference at its response. -/
theorem axl2csr_refines_regs (regs0 : Axl2Csr.Regs) (ins : List AxlM) :
    let S := Axl2Csr.sys c regs0
    S.LegalFrom (fun s m => s.g.reqHeld m) S.init ins →
    S.AlwaysFrom (fun s m =>
        s.g.rspHeld (S.out s m).1 ∧ s.g.memOk (Axl2Csr.regRd c) m (S.out s m).1 ∧
        (s.fe.st ≠ .sendB → s.regs = s.g.ref)) S.init ins := by
  intro S
  refine Machine.always_of_invariant S _ _ (Axl2Csr.Inv c) (fun s i hinv hok => ?_) ins S.init ?_
  · exact Axl2Csr.step c s i hinv hok
  · simp [S, Axl2Csr.sys, Axl2Csr.Inv, Simple.init, AxlGhost.init]

end SimpleThms

/-! ## AXI-Lite width converters -/
section ConvThms

/-- **Down-converter, write path (any ratio ≥ 1).**  In front of a narrow AXI-Lite byte memory that accepts AW and
    W in any order and at any time, executes and answers after any delay: for every protocol-following master,
    one B per accepted AW+W and never a second acceptance while one is pending, the B is OKAY and repeated until
    taken, and when it is taken the memory behind the converter has received exactly the sub-word writes of the
    wide write, in ascending order, all-zero-strobe sub-words skipped (`DownW.wideWr`: sub-word `k` goes to
    narrow word `(addr aligned to the wide word + k·nbTo) / nbTo` with strobe/data bits `k` of the wide ones);
    between writes the memory equals the reference memory. -/
theorem axldown_write_refines_mem (c : DownCfg) (hr : 0 < c.ratio) (mem0 : Mem) (ins : List (AxlM × AxlOracle)) :
    let S := DownW.sys c mem0
    S.LegalFrom (fun s i => s.g.reqHeld i.1) S.init ins →
    S.AlwaysFrom (fun s i =>
        s.g.rspHeld (S.out s i).1 ∧
        ((S.out s i).1.bvalid = true → s.g.pendAW.isSome ∧ s.g.pendW.isSome ∧ (S.out s i).1.bresp = respOkay) ∧
        (i.1.awvalid = true → (S.out s i).1.awready = true → s.g.pendAW = none) ∧
        (i.1.wvalid = true → (S.out s i).1.wready = true → s.g.pendW = none) ∧
        (s.br.st = .idle → s.p.mem = s.g.ref)) S.init ins := by
  intro S
  refine Machine.always_of_invariant S _ _ (DownW.Inv c) (fun s i hinv hok => ?_) ins S.init ?_
  · exact DownW.step c hr s i hinv hok
  · simp [S, DownW.sys, DownW.Inv, DownW.init, AxlMem.init, AxlGhost.init]

/-- **Down-converter, read path (any ratio ≥ 1).**  In front of a narrow AXI-Lite byte memory of arbitrary timing:
    one R per accepted AR, never a second acceptance while one is pending, the R is OKAY, repeated unchanged until
    taken, and its data is the wide word assembled from the `ratio` narrow words at
    `addr aligned to the wide word + k·nbTo`, `k = 0 … ratio-1`, lowest address in the least significant lanes
    (`DownR.wideRd`) — whatever `r_data` held before (the shift register is fully flushed). -/
theorem axldown_read_refines_mem (c : DownCfg) (hr : 0 < c.ratio) (mem0 : Mem) (ins : List (AxlM × AxlOracle)) :
    let S := DownR.sys c mem0
    S.LegalFrom (fun s i => s.g.reqHeld i.1) S.init ins →
    S.AlwaysFrom (fun s i =>
        s.g.rspHeld (S.out s i).1 ∧
        ((S.out s i).1.rvalid = true →
           ∃ a, s.g.pendAR = some a ∧ (S.out s i).1.rresp = respOkay ∧ (S.out s i).1.rdata = DownR.wideRd c s.g.ref a) ∧
        (i.1.arvalid = true → (S.out s i).1.arready = true → s.g.pendAR = none)) S.init ins := by
  intro S
  refine Machine.always_of_invariant S _ _ (DownR.Inv c) (fun s i hinv hok => ?_) ins S.init ?_
  · exact DownR.step c hr s i hinv hok
  · have : 0 < (256 ^ c.nbTo) ^ c.ratio := Nat.pow_pos (Nat.pow_pos (by decide))
    simp [S, DownR.sys, DownR.Inv, DownR.init, AxlMem.init, AxlGhost.init, this]

/-- `wideRd` on a concrete memory: 32→8 (ratio 4), bytes 0x11 0x22 0x33 0x44 at addresses 4…7 read as 0x44332211
    from any address inside that word. -/
example :
    let c : DownCfg := { ratio := 4, nbTo := 1, abits := 8 }
    DownR.wideRd c (Mem.ofList [0, 0, 0, 0, 0x11, 0x22, 0x33, 0x44]) 6 = 0x44332211 := by
  simp [DownR.wideRd, DownR.pack, DownR.subWord, DownCfg.subAddr, DownCfg.nbFrom, Mem.readWord, Mem.readBytes,
    Mem.ofList, bytesWord, List.range, List.range.loop]

/-- **Down-converter, reads and writes interleaved** (any ratio ≥ 1).  `AXILiteDownConverter` as a whole — both FSMs
    running concurrently — in front of ONE narrow AXI-Lite byte memory that accepts, executes and answers narrow reads
    and narrow writes in any order and at any time, for every protocol-following wide master that issues reads and
    writes in any interleaving (AR while a write is in flight, AW/W while a read is being assembled, …):
    * write side, whatever the read traffic: everything `axldown_write_refines_mem` states (one OKAY B per accepted
      AW+W, repeated until taken; the reference memory takes the wide write at its B; memory = reference between
      writes);
    * memory window, in EVERY cycle: the partner memory is the reference memory with the first `j ≤ ratio` sub-word
      writes of the write in flight applied (`Down.Window`; `j = 0`: equal to the reference);
    * read side, whatever the write traffic: one OKAY R per accepted AR, repeated unchanged until taken, never a
      second acceptance while one is pending, and its data is assembled (lowest address in the least significant
      lanes) from narrow word `k` of the addressed wide word AS IT WAS IN THE PARTNER MEMORY IN THE CYCLE NARROW READ
      `k` WAS EXECUTED (`snap k`, `k = 0 … ratio-1`) — by the window statement each of these is the reference content
      with a prefix of the concurrent write applied: a read overlapping a write sees, per narrow word, the old or the
      new value, never anything else; a read that overlaps no write sees the reference memory
      (`axldown_read_refines_mem`). -/
theorem axldown_rw_refines_mem (c : DownCfg) (hr : 0 < c.ratio) (mem0 : Mem) (ins : List (AxlM × AxlOracle)) :
    let S := Down.sys c mem0
    S.LegalFrom (fun s i => s.g.reqHeld i.1) S.init ins →
    S.AlwaysFrom (fun s i =>
        s.g.rspHeld (S.out s i).1 ∧
        ((S.out s i).1.bvalid = true → s.g.pendAW.isSome ∧ s.g.pendW.isSome ∧ (S.out s i).1.bresp = respOkay) ∧
        (i.1.awvalid = true → (S.out s i).1.awready = true → s.g.pendAW = none) ∧
        (i.1.wvalid = true → (S.out s i).1.wready = true → s.g.pendW = none) ∧
        (s.w.st = .idle → s.p.mem = s.g.ref) ∧
        Down.Window c s.p.mem s.g ∧
        ((S.out s i).1.rvalid = true →
           ∃ a, s.g.pendAR = some a ∧ (S.out s i).1.rresp = respOkay ∧
             (S.out s i).1.rdata = DownR.pack c (Down.snapWord c s.snap a) c.ratio) ∧
        (i.1.arvalid = true → (S.out s i).1.arready = true → s.g.pendAR = none)) S.init ins := by
  intro S
  refine Machine.always_of_invariant S _ _ (Down.CInv c) (fun s i hinv hok => ?_) ins S.init ?_
  · exact Down.cstep c hr s i hinv hok
  · have : 0 < (256 ^ c.nbTo) ^ c.ratio := Nat.pow_pos (Nat.pow_pos (by decide))
    simp [S, Down.sys, Down.CInv, Down.projW, DownW.Inv, Down.RInv, DownW.init, DownR.init, AxlMem.init, AxlGhost.init,
      this]

/-- Non-vacuity, and what overlap means (16→8, memory initially `mem a = a`): the master presents a write of 0xBEEF
    and a read of the same wide word (address 4) together; the partner executes narrow read 0 before narrow write 0,
    then withholds narrow read 1 until the write has completed.  The run is legal; the read returns 0xBE04 — low byte
    old (4), high byte new (0xBE) — exactly `pack` of the two snapshots, and both lie in the window of their cycle. -/
example :
    let c : DownCfg := { ratio := 2, nbTo := 1, abits := 8 }
    let S := Down.sys c (fun a => a)
    let rw : AxlM := { AxlM.idle with awvalid := true, awaddr := 4, wvalid := true, wdata := 0xBEEF, wstrb := 3,
                                      arvalid := true, araddr := 4, rready := true, bready := true }
    let o : AxlOracle := ⟨true, true, true, true, true, true, true⟩
    let o' : AxlOracle := ⟨true, true, true, true, false, true, true⟩
    let ins := List.replicate 4 (rw, o) ++ List.replicate 4 (rw, o') ++ List.replicate 2 (rw, o)
    let s := S.runFrom S.init ins
    S.LegalFrom (fun s i => s.g.reqHeld i.1) S.init ins ∧
    (S.out s (rw, o)).1.rvalid = true ∧ (S.out s (rw, o)).1.rdata = 0xBE04 ∧ s.p.mem 4 = 0xEF ∧ s.p.mem 5 = 0xBE ∧
    s.snap 0 4 = 4 ∧ s.snap 1 5 = 0xBE := by
  refine ⟨?_, ?_, ?_, ?_, ?_, ?_, ?_⟩
  · exact Machine.legal_of_legalB _ _ (fun s i => Down.reqHeldB s.g i.1) (fun s i h => Down.reqHeld_of_B s.g i.1 h) _ _
      (by decide)
  all_goals decide

/-- The window at byte level: with `j = ratio` the window memory is the reference memory after ONE masked write of
    the wide word (`axldown_reference_is_byte_memory`), with `j = 0` the reference memory itself. -/
theorem axldown_window_ends (c : DownCfg) (m : Mem) (a d st : Nat) :
    DownW.subWrites c a d st 0 m = m ∧ DownW.subWrites c a d st c.ratio m = DownW.wideWr c m a st d :=
  ⟨rfl, rfl⟩

/-- **Down-converter writes: valid stability towards ANY narrow partner, sticky first error.**  Whatever the
    narrow slave does (arbitrary readies, valids and responses every cycle), with a protocol-following wide master:
    a narrow AW / W, once raised, is repeated with unchanged address / data / strobe until the cycle of its ready;
    the wide B is repeated until taken and its `resp` is the FIRST non-OKAY narrow B response taken for this write
    (`firstErr log`), OKAY if there was none. -/
theorem axldown_write_stable_sticky (c : DownCfg) (ins : List (AxlM × AxlS)) :
    let S := DownW.osys c
    S.LegalFrom (fun s i => s.g.reqHeld i.1) S.init ins →
    S.AlwaysFrom (fun s i =>
      s.h.reqHeld (S.out s i).2 ∧
      (∀ r, s.g.heldB = some r → (S.out s i).1.bvalid = true ∧ (S.out s i).1.bresp = r) ∧
      ((S.out s i).1.bvalid = true → (S.out s i).1.bresp = firstErr s.log)) S.init ins := by
  intro S
  refine Machine.always_of_invariant S _ _ (DownW.OInv c) (fun s i hinv hok => ?_) ins S.init ?_
  · exact DownW.ostep c s i hinv hok
  · simp [S, DownW.osys, DownW.OInv, DownW.init, AxlGhost.init]

/-- **Down-converter reads: AR stability towards ANY narrow partner, sticky first error.** -/
theorem axldown_read_stable_sticky (c : DownCfg) (ins : List (AxlM × AxlS)) :
    let S := DownR.osys c
    S.LegalFrom (fun s i => s.g.reqHeld i.1) S.init ins →
    S.AlwaysFrom (fun s i =>
      s.h.reqHeld (S.out s i).2 ∧
      ((S.out s i).1.rvalid = true → (S.out s i).1.rresp = firstErr s.log)) S.init ins := by
  intro S
  refine Machine.always_of_invariant S _ _ (DownR.OInv c) (fun s i hinv hok => ?_) ins S.init ?_
  · exact DownR.ostep c s i hinv hok
  · simp [S, DownR.osys, DownR.OInv, DownR.init, AxlGhost.init]

/-- Sticky error on a concrete run (16→8, both sub-words written): narrow responses SLVERR (2) then DECERR (3) —
    the wide B carries 2. -/
example :
    let c : DownCfg := { ratio := 2, nbTo := 1, abits := 8 }
    let S := DownW.osys c
    let w : AxlM := { AxlM.idle with awvalid := true, awaddr := 4, wvalid := true, wdata := 0xBEEF, wstrb := 3 }
    let acc : AxlS := { AxlS.idle with awready := true, wready := true }
    let s := S.runFrom S.init [(w, AxlS.idle), (w, acc), (w, { AxlS.idle with bvalid := true, bresp := 2 }),
                               (w, acc), (w, { AxlS.idle with bvalid := true, bresp := 3 })]
    s.log = [2, 3] ∧ (S.out s (AxlM.idle, AxlS.idle)).1.bvalid = true ∧ (S.out s (AxlM.idle, AxlS.idle)).1.bresp = 2 := by
  decide

/-- **Byte-level meaning of the sub-word reference semantics** (`Bytes.NoWrap`: the wide word containing `a` does
    not wrap around the address space; `Bytes.noWrap_of_dvd`: true whenever the wide word size divides `2^abits`
    and `a < 2^abits`).  The `ratio` sub-word writes of `axldown_write_refines_mem` are exactly ONE masked write of
    the wide word on the flat byte memory, and the word assembled in `axldown_read_refines_mem` is exactly the
    wide word of the flat byte memory — so both theorems speak about `Mem.writeWord` / `Mem.readWord` at the wide
    width. -/
theorem axldown_reference_is_byte_memory (c : DownCfg) (hn : 0 < c.nbTo) (m : Mem) (a : Nat) (hw : Bytes.NoWrap c a) :
    (∀ st d, DownW.wideWr c m a st d = m.writeWord c.nbFrom (a / c.nbFrom) st d) ∧
    DownR.wideRd c m a = m.readWord c.nbFrom (a / c.nbFrom) :=
  ⟨fun st d => Bytes.wideWr_eq_writeWord c m a st d hn hw, Bytes.wideRd_eq_readWord c m a hn hw⟩

/-- `NoWrap` holds for every in-range address of the usual configurations (word size a divisor of `2^abits`). -/
theorem axldown_nowrap (c : DownCfg) (a : Nat) (hd : c.nbFrom ∣ 2 ^ c.abits) (hN : 0 < c.nbFrom) (ha : a < 2 ^ c.abits) :
    Bytes.NoWrap c a := Bytes.noWrap_of_dvd c a hd hN ha

/-- Non-vacuity / the fixed finding C09-axil-downconv-write-hang in the model: 64→32 (ratio 2, 4-byte narrow
    words), wide write with strobe 0xF0 to a partner that is ready all the time: the write completes (B presented
    after 6 cycles) and only the upper narrow word is written. -/
example :
    let c : DownCfg := { ratio := 2, nbTo := 4, abits := 32 }
    let S := DownW.sys c (fun _ => 0)
    let w : AxlM := { AxlM.idle with awvalid := true, awaddr := 0, wvalid := true, wdata := 0x1122334455667788, wstrb := 0xF0 }
    let o : AxlOracle := ⟨true, true, true, true, true, true, true⟩
    let s := S.runFrom S.init [(w, o), (w, o), (w, o), (w, o), (w, o), (w, o)]
    s.br.st = .respMaster ∧ s.p.mem 4 = 0x44 ∧ s.p.mem 0 = 0 := by
  refine ⟨?_, ?_, ?_⟩ <;> simp [Machine.runFrom, DownW.sys, DownW.sysOut, DownW.init, DownW.next, DownW.nextFsm,
    DownW.reset, DownW.toSlave, DownW.toMaster, DownW.skip, DownW.lastWord, DownW.subStrb, DownW.subData,
    DownCfg.subAddr, DownCfg.nbFrom, AxlGhost.next, AxlGhost.init, AxlM.idle, AxlS.idle, AxlMem.init, AxlMem.out,
    AxlMem.next, Mem.writeWord, Mem.writeMasked, selBits, wordBytes, respOkay]

/-- FULL STATEMENT (false on the code, finding C09-axil-upconv-lane-follows-address-lines):
      write data travels in, and read data is taken from, the byte-lane group of the address of the transaction
      it belongs to — for every protocol-following master.
    The converter selects the lane group from the address lines while `aw.valid` / `ar.valid` and from a latch
    otherwise.  Proved for masters that issue one transaction per direction at a time and present W with or after
    its AW (`Up.serial`), for ANY partner behaviour and any ratio: -/
theorem axlup_lane_partial (c : UpCfg) (ins : List (AxlM × AxlS)) :
    let S := Up.osys c
    S.LegalFrom (fun s i => Up.serial s.g i.1) S.init ins →
    S.AlwaysFrom (fun s i =>
      (i.1.wvalid = true → ∀ a, Up.curWrite s.g i.1 = some a →
         (S.out s i).2.wstrb = i.1.wstrb * 2 ^ (c.laneOf a * c.nbFrom) ∧
         (S.out s i).2.wdata = i.1.wdata * 256 ^ (c.laneOf a * c.nbFrom)) ∧
      (∀ a, s.g.pendAR = some a →
         (S.out s i).1.rdata = i.2.rdata / 256 ^ (c.laneOf a * c.nbFrom) % 256 ^ c.nbFrom)) S.init ins := by
  intro S
  refine Machine.always_of_invariant S _ _ (Up.OInv c) (fun s i hinv hok => ?_) ins S.init ?_
  · exact Up.ostep c s i hinv hok
  · simp [S, Up.osys, Up.OInv, Up.init, AxlGhost.init]

/-- Everything else of the up-converter is wiring, for every input: handshakes and responses pass through
    unchanged and the addresses are the master's, aligned to the wide word. -/
theorem axlup_passthrough (c : UpCfg) (s : UpState) (m : AxlM) (r : AxlS) :
    let q := Up.toSlave c s m
    let o := Up.toMaster c s m r
    q.awvalid = m.awvalid ∧ q.wvalid = m.wvalid ∧ q.arvalid = m.arvalid ∧ q.bready = m.bready ∧ q.rready = m.rready ∧
    q.awaddr = m.awaddr / c.nbTo * c.nbTo % 2 ^ c.abits ∧ q.araddr = m.araddr / c.nbTo * c.nbTo % 2 ^ c.abits ∧
    o.awready = r.awready ∧ o.wready = r.wready ∧ o.arready = r.arready ∧ o.bvalid = r.bvalid ∧ o.bresp = r.bresp ∧
    o.rvalid = r.rvalid ∧ o.rresp = r.rresp := by
  simp [Up.toSlave, Up.toMaster]

/-- Negative witness (32→64): AR 0x0 is accepted, then the master presents AR 0x4 while the R of the first read
    is outstanding; the wide word 0x11111111_00000000 comes back and the master is handed lane 1. -/
example :
    let c : UpCfg := { ratio := 2, nbFrom := 4, abits := 32 }
    let S := Up.machine c
    let s := S.runFrom S.init [({ AxlM.idle with arvalid := true, araddr := 0 }, { AxlS.idle with arready := true })]
    (S.out s ({ AxlM.idle with arvalid := true, araddr := 4, rready := true },
              { AxlS.idle with rvalid := true, rdata := 0x1111111100000000 })).1.rdata = 0x11111111 := by
  decide

end ConvThms

/-! ## AXI2AXILite -/
section Axi2AxlThms

/-- FULL STATEMENT (false on the code, findings C09-axi2axil-rlast-pipelined-slave, -resp-swallowed,
    -w-accepted-before-aw): every burst is fully answered, `last` on the final beat only, error responses
    propagated, B after the AXI-Lite write responses — for every legal AXI-Lite partner.
    Proved part (read bursts): for an AXI master that issues no writes and an AXI-Lite partner that answers reads
    one at a time (`Axi2Axl.singleOutstanding`: R only for an accepted AR, next AR accepted only after the previous
    R was delivered), for every burst type/length/size, every master and partner timing: each R beat handed to the
    AXI master carries the burst's id and is marked `last` exactly if it is beat number `len + 1`. -/
theorem axi2axl_read_burst_partial (aw : Nat) (ins : List (AxiM × AxlS)) :
    let S := Axi2Axl.rsys aw
    S.LegalFrom (fun s i => Axi2Axl.singleOutstanding s i ∧ i.1.awvalid = false) S.init ins →
    S.AlwaysFrom (fun s i =>
      s.br.st = .read → (S.out s i).1.rvalid = true →
        ((S.out s i).1.rlast = true ↔ s.rCnt = s.br.bufReq.len) ∧ s.rCnt ≤ s.br.bufReq.len ∧
        (S.out s i).1.rid = s.br.bufReq.id) S.init ins := by
  intro S
  refine Machine.always_of_invariant S _ _ Axi2Axl.RInv (fun s i hinv hok => ?_) ins S.init ?_
  · exact Axi2Axl.rstep aw s i hinv hok.1 hok.2
  · simp [S, Axi2Axl.rsys, Axi2Axl.RInv, Axi2Axl.init, Litex.Axi.b2bInit]

/-- **Read and write bursts together** (mixed traffic, every burst type / length / size, every timing) for the
    environment `Axi2Axl.wellBehaved` — the AXI-Lite partner answers reads one at a time and takes a W beat only
    after the AW it belongs to, the AXI master puts `w.last` on beat `len + 1` — i.e. outside the open findings
    rlast-pipelined-slave and w-accepted-before-aw:
    read beats are marked `last` exactly on beat `len + 1` with the burst's id; during WRITE never more W beats
    than AWs have been handed over and never more than `len + 1` AWs, and no B is shown; B (as coded: right after
    the last W beat) is presented only when exactly `len + 1` AWs — at the `AXIBurst2Beat` addresses, see
    `axi2axl_as_built` — and exactly `len + 1` W beats have been taken by the partner, with the burst's id; the
    bridge returns to IDLE with an empty request buffer.  (The B still does not wait for the AXI-Lite B responses
    and error responses are not propagated: finding resp-swallowed.) -/
theorem axi2axl_bursts_partial (aw : Nat) (ins : List (AxiM × AxlS)) :
    let S := Axi2Axl.bsys aw
    S.LegalFrom (fun s i => Axi2Axl.wellBehaved s i) S.init ins →
    S.AlwaysFrom (fun s i =>
      (s.br.st = .read → (S.out s i).1.rvalid = true →
        ((S.out s i).1.rlast = true ↔ s.rCnt = s.br.bufReq.len) ∧ s.rCnt ≤ s.br.bufReq.len ∧
        (S.out s i).1.rid = s.br.bufReq.id) ∧
      (s.br.st = .write → s.wCnt ≤ s.awCnt ∧ s.awCnt ≤ s.br.bufReq.len + 1 ∧ (S.out s i).1.bvalid = false) ∧
      ((S.out s i).1.bvalid = true →
        s.awCnt = s.br.bufReq.len + 1 ∧ s.wCnt = s.br.bufReq.len + 1 ∧ (S.out s i).1.bid = s.br.bufReq.id)) S.init ins := by
  intro S
  refine Machine.always_of_invariant S _ _ Axi2Axl.BInv (fun s i hinv hok => ?_) ins S.init ?_
  · exact Axi2Axl.bstep aw s i hinv hok
  · simp [S, Axi2Axl.bsys, Axi2Axl.BInv, Axi2Axl.init, Litex.Axi.b2bInit]

/-- Non-vacuity: INCR write burst of 2 beats, partner taking AW then W each time; after 6 cycles B is presented
    with both counters at 2.  Negative witness (finding w-accepted-before-aw): the same burst with a partner that
    takes both W beats while refusing AW reaches WRITE-RESP with NO AW issued. -/
example :
    let S := Axi2Axl.bsys 32
    let rq : Litex.Axi.Req := { addr := 0x100, len := 1, size := 2, burst := 1, id := 2 }
    let mi : AxiM := { awvalid := false, aw := zeroReq, wvalid := false, wdata := 0, wstrb := 0, wlast := false,
                       bready := false, arvalid := false, ar := zeroReq, rready := false }
    let awm : AxiM := { mi with awvalid := true, aw := rq }
    let w0 : AxiM := { mi with wvalid := true, wdata := 7, wstrb := 15 }
    let w1 : AxiM := { mi with wvalid := true, wdata := 9, wstrb := 15, wlast := true }
    let ta : AxlS := { AxlS.idle with awready := true }
    let tw : AxlS := { AxlS.idle with wready := true }
    let good := S.runFrom S.init [(awm, AxlS.idle), (w0, ta), (w0, tw), (w1, ta), (w1, tw)]
    let bad := S.runFrom S.init [(awm, AxlS.idle), (w0, tw), (w1, tw)]
    (good.br.st = .writeResp ∧ good.awCnt = 2 ∧ good.wCnt = 2 ∧ (S.out good (mi, AxlS.idle)).1.bvalid = true) ∧
    (bad.br.st = .writeResp ∧ bad.awCnt = 0 ∧ bad.wCnt = 2) := by
  decide

/-- Negative witness (finding C09-axi2axil-rlast-pipelined-slave): INCR burst of 4 beats; the AXI-Lite partner
    accepts the four ARs before answering; the first R beat (`rCnt = 0`, `len = 3`) is handed over with `last`. -/
example :
    let S := Axi2Axl.rsys 32
    let rq : Litex.Axi.Req := { addr := 0x100, len := 3, size := 2, burst := 1, id := 1 }
    let mi : AxiM := { awvalid := false, aw := zeroReq, wvalid := false, wdata := 0, wstrb := 0, wlast := false,
                       bready := false, arvalid := false, ar := zeroReq, rready := true }
    let ar : AxiM := { mi with arvalid := true, ar := rq }
    let acc : AxlS := { AxlS.idle with arready := true }
    let s := S.runFrom S.init [(ar, AxlS.idle), (mi, acc), (mi, acc), (mi, acc), (mi, acc)]
    let o := S.out s (mi, { AxlS.idle with rvalid := true, rdata := 7 })
    s.br.st = .read ∧ s.arCnt = 4 ∧ s.rCnt = 0 ∧ o.1.rvalid = true ∧ o.1.rlast = true := by
  decide

/-- Non-vacuity of `axi2axl_read_burst_partial`: the same burst with a partner that answers each AR before taking
    the next is legal for 9 cycles and ends with the fourth beat marked `last`. -/
example :
    let S := Axi2Axl.rsys 32
    let rq : Litex.Axi.Req := { addr := 0x100, len := 3, size := 2, burst := 1, id := 1 }
    let mi : AxiM := { awvalid := false, aw := zeroReq, wvalid := false, wdata := 0, wstrb := 0, wlast := false,
                       bready := false, arvalid := false, ar := zeroReq, rready := true }
    let ar : AxiM := { mi with arvalid := true, ar := rq }
    let acc : AxlS := { AxlS.idle with arready := true }
    let ans : AxlS := { AxlS.idle with rvalid := true, rdata := 7 }
    let ins := [(ar, AxlS.idle), (mi, acc), (mi, ans), (mi, acc), (mi, ans), (mi, acc), (mi, ans), (mi, acc)]
    let s := S.runFrom S.init ins
    let o := S.out s (mi, ans)
    (∀ k, k < 8 → Axi2Axl.singleOutstanding (S.runFrom S.init (ins.take k)) (ins.getD k (mi, ans))) ∧
    s.rCnt = 3 ∧ o.1.rvalid = true ∧ o.1.rlast = true := by
  decide

/-- The beat addresses the bridge issues are those of `AXIBurst2Beat` (whose address theorems are C10's), the
    responses are constants and the AXI-Lite B channel is always ready — every state, every input. -/
theorem axi2axl_as_built (aw : Nat) (s : X2LState) (m : AxiM) (r : AxlS) :
    let q := Axi2Axl.toSlave aw s m
    let o := Axi2Axl.toMaster aw s m r
    q.bready = true ∧ o.rresp = respOkay ∧ o.bresp = respOkay ∧
    (s.st = .read → q.araddr = Litex.Axi.beatAddr aw s.bufReq s.b2b ∧ o.rdata = r.rdata ∧ o.rlast = s.cmdDone) ∧
    (s.st = .write → q.awaddr = Litex.Axi.beatAddr aw s.bufReq s.b2b ∧ q.wdata = m.wdata ∧ q.wstrb = m.wstrb) := by
  cases h : s.st <;> simp [Axi2Axl.toSlave, Axi2Axl.toMaster, Axi2Axl.beat, Litex.Axi.b2bOut, h, AxlM.idle, AxiS.idle,
    respOkay]

end Axi2AxlThms

/-! ## AHB2Wishbone -/
section AhbThms
variable (c : AhbCfg)

/-- **Byte-lane decoding.**  The `Case` tables of `wishbone_sel_decoder` select exactly the `2^size` lanes starting
    at the address offset rounded down to the transfer size, for every size the bridge accepts and every address
    offset, on the 64-bit and on the 32-bit bus. -/
theorem ahb2wb_sel_table :
    (∀ size, size < 4 → ∀ a, a < 8 → ahbSel64 size a = Ahb2Wb.laneMask 3 size a) ∧
    (∀ size, size < 3 → ∀ a, a < 4 → ahbSel32 size a = Ahb2Wb.laneMask 2 size a) :=
  ⟨Ahb2Wb.sel64_table, Ahb2Wb.sel32_table⟩

/-- **Memory semantics.**  AHB2Wishbone in front of a Wishbone byte memory of arbitrary latency, AHB master keeping
    `hwdata` stable during the (extended) data phase: a completing read (`hreadyout` after its data phase)
    returns the reference content of word `haddr >> shift`; a completed write has stored `hwdata` on the lanes
    `ahbSel size haddr` of that word; outside transfers the memory equals the reference memory. -/
theorem ahb2wb_refines_mem (mem0 : Mem) (ins : List (AhbM × WbOracle)) :
    let S := Ahb2Wb.sys c mem0
    S.LegalFrom (fun s i => Ahb2Wb.masterOk s.g i.1) S.init ins →
    S.AlwaysFrom (fun s i => Ahb2Wb.memOk c s.g (S.out s i).1 ∧ (s.g.cur = none → s.mem = s.g.ref)) S.init ins := by
  intro S
  refine Machine.always_of_invariant S _ _ (Ahb2Wb.Inv c) (fun s i hinv hok => ?_) ins S.init ?_
  · exact Ahb2Wb.step c s i hinv hok
  · simp [S, Ahb2Wb.sys, Ahb2Wb.Inv, Ahb2Wb.init]

/-- `hresp` mirrors `wishbone.err` during the data phase only (every state, every input); the cycle that completes
    the transfer (`hreadyout = 1`) always shows OKAY — see the probe C09-ahb2wb-error-response-malformed. -/
theorem ahb2wb_resp (s : AhbState) (m : AhbM) (r : WbS) :
    (Ahb2Wb.toMaster s m r).resp = (decide (s.st = .data) && r.err) ∧
    ((Ahb2Wb.toMaster s m r).readyout = true → (Ahb2Wb.toMaster s m r).resp = false) := by
  cases h : s.st <;> simp [Ahb2Wb.toMaster, h]

end AhbThms
/-! ## SoCBusHandler.add_adapter: which adapters are inserted, and what the chain does to a byte -/
section AdapterThms
open Litex.Bridge.Adapter

/-- **The adapted interface is the bus's.**  Whenever `add_adapter` succeeds — any interface standard / width /
    addressing, any bus, both directions — the interface it hands back has the bus's standard and data width. -/
theorem adapter_result_is_bus (b : BusDesc) (m2s : Bool) (i : IfDesc) (l : List Elem) (o : IfDesc)
    (h : adapterChain b m2s i = .ok (l, o)) : o.std = b.std ∧ o.dw = b.dw :=
  adapterChain_result b m2s i l o h

/-- **The chain is a chain.**  Read from the master end, consecutive elements share an interface, the first
    element's master side is the master end (m2s: the interface handed in; s2m: the bus side) and the last element's
    slave side is the slave end. -/
theorem adapter_chain_linked (b : BusDesc) (m2s : Bool) (i : IfDesc) (l : List Elem) (o : IfDesc)
    (h : adapterChain b m2s i = .ok (l, o)) :
    Linked (masterToSlave m2s l) (if m2s then i else o) (if m2s then o else i) :=
  adapterChain_linked b m2s i l o h

/-- **Every element preserves the flat byte address** (any well-formed element, any transfer its master port can
    express): byte lane `lane` of a master-side transfer at address `x` is carried on the slave-side (address, lane)
    that names the same byte of the flat memory — with the address functions of the cycle-level models
    (`Axl2Wb.wbAdr`, `Wb2Axl.axAddr`, `DownCfg.subAddr`, `UpCfg.laneOf`, `haddr >> shift`) — and stays within the
    slave port's range. -/
theorem adapter_elem_preserves_byte (e : Elem) (hwf : e.WF) (p : Nat × Nat) (hr : InRange e.master p) :
    flat e.slave (elemByte e p) = flat e.master p ∧ InRange e.slave (elemByte e p) :=
  ⟨elem_preserves_byte e hwf p hr, elem_in_range e hwf p hr⟩

/-- **Composition: the chain `add_adapter` builds preserves memory semantics at the byte level.**  For every
    interface (standard, width `8·2^k`, addressing), every bus (standard, width `8·2^k`) of the same address width,
    both directions, whenever `add_adapter` succeeds: every byte lane of every transfer the master end can express is
    carried, through all inserted elements (width converter, addressing glue, bridge, in the order the code inserts
    them), to the (address, lane) of the slave end that names the SAME byte of the flat memory, and stays in range.
    Together with the per-element refinement theorems (each element in front of a flat byte memory behaves as a flat
    byte memory with exactly these address functions) this is the transaction-level composition lemma; the
    cycle-level interplay of the composed elements is checked by monitors on the built chains. -/
theorem adapter_chain_preserves_bytes (b : BusDesc) (m2s : Bool) (i : IfDesc) (l : List Elem) (o : IfDesc)
    (h : adapterChain b m2s i = .ok (l, o)) (hi : PowOk i.dw) (hb : PowOk b.dw) (haw : i.aw = b.aw)
    (hli : lg i.dw ≤ b.aw) (hlb : lg b.dw ≤ b.aw) (p : Nat × Nat) (hr : InRange (if m2s then i else o) p) :
    flat (if m2s then o else i) (chainByte (masterToSlave m2s l) p) = flat (if m2s then i else o) p ∧
    InRange (if m2s then o else i) (chainByte (masterToSlave m2s l) p) :=
  adapterChain_preserves b m2s i l o h hi hb haw hli hlb p hr

/-- **The byte maps are the cycle-level models' address functions** (every state, every input): the Wishbone address
    `AXILite2Wishbone` drives for a read, the AXI-Lite address `Wishbone2AXILite` drives, the narrow AW address of
    the down-converter's sub-word `counter` and the wide address of the up-converter are the addresses `elemByte`
    assigns to the corresponding element (so the transaction-level chain theorem and the cycle-level refinement
    theorems speak about the same addresses). -/
theorem adapter_elem_uses_bridge_addresses (m s : IfDesc) (x lane : Nat) :
    (∀ (st : A2WState) (q : AxlM), st.st = .doRead → q.araddr = x →
      (Axl2Wb.toSlave { aw := m.aw, nb := m.nb, shift := if s.byteAddr then 0 else lg s.dw, base := 0 } st q).adr =
        (elemByte { kind := .axl2wb, master := m, slave := s } (x, lane)).1) ∧
    (∀ (st : W2AState) (q : WbM), st.st = .read → q.adr = x →
      (Wb2Axl.toSlave { adrBits := m.aw - (if m.byteAddr then 0 else lg m.dw),
                        shift := if m.byteAddr then 0 else lg m.dw, base := 0 } st q).araddr =
        (elemByte { kind := .wb2axl, master := m, slave := s } (x, lane)).1) ∧
    (∀ (st : DownWState) (q : AxlM) (r : AxlS), m.nb > s.nb → q.awaddr = x → st.counter = lane / s.nb →
      (DownW.toSlave { ratio := m.nb / s.nb, nbTo := s.nb, abits := m.aw } st q r).awaddr =
        (elemByte { kind := .axlConverter, master := m, slave := s } (x, lane)).1) ∧
    (∀ (st : UpState) (q : AxlM), m.nb < s.nb → q.awaddr = x →
      (Up.toSlave { ratio := s.nb / m.nb, nbFrom := m.nb, abits := s.aw } st q).awaddr =
        (elemByte { kind := .axlConverter, master := m, slave := s } (x, lane)).1) := by
  refine ⟨fun st q h1 h2 => ?_, fun st q h1 h2 => ?_, fun st q r h1 h2 h3 => ?_, fun st q h1 h2 => ?_⟩
  · simp [Axl2Wb.toSlave, h1, h2, elemByte]
  · simp [Wb2Axl.toSlave, h1, h2, elemByte]
  · cases h : st.st <;> simp [DownW.toSlave, h, h1, h2, h3, elemByte, AxlM.idle]
  · have h3 : ¬ m.nb > s.nb := by omega
    simp [Up.toSlave, h1, h2, h3, elemByte]

/-- Non-vacuity: a 64-bit AXI-Lite master on a 32-bit Wishbone bus gets `AXILiteConverter(64→32)` followed by
    `AXILite2Wishbone`; byte lane 5 of the transfer at 0x1008 (flat byte 0x100D) arrives on lane 1 of Wishbone word
    0x403; the hypotheses of the composition theorem hold. -/
example :
    let b : BusDesc := { std := .wishbone, dw := 32, aw := 32 }
    let i : IfDesc := { std := .axiLite, dw := 64, aw := 32, byteAddr := true }
    let w : IfDesc := { std := .wishbone, dw := 32, aw := 32, byteAddr := false }
    let n : IfDesc := { std := .axiLite, dw := 32, aw := 32, byteAddr := true }
    adapterChain b true i = .ok ([{ kind := .axlConverter, master := i, slave := n },
                                  { kind := .axl2wb, master := n, slave := w }], w) ∧
    chainByte [{ kind := .axlConverter, master := i, slave := n }, { kind := .axl2wb, master := n, slave := w }]
      (0x1008, 5) = (0x403, 1) ∧ flat i (0x1008, 5) = 0x100D ∧ flat w (0x403, 1) = 0x100D ∧
    PowOk i.dw ∧ PowOk b.dw ∧ lg i.dw ≤ b.aw ∧ InRange i (0x1008, 5) := by
  refine ⟨rfl, rfl, rfl, rfl, ?_, ?_, ?_, ?_⟩ <;> simp only [PowOk, InRange] <;> decide

/-- What the code rejects: a byte-addressed Wishbone interface of another width (`wishbone.Converter` asserts word
    addressing), an AHB master on a bus that is not Wishbone (no bridge in the table), an AHB interface of another
    width (no converter class). -/
example :
    adapterChain { std := .axiLite, dw := 64, aw := 32 } false { std := .wishbone, dw := 32, aw := 32, byteAddr := true }
      = .error .assertionError ∧
    adapterChain { std := .axi, dw := 32, aw := 32 } true { std := .ahb, dw := 32, aw := 32, byteAddr := true }
      = .error .keyError ∧
    adapterChain { std := .wishbone, dw := 64, aw := 32 } true { std := .ahb, dw := 32, aw := 32, byteAddr := true }
      = .error .keyError :=
  ⟨rfl, rfl, rfl⟩

/-- The converter wrappers (`AXILiteConverter`, `wishbone.Converter`, `AXIConverter`) choose exactly one of
    down-converter / up-converter / direct connection, by comparing the two data widths. -/
theorem converter_choice_total (f t : Nat) :
    (converterChoice f t = 1 ↔ t < f) ∧ (converterChoice f t = 2 ↔ f < t) ∧ (converterChoice f t = 0 ↔ f = t) := by
  unfold converterChoice
  refine ⟨?_, ?_, ?_⟩ <;> split <;> (try split) <;> omega

/-- `AXILite2AXI` is wiring for every input and every parameter choice: valids, readies, addresses, data, strobes
    pass through, each AXI-Lite access becomes a single-beat burst (`len = 0`, `w.last = 1`) of the configured
    size / burst type / ids. -/
theorem axl2axi_wiring (c : L2XCfg) (m : AxlM) (r : AxiS) :
    let q := Axl2Axi.toSlave c m
    let o := Axl2Axi.toMaster r
    q.awvalid = m.awvalid ∧ q.aw.addr = m.awaddr ∧ q.aw.len = 0 ∧ q.aw.size = c.size ∧ q.aw.burst = c.burst ∧
    q.aw.id = c.wid ∧ q.wvalid = m.wvalid ∧ q.wdata = m.wdata ∧ q.wstrb = m.wstrb ∧ q.wlast = true ∧
    q.bready = m.bready ∧ q.arvalid = m.arvalid ∧ q.ar.addr = m.araddr ∧ q.ar.len = 0 ∧ q.ar.size = c.size ∧
    q.ar.burst = c.burst ∧ q.ar.id = c.rid ∧ q.rready = m.rready ∧
    o.awready = r.awready ∧ o.wready = r.wready ∧ o.bvalid = r.bvalid ∧ o.bresp = r.bresp ∧ o.arready = r.arready ∧
    o.rvalid = r.rvalid ∧ o.rresp = r.rresp ∧ o.rdata = r.rdata := by
  simp [Axl2Axi.toSlave, Axl2Axi.toMaster]

/-- **The announced AxSIZE is the bus width, for ALL widths.**  `AXILite2AXI` (and `Wishbone2AXI`, which contains it)
    on a `dw`-bit bus announce `size = log2(dw / 8)` on AW and AR (`Axl2Axi.cfgOf`, the configuration the driver
    serves and the harness compares for 32 … 1024 bits): for every width `8·2^k` this is exactly `k` (full-width
    beats), and for every `dw ≥ 8` the announced beat never exceeds the data bus: `2^size · 8 ≤ dw`.
    (`axi_common.AXSIZE`, a table nobody uses, lists 0b110 / 0b111 for 32 / 64 bytes — a bridge built on it would
    break this theorem's tie at 256 and 512 bits.) -/
theorem axl2axi_size_fits_bus (dw burst prot wid rid : Nat) (m : AxlM) :
    let q := Axl2Axi.toSlave (Axl2Axi.cfgOf dw burst prot wid rid) m
    q.aw.size = Nat.log2 (dw / 8) ∧ q.ar.size = Nat.log2 (dw / 8) ∧ q.aw.len = 0 ∧ q.ar.len = 0 ∧
    (8 ≤ dw → 2 ^ q.aw.size * 8 ≤ dw ∧ 2 ^ q.ar.size * 8 ≤ dw) ∧
    (∀ k, dw = 8 * 2 ^ k → q.aw.size = k ∧ q.ar.size = k) := by
  refine ⟨rfl, rfl, rfl, rfl, fun h => ?_, fun k hk => ?_⟩
  · have hne : dw / 8 ≠ 0 := by omega
    have h1 : 2 ^ Nat.log2 (dw / 8) ≤ dw / 8 := Nat.log2_self_le hne
    have h2 : dw / 8 * 8 ≤ dw := Nat.div_mul_le_self dw 8
    have h3 : 2 ^ Nat.log2 (dw / 8) * 8 ≤ dw / 8 * 8 := Nat.mul_le_mul_right 8 h1
    simp only [Axl2Axi.toSlave, Axl2Axi.cfgOf, Axl2Axi.sizeOf]
    omega
  · have : dw / 8 = 2 ^ k := by rw [hk, Nat.mul_div_cancel_left _ (by decide : 0 < 8)]
    simp [Axl2Axi.toSlave, Axl2Axi.cfgOf, Axl2Axi.sizeOf, this, Nat.log2_two_pow]

/-- 256, 512 and 1024 bits: sizes 5, 6, 7. -/
example : Axl2Axi.sizeOf 256 = 5 ∧ Axl2Axi.sizeOf 512 = 6 ∧ Axl2Axi.sizeOf 1024 = 7 ∧ Axl2Axi.sizeOf 32 = 2 := by decide

end AdapterThms

/-! ## A chain composed at cycle level: AXILiteDownConverter ; AXILite2Wishbone -/
section ChainThms

/-- **Protocol legality of a composed chain, any Wishbone partner.**  The chain `add_adapter` builds for a wide
    AXI-Lite master on a narrower Wishbone bus (`AXILiteDownConverter` then `AXILite2Wishbone`, sharing the narrow
    AXI-Lite interface), with a protocol-following wide master and a Wishbone partner that answers ANYTHING
    (arbitrary `ack` / `dat_r` / `err` every cycle), for every ratio, width, base address:
    on the internal narrow port every AW / W / AR the converter raises is repeated unchanged until accepted and every
    B / R the bridge raises is repeated unchanged until taken; the Wishbone request is repeated unchanged until its
    `ack`; the wide B is repeated until taken and carries the first non-OKAY narrow response of this write, the wide
    R the first non-OKAY narrow response of this read.
    (Assume / guarantee composition: the converter's "any partner" guarantee on the narrow port is exactly what the
    bridge assumes of its master; each constituent's invariant is reused through a simulation.) -/
theorem chain_down_axl2wb_protocol (c : DownCfg) (d : A2WCfg) (ins : List (AxlM × WbS)) :
    let S := Chain.sys c d
    S.LegalFrom (fun s i => s.g.reqHeld i.1) S.init ins →
    S.AlwaysFrom (fun s i =>
      let o := S.out s i
      s.h.reqHeld o.2.1 ∧ s.k.reqHeld o.2.2.2 ∧ s.h.rspHeld o.2.2.1 ∧
      (∀ r, s.g.heldB = some r → o.1.bvalid = true ∧ o.1.bresp = r) ∧
      (o.1.bvalid = true → o.1.bresp = firstErr s.wlog) ∧
      (o.1.rvalid = true → o.1.rresp = firstErr s.rlog)) S.init ins := by
  intro S
  refine Machine.always_of_invariant S _ _ (Chain.CInv c d) (fun s i hinv hok => ?_) ins S.init ?_
  · exact Chain.cstep c d s i hinv hok
  · simp [S, Chain.sys, Chain.CInv, Chain.projW, Chain.projR, Chain.projB, Chain.dropR, Chain.dropW, DownW.OInv,
      DownR.OInv, Axl2Wb.OInv, DownW.init, DownR.init, Axl2Wb.init, AxlGhost.init, WbGhost.init]

/-- The observed composite is the machine the driver serves and the harness co-simulates against the chain the real
    `add_adapter` builds (`chaindw …`): same outputs, same state evolution. -/
theorem chain_sys_is_tied_machine (c : DownCfg) (d : A2WCfg) (s : Chain.Sys) (i : AxlM × WbS) :
    let M := Chain.machine c d
    let S := Chain.sys c d
    ((S.out s i).1, (S.out s i).2.2.2) = M.out (s.w, s.r, s.b) i ∧
    ((S.next s i).w, (S.next s i).r, (S.next s i).b) = M.next (s.w, s.r, s.b) i :=
  ⟨rfl, rfl⟩

/-- Non-vacuity: 64→32 chain, a held write of 0x1122334455667788 to 0x1008 against a Wishbone partner that
    acknowledges every other cycle: legal for 12 cycles, and the two Wishbone writes (words 0x402, 0x403) were issued. -/
example :
    let c : DownCfg := { ratio := 2, nbTo := 4, abits := 32 }
    let d : A2WCfg := { aw := 32, nb := 4, shift := 2, base := 0 }
    let S := Chain.sys c d
    let w : AxlM := { AxlM.idle with awvalid := true, awaddr := 0x1008, wvalid := true, wdata := 0x1122334455667788,
                                     wstrb := 0xFF, bready := true }
    let a0 : WbS := { ack := false, datr := 0, err := false }
    let a1 : WbS := { ack := true, datr := 0, err := false }
    let ins := [(w, a0), (w, a1), (w, a0), (w, a1), (w, a0), (w, a1), (w, a0), (w, a1), (w, a0), (w, a1), (w, a0), (w, a1)]
    S.LegalFrom (fun s i => s.g.reqHeld i.1) S.init ins ∧
    (S.out (S.runFrom S.init (ins.take 3)) (w, a1)).2.2.2.adr = 0x402 ∧
    (S.out (S.runFrom S.init (ins.take 3)) (w, a1)).2.2.2.datw = 0x55667788 := by
  refine ⟨?_, ?_, ?_⟩
  · exact Machine.legal_of_legalB _ _ (fun s i => Down.reqHeldB s.g i.1) (fun s i h => Down.reqHeld_of_B s.g i.1 h) _ _
      (by decide)
  all_goals decide

end ChainThms
end Litex.C09
