import LitexProofs.Wishbone.Interconnect
import LitexModel.Wishbone.InterconnectSoc
import LitexProofs.Wishbone.InterconnectSoc
/-
  C06 — Wishbone interconnect routes each cycle to one slave and answers only its master.

  Models: `Shared.machine c` (= `InterconnectShared`: `Arbiter` → shared bus → `Decoder` [+ `Timeout`]) and
  `Crossbar.machine c` (= `Crossbar`: one `Decoder` per master, one `Arbiter` per slave) of
  `LitexModel/Wishbone/Interconnect.lean`.  Masters and slaves are environment: `x : BusIn` gives, for one cycle,
  arbitrary values of every master's cyc/stb/we/adr/dat_w/sel/cti/bte and every slave's ack/err/dat_r.

  Quantifiers.  Per-cycle theorems hold for EVERY state `s` and EVERY input `x` (hence for every reachable state
  and every schedule); run theorems are by induction over `ins : List BusIn` (every request arrival pattern,
  withdrawals, back-to-back and simultaneous requests, every slave latency).  Numbers of masters/slaves `c.n`,
  `c.m`, the address predicates `c.dec`, `c.reg`, the timeout and the data width are arbitrary.
  Side conditions are explicit:
    `DisjointDec c.m c.dec`     pairwise disjoint address predicates (C13 provides this for SoC regions),
    `SlavesBehaved c.m o x`     a slave answers only a strobe that is presented to it (environment),
    `s.grant < c.n`             holds in every reachable state (`wb_owner_is_master`).
  The `Timeout` module is part of the model (`c.timeout`); where it can interfere the statements carry the
  explicit term `Shared.done c s` (its theorems are C11's).

  SoC glue (sections at the end): `busTopology`/`SocBus` (which fabric `do_finalize` builds), `checkRegionsOverlap`
  (= `SoCBusHandler.check_regions_overlap` as computed, over `size_pow2`), `glueRun`/`glueBuild` (whole build scripts
  through C13's handler model, imported read-only) and `SocRBus` (remappers of `add_master(region=…)`).  There the
  `DisjointDec` hypothesis is DISCHARGED for every bus the glue accepts (`soc_accepted_disjoint_decoders_partial`,
  `glue_history_disjoint_decoders_partial`, via C13's `LitexProofs/Soc/AcceptedDisjoint.lean`), and a restricted
  master is shown to stay inside its region (`soc_remapped_master_confined`).  `SocABus` adds `add_adapter`'s
  byte<->word addressing conversion (C14's `convM2S`/`convS2M`, imported read-only): `soc_adapter_route_partial`,
  `soc_adapter_exact_partial` (a byte-addressed master's cycle at byte address `a` reaches exactly the slave whose
  region contains `a`, at the right slave-local address).
-/
namespace Litex.C06
open Litex Litex.Wishbone

/-! ## InterconnectShared -/
section SharedThms
variable (c : ShCfg)

/-- **Routing.**  Slave `j` sees `cyc` iff the bus owner drives `cyc` and slave `j`'s address predicate matches
    the owner's address; every other master-to-slave signal is the owner's, bit for bit. -/
theorem wb_route (s : ShState) (x : BusIn) (j : Nat) :
    let o := Shared.out c s x
    let own := x.ms s.grant
    (o.toS j).cyc = (own.cyc && c.dec j (c.busAdr own.adr)) ∧
    (o.toS j).stb = own.stb ∧ (o.toS j).we = own.we ∧ (o.toS j).adr = c.busAdr own.adr ∧
    (o.toS j).datW = own.datW ∧ (o.toS j).sel = own.sel ∧ (o.toS j).cti = own.cti ∧ (o.toS j).bte = own.bte := by
  simp [Shared.out, Shared.bus, Shared.sel]

/-- **Masters of different `adr_width`.**  The shared bus is as wide as the widest master, so the address of an
    owner that respects its own `adr_width` (listed in `c.aws`) is neither truncated nor altered: `wb_route` then
    reads "slave `j` sees `cyc` iff the owner drives `cyc` and `dec j` matches the owner's address", and the slave
    sees exactly that address.  (Sizing the bus from any single master instead — seeded change C06-r2m3 — breaks
    this for the wider masters.) -/
theorem wb_route_exact (s : ShState) (x : BusIn) (j : Nat) (w : Nat) (hw : w ∈ c.aws)
    (hfit : (x.ms s.grant).adr < 2 ^ w) :
    let o := Shared.out c s x
    let own := x.ms s.grant
    (o.toS j).cyc = (own.cyc && c.dec j own.adr) ∧ (o.toS j).adr = own.adr ∧
    (Shared.bus c s x).adr = own.adr := by
  have h := c.busAdr_of_fits w _ hw hfit
  simp [Shared.out, Shared.bus, Shared.sel, h]

/-- With pairwise-disjoint decoders at most one slave sees the cycle. -/
theorem wb_route_one_slave (hd : DisjointDec c.m c.dec) (s : ShState) (x : BusIn) (j k : Nat)
    (hj : j < c.m) (hk : k < c.m)
    (h1 : ((Shared.out c s x).toS j).cyc = true) (h2 : ((Shared.out c s x).toS k).cyc = true) : j = k := by
  simp [Shared.out, Shared.bus, Shared.sel] at h1 h2
  exact hd _ j k hj hk h1.2 h2.2

/-- A cycle whose address matches no decoder is presented to no slave. -/
theorem wb_route_none (s : ShState) (x : BusIn)
    (hnone : ∀ j, j < c.m → c.dec j (Shared.bus c s x).adr = false) (j : Nat) (hj : j < c.m) :
    ((Shared.out c s x).toS j).cyc = false := by
  simp [Shared.out, Shared.sel, hnone j hj]

/-- The owner is always one of the masters: in every reachable state `grant < n`. -/
theorem wb_owner_is_master (hn : 0 < c.n) (ins : List BusIn) : ((Shared.machine c).run ins).grant < c.n :=
  Shared.grant_lt_run c hn ins

/-- **Answers reach the owner only.**  A master that sees `ack` or `err` is the owner; the owner's `ack` is the OR
    of the slaves' `ack` (or the timeout's forced acknowledge), its `err` the OR of the slaves' `err`. -/
theorem wb_answer_owner_only (s : ShState) (x : BusIn) (i : Nat) :
    let o := Shared.out c s x
    (((o.toM i).ack = true ∨ (o.toM i).err = true) → s.grant = i) ∧
    (o.toM s.grant).ack = (Shared.done c s || orAll c.m fun j => (x.ss j).ack) ∧
    (o.toM s.grant).err = (orAll c.m fun j => (x.ss j).err) := by
  refine ⟨?_, ?_, ?_⟩
  · intro h
    simp [Shared.out] at h
    rcases h with h | h <;> exact h.2
  · simp [Shared.out, Shared.busAck, Shared.decAck]
  · simp [Shared.out, Shared.busErr, Shared.decErr]

/-- Slaves that answer only presented strobes, disjoint decoders: only the selected slave can be answering. -/
theorem wb_only_selected_answers (hd : DisjointDec c.m c.dec) (s : ShState) (x : BusIn)
    (hb : SlavesBehaved c.m (Shared.out c s x) x) (j : Nat) (hj : j < c.m)
    (hsel : c.dec j (Shared.bus c s x).adr = true) (k : Nat) (hk : k < c.m) (hne : k ≠ j) : sTerm x k = false := by
  cases h : sTerm x k
  · rfl
  · have := (hb k hk h).1
    simp [Shared.out, Shared.bus, Shared.sel] at this
    exact absurd (hd _ k j hk hj this.2 hsel) hne

/-- … then the owner's `ack`/`err` are exactly the selected slave's (or the timeout's). -/
theorem wb_answer_selected (hd : DisjointDec c.m c.dec) (s : ShState) (x : BusIn)
    (hb : SlavesBehaved c.m (Shared.out c s x) x) (j : Nat) (hj : j < c.m)
    (hsel : c.dec j (Shared.bus c s x).adr = true) :
    let o := Shared.out c s x
    (o.toM s.grant).ack = (Shared.done c s || (x.ss j).ack) ∧ (o.toM s.grant).err = (x.ss j).err := by
  have hothers := wb_only_selected_answers c hd s x hb j hj hsel
  have ha : (orAll c.m fun k => (x.ss k).ack) = (x.ss j).ack :=
    orAll_unique hj (fun k hk hne => by have := hothers k hk hne; simp [sTerm] at this; exact this.1)
  have he : (orAll c.m fun k => (x.ss k).err) = (x.ss j).err :=
    orAll_unique hj (fun k hk hne => by have := hothers k hk hne; simp [sTerm] at this; exact this.2)
  simp [Shared.out, Shared.busAck, Shared.decAck, Shared.busErr, Shared.decErr, ha, he]

/-- Unregistered decoder: every acknowledge carries the selected slave's read data (all masters see the shared
    `dat_r`; it is meaningful for the owner, the only one that sees `ack`). -/
theorem wb_dat_r (hd : DisjointDec c.m c.dec) (hreg : c.reg = false) (s : ShState) (x : BusIn)
    (j : Nat) (hj : j < c.m) (hsel : c.dec j (Shared.bus c s x).adr = true) (hto : Shared.done c s = false) (i : Nat) :
    ((Shared.out c s x).toM i).datR = (x.ss j).datR := by
  have : Shared.decDat c s x = (x.ss j).datR := by
    unfold Shared.decDat
    rw [orDat_unique hj]
    · simp [gate, Shared.selMux, hreg, Shared.sel, hsel]
    · intro k hk hne
      cases hs : c.dec k (Shared.bus c s x).adr
      · simp [gate, Shared.selMux, hreg, Shared.sel, hs]
      · exact absurd (hd _ k j hk hj hs hsel) hne
  simp [Shared.out, Shared.busDat, hto, this]

/-- FULL STATEMENT (does not hold for `register=True`):
      `c.dec j (owner's address) → ¬ timeout → (o.toM i).datR = (x.ss j).datR`   in every cycle.
    `Decoder(register=True)` muxes the read data with the slave select sampled at the previous clock edge, so the
    claim needs the previous cycle's bus address to decode like the current one ("the acknowledging cycle is not
    the first cycle of a new address", i.e. slave latency ≥ 1).  `s'` is the state after an arbitrary previous
    cycle `x₁` from an arbitrary state `s`. -/
theorem wb_dat_r_registered_partial (hd : DisjointDec c.m c.dec) (hreg : c.reg = true)
    (s : ShState) (x₁ x₂ : BusIn)
    (hsame : ∀ k, k < c.m →
      c.dec k (Shared.bus c s x₁).adr = c.dec k (Shared.bus c (Shared.next c s x₁) x₂).adr)
    (j : Nat) (hj : j < c.m) (hsel : c.dec j (Shared.bus c (Shared.next c s x₁) x₂).adr = true)
    (hto : Shared.done c (Shared.next c s x₁) = false) (i : Nat) :
    ((Shared.out c (Shared.next c s x₁) x₂).toM i).datR = (x₂.ss j).datR := by
  have hselR : ∀ k, k < c.m → Shared.selMux c (Shared.next c s x₁) x₂ k =
      c.dec k (Shared.bus c (Shared.next c s x₁) x₂).adr := by
    intro k hk
    unfold Shared.selMux
    simp only [hreg, if_true]
    rw [Shared.selR_next c hreg s x₁ k hk]
    simp only [Shared.sel, Shared.bus]
    exact hsame k hk
  have : Shared.decDat c (Shared.next c s x₁) x₂ = (x₂.ss j).datR := by
    unfold Shared.decDat
    rw [orDat_unique hj]
    · simp [gate, hselR j hj, hsel]
    · intro k hk hne
      rw [hselR k hk]
      cases hs : c.dec k (Shared.bus c (Shared.next c s x₁) x₂).adr
      · simp [gate]
      · exact absurd (hd _ k j hk hj hs hsel) hne
  simp [Shared.out, Shared.busDat, hto, this]

/-- **Ownership is stable.**  The grant moves only in a cycle in which the owner's `cyc` is low, and then to a
    master that is requesting (SP_WITHDRAW). -/
theorem wb_owner_stable (s : ShState) (x : BusIn) (hg : s.grant < c.n)
    (h : (Shared.next c s x).grant ≠ s.grant) :
    (x.ms s.grant).cyc = false ∧ (x.ms (Shared.next c s x).grant).cyc = true := by
  have := RoundRobin.next_change_req .withdraw (fun i => (x.ms i).cyc) true hg h
  exact ⟨this.2, this.1⟩

/-- The same along every run from reset. -/
theorem wb_owner_stable_run (hn : 0 < c.n) (ins : List BusIn) (x : BusIn)
    (h : ((Shared.machine c).run (ins ++ [x])).grant ≠ ((Shared.machine c).run ins).grant) :
    (x.ms ((Shared.machine c).run ins).grant).cyc = false ∧
    (x.ms ((Shared.machine c).run (ins ++ [x])).grant).cyc = true := by
  have hrun : (Shared.machine c).run (ins ++ [x]) = Shared.next c ((Shared.machine c).run ins) x := by
    simp [Machine.run, Machine.runFrom_append, Machine.runFrom, Shared.machine]
  rw [hrun] at h ⊢
  exact wb_owner_stable c _ x (Shared.grant_lt_run c hn ins) h

/-- A bus cycle stays owned by its master until that master ends it: while the owner keeps `cyc` high, the grant
    does not move, whatever the other masters and the slaves do and however long it takes. -/
theorem wb_cycle_owned (s : ShState) (hg : s.grant < c.n) (ins : List BusIn)
    (hold : ∀ x ∈ ins, (x.ms s.grant).cyc = true) :
    ((Shared.machine c).runFrom s ins).grant = s.grant := by
  rw [Shared.run_grant]
  apply RoundRobin.rr_keep_granted hg
  intro rc hrc
  simp only [Shared.reqs, List.mem_map] at hrc
  obtain ⟨x, hx, rfl⟩ := hrc
  exact hold x hx

/-- **Exactly one termination.**  In a cycle in which the slaves answer only presented strobes (and the timeout
    does not fire): master `i` sees a termination iff it is the owner, drives `cyc & stb`, and the slave selected
    by its address terminates; and a terminating slave is seen by exactly one master (the owner) while no other
    slave terminates in that cycle.  So terminations are neither lost, duplicated nor invented. -/
theorem wb_one_termination (hd : DisjointDec c.m c.dec) (s : ShState) (x : BusIn)
    (hb : SlavesBehaved c.m (Shared.out c s x) x) (hto : Shared.done c s = false) :
    let o := Shared.out c s x
    (∀ i, mTerm o i = true ↔
      (s.grant = i ∧ ∃ j, j < c.m ∧ c.dec j (c.busAdr (x.ms i).adr) = true ∧ (x.ms i).cyc = true ∧ (x.ms i).stb = true ∧
        sTerm x j = true)) ∧
    (∀ j, j < c.m → sTerm x j = true →
      mTerm o s.grant = true ∧ (∀ i, mTerm o i = true → i = s.grant) ∧ (∀ k, k < c.m → sTerm x k = true → k = j)) := by
  have key : ∀ j, j < c.m → sTerm x j = true →
      c.dec j (Shared.bus c s x).adr = true ∧ (x.ms s.grant).cyc = true ∧ (x.ms s.grant).stb = true := by
    intro j hj h
    have := hb j hj h
    simp [Shared.out, Shared.bus, Shared.sel] at this
    exact ⟨this.1.2, this.1.1, this.2⟩
  have mterm : ∀ i, mTerm (Shared.out c s x) i = true ↔ (s.grant = i ∧ ∃ j, j < c.m ∧ sTerm x j = true) := by
    intro i
    simp only [mTerm, Shared.out, Shared.busAck, Shared.busErr, Shared.decAck, Shared.decErr, hto, Bool.false_or,
      Bool.or_eq_true, Bool.and_eq_true, beq_iff_eq, orAll_true, sTerm]
    constructor
    · rintro (⟨⟨j, hj, h⟩, hg⟩ | ⟨⟨j, hj, h⟩, hg⟩)
      · exact ⟨hg, j, hj, Or.inl h⟩
      · exact ⟨hg, j, hj, Or.inr h⟩
    · rintro ⟨hg, j, hj, h | h⟩
      · exact Or.inl ⟨⟨j, hj, h⟩, hg⟩
      · exact Or.inr ⟨⟨j, hj, h⟩, hg⟩
  refine ⟨fun i => ?_, fun j hj h => ⟨?_, ?_, ?_⟩⟩
  · rw [mterm]
    constructor
    · rintro ⟨hg, j, hj, h⟩
      have := key j hj h
      subst hg
      exact ⟨rfl, j, hj, this.1, this.2.1, this.2.2, h⟩
    · rintro ⟨hg, j, hj, _, _, _, h⟩
      exact ⟨hg, j, hj, h⟩
  · exact (mterm _).2 ⟨rfl, j, hj, h⟩
  · intro i hi
    exact ((mterm i).1 hi).1.symm
  · intro k hk h'
    exact hd _ k j hk hj (key k hk h').1 (key j hj h).1

/-- Number of cycles of a run in which master `i` waits (is not the owner) although the owner's `cyc` is low. -/
def idleWaits (i : Nat) (s : ShState) : List BusIn → Nat
  | [] => 0
  | x :: rest =>
    (if s.grant ≠ i ∧ (x.ms s.grant).cyc = false then 1 else 0) + idleWaits i (Shared.next c s x) rest

/-- Number of cycles of a run at whose clock edge the grant changes. -/
def grantChanges (s : ShState) : List BusIn → Nat
  | [] => 0
  | x :: rest => (if (Shared.next c s x).grant ≠ s.grant then 1 else 0) + grantChanges (Shared.next c s x) rest

/-- **Bounded waiting.**  From any state with a valid grant, along any run in which master `i` holds `cyc`:
    (grant changes so far) + (round-robin distance still to go) ≤ (initial distance) ≤ n-1, and likewise for the
    cycles in which `i` waits while the bus is idle.  Hence `i` becomes the owner after at most `n-1` completed
    cycles of other masters, and every cycle in which the owner has released the bus brings it strictly closer. -/
theorem wb_bounded_wait (i : Nat) (hi : i < c.n) (s : ShState) (hg : s.grant < c.n) (ins : List BusIn)
    (hreq : ∀ x ∈ ins, (x.ms i).cyc = true) :
    grantChanges c s ins + RoundRobin.dist c.n ((Shared.machine c).runFrom s ins).grant i
        ≤ RoundRobin.dist c.n s.grant i ∧
    idleWaits c i s ins + RoundRobin.dist c.n ((Shared.machine c).runFrom s ins).grant i
        ≤ RoundRobin.dist c.n s.grant i ∧
    RoundRobin.dist c.n s.grant i ≤ c.n - 1 := by
  have hreq' : ∀ rc ∈ Shared.reqs ins, rc.1 i = true := by
    intro rc hrc
    simp only [Shared.reqs, List.mem_map] at hrc
    obtain ⟨x, hx, rfl⟩ := hrc
    exact hreq x hx
  have hc : ∀ (ins : List BusIn) (s : ShState),
      grantChanges c s ins = RoundRobin.changes .withdraw c.n s.grant (Shared.reqs ins) := by
    intro ins
    induction ins with
    | nil => intro s; rfl
    | cons x rest ih => intro s; simp only [grantChanges, Shared.reqs, List.map_cons, RoundRobin.changes]; rw [ih]; rfl
  have hs : ∀ (ins : List BusIn) (s : ShState),
      idleWaits c i s ins = RoundRobin.stalls c.n i s.grant (Shared.reqs ins) := by
    intro ins
    induction ins with
    | nil => intro s; rfl
    | cons x rest ih => intro s; simp only [idleWaits, Shared.reqs, List.map_cons, RoundRobin.stalls]; rw [ih]; rfl
  rw [hc, hs, Shared.run_grant]
  have h1 := RoundRobin.rr_bounded_wait hi (Shared.reqs ins) hg hreq'
  have h2 := RoundRobin.rr_stalls_bounded hi (Shared.reqs ins) hg hreq'
  exact ⟨h1.1, h2, h1.2⟩

/-- … and once it owns the bus it keeps it for as long as it holds `cyc` (`wb_cycle_owned`), so a waiting master
    whose distance reached 0 is, and stays, the owner. -/
theorem wb_granted_of_dist_zero (i : Nat) (hi : i < c.n) (s : ShState) (hg : s.grant < c.n)
    (h : RoundRobin.dist c.n s.grant i = 0) : s.grant = i :=
  RoundRobin.dist_eq_zero hg hi h

/-- A waiting master that has sat through `n-1` cycles in which the owner had released the bus owns it. -/
theorem wb_granted_within (i : Nat) (hi : i < c.n) (s : ShState) (hg : s.grant < c.n) (ins : List BusIn)
    (hreq : ∀ x ∈ ins, (x.ms i).cyc = true) (h : c.n - 1 ≤ idleWaits c i s ins) :
    ((Shared.machine c).runFrom s ins).grant = i := by
  have hb := wb_bounded_wait c i hi s hg ins hreq
  apply RoundRobin.dist_eq_zero (Shared.grant_lt_runFrom c s hg ins) hi
  omega
/-- Terminations seen by master `i` along a run / terminations issued by slaves for strobes of master `i`
    (cycles in which `i` owns the bus, drives `cyc & stb` to a matching slave, and that slave terminates). -/
def termsSeen (i : Nat) (s : ShState) : List BusIn → Nat
  | [] => 0
  | x :: rest => (if mTerm (Shared.out c s x) i = true then 1 else 0) + termsSeen i (Shared.next c s x) rest

def termsIssued (i : Nat) (s : ShState) : List BusIn → Nat
  | [] => 0
  | x :: rest =>
    (if s.grant = i ∧ ∃ j, j < c.m ∧ c.dec j (c.busAdr (x.ms i).adr) = true ∧ (x.ms i).cyc = true ∧ (x.ms i).stb = true ∧
        sTerm x j = true then 1 else 0) + termsIssued i (Shared.next c s x) rest

/-- Every cycle of the run satisfies the slave-side environment assumption. -/
def BehavedRun (s : ShState) : List BusIn → Prop
  | [] => True
  | x :: rest => SlavesBehaved c.m (Shared.out c s x) x ∧ BehavedRun (Shared.next c s x) rest

/-- Along every run (no timeout module, behaved slaves): each master sees exactly as many terminations as
    slaves issued for its own presented strobes — one per answered request, for every interleaving. -/
theorem wb_one_termination_run (hd : DisjointDec c.m c.dec) (hto : c.timeout = none) (i : Nat) :
    ∀ (ins : List BusIn) (s : ShState), BehavedRun c s ins → termsSeen c i s ins = termsIssued c i s ins := by
  intro ins
  induction ins with
  | nil => intro s _; rfl
  | cons x rest ih =>
    intro s hb
    have hdone : Shared.done c s = false := by simp [Shared.done, hto]
    have h := (wb_one_termination c hd s x hb.1 hdone).1 i
    simp only [termsSeen, termsIssued]
    rw [ih _ hb.2]
    by_cases hm : mTerm (Shared.out c s x) i = true
    · rw [if_pos hm, if_pos (h.1 hm)]
    · rw [if_neg hm, if_neg (fun hh => hm (h.2 hh))]

end SharedThms

/-! ### Non-vacuity and the negative witness (InterconnectShared) -/
section SharedExamples

/-- 2 masters × 2 slaves, slave `j` decodes `adr[1:] == j`, unregistered, no timeout. -/
def cfgA : ShCfg := { n := 2, m := 2, dec := fun j a => (a >>> 1) == j, reg := false, timeout := none, dw := 8 }

theorem cfgA_disjoint : DisjointDec cfgA.m cfgA.dec := by
  intro a j k _ _ h1 h2
  simp [cfgA] at h1 h2
  omega

/-- Both masters request (master 0 reads slave 1, master 1 writes slave 0); slave 1 acknowledges with 0x42. -/
def xA : BusIn :=
  { ms := fun i => if i = 0 then { cyc := true, stb := true, adr := 2 } else { cyc := true, stb := true, we := true, adr := 1, datW := 7 },
    ss := fun j => if j = 1 then { ack := true, datR := 0x42 } else { datR := 0x99 } }

/-- Master 0 finished, master 1 still requests: the grant moves to master 1 at this edge. -/
def xA' : BusIn :=
  { ms := fun i => if i = 0 then {} else { cyc := true, stb := true, we := true, adr := 1, datW := 7 },
    ss := fun _ => {} }

/-- The hypotheses of the per-cycle theorems are met by a cycle in which things happen: slave 1 (only) sees the
    cycle, master 0 (only) sees the acknowledge with slave 1's data, the slaves are behaved. -/
example :
    let o := Shared.out cfgA (Shared.init cfgA) xA
    (o.toS 1).cyc = true ∧ (o.toS 0).cyc = false ∧ (o.toM 0).ack = true ∧ (o.toM 1).ack = false ∧
    (o.toM 0).datR = 0x42 ∧ mTerm o 0 = true ∧ sTerm xA 1 = true := by decide

example : SlavesBehaved cfgA.m (Shared.out cfgA (Shared.init cfgA) xA) xA := by
  intro j hj h
  have : j = 0 ∨ j = 1 := by simp [cfgA] at hj; omega
  rcases this with rfl | rfl
  · simp [sTerm, xA] at h
  · decide

/-- Ownership really moves (non-vacuity of `wb_owner_stable`, `wb_bounded_wait`): master 1 waits one cycle while
    master 0 is served, then is granted after exactly one grant change (= n-1). -/
example :
    ((Shared.machine cfgA).run [xA]).grant = 0 ∧ ((Shared.machine cfgA).run [xA, xA']).grant = 1 ∧
    grantChanges cfgA (Shared.init cfgA) [xA, xA'] = 1 ∧ idleWaits cfgA 1 (Shared.init cfgA) [xA, xA'] = 1 ∧
    RoundRobin.dist cfgA.n (Shared.init cfgA).grant 1 = 1 := by decide

/-- Why `SlavesBehaved` is a hypothesis: the decoder ORs the `ack` of ALL slaves, so a slave that acknowledges
    without being addressed terminates the owner's cycle to another slave (here: master 0 addresses slave 1,
    which is silent; slave 0 acknowledges unasked; master 0 sees `ack`).  This is a protocol violation of the
    slave, not of the interconnect; the model reproduces it faithfully. -/
example :
    let x : BusIn := { ms := fun _ => { cyc := true, stb := true, adr := 2 },
                       ss := fun j => if j = 0 then { ack := true, datR := 0x99 } else {} }
    let o := Shared.out cfgA (Shared.init cfgA) x
    (o.toS 0).cyc = false ∧ (o.toS 1).cyc = true ∧ (x.ss 1).ack = false ∧ (o.toM 0).ack = true ∧
    (o.toM 0).datR = 0 := by decide

/-- Non-vacuity of `wb_one_termination_run`: a behaved two-cycle run in which master 0 receives its one
    termination and master 1 (still waiting for slave 0) none. -/
example :
    BehavedRun cfgA (Shared.init cfgA) [xA, xA'] ∧
    termsSeen cfgA 0 (Shared.init cfgA) [xA, xA'] = 1 ∧ termsIssued cfgA 0 (Shared.init cfgA) [xA, xA'] = 1 ∧
    termsSeen cfgA 1 (Shared.init cfgA) [xA, xA'] = 0 := by
  refine ⟨⟨?_, ?_, trivial⟩, by decide, by decide, by decide⟩
  · intro j hj h
    have : j = 0 ∨ j = 1 := by simp [cfgA] at hj; omega
    rcases this with rfl | rfl
    · simp [sTerm, xA] at h
    · decide
  · intro j hj h
    simp [sTerm, xA'] at h

/-- Masters of different address width (master 0: 1 bit, master 1: 2 bits, listed narrow first): the wide master's
    address 2 is above the narrow master's range; it still selects slave 1 and arrives unchanged. -/
example :
    let c : ShCfg := { cfgA with aws := [1, 2] }
    let s : ShState := { Shared.init c with grant := 1 }
    let x : BusIn := { ms := fun i => if i = 1 then { cyc := true, stb := true, adr := 2 } else {}, ss := fun _ => {} }
    c.busWidth = some 2 ∧ ((Shared.out c s x).toS 1).cyc = true ∧ ((Shared.out c s x).toS 0).cyc = false ∧
    ((Shared.out c s x).toS 1).adr = 2 := by decide

/-- 1 master × 2 slaves with `register=True`. -/
def cfgR : ShCfg := { n := 1, m := 2, dec := fun j a => (a >>> 1) == j, reg := true, timeout := none, dw := 8 }

/-- cycle 1: read of address 2 (slave 1), slave 1 acknowledges at once (0-latency) with 0x42;
    cycle 2: read of address 0 (slave 0), slave 0 acknowledges at once with 0x17 while slave 1 still drives 0x42. -/
def xR1 : BusIn :=
  { ms := fun _ => { cyc := true, stb := true, adr := 2 },
    ss := fun j => if j = 1 then { ack := true, datR := 0x42 } else { datR := 0x99 } }
def xR2 : BusIn :=
  { ms := fun _ => { cyc := true, stb := true, adr := 0 },
    ss := fun j => if j = 0 then { ack := true, datR := 0x17 } else { datR := 0x42 } }

/-- **Negative witness** for the full read-data statement with `register=True` (documented limitation, finding
    `C06-registered-decoder-0-latency`): the first acknowledge carries 0 instead of slave 1's 0x42, the second
    carries slave 1's 0x42 instead of slave 0's 0x17.  Both cycles violate only the `hsame` hypothesis of
    `wb_dat_r_registered_partial`. -/
example :
    let s0 := Shared.init cfgR
    let s1 := Shared.next cfgR s0 xR1
    cfgR.dec 1 (xR1.ms s0.grant).adr = true ∧ ((Shared.out cfgR s0 xR1).toM 0).ack = true ∧
      ((Shared.out cfgR s0 xR1).toM 0).datR ≠ (xR1.ss 1).datR ∧
    cfgR.dec 0 (xR2.ms s1.grant).adr = true ∧ ((Shared.out cfgR s1 xR2).toM 0).ack = true ∧
      ((Shared.out cfgR s1 xR2).toM 0).datR ≠ (xR2.ss 0).datR ∧
      ((Shared.out cfgR s1 xR2).toM 0).datR = (xR2.ss 1).datR := by decide

/-- Non-vacuity of `wb_dat_r_registered_partial`: a slave with latency 1 (address held for a second cycle) is read
    correctly through the registered decoder. -/
example :
    let s1 := Shared.next cfgR (Shared.init cfgR) { xR1 with ss := fun _ => {} }
    ((Shared.out cfgR s1 xR1).toM 0).ack = true ∧ ((Shared.out cfgR s1 xR1).toM 0).datR = 0x42 := by decide

end SharedExamples

/-! ## Crossbar (per-column reuse of the arbiter results, per-row reuse of the decoder results) -/
section CrossbarThms
variable (c : XbCfg)

/-- **Routing.**  Slave `j` is driven by exactly one master, the one its arbiter grants: it sees `cyc` iff that
    master drives `cyc` with an address matching slave `j`'s predicate, and all other signals are that master's. -/
theorem xb_route (s : XbState) (x : BusIn) (j : Nat) :
    let o := Crossbar.out c s x
    let own := x.ms (Crossbar.grant s j)
    (o.toS j).cyc = (own.cyc && c.dec j own.adr) ∧
    (o.toS j).stb = own.stb ∧ (o.toS j).we = own.we ∧ (o.toS j).adr = own.adr ∧
    (o.toS j).datW = own.datW ∧ (o.toS j).sel = own.sel ∧ (o.toS j).cti = own.cti ∧ (o.toS j).bte = own.bte := by
  simp [Crossbar.out, Crossbar.colReq, Crossbar.sel]

/-- With disjoint decoders a master's cycle is presented to at most one slave. -/
theorem xb_route_one_slave (hd : DisjointDec c.m c.dec) (s : XbState) (x : BusIn) (i j k : Nat)
    (hj : j < c.m) (hk : k < c.m) (gj : Crossbar.grant s j = i) (gk : Crossbar.grant s k = i)
    (h1 : ((Crossbar.out c s x).toS j).cyc = true) (h2 : ((Crossbar.out c s x).toS k).cyc = true) : j = k := by
  simp [Crossbar.out, Crossbar.colReq, Crossbar.sel, gj, gk] at h1 h2
  exact hd _ j k hj hk h1.2 h2.2

/-- A slave whose predicate does not match its granted master's address sees no cycle; in particular a cycle whose
    address matches no decoder is presented nowhere. -/
theorem xb_route_none (s : XbState) (x : BusIn) (j : Nat)
    (hno : c.dec j (x.ms (Crossbar.grant s j)).adr = false) : ((Crossbar.out c s x).toS j).cyc = false := by
  simp [Crossbar.out, Crossbar.colReq, Crossbar.sel, hno]

/-- In every reachable state every column's owner is one of the masters. -/
theorem xb_owner_is_master (hn : 0 < c.n) (ins : List BusIn) (j : Nat) (hj : j < c.m) :
    Crossbar.grant ((Crossbar.machine c).run ins) j < c.n :=
  Crossbar.grantsOk_run c hn ins j hj

/-- **Answers reach the owner only.**  A master that sees `ack` (`err`) owns a slave that drives `ack` (`err`). -/
theorem xb_answer_owner_only (s : XbState) (x : BusIn) (i : Nat) :
    let o := Crossbar.out c s x
    ((o.toM i).ack = true → ∃ j, j < c.m ∧ Crossbar.grant s j = i ∧ (x.ss j).ack = true) ∧
    ((o.toM i).err = true → ∃ j, j < c.m ∧ Crossbar.grant s j = i ∧ (x.ss j).err = true) := by
  constructor <;>
  · intro h
    simp only [Crossbar.out, orAll_true, Bool.and_eq_true, beq_iff_eq] at h
    obtain ⟨j, hj, h1, h2⟩ := h
    exact ⟨j, hj, h2, h1⟩

theorem xb_only_selected_answers (hd : DisjointDec c.m c.dec) (s : XbState) (x : BusIn)
    (hb : SlavesBehaved c.m (Crossbar.out c s x) x) (i j : Nat) (hj : j < c.m)
    (hsel : c.dec j (x.ms i).adr = true) (k : Nat) (hk : k < c.m) (hne : k ≠ j)
    (hg : Crossbar.grant s k = i) : sTerm x k = false := by
  cases h : sTerm x k
  · rfl
  · have := (hb k hk h).1
    simp [Crossbar.out, Crossbar.colReq, Crossbar.sel, hg] at this
    exact absurd (hd _ k j hk hj this.2 hsel) hne

/-- Behaved slaves, disjoint decoders: master `i`'s `ack`/`err` are exactly those of the slave its address
    selects, gated by that slave's grant. -/
theorem xb_answer_selected (hd : DisjointDec c.m c.dec) (s : XbState) (x : BusIn)
    (hb : SlavesBehaved c.m (Crossbar.out c s x) x) (i j : Nat) (hj : j < c.m)
    (hsel : c.dec j (x.ms i).adr = true) :
    let o := Crossbar.out c s x
    (o.toM i).ack = ((x.ss j).ack && (Crossbar.grant s j == i)) ∧
    (o.toM i).err = ((x.ss j).err && (Crossbar.grant s j == i)) := by
  have hothers := xb_only_selected_answers c hd s x hb i j hj hsel
  constructor
  · simp only [Crossbar.out]
    apply orAll_unique hj
    intro k hk hne
    by_cases hg : Crossbar.grant s k = i
    · have := hothers k hk hne hg
      simp [sTerm] at this
      simp [this.1]
    · simp [hg]
  · simp only [Crossbar.out]
    apply orAll_unique hj
    intro k hk hne
    by_cases hg : Crossbar.grant s k = i
    · have := hothers k hk hne hg
      simp [sTerm] at this
      simp [this.2]
    · simp [hg]

/-- Unregistered decoders: master `i` reads the data of the slave its address selects. -/
theorem xb_dat_r (hd : DisjointDec c.m c.dec) (hreg : c.reg = false) (s : XbState) (x : BusIn)
    (i j : Nat) (hj : j < c.m) (hsel : c.dec j (x.ms i).adr = true) :
    ((Crossbar.out c s x).toM i).datR = (x.ss j).datR := by
  simp only [Crossbar.out]
  rw [orDat_unique hj]
  · simp [gate, Crossbar.selMux, hreg, Crossbar.sel, hsel]
  · intro k hk hne
    cases hs : c.dec k (x.ms i).adr
    · simp [gate, Crossbar.selMux, hreg, Crossbar.sel, hs]
    · exact absurd (hd _ k j hk hj hs hsel) hne

/-- FULL STATEMENT (fails for `register=True`): `c.dec j (x.ms i).adr → (o.toM i).datR = (x.ss j).datR` in every
    cycle.  With registered decoders it needs master `i`'s previous-cycle address to decode like the current one. -/
theorem xb_dat_r_registered_partial (hd : DisjointDec c.m c.dec) (hreg : c.reg = true)
    (s : XbState) (x₁ x₂ : BusIn) (i : Nat) (hi : i < c.n)
    (hsame : ∀ k, k < c.m → c.dec k (x₁.ms i).adr = c.dec k (x₂.ms i).adr)
    (j : Nat) (hj : j < c.m) (hsel : c.dec j (x₂.ms i).adr = true) :
    ((Crossbar.out c (Crossbar.next c s x₁) x₂).toM i).datR = (x₂.ss j).datR := by
  have hselR : ∀ k, k < c.m → Crossbar.selMux c (Crossbar.next c s x₁) x₂ i k = c.dec k (x₂.ms i).adr := by
    intro k hk
    unfold Crossbar.selMux
    simp only [hreg, if_true]
    rw [Crossbar.selR_next c hreg s x₁ i k hi hk]
    exact hsame k hk
  simp only [Crossbar.out]
  rw [orDat_unique hj]
  · simp [gate, hselR j hj, hsel]
  · intro k hk hne
    rw [hselR k hk]
    cases hs : c.dec k (x₂.ms i).adr
    · simp [gate]
    · exact absurd (hd _ k j hk hj hs hsel) hne

/-- **Ownership is stable** per slave: the grant of column `j` moves only when its owner does not request slave
    `j` in that cycle (cyc low or address elsewhere), and then to a master that does. -/
theorem xb_owner_stable (s : XbState) (x : BusIn) (j : Nat) (hj : j < c.m) (hg : Crossbar.grant s j < c.n)
    (h : Crossbar.grant (Crossbar.next c s x) j ≠ Crossbar.grant s j) :
    Crossbar.colReq c x j (Crossbar.grant s j) = false ∧
    Crossbar.colReq c x j (Crossbar.grant (Crossbar.next c s x) j) = true := by
  rw [Crossbar.grant_next c s x j hj] at h ⊢
  have := RoundRobin.next_change_req .withdraw (Crossbar.colReq c x j) true hg h
  exact ⟨this.2, this.1⟩

/-- While the owner of slave `j` keeps requesting it, it keeps the slave. -/
theorem xb_cycle_owned (s : XbState) (j : Nat) (hj : j < c.m) (hg : Crossbar.grant s j < c.n) (ins : List BusIn)
    (hold : ∀ x ∈ ins, Crossbar.colReq c x j (Crossbar.grant s j) = true) :
    Crossbar.grant ((Crossbar.machine c).runFrom s ins) j = Crossbar.grant s j := by
  rw [Crossbar.run_grant c j hj]
  apply RoundRobin.rr_keep_granted hg
  intro rc hrc
  simp only [Crossbar.reqs, List.mem_map] at hrc
  obtain ⟨x, hx, rfl⟩ := hrc
  exact hold x hx

/-- **Exactly one termination** (crossbar): with behaved slaves and disjoint decoders master `i` sees a termination
    iff it owns a slave that it addresses with `cyc & stb` and that terminates; a terminating slave is seen by its
    owner and by no other master. -/
theorem xb_one_termination (s : XbState) (x : BusIn) (hb : SlavesBehaved c.m (Crossbar.out c s x) x) :
    let o := Crossbar.out c s x
    (∀ i, mTerm o i = true ↔
      ∃ j, j < c.m ∧ Crossbar.grant s j = i ∧ c.dec j (x.ms i).adr = true ∧ (x.ms i).cyc = true ∧
        (x.ms i).stb = true ∧ sTerm x j = true) ∧
    (∀ j, j < c.m → sTerm x j = true → mTerm o (Crossbar.grant s j) = true) := by
  have mterm : ∀ i, mTerm (Crossbar.out c s x) i = true ↔
      ∃ j, j < c.m ∧ Crossbar.grant s j = i ∧ sTerm x j = true := by
    intro i
    simp only [mTerm, Crossbar.out, Bool.or_eq_true, orAll_true, Bool.and_eq_true, beq_iff_eq, sTerm]
    constructor
    · rintro (⟨j, hj, h, hg⟩ | ⟨j, hj, h, hg⟩)
      · exact ⟨j, hj, hg, Or.inl h⟩
      · exact ⟨j, hj, hg, Or.inr h⟩
    · rintro ⟨j, hj, hg, h | h⟩
      · exact Or.inl ⟨j, hj, h, hg⟩
      · exact Or.inr ⟨j, hj, h, hg⟩
  refine ⟨fun i => ?_, fun j hj h => (mterm _).2 ⟨j, hj, rfl, h⟩⟩
  rw [mterm]
  constructor
  · rintro ⟨j, hj, hg, h⟩
    have := hb j hj h
    simp [Crossbar.out, Crossbar.colReq, Crossbar.sel, hg] at this
    exact ⟨j, hj, hg, this.1.2, this.1.1, this.2, h⟩
  · rintro ⟨j, hj, hg, _, _, _, h⟩
    exact ⟨j, hj, hg, h⟩

/-- With disjoint decoders at most one of the slaves a master owns can be terminating in a cycle: a master never
    receives two terminations at once. -/
theorem xb_termination_to_owner_only (hd : DisjointDec c.m c.dec) (s : XbState) (x : BusIn)
    (hb : SlavesBehaved c.m (Crossbar.out c s x) x) (i : Nat) (j k : Nat) (hj : j < c.m) (hk : k < c.m)
    (gj : Crossbar.grant s j = i) (gk : Crossbar.grant s k = i)
    (tj : sTerm x j = true) (tk : sTerm x k = true) : j = k := by
  have h1 := (hb j hj tj).1
  have h2 := (hb k hk tk).1
  exact xb_route_one_slave c hd s x i j k hj hk gj gk h1 h2

/-- Cycles in which master `i` requests slave `j`, is not its owner, and the owner does not request it. -/
def xbIdleWaits (i j : Nat) (s : XbState) : List BusIn → Nat
  | [] => 0
  | x :: rest =>
    (if Crossbar.grant s j ≠ i ∧ Crossbar.colReq c x j (Crossbar.grant s j) = false then 1 else 0) +
      xbIdleWaits i j (Crossbar.next c s x) rest

def xbGrantChanges (j : Nat) (s : XbState) : List BusIn → Nat
  | [] => 0
  | x :: rest =>
    (if Crossbar.grant (Crossbar.next c s x) j ≠ Crossbar.grant s j then 1 else 0) +
      xbGrantChanges j (Crossbar.next c s x) rest

/-- **Bounded waiting** per slave: a master that keeps requesting slave `j` is granted after at most `n-1` grant
    changes of column `j`, and waits through at most `n-1` cycles in which slave `j` is not being requested by its
    owner. -/
theorem xb_bounded_wait (i j : Nat) (hi : i < c.n) (hj : j < c.m) (s : XbState) (hg : Crossbar.grant s j < c.n)
    (ins : List BusIn) (hreq : ∀ x ∈ ins, Crossbar.colReq c x j i = true) :
    xbGrantChanges c j s ins + RoundRobin.dist c.n (Crossbar.grant ((Crossbar.machine c).runFrom s ins) j) i
        ≤ RoundRobin.dist c.n (Crossbar.grant s j) i ∧
    xbIdleWaits c i j s ins + RoundRobin.dist c.n (Crossbar.grant ((Crossbar.machine c).runFrom s ins) j) i
        ≤ RoundRobin.dist c.n (Crossbar.grant s j) i ∧
    RoundRobin.dist c.n (Crossbar.grant s j) i ≤ c.n - 1 := by
  have hreq' : ∀ rc ∈ Crossbar.reqs c j ins, rc.1 i = true := by
    intro rc hrc
    simp only [Crossbar.reqs, List.mem_map] at hrc
    obtain ⟨x, hx, rfl⟩ := hrc
    exact hreq x hx
  have hc : ∀ (ins : List BusIn) (s : XbState),
      xbGrantChanges c j s ins = RoundRobin.changes .withdraw c.n (Crossbar.grant s j) (Crossbar.reqs c j ins) := by
    intro ins
    induction ins with
    | nil => intro s; rfl
    | cons x rest ih =>
      intro s
      simp only [xbGrantChanges, Crossbar.reqs, List.map_cons, RoundRobin.changes]
      rw [ih, Crossbar.grant_next c s x j hj]; rfl
  have hs : ∀ (ins : List BusIn) (s : XbState),
      xbIdleWaits c i j s ins = RoundRobin.stalls c.n i (Crossbar.grant s j) (Crossbar.reqs c j ins) := by
    intro ins
    induction ins with
    | nil => intro s; rfl
    | cons x rest ih =>
      intro s
      simp only [xbIdleWaits, Crossbar.reqs, List.map_cons, RoundRobin.stalls]
      rw [ih, Crossbar.grant_next c s x j hj]; rfl
  rw [hc, hs, Crossbar.run_grant c j hj]
  have h1 := RoundRobin.rr_bounded_wait hi (Crossbar.reqs c j ins) hg hreq'
  have h2 := RoundRobin.rr_stalls_bounded hi (Crossbar.reqs c j ins) hg hreq'
  exact ⟨h1.1, h2, h1.2⟩

def xbTermsSeen (i : Nat) (s : XbState) : List BusIn → Nat
  | [] => 0
  | x :: rest => (if mTerm (Crossbar.out c s x) i = true then 1 else 0) + xbTermsSeen i (Crossbar.next c s x) rest

def xbTermsIssued (i : Nat) (s : XbState) : List BusIn → Nat
  | [] => 0
  | x :: rest =>
    (if ∃ j, j < c.m ∧ Crossbar.grant s j = i ∧ c.dec j (x.ms i).adr = true ∧ (x.ms i).cyc = true ∧
        (x.ms i).stb = true ∧ sTerm x j = true then 1 else 0) + xbTermsIssued i (Crossbar.next c s x) rest

def XbBehavedRun (s : XbState) : List BusIn → Prop
  | [] => True
  | x :: rest => SlavesBehaved c.m (Crossbar.out c s x) x ∧ XbBehavedRun (Crossbar.next c s x) rest

/-- Along every run of the crossbar with behaved slaves each master sees exactly as many terminations as slaves
    issued for its own presented strobes. -/
theorem xb_one_termination_run (i : Nat) :
    ∀ (ins : List BusIn) (s : XbState), XbBehavedRun c s ins → xbTermsSeen c i s ins = xbTermsIssued c i s ins := by
  intro ins
  induction ins with
  | nil => intro s _; rfl
  | cons x rest ih =>
    intro s hb
    have h := (xb_one_termination c s x hb.1).1 i
    simp only [xbTermsSeen, xbTermsIssued]
    rw [ih _ hb.2]
    by_cases hm : mTerm (Crossbar.out c s x) i = true
    · rw [if_pos hm, if_pos (h.1 hm)]
    · rw [if_neg hm, if_neg (fun hh => hm (h.2 hh))]

theorem xb_granted_within (i j : Nat) (hi : i < c.n) (hj : j < c.m) (s : XbState) (hg : Crossbar.GrantsOk c s)
    (ins : List BusIn) (hreq : ∀ x ∈ ins, Crossbar.colReq c x j i = true) (h : c.n - 1 ≤ xbIdleWaits c i j s ins) :
    Crossbar.grant ((Crossbar.machine c).runFrom s ins) j = i := by
  have hb := xb_bounded_wait c i j hi hj s (hg j hj) ins hreq
  apply RoundRobin.dist_eq_zero (Crossbar.grantsOk_runFrom c s hg ins j hj) hi
  omega
end CrossbarThms

/-! ### Non-vacuity and negative witness (Crossbar), point-to-point -/
section CrossbarExamples

def xcfgA : XbCfg := { n := 2, m := 2, dec := fun j a => (a >>> 1) == j, reg := false }
def xcfgR : XbCfg := { n := 1, m := 2, dec := fun j a => (a >>> 1) == j, reg := true }

/-- Both masters address slave 1 in the same cycle; slave 1 acknowledges: only master 0 (the owner) sees it.
    Next cycle master 0 has finished and master 1 becomes the owner of slave 1 (one grant change = n-1). -/
def xX : BusIn :=
  { ms := fun i => if i = 0 then { cyc := true, stb := true, adr := 2 } else { cyc := true, stb := true, we := true, adr := 3, datW := 7 },
    ss := fun j => if j = 1 then { ack := true, datR := 0x42 } else { datR := 0x99 } }
def xX' : BusIn :=
  { ms := fun i => if i = 0 then {} else { cyc := true, stb := true, we := true, adr := 3, datW := 7 }, ss := fun _ => {} }

example :
    let o := Crossbar.out xcfgA (Crossbar.init xcfgA) xX
    (o.toS 1).cyc = true ∧ (o.toS 1).adr = 2 ∧ (o.toS 0).cyc = false ∧
    (o.toM 0).ack = true ∧ (o.toM 0).datR = 0x42 ∧ (o.toM 1).ack = false ∧
    Crossbar.grant ((Crossbar.machine xcfgA).run [xX, xX']) 1 = 1 ∧
    xbGrantChanges xcfgA 1 (Crossbar.init xcfgA) [xX, xX'] = 1 := by decide

/-- Negative witness for the registered crossbar decoder (same 0-latency scenario as for the shared bus). -/
example :
    let s0 := Crossbar.init xcfgR
    let s1 := Crossbar.next xcfgR s0 xR1
    ((Crossbar.out xcfgR s0 xR1).toM 0).ack = true ∧ ((Crossbar.out xcfgR s0 xR1).toM 0).datR ≠ (xR1.ss 1).datR ∧
    ((Crossbar.out xcfgR s1 xR2).toM 0).ack = true ∧ ((Crossbar.out xcfgR s1 xR2).toM 0).datR = (xR2.ss 1).datR ∧
    ((Crossbar.out xcfgR s1 xR2).toM 0).datR ≠ (xR2.ss 0).datR := by decide

/-- `InterconnectPointToPoint` is a wire in both directions. -/
theorem p2p_transparent (x : BusIn) :
    (P2P.out () x).toS 0 = x.ms 0 ∧ (P2P.out () x).toM 0 = x.ss 0 := ⟨rfl, rfl⟩

end CrossbarExamples

/-! ## SoC glue: which fabric `SoCBusHandler.do_finalize` instantiates, and routing through it -/
section SocThms

/-- **What the code guarantees about point-to-point**: it is chosen exactly for one master, one slave and
    that slave's region starting at address 0 — nothing is checked about the region's size. -/
theorem busTopology_p2p_iff (n m o : Nat) (k : BusKind) :
    busTopology n m o k = .p2p ↔ n = 1 ∧ m = 1 ∧ o = 0 := by
  unfold busTopology
  by_cases h0 : n = 0 ∨ m = 0
  · simp [h0]; omega
  · by_cases h1 : n = 1 ∧ m = 1 ∧ o = 0
    · simp [h1]
    · cases k <;> simp [h0, h1]

/-- No interconnect iff there is no master or no slave; otherwise, outside the point-to-point case, the configured
    kind (shared bus with decoder and timeout, or crossbar) is built. -/
theorem busTopology_other (n m o : Nat) (k : BusKind) :
    (busTopology n m o k = .none ↔ n = 0 ∨ m = 0) ∧
    (n ≠ 0 → m ≠ 0 → ¬ (n = 1 ∧ m = 1 ∧ o = 0) →
      busTopology n m o k = match k with | .shared => .shared | .crossbar => .crossbar) := by
  unfold busTopology
  constructor
  · by_cases h0 : n = 0 ∨ m = 0
    · simp [h0]
    · by_cases h1 : n = 1 ∧ m = 1 ∧ o = 0
      · simp [h1]
      · cases k <;> simp [h0, h1]
  · intro hn hm h1
    have h0 : ¬ (n = 0 ∨ m = 0) := by omega
    rw [if_neg h0, if_neg h1]
    cases k <;> rfl

/-- A lone slave mapped at a non-zero origin always gets a decoder:
    the guard whose removal is seeded change C06-m3. -/
theorem busTopology_nonzero_origin_decoded (n m o : Nat) (k : BusKind) (ho : o ≠ 0) :
    busTopology n m o k ≠ .p2p := by
  intro h
  exact ho ((busTopology_p2p_iff n m o k).1 h).2.2

/-- The bus keeps the shape selected at elaboration. -/
theorem soc_wf_run (c : SocCfg) (ins : List BusIn) : SocBus.WF c ((SocBus.machine c).run ins) := by
  unfold Machine.run
  apply Machine.invariant_runFrom (SocBus.machine c) (SocBus.WF c)
  · intro s x h
    unfold SocBus.WF at *
    rw [← h]
    cases s <;> rfl
  · unfold SocBus.WF
    simp only [SocBus.machine, SocBus.init]
    cases c.topology <;> rfl

/-- FULL STATEMENT (does not hold, see the witness below): for every SoC bus, slave `j` sees `cyc` iff its
    owner drives `cyc` with an address inside slave `j`'s region predicate.
    It holds for the shared bus and the crossbar unconditionally (`wb_route`, `xb_route`); for the
    point-to-point wiring it needs `hcov`: the lone slave's predicate is true at every address (the region
    decodes the whole space). -/
theorem soc_route_partial (c : SocCfg)
    (hcov : c.topology = .p2p → ∀ a, c.dec 0 a = true)
    (s : SocState) (hwf : SocBus.WF c s) (x : BusIn) (hn : 0 < c.n) (j : Nat) (hj : j < c.m) :
    let o := SocBus.out c s x
    let own := x.ms (SocBus.owner s j)
    (o.toS j).cyc = (own.cyc && c.dec j own.adr) ∧
    (o.toS j).stb = own.stb ∧ (o.toS j).we = own.we ∧ (o.toS j).adr = own.adr ∧
    (o.toS j).datW = own.datW ∧ (o.toS j).sel = own.sel ∧ (o.toS j).cti = own.cti ∧ (o.toS j).bte = own.bte := by
  cases s with
  | idle =>
    -- no interconnect is built only without masters or without slaves: excluded by `hn`, `hj`
    have ht : c.topology = .none := hwf.symm
    have := (busTopology_other c.n c.m c.slaveOrigin c.kind).1.1 ht
    omega
  | p2p =>
    have ht : c.topology = .p2p := hwf.symm
    have hm : c.m = 1 := ((busTopology_p2p_iff _ _ _ _).1 ht).2.1
    have hj0 : j = 0 := by omega
    subst hj0
    simp [SocBus.out, SocBus.owner, P2P.out, hcov ht]
  | sh s' => exact wb_route c.sh s' x j
  | xb s' => exact xb_route c.xb s' x j

/-- The same along every run of the real bus from reset. -/
theorem soc_route_run_partial (c : SocCfg) (hcov : c.topology = .p2p → ∀ a, c.dec 0 a = true)
    (ins : List BusIn) (x : BusIn) (hn : 0 < c.n) (j : Nat) (hj : j < c.m) :
    let s := (SocBus.machine c).run ins
    let own := x.ms (SocBus.owner s j)
    ((SocBus.out c s x).toS j).cyc = (own.cyc && c.dec j own.adr) :=
  (soc_route_partial c hcov _ (soc_wf_run c ins) x hn j hj).1

/-- `hcov` is met as coded when the lone slave's region starts at 0 and its (rounded) size is the whole address
    space: `SoCRegion.decoder` then returns `lambda a: True`. -/
theorem soc_hcov_whole_space (c : SocCfg) (size : Nat) (hr : c.regions = [(0, size)])
    (hsz : 2 ^ clog2 size = 2 ^ c.aw) : ∀ a, c.dec 0 a = true := by
  intro a
  simp [SocCfg.dec, hr, regionDec, hsz]

/-- A bus whose (first) slave is mapped at a NON-ZERO origin always gets a decoder, so a cycle outside the regions
    reaches no slave — unconditionally (no `hcov` needed), whatever other regions exist. -/
theorem soc_nonzero_origin_routed (c : SocCfg) (ho : c.slaveOrigin ≠ 0) (s : SocState) (hwf : SocBus.WF c s)
    (x : BusIn) (hn : 0 < c.n) (j : Nat) (hj : j < c.m) :
    ((SocBus.out c s x).toS j).cyc = ((x.ms (SocBus.owner s j)).cyc && c.dec j (x.ms (SocBus.owner s j)).adr) :=
  (soc_route_partial c (fun h => absurd h (busTopology_nonzero_origin_decoded _ _ _ _ ho)) s hwf x hn j hj).1

end SocThms

/-! ### Witnesses for the SoC glue -/
section SocExamples

/-- 32-bit bus, one master, one slave: region [0x10000000, +0x1000). -/
def socA : SocCfg :=
  { n := 1, regions := [(0x10000000, 0x1000)], kind := .shared, reg := true,
    timeout := some 8, dw := 32, aw := 32 }
/-- One master, one slave: region [0, +0x1000), much smaller than the 4 GiB space. -/
def socW1 : SocCfg := { socA with regions := [(0, 0x1000)] }

/-- A read of byte address 0x2000 (word address 0x800): outside all of the regions above. -/
def xOut : BusIn := { ms := fun _ => { cyc := true, stb := true, adr := 0x800 }, ss := fun _ => {} }
/-- A read of byte address 0x10000004. -/
def xIn : BusIn := { ms := fun _ => { cyc := true, stb := true, adr := 0x4000001 }, ss := fun _ => {} }

/-- Non-vacuity: the non-zero-origin 1×1 bus gets a shared interconnect with decoder; the inside address reaches
    the slave, the outside address does not. -/
example :
    socA.topology = .shared ∧ socA.dec 0 0x4000001 = true ∧ socA.dec 0 0x800 = false ∧
    ((SocBus.out socA (SocBus.init socA) xIn).toS 0).cyc = true ∧
    ((SocBus.out socA (SocBus.init socA) xOut).toS 0).cyc = false := by decide

/-- **Negative witness** (open finding `C06-p2p-partial-region-origin0`, unchanged tree): region [0, +0x1000) →
    point-to-point, and the cycle at 0x2000, which the region predicate rejects, is presented to the slave. -/
example :
    socW1.topology = .p2p ∧ socW1.dec 0 0x800 = false ∧
    ((SocBus.out socW1 (SocBus.init socW1) xOut).toS 0).cyc = true := by decide

end SocExamples

/-! ## Address-map glue: what `check_regions_overlap` accepts has pairwise-disjoint decoders

  `SoCBusHandler.add_region` / `alloc_region` admit a region only if `check_regions_overlap` (modelled as computed:
  `checkRegionsOverlap`, both comparisons on `size_pow2`) returns `None`; `do_finalize` then hands one
  `SoCRegion.decoder` per slave to `InterconnectShared`/`Crossbar`.  The theorems below discharge the
  `DisjointDec` hypothesis of the routing theorems for such buses, using C13's interface theorems
  (`LitexProofs/Soc/AcceptedDisjoint.lean`) through `checkRegionsOverlap_none_iff` and
  `regionDec_eq_decoderAccepts`. -/
section GlueThms
open Litex.Soc

/-- **Accepted ⇒ disjoint windows.**  A region list on which `check_regions_overlap` returns `None` has
    pairwise-disjoint decoded (power-of-two) windows among its non-linker regions — for every list, every
    registration order, power-of-two sizes or not. -/
theorem overlap_check_accepts_disjoint_windows (rs : List Region) (h : checkRegionsOverlap false rs = none) :
    rs.Pairwise (fun r0 r1 => r0.linker = false → r1.linker = false → WinDisjoint r0 r1) :=
  accepted_regions_pairwise_disjoint_windows rs ((checkRegionsOverlap_none_iff rs).1 h)

/-- **Reported ⇒ really overlapping** (the check rejects nothing it should accept): a returned pair `(i, k)`
    names two positions `i < k` whose decoded windows share a byte address, and neither is a linker region
    unless `check_linker` was requested. -/
theorem overlap_check_reports_real_pair (cl : Bool) (rs : List Region) (i k : Nat)
    (h : checkRegionsOverlap cl rs = some (i, k)) :
    i < k ∧ ∃ r0 r1, rs[i]? = some r0 ∧ rs[k]? = some r1 ∧
      (cl = true ∨ (r0.linker = false ∧ r1.linker = false)) ∧ ∃ x, r0.InWindow x ∧ r1.InWindow x := by
  obtain ⟨_, hlt, r0, r1, h0, h1, hov⟩ := firstOverlapFrom_some cl rs 0 i k h
  refine ⟨hlt, r0, r1, by simpa using h0, by simpa using h1, ?_, ?_⟩
  · unfold ovPair at hov
    cases cl <;> cases hl0 : r0.linker <;> cases hl1 : r1.linker <;> simp_all
  · have p0 := pow2ceil_pos r0.size
    have p1 := pow2ceil_pos r1.size
    have hh : ¬ (r0.origin ≥ r1.origin + r1.p2) ∧ ¬ (r1.origin ≥ r0.origin + r0.p2) := by
      unfold ovPair at hov
      by_cases a : r0.origin ≥ r1.origin + r1.p2
      · simp [a] at hov
      · by_cases b : r1.origin ≥ r0.origin + r0.p2
        · simp [a, b] at hov
        · exact ⟨a, b⟩
    unfold Region.p2 at hh
    refine ⟨max r0.origin r1.origin, ?_, ?_⟩ <;> unfold Region.InWindow Region.p2 <;> omega

/-- FULL STATEMENT (does not hold, see the witnesses below): a region list accepted by `check_regions_overlap`
    gives `DisjointDec` for the decoders `do_finalize` builds.
    Proved under `RegionsDecodable` — no slave region is a linker region (the check skips those), origins aligned
    on `size_pow2` (enforced by `decoder()`), windows of at least one bus word (C13-decoder-subword) — and for
    word addresses that fit the bus (`a < 2^(aw - sh)`, every address an `adr` signal can carry). -/
theorem soc_accepted_disjoint_decoders_partial (c : SocCfg) (rs : List Region) (sh : Nat)
    (hr : c.regions = pairsOf rs) (hdw : c.dw / 8 = 2 ^ sh) (hsh : sh ≤ c.aw)
    (hacc : checkRegionsOverlap false rs = none) (hall : RegionsDecodable c.dw rs) :
    DisjointDec c.m (fun j a => decide (a < 2 ^ (c.aw - sh)) && c.dec j a) := by
  intro a j k hj hk h1 h2
  have hm : c.m = rs.length := by simp [SocCfg.m, hr, pairsOf]
  rw [hm] at hj hk
  simp only [Bool.and_eq_true, decide_eq_true_eq] at h1 h2
  rw [socDec_eq c rs hr j hj (hall _ (List.getElem_mem hj)).2.1] at h1
  rw [socDec_eq c rs hr k hk (hall _ (List.getElem_mem hk)).2.1] at h2
  exact accepted_index_disjoint c.aw c.dw sh rs hdw hsh hacc hall a h1.1 j k hj hk h1.2 h2.2

/-- **One slave per cycle on a bus built from an accepted map** (shared, crossbar or point-to-point, every state,
    every input): two slaves driven by the same master never both see `cyc`.  (`_partial`: `RegionsDecodable`
    and the owner's address within the bus's address range, as above.) -/
theorem soc_route_one_slave_partial (c : SocCfg) (rs : List Region) (sh : Nat)
    (hr : c.regions = pairsOf rs) (hdw : c.dw / 8 = 2 ^ sh) (hsh : sh ≤ c.aw)
    (hacc : checkRegionsOverlap false rs = none) (hall : RegionsDecodable c.dw rs)
    (s : SocState) (hwf : SocBus.WF c s) (x : BusIn) (j k : Nat) (hj : j < c.m) (hk : k < c.m)
    (hown : SocBus.owner s j = SocBus.owner s k)
    (hin : (x.ms (SocBus.owner s j)).adr < 2 ^ (c.aw - sh))
    (h1 : ((SocBus.out c s x).toS j).cyc = true) (h2 : ((SocBus.out c s x).toS k).cyc = true) : j = k := by
  have hd := soc_accepted_disjoint_decoders_partial c rs sh hr hdw hsh hacc hall
  cases s with
  | idle => simp [SocBus.out] at h1
  | p2p =>
    have ht : c.topology = .p2p := hwf.symm
    have hm : c.m = 1 := ((busTopology_p2p_iff _ _ _ _).1 ht).2.1
    omega
  | sh s' =>
    simp only [SocBus.owner] at hin
    simp [SocBus.out, Shared.out, Shared.bus, Shared.sel, SocCfg.sh, ShCfg.busAdr, ShCfg.busWidth] at h1 h2
    exact hd (x.ms s'.grant).adr j k hj hk (by simp [hin, h1.2]) (by simp [hin, h2.2])
  | xb s' =>
    simp only [SocBus.owner] at hin hown
    simp [SocBus.out, Crossbar.out, Crossbar.colReq, Crossbar.sel, SocCfg.xb] at h1 h2
    rw [← hown] at h2
    exact hd (x.ms (Crossbar.grant s' j)).adr j k hj hk (by simp [hin, h1.2]) (by simp [hin, h2.2])

/-- **Buses built through `SoCBusHandler`** (any build script: explicit and auto-allocated origins, IO regions,
    linker regions, any registration order): when every call and `do_finalize` are accepted, the decoders handed to
    `InterconnectShared`/`Crossbar` satisfy `DisjointDec` on the bus's address range.  This discharges the
    `disjoint decoders` hypothesis of `wb_route_one_slave`, `wb_answer_selected`, `wb_one_termination`, `xb_*` for
    every bus the glue can build.  FULL STATEMENT (fails, witnesses above and in C13): without `hgood`.
    `_partial`: no slave sits on a linker region (`check_regions_overlap` skips those), regions are decoded
    (`decode=True`; the scripts cannot say otherwise) and at least one bus word (C13-decoder-subword). -/
theorem glue_history_disjoint_decoders_partial (dw aw sh : Nat) (ops : List GlueOp) (s : BusH Nat)
    (kind : BusKind) (reg : Bool) (timeout : Option Nat)
    (hrun : glueRun { aw := aw, dw := dw } 0 ops = .inr s) (hfin : s.finalize = .ok ()) (hm : s.masters ≠ [])
    (hdw : dw / 8 = 2 ^ sh) (hsh : sh ≤ aw)
    (hgood : ∀ p ∈ s.slaveRegions, p.2.linker = false ∧ p.2.decode = true ∧ dw / 8 ≤ p.2.p2) :
    DisjointDec (socOfBus s kind reg timeout).m
      (fun j a => decide (a < 2 ^ (aw - sh)) && (socOfBus s kind reg timeout).dec j a) := by
  have hi : BusH.Inv s := glueRun_inv ops _ 0 s (BusH.inv_init aw dw) hrun
  obtain ⟨haw, hdw'⟩ := glueRun_widths ops _ 0 s hrun
  simp only at haw hdw'
  have hr : (socOfBus s kind reg timeout).regions = pairsOf (s.slaveRegions.map (·.2)) := by
    simp [socOfBus, pairsOf, List.map_map, Function.comp_def]
  have hcaw : (socOfBus s kind reg timeout).aw = aw := haw
  have hcdw : (socOfBus s kind reg timeout).dw = dw := hdw'
  intro a j k hj hk h1 h2
  have hmlen : (socOfBus s kind reg timeout).m = s.slaveRegions.length := by simp [SocCfg.m, socOfBus]
  by_cases hp : s.isP2P = true
  · -- point to point: a single slave
    have h1s : s.slaves.length = 1 := by
      unfold BusH.isP2P at hp
      simp only [Bool.and_eq_true, beq_iff_eq] at hp
      exact hp.1.2
    have : s.slaveRegions.length ≤ 1 := by
      unfold BusH.slaveRegions
      exact Nat.le_trans (List.length_filterMap_le _ _) (Nat.le_of_eq h1s)
    omega
  · have hs : s.slaves ≠ [] := by
      intro hnil
      have : s.slaveRegions = [] := by simp [BusH.slaveRegions, hnil]
      rw [hmlen, this] at hj
      simp at hj
    have hal := (BusH.finalize_ok_aligned hfin hm hs (by simpa using hp)).2
    have hall : RegionsDecodable (socOfBus s kind reg timeout).dw (s.slaveRegions.map (·.2)) := by
      intro r hrm
      obtain ⟨p, hpm, rfl⟩ := List.mem_map.1 hrm
      obtain ⟨g1, g2, g3⟩ := hgood p hpm
      exact ⟨g1, g2, hal p hpm, by rw [hcdw]; exact g3⟩
    have := soc_accepted_disjoint_decoders_partial (socOfBus s kind reg timeout) (s.slaveRegions.map (·.2)) sh hr
      (by rw [hcdw]; exact hdw) (by rw [hcaw]; exact hsh) (slaveRegions_accepted hi) hall
    rw [hcaw] at this
    exact this a j k hj hk h1 h2

end GlueThms

/-! ### Witnesses for the address-map glue -/
section GlueExamples
open Litex.Soc

/-- 12 KiB (not a power of two: decoded on 16 KiB) and a 4 KiB region placed in its rounding gap. -/
def regA : Region := { origin := 0x0, size := 0x3000 }
def regGap : Region := { origin := 0x3000, size := 0x1000 }
def regNext : Region := { origin := 0x4000, size := 0x1000 }

/-- The gap placement is reported in BOTH registration orders (each of the two symmetric comparisons is on
    `size_pow2`; comparing against the declared `size` in either one — seeded change C06-r4m1 — loses one order),
    the placement after the window is accepted in both. -/
example :
    checkRegionsOverlap false [regA, regGap] = some (0, 1) ∧ checkRegionsOverlap false [regGap, regA] = some (0, 1) ∧
    checkRegionsOverlap false [regA, regNext] = none ∧ checkRegionsOverlap false [regNext, regA] = none := by
  decide +kernel

/-- Why the check matters: if the gap placement reached the bus, a cycle at byte 0x3000 (word 0xc00) would be
    presented to both slaves. -/
example :
    let c : SocCfg := { n := 2, regions := pairsOf [regA, regGap], kind := .shared, reg := false, timeout := none,
                        dw := 32, aw := 32 }
    let x : BusIn := { ms := fun _ => { cyc := true, stb := true, adr := 0xc00 }, ss := fun _ => {} }
    ((SocBus.out c (SocBus.init c) x).toS 0).cyc = true ∧ ((SocBus.out c (SocBus.init c) x).toS 1).cyc = true := by
  decide +kernel

/-- Non-vacuity of `soc_route_one_slave_partial`: an accepted three-region map with a non-power-of-two region; an
    address in the rounding gap reaches slave 0 only, the next window slave 1 only, an unmapped one nobody. -/
example :
    let rs : List Region := [regA, regNext, { origin := 0x80000000, size := 0x600, cached := false }]
    let c : SocCfg := { n := 2, regions := pairsOf rs, kind := .crossbar, reg := false, timeout := none, dw := 32, aw := 32 }
    checkRegionsOverlap false rs = none ∧
    (∀ r ∈ rs, r.linker = false ∧ r.decode = true ∧ r.aligned = true ∧ 32 / 8 ≤ r.p2) ∧
    (List.range 3).map (fun j => c.dec j 0xc00) = [true, false, false] ∧
    (List.range 3).map (fun j => c.dec j 0x1000) = [false, true, false] ∧
    (List.range 3).map (fun j => c.dec j 0x2000) = [false, false, false] := by
  decide +kernel

/-- **Negative witness** for the full statement without "no linker region": `check_regions_overlap` skips every
    pair with a linker region, so a slave on a linker region and a slave on an ordinary region at the same
    addresses are both accepted and both decode word 0. -/
example :
    let rs : List Region := [{ origin := 0, size := 0x1000, linker := true }, { origin := 0, size := 0x1000 }]
    let c : SocCfg := { n := 2, regions := pairsOf rs, kind := .shared, reg := false, timeout := none, dw := 32, aw := 32 }
    let x : BusIn := { ms := fun _ => { cyc := true, stb := true, adr := 0 }, ss := fun _ => {} }
    checkRegionsOverlap false rs = none ∧ checkRegionsOverlap true rs = some (0, 1) ∧
    ((SocBus.out c (SocBus.init c) x).toS 0).cyc = true ∧ ((SocBus.out c (SocBus.init c) x).toS 1).cyc = true := by
  decide +kernel

/-- A whole build script: two masters, a 12 KiB slave at 0, then an auto-allocated (origin=None) 4 KiB slave.  The
    allocator steps over the rounding gap: the second slave lands at 0x4000, not 0x3000.  Explicitly placing
    it at 0x3000 is rejected at that call (position 3). -/
example :
    (glueBuild 32 32 .shared true (some 8)
      [.master, .master, .slave (some 0) 0x3000 true false, .slave none 0x1000 true false]).regions?
      = some [(0, 0x3000), (0x4000, 0x1000)] ∧
    (glueBuild 32 32 .shared true (some 8)
      [.master, .master, .slave (some 0) 0x3000 true false, .slave (some 0x3000) 0x1000 true false]).rejectedAt?
      = some 3 := by
  constructor
  · decide +kernel
  · decide +kernel

/-- Non-vacuity of `glue_history_disjoint_decoders_partial`: the script "two masters, 12 KiB slave at 0, auto-allocated
    4 KiB slave, auto-allocated 6 KiB slave" is accepted, finalizes, meets `hgood`, and yields the regions
    `[0,+0x3000) [0x4000,+0x1000) [0x6000,+0x1800)` (the allocator steps over the rounding gap). -/
example :
    (match glueRun { aw := 32, dw := 32 } 0
        [.master, .master, .slave (some 0) 0x3000 true false, .slave none 0x1000 true false, .slave none 0x1800 true false] with
     | .inr s => (match s.finalize with | .ok _ => true | .error _ => false) && !s.masters.isEmpty &&
         s.slaveRegions.all (fun p => !p.2.linker && p.2.decode && decide (32 / 8 ≤ p.2.p2)) &&
         decide ((socOfBus s .shared true none).regions = [(0, 0x3000), (0x4000, 0x1000), (0x6000, 0x1800)])
     | .inl _ => false) = true := by decide +kernel

end GlueExamples

/-! ## Masters restricted by `add_master(region=…)` (remapper in front of the port) -/
section RemapThms

/-- The bus behind remapped ports is the bus of the routing theorems fed with the remapped addresses: everything
    proved above about `SocBus` (routing, answers, ownership, terminations) holds for `SocRBus` with
    `c.mapIn x` in place of `x`; ports without a remapper are untouched. -/
theorem socr_out_eq (c : SocRCfg) (s : SocState) (x : BusIn) :
    (SocRBus.machine c).out s x = SocBus.out c.soc s (c.mapIn x) ∧
    (SocRBus.machine c).next s x = SocBus.next c.soc s (c.mapIn x) ∧
    (∀ i, (c.remaps[i]? = none ∨ c.remaps[i]? = some none) → (c.mapIn x).ms i = x.ms i) := by
  refine ⟨rfl, rfl, ?_⟩
  intro i h
  simp [SocRCfg.mapIn, portAdr_none c i _ h]

/-- **A restricted master stays inside its region.**  Master `i` added with `region=SoCRegion(origin, 2^k)`
    (origin aligned on the size, region inside the address space, at least one bus word): in every state and for
    every address it drives, a slave that is presented its cycle sees an address whose byte address lies in
    `[origin, origin + 2^k)` and which that slave's own decoder matches. -/
theorem soc_remapped_master_confined (c : SocRCfg) (i origin k : Nat)
    (hr : c.remaps[i]? = some (some (origin, 2 ^ k))) (hk : c.sh ≤ k) (hal : origin % 2 ^ k = 0)
    (hfit : origin + 2 ^ k ≤ 2 ^ c.soc.aw)
    (hcov : c.soc.topology = .p2p → ∀ a, c.soc.dec 0 a = true)
    (s : SocState) (hwf : SocBus.WF c.soc s) (x : BusIn) (hn : 0 < c.soc.n) (j : Nat) (hj : j < c.soc.m)
    (hown : SocBus.owner s j = i) :
    let o := (SocRBus.machine c).out s x
    (o.toS j).cyc = true →
      c.soc.dec j (o.toS j).adr = true ∧
      origin ≤ (o.toS j).adr * 2 ^ c.sh ∧ (o.toS j).adr * 2 ^ c.sh < origin + 2 ^ k := by
  intro o hc
  have hroute := soc_route_partial c.soc hcov s hwf (c.mapIn x) hn j hj
  have hcyc : (o.toS j).cyc = (((c.mapIn x).ms (SocBus.owner s j)).cyc &&
      c.soc.dec j ((c.mapIn x).ms (SocBus.owner s j)).adr) := hroute.1
  have hadr : (o.toS j).adr = ((c.mapIn x).ms (SocBus.owner s j)).adr := hroute.2.2.2.1
  rw [hc] at hcyc
  have hdec := (Bool.and_eq_true _ _ ▸ hcyc.symm).2
  have hport : ((c.mapIn x).ms (SocBus.owner s j)).adr = remapAdr origin (2 ^ k) c.sh c.soc.aw (x.ms i).adr := by
    rw [hown]
    simp [SocRCfg.mapIn, SocRCfg.portAdr, hr]
  rw [hadr]
  refine ⟨hdec, ?_⟩
  rw [hport]
  exact remapAdr_confined origin k c.sh c.soc.aw _ hk hal hfit

end RemapThms

section RemapExamples

/-- Three slaves `[0,+0x3000)` `[0x4000,+0x1000)` `[0x8000,+0x1800)`; master 0 restricted to `[0x4000, +0x1000)`,
    master 1 to the rounding gap `[0x3000, +0x1000)` of slave 0, master 2 unrestricted. -/
def socR : SocRCfg :=
  { soc := { n := 3, regions := [(0, 0x3000), (0x4000, 0x1000), (0x8000, 0x1800)], kind := .shared, reg := false,
             timeout := none, dw := 32, aw := 32 },
    remaps := [some (0x4000, 0x1000), some (0x3000, 0x1000), none] }

/-- Non-vacuity: whatever master 0 drives (here word 0x2001, a byte address in slave 2's region) reaches slave 1 at
    word 0x1001; master 1's 0x2001 lands in slave 0's gap at 0xc01; the unrestricted master 2 reaches slave 2. -/
example :
    let x : BusIn := { ms := fun _ => { cyc := true, stb := true, adr := 0x2001 }, ss := fun _ => {} }
    let seen (g : Nat) := (SocRBus.machine socR).out (.sh { Shared.init socR.soc.sh with grant := g }) x
    (List.range 3).map (fun j => (((seen 0).toS j).cyc, ((seen 0).toS j).adr)) = [(false, 0x1001), (true, 0x1001), (false, 0x1001)] ∧
    (List.range 3).map (fun j => ((seen 1).toS j).cyc) = [true, false, false] ∧ ((seen 1).toS 0).adr = 0xc01 ∧
    (List.range 3).map (fun j => ((seen 2).toS j).cyc) = [false, false, true] ∧ ((seen 2).toS 2).adr = 0x2001 := by
  decide +kernel

end RemapExamples

/-! ## Ports behind `add_adapter`'s addressing conversion (byte-addressed wishbone masters and slaves)

  `SocABus` = C14's `convM2S`/`convS2M` slice assignments (`LitexModel/Export/Adapt.lean`) around the remappers around
  the fabric.  The corollaries compose the routing theorems above with C14's address-preservation lemmas
  (`Export.masterBus_spec`, `Export.chainWord_eq`, through `masterAdr_byte`/`slaveAdr_byte`). -/
section AdapterThms
open Litex.Soc

/-- **Routing through the adapters** (every state, every input; master without remapper): slave `j` sees `cyc` iff
    its owner drives `cyc` and slave `j`'s decoder matches the word address the owner's adapter puts on the bus
    (`masterAdr`: the address itself for a word port, C14's `convM2S` slice for a byte port); the slave's own port
    carries that word through its adapter (`slaveAdr`), every other signal is the owner's. -/
theorem soc_adapter_route_partial (c : SocRCfg) (hcov : c.soc.topology = .p2p → ∀ a, c.soc.dec 0 a = true)
    (s : SocState) (hwf : SocBus.WF c.soc s) (x : BusIn) (hn : 0 < c.soc.n) (j : Nat) (hj : j < c.soc.m)
    (hnr : c.remaps[SocBus.owner s j]? = none ∨ c.remaps[SocBus.owner s j]? = some none) :
    let o := (SocABus.machine c).out s x
    let own := x.ms (SocBus.owner s j)
    let w := c.masterAdr (SocBus.owner s j) own.adr
    (o.toS j).cyc = (own.cyc && c.soc.dec j w) ∧ (o.toS j).adr = c.slaveAdr j w ∧
    (o.toS j).stb = own.stb ∧ (o.toS j).we = own.we ∧ (o.toS j).datW = own.datW ∧ (o.toS j).sel = own.sel := by
  intro o own w
  have hroute := soc_route_partial c.soc hcov s hwf (c.mapIn (c.adaptIn x)) hn j hj
  have hms : (c.mapIn (c.adaptIn x)).ms (SocBus.owner s j) = { own with adr := w } := by
    rw [(socr_out_eq c s (c.adaptIn x)).2.2 _ hnr]
    rfl
  rw [hms] at hroute
  obtain ⟨h1, h2, h3, h4, h5, h6, _, _⟩ := hroute
  refine ⟨h1, ?_, h2, h3, h5, h6⟩
  show c.slaveAdr j ((SocBus.out c.soc s (c.mapIn (c.adaptIn x))).toS j).adr = _
  rw [h4]

/-- FULL STATEMENT: on a bus built through `add_master`/`add_slave`, a byte-addressed master's cycle at byte address
    `a` is presented to exactly the slave whose region contains `a`, at the right slave-local address.
    `_partial`: the map's side conditions of `soc_accepted_disjoint_decoders_partial` (`RegionsDecodable`: no linker
    slave region, aligned, at least one bus word), `a < 2^aw`, master without remapper, and `hcov` for the
    point-to-point shortcut (open finding C06-p2p-partial-region-origin0).
    Then: slave `j` sees `cyc` iff the owner drives `cyc` and `a` lies in region `j`'s decoded window; no other slave
    owned by the same master sees it; slave `j`'s port carries the bus word `a / 2^sh` — as the byte address
    `(a / 2^sh)·2^sh` when the slave port is byte-addressed (`slaveAdr_byte`). -/
theorem soc_adapter_exact_partial (c : SocRCfg) (rs : List Region) (sh : Nat)
    (hr : c.soc.regions = pairsOf rs) (hdw : c.soc.dw / 8 = 2 ^ sh) (hsh : sh ≤ c.soc.aw)
    (hacc : checkRegionsOverlap false rs = none) (hall : RegionsDecodable c.soc.dw rs)
    (hcov : c.soc.topology = .p2p → ∀ a, c.soc.dec 0 a = true)
    (s : SocState) (hwf : SocBus.WF c.soc s) (x : BusIn) (hn : 0 < c.soc.n) (j : Nat) (hj : j < rs.length)
    (hnr : c.remaps[SocBus.owner s j]? = none ∨ c.remaps[SocBus.owner s j]? = some none)
    (hb : c.mByte.getD (SocBus.owner s j) false = true)
    (ha : (x.ms (SocBus.owner s j)).adr < 2 ^ c.soc.aw) :
    let o := (SocABus.machine c).out s x
    let own := x.ms (SocBus.owner s j)
    ((o.toS j).cyc = true ↔ own.cyc = true ∧ rs[j].InWindow own.adr) ∧
    (o.toS j).adr = c.slaveAdr j (own.adr / 2 ^ sh) ∧
    (∀ k (hk : k < rs.length), SocBus.owner s k = SocBus.owner s j → (o.toS k).cyc = true → (o.toS j).cyc = true → k = j) := by
  intro o own
  have hm : c.soc.m = rs.length := by simp [SocCfg.m, hr, pairsOf]
  have hcsh : c.sh = sh := by unfold SocRCfg.sh; rw [hdw, Nat.log2_two_pow]
  have hw : c.masterAdr (SocBus.owner s j) own.adr = own.adr / 2 ^ sh := by
    rw [masterAdr_byte c _ _ hb ha (by rw [hcsh]; exact hsh), hcsh]
  have hw' : c.masterAdr (SocBus.owner s j) (x.ms (SocBus.owner s j)).adr = (x.ms (SocBus.owner s j)).adr / 2 ^ sh := hw
  have hwlt : own.adr / 2 ^ sh < 2 ^ (c.soc.aw - sh) := Export.div_lt_pow_sub _ _ _ ha hsh
  obtain ⟨hl, hd, hal, hword⟩ := hall _ (List.getElem_mem hj)
  have hroute := soc_adapter_route_partial c hcov s hwf x hn j (by rw [hm]; exact hj) hnr
  simp only [] at hroute
  rw [hw'] at hroute
  have hdec : c.soc.dec j (own.adr / 2 ^ sh) = true ↔ rs[j].InWindow own.adr := by
    rw [socDec_eq c.soc rs hr j hj hd, decoderAccepts_iff c.soc.aw c.soc.dw sh rs[j] _ hdw hsh hd hal hword hwlt, hdw]
    exact inWindow_word_base rs[j] sh own.adr (by simpa [Region.aligned] using hal) (by rw [← hdw]; exact hword)
  refine ⟨?_, hroute.2.1, ?_⟩
  · rw [hroute.1, Bool.and_eq_true, hdec]
  · intro k hk hown hck hcj
    have hroutek := soc_adapter_route_partial c hcov s hwf x hn k (by rw [hm]; exact hk) (by rw [hown]; exact hnr)
    rw [hown] at hroutek
    simp only [] at hroutek
    rw [hw'] at hroutek
    rw [hroutek.1, Bool.and_eq_true] at hck
    rw [hroute.1, Bool.and_eq_true] at hcj
    have hdk := hck.2
    have hdj := hcj.2
    rw [socDec_eq c.soc rs hr k hk (hall _ (List.getElem_mem hk)).2.1] at hdk
    rw [socDec_eq c.soc rs hr j hj hd] at hdj
    exact accepted_index_disjoint c.soc.aw c.soc.dw sh rs hdw hsh hacc hall _ hwlt k j hk hj hdk hdj

end AdapterThms

section AdapterExamples
open Litex.Soc

/-- 64-bit bus (8 bytes per word, shift 3): byte-addressed master 0, word-addressed master 1; slave 0 `[0,+0x3000)` with
    a word port, slave 1 `[0x4000,+0x1000)` with a byte port. -/
def socB : SocRCfg :=
  { soc := { n := 2, regions := [(0, 0x3000), (0x4000, 0x1000)], kind := .shared, reg := false, timeout := none,
             dw := 64, aw := 32 },
    mByte := [true, false], sByte := [false, true] }

/-- Non-vacuity, and what seeded change C06-r5m2 breaks (shift taken from `address_width//8` = 2 instead of 3): byte
    address 0x4008 driven by the byte master reaches slave 1 only, whose byte port sees 0x4008; byte 0x1008 reaches slave
    0 at word 0x201.  With shift 2 the bus word of 0x1008 would be 0x402, i.e. byte 0x2010. -/
example :
    let x (a : Nat) : BusIn := { ms := fun _ => { cyc := true, stb := true, adr := a }, ss := fun _ => {} }
    let o (a : Nat) := (SocABus.machine socB).out (SocBus.init socB.soc) (x a)
    (List.range 2).map (fun j => (((o 0x4008).toS j).cyc, ((o 0x4008).toS j).adr)) = [(false, 0x801), (true, 0x4008)] ∧
    (List.range 2).map (fun j => ((o 0x1008).toS j).cyc) = [true, false] ∧ ((o 0x1008).toS 0).adr = 0x201 ∧
    Export.convM2S false true 2 30 0x1008 = 0x402 := by decide +kernel

end AdapterExamples

end Litex.C06
