import LitexModel.Wishbone.Interconnect
/-
  C06 — Wishbone interconnect routes each cycle to one slave and answers only its master.  (work in progress)
-/
namespace Litex.C06
open Litex Litex.Wishbone

/-- Shared interconnect: a master that sees `ack` or `err` is the bus owner. -/
theorem wb_answer_owner_only_grant (c : ShCfg) (s : ShState) (x : BusIn) (i : Nat)
    (h : ((Shared.out c s x).toM i).ack = true ∨ ((Shared.out c s x).toM i).err = true) : s.grant = i := by
  simp [Shared.out] at h
  rcases h with h | h <;> exact h.2

end Litex.C06
