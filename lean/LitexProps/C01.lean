import LitexProofs.Fhdl.StaticSound
import LitexProofs.Fhdl.ModuleStep
import LitexProofs.Fhdl.StaticStmt
import LitexProofs.Fhdl.LowerCorrect
import LitexProofs.Fhdl.PrintSign
import LitexProofs.Fhdl.MemoryEquiv
import LitexProofs.Fhdl.InstanceExact
import LitexProofs.Fhdl.SimBackendEquiv
import LitexProofs.Fhdl.MemoryNEquiv
import LitexProofs.Fhdl.ResetInsertCorrect
import LitexProofs.Fhdl.ArraySelCorrect
/-
  C01 — generated Verilog behaves exactly like the simulated FHDL design.

  Layer 1 (expressions and assignments of expressions).  Objects:
    `evalF ρ e`            the reference simulator (`Evaluator.eval`, unbounded Python integers)
    `printE e`             the printer of `litex/gen/fhdl/expression.py` (model checked node by node against the
                           real text on every run)
    `evalV ρ W sg v`       IEEE 1364-2005 §5.4/§5.5 evaluation of the printed text in a `W`-bit context
                           (TRUSTED formalisation; the sandbox has no Verilog simulator)
    `storeF/assignV`      bits stored into an `lw`-bit target by `Evaluator.assign` / by the Verilog assignment
  The property at full strength is FALSE on the code that exists: Migen evaluates over unbounded integers,
  Verilog in the context width (intermediate overflow, inherent to the two languages).  It is therefore proved
  under the decidable side condition `Fits` (`_partial`), the excluded region is exhibited by concrete
  counterexamples, and a static sufficient condition (`staticallyFits`, a value-range analysis) is proved sound.

  The printer/simulator defects found by the first build of this check (signed constants printed as unsigned
  literals, comparison, slice and signed-amount shift results reported signed, 1-bit signed slices printed bare, full-width slices of
  signed/negative nodes dropped by the lowerer, unmasked `Mux` condition in the simulator, `output reg` ports
  without initialiser) are repaired in /repo; the model follows the repaired code, their former negative
  witnesses are positive regression examples below, and the side conditions that only excluded them are gone:
    * `fitsP`/`leafOk` no longer exclude slices of signed 1-bit signals;
    * `fitsV` no longer asks the value of a `?:` condition to be representable in its Verilog width — only
      `condOk` (zero in the Migen width iff zero in the Verilog width; trivial when the widths agree);
    * with the repaired sign flags `Fits`/`staticallyFits` now HOLD on `(a < -1)`, `(a < b) + c`, `x[0:4] + t`
      (the definitions did not change, the printed text did).

  Back-end variants (every keyword option of `convert` is exercised by the correspondence through the same tie as the
  default): `regular_comb=False` has its own printer model (`printModuleSim`: one filtered item per comb target) and
  its own theorems (`filter_*`, `sim_comb_group_equiv_partial`, `module_step_sim_equiv_partial`); reset insertion
  (`insert_resets`) is modelled (`insertReset`, `reset_insertion_correct`); memories with several ports / clocks:
  `mem_ports_*`.
-/
namespace Litex.C01

/-
  Full statement (does NOT hold, see the negative witnesses below):
  theorem printE_correct (ρ : Env) (e : Expr) (W : Nat) (hρ : envOk ρ e = true)
      (hW : selfWidth (printE e).1 ≤ W) :
      evalV ρ W (selfSigned (printE e).1) (printE e).1 = tn W (evalF ρ e)
-/

/-- **Printer theorem.**  For every FHDL expression `e`, every valuation `ρ` and every context width
    `W ≥ selfWidth(text)`: if `Fits ρ e W` (at each self-determined boundary of the printed text — comparison
    operands, shift amounts and right-shift operands, concatenation/replication elements, conditions, promoted
    `$signed({1'd0, x})` operands — the unbounded value is representable in the width/type Verilog gives it)
    then the printed text evaluates, under the Verilog rules, to the simulator's value modulo `2^W`. -/
theorem printE_correct_partial (ρ : Env) (e : Expr) (W : Nat)
    (hW : selfWidth (printE e).1 ≤ W) (h : Fits ρ e W = true) :
    evalV ρ W (selfSigned (printE e).1) (printE e).1 = tn W (evalF ρ e) :=
  printE_correct ρ e W hW h

/-- **Assignment theorem.**  `target.eq(e)` stores the same bits in the simulator and in the generated
    Verilog (`target <= text;` / `assign target = text;`), for a target of any width `lw`. -/
theorem assign_correct_partial (ρ : Env) (e : Expr) (lw : Nat)
    (h : Fits ρ e (max lw (selfWidth (printE e).1)) = true) :
    assignV ρ lw (printE e).1 = storeF ρ lw e :=
  assign_correct ρ e lw h

/-- **Verilog sizing theorem** (about the Verilog semantics alone): context-determined evaluation equals the
    exact integer value modulo `2^W` whenever no self-determined boundary loses information. -/
theorem evalV_eq_ideal_partial (ρ : Nat → Int) (v : VExpr) (W : Nat) (sg : Bool)
    (hW : selfWidth v ≤ W) (h : fitsV ρ v W sg = true) : evalV ρ W sg v = tn W (ideal ρ v) :=
  evalV_ideal ρ v W sg hW h

/-- **Printed text denotes the simulator's value** over unbounded integers (printer side condition only). -/
theorem printE_ideal_partial (ρ : Env) (e : Expr) (h : fitsP ρ e = true) :
    ideal ρ (printE e).1 = evalF ρ e :=
  printE_ideal ρ e h

/-- The value-range analysis is sound: the unbounded value of a Verilog expression lies within `bounds`. -/
theorem bounds_contains (ρ : Nat → Int) (v : VExpr) : (bounds v).1 ≤ ideal ρ v ∧ ideal ρ v ≤ (bounds v).2 :=
  bounds_sound ρ v

/-- **Soundness of the static classifier**: a statically fitting expression fits under every valuation whose
    signal values are in their declared ranges. -/
theorem staticallyFits_sound (e : Expr) (W : Nat) (h : staticallyFits e W = true) :
    ∀ ρ : Env, envOk ρ e = true → Fits ρ e W = true := by
  intro ρ hρ
  simp only [staticallyFits, Bool.and_eq_true] at h
  simp only [Fits, Bool.and_eq_true]
  exact ⟨sfitsP_sound ρ e h.1 hρ, sfitsV_sound ρ _ _ _ h.2⟩

/-- Statically fitting assignments are translated correctly for ALL inputs. -/
theorem assign_correct_static (e : Expr) (lw : Nat)
    (h : staticallyFits e (max lw (selfWidth (printE e).1)) = true) :
    ∀ ρ : Env, envOk ρ e = true → assignV ρ lw (printE e).1 = storeF ρ lw e :=
  fun ρ hρ => assign_correct_partial ρ e lw (staticallyFits_sound e _ h ρ hρ)

def envL (l : List Int) : Env := fun i => l.getD i 0

/-- **Printer sign-flag theorem** (full strength since the fix of C01-shift-reported-signed; was `_partial` under
    `signFlagsOk`).  For EVERY expression, the sign the printer itself attributes to the text it emits (the flag
    that decides where `$signed({1'd0, x})` promotions go) IS the self-determined type IEEE 1364 gives that text —
    constants, comparisons, shifts, selects, promotions, `?:` included. -/
theorem printE_sign_correct (e : Expr) : (printE e).2 = selfSigned (printE e).1 :=
  printE_sign e

/-- Non-trivial instance: `(a < b) + Mux(c, x[0:4], -3)` (signed a, b, x): the flag is "signed". -/
example :
    let e : Expr := .op2 .add (.op2 .lt (.sig 0 8 true) (.sig 1 8 true))
                      (.mux (.sig 2 1 false) (.slice (.sig 3 8 true) 0 4) (.const (-3) 3 true))
    (printE e).2 = true ∧ selfSigned (printE e).1 = true := by decide

/-- Regression (was C01-shift-reported-signed): `u <<< s` with `u` unsigned and a signed amount `s` is now
    reported unsigned, as Verilog types it (by `u` alone), so `(u <<< s) + t` promotes it and `t = −1` is
    sign-extended: u = 1, s = 1 into 16 bits: both sides 1 (the unpromoted text gave 0x0101). -/
example :
    let sh : Expr := .op2 .shl (.sig 0 4 false) (.sig 1 3 true)
    let e : Expr := .op2 .add sh (.sig 2 8 true)
    let ρ := envL [1, 1, -1]
    (printE sh).2 = false ∧ selfSigned (printE sh).1 = false ∧
    envOk ρ e = true ∧ storeF ρ 16 e = 1 ∧ assignV ρ 16 (printE e).1 = 1 ∧ Fits ρ e 16 = true ∧
    assignV ρ 16 (.bin .add (.bin .shl (.id 0 4 false) (.id 1 3 true)) (.id 2 8 true)) = 257 := by decide

/-! ## Layer 2 — statements, `always` blocks

  `Rel wd ρ m p` (LitexProofs/Fhdl/AssignMerge.lean): applying the scheduled Verilog non-blocking updates `p`
  (oldest first, `applyPending`) to the bit patterns of the committed values `ρ` gives, for EVERY signal `i`
  of declared width `wd i`, the bit pattern of the simulator's post-commit view (`modifications` over
  `signal_values`, `readPost ρ m`).  It holds for the empty tables (`rel_nil`) and is what `commit` turns into
  equal next states.  `wfSs wd ss`: the width annotation of every assignment-target signal node is the declared
  width.  `distinctSs ss`: the keys of every `Case` are pairwise distinct (they are Python dict keys hashed by
  value).  `fitsSs ρ ss`: every right-hand side / `If` condition / `Case` test of `ss` satisfies its side
  condition under `ρ` (`fitsAssign`/`fitsCond`/`fitsCase`, LitexModel/Fhdl/FitsStmt.lean), and every target is a
  signal, an in-range slice of a signal or a flat `Cat` of those. -/

/-- **case_sorted_equiv.**  The printer emits the items of a `Case` sorted by key (then `default`); the
    simulator walks the dictionary in insertion order.  With pairwise distinct keys both execute the same. -/
theorem case_sorted_equiv (ρ : Env) (ss : Stmts) (hd : distinctSs ss) (m : Mods) :
    execFs ρ (sortSs ss) m = execFs ρ ss m :=
  execFs_sortSs ρ ss hd m

/-- **assign_slices_merge.**  One assignment to a signal, to a slice of a signal, or to a flat `Cat` of those:
    the simulator merges into the pending value read back with `postcommit=True`, Verilog queues a part-select
    update; the correspondence `Rel` is preserved (so any sequence of partial assignments merges identically).
    `x`, `y` are the value assigned by the simulator and by Verilog; they need only agree on the target's bits. -/
theorem assign_slices_merge (wd : Nat → Nat) (ρ : Env) (m : Mods) (p : Pending) (h : Rel wd ρ m p)
    (l : Expr) (hl : targetOk l = true) (hw : wfTarget wd l) (x y : Int)
    (hxy : tn (bitsSign l).1 x = tn (bitsSign l).1 y) :
    Rel wd ρ (assignT ρ l x m) (nbaAssign (printE l).1 y p) :=
  rel_target h l hl hw x y hxy

/-- **Block theorem** (`_generate_node`): executing statements `ss` in the simulator and the printed text
    (`printStmts ss`: assignments as `<=`, `If`, `Case` sorted + `default`) under the Verilog rules preserves
    `Rel` — for every statement list, every valuation and every starting pair of tables. -/
theorem block_equiv_partial (wd : Nat → Nat) (ρ : Env) (ss : Stmts) (m : Mods) (p : Pending)
    (h : Rel wd ρ m p) (hd : distinctSs ss) (hf : fitsSs ρ ss = true) (hw : wfSs wd ss) :
    Rel wd ρ (execFs ρ ss m) (execVs ρ (printStmts ss) p) :=
  rel_printStmts wd ρ ss m p h hd hf hw

/-- **comb_block_equiv.**  A comb group that is not a single whole-signal assignment is printed as
    `always @(*) begin <target <= reset;…> <statements> end`; the simulator prepends the same defaults. -/
theorem comb_block_equiv_partial (sigs : Array SigDecl) (ρ : Env) (g : CombGroup) (m : Mods) (p : Pending)
    (body : VStmts) (hprint : printCombGroup sigs g = .comb body)
    (h : Rel (wdOf sigs) ρ m p) (hr : resetsOk sigs (sortByName sigs g.targets) = true)
    (hd : distinctSs g.stmts) (hf : fitsSs ρ g.stmts = true) (hw : wfSs (wdOf sigs) g.stmts) :
    Rel (wdOf sigs) ρ
      (execFs ρ g.stmts (execFs ρ (resetStmts sigs (sortByName sigs g.targets)) m))
      (execVs ρ body p) :=
  comb_block_equiv sigs ρ g m p body hprint h hr hd hf hw

/-- **wire_vs_always.**  A group made of one whole-signal assignment is printed as `assign sig = rhs;`; the
    simulator's default-then-assign leaves the same view as the continuous assignment. -/
theorem wire_vs_always_partial (sigs : Array SigDecl) (ρ : Env) (i w : Nat) (s : Bool) (r : Expr) (m : Mods)
    (p : Pending) (h : Rel (wdOf sigs) ρ m p) (hwd : w = wdOf sigs i) (hw0 : 0 < w)
    (hf : Fits ρ r (max w (selfWidth (printE r).1)) = true) :
    let g : CombGroup := { targets := [i], stmts := .cons (.assign (.sig i w s) r) .nil }
    printCombGroup sigs g = .assign (.id i w s) (printE r).1 ∧
    Rel (wdOf sigs) ρ
      (execFs ρ g.stmts (execFs ρ (resetStmts sigs (sortByName sigs g.targets)) m))
      (nbaAssign (.id i w s) (assignV ρ w (printE r).1) p) :=
  wire_group_equiv sigs ρ i w s r m p h hwd hw0 hf

/-- **sync_block_equiv.**  One clock domain (after `insert_resets`) printed as `always @(posedge clk)`. -/
theorem sync_block_equiv_partial (wd : Nat → Nat) (ρ : Env) (d : SyncDom) (m : Mods) (p : Pending)
    (h : Rel wd ρ m p) (hd : distinctSs d.stmts) (hf : fitsSs ρ d.stmts = true) (hw : wfSs wd d.stmts) :
    Rel wd ρ (execFs ρ d.stmts m) (execVs ρ (printStmts d.stmts) p) :=
  sync_block_equiv wd ρ d m p h hd hf hw

/-- **Static block theorem**: statements all of whose sites fit statically (`sfitsSs`, what the harness
    computes for every site of every real core) satisfy the block theorem's side condition for EVERY valuation
    with in-range signal values — so only the sites listed in corpus/C01/overflow_sites.json can ever make a
    real core's text and simulation part. -/
theorem static_block_sound (ss : Stmts) (h : sfitsSs ss = true) :
    ∀ ρ : Env, envOkSs ρ ss = true → fitsSs ρ ss = true :=
  fun ρ hρ => sfitsSs_sound ρ ss h hρ

/-! ## Lowering (`_ComplexSliceLowerer` index arithmetic)

  `sliceVal ρ e st len` = value of `_Slice(e, st, st+len)`.  The final step of `visit_Slice` drops the slice
  altogether when it covers the resolved node exactly; a Migen slice is an unsigned zero-extending view, the bare
  node is not when it is signed or can be negative (`~x`, `a - b`), so (since the fix) only unsigned signals,
  `Cat`s and `Replicate`s are dropped (`dropsSlice`, checked against the real `visit_Slice` on every run). -/

/-- **lowerSliceCat_correct**: descending into the `Cat` element that contains the slice (with the start index
    made relative to that element, repeatedly through nested `Cat`s) does not change the slice's value. -/
theorem lowerSliceCat_correct (ρ : Env) (e : Expr) (st len : Nat) :
    sliceVal ρ (lowerCat e st len).1 (lowerCat e st len).2 len = sliceVal ρ e st len :=
  lowerCat_correct ρ e st len

/-- **lowerSliceReplicate_correct**: a non-empty slice inside the replicated value that lies within one copy is
    the slice of that copy at `start % len(v)` (repeatedly through nested `Replicate`s). -/
theorem lowerSliceReplicate_correct (ρ : Env) (e : Expr) (st len : Nat) (hl : 0 < len)
    (hb : st + len ≤ (bitsSign e).1) :
    sliceVal ρ (lowerRep e st len).1 (lowerRep e st len).2 len = sliceVal ρ e st len :=
  lowerRep_correct ρ e st len hl hb

/-- The slice really moves: `Cat(a[4], b[4], c[4])[5:7]` is resolved to `b[1:3]`. -/
example : lowerCat (.cat [.sig 0 4 false, .sig 1 4 false, .sig 2 4 false]) 5 2 = (.sig 1 4 false, 1) := rfl

/-- **lowerSliceDrop_correct**: the last step of `visit_Slice` drops the slice altogether when it covers the
    resolved node exactly and that node is an unsigned `Signal`, a `Cat` or a `Replicate` (`dropsSlice`); for
    every valuation with in-range signal values the bare node then has the value of the slice. -/
theorem lowerSliceDrop_correct (ρ : Env) (e : Expr) (st len : Nat) (h : dropsSlice e st len = true)
    (hρ : envOk ρ e = true) : sliceVal ρ e st len = evalF ρ e :=
  lowerDrop_correct ρ e st len h hρ

example : dropsSlice (.cat [.sig 0 4 true, .sig 1 4 false]) 0 8 = true := rfl

/-- Regression (former findings C01-signed-full-slice-dropped / C01-full-slice-dropped-negative-operand): full-width
    slices of a signed signal and of `~z` are NOT dropped any more — and must not be: `(~z)[0:1]` is 1 for z = 0,
    the bare `~z` is −1, i.e. 15 in a 4-bit target; `x[0:4]` of a signed `x = −1` is 15, the bare `x` 255 in 8 bits. -/
example : dropsSlice (.op1 .not (.sig 0 1 false)) 0 1 = false ∧ dropsSlice (.sig 0 4 true) 0 4 = false ∧
          sliceVal (envL [0]) (.op1 .not (.sig 0 1 false)) 0 1 = 1 ∧
          storeF (envL [0]) 4 (.op1 .not (.sig 0 1 false)) = 15 ∧
          sliceVal (envL [-1]) (.sig 0 4 true) 0 4 = 15 ∧ storeF (envL [-1]) 8 (.sig 0 4 true) = 255 := by decide

/-! ## Layer 2 — modules

  `StRel sigs aF aV`: the Verilog state `aV` holds, for every signal, the declared-width bit pattern of the
  simulator's value in `aF`.  `GroupOk`/`DomOk`: the statements of a comb group / sync domain carry the declared
  widths, have distinct case keys and satisfy `fitsSs` in the given state; a group printed as a continuous
  `assign` is a single whole-signal assignment.  Combinational settling is, on both sides, re-evaluation until
  nothing changes (`settleF` = `Simulator._commit_and_comb_propagate`; for Verilog a fair schedule of the event
  queue).  Not covered by a theorem: the power-up state (every `reg`, also an `output reg` port since the fix of
  C01-output-reg-no-initialiser, carries the initialiser `= Signal.reset`; `wire`s carry none and settle —
  checked declaration by declaration by the correspondence). -/

/-- One comb evaluation + commit of the printed module = one `execute(comb)` + `commit` of the simulator. -/
theorem module_comb_step_equiv_partial (f : FModule) (aF aV : Array Int) (h : StRel f.sigs aF aV)
    (hg : ∀ g ∈ f.comb, GroupOk f.sigs (envA aF) g) :
    StRel f.sigs (iterF f aF) (iterV f.sigs (printModule f) aV) :=
  stRel_iter f aF aV h hg

/-- Comb settling: if the simulator's propagation loop reaches its fix-point within `fuel` rounds (acyclic comb
    logic does), the printed module settles in the corresponding state. -/
theorem module_settle_equiv_partial (f : FModule) (fuel : Nat) (aF aV : Array Int) (h : StRel f.sigs aF aV)
    (hok : SettleOk f fuel aF) (hfix : iterF f (settleF f fuel aF) = settleF f fuel aF) :
    StRel f.sigs (settleF f fuel aF) (settleV f.sigs (printModule f) fuel aV) :=
  stRel_settle f fuel aF aV h hok hfix

/-- Clock edge: `always @(posedge clk)` blocks of the ticking domains = `execute(sync[cd])` + `commit`. -/
theorem module_edge_equiv_partial (f : FModule) (aF aV : Array Int) (clks : List Nat) (h : StRel f.sigs aF aV)
    (hd : ∀ d ∈ sortDoms f.sync, DomOk f.sigs (envA aF) d) :
    StRel f.sigs (commitF aF (syncPassF f aF clks)) (commitV f.sigs aV (syncPassV (printModule f) aV clks)) :=
  stRel_sync f aF aV clks h hd

/-- **module_step_equiv_partial** — the property itself for the modelled subset: for EVERY input sequence and
    every choice of ticking clocks (`cs : List Cycle`), from any pair of corresponding states, the printed module
    and the simulator pass, cycle for cycle, through corresponding settled states — all ports, registers and
    internal signals — provided the side conditions hold along the simulator's run (`RunOk`). -/
theorem module_step_equiv_partial (f : FModule) (fuel : Nat) (cs : List Cycle) (aF aV : Array Int)
    (h : StRel f.sigs aF aV) (hok : RunOk f fuel aF cs) :
    List.Forall₂ (StRel f.sigs) (runF f fuel aF cs) (runV f.sigs (printModule f) fuel aV cs) :=
  run_equiv f fuel cs aF aV h hok

/-! Non-vacuity of the module theorem: a 4-bit counter `r` with `assign c = r[3]`, two clock cycles from
    reset; all hypotheses hold and both sides really move. -/

def exF : FModule :=
  { sigs := #[⟨4, false, 0, "r"⟩, ⟨1, false, 0, "c"⟩, ⟨1, false, 0, "clk"⟩],
    comb := [{ targets := [1], stmts := .cons (.assign (.sig 1 1 false) (.slice (.sig 0 4 false) 3 4)) .nil }],
    sync := [{ name := "sys", clk := 2,
               stmts := .cons (.assign (.sig 0 4 false) (.op2 .add (.sig 0 4 false) (.const 1 1 false))) .nil }] }

def exCycles : List Cycle := [⟨[], [2]⟩, ⟨[], [2]⟩]

example : RunOk exF 2 (initF exF) exCycles := by
  have hG : ∀ (a : Array Int),
      fitsSs (envA a) (.cons (.assign (.sig 1 1 false) (.slice (.sig 0 4 false) 3 4)) .nil) = true →
      ∀ g ∈ exF.comb, GroupOk exF.sigs (envA a) g := by
    intro a h g hg
    simp only [exF, List.mem_singleton] at hg
    subst hg
    exact ⟨by simp [wfSEs, wfSE, wfE, wdOf, widthOf, exF], by simp [distinctSs, distinctS], h, by decide,
      Or.inr ⟨1, 1, false, _, rfl, rfl⟩⟩
  have hD : ∀ (a : Array Int),
      fitsSs (envA a) (.cons (.assign (.sig 0 4 false) (.op2 .add (.sig 0 4 false) (.const 1 1 false))) .nil) = true →
      ∀ d ∈ sortDoms exF.sync, DomOk exF.sigs (envA a) d := by
    intro a h d hd
    simp only [exF, sortDoms, insertDom, List.mem_singleton] at hd
    subst hd
    exact ⟨by simp [wfSEs, wfSE, wfE, wdOf, widthOf, exF], by simp [distinctSs, distinctS], h⟩
  simp only [exCycles, RunOk, SettleOk]
  exact ⟨⟨hG _ (by decide +kernel), hG _ (by decide +kernel), trivial⟩, by decide +kernel, hD _ (by decide +kernel),
    ⟨hG _ (by decide +kernel), hG _ (by decide +kernel), trivial⟩, by decide +kernel, hD _ (by decide +kernel), trivial⟩

example : runF exF 2 (initF exF) exCycles = [#[0, 0, 0], #[1, 0, 0]] := by decide +kernel
example : runV exF.sigs (printModule exF) 2 #[0, 0, 0] exCycles = [#[0, 0, 0], #[1, 0, 0]] := by decide +kernel

/-- Non-vacuity of the block theorem: `if (a[3]) r[7:4] <= b; case (a[1:0]) 2: r <= r + 1; 0: r[0] <= 1`
    (items unsorted) satisfies all hypotheses in a concrete state, and both sides really schedule updates. -/
example :
    let a : Expr := .sig 0 4 false
    let b : Expr := .sig 1 4 false
    let r : Expr := .sig 2 8 false
    let ss : Stmts :=
      .cons (.ite (.slice a 3 4) (.cons (.assign (.slice r 4 8) b) .nil) .nil)
      (.cons (.case (.slice a 0 2)
          (.cons 2 2 false (.cons (.assign r (.op2 .add r (.const 1 1 false))) .nil)
          (.cons 0 1 false (.cons (.assign (.slice r 0 1) (.const 1 1 false)) .nil) .nil)) false .nil) .nil)
    let ρ := envL [10, 5, 200]
    fitsSs ρ ss = true ∧ execFs ρ ss [] = [(2, 201), (2, 88)] ∧
    execVs ρ (printStmts ss) [] = [⟨2, 0, 8, 201⟩, ⟨2, 4, 4, 5⟩] := by decide

/-- **module_schedule_equiv_partial** — `module_step_equiv_partial` read for clock schedules: `cs` is an ARBITRARY
    edge schedule — each instant names the subset `clks` of clock signals that rise in it (none, one, several
    domains, in any pattern: different periods, phases, non-coincident edges) and the inputs applied before it.
    The printed module and the simulator stay in corresponding states at every instant.  (The harness derives `cs`
    from a clock description and runs the real `run_simulation` against it.) -/
theorem module_schedule_equiv_partial (f : FModule) (fuel : Nat) (sched : List (List (Nat × Int) × List Nat))
    (aF aV : Array Int) (h : StRel f.sigs aF aV)
    (hok : RunOk f fuel aF (sched.map fun ic => ⟨ic.1, ic.2⟩)) :
    List.Forall₂ (StRel f.sigs)
      (runF f fuel aF (sched.map fun ic => ⟨ic.1, ic.2⟩))
      (runV f.sigs (printModule f) fuel aV (sched.map fun ic => ⟨ic.1, ic.2⟩)) :=
  run_equiv f fuel _ aF aV h hok

/-- Two clock domains with non-coincident edges: `r` (4 bit, clock 2) counts, `q` (4 bit, clock 3) samples `r`;
    schedule clk2, clk3, clk2, clk2+clk3, none: both sides pass through the same states, and `q` really sees the
    value `r` had BEFORE a coincident edge. -/
def exF2 : FModule :=
  { sigs := #[⟨4, false, 0, "r"⟩, ⟨4, false, 0, "q"⟩, ⟨1, false, 0, "ck_a"⟩, ⟨1, false, 0, "ck_b"⟩],
    comb := [],
    sync := [{ name := "a", clk := 2,
               stmts := .cons (.assign (.sig 0 4 false) (.op2 .add (.sig 0 4 false) (.const 1 1 false))) .nil },
             { name := "b", clk := 3, stmts := .cons (.assign (.sig 1 4 false) (.sig 0 4 false)) .nil }] }

def exSched : List Cycle := [⟨[], [2]⟩, ⟨[], [3]⟩, ⟨[], [2]⟩, ⟨[], [2, 3]⟩, ⟨[], []⟩]

example : runF exF2 2 (initF exF2) exSched =
    [#[0, 0, 0, 0], #[1, 0, 0, 0], #[1, 1, 0, 0], #[2, 1, 0, 0], #[3, 2, 0, 0]] := by decide +kernel
example : runV exF2.sigs (printModule exF2) 2 #[0, 0, 0, 0] exSched =
    [#[0, 0, 0, 0], #[1, 0, 0, 0], #[1, 1, 0, 0], #[2, 1, 0, 0], #[3, 2, 0, 0]] := by decide +kernel

/-! ## The simulation-flavoured comb back-end (`convert(..., regular_comb=False)`)

  `_generate_combinatorial_logic_sim` emits ONE item per comb target `t` — `assign` if the only top-level
  statement for `t` is a whole-signal assignment, else `always @(*) begin t <= reset; <statements filtered to t> end`
  with `_generate_node(..., target_filter=t)`: a node without `t` among its targets prints nothing, `If`/`Case`
  forward the filter to both branches / every item and `default`.  Model: `filterSs t` (what survives),
  `printSsF t` (the printer with the filter), `printModuleSim` (LitexModel/Fhdl/SimBackend.lean; compared node by
  node with the real text of every third random module, and the text executed by the Lean Verilog semantics
  against `stepF`).  `leafTargetsSs ss`: every assignment drives ONE signal (a signal or a slice of one).

  Full statement (does NOT hold: an assignment to a `Cat` of several signals is repeated in the block of each of
  them, so the blocks race on those registers — negative witness below):
  theorem module_comb_step_sim_equiv (f : FModule) (aF aV : Array Int) (h : StRel f.sigs aF aV)
      (hg : ∀ g ∈ f.comb, GroupOk f.sigs (envA aF) g) :
      StRel f.sigs (iterF f aF) (iterV f.sigs (printModuleSim f) aV)
-/

/-- **Every per-target block drives only its own target**: the statements kept by `target_filter = t` leave the
    pending value of every other signal `u` untouched — through `If`/`Else` and `Case`/`default` nesting. -/
theorem filter_writes_own_target_partial (ρ : Env) (t u : Nat) (hut : u ≠ t) (ss : Stmts)
    (hl : leafTargetsSs ss = true) (m : Mods) :
    lookupM (execFs ρ (filterSs t ss) m) u = lookupM m u :=
  filter_otherSs ρ t u hut ss hl m

/-- **…and computes its target like the unfiltered list**: on `t`, executing only the statements kept for `t`
    gives what executing ALL statements gives (slice assignments to `t` merge identically; assignments to other
    signals never feed back: right-hand sides read the committed values). -/
theorem filter_computes_target_partial (ρ : Env) (t : Nat) (ss : Stmts) (hl : leafTargetsSs ss = true) (m : Mods) :
    lookupM (execFs ρ (filterSs t ss) m) t = lookupM (execFs ρ ss m) t :=
  filter_sameSs ρ t ss hl m m rfl

/-- The printer with the filter executes exactly like the unfiltered printer on the surviving statements (the only
    textual difference: `else` / case items are printed for the UNFILTERED structure, possibly with empty bodies). -/
theorem filtered_printer_equiv (ρ : Nat → Int) (t : Nat) (ss : Stmts) (p : Pending) :
    execVs ρ (printSsF t ss) p = execVs ρ (printSs (filterSs t ss)) p :=
  execVs_printSsF ρ t ss p

/-- **Per-target blocks = unfiltered statement list** (`GroupOkSim`: declared widths, distinct case keys, `fitsSs`,
    printable resets, one signal per assignment, `g.targets` duplicate-free and containing every target): all the
    items emitted for a group, executed together under the Verilog rules, keep `Rel` with the simulator's
    default-then-statements evaluation of the whole group. -/
theorem sim_comb_group_equiv_partial (sigs : Array SigDecl) (ρ : Env) (g : CombGroup) (m : Mods) (p : Pending)
    (h : Rel (wdOf sigs) ρ m p) (hg : GroupOkSim sigs ρ g) :
    Rel (wdOf sigs) ρ (combStepF sigs ρ m g)
      ((printCombGroupSim sigs g).foldl (combStepV (bitsEnv (wdOf sigs) ρ)) p) :=
  sim_group_step sigs ρ g m p h hg

/-- One comb evaluation + commit of the module printed with `regular_comb=False` = one of the simulator. -/
theorem module_comb_step_sim_equiv_partial (f : FModule) (aF aV : Array Int) (h : StRel f.sigs aF aV)
    (hg : ∀ g ∈ f.comb, GroupOkSim f.sigs (envA aF) g) :
    StRel f.sigs (iterF f aF) (iterV f.sigs (printModuleSim f) aV) :=
  stRel_iter_sim f aF aV h hg

/-- Comb settling of the per-target blocks (acyclic comb logic reaches the simulator's fix-point). -/
theorem module_settle_sim_equiv_partial (f : FModule) (fuel : Nat) (aF aV : Array Int) (h : StRel f.sigs aF aV)
    (hok : SettleOkSim f fuel aF) (hfix : iterF f (settleF f fuel aF) = settleF f fuel aF) :
    StRel f.sigs (settleF f fuel aF) (settleV f.sigs (printModuleSim f) fuel aV) :=
  stRel_settle_sim f fuel aF aV h hok hfix

/-- **module_step_sim_equiv_partial** — the property for the simulation back-end: cycle for cycle, for every input
    sequence and clock schedule, the module printed with `regular_comb=False` and the simulator pass through
    corresponding settled states. -/
theorem module_step_sim_equiv_partial (f : FModule) (fuel : Nat) (cs : List Cycle) (aF aV : Array Int)
    (h : StRel f.sigs aF aV) (hok : RunOkSim f fuel aF cs) :
    List.Forall₂ (StRel f.sigs) (runF f fuel aF cs) (runV f.sigs (printModuleSim f) fuel aV cs) :=
  run_equiv_sim f fuel cs aF aV h hok

/-- Non-vacuity: `Case(sel, {0: a.eq(1), default: [a.eq(x), b.eq(y)]}); If(en, a.eq(z)).Else(b[0].eq(1))` — `Case`
    with `default`, `If`/`Else`, two targets, a later override and a slice target: `GroupOkSim` holds, the filtered
    lists differ from the full list, and both emitters give what the simulator gives. -/
def exSimSigs : Array SigDecl :=
  #[⟨2, false, 0, "sel"⟩, ⟨4, false, 0, "x"⟩, ⟨4, false, 0, "y"⟩, ⟨4, false, 0, "z"⟩, ⟨1, false, 0, "en"⟩,
    ⟨4, false, 0, "a"⟩, ⟨4, false, 5, "b"⟩]

def exSimG : CombGroup :=
  { targets := [5, 6],
    stmts :=
      .cons (.case (.sig 0 2 false)
          (.cons 0 1 false (.cons (.assign (.sig 5 4 false) (.const 1 1 false)) .nil) .nil) true
          (.cons (.assign (.sig 5 4 false) (.sig 1 4 false)) (.cons (.assign (.sig 6 4 false) (.sig 2 4 false)) .nil)))
      (.cons (.ite (.sig 4 1 false) (.cons (.assign (.sig 5 4 false) (.sig 3 4 false)) .nil)
          (.cons (.assign (.slice (.sig 6 4 false) 0 1) (.const 1 1 false)) .nil)) .nil) }

def exSimF : FModule := { sigs := exSimSigs, comb := [exSimG], sync := [] }

example : ∀ a : Array Int, fitsSs (envA a) exSimG.stmts = true → GroupOkSim exSimSigs (envA a) exSimG := by
  intro a h
  refine ⟨?_, ?_, h, by decide, by decide, by decide, by decide⟩
  · simp [exSimG, wfSEs, wfSE, wfSEItems, wfE, wdOf, widthOf, exSimSigs]
  · simp [exSimG, distinctSs, distinctS, distinctItems, keysOf]

example : fitsSs (envA #[1, 3, 9, 12, 1, 0, 0]) exSimG.stmts = true := by decide

example :
    filterSs 6 exSimG.stmts =
      .cons (.case (.sig 0 2 false) (.cons 0 1 false .nil .nil) true
          (.cons (.assign (.sig 6 4 false) (.sig 2 4 false)) .nil))
      (.cons (.ite (.sig 4 1 false) .nil
          (.cons (.assign (.slice (.sig 6 4 false) 0 1) (.const 1 1 false)) .nil)) .nil) := by
  simp [exSimG, filterSs, filterS, filterItems, targetsS, targetsSs, targetsItems, targetsE]

/-- sel = 1 (default taken), en = 1 (override active): a = z = 12, b = y = 9 on all three sides. -/
example :
    let a0 : Array Int := #[1, 3, 9, 12, 1, 0, 0]
    iterF exSimF a0 = #[1, 3, 9, 12, 1, 12, 9] ∧
    iterV exSimSigs (printModuleSim exSimF) a0 = #[1, 3, 9, 12, 1, 12, 9] ∧
    iterV exSimSigs (printModule exSimF) a0 = #[1, 3, 9, 12, 1, 12, 9] := by decide +kernel

/-- What the filter is for (and what a printer that forgets to forward it into `default` emits): if the block of
    target `b` (id 6) also carried the `a <= x` of the shared `default` branch, `a` would end as x = 3 instead of the
    override z = 12 — the blocks are evaluated in source order and the stale copy comes last. -/
example :
    let bad : VStmts := printSs (.cons (.case (.sig 0 2 false) (.cons 0 1 false .nil .nil) true
          (.cons (.assign (.sig 5 4 false) (.sig 1 4 false)) (.cons (.assign (.sig 6 4 false) (.sig 2 4 false)) .nil)))
        .nil)
    let items : List VItem := [printTargetSim exSimSigs exSimG.stmts 5,
      .comb (VStmts.append (printSs (resetStmts exSimSigs [6])) bad)]
    iterV exSimSigs items #[1, 3, 9, 12, 1, 0, 0] = #[1, 3, 9, 12, 1, 3, 9] := by decide +kernel

/-- Negative witness (the excluded region `leafTargetsSs = false`): `b.eq(0); Cat(a, b).eq(y); If(en, b.eq(z))`.
    The text has the blocks `b: b <= 0; {b, a} <= y; if (en) b <= z` and `a: {b, a} <= y` (the `Cat` assignment is
    kept for BOTH targets): the simulator ends with b = z = 5, the two processes with b = y[7:4] = 10. -/
example :
    let sigs : Array SigDecl := #[⟨8, false, 0, "y"⟩, ⟨4, false, 0, "z"⟩, ⟨1, false, 0, "en"⟩, ⟨4, false, 0, "a"⟩,
      ⟨4, false, 0, "b"⟩]
    let ss : Stmts :=
      .cons (.assign (.sig 4 4 false) (.const 0 1 false))
      (.cons (.assign (.cat [.sig 3 4 false, .sig 4 4 false]) (.sig 0 8 false))
      (.cons (.ite (.sig 2 1 false) (.cons (.assign (.sig 4 4 false) (.sig 1 4 false)) .nil) .nil) .nil))
    let f : FModule := { sigs := sigs, comb := [{ targets := [4, 3], stmts := ss }], sync := [] }
    let a0 : Array Int := #[0xa7, 5, 1, 0, 0]
    leafTargetsSs ss = false ∧ fitsSs (envA a0) ss = true ∧
    iterF f a0 = #[0xa7, 5, 1, 7, 5] ∧ iterV sigs (printModuleSim f) a0 = #[0xa7, 5, 1, 7, 10] ∧
    iterV sigs (printModule f) a0 = #[0xa7, 5, 1, 7, 5] := by decide +kernel

/-! ## Array reads and writes (`_ArrayProxy`)

  The simulator selects with `Evaluator._array_index` (`arrayIndex`: the key reduced to its FHDL width/signedness;
  choice `k` if `0 ≤ k < n`, else the last one — since the fix of C01-array-key-unmasked, in `eval` AND `assign`); the
  printed design carries Migen's lowering `Case(key, {0: b0, …, n-1: b(n-1)}).makedefault()` (`arrayCase`:
  `bi` = `muxed.eq(choice_i)` for a read, `choice_i.eq(muxed)` for a write).  `arrayIndex` is compared with the real
  `_array_index` on every run; whole designs with negative / over-range / signed keys go through the module ties. -/

/-- **array_select_correct** (full strength): for EVERY key value — negative (`arr[~x]`, a signed key), beyond the
    number of choices, in range — the lowered `Case` executes exactly the body of the choice the simulator selects. -/
theorem array_select_correct (ρ : Env) (test : Expr) (bodies : List Stmts) (h : bodies ≠ []) (m : Mods) :
    execF ρ (arrayCase test bodies) m =
      execFs ρ (bodies.getD (arrayIndex (bitsSign test).1 (bitsSign test).2 bodies.length (evalF ρ test)) .nil) m :=
  arrayCase_exec ρ test bodies h m

/-- Regression (was C01-array-key-unmasked): `Array([1, 2, 4])[~x]`, x 2 bit.  x = 1: `~x = −2`, reduced to 2 bits
    unsigned = 2 → choice 2 (the simulator took `choices[−2]` = choice 1); x = 3: `~x = −4` → 0 → choice 0 (was an
    IndexError); x = 0: → 3 ≥ n → the last choice.  A signed key −1 selects the last choice. -/
example : arrayIndex 2 false 3 (-2) = 2 ∧ arrayIndex 2 false 3 (-4) = 0 ∧ arrayIndex 2 false 3 (-1) = 2 ∧
          arrayIndex 3 true 3 (-1) = 2 ∧ arrayIndex 3 true 5 3 = 3 ∧ arrayIndex 3 false 3 7 = 2 := by decide

example :
    let x : Expr := .sig 0 2 false
    let y : Expr := .sig 1 4 false
    let bodies : List Stmts := [1, 2, 4].map fun c => .cons (.assign y (.const c 4 false)) .nil
    execF (envL [1, 0]) (arrayCase (.op1 .not x) bodies) [] = [(1, 4)] ∧
    execF (envL [3, 0]) (arrayCase (.op1 .not x) bodies) [] = [(1, 1)] ∧
    execF (envL [0, 0]) (arrayCase (.op1 .not x) bodies) [] = [(1, 4)] := by decide

/-! ## Reset insertion (`insert_resets`)

  `convert` (and the simulator's constructor) turn the `sync` list `sl` of every clock domain that has a reset into
  `sl + [If(rst, t.eq(t.reset) for the non-reset-less targets t of sl, sorted)]` BEFORE printing.  Model:
  `insertReset sigs rst rl sl` (LitexModel/Fhdl/ResetInsert.lean; the harness captures the statements before
  `insert_resets`, the driver applies `insertReset` and the result must be, node for node, the `always @(posedge)`
  block of the real text and behave like the real Evaluator on the lowered fragment). -/

/-- **reset_insertion_correct** (full strength): with the reset low the domain executes exactly its own statements;
    with it high every target of the domain that is not reset-less ends the edge with its reset value (whatever the
    statements assigned), and every other signal — reset-less registers included — is what the statements made it. -/
theorem reset_insertion_correct (sigs : Array SigDecl) (ρ : Env) (rst : Nat) (rl : List Nat) (ss : Stmts) (m : Mods) :
    (tn (sigs.getD rst default).w (ρ rst) = 0 →
      execFs ρ (insertReset sigs rst rl ss) m = execFs ρ ss m) ∧
    (tn (sigs.getD rst default).w (ρ rst) ≠ 0 → ∀ u,
      lookupM (execFs ρ (insertReset sigs rst rl ss) m) u =
        if u ∈ targetsSs ss ∧ u ∉ rl then some (resetVal sigs u) else lookupM (execFs ρ ss m) u) :=
  ⟨insertReset_inactive sigs ρ rst rl ss m, fun h u => insertReset_active sigs ρ rst rl ss m h u⟩

/-- Non-vacuity: `r <= r + 1; q <= r` with `q` reset-less, `r` reset to 9: reset high ⇒ r = 9, q = old r; the inserted
    statement is `if (rst) r <= 9` (q is not reset). -/
example :
    let sigs : Array SigDecl := #[⟨4, false, 9, "r"⟩, ⟨4, false, 3, "q"⟩, ⟨1, false, 0, "rst"⟩]
    let ss : Stmts := .cons (.assign (.sig 0 4 false) (.op2 .add (.sig 0 4 false) (.const 1 1 false)))
      (.cons (.assign (.sig 1 4 false) (.sig 0 4 false)) .nil)
    resetTargets [1] ss = [0] ∧
    execFs (envL [5, 0, 1]) (insertReset sigs 2 [1] ss) [] = [(0, 9), (1, 5), (0, 6)] ∧
    execFs (envL [5, 0, 0]) (insertReset sigs 2 [1] ss) [] = [(1, 5), (0, 6)] := by decide

/-! ## Layer 3 — memories (one port, one clock)

  `memEdgeF`/`memReadF`: one clock edge / `dat_r` of the simulator's MemoryToArray semantics; `memEdgeV`/`memReadV`:
  of the port template memory.py emits (LitexModel/Fhdl/Memory.lean; both compared with the real simulator and
  with the independent reading of the real text on every run, inside AND outside the hypotheses below).
  `memCfgOk c`: granularity 0 or `0 < g < width` (what Migen's `get_port` leaves) — `g ∣ width` is not even needed;
  `memStOk c st`: `depth` words, registered address `< depth`; `memInOk c i`: address `< depth` (any depth, powers
  of two or not), reset not asserted, and for NO_CHANGE the enables all clear or all set.

  Full statement (does NOT hold: see the two negative witnesses — the open findings C01-memory-nochange-partial-we
  and C01-memory-not-reset):
  theorem mem_port_equiv (c : MemCfg) (st : MemSt) (i : MemIn) (hc : memCfgOk c) (hs : memStOk c st)
      (ha : i.adr < c.depth) : memEdgeF c st i = memEdgeV c st i
-/

/-- **mem_port_equiv_partial**: one clock edge of the template = one edge of the array semantics — the write
    (every enable pattern, every granularity: per-chunk part-select NBAs merge exactly like the simulator's slice
    assignments with read-back), the registered address / registered data / read enable. -/
theorem mem_port_equiv_partial (c : MemCfg) (st : MemSt) (i : MemIn) (hc : memCfgOk c = true)
    (hs : memStOk c st = true) (hi : memInOk c i = true) :
    memEdgeF c st i = memEdgeV c st i ∧ memReadF c (memEdgeF c st i) i.adr = memReadV c (memEdgeV c st i) i.adr := by
  have he := memEdge_equiv c st i hc hs hi
  refine ⟨he, ?_⟩
  rw [he]
  have ha : i.adr < c.depth := by
    simp only [memInOk, Bool.and_eq_true, decide_eq_true_eq] at hi; exact hi.1.1
  exact memRead_equiv c _ i.adr (memStOk_edgeV c st i hs hi) ha

/-- The four port kinds.  WRITE_FIRST / READ_FIRST / asynchronous read need NO condition on the enables. -/
theorem mem_port_equiv_writeFirst (c : MemCfg) (st : MemSt) (i : MemIn) (hm : c.mode = .writeFirst)
    (hc : memCfgOk c = true) (hs : memStOk c st = true) (ha : i.adr < c.depth) (hr : i.rst = false) :
    memEdgeF c st i = memEdgeV c st i :=
  memEdge_equiv c st i hc hs (by simp [memInOk, ha, hr, hm])

theorem mem_port_equiv_readFirst (c : MemCfg) (st : MemSt) (i : MemIn) (hm : c.mode = .readFirst)
    (hc : memCfgOk c = true) (hs : memStOk c st = true) (ha : i.adr < c.depth) (hr : i.rst = false) :
    memEdgeF c st i = memEdgeV c st i :=
  memEdge_equiv c st i hc hs (by simp [memInOk, ha, hr, hm])

theorem mem_port_equiv_async (c : MemCfg) (st : MemSt) (i : MemIn) (hm : c.mode = .async)
    (hc : memCfgOk c = true) (hs : memStOk c st = true) (ha : i.adr < c.depth) (hr : i.rst = false) :
    memEdgeF c st i = memEdgeV c st i :=
  memEdge_equiv c st i hc hs (by simp [memInOk, ha, hr, hm])

theorem mem_port_equiv_noChange_partial (c : MemCfg) (st : MemSt) (i : MemIn) (_hm : c.mode = .noChange)
    (hc : memCfgOk c = true) (hs : memStOk c st = true) (ha : i.adr < c.depth) (hr : i.rst = false)
    (hwe : tn c.nwe i.we = 0 ∨ tn c.nwe i.we = p2 c.nwe - 1) :
    memEdgeF c st i = memEdgeV c st i :=
  memEdge_equiv c st i hc hs (by
    simp only [memInOk, Bool.and_eq_true, Bool.or_eq_true, decide_eq_true_eq, Bool.not_eq_true']
    exact ⟨⟨ha, hr⟩, hwe.elim (fun h => Or.inl (Or.inr h)) Or.inr⟩)

/-- **mem_run_equiv_partial**: for EVERY sequence of edges (addresses, data, enables, read enables) within the side
    condition, from the power-up state, the `dat_r` outputs of the text and of the simulator are the same. -/
theorem mem_run_equiv_partial (c : MemCfg) (hc : memCfgOk c = true) (hd : 0 < c.depth) (is : List MemIn)
    (hi : ∀ i ∈ is, memInOk c i = true) : memRunF c (memInit c) is = memRunV c (memInit c) is :=
  memRun_equiv c hc is _ (memStOk_init c hd) hi

def exMem : MemCfg := { w := 16, g := 8, mode := .writeFirst, hasRe := false, depth := 5, init := [0xbeef, 1] }

/-- Non-vacuity: 16-bit words, byte enables, depth 5 (not a power of two), WRITE_FIRST: write the high byte of
    word 4, the low byte of word 4, read word 0: hypotheses hold, the bytes merge, both sides give the same. -/
example :
    let is : List MemIn := [⟨4, 0xaa55, 2, false, false⟩, ⟨4, 0x1234, 1, false, false⟩, ⟨0, 0, 0, false, false⟩]
    memCfgOk exMem = true ∧ (∀ i ∈ is, memInOk exMem i = true) ∧
    memRunF exMem (memInit exMem) is = [0xaa00, 0xaa34, 0xbeef] ∧
    memRunV exMem (memInit exMem) is = [0xaa00, 0xaa34, 0xbeef] := by decide

/-- Negative witness 1 (finding C01-memory-nochange-partial-we): NO_CHANGE, two byte enables, only one set: the
    simulator (`If(~we, …)`: reads unless ALL enables are set) updates `dat_r`, the text (`if (!we)`) does not. -/
example :
    let c : MemCfg := { w := 16, g := 8, mode := .noChange, hasRe := false, depth := 4, init := [7] }
    let i : MemIn := ⟨0, 0x1234, 1, false, false⟩
    memCfgOk c = true ∧ memStOk c (memInit c) = true ∧ memInOk c i = false ∧
    memReadF c (memEdgeF c (memInit c) i) 0 = 7 ∧ memReadV c (memEdgeV c (memInit c) i) 0 = 0 := by decide

/-- Negative witness 2 (finding C01-memory-not-reset): write word 1, then assert reset: the simulator restores
    `init` (word 1 = 2 again), the text keeps the written word. -/
example :
    let c : MemCfg := { w := 8, g := 0, mode := .async, hasRe := false, depth := 4, init := [1, 2] }
    let w1 : MemIn := ⟨1, 0x55, 1, false, false⟩
    let rs : MemIn := ⟨1, 0, 0, false, true⟩
    memInOk c rs = false ∧ memRunF c (memInit c) [w1, rs] = [0x55, 2] ∧ memRunV c (memInit c) [w1, rs] = [0x55, 0x55] := by
  decide

/-! ### several ports, one or several clocks

  `edgeFN`/`readFN`: one instant (the clocks `clks` rise) / the `dat_r` outputs of the simulator's MemoryToArray
  semantics for a memory with any number of ports (read statements on the committed words, the writes of the ports
  merging in port order); `edgeVN`/`readVN`: of the text memory.py emits — one `always @(posedge clk_n)` and one
  `assign dat_r` per port, with `effMode`: EVERY port forced to READ_FIRST when the ports do not share one clock
  (LitexModel/Fhdl/MemoryN.lean; both compared on every run with the real simulator and with the independent reading
  of the real text, on multi-port same-clock, multi-clock, mixed-mode, two-writer memories, inside and outside the
  hypotheses).  `memCfgOkN`: every port has a legal granularity, its mode is kept by the text (`modeKept`:
  single-clock memory, or the port is READ_FIRST / async), NO_CHANGE ports are write capable;
  `insOk`: per port `memInOk` (address in range, NO_CHANGE enables all-or-nothing).

  Full statement (does NOT hold — besides the two one-port witnesses above, the negative witness below: the open
  finding C01-memory-multiclock-forced-read-first):
  theorem mem_ports_equiv (c : MemCfgN) (st : MemStN) (clks : List Nat) (ins : List MemIn) (hs : memStOkN c st = true)
      (ha : ∀ i ∈ ins, i.adr < c.depth) : edgeFN c st clks ins = edgeVN c st clks ins
-/

/-- **mem_ports_equiv_partial**: one instant of a multi-port memory — whatever subset of the clocks rises, every
    mode mix, every granularity mix, several writers (merging in port order), read enables. -/
theorem mem_ports_equiv_partial (c : MemCfgN) (st : MemStN) (clks : List Nat) (ins : List MemIn)
    (hc : memCfgOkN c = true) (hs : memStOkN c st = true) (hi : insOk c c.ports ins = true) :
    edgeFN c st clks ins = edgeVN c st clks ins ∧
    readFN c (edgeFN c st clks ins) ins = readVN c (edgeVN c st clks ins) ins := by
  have he := memEdgeN_equiv c st clks ins hc hs hi
  refine ⟨he, ?_⟩
  rw [he]
  exact memReadN_equiv c _ ins hc (memStOkN_edgeV c st clks ins hs hi) hi

/-- **mem_ports_equiv_sameclock**: all ports on one clock — NO condition on the modes (WRITE_FIRST / READ_FIRST /
    NO_CHANGE / async read in any mix). -/
theorem mem_ports_equiv_sameclock (c : MemCfgN) (st : MemStN) (clks : List Nat) (ins : List MemIn)
    (h1 : multiClock c = false)
    (hp : c.ports.all (fun p => memCfgOk (p.cfg c) && (decide (p.mode ≠ .noChange) || p.hasWe)) = true)
    (hs : memStOkN c st = true) (hi : insOk c c.ports ins = true) :
    edgeFN c st clks ins = edgeVN c st clks ins := by
  apply memEdgeN_equiv c st clks ins _ hs hi
  simp only [memCfgOkN, List.all_eq_true] at hp ⊢
  intro p hpm
  have := hp p hpm
  simp only [Bool.and_eq_true] at this
  simp only [portOk, modeKept, h1, Bool.not_false, Bool.true_or, Bool.and_true, Bool.and_eq_true]
  exact this

/-- **mem_ports_equiv_multiclock_partial**: ports on different clocks, any interleaving of their edges (also
    coincident ones): holds when every port is READ_FIRST or async-read — the modes memory.py's rewrite leaves alone. -/
theorem mem_ports_equiv_multiclock_partial (c : MemCfgN) (st : MemStN) (clks : List Nat) (ins : List MemIn)
    (hp : c.ports.all (fun p => memCfgOk (p.cfg c) && (decide (p.mode = .readFirst) || decide (p.mode = .async))) = true)
    (hs : memStOkN c st = true) (hi : insOk c c.ports ins = true) :
    edgeFN c st clks ins = edgeVN c st clks ins := by
  apply memEdgeN_equiv c st clks ins _ hs hi
  simp only [memCfgOkN, List.all_eq_true] at hp ⊢
  intro p hpm
  have := hp p hpm
  simp only [Bool.and_eq_true, Bool.or_eq_true, decide_eq_true_eq] at this
  simp only [portOk, modeKept, Bool.and_eq_true, Bool.or_eq_true, decide_eq_true_eq, Bool.not_eq_true']
  refine ⟨⟨this.1, ?_⟩, ?_⟩
  · rcases this.2 with h | h
    · exact Or.inl (Or.inr h)
    · exact Or.inr h
  · rcases this.2 with h | h <;> exact Or.inl (by rw [h]; decide)

/-- **mem_ports_run_equiv_partial**: for EVERY schedule of instants (rising clocks + the inputs of every port) within
    the side condition, from the power-up state, all `dat_r` outputs agree after every instant. -/
theorem mem_ports_run_equiv_partial (c : MemCfgN) (hc : memCfgOkN c = true) (hd : 0 < c.depth)
    (sched : List (List Nat × List MemIn)) (hi : ∀ x ∈ sched, insOk c c.ports x.2 = true) :
    runFN c (memInitN c) sched = runVN c (memInitN c) sched :=
  memRunN_equiv c hc sched _ (memStOkN_init c hd) hi

/-- Non-vacuity: 16-bit words, depth 5; port 0 WRITE_FIRST read/write with byte enables, port 1 READ_FIRST read-only
    with `re`, port 2 a second WRITER (granularity 0), all on clock 7.  Instant 1: port 0 writes the high byte of
    word 4 while port 1 reads word 4 (old value) and port 2 writes word 0; instant 2: ports 0 and 2 write the SAME
    word 4 (low byte / whole word: the later port wins), port 1 holds (`re` = 0). -/
def exMemN : MemCfgN :=
  { w := 16, depth := 5, init := [0xbeef, 1, 2, 3, 0x1234],
    ports := [⟨8, .writeFirst, false, true, 7⟩, ⟨0, .readFirst, true, false, 7⟩, ⟨0, .writeFirst, false, true, 7⟩] }

example :
    let sched : List (List Nat × List MemIn) :=
      [([7], [⟨4, 0xaa55, 2, false, false⟩, ⟨4, 0, 0, true, false⟩, ⟨0, 0x7777, 1, false, false⟩]),
       ([7], [⟨4, 0x00cc, 1, false, false⟩, ⟨0, 0, 0, false, false⟩, ⟨4, 0x5a5a, 1, false, false⟩])]
    memCfgOkN exMemN = true ∧ multiClock exMemN = false ∧ (∀ x ∈ sched, insOk exMemN exMemN.ports x.2 = true) ∧
    runFN exMemN (memInitN exMemN) sched = [[0xaa34, 0x1234, 0x7777], [0x5a5a, 0x1234, 0x5a5a]] ∧
    runVN exMemN (memInitN exMemN) sched = [[0xaa34, 0x1234, 0x7777], [0x5a5a, 0x1234, 0x5a5a]] := by decide

/-- Two clocks, READ_FIRST writer on clock 10, READ_FIRST reader on clock 11, coincident and separate edges. -/
example :
    let c : MemCfgN := { w := 8, depth := 6, init := [3, 1, 4],
                         ports := [⟨0, .readFirst, false, true, 10⟩, ⟨0, .readFirst, false, false, 11⟩] }
    let sched : List (List Nat × List MemIn) :=
      [([10], [⟨2, 0x55, 1, false, false⟩, ⟨2, 0, 0, false, false⟩]),
       ([10, 11], [⟨2, 0x66, 1, false, false⟩, ⟨2, 0, 0, false, false⟩]),
       ([11], [⟨0, 0, 0, false, false⟩, ⟨2, 0, 0, false, false⟩])]
    multiClock c = true ∧ memCfgOkN c = true ∧
    runFN c (memInitN c) sched = [[4, 0], [0x55, 0x55], [0x55, 0x66]] ∧
    runVN c (memInitN c) sched = [[4, 0], [0x55, 0x55], [0x55, 0x66]] := by decide

/-- Negative witness 3 (finding C01-memory-multiclock-forced-read-first): a WRITE_FIRST read/write port on clock 10
    next to a read port on clock 11.  The write of 0x55 to word 0: the simulator's port 0 shows the NEW word
    (transparent read through the address register), the text — rewritten to READ_FIRST — the registered OLD one. -/
example :
    let c : MemCfgN := { w := 8, depth := 8, init := [3, 1, 4],
                         ports := [⟨0, .writeFirst, false, true, 10⟩, ⟨0, .readFirst, false, false, 11⟩] }
    let sched : List (List Nat × List MemIn) := [([10], [⟨0, 0x55, 1, false, false⟩, ⟨0, 0, 0, false, false⟩])]
    multiClock c = true ∧ memCfgOkN c = false ∧ memStOkN c (memInitN c) = true ∧
    insOk c c.ports (sched.head!).2 = true ∧
    runFN c (memInitN c) sched = [[0x55, 0]] ∧ runVN c (memInitN c) sched = [[3, 0]] := by decide

/-! ## Instances (`instance.py`)

  `printInstance params ports` (LitexModel/Fhdl/Instance.lean, compared name by name, in order, node for node with
  the text the real `_instance_generate_verilog` emits): the `#( .NAME (VALUE) … )` list and the connection list. -/

/-- **instance_connections_exact**: the emitted connection list is, up to the grouping inputs / outputs / inouts,
    EXACTLY the Instance's port items — each item once, under its own name, connected to the expression printer's
    text of its own expression; nothing dropped, duplicated or invented — and the parameter list is the parameter
    items in order (Constants through `printConst`, strings quoted, floats / preformatted values verbatim). -/
theorem instance_connections_exact (ps : List InstParam) (qs : List InstPort) :
    (printInstance ps qs).ports.Perm (qs.map printPort) ∧
    (printInstance ps qs).params = ps.map (fun p => (p.name, printParam p.v)) :=
  ⟨printInstance_ports_perm ps qs, printInstance_params ps qs⟩

/-- Consequence: with distinct port names every name is connected exactly once. -/
theorem instance_port_names_nodup (ps : List InstParam) (qs : List InstPort) (h : (qs.map (·.name)).Nodup) :
    ((printInstance ps qs).ports.map (·.1)).Nodup := by
  have hp := (printInstance_ports_perm ps qs).map (·.1)
  rw [List.map_map] at hp
  exact (hp.nodup_iff).2 (by simpa [Function.comp_def, printPort] using h)

/-- The order really changes (outputs declared first are printed after the inputs), the content does not. -/
example : ((printInstance [] [⟨.output, "O", .sig 0 4 false⟩, ⟨.inout, "P", .sig 2 1 false⟩,
                              ⟨.input, "I", .op1 .not (.sig 1 4 false)⟩]).ports.map (·.1)) = ["I", "O", "P"] := by
  decide

/-! ### Non-vacuity (layer 1) -/

/-- `y[8] = (a & ~b) + (c >> 1)` with a,b,c 8-bit unsigned fits statically (so for all inputs). -/
example : staticallyFits
    (.op2 .add (.op2 .and (.sig 0 8 false) (.op1 .not (.sig 1 8 false))) (.op2 .shr (.sig 2 8 false) (.const 1 1 false))) 8
    = true := by decide

/-- a signed/unsigned mix that needs the `$signed({1'd0, x})` promotion fits statically. -/
example : staticallyFits (.op2 .lt (.sig 0 8 true) (.sig 1 4 false)) 1 = true := by decide

example : printE (.op2 .lt (.sig 0 8 true) (.sig 1 4 false)) =
    (.bin .lt (.id 0 8 true) (.signed (.concat [.lit 1 false 0, .id 1 4 false])), false) := rfl

/-! ### Negative witnesses (the excluded region is not empty: the full statement fails there) -/

/-- `(a - 1) == b`, a = 0, b = 0xFF, 8 bits: simulator 0 (−1 ≠ 255), Verilog 1 (8'hFF == 8'hFF). -/
example :
    let e : Expr := .op2 .eq (.op2 .sub (.sig 0 8 false) (.const 1 1 false)) (.sig 1 8 false)
    let ρ := envL [0, 255]
    envOk ρ e = true ∧ storeF ρ 1 e = 0 ∧ assignV ρ 1 (printE e).1 = 1 ∧ Fits ρ e 1 = false := by decide

/-- `~a == k` with a = 0, k = 0xFF: simulator 0 (−1 ≠ 255), Verilog 1. -/
example :
    let e : Expr := .op2 .eq (.op1 .not (.sig 0 8 false)) (.const 255 8 false)
    let ρ := envL [0]
    envOk ρ e = true ∧ storeF ρ 1 e = 0 ∧ assignV ρ 1 (printE e).1 = 1 ∧ Fits ρ e 1 = false := by decide

/-- `(a + b) >> 1` assigned to 8 bits, a = b = 0x80: simulator 0x80, Verilog 0 (carry lost before the shift). -/
example :
    let e : Expr := .op2 .shr (.op2 .add (.sig 0 8 false) (.sig 1 8 false)) (.const 1 1 false)
    let ρ := envL [128, 128]
    envOk ρ e = true ∧ storeF ρ 8 e = 128 ∧ assignV ρ 8 (printE e).1 = 0 ∧ Fits ρ e 8 = false := by decide

/-! ### Regression examples: the witnesses of the repaired findings now evaluate equal on both sides, satisfy
    `Fits` (the printer theorem covers them) and — where no value is involved — fit statically -/

/-- (was F6 / C01-signed-const-unsigned-literal) `a < -1` with `a` 8-bit signed, a = 5: the text is now
    `(a < 1'sd1)`, a SIGNED comparison (5 < −1 = 0) as in the simulator; it was `(a < -1'd1)`, 5 < 255 = 1. -/
example :
    let e : Expr := .op2 .lt (.sig 0 8 true) (.const (-1) 1 true)
    let ρ := envL [5]
    envOk ρ e = true ∧ storeF ρ 1 e = 0 ∧ assignV ρ 1 (printE e).1 = 0 ∧ Fits ρ e 1 = true ∧
      staticallyFits e 1 = true := by decide

example : (printE (.op2 .lt (.sig 0 8 true) (.const (-1) 1 true))).1 =
    .bin .lt (.id 0 8 true) (.lit 1 true 1) := rfl

/-- What the text was before the repair, and why it was wrong: `(a < -1'd1)` is an unsigned comparison. -/
example : assignV (envL [5]) 1 (.bin .lt (.id 0 8 true) (.un .neg (.lit 1 false 1))) = 1 := by decide

/-- Why the obvious repair of F6 (`-4'sd8` instead of `-4'd8`) would be wrong: the most negative value of a
    width, extended to a wider signed context, negates to the POSITIVE value (`-4'sd8` in 8 bits is +8);
    printing the two's-complement pattern (`4'sd8`, i.e. 1000 = −8) is right in every context — which is what
    `printConst` (and the repaired `_generate_constant`) does. -/
example : evalV (fun _ => 0) 8 true (.un .neg (.lit 4 true 8)) = 8 ∧
          evalV (fun _ => 0) 8 true (.lit 4 true 8) = tn 8 (-8) := by decide

example : (printE (.const (-8) 4 true)).1 = .lit 4 true 8 := rfl

/-- `a + (-8 as 4-bit signed constant)` into 16 bits fits statically (all inputs). -/
example : staticallyFits (.op2 .add (.sig 0 8 true) (.const (-8) 4 true)) 16 = true := by decide

/-- Case items keep the unsigned form `-1'd1` (`printConstU`): next to an unsigned item the `case` is evaluated
    in an unsigned context, where a signed literal `1'sd1` would be ZERO-extended (0001) and match x = 1 instead
    of x = −1 (1111); `-1'd1` is 1111 in 4 bits. -/
example : evalV (fun _ => 0) 4 false (printConstU (-1) 1) = 15 ∧ evalV (fun _ => 0) 4 false (.lit 1 true 1) = 1 := by
  decide

/-- `Case(x, {-1: r <= 1, 0: r <= 2})`, x 4-bit signed: both sides select the first item for x = −1 and nothing
    for x = 1; the side condition holds. -/
example :
    let x : Expr := .sig 0 4 true
    let r : Expr := .sig 1 2 false
    let ss : Stmts := .cons (.case x (.cons (-1) 1 true (.cons (.assign r (.const 1 1 false)) .nil)
                                     (.cons 0 1 false (.cons (.assign r (.const 2 2 false)) .nil) .nil)) false .nil) .nil
    fitsSs (envL [-1, 0]) ss = true ∧ execFs (envL [-1, 0]) ss [] = [(1, 1)] ∧
    execVs (envL [-1, 0]) (printStmts ss) [] = [⟨1, 0, 2, 1⟩] ∧
    fitsSs (envL [1, 0]) ss = true ∧ execFs (envL [1, 0]) ss [] = [] ∧ execVs (envL [1, 0]) (printStmts ss) [] = [] := by
  decide

/-- (was C01-comparison-reported-signed) `(a < b) + c`, all signed 8 bit, into 16 bits with c = −1, a ≥ b: the
    comparison is now reported unsigned and promoted, `$signed({1'd0, (a < b)}) + c`: both sides 0xFFFF (the
    text `((a < b) + c)` zero-extended c: 0x00FF).  Fits statically, i.e. for all inputs. -/
example :
    let e : Expr := .op2 .add (.op2 .lt (.sig 0 8 true) (.sig 1 8 true)) (.sig 2 8 true)
    let ρ := envL [0, 0, -1]
    envOk ρ e = true ∧ storeF ρ 16 e = 65535 ∧ assignV ρ 16 (printE e).1 = 65535 ∧ Fits ρ e 16 = true ∧
      staticallyFits e 16 = true := by decide

example : assignV (envL [0, 0, -1]) 16 (.bin .add (.bin .lt (.id 0 8 true) (.id 1 8 true)) (.id 2 8 true)) = 255 := by
  decide

/-- (was C01-slice-reported-signed) `x[0:4] + t`, x and t signed 8 bit, t = −1, into 16 bits: the part-select is
    now reported unsigned and promoted: both sides 0xFFFF (was 0x00FF).  Fits statically. -/
example :
    let e : Expr := .op2 .add (.slice (.sig 0 8 true) 0 4) (.sig 1 8 true)
    let ρ := envL [0, -1]
    envOk ρ e = true ∧ storeF ρ 16 e = 65535 ∧ assignV ρ 16 (printE e).1 = 65535 ∧ Fits ρ e 16 = true ∧
      staticallyFits e 16 = true := by decide

/-- (was C01-signed-1bit-noslice) `x[0]` of a 1-bit signed `x = −1` into 4 bits: the text is now `{x}` (unsigned
    view): both sides 1; the bare `x` sign-extended to 15.  Fits statically. -/
example :
    let e : Expr := .slice (.sig 0 1 true) 0 1
    let ρ := envL [-1]
    storeF ρ 4 e = 1 ∧ assignV ρ 4 (printE e).1 = 1 ∧
      assignV ρ 4 (.id 0 1 true) = 15 ∧ Fits ρ e 4 = true ∧ staticallyFits e 4 = true := by decide

example : (printE (.slice (.sig 0 1 true) 0 1)).1 = .concat [.id 0 1 true] := rfl

/-- (was C01-mux-condition-unmasked) `Mux(~b, x, y)`, b = 1: the simulator now masks the condition to its width
    (`~b & 1 = 0`) and selects `y` like the 1-bit Verilog `~b` (it tested the unbounded `~b ∈ {−1, −2}`, always
    true).  Fits statically: the former requirement that the condition's VALUE be representable is gone. -/
example :
    let e : Expr := .mux (.op1 .not (.sig 0 1 false)) (.sig 1 4 false) (.sig 2 4 false)
    let ρ := envL [1, 3, 9]
    envOk ρ e = true ∧ storeF ρ 4 e = 9 ∧ assignV ρ 4 (printE e).1 = 9 ∧ Fits ρ e 4 = true ∧
      staticallyFits e 4 = true := by decide

/-- Where `condOk` still bites (intermediate overflow, stays excluded): `Mux(a + b, x, y)` with a = b = 8 (4 bit):
    the simulator tests the 5-bit sum 16 (true), Verilog the 4-bit sum 0 (false). -/
example :
    let e : Expr := .mux (.op2 .add (.sig 0 4 false) (.sig 1 4 false)) (.sig 2 4 false) (.sig 3 4 false)
    let ρ := envL [8, 8, 3, 9]
    envOk ρ e = true ∧ storeF ρ 4 e = 3 ∧ assignV ρ 4 (printE e).1 = 9 ∧ Fits ρ e 4 = false := by decide

end Litex.C01
