import LitexModel.Fhdl.Print
namespace Litex.C01

theorem placeholder_selfWidth_lit (w v : Nat) (s : Bool) : selfWidth (.lit w s v) = w := by
  simp [selfWidth]

end Litex.C01
