import LitexProofs.Fhdl.StaticSound
/-
  C01 — generated Verilog behaves exactly like the simulated FHDL design.

  Layer 1 (expressions and assignments of expressions).  Objects:
    `evalF ρ e`            the reference simulator (`Evaluator.eval`, unbounded Python integers)
    `printE e`             the printer of `litex/gen/fhdl/expression.py` (model checked node by node against the
                           real text on every run)
    `evalV ρ W sg v`       IEEE 1364-2005 §5.4/§5.5 evaluation of the printed text in a `W`-bit context
                           (TRUSTED formalisation; the sandbox has no Verilog simulator)
    `storeF/assignV`      bits stored into an `lw`-bit target by `Evaluator.assign` / by the Verilog assignment
  The property at full strength is FALSE on the code that exists: Migen evaluates over unbounded integers,
  Verilog in the context width, and the printer mis-reports signedness in three places.  It is therefore proved
  under the decidable side condition `Fits` (`_partial`), the excluded region is exhibited by concrete
  counterexamples, and a static sufficient condition (`staticallyFits`, a value-range analysis) is proved sound.
-/
namespace Litex.C01

/-
  Full statement (does NOT hold, see the negative witnesses below):
  theorem printE_correct (ρ : Env) (e : Expr) (W : Nat) (hρ : envOk ρ e = true)
      (hW : selfWidth (printE e).1 ≤ W) :
      evalV ρ W (selfSigned (printE e).1) (printE e).1 = tn W (evalF ρ e)
-/

/-- **Printer theorem.**  For every FHDL expression `e`, every valuation `ρ` and every context width
    `W ≥ selfWidth(text)`: if `Fits ρ e W` (at each self-determined boundary of the printed text — comparison
    operands, shift amounts and right-shift operands, concatenation/replication elements, conditions, promoted
    `$signed({1'd0, x})` operands — the unbounded value is representable in the width/type Verilog gives it)
    then the printed text evaluates, under the Verilog rules, to the simulator's value modulo `2^W`. -/
theorem printE_correct_partial (ρ : Env) (e : Expr) (W : Nat)
    (hW : selfWidth (printE e).1 ≤ W) (h : Fits ρ e W = true) :
    evalV ρ W (selfSigned (printE e).1) (printE e).1 = tn W (evalF ρ e) := by
  simp only [Fits, Bool.and_eq_true] at h
  rw [evalV_ideal ρ _ W _ hW h.2, printE_ideal ρ e h.1]

/-- **Assignment theorem.**  `target.eq(e)` stores the same bits in the simulator and in the generated
    Verilog (`target <= text;` / `assign target = text;`), for a target of any width `lw`. -/
theorem assign_correct_partial (ρ : Env) (e : Expr) (lw : Nat)
    (h : Fits ρ e (max lw (selfWidth (printE e).1)) = true) :
    assignV ρ lw (printE e).1 = storeF ρ lw e := by
  unfold assignV storeF
  rw [printE_correct_partial ρ e _ (Nat.le_max_right _ _) h, tn_tn (Nat.le_max_left _ _)]

/-- **Verilog sizing theorem** (about the Verilog semantics alone): context-determined evaluation equals the
    exact integer value modulo `2^W` whenever no self-determined boundary loses information. -/
theorem evalV_eq_ideal_partial (ρ : Nat → Int) (v : VExpr) (W : Nat) (sg : Bool)
    (hW : selfWidth v ≤ W) (h : fitsV ρ v W sg = true) : evalV ρ W sg v = tn W (ideal ρ v) :=
  evalV_ideal ρ v W sg hW h

/-- **Printed text denotes the simulator's value** over unbounded integers (printer side condition only). -/
theorem printE_ideal_partial (ρ : Env) (e : Expr) (h : fitsP ρ e = true) :
    ideal ρ (printE e).1 = evalF ρ e :=
  printE_ideal ρ e h

/-- The value-range analysis is sound: the unbounded value of a Verilog expression lies within `bounds`. -/
theorem bounds_contains (ρ : Nat → Int) (v : VExpr) : (bounds v).1 ≤ ideal ρ v ∧ ideal ρ v ≤ (bounds v).2 :=
  bounds_sound ρ v

/-- **Soundness of the static classifier**: a statically fitting expression fits under every valuation whose
    signal values are in their declared ranges. -/
theorem staticallyFits_sound (e : Expr) (W : Nat) (h : staticallyFits e W = true) :
    ∀ ρ : Env, envOk ρ e = true → Fits ρ e W = true := by
  intro ρ hρ
  simp only [staticallyFits, Bool.and_eq_true] at h
  simp only [Fits, Bool.and_eq_true]
  exact ⟨sfitsP_sound ρ e h.1 hρ, sfitsV_sound ρ _ _ _ h.2⟩

/-- Statically fitting assignments are translated correctly for ALL inputs. -/
theorem assign_correct_static (e : Expr) (lw : Nat)
    (h : staticallyFits e (max lw (selfWidth (printE e).1)) = true) :
    ∀ ρ : Env, envOk ρ e = true → assignV ρ lw (printE e).1 = storeF ρ lw e :=
  fun ρ hρ => assign_correct_partial ρ e lw (staticallyFits_sound e _ h ρ hρ)

/-! ### Non-vacuity -/

def envL (l : List Int) : Env := fun i => l.getD i 0

/-- `y[8] = (a & ~b) + (c >> 1)` with a,b,c 8-bit unsigned fits statically (so for all inputs). -/
example : staticallyFits
    (.op2 .add (.op2 .and (.sig 0 8 false) (.op1 .not (.sig 1 8 false))) (.op2 .shr (.sig 2 8 false) (.const 1 1 false))) 8
    = true := by decide

/-- a signed/unsigned mix that needs the `$signed({1'd0, x})` promotion fits statically. -/
example : staticallyFits (.op2 .lt (.sig 0 8 true) (.sig 1 4 false)) 1 = true := by decide

example : printE (.op2 .lt (.sig 0 8 true) (.sig 1 4 false)) =
    (.bin .lt (.id 0 8 true) (.signed (.concat [.lit 1 false 0, .id 1 4 false])), true) := rfl

/-! ### Negative witnesses (the excluded region is not empty: the full statement fails there) -/

/-- `(a - 1) == b`, a = 0, b = 0xFF, 8 bits: simulator 0 (−1 ≠ 255), Verilog 1 (8'hFF == 8'hFF). -/
example :
    let e : Expr := .op2 .eq (.op2 .sub (.sig 0 8 false) (.const 1 1 false)) (.sig 1 8 false)
    let ρ := envL [0, 255]
    envOk ρ e = true ∧ storeF ρ 1 e = 0 ∧ assignV ρ 1 (printE e).1 = 1 ∧ Fits ρ e 1 = false := by decide

/-- `~a == k` with a = 0, k = 0xFF: simulator 0 (−1 ≠ 255), Verilog 1. -/
example :
    let e : Expr := .op2 .eq (.op1 .not (.sig 0 8 false)) (.const 255 8 false)
    let ρ := envL [0]
    envOk ρ e = true ∧ storeF ρ 1 e = 0 ∧ assignV ρ 1 (printE e).1 = 1 ∧ Fits ρ e 1 = false := by decide

/-- `(a + b) >> 1` assigned to 8 bits, a = b = 0x80: simulator 0x80, Verilog 0 (carry lost before the shift). -/
example :
    let e : Expr := .op2 .shr (.op2 .add (.sig 0 8 false) (.sig 1 8 false)) (.const 1 1 false)
    let ρ := envL [128, 128]
    envOk ρ e = true ∧ storeF ρ 8 e = 128 ∧ assignV ρ 8 (printE e).1 = 0 ∧ Fits ρ e 8 = false := by decide

/-- KNOWN DEFECT (F6): signed constants are printed without `s`.  `a < -1` with `a` 8-bit signed, a = 5:
    the text is `(a < -1'd1)`, an UNSIGNED comparison in Verilog (5 < 255 = 1); the simulator gives 0. -/
example :
    let e : Expr := .op2 .lt (.sig 0 8 true) (.const (-1) 1 true)
    let ρ := envL [5]
    envOk ρ e = true ∧ storeF ρ 1 e = 0 ∧ assignV ρ 1 (printE e).1 = 1 ∧ Fits ρ e 1 = false := by decide

example : (printE (.op2 .lt (.sig 0 8 true) (.const (-1) 1 true))).1 =
    .bin .lt (.id 0 8 true) (.un .neg (.lit 1 false 1)) := rfl

/-- Printer sign flag of a comparison (`s1 or s2`) is wrong (Verilog: unsigned): `(a < b) + c`, all signed
    8 bit, into 16 bits with c = −1, a ≥ b: simulator 0xFFFF, Verilog 0x00FF (c is zero-extended). -/
example :
    let e : Expr := .op2 .add (.op2 .lt (.sig 0 8 true) (.sig 1 8 true)) (.sig 2 8 true)
    let ρ := envL [0, 0, -1]
    envOk ρ e = true ∧ storeF ρ 16 e = 65535 ∧ assignV ρ 16 (printE e).1 = 255 ∧ Fits ρ e 16 = false := by decide

/-- `Mux(~b, x, y)`: the simulator tests the unbounded `~b ∈ {−1, −2}` (always true), Verilog the 1-bit `~b`. -/
example :
    let e : Expr := .mux (.op1 .not (.sig 0 1 false)) (.sig 1 4 false) (.sig 2 4 false)
    let ρ := envL [1, 3, 9]
    envOk ρ e = true ∧ storeF ρ 4 e = 3 ∧ assignV ρ 4 (printE e).1 = 9 ∧ Fits ρ e 4 = false := by decide

end Litex.C01
