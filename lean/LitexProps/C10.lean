import LitexModel.Axi.Burst2Beat
import LitexModel.Axi.BurstSpec
import LitexModel.Axi.WidthConv
namespace Litex.C10
end Litex.C10
