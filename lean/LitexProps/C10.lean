import LitexProofs.Axi.Burst2BeatSys
import LitexProofs.Axi.WidthConv
import LitexProofs.Axi.WidthConvData
/-
  C10 — AXI bursts are expanded and resized according to the AXI address rules.

  Model: `Litex.Axi.b2b` is `AXIBurst2Beat` with every register truncation explicit (8-bit beat_count, 12-bit
  beat_size/beat_wrap, 13-bit signed beat_offset, the mask test `(addr & wrap) == wrap`, the override order of the
  two beat_offset assignments); `Litex.Axi.sys` is the module driven by a protocol-legal AXI master (a request that
  was offered and not accepted is held unchanged).  A run is a list `ins : List SysIn`: per cycle the environment
  chooses whether the idle master starts to offer, the request (garbage on the lines when it does not), and
  `ax_beat.ready` — every request sequence, every idle gap and every stall pattern on the beat stream.
  `axiSpecAddr` / `Legal` are written from AMBA AXI A3.4.1 and never mention the hardware model.
-/
namespace Litex.C10
open Litex Litex.Axi Litex.Stream Litex.Stream.Elem

/-- **Central theorem.**  For every capability set, every address width ≥ 12 and every run in which all requests
    the master offers are legal (A3.4.1: INCR inside one 4 KB page; WRAP of 2/4/8/16 transfers with a size-aligned
    start; FIXED), in every prefix of the run:
    * the beats handed over on `ax_beat`, with addresses taken at transfer-size granularity, are exactly the
      concatenation, over the accepted requests in order, of the `len+1` beats A3.4.1 prescribes (address of
      transfer k, `first` on beat 0, `last` on beat `len`, id copied), followed by the first `beat_count` beats of
      the request still being held;
    * the requests offered are exactly the requests accepted plus the one still held — none lost, none accepted
      twice. -/
theorem b2b_beats (caps : Caps) (aw : Nat) (haw : 12 ≤ aw) (ins : List SysIn)
    (hlegal : ∀ r ∈ sysOffered caps aw sysInit ins, Legal aw r (effBurst caps r.burst)) :
    sysBeats caps aw sysInit ins
      = (sysConsumed caps aw sysInit ins).flatMap (specBeatsC caps) ++ sysPending caps ((sys caps aw).run ins) ∧
    sysOffered caps aw sysInit ins
      = sysConsumed caps aw sysInit ins ++ ((sys caps aw).run ins).held.toList := by
  have h := sys_run caps aw haw ins sysInit (by simp [SysInv, sysInit]) hlegal
  obtain ⟨_, h2, h3⟩ := h
  have hrun : (sys caps aw).run ins = (sys caps aw).runFrom sysInit ins := rfl
  rw [hrun]
  exact ⟨by simpa [sysPending, sysInit] using h2, by simpa [sysInit] using h3⟩

/-- Every state reached in such a run satisfies the closed-form invariant (`SysInv`): idle ⇒ both registers at
    reset; otherwise `beat_count = k ≤ len` and `beat_offset` is the closed form `specOff` for `k` beats. -/
theorem b2b_invariant (caps : Caps) (aw : Nat) (haw : 12 ≤ aw) (ins : List SysIn)
    (hlegal : ∀ r ∈ sysOffered caps aw sysInit ins, Legal aw r (effBurst caps r.burst)) :
    SysInv caps aw ((sys caps aw).run ins) :=
  (sys_run caps aw haw ins sysInit (by simp [SysInv, sysInit]) hlegal).1

/-- **Consumed exactly in the cycle of the last beat's handshake.**  In the cycle following any such run, the
    request is accepted on `ax_burst` iff a beat is handed over on `ax_beat` in that same cycle and it carries
    `last`. -/
theorem b2b_consumed_with_last_beat (caps : Caps) (aw : Nat) (haw : 12 ≤ aw) (ins : List SysIn) (i : SysIn)
    (hlegal : ∀ r ∈ sysOffered caps aw sysInit (ins ++ [i]), Legal aw r (effBurst caps r.burst)) :
    let s := (sys caps aw).run ins
    sysConsNow aw s i ≠ [] ↔ ∃ b, sysBeatNow aw s i = [b] ∧ b.last = true := by
  intro s
  have happ := fun l s0 => sysOffered_snoc caps aw i l s0
  have hl1 : ∀ r ∈ sysOffered caps aw sysInit ins, Legal aw r (effBurst caps r.burst) :=
    fun r hr => hlegal r (by rw [happ]; simp [hr])
  have hl2 : ∀ r ∈ sysOfferNow s i, Legal aw r (effBurst caps r.burst) :=
    fun r hr => hlegal r (by rw [happ]; exact List.mem_append_right _ hr)
  exact (sys_step caps aw haw s i (b2b_invariant caps aw haw ins hl1) hl2).2.2.2

/-- `offset_fits`: under legality the running offset stays strictly inside (−4096, 4096), so the 13-bit signed
    register never wraps; and it is 0 whenever the master holds nothing. -/
theorem offset_fits (caps : Caps) (aw : Nat) (haw : 12 ≤ aw) (ins : List SysIn)
    (hlegal : ∀ r ∈ sysOffered caps aw sysInit ins, Legal aw r (effBurst caps r.burst)) :
    let s := (sys caps aw).run ins
    ((-4096 : Int) < s.b.offset ∧ s.b.offset < 4096 ∧ (s.held = none → s.b.offset = 0 ∧ s.b.count = 0)) := by
  intro s
  have hinv := b2b_invariant caps aw haw ins hlegal
  unfold SysInv at hinv
  cases hh : s.held with
  | none =>
    have hb : s.b = b2bInit := by simpa [s, hh] using hinv
    simp [hb, b2bInit]
  | some r =>
    have hinv' : Legal aw r (effBurst caps r.burst) ∧ s.b.count ≤ r.len ∧
        s.b = expState (effBurst caps r.burst) r s.b.count := by simpa [s, hh] using hinv
    obtain ⟨hleg, hk, hb⟩ := hinv'
    have hf := (beat_step caps aw haw r s.b.count hleg hk).fits
    have ho : s.b.offset = specOff (effBurst caps r.burst) r s.b.count := by
      conv => lhs; rw [hb]
      rfl
    rw [ho]
    exact ⟨hf.1, hf.2, by simp⟩

/-- `wrap_detect_iff`: for the WRAP lengths 2/4/8/16 the mask test of the code fires exactly on the last
    `2^size`-byte slot of the `(len+1)·2^size`-byte window. -/
theorem wrap_detect_iff (len size x : Nat) (hL : len = 1 ∨ len = 3 ∨ len = 7 ∨ len = 15) :
    (x &&& (len * 2 ^ size) = len * 2 ^ size) ↔ (x / 2 ^ size) % (len + 1) = len :=
  wrap_detect_len hL size x

/-- `b2b_fixed`: while a request whose effective type is FIXED (FIXED itself, the reserved encoding, or INCR/WRAP
    on a module built without that capability) is being served, the offset stays 0 — every beat carries the start
    address. -/
theorem b2b_fixed (caps : Caps) (aw : Nat) (haw : 12 ≤ aw) (ins : List SysIn)
    (hlegal : ∀ r ∈ sysOffered caps aw sysInit ins, Legal aw r (effBurst caps r.burst)) (r : Req)
    (hheld : ((sys caps aw).run ins).held = some r) (hfixed : effBurst caps r.burst = BURST_FIXED) :
    ((sys caps aw).run ins).b.offset = 0 := by
  have hinv := b2b_invariant caps aw haw ins hlegal
  unfold SysInv at hinv
  rw [hheld] at hinv
  obtain ⟨_, _, hb⟩ := hinv
  rw [hb, hfixed]
  exact specOff_fixed r ((sys caps aw).run ins).b.count

/-- `b2b_no_bubble`: in every cycle of such a run a beat is handed over iff a request is being driven and
    `ax_beat.ready` is high — the module inserts no idle cycles, so a burst needs exactly `len+1` ready cycles. -/
theorem b2b_no_bubble (caps : Caps) (aw : Nat) (haw : 12 ≤ aw) (ins : List SysIn) (i : SysIn)
    (hlegal : ∀ r ∈ sysOffered caps aw sysInit ins, Legal aw r (effBurst caps r.burst)) :
    let s := (sys caps aw).run ins
    sysBeatNow aw s i ≠ [] ↔ ((s.drive i).valid = true ∧ i.ready = true) := by
  intro s
  have hbv := beatValid_eq_valid caps aw s i (b2b_invariant caps aw haw ins hlegal)
  unfold sysBeatNow
  simp only [hbv]
  cases (s.drive i).valid <;> cases i.ready <;> simp

/-- `b2b_addr_exact`: when the start address is aligned to the transfer size (always the case for a legal WRAP
    burst) or the effective type is FIXED, the beat address equals the A3.4.1 address bit for bit, not only at
    transfer-size granularity.  (For an unaligned INCR start the module keeps the low address bits on every beat,
    where A3.4.1 aligns beats 2…: same container, see the example below.) -/
theorem b2b_addr_exact (caps : Caps) (aw : Nat) (haw : 12 ≤ aw) (ins : List SysIn) (i : SysIn)
    (hlegal : ∀ r ∈ sysOffered caps aw sysInit (ins ++ [i]), Legal aw r (effBurst caps r.burst)) :
    let s := (sys caps aw).run ins
    let r := (s.drive i).req
    (s.drive i).valid = true →
    (r.addr % numBytes r.size = 0 ∨ effBurst caps r.burst = BURST_FIXED) →
    (sysOut aw s i).beat.addr = axiSpecAddr r.addr r.len r.size (effBurst caps r.burst) s.b.count := by
  intro s r hv hal
  have happ := sysOffered_snoc caps aw i ins sysInit
  have hl1 : ∀ r ∈ sysOffered caps aw sysInit ins, Legal aw r (effBurst caps r.burst) :=
    fun r hr => hlegal r (by rw [happ]; simp [hr])
  have hl2 : ∀ r ∈ sysOfferNow s i, Legal aw r (effBurst caps r.burst) :=
    fun r hr => hlegal r (by rw [happ]; exact List.mem_append_right _ hr)
  obtain ⟨hleg, hk, hb, _⟩ := drive_inv caps aw s i (b2b_invariant caps aw haw ins hl1) hl2 hv
  have hx := (beat_step caps aw haw r s.b.count hleg hk).addr_exact hal
  show beatAddr aw r s.b = _
  rw [← hx]
  conv => lhs; rw [hb]

/-- Unaligned INCR start: beat 1 of INCR(addr 0x15, len 1, size 2) is presented at 0x19; A3.4.1 says 0x18 — the
    same 4-byte container (index 6), which is all the property (and `b2b_beats`) demands. -/
example :
    let n : Req := ⟨0x15, 1, 2, BURST_INCR, 0⟩
    let s := (sys Caps.all 12).run [⟨true, n, true⟩]
    (sysOut 12 s ⟨false, n, true⟩).beat.addr = 0x19 ∧ axiSpecAddr 0x15 1 2 BURST_INCR 1 = 0x18 ∧
    0x19 / numBytes 2 = 0x18 / numBytes 2 := by decide

/-! Non-vacuity: a WRAP burst of 4 × 4 bytes starting at 0x8 (not the window base) under a stalling consumer,
    followed by an INCR burst with an unaligned start; the model delivers 0x8, 0xC, 0x0, 0x4 and then containers
    5, 6 (addresses 0x15, 0x19 at 4-byte granularity). -/
example :
    let w : Req := ⟨0x8, 3, 2, BURST_WRAP, 1⟩
    let n : Req := ⟨0x15, 1, 2, BURST_INCR, 2⟩
    let ins : List SysIn := [⟨true, w, false⟩, ⟨false, n, true⟩, ⟨false, n, true⟩, ⟨true, n, false⟩, ⟨false, n, true⟩,
                             ⟨true, n, true⟩, ⟨true, n, true⟩, ⟨false, w, true⟩]
    (∀ r ∈ sysOffered Caps.all 12 sysInit ins, Legal 12 r (effBurst Caps.all r.burst)) ∧
    (sysBeats Caps.all 12 sysInit ins).map (·.addr) = [2, 3, 0, 1, 5, 6] ∧
    sysConsumed Caps.all 12 sysInit ins = [w, n] ∧
    (sysBeats Caps.all 12 sysInit ins).map (·.last) = [false, false, false, true, false, true] := by
  decide

/-! Why legality is a hypothesis: an *illegal* WRAP burst (3 transfers, start 0x3) ends with the mask test firing
    on its last beat, the later assignment overrides `beat_offset := 0`, and the stale offset −3 corrupts the next,
    perfectly legal, single-beat INCR burst at 0x10 (delivered at 0xD). -/
example :
    let bad : Req := ⟨0x3, 2, 0, BURST_WRAP, 0⟩
    let ok : Req := ⟨0x10, 0, 0, BURST_INCR, 0⟩
    let ins : List SysIn := [⟨true, bad, true⟩, ⟨false, bad, true⟩, ⟨false, bad, true⟩, ⟨true, ok, true⟩]
    ((sys Caps.all 12).run (ins.take 3)).b.offset = -3 ∧
    (sysBeats Caps.all 12 sysInit ins).getLast? = some ⟨0xD, true, true, 0⟩ ∧
    ¬ (sysBeats Caps.all 12 sysInit ins).getLast? = some ((specBeat ok BURST_INCR 0).atSize 0) := by
  decide

/-! ### Width converters: address-channel arithmetic -/

/-- `upconv_arith_partial`.  Full statement (false on the code): *for every legal burst the forwarded burst
    `(len >> k, size + k)` touches the same bytes in the same order.*  Proved under the code's own stated
    assumption: INCR, start aligned to the wide word, `len+1` a multiple of the ratio (and `size + k` representable).
    With `size = log2(dw_from/8)` this is exactly "full-width, wide-aligned, multiple of the ratio". -/
theorem upconv_arith_partial (k : Nat) (r : Req) (hb : r.burst = BURST_INCR) (hs : r.size + k < 8)
    (hal : r.addr % numBytes (r.size + k) = 0) (hmul : (r.len + 1) % 2 ^ k = 0) :
    burstBytes (upAx k r).addr (upAx k r).len (upAx k r).size (upAx k r).burst
      = burstBytes r.addr r.len r.size r.burst :=
  upAx_bytes k r hb hs hal hmul

/-- hypotheses satisfiable: 32 → 64, four beats at 0x20 become two. -/
example : burstBytes (upAx 1 ⟨0x20, 3, 2, BURST_INCR, 0⟩).addr (upAx 1 ⟨0x20, 3, 2, BURST_INCR, 0⟩).len
    (upAx 1 ⟨0x20, 3, 2, BURST_INCR, 0⟩).size BURST_INCR = List.range' 0x20 16 := by decide

/-- Negative witness (known finding C10-upconv-unaligned-single-beat): 32 → 64, one 4-byte beat at 0x4 is
    forwarded as `AW(0x4, len 0, size 3)`.  (The data path packs the beat into lane 0, see `wUp_first_beat_lane0`.) -/
example : upAx 1 ⟨0x4, 0, 2, BURST_INCR, 0⟩ = ⟨0x4, 0, 3, BURST_INCR, 0⟩ := by decide

/-- Negative witness, length not a multiple of the ratio: 32 → 64, three beats at 0x0 (12 bytes) are forwarded as
    two 8-byte beats (16 bytes). -/
example : ¬ burstBytes (upAx 1 ⟨0, 2, 2, BURST_INCR, 0⟩).addr (upAx 1 ⟨0, 2, 2, BURST_INCR, 0⟩).len
    (upAx 1 ⟨0, 2, 2, BURST_INCR, 0⟩).size BURST_INCR = burstBytes 0 2 2 BURST_INCR := by decide

/-- `downconv_arith_partial`.  Full statement (false on the code): *for every legal burst the forwarded burst
    touches the same bytes in the same order.*  Proved for full-width INCR bursts whose multiplied length still
    fits the 8-bit port: the narrow burst sweeps exactly the wide burst's containers (equal to the wide burst's own
    bytes when its start is aligned, `downconv_arith_aligned`). -/
theorem downconv_arith_partial (sf st : Nat) (r : Req) (hst : st ≤ sf) (hb : r.burst = BURST_INCR)
    (hs : r.size = sf) (hfit : (r.len + 1) * 2 ^ (sf - st) ≤ 256) :
    burstBytes (downAx sf st r).addr (downAx sf st r).len (downAx sf st r).size (downAx sf st r).burst
      = List.range' (alignedAddr r.addr sf) ((r.len + 1) * numBytes sf) :=
  downAx_bytes sf st r hst hb hs hfit

theorem downconv_arith_aligned (sf st : Nat) (r : Req) (hst : st ≤ sf) (hb : r.burst = BURST_INCR)
    (hs : r.size = sf) (hfit : (r.len + 1) * 2 ^ (sf - st) ≤ 256) (hal : r.addr % numBytes sf = 0) :
    burstBytes (downAx sf st r).addr (downAx sf st r).len (downAx sf st r).size (downAx sf st r).burst
      = burstBytes r.addr r.len r.size r.burst := by
  rw [downconv_arith_partial sf st r hst hb hs hfit, hb, hs, incr_bytes_aligned _ _ _ hal,
    alignedAddr_of_dvd (Nat.dvd_of_mod_eq_zero hal)]

/-- hypotheses satisfiable: 64 → 32, two 8-byte beats at 0x100 become four 4-byte beats. -/
example : downAx 3 2 ⟨0x100, 1, 3, BURST_INCR, 0⟩ = ⟨0x100, 3, 2, BURST_INCR, 0⟩ := by decide

/-- Negative witness (known finding C10-downconv-narrow-burst): 64 → 32, `len = 1, size = 2` (8 bytes) becomes
    `len = 3, size = 2` (16 bytes). -/
example : downAx 3 2 ⟨0x100, 1, 2, BURST_INCR, 0⟩ = ⟨0x100, 3, 2, BURST_INCR, 0⟩ ∧
    (burstBytes 0x100 1 2 BURST_INCR).length = 8 ∧ (burstBytes 0x100 3 2 BURST_INCR).length = 16 := by decide

/-- Negative witness (known finding C10-downconv-fixed-burst): a FIXED burst of two 8-byte beats (the same 8 bytes
    twice) becomes an INCR burst over 16 different bytes. -/
example : downAx 3 2 ⟨0x100, 1, 3, BURST_FIXED, 0⟩ = ⟨0x100, 3, 2, BURST_INCR, 0⟩ ∧
    burstBytes 0x100 1 3 BURST_FIXED = List.range' 0x100 8 ++ List.range' 0x100 8 ∧
    burstBytes 0x100 3 2 BURST_INCR = List.range' 0x100 16 := by decide

/-- Negative witness (known finding C10-downconv-len-overflow): 129 × 8 bytes need 258 narrow beats; the 8-bit
    length wraps to `len = 1`. -/
example : downAx 3 2 ⟨0, 128, 3, BURST_INCR, 0⟩ = ⟨0, 1, 2, BURST_INCR, 0⟩ := by decide

/-- `upconv_wrap_partial`: a WRAP burst whose start is aligned to the wide word and whose length is a multiple of
    the ratio is forwarded as a WRAP burst over the same bytes in the same order (same window, same start).
    (For `(len+1) = ratio` the forwarded "WRAP" has a single beat — the whole window.) -/
theorem upconv_wrap_partial (k : Nat) (r : Req) (hb : r.burst = BURST_WRAP) (hs : r.size + k < 8)
    (hal : r.addr % numBytes (r.size + k) = 0) (hmul : (r.len + 1) % 2 ^ k = 0) :
    burstBytes (upAx k r).addr (upAx k r).len (upAx k r).size (upAx k r).burst
      = burstBytes r.addr r.len r.size r.burst :=
  upAx_wrap_bytes k r hb hs hal hmul

/-- `downconv_wrap_partial`: a full-width WRAP burst (start aligned to the wide word, as WRAP legality demands) is
    forwarded as a WRAP burst of `(len+1)·ratio` narrow transfers over the same bytes in the same order, from any
    start inside the window.  The forwarded burst is a *legal* AXI WRAP only while `(len+1)·ratio ≤ 16`
    (known finding C10-downconv-len-overflow covers the rest, negative witness below). -/
theorem downconv_wrap_partial (sf st : Nat) (r : Req) (hst : st ≤ sf) (hb : r.burst = BURST_WRAP) (hs : r.size = sf)
    (hal : r.addr % numBytes sf = 0) (hfit : (r.len + 1) * 2 ^ (sf - st) ≤ 256) :
    burstBytes (downAx sf st r).addr (downAx sf st r).len (downAx sf st r).size (downAx sf st r).burst
      = burstBytes r.addr r.len r.size r.burst ∧
    (downAx sf st r).len + 1 = (r.len + 1) * 2 ^ (sf - st) :=
  downAx_wrap_bytes sf st r hst hb hs hal hfit

/-- hypotheses satisfiable, start above the window base: 64 → 32, WRAP 4 × 8 bytes from 0x1110 (window
    0x1100..0x111f) becomes WRAP 8 × 4 bytes: 0x1110..0x111f then 0x1100..0x110f. -/
example : downAx 3 2 ⟨0x1110, 3, 3, BURST_WRAP, 0⟩ = ⟨0x1110, 7, 2, BURST_WRAP, 0⟩ ∧
    burstBytes 0x1110 7 2 BURST_WRAP = List.range' 0x1110 16 ++ List.range' 0x1100 16 := by decide

/-- Negative witness for WRAP (region of C10-downconv-len-overflow): 16 × 8 bytes become a WRAP of 32 transfers,
    which AXI does not allow (2, 4, 8 or 16). -/
example : downAx 3 2 ⟨0x1108, 15, 3, BURST_WRAP, 0⟩ = ⟨0x1108, 31, 2, BURST_WRAP, 0⟩ ∧
    ¬ Legal 32 ⟨0x1108, 31, 2, BURST_WRAP, 0⟩ BURST_WRAP := by decide

/-- `downconv_single_partial`: a single transfer (INCR or FIXED, `len = 0`) at least as wide as the narrow bus —
    in particular every size strictly between the two bus widths — is forwarded as the `ratio` full-width narrow
    transfers of the wide word that contains it (the data path emits exactly these beats; strobes select the
    bytes). -/
theorem downconv_single_partial (sf st : Nat) (r : Req) (hst : st ≤ sf) (hk : sf - st ≤ 8)
    (hb : r.burst = BURST_INCR ∨ r.burst = BURST_FIXED) (hlen0 : r.len = 0) (hs1 : st ≤ r.size) :
    burstBytes (downAx sf st r).addr (downAx sf st r).len (downAx sf st r).size (downAx sf st r).burst
      = List.range' (alignedAddr r.addr sf) (numBytes sf) :=
  downAx_single_bytes sf st r hst hk hb hlen0 hs1

/-- hypotheses satisfiable: 128 → 32, one 8-byte transfer at 0x48 (size strictly between the bus widths). -/
example : downAx 4 2 ⟨0x48, 0, 3, BURST_INCR, 0⟩ = ⟨0x40, 3, 2, BURST_INCR, 0⟩ := by decide

/-- Negative witness (region of C10-downconv-narrow-burst, size below the narrow bus width): 64 → 32, one byte at
    0xec is forwarded as two 1-byte transfers at 0xe8, 0xe9 — byte 0xec is never addressed. -/
example : downAx 3 2 ⟨0xec, 0, 0, BURST_INCR, 0⟩ = ⟨0xe8, 1, 0, BURST_INCR, 0⟩ ∧
    burstBytes 0xe8 1 0 BURST_INCR = [0xe8, 0xe9] := by decide

/-! ### Width converters: data channels

  The W and R paths are `stream.StrideConverter`s; their model is the shared stream-converter model
  (`laneUp r = Stream.upConv r 0 ()`, `laneDown r = Stream.downConv r 0`, compared with the real W/R channels of
  `AXIUpConverter`/`AXIDownConverter` on every run).  A run is any `ins : List (In _)`: every valid/ready schedule. -/

/-- `w_beats_up` (W path of the up-converter, R path of the down-converter).  For every schedule and every narrow
    beat sequence: the words specified by greedy chunking of the accepted narrow beats (cut after `r` beats or
    after a beat with `last`; lanes = the beats in order, `last` = the closing beat's `last`) are exactly the wide
    beats delivered so far followed by the one waiting in the output register — none lost, duplicated or
    reordered.  (Same relation as C03's `upConv_token_rel`, instantiated at the AXI lane model.) -/
theorem w_beats_up (r : Nat) (hr : 0 < r) (ins : List (In (Nat × Unit))) :
    let e := laneUp r
    (chunks r (e.accepted e.init ins)).map (wordOf ()) =
      (e.delivered e.init ins).map upView ++ (e.runFrom e.init ins).inflight :=
  (rel_run_init (laneUp r) (upRel r ())
    ⟨by simp [Stream.upConv, UpState.inflight], by simp [Stream.upConv], by simpa [Stream.upConv] using hr,
     by simp [Stream.upConv], by simp [Stream.upConv], by simp [Stream.upConv]⟩
    (upConv_step r hr 0 ()) ins).1

/-- `w_up_burst`: what that chunking does to an AXI burst in the converter's supported region — `n·r` narrow beats
    whose only `last` is on the final one: only full words of `r` lanes, nothing left over, order kept, `n` wide
    beats, `last` on the final wide beat and on no other. -/
theorem w_up_burst (r n : Nat) (hr : 0 < r) (ts : List (Tok (Nat × Unit))) (t : Tok (Nat × Unit))
    (hno : ∀ x ∈ ts, x.last = false) (ht : t.last = true) (hlen : ts.length + 1 = n * r) :
    chunkRest r (ts ++ [t]) = [] ∧
    (chunks r (ts ++ [t])).flatten = ts ++ [t] ∧
    (∀ c ∈ chunks r (ts ++ [t]), c.length = r) ∧
    (chunks r (ts ++ [t])).length = n ∧
    ((chunks r (ts ++ [t])).map (wordOf ())).map (·.last) = List.replicate (n - 1) false ++ [true] := by
  obtain ⟨h1, h2, h3, h4, h5⟩ := burst_chunks r n hr ts t hno ht hlen
  refine ⟨h1, h2, h3, h4, ?_⟩
  rw [List.map_map]
  exact h5

/-- non-vacuity of `w_up_burst` and `w_beats_up`: ratio 2, a burst of four beats through a stalling consumer. -/
example :
    let e := laneUp 2
    let b (d : Nat) (l : Bool) : Tok (Nat × Unit) := ⟨(d, ()), false, l⟩
    let ins : List (In (Nat × Unit)) := [⟨true, b 1 false, true⟩, ⟨true, b 2 false, false⟩, ⟨true, b 3 false, false⟩,
      ⟨true, b 3 false, true⟩, ⟨true, b 4 true, true⟩, ⟨false, b 0 false, true⟩]
    e.accepted e.init ins = [b 1 false, b 2 false, b 3 false, b 4 true] ∧
    (e.delivered e.init ins).map upView = [⟨([1, 2], ()), false, false⟩, ⟨([3, 4], ()), false, true⟩] := by
  decide

/-- `wUp_first_beat_lane0` — negative witness for bursts outside the supported region (known finding
    C10-upconv-unaligned-single-beat): the data path never sees the address; a single beat (with `last`) is
    flushed in lane 0 — also when its address (0x4 on a 32 → 64 converter) names lane 1 — and the other lane keeps
    stale content. -/
example :
    let e := laneUp 2
    let ins : List (In (Nat × Unit)) := [⟨true, ⟨(0xdeadbeef, ()), false, true⟩, true⟩, ⟨false, ⟨(0, ()), false, false⟩, true⟩]
    (e.delivered e.init ins).map (·.data.lanes) = [[0xdeadbeef, 0]] := by
  decide

/-- `w_beats_down` (W path of the down-converter, R path of the up-converter).  Under the AXI/stream producer
    contract (a beat offered and not accepted is offered again unchanged — `Held`), for every schedule: the narrow
    beats delivered are all `r` lanes of every accepted wide beat, lane 0 first, in order, followed by the first
    `mux` lanes of the wide beat currently offered. -/
theorem w_beats_down (r : Nat) (hr : 0 < r) (ins : List (In (List Nat × Unit)))
    (hheld : (laneDown r).Held (laneDown r).init none ins) :
    let e := laneDown r
    e.delivered e.init ins =
      (e.accepted e.init ins).flatMap (splitTok r 0) ++
        downPart r 0 (e.runFrom e.init ins) (e.oblAfter e.init none ins) ∧
    e.runFrom e.init ins < r :=
  let h := rel_run_held_init (laneDown r) (downRel r 0)
    ⟨by simpa [Stream.downConv] using hr, by simp [Stream.downConv], by simp [downPart]⟩
    (fun s p a d i h hm => downConv_step r 0 s p a d i h hm) ins hheld
  ⟨h.2.2, h.1⟩

/-- `w_down_last`: a wide beat becomes exactly `r` narrow beats and `last` appears on the final one iff the wide
    beat carried `last` — so a burst of `n` wide beats with `last` on the final one is delivered as `n·r` narrow
    beats with `last` on the final one. -/
theorem w_down_last (r : Nat) (hr : 0 < r) (t : Tok (List Nat × Unit)) :
    (splitTok r 0 t).length = r ∧
    (splitTok r 0 t).map (·.last) = List.replicate (r - 1) false ++ [t.last] :=
  splitTok_last r hr 0 t

/-- non-vacuity of `w_beats_down`: ratio 2, two wide beats, consumer stalls once; the producer holds. -/
example :
    let e := laneDown 2
    let w (a b : Nat) (l : Bool) : Tok (List Nat × Unit) := ⟨([a, b], ()), false, l⟩
    let ins : List (In (List Nat × Unit)) := [⟨true, w 1 2 false, true⟩, ⟨true, w 1 2 false, false⟩,
      ⟨true, w 1 2 false, true⟩, ⟨true, w 3 4 true, true⟩, ⟨true, w 3 4 true, true⟩]
    e.Held e.init none ins ∧
    (e.delivered e.init ins).map (fun t => (t.data.1, t.last)) = [(1, false), (2, false), (3, false), (4, true)] := by
  refine ⟨?_, by decide⟩
  simp [Elem.Held, Elem.Meets, Elem.obl, Elem.out, Elem.step, Stream.downConv]

end Litex.C10
