import LitexProofs.Axi.Burst2BeatSys
import LitexProofs.Axi.WidthConv
import LitexProofs.Axi.WidthConvData
import LitexProofs.Axi.WidthConvSide
import LitexProofs.Axi.WidthConvMem
/-
  INVENTORY of the code C10 is anchored in (litex/soc/interconnect/axi/axi_full.py unless noted) — session 2.
  "tie": A = exhaustive product co-exploration with the Lean driver, B = random lock-step co-simulation,
         C = differential of a pure function (call), E = whole bursts through the real converter, P = probe.
  ------------------------------------------------------------------------------------------------------------------
  code                                   | Lean model                         | theorems here                  | tie
  ---------------------------------------+------------------------------------+--------------------------------+-----
  AXIBurst2Beat (regs, comb, sync, caps) | Axi.b2b / Axi.sys (Burst2Beat.lean)| b2b_beats, b2b_invariant,      | A all
    incl. 4 KB page, WRAP 2/4/8/16,      |  every truncation explicit; no     | b2b_consumed_with_last_beat,   | 32768 requests
    all sizes 0..7, FIXED, reduced caps  |  data-width parameter exists in    | offset_fits, wrap_detect_iff,  | of the box, B
    (the module has NO data-width        |  the code: theorems are for all    | b2b_fixed, b2b_no_bubble,      | aw 13..64,
    parameter: size < 8 covers all bus   |  aw >= 12, all len/size/burst      | b2b_addr_exact,                | axi3 ports,
    widths up to 1024 bit)               |                                    | b2b_incr_stays_in_page (new)   | open loop
  A3.4.1 (spec side)                     | axiSpecAddr/Legal/burstBytes       | (definitions the theorems are  | C vs Python
                                         |  (BurstSpec.lean)                  |  stated against)               | transcription
  AXIUpConverter AW/AR (len>>k, size+k)  | upAx (WidthConv.lean)              | upconv_arith_partial,          | C 15 instances
                                         |                                    | upconv_wrap_partial, UpRegion, | aw/ar, garbage
                                         |                                    | upconv_len_not_multiple_neg    | on idle channel
  AXIDownConverter convert_addr/len/     | downAx (WidthConv.lean)            | downconv_arith_partial/_aligned| C (same), P x4
    size/burst                           |                                    | downconv_wrap_partial,         |
                                         |                                    | downconv_single_partial,       |
                                         |                                    | downconv_len_overflow_neg (new)|
  W/R StrideConverters of both           | laneUp/laneDown = Stream.upConv/   | w_beats_up, w_up_burst,        | A 8<->16(32),
    converters (stream._UpConverter/     |  downConv (shared with C03)        | w_beats_down, w_down_last      | B 8 widths
    _DownConverter)                      |                                    |                                |
  byte-lane placement, strobes, data     | BWord, beatWrites/burstWrites/     | incr_burst_byte_stream,        | E: Lean
    end to end (AW/AR + W/R together)    |  burstReads, memApply, upWords/    | upconv_lane_placement,         | burstWrites vs
                                         |  downWords (WidthConvMem.lean) new | downconv_lane_placement,       | Python oracle on
                                         |                                    | upconv_write_e2e_partial,      | both sides and
                                         |                                    | downconv_write_e2e_partial,    | upWords/downWords
                                         |                                    | upconv_read_e2e_partial (new)  | vs real W/R beats
  side-bands resp/id/user/dest of W/R    | sideReg (down R: always-loading    | downR_sideband_unstalled_      | A 8<->16 x4,
    (comb in AXIUpConverter and down W,  |  register), sideCombUp (up W),     |  partial, sideIdeal_words,     | B 5(9) widths,
    self.sync every edge in down R)      |  sideCombDown (down W, up R)       | sideband_comb_down, negative   | first-cycle
                                         |  (WidthConvSide.lean) new          | witnesses (stall, up W, resp   | alignment
                                         |                                    | merging)                       | monitor
  B channel, AW/AR valid/ready and       | - (wires)                          | -                              | C passthrough
    id/lock/prot/cache/qos/region        |                                    |                                | differential
  AXIConverter (selection glue)          | - (elaboration-time choice)        | -                              | instances built
                                         |                                    |                                | via AXIConverter
  axi_common BURST_* encodings           | BURST_* (Burst2Beat.lean)          | -                              | constants_check
  axi_common AXSIZE table (32 -> 0b110,  | not modelled: unused by the code   | -                              | -
    64 -> 0b111: wrong, but unused)      |                                    |                                |
  AXI2AXILite / AXI2Wishbone: the only   | userCaps (capability set passed),  | effBurst_eq_iff,               | E: caps read at
    in-tree instantiation of             |  Caps.serves (BurstSpec.lean); the | user_b2b_beats (+ reduced-caps | elaboration vs
    AXIBurst2Beat (default capabilities) |  bridge FSM itself belongs to C09  | witness); C09: axi2axl_partial | userCaps; FIXED/
                                         |                                    |                                | INCR/WRAP bursts
                                         |                                    |                                | into real SRAMs
  AXIRemapper/Timeout/Arbiter/Decoder/…  | other properties (C08/C11)         |                                |
  ------------------------------------------------------------------------------------------------------------------
-/
/-
  C10 — AXI bursts are expanded and resized according to the AXI address rules.

  Model: `Litex.Axi.b2b` is `AXIBurst2Beat` with every register truncation explicit (8-bit beat_count, 12-bit
  beat_size/beat_wrap, 13-bit signed beat_offset, the mask test `(addr & wrap) == wrap`, the override order of the
  two beat_offset assignments); `Litex.Axi.sys` is the module driven by a protocol-legal AXI master (a request that
  was offered and not accepted is held unchanged).  A run is a list `ins : List SysIn`: per cycle the environment
  chooses whether the idle master starts to offer, the request (garbage on the lines when it does not), and
  `ax_beat.ready` — every request sequence, every idle gap and every stall pattern on the beat stream.
  `axiSpecAddr` / `Legal` are written from AMBA AXI A3.4.1 and never mention the hardware model.
-/
namespace Litex.C10
open Litex Litex.Axi Litex.Stream Litex.Stream.Elem

/-- **Central theorem.**  For every capability set, every address width ≥ 12 and every run in which all requests
    the master offers are legal (A3.4.1: INCR inside one 4 KB page; WRAP of 2/4/8/16 transfers with a size-aligned
    start; FIXED), in every prefix of the run:
    * the beats handed over on `ax_beat`, with addresses taken at transfer-size granularity, are exactly the
      concatenation, over the accepted requests in order, of the `len+1` beats A3.4.1 prescribes (address of
      transfer k, `first` on beat 0, `last` on beat `len`, id copied), followed by the first `beat_count` beats of
      the request still being held;
    * the requests offered are exactly the requests accepted plus the one still held — none lost, none accepted
      twice. -/
theorem b2b_beats (caps : Caps) (aw : Nat) (haw : 12 ≤ aw) (ins : List SysIn)
    (hlegal : ∀ r ∈ sysOffered caps aw sysInit ins, Legal aw r (effBurst caps r.burst)) :
    sysBeats caps aw sysInit ins
      = (sysConsumed caps aw sysInit ins).flatMap (specBeatsC caps) ++ sysPending caps ((sys caps aw).run ins) ∧
    sysOffered caps aw sysInit ins
      = sysConsumed caps aw sysInit ins ++ ((sys caps aw).run ins).held.toList := by
  have h := sys_run caps aw haw ins sysInit (by simp [SysInv, sysInit]) hlegal
  obtain ⟨_, h2, h3⟩ := h
  have hrun : (sys caps aw).run ins = (sys caps aw).runFrom sysInit ins := rfl
  rw [hrun]
  exact ⟨by simpa [sysPending, sysInit] using h2, by simpa [sysInit] using h3⟩

/-- Every state reached in such a run satisfies the closed-form invariant (`SysInv`): idle ⇒ both registers at
    reset; otherwise `beat_count = k ≤ len` and `beat_offset` is the closed form `specOff` for `k` beats. -/
theorem b2b_invariant (caps : Caps) (aw : Nat) (haw : 12 ≤ aw) (ins : List SysIn)
    (hlegal : ∀ r ∈ sysOffered caps aw sysInit ins, Legal aw r (effBurst caps r.burst)) :
    SysInv caps aw ((sys caps aw).run ins) :=
  (sys_run caps aw haw ins sysInit (by simp [SysInv, sysInit]) hlegal).1

/-- **Consumed exactly in the cycle of the last beat's handshake.**  In the cycle following any such run, the
    request is accepted on `ax_burst` iff a beat is handed over on `ax_beat` in that same cycle and it carries
    `last`. -/
theorem b2b_consumed_with_last_beat (caps : Caps) (aw : Nat) (haw : 12 ≤ aw) (ins : List SysIn) (i : SysIn)
    (hlegal : ∀ r ∈ sysOffered caps aw sysInit (ins ++ [i]), Legal aw r (effBurst caps r.burst)) :
    let s := (sys caps aw).run ins
    sysConsNow aw s i ≠ [] ↔ ∃ b, sysBeatNow aw s i = [b] ∧ b.last = true := by
  intro s
  have happ := fun l s0 => sysOffered_snoc caps aw i l s0
  have hl1 : ∀ r ∈ sysOffered caps aw sysInit ins, Legal aw r (effBurst caps r.burst) :=
    fun r hr => hlegal r (by rw [happ]; simp [hr])
  have hl2 : ∀ r ∈ sysOfferNow s i, Legal aw r (effBurst caps r.burst) :=
    fun r hr => hlegal r (by rw [happ]; exact List.mem_append_right _ hr)
  exact (sys_step caps aw haw s i (b2b_invariant caps aw haw ins hl1) hl2).2.2.2

/-- `offset_fits`: under legality the running offset stays strictly inside (−4096, 4096), so the 13-bit signed
    register never wraps; and it is 0 whenever the master holds nothing. -/
theorem offset_fits (caps : Caps) (aw : Nat) (haw : 12 ≤ aw) (ins : List SysIn)
    (hlegal : ∀ r ∈ sysOffered caps aw sysInit ins, Legal aw r (effBurst caps r.burst)) :
    let s := (sys caps aw).run ins
    ((-4096 : Int) < s.b.offset ∧ s.b.offset < 4096 ∧ (s.held = none → s.b.offset = 0 ∧ s.b.count = 0)) := by
  intro s
  have hinv := b2b_invariant caps aw haw ins hlegal
  unfold SysInv at hinv
  cases hh : s.held with
  | none =>
    have hb : s.b = b2bInit := by simpa [s, hh] using hinv
    simp [hb, b2bInit]
  | some r =>
    have hinv' : Legal aw r (effBurst caps r.burst) ∧ s.b.count ≤ r.len ∧
        s.b = expState (effBurst caps r.burst) r s.b.count := by simpa [s, hh] using hinv
    obtain ⟨hleg, hk, hb⟩ := hinv'
    have hf := (beat_step caps aw haw r s.b.count hleg hk).fits
    have ho : s.b.offset = specOff (effBurst caps r.burst) r s.b.count := by
      conv => lhs; rw [hb]
      rfl
    rw [ho]
    exact ⟨hf.1, hf.2, by simp⟩

/-- `wrap_detect_iff`: for the WRAP lengths 2/4/8/16 the mask test of the code fires exactly on the last
    `2^size`-byte slot of the `(len+1)·2^size`-byte window. -/
theorem wrap_detect_iff (len size x : Nat) (hL : len = 1 ∨ len = 3 ∨ len = 7 ∨ len = 15) :
    (x &&& (len * 2 ^ size) = len * 2 ^ size) ↔ (x / 2 ^ size) % (len + 1) = len :=
  wrap_detect_len hL size x

/-- `b2b_fixed`: while a request whose effective type is FIXED (FIXED itself, the reserved encoding, or INCR/WRAP
    on a module built without that capability) is being served, the offset stays 0 — every beat carries the start
    address. -/
theorem b2b_fixed (caps : Caps) (aw : Nat) (haw : 12 ≤ aw) (ins : List SysIn)
    (hlegal : ∀ r ∈ sysOffered caps aw sysInit ins, Legal aw r (effBurst caps r.burst)) (r : Req)
    (hheld : ((sys caps aw).run ins).held = some r) (hfixed : effBurst caps r.burst = BURST_FIXED) :
    ((sys caps aw).run ins).b.offset = 0 := by
  have hinv := b2b_invariant caps aw haw ins hlegal
  unfold SysInv at hinv
  rw [hheld] at hinv
  obtain ⟨_, _, hb⟩ := hinv
  rw [hb, hfixed]
  exact specOff_fixed r ((sys caps aw).run ins).b.count

/-- `b2b_no_bubble`: in every cycle of such a run a beat is handed over iff a request is being driven and
    `ax_beat.ready` is high — the module inserts no idle cycles, so a burst needs exactly `len+1` ready cycles. -/
theorem b2b_no_bubble (caps : Caps) (aw : Nat) (haw : 12 ≤ aw) (ins : List SysIn) (i : SysIn)
    (hlegal : ∀ r ∈ sysOffered caps aw sysInit ins, Legal aw r (effBurst caps r.burst)) :
    let s := (sys caps aw).run ins
    sysBeatNow aw s i ≠ [] ↔ ((s.drive i).valid = true ∧ i.ready = true) := by
  intro s
  have hbv := beatValid_eq_valid caps aw s i (b2b_invariant caps aw haw ins hlegal)
  unfold sysBeatNow
  simp only [hbv]
  cases (s.drive i).valid <;> cases i.ready <;> simp

/-- `b2b_addr_exact`: when the start address is aligned to the transfer size (always the case for a legal WRAP
    burst) or the effective type is FIXED, the beat address equals the A3.4.1 address bit for bit, not only at
    transfer-size granularity.  (For an unaligned INCR start the module keeps the low address bits on every beat,
    where A3.4.1 aligns beats 2…: same container, see the example below.) -/
theorem b2b_addr_exact (caps : Caps) (aw : Nat) (haw : 12 ≤ aw) (ins : List SysIn) (i : SysIn)
    (hlegal : ∀ r ∈ sysOffered caps aw sysInit (ins ++ [i]), Legal aw r (effBurst caps r.burst)) :
    let s := (sys caps aw).run ins
    let r := (s.drive i).req
    (s.drive i).valid = true →
    (r.addr % numBytes r.size = 0 ∨ effBurst caps r.burst = BURST_FIXED) →
    (sysOut aw s i).beat.addr = axiSpecAddr r.addr r.len r.size (effBurst caps r.burst) s.b.count := by
  intro s r hv hal
  have happ := sysOffered_snoc caps aw i ins sysInit
  have hl1 : ∀ r ∈ sysOffered caps aw sysInit ins, Legal aw r (effBurst caps r.burst) :=
    fun r hr => hlegal r (by rw [happ]; simp [hr])
  have hl2 : ∀ r ∈ sysOfferNow s i, Legal aw r (effBurst caps r.burst) :=
    fun r hr => hlegal r (by rw [happ]; exact List.mem_append_right _ hr)
  obtain ⟨hleg, hk, hb, _⟩ := drive_inv caps aw s i (b2b_invariant caps aw haw ins hl1) hl2 hv
  have hx := (beat_step caps aw haw r s.b.count hleg hk).addr_exact hal
  show beatAddr aw r s.b = _
  rw [← hx]
  conv => lhs; rw [hb]

/-- Unaligned INCR start: beat 1 of INCR(addr 0x15, len 1, size 2) is presented at 0x19; A3.4.1 says 0x18 — the
    same 4-byte container (index 6), which is all the property (and `b2b_beats`) demands. -/
example :
    let n : Req := ⟨0x15, 1, 2, BURST_INCR, 0⟩
    let s := (sys Caps.all 12).run [⟨true, n, true⟩]
    (sysOut 12 s ⟨false, n, true⟩).beat.addr = 0x19 ∧ axiSpecAddr 0x15 1 2 BURST_INCR 1 = 0x18 ∧
    0x19 / numBytes 2 = 0x18 / numBytes 2 := by decide

/-! Non-vacuity: a WRAP burst of 4 × 4 bytes starting at 0x8 (not the window base) under a stalling consumer,
    followed by an INCR burst with an unaligned start; the model delivers 0x8, 0xC, 0x0, 0x4 and then containers
    5, 6 (addresses 0x15, 0x19 at 4-byte granularity). -/
example :
    let w : Req := ⟨0x8, 3, 2, BURST_WRAP, 1⟩
    let n : Req := ⟨0x15, 1, 2, BURST_INCR, 2⟩
    let ins : List SysIn := [⟨true, w, false⟩, ⟨false, n, true⟩, ⟨false, n, true⟩, ⟨true, n, false⟩, ⟨false, n, true⟩,
                             ⟨true, n, true⟩, ⟨true, n, true⟩, ⟨false, w, true⟩]
    (∀ r ∈ sysOffered Caps.all 12 sysInit ins, Legal 12 r (effBurst Caps.all r.burst)) ∧
    (sysBeats Caps.all 12 sysInit ins).map (·.addr) = [2, 3, 0, 1, 5, 6] ∧
    sysConsumed Caps.all 12 sysInit ins = [w, n] ∧
    (sysBeats Caps.all 12 sysInit ins).map (·.last) = [false, false, false, true, false, true] := by
  decide

/-! Why legality is a hypothesis: an *illegal* WRAP burst (3 transfers, start 0x3) ends with the mask test firing
    on its last beat, the later assignment overrides `beat_offset := 0`, and the stale offset −3 corrupts the next,
    perfectly legal, single-beat INCR burst at 0x10 (delivered at 0xD). -/
example :
    let bad : Req := ⟨0x3, 2, 0, BURST_WRAP, 0⟩
    let ok : Req := ⟨0x10, 0, 0, BURST_INCR, 0⟩
    let ins : List SysIn := [⟨true, bad, true⟩, ⟨false, bad, true⟩, ⟨false, bad, true⟩, ⟨true, ok, true⟩]
    ((sys Caps.all 12).run (ins.take 3)).b.offset = -3 ∧
    (sysBeats Caps.all 12 sysInit ins).getLast? = some ⟨0xD, true, true, 0⟩ ∧
    ¬ (sysBeats Caps.all 12 sysInit ins).getLast? = some ((specBeat ok BURST_INCR 0).atSize 0) := by
  decide

/-! ### Width converters: address-channel arithmetic -/

/-- `upconv_arith_partial`.  Full statement (false on the code): *for every legal burst the forwarded burst
    `(len >> k, size + k)` touches the same bytes in the same order.*  Proved under the code's own stated
    assumption: INCR, start aligned to the wide word, `len+1` a multiple of the ratio (and `size + k` representable).
    With `size = log2(dw_from/8)` this is exactly "full-width, wide-aligned, multiple of the ratio". -/
theorem upconv_arith_partial (k : Nat) (r : Req) (hb : r.burst = BURST_INCR) (hs : r.size + k < 8)
    (hal : r.addr % numBytes (r.size + k) = 0) (hmul : (r.len + 1) % 2 ^ k = 0) :
    burstBytes (upAx k r).addr (upAx k r).len (upAx k r).size (upAx k r).burst
      = burstBytes r.addr r.len r.size r.burst :=
  upAx_bytes k r hb hs hal hmul

/-- hypotheses satisfiable: 32 → 64, four beats at 0x20 become two. -/
example : burstBytes (upAx 1 ⟨0x20, 3, 2, BURST_INCR, 0⟩).addr (upAx 1 ⟨0x20, 3, 2, BURST_INCR, 0⟩).len
    (upAx 1 ⟨0x20, 3, 2, BURST_INCR, 0⟩).size BURST_INCR = List.range' 0x20 16 := by decide

/-- Negative witness (known finding C10-upconv-unaligned-single-beat): 32 → 64, one 4-byte beat at 0x4 is
    forwarded as `AW(0x4, len 0, size 3)`.  (The data path packs the beat into lane 0, see `wUp_first_beat_lane0`.) -/
example : upAx 1 ⟨0x4, 0, 2, BURST_INCR, 0⟩ = ⟨0x4, 0, 3, BURST_INCR, 0⟩ := by decide

/-- Negative witness, length not a multiple of the ratio: 32 → 64, three beats at 0x0 (12 bytes) are forwarded as
    two 8-byte beats (16 bytes). -/
example : ¬ burstBytes (upAx 1 ⟨0, 2, 2, BURST_INCR, 0⟩).addr (upAx 1 ⟨0, 2, 2, BURST_INCR, 0⟩).len
    (upAx 1 ⟨0, 2, 2, BURST_INCR, 0⟩).size BURST_INCR = burstBytes 0 2 2 BURST_INCR := by decide

/-- `downconv_arith_partial`.  Full statement (false on the code): *for every legal burst the forwarded burst
    touches the same bytes in the same order.*  Proved for full-width INCR bursts whose multiplied length still
    fits the 8-bit port: the narrow burst sweeps exactly the wide burst's containers (equal to the wide burst's own
    bytes when its start is aligned, `downconv_arith_aligned`). -/
theorem downconv_arith_partial (sf st : Nat) (r : Req) (hst : st ≤ sf) (hb : r.burst = BURST_INCR)
    (hs : r.size = sf) (hfit : (r.len + 1) * 2 ^ (sf - st) ≤ 256) :
    burstBytes (downAx sf st r).addr (downAx sf st r).len (downAx sf st r).size (downAx sf st r).burst
      = List.range' (alignedAddr r.addr sf) ((r.len + 1) * numBytes sf) :=
  downAx_bytes sf st r hst hb hs hfit

theorem downconv_arith_aligned (sf st : Nat) (r : Req) (hst : st ≤ sf) (hb : r.burst = BURST_INCR)
    (hs : r.size = sf) (hfit : (r.len + 1) * 2 ^ (sf - st) ≤ 256) (hal : r.addr % numBytes sf = 0) :
    burstBytes (downAx sf st r).addr (downAx sf st r).len (downAx sf st r).size (downAx sf st r).burst
      = burstBytes r.addr r.len r.size r.burst := by
  rw [downconv_arith_partial sf st r hst hb hs hfit, hb, hs, incr_bytes_aligned _ _ _ hal,
    alignedAddr_of_dvd (Nat.dvd_of_mod_eq_zero hal)]

/-- hypotheses satisfiable: 64 → 32, two 8-byte beats at 0x100 become four 4-byte beats. -/
example : downAx 3 2 ⟨0x100, 1, 3, BURST_INCR, 0⟩ = ⟨0x100, 3, 2, BURST_INCR, 0⟩ := by decide

/-- Negative witness (known finding C10-downconv-narrow-burst): 64 → 32, `len = 1, size = 2` (8 bytes) becomes
    `len = 3, size = 2` (16 bytes). -/
example : downAx 3 2 ⟨0x100, 1, 2, BURST_INCR, 0⟩ = ⟨0x100, 3, 2, BURST_INCR, 0⟩ ∧
    (burstBytes 0x100 1 2 BURST_INCR).length = 8 ∧ (burstBytes 0x100 3 2 BURST_INCR).length = 16 := by decide

/-- Negative witness (known finding C10-downconv-fixed-burst): a FIXED burst of two 8-byte beats (the same 8 bytes
    twice) becomes an INCR burst over 16 different bytes. -/
example : downAx 3 2 ⟨0x100, 1, 3, BURST_FIXED, 0⟩ = ⟨0x100, 3, 2, BURST_INCR, 0⟩ ∧
    burstBytes 0x100 1 3 BURST_FIXED = List.range' 0x100 8 ++ List.range' 0x100 8 ∧
    burstBytes 0x100 3 2 BURST_INCR = List.range' 0x100 16 := by decide

/-- Negative witness (known finding C10-downconv-len-overflow): 129 × 8 bytes need 258 narrow beats; the 8-bit
    length wraps to `len = 1`. -/
example : downAx 3 2 ⟨0, 128, 3, BURST_INCR, 0⟩ = ⟨0, 1, 2, BURST_INCR, 0⟩ := by decide

/-- `upconv_wrap_partial`: a WRAP burst whose start is aligned to the wide word and whose length is a multiple of
    the ratio is forwarded as a WRAP burst over the same bytes in the same order (same window, same start).
    (For `(len+1) = ratio` the forwarded "WRAP" has a single beat — the whole window.) -/
theorem upconv_wrap_partial (k : Nat) (r : Req) (hb : r.burst = BURST_WRAP) (hs : r.size + k < 8)
    (hal : r.addr % numBytes (r.size + k) = 0) (hmul : (r.len + 1) % 2 ^ k = 0) :
    burstBytes (upAx k r).addr (upAx k r).len (upAx k r).size (upAx k r).burst
      = burstBytes r.addr r.len r.size r.burst :=
  upAx_wrap_bytes k r hb hs hal hmul

/-- `downconv_wrap_partial`: a full-width WRAP burst (start aligned to the wide word, as WRAP legality demands) is
    forwarded as a WRAP burst of `(len+1)·ratio` narrow transfers over the same bytes in the same order, from any
    start inside the window.  The forwarded burst is a *legal* AXI WRAP only while `(len+1)·ratio ≤ 16`
    (known finding C10-downconv-len-overflow covers the rest, negative witness below). -/
theorem downconv_wrap_partial (sf st : Nat) (r : Req) (hst : st ≤ sf) (hb : r.burst = BURST_WRAP) (hs : r.size = sf)
    (hal : r.addr % numBytes sf = 0) (hfit : (r.len + 1) * 2 ^ (sf - st) ≤ 256) :
    burstBytes (downAx sf st r).addr (downAx sf st r).len (downAx sf st r).size (downAx sf st r).burst
      = burstBytes r.addr r.len r.size r.burst ∧
    (downAx sf st r).len + 1 = (r.len + 1) * 2 ^ (sf - st) :=
  downAx_wrap_bytes sf st r hst hb hs hal hfit

/-- hypotheses satisfiable, start above the window base: 64 → 32, WRAP 4 × 8 bytes from 0x1110 (window
    0x1100..0x111f) becomes WRAP 8 × 4 bytes: 0x1110..0x111f then 0x1100..0x110f. -/
example : downAx 3 2 ⟨0x1110, 3, 3, BURST_WRAP, 0⟩ = ⟨0x1110, 7, 2, BURST_WRAP, 0⟩ ∧
    burstBytes 0x1110 7 2 BURST_WRAP = List.range' 0x1110 16 ++ List.range' 0x1100 16 := by decide

/-- Negative witness for WRAP (region of C10-downconv-len-overflow): 16 × 8 bytes become a WRAP of 32 transfers,
    which AXI does not allow (2, 4, 8 or 16). -/
example : downAx 3 2 ⟨0x1108, 15, 3, BURST_WRAP, 0⟩ = ⟨0x1108, 31, 2, BURST_WRAP, 0⟩ ∧
    ¬ Legal 32 ⟨0x1108, 31, 2, BURST_WRAP, 0⟩ BURST_WRAP := by decide

/-- `downconv_single_partial`: a single transfer (INCR or FIXED, `len = 0`) at least as wide as the narrow bus —
    in particular every size strictly between the two bus widths — is forwarded as the `ratio` full-width narrow
    transfers of the wide word that contains it (the data path emits exactly these beats; strobes select the
    bytes). -/
theorem downconv_single_partial (sf st : Nat) (r : Req) (hst : st ≤ sf) (hk : sf - st ≤ 8)
    (hb : r.burst = BURST_INCR ∨ r.burst = BURST_FIXED) (hlen0 : r.len = 0) (hs1 : st ≤ r.size) :
    burstBytes (downAx sf st r).addr (downAx sf st r).len (downAx sf st r).size (downAx sf st r).burst
      = List.range' (alignedAddr r.addr sf) (numBytes sf) :=
  downAx_single_bytes sf st r hst hk hb hlen0 hs1

/-- hypotheses satisfiable: 128 → 32, one 8-byte transfer at 0x48 (size strictly between the bus widths). -/
example : downAx 4 2 ⟨0x48, 0, 3, BURST_INCR, 0⟩ = ⟨0x40, 3, 2, BURST_INCR, 0⟩ := by decide

/-- Negative witness (region of C10-downconv-narrow-burst, size below the narrow bus width): 64 → 32, one byte at
    0xec is forwarded as two 1-byte transfers at 0xe8, 0xe9 — byte 0xec is never addressed. -/
example : downAx 3 2 ⟨0xec, 0, 0, BURST_INCR, 0⟩ = ⟨0xe8, 1, 0, BURST_INCR, 0⟩ ∧
    burstBytes 0xe8 1 0 BURST_INCR = [0xe8, 0xe9] := by decide

/-! ### Width converters: data channels

  The W and R paths are `stream.StrideConverter`s; their model is the shared stream-converter model
  (`laneUp r = Stream.upConv r 0 ()`, `laneDown r = Stream.downConv r 0`, compared with the real W/R channels of
  `AXIUpConverter`/`AXIDownConverter` on every run).  A run is any `ins : List (In _)`: every valid/ready schedule. -/

/-- `w_beats_up` (W path of the up-converter, R path of the down-converter).  For every schedule and every narrow
    beat sequence: the words specified by greedy chunking of the accepted narrow beats (cut after `r` beats or
    after a beat with `last`; lanes = the beats in order, `last` = the closing beat's `last`) are exactly the wide
    beats delivered so far followed by the one waiting in the output register — none lost, duplicated or
    reordered.  (Same relation as C03's `upConv_token_rel`, instantiated at the AXI lane model.) -/
theorem w_beats_up (r : Nat) (hr : 0 < r) (ins : List (In (Nat × Unit))) :
    let e := laneUp r
    (chunks r (e.accepted e.init ins)).map (wordOf ()) =
      (e.delivered e.init ins).map upView ++ (e.runFrom e.init ins).inflight :=
  (rel_run_init (laneUp r) (upRel r ())
    ⟨by simp [Stream.upConv, UpState.inflight], by simp [Stream.upConv], by simpa [Stream.upConv] using hr,
     by simp [Stream.upConv], by simp [Stream.upConv], by simp [Stream.upConv]⟩
    (upConv_step r hr 0 ()) ins).1

/-- `w_up_burst`: what that chunking does to an AXI burst in the converter's supported region — `n·r` narrow beats
    whose only `last` is on the final one: only full words of `r` lanes, nothing left over, order kept, `n` wide
    beats, `last` on the final wide beat and on no other. -/
theorem w_up_burst (r n : Nat) (hr : 0 < r) (ts : List (Tok (Nat × Unit))) (t : Tok (Nat × Unit))
    (hno : ∀ x ∈ ts, x.last = false) (ht : t.last = true) (hlen : ts.length + 1 = n * r) :
    chunkRest r (ts ++ [t]) = [] ∧
    (chunks r (ts ++ [t])).flatten = ts ++ [t] ∧
    (∀ c ∈ chunks r (ts ++ [t]), c.length = r) ∧
    (chunks r (ts ++ [t])).length = n ∧
    ((chunks r (ts ++ [t])).map (wordOf ())).map (·.last) = List.replicate (n - 1) false ++ [true] := by
  obtain ⟨h1, h2, h3, h4, h5⟩ := burst_chunks r n hr ts t hno ht hlen
  refine ⟨h1, h2, h3, h4, ?_⟩
  rw [List.map_map]
  exact h5

/-- non-vacuity of `w_up_burst` and `w_beats_up`: ratio 2, a burst of four beats through a stalling consumer. -/
example :
    let e := laneUp 2
    let b (d : Nat) (l : Bool) : Tok (Nat × Unit) := ⟨(d, ()), false, l⟩
    let ins : List (In (Nat × Unit)) := [⟨true, b 1 false, true⟩, ⟨true, b 2 false, false⟩, ⟨true, b 3 false, false⟩,
      ⟨true, b 3 false, true⟩, ⟨true, b 4 true, true⟩, ⟨false, b 0 false, true⟩]
    e.accepted e.init ins = [b 1 false, b 2 false, b 3 false, b 4 true] ∧
    (e.delivered e.init ins).map upView = [⟨([1, 2], ()), false, false⟩, ⟨([3, 4], ()), false, true⟩] := by
  decide

/-- `wUp_first_beat_lane0` — negative witness for bursts outside the supported region (known finding
    C10-upconv-unaligned-single-beat): the data path never sees the address; a single beat (with `last`) is
    flushed in lane 0 — also when its address (0x4 on a 32 → 64 converter) names lane 1 — and the other lane keeps
    stale content. -/
example :
    let e := laneUp 2
    let ins : List (In (Nat × Unit)) := [⟨true, ⟨(0xdeadbeef, ()), false, true⟩, true⟩, ⟨false, ⟨(0, ()), false, false⟩, true⟩]
    (e.delivered e.init ins).map (·.data.lanes) = [[0xdeadbeef, 0]] := by
  decide

/-- `w_beats_down` (W path of the down-converter, R path of the up-converter).  Under the AXI/stream producer
    contract (a beat offered and not accepted is offered again unchanged — `Held`), for every schedule: the narrow
    beats delivered are all `r` lanes of every accepted wide beat, lane 0 first, in order, followed by the first
    `mux` lanes of the wide beat currently offered. -/
theorem w_beats_down (r : Nat) (hr : 0 < r) (ins : List (In (List Nat × Unit)))
    (hheld : (laneDown r).Held (laneDown r).init none ins) :
    let e := laneDown r
    e.delivered e.init ins =
      (e.accepted e.init ins).flatMap (splitTok r 0) ++
        downPart r 0 (e.runFrom e.init ins) (e.oblAfter e.init none ins) ∧
    e.runFrom e.init ins < r :=
  let h := rel_run_held_init (laneDown r) (downRel r 0)
    ⟨by simpa [Stream.downConv] using hr, by simp [Stream.downConv], by simp [downPart]⟩
    (fun s p a d i h hm => downConv_step r 0 s p a d i h hm) ins hheld
  ⟨h.2.2, h.1⟩

/-- `w_down_last`: a wide beat becomes exactly `r` narrow beats and `last` appears on the final one iff the wide
    beat carried `last` — so a burst of `n` wide beats with `last` on the final one is delivered as `n·r` narrow
    beats with `last` on the final one. -/
theorem w_down_last (r : Nat) (hr : 0 < r) (t : Tok (List Nat × Unit)) :
    (splitTok r 0 t).length = r ∧
    (splitTok r 0 t).map (·.last) = List.replicate (r - 1) false ++ [t.last] :=
  splitTok_last r hr 0 t

/-- non-vacuity of `w_beats_down`: ratio 2, two wide beats, consumer stalls once; the producer holds. -/
example :
    let e := laneDown 2
    let w (a b : Nat) (l : Bool) : Tok (List Nat × Unit) := ⟨([a, b], ()), false, l⟩
    let ins : List (In (List Nat × Unit)) := [⟨true, w 1 2 false, true⟩, ⟨true, w 1 2 false, false⟩,
      ⟨true, w 1 2 false, true⟩, ⟨true, w 3 4 true, true⟩, ⟨true, w 3 4 true, true⟩]
    e.Held e.init none ins ∧
    (e.delivered e.init ins).map (fun t => (t.data.1, t.last)) = [(1, false), (2, false), (3, false), (4, true)] := by
  refine ⟨?_, by decide⟩
  simp [Elem.Held, Elem.Meets, Elem.obl, Elem.out, Elem.step, Stream.downConv]

/-! ### AXIBurst2Beat and the 4 KB page -/

/-- `b2b_incr_stays_in_page`: every transfer address A3.4.1 prescribes for a legal INCR burst lies in the 4 KB page
    of the start address - together with `b2b_beats` (beats = the prescribed ones at size granularity) the module
    never leaves the page.  All sizes 0..7, i.e. every data width the AXI4 size field can express. -/
theorem b2b_incr_stays_in_page (aw : Nat) (r : Req) (hleg : Legal aw r BURST_INCR) (k : Nat) (hk : k ≤ r.len) :
    axiSpecAddr r.addr r.len r.size BURST_INCR k / 4096 = r.addr / 4096 := by
  obtain ⟨_, _, _, h4⟩ := hleg
  rw [if_pos rfl] at h4
  unfold axiSpecAddr
  rw [if_pos rfl]
  split
  · rfl
  · unfold alignedAddr at *
    generalize hn : numBytes r.size = n at *
    have hnpos : 0 < n := by rw [← hn]; exact Nat.two_pow_pos _
    have h1 : r.addr / n * n ≤ r.addr := Nat.div_mul_le_self _ _
    have h2 : r.addr < r.addr / n * n + n := by
      have := Nat.lt_div_mul_add (a := r.addr) hnpos; omega
    have h3 : k * n ≤ r.len * n := Nat.mul_le_mul_right _ hk
    rw [Nat.succ_mul] at h4
    generalize r.addr / n * n = al at *
    generalize k * n = kn at *
    generalize r.len * n = ln at *
    omega

/-- Beyond legality (a burst that would cross the page: 33 × 128 bytes): when the running offset reaches 4096 the
    13-bit signed register wraps to −4096 and the beat is presented 8 KB below where it belongs (0x1000 instead of
    0x3000) - the reason `Legal` (no 4 KB crossing) is a hypothesis of the b2b theorems. -/
example :
    let r : Req := ⟨0x2000, 32, 7, BURST_INCR, 0⟩
    (b2bNext Caps.all 16 ⟨31, 3968⟩ ⟨true, r, true⟩) = ⟨32, -4096⟩ ∧ beatAddr 16 r ⟨32, -4096⟩ = 0x1000 ∧
    axiSpecAddr 0x2000 32 7 BURST_INCR 32 = 0x3000 ∧ ¬ Legal 16 r BURST_INCR := by decide

/-! ### AXIBurst2Beat inside its users: the capability set -/

/-- `effBurst_eq_iff`: the module expands a burst of type FIXED/INCR/WRAP as that type **iff** the type is in the
    capability set it was built with (otherwise: as FIXED) - the dependence every user of the module inherits. -/
theorem effBurst_eq_iff (caps : Caps) (b : Nat) (hb : b = BURST_FIXED ∨ b = BURST_INCR ∨ b = BURST_WRAP) :
    effBurst caps b = b ↔ caps.serves b = true := by
  obtain ⟨i, w⟩ := caps
  rcases hb with rfl | rfl | rfl <;> cases i <;> cases w <;> decide

/-- `user_b2b_beats`: for an in-tree user of the module (`AXI2AXILite`, and `AXI2Wishbone` through it) with the
    capability set it passes (`userCaps`, compared with the real module on every run), every run in which the offered
    bursts are FIXED, INCR or WRAP and legal **for their own type** yields exactly the A3.4.1 beats of that type -
    `b2b_beats` with `effBurst` eliminated.  Full statement for ANY capability set is false: see the witness below;
    the hypothesis that makes it true is `caps.serves r.burst`, which `userCaps` satisfies for all three types. -/
theorem user_b2b_beats (user : String) (caps : Caps) (hu : userCaps user = some caps) (aw : Nat) (haw : 12 ≤ aw)
    (ins : List SysIn)
    (hlegal : ∀ r ∈ sysOffered caps aw sysInit ins,
      (r.burst = BURST_FIXED ∨ r.burst = BURST_INCR ∨ r.burst = BURST_WRAP) ∧ Legal aw r r.burst) :
    (∀ b, b = BURST_FIXED ∨ b = BURST_INCR ∨ b = BURST_WRAP → caps.serves b = true) ∧
    sysBeats caps aw sysInit ins
      = (sysConsumed caps aw sysInit ins).flatMap
          (fun r => (List.range (r.len + 1)).map fun j => (specBeat r r.burst j).atSize r.size)
        ++ sysPending caps ((sys caps aw).run ins) := by
  have hc : caps = Caps.all := by
    unfold userCaps at hu
    split at hu
    · exact (Option.some.inj hu).symm
    · cases hu
  subst hc
  have heff : ∀ b, b = BURST_FIXED ∨ b = BURST_INCR ∨ b = BURST_WRAP → effBurst Caps.all b = b := by
    intro b hb; rcases hb with rfl | rfl | rfl <;> decide
  refine ⟨by intro b hb; rcases hb with rfl | rfl | rfl <;> decide, ?_⟩
  have hl : ∀ r ∈ sysOffered Caps.all aw sysInit ins, Legal aw r (effBurst Caps.all r.burst) := by
    intro r hr
    obtain ⟨h1, h2⟩ := hlegal r hr
    rw [heff _ h1]; exact h2
  obtain ⟨h1, h2⟩ := b2b_beats Caps.all aw haw ins hl
  rw [h1]
  congr 1
  apply flatMap_congr'
  intro r hr
  have hro : r ∈ sysOffered Caps.all aw sysInit ins := by rw [h2]; exact List.mem_append_left _ hr
  unfold specBeatsC specPrefixC
  rw [heff _ (hlegal r hro).1]

/-- non-vacuity: the known users exist and serve all three types. -/
example : userCaps "axi2axilite" = some Caps.all ∧ userCaps "axi2wishbone" = some Caps.all ∧
    Caps.all.serves BURST_WRAP = true := by decide

/-- Negative witness for a reduced capability set (what a user built with `{FIXED, INCR}` would do): the legal WRAP
    burst of 4 × 4 bytes from 0x8 is expanded as FIXED - four beats at container 2 instead of 2, 3, 0, 1. -/
example :
    let caps : Caps := ⟨true, false⟩
    let w : Req := ⟨0x8, 3, 2, BURST_WRAP, 1⟩
    let ins : List SysIn := [⟨true, w, true⟩, ⟨false, w, true⟩, ⟨false, w, true⟩, ⟨false, w, true⟩]
    caps.serves BURST_WRAP = false ∧ Legal 12 w BURST_WRAP ∧
    (sysBeats caps 12 sysInit ins).map (·.addr) = [2, 2, 2, 2] ∧
    (List.range 4).map (fun j => ((specBeat w BURST_WRAP j).atSize 2).addr) = [2, 3, 0, 1] := by decide

/-! ### Width converters: boundary of the byte-preserving region, both sides -/

/-- The region in which `AXIUpConverter` is correct for INCR bursts, as a decidable predicate. -/
def UpRegion (k : Nat) (r : Req) : Prop :=
  r.burst = BURST_INCR ∧ r.size + k < 8 ∧ r.addr % numBytes (r.size + k) = 0 ∧ (r.len + 1) % 2 ^ k = 0

instance (k : Nat) (r : Req) : Decidable (UpRegion k r) := by unfold UpRegion; infer_instance

/-- Outside, along the length axis (witness FAMILY, every ratio, every such burst): an aligned INCR burst whose
    length is not a multiple of the ratio is forwarded as a burst over strictly more bytes. -/
theorem upconv_len_not_multiple_neg (k : Nat) (r : Req) (hb : r.burst = BURST_INCR) (hs : r.size + k < 8)
    (hal : r.addr % numBytes (r.size + k) = 0) (hmul : (r.len + 1) % 2 ^ k ≠ 0) :
    (burstBytes r.addr r.len r.size r.burst).length
      < (burstBytes (upAx k r).addr (upAx k r).len (upAx k r).size (upAx k r).burst).length := by
  have hal2 : r.addr % numBytes r.size = 0 := by
    have : numBytes r.size ∣ numBytes (r.size + k) := by
      unfold numBytes; exact Nat.pow_dvd_pow 2 (Nat.le_add_right _ _)
    exact Nat.mod_eq_zero_of_dvd (Nat.dvd_trans this (Nat.dvd_of_mod_eq_zero hal))
  have hsz : (r.size + k) % 8 = r.size + k := Nat.mod_eq_of_lt hs
  simp only [upAx, hb, hsz]
  rw [incr_bytes_aligned _ _ _ hal, incr_bytes_aligned _ _ _ hal2, List.length_range', List.length_range']
  unfold numBytes
  rw [Nat.pow_add, ← Nat.mul_assoc, Nat.mul_right_comm]
  apply Nat.mul_lt_mul_of_pos_right _ (Nat.two_pow_pos _)
  rw [Nat.mul_comm _ (2 ^ k)]
  have hpos : 0 < 2 ^ k := Nat.two_pow_pos k
  have h1 := Nat.div_add_mod r.len (2 ^ k)
  have h2 := Nat.mod_lt r.len hpos
  have hne : r.len % 2 ^ k + 1 ≠ 2 ^ k := by
    intro h
    apply hmul
    have : r.len + 1 = 2 ^ k * (r.len / 2 ^ k + 1) := by rw [Nat.mul_add]; omega
    rw [this]; exact Nat.mul_mod_right _ _
  rw [Nat.mul_add]
  omega

/-- Outside, along the alignment axis: concrete witness at byte level (known finding
    C10-upconv-unaligned-single-beat; address channel + data path together): the single strobed beat at 0x4 reaches
    no byte 4..7 on the wide side. -/
example :
    let w : BWord := [(0xef, true), (0xbe, true), (0xad, true), (0xde, true)]
    let r : Req := ⟨0x4, 0, 2, BURST_INCR, 0⟩
    ¬ UpRegion 1 r ∧
    burstWrites 4 r [w] = [(4, 0xef), (5, 0xbe), (6, 0xad), (7, 0xde)] ∧
    burstWrites 8 (upAx 1 r) (upWords 2 [w]) = [] := by decide

/-- Outside, along the size axis (narrow-size burst; region of the same known finding, "not full-width"): 32 → 64,
    two 2-byte beats at 0x0 (bytes 0-1 on lanes 0-1, bytes 2-3 on lanes 2-3 of the 32-bit bus).  The address channel
    is translated correctly (`AW(0x0, len 0, size 2)`: the same 4 bytes), but the data path packs whole 32-bit words:
    bytes 2-3 land in lanes 6-7 of the wide word, outside the forwarded transfer - they are never written. -/
example :
    let w0 : BWord := [(0xa, true), (0xb, true), (0, false), (0, false)]
    let w1 : BWord := [(0, false), (0, false), (0xc, true), (0xd, true)]
    let r : Req := ⟨0x0, 1, 1, BURST_INCR, 0⟩
    UpRegion 1 r ∧ burstBytes 0 0 2 BURST_INCR = burstBytes 0 1 1 BURST_INCR ∧
    burstWrites 4 r [w0, w1] = [(0, 0xa), (1, 0xb), (2, 0xc), (3, 0xd)] ∧
    burstWrites 8 (upAx 1 r) (upWords 2 [w0, w1]) = [(0, 0xa), (1, 0xb)] := by decide

/-- Down-converter, outside along the length axis (witness FAMILY; known finding C10-downconv-len-overflow): whenever
    `(len+1)·ratio` exceeds 256 the forwarded burst has fewer beats than the `ratio` narrow beats per wide beat the
    data path emits. -/
theorem downconv_len_overflow_neg (sf st : Nat) (r : Req) (hover : 256 < (r.len + 1) * 2 ^ (sf - st)) :
    (downAx sf st r).len + 1 < (r.len + 1) * 2 ^ (sf - st) := by
  have : ((r.len + 1) * 2 ^ (sf - st) - 1) % 256 < 256 := Nat.mod_lt _ (by decide)
  simp only [downAx]
  omega

/-! ### Width converters end to end: byte lanes, strobes, memory -/

/-- `incr_burst_byte_stream`: on a `2^size`-byte bus the ordered byte writes of a full-width INCR burst (any start
    address) are the bytes of all its data words, laid out consecutively from the start address, beginning with lane
    `addr mod bus` of the first word; strobed-off lanes are skipped.  (Cutting the byte stream into beats
    differently cannot change it - the reason both converters are byte-preserving.) -/
theorem incr_burst_byte_stream (r : Req) (words : List BWord) (hb : r.burst = BURST_INCR)
    (hlen : words.length = r.len + 1) (hw : ∀ w ∈ words, w.length = numBytes r.size) :
    burstWrites (numBytes r.size) r words = laneWrites r.addr (words.flatten.drop (r.addr % numBytes r.size)) :=
  incr_burstWrites (numBytes r.size) r words hb rfl hlen hw

/-- `upconv_lane_placement` (every ratio `R > 0`, by induction over the groups): a burst of `n·R` narrow beats,
    written as `W.flatten` with `W` the beats grouped `R` at a time, leaves the `_UpConverter` as the `n` wide
    words `W.map flatten`: narrow beat `m·R + q` sits in byte lanes `q·nb … q·nb + nb − 1` of wide word `m`, data
    and strobes alike, nothing left over. -/
theorem upconv_lane_placement (R : Nat) (hR : 0 < R) (W : List (List BWord)) (hne : W ≠ [])
    (hg : ∀ g ∈ W, g.length = R) : upWords R W.flatten = W.map List.flatten :=
  upWords_groups R hR W hne hg

/-- `downconv_lane_placement`: the `_DownConverter` emits lane groups `0 … R−1` of every wide word in order. -/
theorem downconv_lane_placement (nb R : Nat) (W : List (List BWord)) (hg : ∀ g ∈ W, g.length = R)
    (hw : ∀ g ∈ W, ∀ w ∈ g, w.length = nb) : downWords nb R (W.map List.flatten) = W.flatten :=
  downWords_groups nb R W hg hw

/-- `upconv_write_e2e_partial`.  Full statement (false on the code, see the witnesses above): *every legal write
    burst through AXIUpConverter commits the same bytes in the same order.*  Proved inside `UpRegion` for every
    ratio `2^k`, every size, every data and strobe pattern: the forwarded address channel `upAx k r` together with
    the wide words the data path produces commits exactly the ordered byte writes of the original burst - hence any
    reference memory ends in the same state (refinement). -/
theorem upconv_write_e2e_partial (k : Nat) (r : Req) (W : List (List BWord)) (hreg : UpRegion k r)
    (hW : W.length * 2 ^ k = r.len + 1) (hg : ∀ g ∈ W, g.length = 2 ^ k)
    (hw : ∀ g ∈ W, ∀ w ∈ g, w.length = numBytes r.size) :
    burstWrites (numBytes (r.size + k)) (upAx k r) (upWords (2 ^ k) W.flatten)
      = burstWrites (numBytes r.size) r W.flatten ∧
    ∀ mem, memApply mem (burstWrites (numBytes (r.size + k)) (upAx k r) (upWords (2 ^ k) W.flatten))
      = memApply mem (burstWrites (numBytes r.size) r W.flatten) := by
  obtain ⟨hb, hs, hal, _⟩ := hreg
  have hne : W ≠ [] := by
    intro h; subst h; simp at hW
  have h := up_burstWrites k r W hb hs hal hW hg hw
  rw [upWords_groups (2 ^ k) (Nat.two_pow_pos k) W hne hg]
  exact ⟨h, fun mem => by rw [h]⟩

/-- non-vacuity: 16 → 32 bit, two strobed-partially beats at 0x10 become one wide word; bytes in order. -/
example :
    let W : List (List BWord) := [[[(1, true), (2, false)], [(3, true), (4, true)]]]
    let r : Req := ⟨0x10, 1, 1, BURST_INCR, 0⟩
    UpRegion 1 r ∧ upWords 2 W.flatten = [[(1, true), (2, false), (3, true), (4, true)]] ∧
    burstWrites 4 (upAx 1 r) (upWords 2 W.flatten) = [(0x10, 1), (0x12, 3), (0x13, 4)] := by decide

/-- `downconv_write_e2e_partial`: full-width INCR bursts with `(len+1)·ratio ≤ 256`, ANY start address inside the
    first wide word (the forwarded burst starts at the aligned address; the master's strobes below the start address
    are low, A3.4.3): the forwarded burst with the narrow beats the data path emits commits the same ordered byte
    writes; any reference memory ends in the same state. -/
theorem downconv_write_e2e_partial (sf st : Nat) (r : Req) (W : List (List BWord)) (hst : st ≤ sf)
    (hb : r.burst = BURST_INCR) (hs : r.size = sf) (hfit : (r.len + 1) * 2 ^ (sf - st) ≤ 256)
    (hW : W.length = r.len + 1) (hg : ∀ g ∈ W, g.length = 2 ^ (sf - st))
    (hw : ∀ g ∈ W, ∀ w ∈ g, w.length = numBytes st)
    (hstrb : ∀ x ∈ W.flatten.flatten.take (r.addr % numBytes sf), x.2 = false) :
    burstWrites (numBytes st) (downAx sf st r) (downWords (numBytes st) (2 ^ (sf - st)) (W.map List.flatten))
      = burstWrites (numBytes sf) r (W.map List.flatten) ∧
    ∀ mem, memApply mem (burstWrites (numBytes st) (downAx sf st r)
        (downWords (numBytes st) (2 ^ (sf - st)) (W.map List.flatten)))
      = memApply mem (burstWrites (numBytes sf) r (W.map List.flatten)) := by
  have h := down_burstWrites sf st r W hst hb hs hfit hW hg hw hstrb
  rw [downWords_groups (numBytes st) (2 ^ (sf - st)) W hg hw]
  exact ⟨h, fun mem => by rw [h]⟩

/-- non-vacuity, unaligned start: 32 → 16 bit, one 4-byte beat at 0x11 (lane 0 not strobed). -/
example :
    let W : List (List BWord) := [[[(9, false), (2, true)], [(3, true), (4, true)]]]
    let r : Req := ⟨0x11, 0, 2, BURST_INCR, 0⟩
    downAx 2 1 r = ⟨0x10, 1, 1, BURST_INCR, 0⟩ ∧
    burstWrites 2 (downAx 2 1 r) (downWords 2 2 (W.map List.flatten)) = [(0x11, 2), (0x12, 3), (0x13, 4)] ∧
    burstWrites 4 r (W.map List.flatten) = [(0x11, 2), (0x12, 3), (0x13, 4)] := by decide

/-- Why the strobe hypothesis: a master that (illegally) strobes a lane below the start address gets that byte
    written by the forwarded burst although its own burst does not cover it. -/
example :
    let W : List (List BWord) := [[[(9, true), (2, true)], [(3, true), (4, true)]]]
    let r : Req := ⟨0x11, 0, 2, BURST_INCR, 0⟩
    burstWrites 2 (downAx 2 1 r) (downWords 2 2 (W.map List.flatten)) = [(0x10, 9), (0x11, 2), (0x12, 3), (0x13, 4)] ∧
    burstWrites 4 r (W.map List.flatten) = [(0x11, 2), (0x12, 3), (0x13, 4)] := by decide

/-- `upconv_read_e2e_partial`: read data through AXIUpConverter inside `UpRegion`: the narrow R beats the master
    receives (the `_DownConverter`'s output for the wide R beats of the forwarded burst) deliver, byte address by
    byte address and in order, what the wide beats carry for the forwarded burst. -/
theorem upconv_read_e2e_partial (k : Nat) (r : Req) (W : List (List BWord)) (hreg : UpRegion k r)
    (hW : W.length * 2 ^ k = r.len + 1) (hg : ∀ g ∈ W, g.length = 2 ^ k)
    (hw : ∀ g ∈ W, ∀ w ∈ g, w.length = numBytes r.size) :
    burstReads (numBytes r.size) r (downWords (numBytes r.size) (2 ^ k) (W.map List.flatten))
      = burstReads (numBytes (r.size + k)) (upAx k r) (W.map List.flatten) := by
  obtain ⟨hb, hs, hal, _⟩ := hreg
  rw [downWords_groups (numBytes r.size) (2 ^ k) W hg hw]
  exact up_burstReads k r W hb hs hal hW hg hw

/-! ### Width converters: side-bands (resp / id / user / dest) -/

/-- `downR_sideband_unstalled_partial`.  Full statement (false on the code): *every wide R beat of AXIDownConverter
    carries resp/id/user/dest of the narrow beat that completed it.*  Proved for every run in which the master
    takes each wide beat in the first cycle it is offered (`NoStall`): in every cycle the ports of the code's model
    (side-band register loaded on EVERY clock edge) equal those of the ideal converter that latches the side-band
    together with the sub-word (`Stream.upConv` with the side-band as `param`). -/
theorem downR_sideband_unstalled_partial (ratio : Nat) (xs : List (SideIn (Nat × Unit))) (x : SideIn (Nat × Unit))
    (hns : NoStall ratio (sideRegInit ratio) (xs ++ [x])) :
    let o := sideRegOut ratio ((sideReg ratio).run xs) x
    let o' := (sideIdeal ratio).out ((sideIdeal ratio).runFrom (sideIdeal ratio).init (xs.map SideIn.ideal)) x.ideal
    o.1.ready = o'.ready ∧ o.1.valid = o'.valid ∧ o.1.tok.first = o'.tok.first ∧ o.1.tok.last = o'.tok.last ∧
    o.1.tok.data.lanes = o'.tok.data.lanes ∧ o.1.tok.data.count = o'.tok.data.count ∧
    (o.1.valid = true → o.2 = o'.tok.data.param) := by
  obtain ⟨h1, _⟩ := noStall_append ratio xs [x] (sideRegInit ratio) hns
  exact sideSim_out ratio _ _ x (sideSim_run ratio xs _ _ (sideSim_init ratio) h1)

/-- `sideIdeal_words`: what that ideal delivers (every schedule): the greedy chunks of the accepted narrow beats, each
    word with the side-band of its LAST sub-word (`wordOf`: `param` of the closing beat). -/
theorem sideIdeal_words (ratio : Nat) (hr : 0 < ratio) (ins : List (In (Nat × SB))) :
    let e := sideIdeal ratio
    (chunks ratio (e.accepted e.init ins)).map (wordOf SB.zero) =
      (e.delivered e.init ins).map upView ++ (e.runFrom e.init ins).inflight :=
  (rel_run_init (sideIdeal ratio) (upRel ratio SB.zero)
    ⟨by simp [Stream.upConv, UpState.inflight], by simp [Stream.upConv], by simpa [Stream.upConv] using hr,
     by simp [Stream.upConv], by simp [Stream.upConv], by simp [Stream.upConv]⟩
    (upConv_step ratio hr 0 SB.zero) ins).1

/-- Response merging: the word takes the resp of the closing beat - NOT the worst one: SLVERR (2) on the first of two
    narrow beats is dropped, the wide beat reports OKAY.  (Behaviour of the code even without any stall; outside
    the C10 statement, reported as an observation.) -/
example :
    wordOf SB.zero [⟨(0xaa, (⟨2, 1, 0, 0⟩ : SB)), false, false⟩, ⟨(0xbb, ⟨0, 1, 0, 0⟩), false, true⟩]
      = ⟨([0xaa, 0xbb], ⟨0, 1, 0, 0⟩), false, true⟩ := by decide

/-- non-vacuity of `downR_sideband_unstalled_partial`: ratio 2, two bursts with ids 1 and 2, never stalled. -/
example :
    let b (v : Bool) (d id : Nat) (l r : Bool) : SideIn (Nat × Unit) := ⟨⟨v, ⟨(d, ()), false, l⟩, r⟩, ⟨0, id, 0, 0⟩⟩
    let xs := [b true 1 1 false true, b true 2 1 true true, b true 3 2 false true, b true 4 2 true true,
               b false 0 3 false true]
    NoStall 2 (sideRegInit 2) xs ∧
    ((sideReg 2).trace xs).map (fun o => (o.1.valid, o.2.id)) = [(false, 0), (false, 1), (true, 1), (false, 2), (true, 2)] := by
  decide

/-- Negative witness (stall): ratio 2, the wide beat completed by a beat with id 1 is offered in cycle 2 and stalled;
    the narrow side already presents the next burst (id 2, not accepted: `sink.ready = 0`); in cycle 3 the SAME
    wide beat (same lanes, still valid) is offered - and taken - with id 2.  resp/user/dest behave alike. -/
example :
    let b (v : Bool) (d id : Nat) (l r : Bool) : SideIn (Nat × Unit) := ⟨⟨v, ⟨(d, ()), false, l⟩, r⟩, ⟨0, id, 0, 0⟩⟩
    let xs := [b true 1 1 false true, b true 2 1 true true, b true 3 2 false false, b true 3 2 false true]
    ¬ NoStall 2 (sideRegInit 2) xs ∧
    ((sideReg 2).trace xs).map (fun o => (o.1.ready, o.1.valid, o.1.tok.data.lanes, o.2.id))
      = [(true, false, [0, 0], 0), (true, false, [1, 0], 1), (false, true, [1, 2], 1), (true, true, [1, 2], 2)] := by
  decide

/-- `sideband_comb_down` (W path of AXIDownConverter, R path of AXIUpConverter): data and side-band are both
    combinational - every narrow beat offered carries the side-band of the wide beat on the sink, in every state
    and cycle. -/
theorem sideband_comb_down (ratio : Nat) (mux : Nat) (x : SideIn (List Nat × Unit)) :
    (sideCombDownOut ratio mux x).2 = x.sb ∧ (sideCombDownOut ratio mux x).1 = (laneDown ratio).out mux x.i :=
  ⟨rfl, rfl⟩

/-- W path of AXIUpConverter: id/dest/user are wires while the data goes through the 1-cycle `_UpConverter`: the wide
    W beat is offered with whatever the narrow side drives in THAT cycle, not with the side-band of its own beats
    (here: beats sent with user 1, wide beat offered with user 0).  AXI4 has no WID; WUSER is optional - outside the
    C10 statement, reported as an observation. -/
example :
    let b (v : Bool) (d user : Nat) (l : Bool) : SideIn (Nat × Unit) := ⟨⟨v, ⟨(d, ()), false, l⟩, true⟩, ⟨0, 0, user, 0⟩⟩
    let xs := [b true 1 1 false, b true 2 1 true, b false 0 0 false]
    ((sideCombUp 2).trace xs).map (fun o => (o.1.valid, o.1.tok.data.lanes, o.2.user))
      = [(false, [0, 0], 1), (false, [1, 0], 1), (true, [1, 2], 0)] := by
  decide

end Litex.C10
