import LitexModel.Ecc.Geometry
/-
  C18 — geometry of the SECDED code: the Python loops of `ecc.py` (modelled with fuel in
  `LitexModel/Ecc/Geometry.lean`) never run out of fuel and equal their closed forms, for every `k` / `n`.
-/
namespace Litex.Ecc

/-! ### `compute_m_n` -/

theorem two_mul_le_two_pow (m : Nat) (h : 1 ≤ m) : 2 * m ≤ 2 ^ m := by
  obtain ⟨a, rfl⟩ : ∃ a, m = a + 1 := ⟨m - 1, by omega⟩
  have := @Nat.lt_two_pow_self a
  rw [Nat.pow_succ]; omega

theorem computeMLoop_spec (k : Nat) : ∀ fuel m, 1 ≤ m → k + 2 ≤ m + fuel →
    (∀ m', 1 ≤ m' → m' < m → 2 ^ m' < m' + k + 1) →
    m ≤ computeMLoop k fuel m ∧ computeMLoop k fuel m + k + 1 ≤ 2 ^ computeMLoop k fuel m ∧
      ∀ m', 1 ≤ m' → m' < computeMLoop k fuel m → 2 ^ m' < m' + k + 1 := by
  intro fuel
  induction fuel with
  | zero =>
    intro m hm hf hinv
    simp only [computeMLoop]
    refine ⟨Nat.le_refl _, ?_, hinv⟩
    have := two_mul_le_two_pow m hm
    omega
  | succ fuel ih =>
    intro m hm hf hinv
    simp only [computeMLoop]
    split
    · next hlt =>
      have := ih (m + 1) (by omega) (by omega) (by
        intro m' h1 h2
        by_cases h : m' = m
        · subst h; exact hlt
        · exact hinv m' h1 (by omega))
      exact ⟨by omega, this.2⟩
    · next hge => exact ⟨Nat.le_refl _, by omega, hinv⟩

/-- `compute_m_n` returns the least `m ≥ 1` with `2^m ≥ m + k + 1` (the `while` loop leaves through its test). -/
theorem computeM_spec (k : Nat) :
    1 ≤ computeM k ∧ computeM k + k + 1 ≤ 2 ^ computeM k ∧
      ∀ m', 1 ≤ m' → m' < computeM k → 2 ^ m' < m' + k + 1 := by
  have := computeMLoop_spec k (k + 1) 1 (Nat.le_refl _) (by omega) (by intro m' h1 h2; omega)
  exact this

theorem computeN_lt (k : Nat) : computeN k < 2 ^ computeM k := by
  have := (computeM_spec k).2.1
  unfold computeN; omega

theorem two_le_computeM (k : Nat) (hk : 1 ≤ k) : 2 ≤ computeM k := by
  have h := computeM_spec k
  by_cases h1 : computeM k = 1
  · have := h.2.1; rw [h1] at this; omega
  · omega

theorem half_le_computeN (k : Nat) (hk : 1 ≤ k) : 2 ^ (computeM k - 1) ≤ computeN k := by
  have h := computeM_spec k
  have h2 := two_le_computeM k hk
  have := h.2.2 (computeM k - 1) (by omega) (by omega)
  unfold computeN; omega

/-! ### `compute_syndrome_positions` -/

theorem synLoop_eq (n : Nat) : ∀ c fuel a, c ≤ fuel → (∀ j, j < c → 2 ^ (a + j) ≤ n) → n < 2 ^ (a + c) →
    synLoop n fuel (2 ^ a) = (List.range' a c).map (2 ^ ·) := by
  intro c
  induction c with
  | zero =>
    intro fuel a _ _ hn
    cases fuel with
    | zero => simp [synLoop]
    | succ f =>
      have : ¬ 2 ^ a ≤ n := by simpa using hn
      simp [synLoop, this]
  | succ c ih =>
    intro fuel a hf hle hn
    cases fuel with
    | zero => omega
    | succ f =>
      have h0 : 2 ^ a ≤ n := by simpa using hle 0 (by omega)
      have hs : 2 ^ a <<< 1 = 2 ^ (a + 1) := by simp [Nat.shiftLeft_eq, Nat.pow_succ]
      simp only [synLoop, h0, if_true, hs, List.range'_succ, List.map_cons]
      congr 1
      apply ih f (a + 1) (by omega)
      · intro j hj
        have := hle (j + 1) (by omega)
        rwa [show a + 1 + j = a + (j + 1) by omega]
      · rwa [show a + 1 + c = a + (c + 1) by omega]

/-- Closed form: the check-bit positions are the powers of two `2^0 … 2^(L-1)`, `L` = number of powers `≤ n`. -/
theorem syndromePositions_eq (n L : Nat) (h1 : ∀ j, j < L → 2 ^ j ≤ n) (h2 : n < 2 ^ L) :
    syndromePositions n = (List.range L).map (2 ^ ·) := by
  have hL : L ≤ n + 1 := by
    cases L with
    | zero => omega
    | succ l =>
      have := h1 l (by omega)
      have := @Nat.lt_two_pow_self l
      omega
  have := synLoop_eq n L (n + 1) 0 hL (by simpa using h1) (by simpa using h2)
  simpa [syndromePositions, List.range_eq_range'] using this

/-- Number of powers of two `≤ n`. -/
def numCheck (n : Nat) : Nat := if n = 0 then 0 else n.log2 + 1

theorem numCheck_spec (n : Nat) : (∀ j, j < numCheck n → 2 ^ j ≤ n) ∧ n < 2 ^ numCheck n := by
  unfold numCheck
  split
  · next h => subst h; simp
  · next h =>
    refine ⟨fun j hj => ?_, (Nat.log2_lt h).1 (by omega)⟩
    have h1 : 2 ^ n.log2 ≤ n := Nat.log2_self_le h
    have h2 : 2 ^ j ≤ 2 ^ n.log2 := Nat.pow_le_pow_right (by omega) (by omega)
    omega

theorem syndromePositions_closed (n : Nat) : syndromePositions n = (List.range (numCheck n)).map (2 ^ ·) :=
  syndromePositions_eq n _ (numCheck_spec n).1 (numCheck_spec n).2

theorem numCheck_unique (n L : Nat) (h1 : ∀ j, j < L → 2 ^ j ≤ n) (h2 : n < 2 ^ L) : numCheck n = L := by
  have a := syndromePositions_eq n L h1 h2
  have b := syndromePositions_closed n
  have := congrArg List.length (a.symm.trans b)
  simpa using this.symm

/-- For the code length chosen by `compute_m_n`, there are exactly `m` check positions. -/
theorem numCheck_computeN (k : Nat) (hk : 1 ≤ k) : numCheck (computeN k) = computeM k := by
  apply numCheck_unique
  · intro j hj
    have h1 := half_le_computeN k hk
    have h2 : 2 ^ j ≤ 2 ^ (computeM k - 1) := Nat.pow_le_pow_right (by omega) (by omega)
    omega
  · exact computeN_lt k

theorem syndromePositions_length (n : Nat) : (syndromePositions n).length = numCheck n := by
  simp [syndromePositions_closed]

theorem mem_syndromePositions {n q : Nat} : q ∈ syndromePositions n ↔ q ≤ n ∧ ∃ j, q = 2 ^ j := by
  rw [syndromePositions_closed]
  simp only [List.mem_map, List.mem_range]
  constructor
  · rintro ⟨j, hj, rfl⟩
    exact ⟨(numCheck_spec n).1 j hj, j, rfl⟩
  · rintro ⟨hq, j, rfl⟩
    refine ⟨j, ?_, rfl⟩
    have := (numCheck_spec n).2
    exact (Nat.pow_lt_pow_iff_right (by omega : 1 < 2)).1 (by omega)

theorem syndromePositions_getElem? (n i : Nat) (hi : i < numCheck n) : (syndromePositions n)[i]? = some (2 ^ i) := by
  rw [syndromePositions_closed]
  simp [hi]

theorem syndromePositions_nodup (n : Nat) : (syndromePositions n).Nodup := by
  rw [syndromePositions_closed]
  refine List.pairwise_map.2 (List.nodup_range.imp ?_)
  intro a b hab h
  exact hab ((Nat.pow_right_inj (by omega : 1 < 2)).1 h)

/-! ### `compute_data_positions` -/

/-- The data positions are exactly the positions `1..n` that are not powers of two … -/
theorem mem_dataPositions {n q : Nat} : q ∈ dataPositions n ↔ 1 ≤ q ∧ q ≤ n ∧ ∀ j, q ≠ 2 ^ j := by
  unfold dataPositions
  simp only [List.mem_filter, List.mem_range'_1, Bool.not_eq_true', ← Bool.not_eq_true,
    List.contains_iff_mem, mem_syndromePositions]
  constructor
  · rintro ⟨⟨h1, h2⟩, h3⟩
    refine ⟨h1, by omega, fun j hj => h3 ⟨by omega, j, hj⟩⟩
  · rintro ⟨h1, h2, h3⟩
    exact ⟨⟨h1, by omega⟩, fun ⟨_, j, hj⟩ => h3 j hj⟩

/-- … listed in increasing order … -/
theorem dataPositions_sorted (n : Nat) : (dataPositions n).Pairwise (· < ·) :=
  List.Pairwise.filter _ (List.pairwise_lt_range' 1)

theorem dataPositions_nodup (n : Nat) : (dataPositions n).Nodup :=
  (dataPositions_sorted n).imp (fun h => Nat.ne_of_lt h)

/-- … and there are `n - (number of check positions)` of them. -/
theorem dataPositions_length (n : Nat) : (dataPositions n).length = n - numCheck n := by
  have hsplit := List.length_eq_countP_add_countP (fun i => (syndromePositions n).contains i) (l := List.range' 1 n)
  rw [List.countP_eq_length_filter, List.countP_eq_length_filter] at hsplit
  have hperm : ((List.range' 1 n).filter fun i => (syndromePositions n).contains i).Perm (syndromePositions n) := by
    rw [List.perm_ext_iff_of_nodup ((List.nodup_range' 1).filter _) (syndromePositions_nodup n)]
    intro a
    simp only [List.mem_filter, List.mem_range'_1, List.contains_iff_mem]
    constructor
    · exact fun h => h.2
    · intro h
      have := mem_syndromePositions.1 h
      obtain ⟨h1, j, rfl⟩ := this
      have : 0 < 2 ^ j := Nat.two_pow_pos j
      exact ⟨⟨by omega, by omega⟩, h⟩
  have hlen := hperm.length_eq
  rw [syndromePositions_length] at hlen
  have hd : (dataPositions n).length =
      ((List.range' 1 n).filter fun a => decide ¬(syndromePositions n).contains a = true).length := by
    unfold dataPositions
    congr 1
    apply List.filter_congr
    intro a _
    cases (syndromePositions n).contains a <;> simp
  simp only [List.length_range'] at hsplit
  omega

/-- `|data positions| = k` for the `n` chosen by `compute_m_n(k)`: every data bit has a place and every
    non-check position carries a data bit. -/
theorem dataPositions_length_computeN (k : Nat) (hk : 1 ≤ k) : (dataPositions (computeN k)).length = k := by
  rw [dataPositions_length, numCheck_computeN k hk]
  unfold computeN; omega

/-! ### `compute_cover_positions` -/

theorem testBit_block_true (b q j : Nat) (hj : j < 2 ^ b) : (2 ^ b * (2 * q + 1) + j).testBit b = true := by
  rw [Nat.testBit_eq_decide_div_mod_eq, Nat.add_comm, Nat.add_mul_div_left _ _ (Nat.two_pow_pos b),
    Nat.div_eq_of_lt hj]
  simp

theorem testBit_block_false (b q j : Nat) (hj : j < 2 ^ b) : (2 ^ b * (2 * q + 2) + j).testBit b = false := by
  rw [Nat.testBit_eq_decide_div_mod_eq, Nat.add_comm, Nat.add_mul_div_left _ _ (Nat.two_pow_pos b),
    Nat.div_eq_of_lt hj]
  simp

theorem coverLoop_eq (n b : Nat) : ∀ fuel q, n + 1 ≤ 2 ^ b * (2 * q + 1) + fuel →
    coverLoop n (2 ^ b) fuel (2 ^ b * (2 * q + 1)) =
      (List.range' (2 ^ b * (2 * q + 1)) (n + 1 - 2 ^ b * (2 * q + 1))).filter (·.testBit b) := by
  intro fuel
  induction fuel with
  | zero =>
    intro q h
    have : n + 1 - 2 ^ b * (2 * q + 1) = 0 := by omega
    simp [coverLoop, this]
  | succ fuel ih =>
    intro q h
    have hP : 0 < 2 ^ b := Nat.two_pow_pos b
    generalize hs : 2 ^ b * (2 * q + 1) = s at *
    have hnext : s + 2 * 2 ^ b = 2 ^ b * (2 * (q + 1) + 1) := by
      rw [← hs, Nat.mul_add, Nat.mul_add, Nat.mul_add, Nat.mul_add]; omega
    simp only [coverLoop]
    split
    · next hle =>
      rw [hnext, ih (q + 1) (by omega), ← hnext]
      -- split the range into the covered block, the uncovered block and the rest
      have e1 : n + 1 - s = min (2 ^ b) (n - s + 1) + (n + 1 - s - min (2 ^ b) (n - s + 1)) := by omega
      have e2 : n + 1 - s - min (2 ^ b) (n - s + 1) =
          min (2 ^ b) (n + 1 - s - min (2 ^ b) (n - s + 1)) + (n + 1 - (s + 2 * 2 ^ b)) := by omega
      rw [e1, ← List.range'_append_1, List.filter_append]
      conv => rhs; rw [e2, ← List.range'_append_1, List.filter_append]
      have hA : (List.range' s (min (2 ^ b) (n - s + 1))).filter (·.testBit b) =
          (List.range (min (2 ^ b) (n - s + 1))).map (s + ·) := by
        rw [List.filter_eq_self.2]
        · rw [List.range_eq_range', List.map_add_range']
          simp
        · intro a ha
          rw [List.mem_range'_1] at ha
          have : a = 2 ^ b * (2 * q + 1) + (a - s) := by omega
          rw [this]
          exact testBit_block_true b q (a - s) (by omega)
      have hB : (List.range' (s + min (2 ^ b) (n - s + 1)) (min (2 ^ b) (n + 1 - s - min (2 ^ b) (n - s + 1)))).filter
          (·.testBit b) = [] := by
        rw [List.filter_eq_nil_iff]
        intro a ha
        rw [List.mem_range'_1] at ha
        have h2 : 2 ^ b * (2 * q + 2) = s + 2 ^ b := by rw [← hs, Nat.mul_add, Nat.mul_add]; omega
        have : a = 2 ^ b * (2 * q + 2) + (a - (s + 2 ^ b)) := by omega
        rw [this, testBit_block_false b q _ (by omega)]
        simp
      rw [hA, hB, List.nil_append]
      by_cases hc : s + 2 * 2 ^ b ≤ n + 1
      · congr 3
        omega
      · have : n + 1 - (s + 2 * 2 ^ b) = 0 := by omega
        simp [this]
    · next hgt =>
      have : n + 1 - s = 0 := by omega
      simp [this]

/-- `compute_cover_positions(n, 2^b)` lists, in increasing order, exactly the positions `1..n` whose binary
    index has bit `b` set (the stride arithmetic `i += 2p`, `min(p, n-i+1)` is right for every `n`). -/
theorem cover_eq_filter (n b : Nat) :
    coverPositions n (2 ^ b) = (List.range' 1 n).filter (·.testBit b) := by
  have h := coverLoop_eq n b (n + 1) 0 (by omega)
  simp only [Nat.mul_zero, Nat.zero_add, Nat.mul_one] at h
  unfold coverPositions
  rw [h]
  -- positions 1 .. 2^b - 1 have bit b clear
  have hP : 0 < 2 ^ b := Nat.two_pow_pos b
  by_cases hle : 2 ^ b ≤ n + 1
  · have e : n = (2 ^ b - 1) + (n + 1 - 2 ^ b) := by omega
    conv => rhs; rw [e, ← List.range'_append_1, List.filter_append]
    have : (List.range' 1 (2 ^ b - 1)).filter (·.testBit b) = [] := by
      rw [List.filter_eq_nil_iff]
      intro a ha
      rw [List.mem_range'_1] at ha
      rw [Nat.testBit_lt_two_pow (by omega)]
      simp
    rw [this, List.nil_append]
    congr 2
    omega
  · have : n + 1 - 2 ^ b = 0 := by omega
    rw [this]
    simp only [List.range'_zero, List.filter_nil]
    symm
    rw [List.filter_eq_nil_iff]
    intro a ha
    rw [List.mem_range'_1] at ha
    rw [Nat.testBit_lt_two_pow (by omega)]
    simp

theorem mem_cover {n b c : Nat} : c ∈ coverPositions n (2 ^ b) ↔ 1 ≤ c ∧ c ≤ n ∧ c.testBit b = true := by
  rw [cover_eq_filter]
  simp only [List.mem_filter, List.mem_range'_1]
  constructor
  · rintro ⟨⟨h1, h2⟩, h3⟩; exact ⟨h1, by omega, h3⟩
  · rintro ⟨h1, h2, h3⟩; exact ⟨⟨h1, by omega⟩, h3⟩

theorem cover_nodup (n b : Nat) : (coverPositions n (2 ^ b)).Nodup := by
  rw [cover_eq_filter]
  exact (List.nodup_range' 1).filter _

end Litex.Ecc
