import LitexProofs.Ecc.Secded
/-
  C18 — ANY number of inverted bits: the syndrome is the XOR of the inverted positions, the overall parity counts
  them.  This characterises the flags of the decoder for every error pattern (1, 2, 3, … errors), every `k ≥ 1`.
-/
namespace Litex.Ecc

/-- XOR of the inverted bit positions (the overall parity bit, position 0, contributes nothing). -/
def xorPos (errs : List Nat) : Nat := errs.foldl (· ^^^ ·) 0

theorem foldl_xor_init (errs : List Nat) (a : Nat) : errs.foldl (· ^^^ ·) a = a ^^^ xorPos errs := by
  unfold xorPos
  induction errs generalizing a with
  | nil => simp
  | cons j rest ih => rw [List.foldl_cons, List.foldl_cons, ih, ih (0 ^^^ j), Nat.zero_xor, Nat.xor_assoc]

theorem xorPos_cons (j : Nat) (rest : List Nat) : xorPos (j :: rest) = j ^^^ xorPos rest := by
  conv => lhs; unfold xorPos
  rw [List.foldl_cons, foldl_xor_init, Nat.zero_xor]

theorem xorPos_lt (L : Nat) (errs : List Nat) (h : ∀ j, j ∈ errs → j < 2 ^ L) : xorPos errs < 2 ^ L := by
  induction errs with
  | nil => exact Nat.two_pow_pos L
  | cons j rest ih =>
    rw [xorPos_cons]
    exact Nat.xor_lt_two_pow (h j (by simp)) (ih fun j hj => h j (by simp [hj]))

/-- Inverting the bits `errs` of the word `x :: c` (`x` = parity bit): every syndrome bit moves by the XOR of the
    positions, the overall parity by their number. -/
theorem flips_effect (errs : List Nat) : ∀ (x : Bool) (c : Word), (∀ j, j ∈ errs → j ≤ c.length) →
    ∃ x' c', errs.foldl flipAt (x :: c) = x' :: c' ∧ c'.length = c.length ∧
      (∀ i, synBit c' i = (synBit c i ^^ (xorPos errs).testBit i)) ∧
      xorAll (x' :: c') = (xorAll (x :: c) ^^ decide (errs.length % 2 = 1)) := by
  induction errs with
  | nil => intro x c _; exact ⟨x, c, rfl, rfl, by simp [xorPos], by simp⟩
  | cons j rest ih =>
    intro x c h
    have hj := h j (by simp)
    cases j with
    | zero =>
      obtain ⟨x', c', e, hl, hs, hp⟩ := ih (!x) c (fun j hj => h j (by simp [hj]))
      refine ⟨x', c', by rw [List.foldl_cons, flipAt_cons_zero, e], hl, ?_, ?_⟩
      · intro i; rw [hs i, xorPos_cons, Nat.zero_xor]
      · rw [hp, xorAll_cons, xorAll_cons, List.length_cons]
        rcases Nat.mod_two_eq_zero_or_one rest.length with h0 | h0 <;>
          cases x <;> cases xorAll c <;> simp [h0, Nat.add_mod]
    | succ p =>
      have hlen : (flipAt c p).length = c.length := flipAt_length c p
      obtain ⟨x', c', e, hl, hs, hp⟩ := ih x (flipAt c p) (fun j hj => by rw [hlen]; exact h j (by simp [hj]))
      refine ⟨x', c', by rw [List.foldl_cons, flipAt_cons_succ, e], by rw [hl, hlen], ?_, ?_⟩
      · intro i
        have := synBit_flipAt c (p + 1) i (by omega) hj
        rw [Nat.add_sub_cancel] at this
        rw [hs i, this, xorPos_cons, Nat.testBit_xor, Bool.xor_assoc]
      · rw [hp, xorAll_cons, xorAll_cons, xorAll_flipAt _ _ (by omega), List.length_cons]
        rcases Nat.mod_two_eq_zero_or_one rest.length with h0 | h0 <;>
          cases x <;> cases xorAll c <;> simp [h0, Nat.add_mod]

/-- The decoder on the encoder's word with the bits `errs` inverted (repetitions allowed: they cancel, exactly as in
    the XOR of the positions): syndrome value, overall parity. -/
theorem decode_flips (k : Nat) (hk : 1 ≤ k) (d : Word) (errs : List Nat) (h : ∀ j, j ∈ errs → j ≤ computeN k) :
    ∃ x' c', errs.foldl flipAt (encode k d) = x' :: c' ∧ c'.length = computeN k ∧
      bitsToNat (computeSyndrome c') = xorPos errs ∧ xorAll (x' :: c') = decide (errs.length % 2 = 1) := by
  rw [encode_eq]
  obtain ⟨x', c', e, hl, hs, hp⟩ := flips_effect errs (xorAll (codeword k d)) (codeword k d)
    (by rw [codeword_length]; exact h)
  rw [codeword_length] at hl
  refine ⟨x', c', e, hl, ?_, ?_⟩
  · rw [computeSyndrome_eq, hl]
    have : (List.range (numCheck (computeN k))).map (synBit c') =
        (List.range (numCheck (computeN k))).map (xorPos errs).testBit := by
      apply List.map_congr_left
      intro i hi
      rw [hs i, synBit_codeword k d i (List.mem_range.1 hi), Bool.false_xor]
    rw [this, numCheck_computeN k hk]
    exact bitsToNat_map_testBit _ _ (xorPos_lt _ _ fun j hj => Nat.lt_of_le_of_lt (h j hj) (computeN_lt k))
  · rw [hp, xorAll_cons, Bool.xor_self, Bool.false_xor]

end Litex.Ecc
