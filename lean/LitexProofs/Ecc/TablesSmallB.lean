import LitexModel.Ecc.Matrix
import LitexModel.Generated.EccTables
import LitexProofs.Ecc.TablesSmall
/-
  C18 — continuation of `TablesSmall.lean`: single-error table, syndrome (parity-check) matrix and correction
  table of the enabled decoder model against the regenerated ones, widths 1..16, by kernel evaluation of the model.
-/
namespace Litex.Ecc

theorem small_decSingle : ∀ k ∈ smallWidths,
    mDecSingle k = Tables.decSingle k ∧ pack (decVal k true (encVal k 0)) = Tables.decClean k := by
  decide +kernel

theorem small_synCols : ∀ k ∈ smallWidths, mSynCols k = Tables.synCols k := by
  decide +kernel

theorem small_flipCols : ∀ k ∈ smallWidths, mFlipCols k = Tables.flipCols k := by
  decide +kernel

end Litex.Ecc
