import LitexModel.Ecc.Matrix
import LitexModel.Generated.EccTables
/-
  C18 — kernel comparison of the hand-written model with the tables regenerated from the REAL netlists, by direct
  evaluation of the model (`encode` / `decode` themselves, no closed form) for every width 1..16.
  A change of ecc.py alters `Generated/EccTables.lean` and breaks these checks.
-/
namespace Litex.Ecc

/-- The widths compared by evaluating the model itself. -/
def smallWidths : List Nat := List.range' 1 16

theorem small_encRows : ∀ k ∈ smallWidths, mEncRows k = Tables.encRows k ∧ encVal k 0 = Tables.encZero k := by
  decide +kernel

theorem small_decPass : ∀ k ∈ smallWidths, mDecPass k = Tables.decPass k ∧ pack (decVal k false 0) = Tables.decPassZero k := by
  decide +kernel

end Litex.Ecc
