import LitexProofs.Ecc.TablesClosed
import LitexProofs.Ecc.TablesSmallB
/-
  C18 — the decoder matrices of the model against the regenerated tables for the wide words 32, 64, 128 (and again
  1..16): the closed forms of `TablesClosed.lean` (theorems for every `k`) are compared with the tables by the kernel.
-/
namespace Litex.Ecc

/-- The widths whose regenerated decoder tables are compared through the closed forms. -/
def bigWidths : List Nat := [32, 64, 128]

theorem tables_widths : Tables.widths = smallWidths ++ bigWidths := by decide +kernel

theorem closed_tables_check : ∀ k ∈ smallWidths ++ bigWidths,
    Tables.codeLen k = computeN k + 1 ∧
    Tables.decSingle k = ((List.range (computeN k + 1)).map fun j => if j = 0 then 0 else 2) ∧
    Tables.synCols k = List.range (computeN k + 1) ∧
    Tables.flipCols k = ((List.range (computeN k + 1)).map fun j => if j = 0 then 0 else 2 ^ j) ∧
    Tables.decPass k = ((List.range (computeN k + 1)).map fun j =>
      4 * bitsToNat ((dataPositions (computeN k)).map fun p => decide (j = p))) ∧
    Tables.encZero k = 0 ∧ Tables.decPassZero k = 0 ∧ Tables.decClean k = 0 := by
  decide +kernel

/-- Every regenerated decoder table equals the model's matrix, for every width in the table. -/
theorem decoder_tables_match : ∀ k ∈ Tables.widths,
    mDecSingle k = Tables.decSingle k ∧ mSynCols k = Tables.synCols k ∧ mFlipCols k = Tables.flipCols k ∧
    mDecPass k = Tables.decPass k := by
  intro k hk
  rw [tables_widths] at hk
  have hk1 : 1 ≤ k := by
    have : ∀ k ∈ smallWidths ++ bigWidths, 1 ≤ k := by decide
    exact this k hk
  obtain ⟨_, h1, h2, h3, h4, _⟩ := closed_tables_check k hk
  exact ⟨by rw [mDecSingle_closed k hk1, h1], by rw [mSynCols_closed k hk1, h2],
    by rw [mFlipCols_closed k hk1, h3], by rw [mDecPass_closed k, h4]⟩

end Litex.Ecc
