import LitexModel.Ecc.Matrix
import LitexProofs.Ecc.Secded
/-
  C18 — the model on signal VALUES (driver level) and the closed forms of its GF(2) matrices, for EVERY `k ≥ 1`.
-/
namespace Litex.Ecc

/-! ### value <-> bits round trip -/

theorem natToBits_bitsToNat (w : Word) : natToBits w.length (bitsToNat w) = w := by
  apply List.ext_getElem?
  intro i
  unfold natToBits
  rw [List.getElem?_map]
  by_cases h : i < w.length
  · rw [List.getElem?_range h, Option.map_some, bitsToNat_testBit, List.getD_eq_getElem?_getD,
      List.getElem?_eq_getElem h]
    simp
  · rw [List.getElem?_eq_none_iff.2 (by simpa using h), List.getElem?_eq_none_iff.2 (by omega)]
    rfl

/-- `ECCDecoder.i = ECCEncoder.o ^ (1 << j)` on values is `flipAt` on the bit lists. -/
theorem decVal_flip1 (k : Nat) (x j : Nat) (hj : j ≤ computeN k) :
    natToBits (computeN k + 1) (encVal k x ^^^ 2 ^ j) = flipAt (encode k (natToBits k x)) j := by
  unfold encVal
  have hl := encode_length k (natToBits k x)
  rw [← bitsToNat_flipAt _ _ (by omega)]
  have := natToBits_bitsToNat (flipAt (encode k (natToBits k x)) j)
  rwa [flipAt_length, hl] at this

theorem decVal_flip2 (k : Nat) (x j1 j2 : Nat) (h1 : j1 ≤ computeN k) (h2 : j2 ≤ computeN k) :
    natToBits (computeN k + 1) (encVal k x ^^^ 2 ^ j1 ^^^ 2 ^ j2) =
      flipAt (flipAt (encode k (natToBits k x)) j1) j2 := by
  unfold encVal
  have hl := encode_length k (natToBits k x)
  rw [← bitsToNat_flipAt _ _ (by omega), ← bitsToNat_flipAt _ _ (by rw [flipAt_length]; omega)]
  have := natToBits_bitsToNat (flipAt (flipAt (encode k (natToBits k x)) j1) j2)
  rwa [flipAt_length, flipAt_length, hl] at this

theorem decVal_clean (k x : Nat) : natToBits (computeN k + 1) (encVal k x) = encode k (natToBits k x) := by
  unfold encVal
  have := natToBits_bitsToNat (encode k (natToBits k x))
  rwa [encode_length] at this

theorem bitsToNat_zeroWord (k : Nat) : bitsToNat (natToBits k 0) = 0 :=
  bitsToNat_natToBits k 0 (Nat.two_pow_pos k)

/-! ### the decoder with checking disabled, any input word -/

theorem decode_false (w : Word) :
    decode false w = { o := (dataPositions (w.length - 1)).map fun p => w.getD p false, sec := false, ded := false } := by
  simp only [decode, bitsToNat_map_false, if_true, Bool.false_eq_true, if_false, bne_self_eq_false, Bool.false_and,
    DecOut.mk.injEq, and_true]
  unfold extractData
  rw [List.length_drop]
  apply List.map_congr_left
  intro p hp
  exact bitAt_drop_one w p (dataPositions_bounds _ p hp).1

/-! ### syndrome and correction mask of the encoder's word with one inverted bit -/

theorem synOf_flip (k : Nat) (hk : 1 ≤ k) (d : Word) (j : Nat) (hj : j ≤ computeN k) :
    synOf true (flipAt (encode k d) j) = j := by
  unfold synOf
  rw [if_pos rfl, encode_eq]
  cases j with
  | zero => rw [flipAt_cons_zero, List.drop_one, List.tail_cons, syndrome_value_zero]
  | succ j =>
    rw [flipAt_cons_succ, List.drop_one, List.tail_cons]
    exact syndrome_value_single k hk d (j + 1) (by omega) hj

theorem flipMaskOf_flip (k : Nat) (hk : 1 ≤ k) (d : Word) (j : Nat) (hj : j ≤ computeN k) :
    flipMaskOf true (flipAt (encode k d) j) = if j = 0 then 0 else 2 ^ j := by
  unfold flipMaskOf
  simp only [synOf_flip k hk d j hj]
  cases j with
  | zero => simp
  | succ j =>
    have hlen : j < ((flipAt (encode k d) (j + 1)).drop 1).length := by
      rw [List.length_drop, flipAt_length, encode_length]; omega
    rw [if_neg (by omega), if_neg (by omega), Nat.add_sub_cancel, bitsToNat_flipAt _ _ hlen]
    rw [Nat.xor_comm, ← Nat.xor_assoc, Nat.xor_self, Nat.zero_xor, Nat.pow_succ, Nat.mul_comm]

/-! ### closed forms of the model's matrices, every `k ≥ 1` -/

/-- Single-error table: `o = 0`; `sec = 1, ded = 0` for every position but the overall parity bit. -/
theorem mDecSingle_closed (k : Nat) (hk : 1 ≤ k) :
    mDecSingle k = (List.range (computeN k + 1)).map fun j => if j = 0 then 0 else 2 := by
  unfold mDecSingle
  apply List.map_congr_left
  intro j hj
  have hj' : j ≤ computeN k := by have := List.mem_range.1 hj; omega
  unfold decVal
  rw [decVal_flip1 k 0 j hj']
  have h := Litex.Ecc.natToBits_length k 0
  -- single error corrected (the central theorem, re-derived here on the zero word)
  rw [encode_eq]
  cases j with
  | zero =>
    rw [flipAt_cons_zero, decode_cons, syndrome_value_zero]
    simp [pack, extractData_codeword k hk _ h, bitsToNat_zeroWord]
  | succ j =>
    have hlen : j < (codeword k (natToBits k 0)).length := by rw [codeword_length]; omega
    rw [flipAt_cons_succ, decode_cons]
    have hs := syndrome_value_single k hk (natToBits k 0) (j + 1) (by omega) hj'
    simp only [Nat.add_sub_cancel] at hs
    rw [hs, xorAll_cons, xorAll_flipAt _ _ hlen]
    cases xorAll (codeword k (natToBits k 0)) <;>
      simp [pack, flipAt_flipAt, extractData_codeword k hk _ h, bitsToNat_zeroWord]

/-- Parity-check matrix: the column of code word bit `j` is the number `j` (bit 0, the overall parity, has column 0). -/
theorem mSynCols_closed (k : Nat) (hk : 1 ≤ k) : mSynCols k = List.range (computeN k + 1) := by
  unfold mSynCols
  conv => rhs; rw [← List.map_id (List.range (computeN k + 1))]
  apply List.map_congr_left
  intro j hj
  have hj' : j ≤ computeN k := by have := List.mem_range.1 hj; omega
  unfold synVal
  rw [decVal_flip1 k 0 j hj', synOf_flip k hk _ j hj']
  rfl

/-- Correction table: the decoder inverts exactly the bit that was inverted (nothing for the parity bit). -/
theorem mFlipCols_closed (k : Nat) (hk : 1 ≤ k) :
    mFlipCols k = (List.range (computeN k + 1)).map fun j => if j = 0 then 0 else 2 ^ j := by
  unfold mFlipCols
  apply List.map_congr_left
  intro j hj
  have hj' : j ≤ computeN k := by have := List.mem_range.1 hj; omega
  unfold flipMaskVal
  rw [decVal_flip1 k 0 j hj', flipMaskOf_flip k hk _ j hj']

/-- Extraction matrix: input bit `j` reaches output bit `i` iff `j` is the `i`-th data position; no flags. -/
theorem mDecPass_closed (k : Nat) :
    mDecPass k = (List.range (computeN k + 1)).map fun j =>
      4 * bitsToNat ((dataPositions (computeN k)).map fun p => decide (j = p)) := by
  unfold mDecPass
  apply List.map_congr_left
  intro j hj
  unfold decVal
  rw [decode_false, Litex.Ecc.natToBits_length]
  simp only [pack, Bool.false_eq_true, if_false, Nat.add_zero, Nat.add_sub_cancel]
  congr 2
  apply List.map_congr_left
  intro p hp
  have hp' := (dataPositions_bounds _ p hp).2
  unfold natToBits
  rw [getD_map_range, if_pos (by omega), Nat.testBit_two_pow]

end Litex.Ecc
