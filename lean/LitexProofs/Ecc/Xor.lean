import LitexModel.Ecc.Secded
/-
  C18 — GF(2) facts about the XOR folds of `ecc.py` (`compute_syndrome` chains, `compute_parity` reduce) and
  about single-bit updates of a code word; number <-> bit-list conversion of the syndrome.
-/
namespace Litex.Ecc

/-! ### XOR sum of a bit function over a list of positions -/

/-- `pn = 0; for c in ps: pn = pn ^ f(c)`. -/
def xsum (f : Nat → Bool) (ps : List Nat) : Bool := ps.foldl (fun a c => a ^^ f c) false

theorem foldl_xor_acc (f : Nat → Bool) (ps : List Nat) (b : Bool) :
    ps.foldl (fun a c => a ^^ f c) b = (b ^^ xsum f ps) := by
  induction ps generalizing b with
  | nil => simp [xsum]
  | cons c ps ih =>
    simp only [xsum, List.foldl_cons]
    rw [ih, ih (false ^^ f c)]
    cases b <;> cases f c <;> simp

@[simp] theorem xsum_nil (f : Nat → Bool) : xsum f [] = false := rfl

theorem xsum_cons (f : Nat → Bool) (c : Nat) (ps : List Nat) : xsum f (c :: ps) = (f c ^^ xsum f ps) := by
  simp only [xsum, List.foldl_cons]
  rw [foldl_xor_acc]
  simp [xsum]

theorem xsum_congr {f g : Nat → Bool} {ps : List Nat} (h : ∀ c, c ∈ ps → f c = g c) : xsum f ps = xsum g ps := by
  induction ps with
  | nil => rfl
  | cons c ps ih =>
    rw [xsum_cons, xsum_cons, h c (by simp), ih (fun c hc => h c (by simp [hc]))]

/-- GF(2) linearity of the XOR chain. -/
theorem xsum_xor (f g : Nat → Bool) (ps : List Nat) :
    xsum (fun c => f c ^^ g c) ps = (xsum f ps ^^ xsum g ps) := by
  induction ps with
  | nil => rfl
  | cons c ps ih =>
    rw [xsum_cons, xsum_cons, xsum_cons, ih]
    cases f c <;> cases g c <;> cases xsum f ps <;> cases xsum g ps <;> rfl

/-- The chain over a duplicate-free list sees a single position exactly if it is in the list. -/
theorem xsum_single (p : Nat) (b : Bool) (ps : List Nat) (hnd : ps.Nodup) :
    xsum (fun c => decide (c = p) && b) ps = (decide (p ∈ ps) && b) := by
  induction ps with
  | nil => simp
  | cons c ps ih =>
    have hnd' := List.nodup_cons.1 hnd
    rw [xsum_cons, ih hnd'.2]
    by_cases hc : c = p
    · subst hc
      simp [hnd'.1]
    · have : ¬ p = c := fun h => hc h.symm
      simp [hc, this]

theorem xsum_false (ps : List Nat) : xsum (fun _ => false) ps = false := by
  induction ps with
  | nil => rfl
  | cons c ps ih => rw [xsum_cons, ih]; rfl

theorem xorFold_eq_xsum (cw : Word) (ps : List Nat) : xorFold cw ps = xsum (bitAt cw) ps := rfl

/-! ### overall parity -/

theorem xorAll_acc (w : Word) (b : Bool) : w.foldl (· ^^ ·) b = (b ^^ xorAll w) := by
  induction w generalizing b with
  | nil => simp [xorAll]
  | cons x w ih =>
    simp only [xorAll, List.foldl_cons]
    rw [ih, ih (false ^^ x)]
    cases b <;> cases x <;> simp

theorem xorAll_cons (x : Bool) (w : Word) : xorAll (x :: w) = (x ^^ xorAll w) := by
  simp only [xorAll, List.foldl_cons]
  rw [xorAll_acc]
  simp [xorAll]

/-! ### single-bit updates -/

theorem flipAt_length (cw : Word) (j : Nat) : (flipAt cw j).length = cw.length := by simp [flipAt]

theorem setAt_length (cw : Word) (c : Nat) (v : Bool) : (setAt cw c v).length = cw.length := by simp [setAt]

theorem flipAt_cons_zero (x : Bool) (w : Word) : flipAt (x :: w) 0 = (!x) :: w := by simp [flipAt]

theorem flipAt_cons_succ (x : Bool) (w : Word) (j : Nat) : flipAt (x :: w) (j + 1) = x :: flipAt w j := by
  simp [flipAt]

/-- Flipping one bit inverts the overall parity. -/
theorem xorAll_flipAt (w : Word) (j : Nat) (hj : j < w.length) : xorAll (flipAt w j) = !xorAll w := by
  induction w generalizing j with
  | nil => simp at hj
  | cons x w ih =>
    cases j with
    | zero => rw [flipAt_cons_zero, xorAll_cons, xorAll_cons]; cases x <;> simp
    | succ j =>
      rw [flipAt_cons_succ, xorAll_cons, xorAll_cons, ih j (by simpa using hj)]
      cases x <;> simp

/-- `flipAt cw j` inverts position `j+1` and nothing else. -/
theorem bitAt_flipAt (cw : Word) (j c : Nat) (hc : 1 ≤ c) (hj : j < cw.length) :
    bitAt (flipAt cw j) c = (bitAt cw c ^^ decide (c = j + 1)) := by
  unfold bitAt flipAt
  simp only [List.getD_eq_getElem?_getD, List.getElem?_set]
  by_cases h : j = c - 1
  · have : c = j + 1 := by omega
    subst this
    simp [hj]
  · have : ¬ c = j + 1 := by omega
    simp [h, this]

theorem flipAt_flipAt (cw : Word) (j : Nat) : flipAt (flipAt cw j) j = cw := by
  apply List.ext_getElem?
  intro i
  unfold flipAt
  simp only [List.getD_eq_getElem?_getD, List.getElem?_set, List.length_set]
  by_cases h : j = i
  · subst h
    by_cases hl : j < cw.length
    · simp [hl]
    · simp [hl]
  · simp [h]

theorem bitAt_setAt (cw : Word) (p c : Nat) (v : Bool) (hc : 1 ≤ c) (hp : 1 ≤ p) (hpl : p ≤ cw.length) :
    bitAt (setAt cw p v) c = if c = p then v else bitAt cw c := by
  unfold bitAt setAt
  simp only [List.getD_eq_getElem?_getD, List.getElem?_set]
  by_cases h : c = p
  · subst h
    have : c - 1 < cw.length := by omega
    simp [this]
  · have : ¬ p - 1 = c - 1 := by omega
    simp [h, this]

theorem bitAt_replicate (n c : Nat) : bitAt (List.replicate n false) c = false := by
  unfold bitAt
  simp only [List.getD_eq_getElem?_getD, List.getElem?_replicate]
  split <;> rfl

theorem bitAt_drop_one (w : Word) (p : Nat) (hp : 1 ≤ p) : bitAt (w.drop 1) p = w.getD p false := by
  unfold bitAt
  simp only [List.getD_eq_getElem?_getD, List.getElem?_drop]
  rw [show 1 + (p - 1) = p by omega]

/-! ### `for i, p in enumerate(pos): codeword[p-1].eq(vals[i])` -/

theorem scatter_cons (p : Nat) (ps : List Nat) (vals base : Word) (start : Nat) :
    scatter (p :: ps) vals base start = scatter ps vals (setAt base p (vals.getD start false)) (start + 1) := by
  simp [scatter, List.zipIdx_cons]

theorem scatter_length (ps : List Nat) (vals base : Word) (start : Nat) :
    (scatter ps vals base start).length = base.length := by
  induction ps generalizing base start with
  | nil => simp [scatter]
  | cons p ps ih => rw [scatter_cons, ih, setAt_length]

/-- Positions that are not assigned keep the value of the base signal. -/
theorem bitAt_scatter_of_not_mem (ps : List Nat) (vals base : Word) (start c : Nat) (hc : 1 ≤ c)
    (hps : ∀ p, p ∈ ps → 1 ≤ p ∧ p ≤ base.length) (hn : c ∉ ps) :
    bitAt (scatter ps vals base start) c = bitAt base c := by
  induction ps generalizing base start with
  | nil => simp [scatter]
  | cons p ps ih =>
    have hp := hps p (by simp)
    rw [scatter_cons, ih]
    · rw [bitAt_setAt _ _ _ _ hc hp.1 hp.2]
      have : ¬ c = p := fun h => hn (by simp [h])
      simp [this]
    · intro q hq
      rw [setAt_length]
      exact hps q (by simp [hq])
    · exact fun h => hn (by simp [h])

/-- The `i`-th assigned position carries `vals[i]`. -/
theorem bitAt_scatter_getElem (ps : List Nat) (vals base : Word) (start i p : Nat) (hnd : ps.Nodup)
    (hps : ∀ p, p ∈ ps → 1 ≤ p ∧ p ≤ base.length) (hi : ps[i]? = some p) :
    bitAt (scatter ps vals base start) p = vals.getD (start + i) false := by
  induction ps generalizing base start i with
  | nil => simp at hi
  | cons q ps ih =>
    have hq := hps q (by simp)
    have hnd' := List.nodup_cons.1 hnd
    rw [scatter_cons]
    cases i with
    | zero =>
      simp only [List.getElem?_cons_zero, Option.some.injEq] at hi
      subst hi
      rw [bitAt_scatter_of_not_mem _ _ _ _ _ hq.1 _ hnd'.1, bitAt_setAt _ _ _ _ hq.1 hq.1 hq.2]
      · simp
      · intro r hr
        rw [setAt_length]
        exact hps r (by simp [hr])
    | succ i =>
      simp only [List.getElem?_cons_succ] at hi
      rw [ih _ _ _ hnd'.2 _ hi]
      · congr 1; omega
      · intro r hr
        rw [setAt_length]
        exact hps r (by simp [hr])

/-! ### signal value <-> bits -/

theorem bitsToNat_testBit (l : Word) (i : Nat) : (bitsToNat l).testBit i = l.getD i false := by
  induction l generalizing i with
  | nil => simp [bitsToNat]
  | cons b bs ih =>
    cases i with
    | zero =>
      simp only [bitsToNat, Nat.testBit_zero, List.getD_cons_zero]
      cases b <;> simp <;> omega
    | succ i =>
      simp only [bitsToNat, Nat.testBit_succ, List.getD_cons_succ]
      rw [← ih i]
      congr 1
      cases b <;> simp <;> omega

theorem getD_map_range (L : Nat) (f : Nat → Bool) (i : Nat) :
    ((List.range L).map f).getD i false = if i < L then f i else false := by
  simp only [List.getD_eq_getElem?_getD, List.getElem?_map]
  by_cases h : i < L
  · simp [h]
  · simp [h]

/-- The `L`-bit syndrome whose bits are the binary digits of `p < 2^L` has the value `p`. -/
theorem bitsToNat_map_testBit (L p : Nat) (hp : p < 2 ^ L) : bitsToNat ((List.range L).map p.testBit) = p := by
  apply Nat.eq_of_testBit_eq
  intro i
  rw [bitsToNat_testBit, getD_map_range]
  split
  · rfl
  · next h =>
    have : 2 ^ L ≤ 2 ^ i := Nat.pow_le_pow_right (by omega) (by omega)
    exact (Nat.testBit_lt_two_pow (by omega)).symm

theorem bitsToNat_map_false {α : Type} (l : List α) : bitsToNat (l.map fun _ => false) = 0 := by
  induction l with
  | nil => rfl
  | cons a l ih => simp [bitsToNat, ih]

end Litex.Ecc

namespace Litex.Ecc

/-! ### number view used by the driver / the harness (signals travel as decimal numbers) -/

theorem natToBits_length (w x : Nat) : (natToBits w x).length = w := by simp [natToBits]

theorem bitsToNat_natToBits (w x : Nat) (hx : x < 2 ^ w) : bitsToNat (natToBits w x) = x :=
  bitsToNat_map_testBit w x hx

theorem getD_flipAt (w : Word) (j i : Nat) (hj : j < w.length) :
    (flipAt w j).getD i false = (w.getD i false ^^ decide (j = i)) := by
  unfold flipAt
  simp only [List.getD_eq_getElem?_getD, List.getElem?_set]
  by_cases h : j = i
  · subst h; simp [hj]
  · simp [h]

/-- `flipAt w j` is `w ^ (1 << j)` on the signal's value. -/
theorem bitsToNat_flipAt (w : Word) (j : Nat) (hj : j < w.length) :
    bitsToNat (flipAt w j) = bitsToNat w ^^^ 2 ^ j := by
  apply Nat.eq_of_testBit_eq
  intro i
  rw [bitsToNat_testBit, getD_flipAt w j i hj, Nat.testBit_xor, bitsToNat_testBit, Nat.testBit_two_pow]

end Litex.Ecc
