import LitexProofs.Ecc.Geometry
import LitexProofs.Ecc.Xor
/-
  C18 — structural facts about the encoder's code word and the decoder's syndrome, for every `k ≥ 1`.
-/
namespace Litex.Ecc

/-! ### syndrome bits -/

/-- Bit `i` of `compute_syndrome(codeword)`. -/
def synBit (cw : Word) (i : Nat) : Bool := xorFold cw (coverPositions cw.length (2 ^ i))

theorem computeSyndrome_eq (cw : Word) :
    computeSyndrome cw = (List.range (numCheck cw.length)).map (synBit cw) := by
  unfold computeSyndrome
  rw [syndromePositions_length]
  rfl

theorem computeSyndrome_length (cw : Word) : (computeSyndrome cw).length = numCheck cw.length := by
  simp [computeSyndrome_eq]

/-- GF(2) linearity, single-error form: inverting position `p` XORs the binary index of `p` into the syndrome. -/
theorem synBit_flipAt (cw : Word) (p i : Nat) (hp1 : 1 ≤ p) (hp : p ≤ cw.length) :
    synBit (flipAt cw (p - 1)) i = (synBit cw i ^^ p.testBit i) := by
  unfold synBit
  rw [flipAt_length, xorFold_eq_xsum, xorFold_eq_xsum,
    xsum_congr (g := fun c => bitAt cw c ^^ (decide (c = p) && true))]
  · rw [xsum_xor, xsum_single _ _ _ (cover_nodup _ _)]
    congr 1
    simp [mem_cover, hp1, hp]
  · intro c hc
    have h1 := (mem_cover.1 hc).1
    rw [bitAt_flipAt _ _ _ h1 (by omega)]
    have : (c = p - 1 + 1) = (c = p) := by rw [show p - 1 + 1 = p by omega]
    simp [this]

theorem computeSyndrome_flipAt (cw : Word) (p : Nat) (hp1 : 1 ≤ p) (hp : p ≤ cw.length) :
    computeSyndrome (flipAt cw (p - 1)) =
      (List.range (numCheck cw.length)).map fun i => synBit cw i ^^ p.testBit i := by
  rw [computeSyndrome_eq, flipAt_length]
  apply List.map_congr_left
  intro i _
  exact synBit_flipAt cw p i hp1 hp

/-! ### the encoder's code word -/

/-- `codeword_d_p` of `ECCEncoder(k)`: the `n`-bit Hamming code word (without the overall parity bit). -/
def codeword (k : Nat) (d : Word) : Word :=
  placeSyndrome (computeSyndrome (placeData d (computeN k))) (placeData d (computeN k))

theorem encode_eq (k : Nat) (d : Word) : encode k d = xorAll (codeword k d) :: codeword k d := rfl

theorem dataPositions_bounds (n : Nat) : ∀ p, p ∈ dataPositions n → 1 ≤ p ∧ p ≤ n :=
  fun _ hp => ⟨(mem_dataPositions.1 hp).1, (mem_dataPositions.1 hp).2.1⟩

theorem syndromePositions_bounds (n : Nat) : ∀ p, p ∈ syndromePositions n → 1 ≤ p ∧ p ≤ n := by
  intro p hp
  obtain ⟨h, j, rfl⟩ := mem_syndromePositions.1 hp
  exact ⟨Nat.two_pow_pos j, h⟩

theorem placeData_length (d : Word) (n : Nat) : (placeData d n).length = n := by
  simp [placeData, scatter_length]

theorem bitAt_placeData_data (d : Word) (n i p : Nat) (h : (dataPositions n)[i]? = some p) :
    bitAt (placeData d n) p = d.getD i false := by
  unfold placeData
  rw [bitAt_scatter_getElem _ _ _ 0 i p (dataPositions_nodup n) (by simpa using dataPositions_bounds n) h]
  simp

theorem bitAt_placeData_other (d : Word) (n c : Nat) (hc : 1 ≤ c) (h : c ∉ dataPositions n) :
    bitAt (placeData d n) c = false := by
  unfold placeData
  rw [bitAt_scatter_of_not_mem _ _ _ _ _ hc (by simpa using dataPositions_bounds n) h]
  exact bitAt_replicate n c

theorem codeword_length (k : Nat) (d : Word) : (codeword k d).length = computeN k := by
  simp [codeword, placeSyndrome, scatter_length, placeData_length]

theorem encode_length (k : Nat) (d : Word) : (encode k d).length = computeN k + 1 := by
  simp [encode_eq, codeword_length]

/-- Check position `2^i` carries syndrome bit `i` of the data-only word. -/
theorem bitAt_codeword_check (k : Nat) (d : Word) (i : Nat) (hi : i < numCheck (computeN k)) :
    bitAt (codeword k d) (2 ^ i) = synBit (placeData d (computeN k)) i := by
  unfold codeword placeSyndrome
  rw [placeData_length]
  rw [bitAt_scatter_getElem _ _ _ 0 i (2 ^ i) (syndromePositions_nodup _)
    (by simpa [placeData_length] using syndromePositions_bounds (computeN k))
    (syndromePositions_getElem? _ _ hi)]
  rw [computeSyndrome_eq, placeData_length, Nat.zero_add, getD_map_range]
  simp [hi]

/-- Every other position keeps the placed data bit. -/
theorem bitAt_codeword_other (k : Nat) (d : Word) (c : Nat) (hc : 1 ≤ c) (h : ∀ j, c ≠ 2 ^ j) :
    bitAt (codeword k d) c = bitAt (placeData d (computeN k)) c := by
  unfold codeword placeSyndrome
  rw [placeData_length]
  apply bitAt_scatter_of_not_mem _ _ _ _ _ hc
  · simpa [placeData_length] using syndromePositions_bounds (computeN k)
  · intro hm
    obtain ⟨_, j, hj⟩ := mem_syndromePositions.1 hm
    exact h j hj

/-- The encoder's code word has syndrome 0 (each check bit cancels the XOR of the data bits it covers). -/
theorem synBit_codeword (k : Nat) (d : Word) (i : Nat) (hi : i < numCheck (computeN k)) :
    synBit (codeword k d) i = false := by
  have hle : 2 ^ i ≤ computeN k := (numCheck_spec _).1 i hi
  have hpos : 0 < 2 ^ i := Nat.two_pow_pos i
  have key : synBit (codeword k d) i =
      xsum (fun c => bitAt (placeData d (computeN k)) c ^^
        (decide (c = 2 ^ i) && synBit (placeData d (computeN k)) i)) (coverPositions (computeN k) (2 ^ i)) := by
    conv => lhs; unfold synBit
    rw [codeword_length, xorFold_eq_xsum]
    apply xsum_congr
    intro c hc
    obtain ⟨h1, h2, h3⟩ := mem_cover.1 hc
    by_cases hc2 : c = 2 ^ i
    · subst hc2
      rw [bitAt_codeword_check k d i hi, bitAt_placeData_other _ _ _ h1]
      · simp
      · intro hm
        exact (mem_dataPositions.1 hm).2.2 i rfl
    · rw [bitAt_codeword_other k d c h1]
      · simp [hc2]
      · intro j hj
        subst hj
        rw [Nat.testBit_two_pow] at h3
        have : j = i := by simpa using h3
        exact hc2 (by rw [this])
  rw [key, xsum_xor, xsum_single _ _ _ (cover_nodup _ _)]
  have hmem : 2 ^ i ∈ coverPositions (computeN k) (2 ^ i) :=
    mem_cover.2 ⟨hpos, hle, by simp⟩
  have : xsum (bitAt (placeData d (computeN k))) (coverPositions (computeN k) (2 ^ i)) =
      synBit (placeData d (computeN k)) i := by
    unfold synBit
    rw [placeData_length, xorFold_eq_xsum]
  rw [this]
  simp [hmem]

theorem computeSyndrome_codeword (k : Nat) (d : Word) :
    computeSyndrome (codeword k d) = (List.range (numCheck (computeN k))).map fun _ => false := by
  rw [computeSyndrome_eq, codeword_length]
  apply List.map_congr_left
  intro i hi
  exact synBit_codeword k d i (List.mem_range.1 hi)

/-- Reading the data positions of the code word returns the data word. -/
theorem extractData_codeword (k : Nat) (hk : 1 ≤ k) (d : Word) (hd : d.length = k) :
    extractData (codeword k d) = d := by
  unfold extractData
  rw [codeword_length]
  apply List.ext_getElem?
  intro i
  rw [List.getElem?_map]
  have hlen := dataPositions_length_computeN k hk
  cases hp : (dataPositions (computeN k))[i]? with
  | none =>
    have : k ≤ i := by
      have := List.getElem?_eq_none_iff.1 hp
      omega
    simp [List.getElem?_eq_none_iff.2 (by omega : d.length ≤ i)]
  | some p =>
    have hi : i < k := by
      have := (List.getElem?_eq_some_iff.1 hp).1
      omega
    have hmem : p ∈ dataPositions (computeN k) := List.mem_of_getElem? hp
    have hm := mem_dataPositions.1 hmem
    simp only [Option.map_some]
    rw [bitAt_codeword_other k d p hm.1 hm.2.2, bitAt_placeData_data d _ i p hp]
    rw [List.getD_eq_getElem?_getD, List.getElem?_eq_getElem (by omega : i < d.length)]
    simp

/-! ### the decoder on a word `x :: c` (`x` = received overall parity bit, `c` = received code word) -/

theorem decode_cons (x : Bool) (c : Word) :
    decode true (x :: c) =
      { o := extractData (if bitsToNat (computeSyndrome c) = 0 then c
                          else flipAt c (bitsToNat (computeSyndrome c) - 1))
        sec := bitsToNat (computeSyndrome c) != 0 && xorAll (x :: c)
        ded := bitsToNat (computeSyndrome c) != 0 && !xorAll (x :: c) } := by
  simp [decode]

/-- No error in the code word part: syndrome value 0. -/
theorem syndrome_value_zero (k : Nat) (d : Word) : bitsToNat (computeSyndrome (codeword k d)) = 0 := by
  rw [computeSyndrome_codeword, bitsToNat_map_false]

/-- One inverted position `p`: the syndrome value is `p`. -/
theorem syndrome_value_single (k : Nat) (hk : 1 ≤ k) (d : Word) (p : Nat) (hp1 : 1 ≤ p) (hp : p ≤ computeN k) :
    bitsToNat (computeSyndrome (flipAt (codeword k d) (p - 1))) = p := by
  rw [computeSyndrome_flipAt _ _ hp1 (by rw [codeword_length]; exact hp), codeword_length]
  have : ((List.range (numCheck (computeN k))).map fun i => synBit (codeword k d) i ^^ p.testBit i) =
      (List.range (numCheck (computeN k))).map p.testBit := by
    apply List.map_congr_left
    intro i hi
    rw [synBit_codeword k d i (List.mem_range.1 hi)]
    simp
  rw [this, numCheck_computeN k hk]
  exact bitsToNat_map_testBit _ _ (Nat.lt_of_le_of_lt hp (computeN_lt k))

/-- Two inverted positions `p1 ≠ p2`: the syndrome value is `p1 xor p2`, which is not 0. -/
theorem syndrome_value_double (k : Nat) (hk : 1 ≤ k) (d : Word) (p1 p2 : Nat) (h11 : 1 ≤ p1) (h1 : p1 ≤ computeN k)
    (h21 : 1 ≤ p2) (h2 : p2 ≤ computeN k) (hne : p1 ≠ p2) :
    bitsToNat (computeSyndrome (flipAt (flipAt (codeword k d) (p1 - 1)) (p2 - 1))) = p1 ^^^ p2 ∧ p1 ^^^ p2 ≠ 0 := by
  have hlen : (flipAt (codeword k d) (p1 - 1)).length = computeN k := by rw [flipAt_length, codeword_length]
  constructor
  · rw [computeSyndrome_flipAt _ _ h21 (by rw [hlen]; exact h2), hlen]
    have : ((List.range (numCheck (computeN k))).map fun i =>
          synBit (flipAt (codeword k d) (p1 - 1)) i ^^ p2.testBit i) =
        (List.range (numCheck (computeN k))).map (p1 ^^^ p2).testBit := by
      apply List.map_congr_left
      intro i hi
      rw [synBit_flipAt _ _ _ h11 (by rw [codeword_length]; exact h1),
        synBit_codeword k d i (List.mem_range.1 hi), Nat.testBit_xor]
      simp
    rw [this, numCheck_computeN k hk]
    exact bitsToNat_map_testBit _ _
      (Nat.xor_lt_two_pow (Nat.lt_of_le_of_lt h1 (computeN_lt k)) (Nat.lt_of_le_of_lt h2 (computeN_lt k)))
  · intro h0
    apply hne
    apply Nat.eq_of_testBit_eq
    intro i
    have := congrArg (·.testBit i) h0
    simp only [Nat.testBit_xor, Nat.zero_testBit] at this
    cases h1 : p1.testBit i <;> cases h2 : p2.testBit i <;> simp_all

end Litex.Ecc
