import LitexModel.RoundRobin
/-
  Lemmas about Migen's round-robin next-grant function (`LitexModel/RoundRobin.lean`), both switch policies.
  Shared by C06, C08, C16.  Core Lean tactics only (`omega`, `simp`).

  Main results
  * `scan_spec`           what the `If/Else` chain returns (first requester in cyclic order, or the old grant)
  * `next_lt`             the grant stays a valid index
  * `next_withdraw_keep`  SP_WITHDRAW: a requesting owner keeps the grant
  * `next_change_req`     a grant change always lands on a requester (and, SP_WITHDRAW, the old owner had withdrawn)
  * `next_ne_self_of_other_req`  if the switch is enabled and somebody else requests, the grant moves
  * `dist_next_lt`        a grant change moves the pointer strictly closer to every other requesting port
  * `rr_bounded_wait`     SP_WITHDRAW, port `i` requesting throughout: (#grant changes) + dist(final, i) ≤ dist(initial, i) ≤ n-1
  * `rr_stalls_bounded`   … and the number of cycles in which `i` waits while the owner is not requesting is ≤ n-1
  * `rr_keep_granted`     … and once granted, `i` stays granted
  * `rr_bounded_wait_any` both policies, while `i` is waiting: (#grant changes) + dist(final, i) ≤ dist(initial, i)
  * `rr_ce_stalls_bounded` SP_CE: `i` waits through at most n-1 cycles with `ce` asserted
-/
namespace Litex.RoundRobin

theorem mod_cases (a n : Nat) (h : a < 2 * n) :
    (a < n ∧ a % n = a) ∨ (n ≤ a ∧ a % n = a - n) := by
  by_cases hlt : a < n
  · exact Or.inl ⟨hlt, Nat.mod_eq_of_lt hlt⟩
  · right
    have hge : n ≤ a := Nat.le_of_not_lt hlt
    refine ⟨hge, ?_⟩
    rw [Nat.mod_eq_sub_mod hge]
    exact Nat.mod_eq_of_lt (by omega)

/-- What the `If(request[t], grant.eq(t)).Else(…)` chain computes. -/
theorem scan_spec (n g : Nat) (req : Nat → Bool) : ∀ fuel k,
    (scan n g req fuel k = g ∧ ∀ j, k ≤ j → j < k + fuel → req ((g + j) % n) = false) ∨
    (∃ j, k ≤ j ∧ j < k + fuel ∧ scan n g req fuel k = (g + j) % n ∧ req ((g + j) % n) = true ∧
        ∀ j', k ≤ j' → j' < j → req ((g + j') % n) = false) := by
  intro fuel
  induction fuel with
  | zero => intro k; left; exact ⟨rfl, fun j h1 h2 => by omega⟩
  | succ f ih =>
    intro k
    unfold scan
    by_cases hr : req ((g + k) % n) = true
    · right
      refine ⟨k, Nat.le_refl _, by omega, by simp [hr], hr, fun j' h1 h2 => by omega⟩
    · have hr' : req ((g + k) % n) = false := by simpa using hr
      simp only [hr', Bool.false_eq_true, if_false]
      rcases ih (k + 1) with ⟨h1, h2⟩ | ⟨j, hj1, hj2, hj3, hj4, hj5⟩
      · left
        refine ⟨h1, fun j hj1 hj2 => ?_⟩
        by_cases hjk : j = k
        · subst hjk; exact hr'
        · exact h2 j (by omega) (by omega)
      · right
        refine ⟨j, by omega, by omega, hj3, hj4, fun j' h1 h2 => ?_⟩
        by_cases hjk : j' = k
        · subst hjk; exact hr'
        · exact hj5 j' (by omega) h2

theorem dist_lt (n g i : Nat) (hn : 0 < n) : dist n g i < n := Nat.mod_lt _ hn

theorem dist_self (n g : Nat) (hg : g < n) : dist n g g = 0 := by
  unfold dist
  have : g + n - g = n := by omega
  rw [this, Nat.mod_self]

theorem dist_eq_zero {n g i : Nat} (hg : g < n) (hi : i < n) (h : dist n g i = 0) : g = i := by
  unfold dist at h
  rcases mod_cases (i + n - g) n (by omega) with ⟨h1, h2⟩ | ⟨h1, h2⟩ <;> omega

/-- `i` is reached from `g` by advancing `dist n g i` positions. -/
theorem add_dist_mod {n g i : Nat} (hg : g < n) (hi : i < n) : (g + dist n g i) % n = i := by
  unfold dist
  rcases mod_cases (i + n - g) n (by omega) with ⟨h1, h2⟩ | ⟨h1, h2⟩
  · rw [h2]
    rcases mod_cases (g + (i + n - g)) n (by omega) with ⟨h3, h4⟩ | ⟨h3, h4⟩ <;> omega
  · rw [h2]
    rcases mod_cases (g + (i + n - g - n)) n (by omega) with ⟨h3, h4⟩ | ⟨h3, h4⟩ <;> omega

theorem switch_lt {n g : Nat} (req : Nat → Bool) (hg : g < n) : switch n g req < n := by
  unfold switch
  rcases scan_spec n g req (n - 1) 1 with ⟨h, _⟩ | ⟨j, _, _, h, _⟩
  · rw [h]; exact hg
  · rw [h]; exact Nat.mod_lt _ (by omega)

/-- A switch that moves the grant lands on a requester. -/
theorem switch_req {n g : Nat} (req : Nat → Bool) (h : switch n g req ≠ g) : req (switch n g req) = true := by
  unfold switch at *
  rcases scan_spec n g req (n - 1) 1 with ⟨h1, _⟩ | ⟨j, _, _, h1, h2, _⟩
  · exact absurd h1 h
  · rw [h1]; exact h2

/-- If some other port requests, the switch moves the grant, and strictly closer to that port. -/
theorem switch_dist_lt {n g i : Nat} (req : Nat → Bool) (hg : g < n) (hi : i < n) (hne : i ≠ g)
    (hr : req i = true) : switch n g req ≠ g ∧ dist n (switch n g req) i < dist n g i := by
  have hd0 : dist n g i ≠ 0 := fun h => hne (dist_eq_zero hg hi h).symm
  have hdn : dist n g i < n := dist_lt n g i (by omega)
  have hgi := add_dist_mod hg hi
  unfold switch
  rcases scan_spec n g req (n - 1) 1 with ⟨_, h2⟩ | ⟨j, hj1, hj2, h1, _, h3⟩
  · have := h2 (dist n g i) (by omega) (by omega)
    rw [hgi, hr] at this
    exact absurd this (by simp)
  · have hjd : j ≤ dist n g i := by
      apply Nat.le_of_not_lt
      intro hlt
      have := h3 (dist n g i) (by omega) hlt
      rw [hgi, hr] at this
      exact absurd this (by simp)
    rw [h1]
    -- all quantities are below `2 * n`: reduce the modular arithmetic to linear arithmetic
    have hD : dist n g i = (i + n - g) % n := rfl
    rcases mod_cases (i + n - g) n (by omega) with ⟨a1, a2⟩ | ⟨a1, a2⟩ <;>
    rcases mod_cases (g + j) n (by omega) with ⟨b1, b2⟩ | ⟨b1, b2⟩ <;>
    (constructor
     · omega
     · unfold dist
       rw [b2]
       first
       | (rcases mod_cases (i + n - (g + j)) n (by omega) with ⟨c1, c2⟩ | ⟨c1, c2⟩ <;> omega)
       | (rcases mod_cases (i + n - (g + j - n)) n (by omega) with ⟨c1, c2⟩ | ⟨c1, c2⟩ <;> omega))

/-! ### `next` -/

theorem next_lt (p : Policy) {n g : Nat} (req : Nat → Bool) (ce : Bool) (hg : g < n) :
    next p n g req ce < n := by
  unfold next
  by_cases hn : n ≤ 1
  · simp [hn]; omega
  · simp only [hn, if_false, hg, if_true]
    cases p <;> simp only
    · split
      · exact hg
      · exact switch_lt req hg
    · split
      · exact switch_lt req hg
      · exact hg

/-- SP_WITHDRAW: an owner that keeps requesting keeps the grant. -/
theorem next_withdraw_keep {n g : Nat} (req : Nat → Bool) (ce : Bool) (hg : g < n) (hr : req g = true) :
    next .withdraw n g req ce = g := by
  unfold next
  by_cases hn : n ≤ 1
  · simp [hn]; omega
  · simp [hn, hg, hr]

/-- SP_CE without `ce`: the grant does not move. -/
theorem next_ce_hold {n g : Nat} (req : Nat → Bool) (hg : g < n) : next .ce n g req false = g := by
  unfold next
  by_cases hn : n ≤ 1
  · simp [hn]; omega
  · simp [hn, hg]

/-- A grant change lands on a requester; under SP_WITHDRAW the previous owner had withdrawn its request,
    under SP_CE `ce` was asserted. -/
theorem next_change_req (p : Policy) {n g : Nat} (req : Nat → Bool) (ce : Bool) (hg : g < n)
    (h : next p n g req ce ≠ g) :
    req (next p n g req ce) = true ∧
    (match p with | .withdraw => req g = false | .ce => ce = true) := by
  unfold next at *
  by_cases hn : n ≤ 1
  · simp [hn] at h; omega
  · simp only [hn, if_false, hg, if_true] at h ⊢
    cases p <;> simp only at h ⊢
    · by_cases hr : req g = true
      · simp [hr] at h
      · simp only [hr] at h ⊢
        exact ⟨switch_req req h, by simp⟩
    · by_cases hc : ce = true
      · simp only [hc, if_true] at h ⊢
        exact ⟨switch_req req h, trivial⟩
      · simp [hc] at h

/-- Is the switch enabled in this cycle?  SP_WITHDRAW: the owner does not request; SP_CE: `ce`. -/
def enabled (p : Policy) (g : Nat) (req : Nat → Bool) (ce : Bool) : Bool :=
  match p with
  | .withdraw => !req g
  | .ce => ce

/-- With the switch enabled and another port `i` requesting, the grant moves, strictly closer to `i`. -/
theorem next_ne_self_of_other_req (p : Policy) {n g i : Nat} (req : Nat → Bool) (ce : Bool)
    (hg : g < n) (hi : i < n) (hne : i ≠ g) (hr : req i = true) (hen : enabled p g req ce = true) :
    next p n g req ce ≠ g ∧ dist n (next p n g req ce) i < dist n g i := by
  have hn : ¬ n ≤ 1 := by omega
  unfold next
  simp only [hn, if_false, hg, if_true]
  cases p <;> simp only [enabled] at hen ⊢
  · have : req g = false := by simpa using hen
    simp only [this, Bool.false_eq_true, if_false]
    exact switch_dist_lt req hg hi hne hr
  · simp only [hen, if_true]
    exact switch_dist_lt req hg hi hne hr

/-- Every grant change moves the pointer strictly closer to any *other* requesting port. -/
theorem dist_next_lt (p : Policy) {n g i : Nat} (req : Nat → Bool) (ce : Bool)
    (hg : g < n) (hi : i < n) (hne : i ≠ g) (hr : req i = true) (h : next p n g req ce ≠ g) :
    dist n (next p n g req ce) i < dist n g i := by
  have hc := (next_change_req p req ce hg h).2
  have hen : enabled p g req ce = true := by
    cases p <;> simp only [enabled] at hc ⊢
    · simp [hc]
    · exact hc
  exact (next_ne_self_of_other_req p req ce hg hi hne hr hen).2

/-! ### Runs (SP_WITHDRAW): bounded waiting -/

/-- Number of cycles in which port `i` is not the owner and the owner does not request (so the bus is
    handed over in that cycle). -/
def stalls (n i : Nat) (g : Nat) : List ((Nat → Bool) × Bool) → Nat
  | [] => 0
  | (r, ce) :: rest =>
    (if g ≠ i ∧ r g = false then 1 else 0) + stalls n i (next .withdraw n g r ce) rest

theorem run_lt (p : Policy) {n : Nat} : ∀ (l : List ((Nat → Bool) × Bool)) {g : Nat}, g < n → run p n g l < n
  | [], _, hg => hg
  | (r, ce) :: rest, _, hg => run_lt p rest (next_lt p r ce hg)

/-- **Bounded waiting (SP_WITHDRAW).**  If port `i` requests in every cycle of a run, then
    (number of grant changes) + (distance still to go) ≤ initial distance ≤ n-1:
    `i` is granted after at most `n-1` grant changes, whatever the other ports do. -/
theorem rr_bounded_wait {n i : Nat} (hi : i < n) :
    ∀ (l : List ((Nat → Bool) × Bool)) {g : Nat}, g < n → (∀ rc ∈ l, rc.1 i = true) →
      changes .withdraw n g l + dist n (run .withdraw n g l) i ≤ dist n g i ∧ dist n g i ≤ n - 1 := by
  intro l
  induction l with
  | nil =>
    intro g hg _
    have := dist_lt n g i (by omega)
    simp [changes, run]; omega
  | cons rc rest ih =>
    intro g hg hreq
    obtain ⟨r, ce⟩ := rc
    have hri : r i = true := hreq (r, ce) (by simp)
    have hg' := next_lt .withdraw r ce hg
    have ih' := (ih hg' (fun rc h => hreq rc (by simp [h]))).1
    have hdn := dist_lt n g i (by omega)
    refine ⟨?_, by omega⟩
    simp only [changes, run]
    by_cases hch : next .withdraw n g r ce = g
    · simp only [hch, ne_eq, not_true_eq_false, if_false] at ih' ⊢
      omega
    · have hne : i ≠ g := by
        intro h; subst h
        exact hch (next_withdraw_keep r ce hg hri)
      have := dist_next_lt .withdraw r ce hg hi hne hri hch
      simp only [ne_eq, hch, not_false_eq_true, if_true]
      omega

/-- The same bound for the cycles in which `i` waits although the owner is not using the bus: each of them
    hands the bus over, so there are at most `n-1` of them before `i` is granted. -/
theorem rr_stalls_bounded {n i : Nat} (hi : i < n) :
    ∀ (l : List ((Nat → Bool) × Bool)) {g : Nat}, g < n → (∀ rc ∈ l, rc.1 i = true) →
      stalls n i g l + dist n (run .withdraw n g l) i ≤ dist n g i := by
  intro l
  induction l with
  | nil => intro g _ _; simp [stalls, run]
  | cons rc rest ih =>
    intro g hg hreq
    obtain ⟨r, ce⟩ := rc
    have hri : r i = true := hreq (r, ce) (by simp)
    have hg' := next_lt .withdraw r ce hg
    have ih' := ih hg' (fun rc h => hreq rc (by simp [h]))
    simp only [stalls, run]
    by_cases hst : g ≠ i ∧ r g = false
    · have hen : enabled .withdraw g r ce = true := by simp [enabled, hst.2]
      have := (next_ne_self_of_other_req .withdraw r ce hg hi (Ne.symm hst.1) hri hen).2
      simp only [hst, ne_eq, not_false_eq_true, and_self, if_true]
      omega
    · simp only [hst, if_false]
      by_cases hch : next .withdraw n g r ce = g
      · rw [hch] at ih' ⊢; omega
      · have hne : i ≠ g := by
          intro h; subst h
          exact hch (next_withdraw_keep r ce hg hri)
        have := dist_next_lt .withdraw r ce hg hi hne hri hch
        omega

/-- Once granted, a port that keeps requesting stays granted (SP_WITHDRAW). -/
theorem rr_keep_granted {n i : Nat} (hi : i < n) :
    ∀ (l : List ((Nat → Bool) × Bool)), (∀ rc ∈ l, rc.1 i = true) → run .withdraw n i l = i := by
  intro l
  induction l with
  | nil => intro _; rfl
  | cons rc rest ih =>
    intro hreq
    obtain ⟨r, ce⟩ := rc
    simp only [run]
    rw [next_withdraw_keep r ce hi (hreq (r, ce) (by simp))]
    exact ih (fun rc h => hreq rc (by simp [h]))

/-! ### Both policies: the waiting phase -/

/-- Port `i` is not the owner at any cycle of the run (it is still waiting). -/
def waiting (p : Policy) (n i : Nat) : Nat → List ((Nat → Bool) × Bool) → Prop
  | _, [] => True
  | g, (r, ce) :: rest => g ≠ i ∧ waiting p n i (next p n g r ce) rest

/-- **Bounded waiting, both policies.**  While port `i` requests and has not been granted yet, every grant change
    brings the pointer strictly closer: (#grant changes) + dist(final, i) ≤ dist(initial, i) ≤ n-1.  (Under SP_CE
    the grant leaves a requesting owner when `ce` is asserted, hence the restriction to the waiting phase.) -/
theorem rr_bounded_wait_any (p : Policy) {n i : Nat} (hi : i < n) :
    ∀ (l : List ((Nat → Bool) × Bool)) {g : Nat}, g < n → (∀ rc ∈ l, rc.1 i = true) → waiting p n i g l →
      changes p n g l + dist n (run p n g l) i ≤ dist n g i ∧ dist n g i ≤ n - 1 := by
  intro l
  induction l with
  | nil =>
    intro g hg _ _
    have := dist_lt n g i (by omega)
    simp [changes, run]; omega
  | cons rc rest ih =>
    intro g hg hreq hw
    obtain ⟨r, ce⟩ := rc
    have hri : r i = true := hreq (r, ce) (by simp)
    have hg' := next_lt p r ce hg
    have ih' := (ih hg' (fun rc h => hreq rc (by simp [h])) hw.2).1
    have hdn := dist_lt n g i (by omega)
    refine ⟨?_, by omega⟩
    simp only [changes, run]
    by_cases hch : next p n g r ce = g
    · simp only [hch, ne_eq, not_true_eq_false, if_false] at ih' ⊢
      omega
    · have := dist_next_lt p r ce hg hi (Ne.symm hw.1) hri hch
      simp only [ne_eq, hch, not_false_eq_true, if_true]
      omega

/-- SP_CE: every enabled cycle (`ce`) in which `i` waits hands the grant on, so `i` waits through at most `n-1`
    of them. -/
def ceStalls (n i : Nat) (g : Nat) : List ((Nat → Bool) × Bool) → Nat
  | [] => 0
  | (r, ce) :: rest => (if g ≠ i ∧ ce = true then 1 else 0) + ceStalls n i (next .ce n g r ce) rest

theorem rr_ce_stalls_bounded {n i : Nat} (hi : i < n) :
    ∀ (l : List ((Nat → Bool) × Bool)) {g : Nat}, g < n → (∀ rc ∈ l, rc.1 i = true) → waiting .ce n i g l →
      ceStalls n i g l + dist n (run .ce n g l) i ≤ dist n g i := by
  intro l
  induction l with
  | nil => intro g _ _ _; simp [ceStalls, run]
  | cons rc rest ih =>
    intro g hg hreq hw
    obtain ⟨r, ce⟩ := rc
    have hri : r i = true := hreq (r, ce) (by simp)
    have hg' := next_lt .ce r ce hg
    have ih' := ih hg' (fun rc h => hreq rc (by simp [h])) hw.2
    simp only [ceStalls, run]
    by_cases hce : ce = true
    · subst hce
      have := (next_ne_self_of_other_req .ce r true hg hi (Ne.symm hw.1) hri (by simp [enabled])).2
      simp only [hw.1, ne_eq, not_false_eq_true, and_self, if_true]
      omega
    · have hce' : ce = false := by simpa using hce
      subst hce'
      rw [next_ce_hold r hg] at ih' ⊢
      simp
      omega

end Litex.RoundRobin
