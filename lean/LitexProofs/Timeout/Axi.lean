import LitexModel.Timeout.Axi
import LitexProofs.WaitTimer
import LitexProofs.RoundRobin
import LitexProofs.Timeout.Wb
/-
  Helper lemmas for the AXI-Lite / AXI timeout FSMs and the shared interconnects built on them.

  Invariant of each direction: `timer.count = t - min t (streak)`, `streak` = number of consecutive preceding
  cycles in which the FSM was in WAIT and its `wait_cond` held (an address/data beat pending, not accepted).
-/
namespace Litex.Timeout.Axi
open Litex
open Litex.Timeout.Wb (orAll orDat gate ones orAll_false orDat_zero)

/-! ### Write FSM alone -/

/-- The `timer.wait` values along a run of the write FSM from `s`. -/
def wWaits (t : Nat) : FState → List WIn → List Bool
  | _, [] => []
  | s, x :: xs => wWait s x :: wWaits t (wNext t s x) xs

theorem wNext_count_spec (t : Nat) (s : FState) (x : WIn) (k : Nat) (h : s.count = t - min t k) :
    (wNext t s x).count = t - min t (WaitTimer.streakStep k (wWait s x)) := by
  simp only [wNext]; rw [h, WaitTimer.next_spec]

theorem wRunFrom_count_spec (t : Nat) (xs : List WIn) : ∀ (s : FState) (k : Nat), s.count = t - min t k →
    ((wTimeout t).runFrom s xs).count = t - min t (WaitTimer.streakFrom k (wWaits t s xs)) := by
  induction xs with
  | nil => intro s k h; simpa [Machine.runFrom, wWaits, WaitTimer.streakFrom] using h
  | cons x xs ih =>
    intro s k h
    show ((wTimeout t).runFrom (wNext t s x) xs).count = _
    rw [ih _ _ (wNext_count_spec t s x k h)]
    simp [wWaits, WaitTimer.streakFrom]

/-- Consecutive preceding WAIT cycles with a pending, unaccepted AW/W beat. -/
def wWaited (t : Nat) (xs : List WIn) : Nat := WaitTimer.streak (wWaits t (fInit t) xs)

theorem wRun_count_spec (t : Nat) (xs : List WIn) :
    ((wTimeout t).run xs).count = t - min t (wWaited t xs) := by
  have h := wRunFrom_count_spec t xs (fInit t) 0 (by simp [fInit])
  simpa [Machine.run, wTimeout, wWaited, WaitTimer.streak] using h

/-! ### Read FSM alone -/

def rWaits (full : Bool) (dw t : Nat) : FState → List RIn → List Bool
  | _, [] => []
  | s, x :: xs => rWait s x :: rWaits full dw t (rNext full dw t s x) xs

theorem rNext_count_spec (full : Bool) (dw t : Nat) (s : FState) (x : RIn) (k : Nat)
    (h : s.count = t - min t k) :
    (rNext full dw t s x).count = t - min t (WaitTimer.streakStep k (rWait s x)) := by
  simp only [rNext]; rw [h, WaitTimer.next_spec]

theorem rRunFrom_count_spec (full : Bool) (dw t : Nat) (xs : List RIn) : ∀ (s : FState) (k : Nat),
    s.count = t - min t k →
    ((rTimeout full dw t).runFrom s xs).count =
      t - min t (WaitTimer.streakFrom k (rWaits full dw t s xs)) := by
  induction xs with
  | nil => intro s k h; simpa [Machine.runFrom, rWaits, WaitTimer.streakFrom] using h
  | cons x xs ih =>
    intro s k h
    show ((rTimeout full dw t).runFrom (rNext full dw t s x) xs).count = _
    rw [ih _ _ (rNext_count_spec full dw t s x k h)]
    simp [rWaits, WaitTimer.streakFrom]

def rWaited (full : Bool) (dw t : Nat) (xs : List RIn) : Nat :=
  WaitTimer.streak (rWaits full dw t (fInit t) xs)

theorem rRun_count_spec (full : Bool) (dw t : Nat) (xs : List RIn) :
    ((rTimeout full dw t).run xs).count = t - min t (rWaited full dw t xs) := by
  have h := rRunFrom_count_spec full dw t xs (fInit t) 0 (by simp [fInit])
  simpa [Machine.run, rTimeout, rWaited, WaitTimer.streak] using h

/-! ### Request counter -/

@[simp] theorem ctrNext_idle (c : Nat) : ctrNext c false false = c := by simp [ctrNext]

theorem ctrNext_req0 : ctrNext 0 true false = 1 := by decide
theorem ctrNext_resp1 : ctrNext 1 false true = 0 := by decide


/-! ### Shared interconnect, write direction -/

namespace SharedW
variable (c : Cfg)

theorem tRes_some {t : Nat} (ht : c.t = some t) (s : DState) (x : WBusIn) :
    tRes c s x = wOut s.tm (tIn c s x) := by simp [tRes, ht]

theorem next_tm {t : Nat} (ht : c.t = some t) (s : DState) (x : WBusIn) :
    (next c s x).tm = wNext t s.tm (tIn c s x) := by simp [next, ht]

/-- Port-level observation: the FSM is in WAIT and the write-channel owner has an AW or W beat that is not
    accepted in this cycle. -/
def ownerWaits (s : DState) (x : WBusIn) : Bool :=
  !s.tm.respond &&
    (((x.ms s.grant).awv && !((out c s x).toM s.grant).awr) ||
     ((x.ms s.grant).wv && !((out c s x).toM s.grant).wr))

def waits : DState → List WBusIn → List Bool
  | _, [] => []
  | s, x :: xs => ownerWaits c s x :: waits (next c s x) xs

/-- Consecutive preceding cycles in which the owner waited (history from reset). -/
def waited (xs : List WBusIn) : Nat := WaitTimer.streak (waits c (dInit c) xs)

theorem ownerWaits_eq {t : Nat} (ht : c.t = some t) (s : DState) (x : WBusIn) :
    ownerWaits c s x = wWait s.tm (tIn c s x) := by
  cases hr : s.tm.respond
  · simp [ownerWaits, out, tRes_some c ht, wWait, wWaitCond, wOut, hr, tIn, bus]
  · simp [ownerWaits, wWait, hr]

theorem runFrom_count_spec {t : Nat} (ht : c.t = some t) (xs : List WBusIn) : ∀ (s : DState) (k : Nat),
    s.tm.count = t - min t k →
    ((machine c).runFrom s xs).tm.count = t - min t (WaitTimer.streakFrom k (waits c s xs)) := by
  induction xs with
  | nil => intro s k h; simpa [Machine.runFrom, waits, WaitTimer.streakFrom] using h
  | cons x xs ih =>
    intro s k h
    show ((machine c).runFrom (next c s x) xs).tm.count = _
    have hn : (next c s x).tm.count = t - min t (WaitTimer.streakStep k (ownerWaits c s x)) := by
      rw [next_tm c ht, ownerWaits_eq c ht]; exact wNext_count_spec t s.tm _ k h
    rw [ih _ _ hn]
    simp [waits, WaitTimer.streakFrom]

theorem run_count_spec {t : Nat} (ht : c.t = some t) (xs : List WBusIn) :
    ((machine c).run xs).tm.count = t - min t (waited c xs) := by
  have h := runFrom_count_spec c ht xs (dInit c) 0 (by simp [dInit, ht, fInit])
  simpa [Machine.run, machine, waited, WaitTimer.streak] using h

theorem grant_lt_step (s : DState) (x : WBusIn) (h : s.grant < c.n) : (next c s x).grant < c.n :=
  RoundRobin.next_lt .ce _ _ h

theorem grant_lt (hn : 0 < c.n) (xs : List WBusIn) : ((machine c).run xs).grant < c.n :=
  Machine.invariant_runFrom (machine c) (fun s => s.grant < c.n) (fun s x h => grant_lt_step c s x h)
    xs (machine c).init hn

/-- During RESPOND the grant cannot move (`ce = 0`: a beat is offered or the forced `b.valid` is up). -/
theorem respond_holds_grant {t : Nat} (ht : c.t = some t) (s : DState) (x : WBusIn)
    (hr : s.tm.respond = true) (hg : s.grant < c.n) : (next c s x).grant = s.grant := by
  have hce : ce c s x = false := by
    simp only [ce, tRes_some c ht, wOut, hr, if_true, tIn]
    cases (bus s x).awv <;> cases (bus s x).wv <;> simp
  simp only [next, hce]
  exact RoundRobin.next_ce_hold _ hg

end SharedW

/-! ### Shared interconnect, read direction -/

namespace SharedR
variable (c : Cfg)

theorem tRes_some {t : Nat} (ht : c.t = some t) (s : DState) (x : RBusIn) :
    tRes c s x = rOut c.full c.dw s.tm (tIn c s x) := by simp [tRes, ht]

theorem next_tm {t : Nat} (ht : c.t = some t) (s : DState) (x : RBusIn) :
    (next c s x).tm = rNext c.full c.dw t s.tm (tIn c s x) := by simp [next, ht]

def ownerWaits (s : DState) (x : RBusIn) : Bool :=
  !s.tm.respond && ((x.ms s.grant).arv && !((out c s x).toM s.grant).arr)

def waits : DState → List RBusIn → List Bool
  | _, [] => []
  | s, x :: xs => ownerWaits c s x :: waits (next c s x) xs

def waited (xs : List RBusIn) : Nat := WaitTimer.streak (waits c (dInit c) xs)

theorem ownerWaits_eq {t : Nat} (ht : c.t = some t) (s : DState) (x : RBusIn) :
    ownerWaits c s x = rWait s.tm (tIn c s x) := by
  cases hr : s.tm.respond
  · simp [ownerWaits, out, tRes_some c ht, rWait, rWaitCond, rOut, hr, tIn, bus]
  · simp [ownerWaits, rWait, hr]

theorem runFrom_count_spec {t : Nat} (ht : c.t = some t) (xs : List RBusIn) : ∀ (s : DState) (k : Nat),
    s.tm.count = t - min t k →
    ((machine c).runFrom s xs).tm.count = t - min t (WaitTimer.streakFrom k (waits c s xs)) := by
  induction xs with
  | nil => intro s k h; simpa [Machine.runFrom, waits, WaitTimer.streakFrom] using h
  | cons x xs ih =>
    intro s k h
    show ((machine c).runFrom (next c s x) xs).tm.count = _
    have hn : (next c s x).tm.count = t - min t (WaitTimer.streakStep k (ownerWaits c s x)) := by
      rw [next_tm c ht, ownerWaits_eq c ht]; exact rNext_count_spec c.full c.dw t s.tm _ k h
    rw [ih _ _ hn]
    simp [waits, WaitTimer.streakFrom]

theorem run_count_spec {t : Nat} (ht : c.t = some t) (xs : List RBusIn) :
    ((machine c).run xs).tm.count = t - min t (waited c xs) := by
  have h := runFrom_count_spec c ht xs (dInit c) 0 (by simp [dInit, ht, fInit])
  simpa [Machine.run, machine, waited, WaitTimer.streak] using h

theorem grant_lt_step (s : DState) (x : RBusIn) (h : s.grant < c.n) : (next c s x).grant < c.n :=
  RoundRobin.next_lt .ce _ _ h

theorem grant_lt (hn : 0 < c.n) (xs : List RBusIn) : ((machine c).run xs).grant < c.n :=
  Machine.invariant_runFrom (machine c) (fun s => s.grant < c.n) (fun s x h => grant_lt_step c s x h)
    xs (machine c).init hn

theorem respond_holds_grant {t : Nat} (ht : c.t = some t) (s : DState) (x : RBusIn)
    (hr : s.tm.respond = true) (hg : s.grant < c.n) : (next c s x).grant = s.grant := by
  have hce : ce c s x = false := by
    simp only [ce, tRes_some c ht, rOut, hr, if_true, tIn]
    cases (bus s x).arv <;> simp
  simp only [next, hce]
  exact RoundRobin.next_ce_hold _ hg

end SharedR

end Litex.Timeout.Axi
