import LitexModel.Timeout.Axi
import LitexProofs.WaitTimer
import LitexProofs.RoundRobin
import LitexProofs.Timeout.Wb
/-
  Helper lemmas for the AXI-Lite / AXI timeout FSMs and the shared interconnects built on them.

  Invariant of each direction: `timer.count = t - min t (streak)`, `streak` = number of consecutive preceding
  cycles in which the FSM was in WAIT and its `wait_cond` held (an address/data beat pending, not accepted).
-/
namespace Litex.Timeout.Axi
open Litex
open Litex.Timeout.Wb (orAll orDat gate ones orAll_false orDat_zero)

/-! ### Write FSM alone -/

/-- The `timer.wait` values along a run of the write FSM from `s`. -/
def wWaits (t : Nat) : FState → List WIn → List Bool
  | _, [] => []
  | s, x :: xs => wWait s x :: wWaits t (wNext t s x) xs

theorem wNext_count_spec (t : Nat) (s : FState) (x : WIn) (k : Nat) (h : s.count = t - min t k) :
    (wNext t s x).count = t - min t (WaitTimer.streakStep k (wWait s x)) := by
  simp only [wNext]; rw [h, WaitTimer.next_spec]

theorem wRunFrom_count_spec (t : Nat) (xs : List WIn) : ∀ (s : FState) (k : Nat), s.count = t - min t k →
    ((wTimeout t).runFrom s xs).count = t - min t (WaitTimer.streakFrom k (wWaits t s xs)) := by
  induction xs with
  | nil => intro s k h; simpa [Machine.runFrom, wWaits, WaitTimer.streakFrom] using h
  | cons x xs ih =>
    intro s k h
    show ((wTimeout t).runFrom (wNext t s x) xs).count = _
    rw [ih _ _ (wNext_count_spec t s x k h)]
    simp [wWaits, WaitTimer.streakFrom]

/-- Consecutive preceding WAIT cycles with a pending, unaccepted AW/W beat. -/
def wWaited (t : Nat) (xs : List WIn) : Nat := WaitTimer.streak (wWaits t (fInit t) xs)

theorem wRun_count_spec (t : Nat) (xs : List WIn) :
    ((wTimeout t).run xs).count = t - min t (wWaited t xs) := by
  have h := wRunFrom_count_spec t xs (fInit t) 0 (by simp [fInit])
  simpa [Machine.run, wTimeout, wWaited, WaitTimer.streak] using h

/-! ### Read FSM alone -/

def rWaits (full : Bool) (dw t : Nat) : FState → List RIn → List Bool
  | _, [] => []
  | s, x :: xs => rWait s x :: rWaits full dw t (rNext full dw t s x) xs

theorem rNext_count_spec (full : Bool) (dw t : Nat) (s : FState) (x : RIn) (k : Nat)
    (h : s.count = t - min t k) :
    (rNext full dw t s x).count = t - min t (WaitTimer.streakStep k (rWait s x)) := by
  simp only [rNext]; rw [h, WaitTimer.next_spec]

theorem rRunFrom_count_spec (full : Bool) (dw t : Nat) (xs : List RIn) : ∀ (s : FState) (k : Nat),
    s.count = t - min t k →
    ((rTimeout full dw t).runFrom s xs).count =
      t - min t (WaitTimer.streakFrom k (rWaits full dw t s xs)) := by
  induction xs with
  | nil => intro s k h; simpa [Machine.runFrom, rWaits, WaitTimer.streakFrom] using h
  | cons x xs ih =>
    intro s k h
    show ((rTimeout full dw t).runFrom (rNext full dw t s x) xs).count = _
    rw [ih _ _ (rNext_count_spec full dw t s x k h)]
    simp [rWaits, WaitTimer.streakFrom]

def rWaited (full : Bool) (dw t : Nat) (xs : List RIn) : Nat :=
  WaitTimer.streak (rWaits full dw t (fInit t) xs)

theorem rRun_count_spec (full : Bool) (dw t : Nat) (xs : List RIn) :
    ((rTimeout full dw t).run xs).count = t - min t (rWaited full dw t xs) := by
  have h := rRunFrom_count_spec full dw t xs (fInit t) 0 (by simp [fInit])
  simpa [Machine.run, rTimeout, rWaited, WaitTimer.streak] using h

/-! ### Request counter -/

@[simp] theorem ctrNext_idle (c : Nat) : ctrNext c false false = c := by simp [ctrNext]

theorem ctrNext_req0 : ctrNext 0 true false = 1 := by decide
theorem ctrNext_resp1 : ctrNext 1 false true = 0 := by decide


/-! ### Shared interconnect, write direction -/

namespace SharedW
variable (c : Cfg)

theorem tRes_some {t : Nat} (ht : c.t = some t) (s : DState) (x : WBusIn) :
    tRes c s x = wOut s.tm (tIn c s x) := by simp [tRes, ht]

theorem next_tm {t : Nat} (ht : c.t = some t) (s : DState) (x : WBusIn) :
    (next c s x).tm = wNext t s.tm (tIn c s x) := by simp [next, ht]

/-- Port-level observation: the FSM is in WAIT and the write-channel owner has an AW or W beat that is not
    accepted in this cycle. -/
def ownerWaits (s : DState) (x : WBusIn) : Bool :=
  !s.tm.respond &&
    (((x.ms s.grant).awv && !((out c s x).toM s.grant).awr) ||
     ((x.ms s.grant).wv && !((out c s x).toM s.grant).wr))

def waits : DState → List WBusIn → List Bool
  | _, [] => []
  | s, x :: xs => ownerWaits c s x :: waits (next c s x) xs

/-- Consecutive preceding cycles in which the owner waited (history from reset). -/
def waited (xs : List WBusIn) : Nat := WaitTimer.streak (waits c (dInit c) xs)

theorem ownerWaits_eq {t : Nat} (ht : c.t = some t) (s : DState) (x : WBusIn) :
    ownerWaits c s x = wWait s.tm (tIn c s x) := by
  cases hr : s.tm.respond
  · simp [ownerWaits, out, tRes_some c ht, wWait, wWaitCond, wOut, hr, tIn, bus]
  · simp [ownerWaits, wWait, hr]

theorem runFrom_count_spec {t : Nat} (ht : c.t = some t) (xs : List WBusIn) : ∀ (s : DState) (k : Nat),
    s.tm.count = t - min t k →
    ((machine c).runFrom s xs).tm.count = t - min t (WaitTimer.streakFrom k (waits c s xs)) := by
  induction xs with
  | nil => intro s k h; simpa [Machine.runFrom, waits, WaitTimer.streakFrom] using h
  | cons x xs ih =>
    intro s k h
    show ((machine c).runFrom (next c s x) xs).tm.count = _
    have hn : (next c s x).tm.count = t - min t (WaitTimer.streakStep k (ownerWaits c s x)) := by
      rw [next_tm c ht, ownerWaits_eq c ht]; exact wNext_count_spec t s.tm _ k h
    rw [ih _ _ hn]
    simp [waits, WaitTimer.streakFrom]

theorem run_count_spec {t : Nat} (ht : c.t = some t) (xs : List WBusIn) :
    ((machine c).run xs).tm.count = t - min t (waited c xs) := by
  have h := runFrom_count_spec c ht xs (dInit c) 0 (by simp [dInit, ht, fInit])
  simpa [Machine.run, machine, waited, WaitTimer.streak] using h

theorem grant_lt_step (s : DState) (x : WBusIn) (h : s.grant < c.n) : (next c s x).grant < c.n :=
  RoundRobin.next_lt .ce _ _ h

theorem grant_lt (hn : 0 < c.n) (xs : List WBusIn) : ((machine c).run xs).grant < c.n :=
  Machine.invariant_runFrom (machine c) (fun s => s.grant < c.n) (fun s x h => grant_lt_step c s x h)
    xs (machine c).init hn

/-- During RESPOND the grant cannot move (`ce = 0`: a beat is offered or the forced `b.valid` is up). -/
theorem respond_holds_grant {t : Nat} (ht : c.t = some t) (s : DState) (x : WBusIn)
    (hr : s.tm.respond = true) (hg : s.grant < c.n) : (next c s x).grant = s.grant := by
  have hce : ce c s x = false := by
    simp only [ce, tRes_some c ht, wOut, hr, if_true, tIn]
    cases (bus s x).awv <;> cases (bus s x).wv <;> simp
  simp only [next, hce]
  exact RoundRobin.next_ce_hold _ hg

/-! Scenario lemmas: the owner offers AW and W, every slave is silent. -/

/-- No slave raises `aw.ready`, `w.ready` or `b.valid`. -/
def Silent (x : WBusIn) : Prop := ∀ j, (x.ss j).awr = false ∧ (x.ss j).wr = false ∧ (x.ss j).bv = false

theorem tIn_silent (s : DState) (x : WBusIn) (h : Silent x) :
    (tIn c s x).awr = false ∧ (tIn c s x).wr = false ∧ (tIn c s x).bv = false :=
  ⟨orAll_false (fun j => by simp [(h j).1]), orAll_false (fun j => by simp [(h j).2.1]),
   orAll_false (fun j => by simp [(h j).2.2])⟩

/-- One WAIT cycle of an unaccepted AW+W request. -/
theorem silent_wait_step {t : Nat} (ht : c.t = some t) (s : DState) (x : WBusIn)
    (hgn : s.grant < c.n) (hl : s.lock = 0) (hr : s.tm.respond = false)
    (haw : (x.ms s.grant).awv = true) (hw : (x.ms s.grant).wv = true) (hsil : Silent x) :
    ((out c s x).toM s.grant).awr = false ∧ ((out c s x).toM s.grant).wr = false ∧
    ((out c s x).toM s.grant).bv = false ∧ (out c s x).error = WaitTimer.done s.tm.count ∧
    (next c s x).grant = s.grant ∧ (next c s x).lock = 0 ∧
    (next c s x).tm = { count := WaitTimer.next t s.tm.count true, respond := WaitTimer.done s.tm.count } := by
  obtain ⟨h1, h2, h3⟩ := tIn_silent c s x hsil
  have hi : (tIn c s x).awv = true ∧ (tIn c s x).wv = true := ⟨haw, hw⟩
  have hres : tRes c s x = { awr := false, wr := false, bv := false, bresp := (tIn c s x).bresp,
                             error := WaitTimer.done s.tm.count } := by
    rw [tRes_some c ht]; simp [wOut, hr, h1, h2, h3, wWaitCond, hi.1]
  have hce : ce c s x = false := by simp [ce, bus, haw]
  refine ⟨by simp [out, hres], by simp [out, hres], by simp [out, hres], by simp [out, hres], ?_, ?_, ?_⟩
  · simp only [next, hce]; exact RoundRobin.next_ce_hold _ hgn
  · simp [next, req, resp, hres, hl]
  · rw [next_tm c ht]; simp [wNext, wWait, wWaitCond, hr, h1, h2, hi.1, hi.2, wOut]

/-- The RESPOND cycle in which the offered AW and W are absorbed. -/
theorem silent_absorb_step {t : Nat} (ht : c.t = some t) (s : DState) (x : WBusIn)
    (hgn : s.grant < c.n) (hl : s.lock = 0) (hr : s.tm.respond = true)
    (haw : (x.ms s.grant).awv = true) (hw : (x.ms s.grant).wv = true) :
    ((out c s x).toM s.grant).awr = true ∧ ((out c s x).toM s.grant).wr = true ∧
    ((out c s x).toM s.grant).bv = false ∧ (out c s x).error = false ∧
    (next c s x).grant = s.grant ∧ (next c s x).lock = 1 ∧
    (next c s x).tm = { count := t, respond := true } := by
  have hi : (tIn c s x).awv = true ∧ (tIn c s x).wv = true := ⟨haw, hw⟩
  have hres : tRes c s x = { awr := true, wr := true, bv := false, bresp := RESP_SLVERR, error := false } := by
    rw [tRes_some c ht]; simp [wOut, hr, hi.1, hi.2]
  refine ⟨by simp [out, hres], by simp [out, hres], by simp [out, hres], by simp [out, hres],
          respond_holds_grant c ht s x hr hgn, ?_, ?_⟩
  · simp [next, req, resp, hres, hl, bus, haw, ctrNext]
  · rw [next_tm c ht]; simp [wNext, wWait, hr, wOut, hi.1, hi.2, WaitTimer.next]

/-- The RESPOND cycle in which the forced `B` is taken. -/
theorem silent_b_step {t : Nat} (ht : c.t = some t) (s : DState) (x : WBusIn)
    (hgn : s.grant < c.n) (hl : s.lock = 1) (hr : s.tm.respond = true)
    (haw : (x.ms s.grant).awv = false) (hw : (x.ms s.grant).wv = false) (hb : (x.ms s.grant).br = true) :
    ((out c s x).toM s.grant).bv = true ∧ ((out c s x).toM s.grant).bresp = RESP_SLVERR ∧
    (out c s x).error = false ∧
    (next c s x).grant = s.grant ∧ (next c s x).lock = 0 ∧ (next c s x).tm = fInit t := by
  have hi : (tIn c s x).awv = false ∧ (tIn c s x).wv = false ∧ (tIn c s x).br = true := ⟨haw, hw, hb⟩
  have hres : tRes c s x = { awr := false, wr := false, bv := true, bresp := RESP_SLVERR, error := false } := by
    rw [tRes_some c ht]; simp [wOut, hr, hi.1, hi.2.1]
  refine ⟨by simp [out, hres], by simp [out, hres], by simp [out, hres],
          respond_holds_grant c ht s x hr hgn, ?_, ?_⟩
  · simp [next, req, resp, hres, hl, bus, haw, hb, ctrNext]
  · rw [next_tm c ht]; exact by
      simp [wNext, wWait, hr, wOut, hi.1, hi.2.1, hi.2.2, WaitTimer.next, fInit]

/-- Waiting stretch: `ys.length ≤ cnt` cycles of an unaccepted AW+W request of the owner with silent slaves. -/
theorem silent_waiting {t : Nat} (ht : c.t = some t) (ys : List WBusIn) : ∀ (s : DState) (cnt : Nat),
    s.grant < c.n → s.lock = 0 → s.tm = { count := cnt, respond := false } → ys.length ≤ cnt → cnt ≤ t →
    (∀ y ∈ ys, (y.ms s.grant).awv = true ∧ (y.ms s.grant).wv = true ∧ Silent y) →
    ((machine c).runFrom s ys).grant = s.grant ∧ ((machine c).runFrom s ys).lock = 0 ∧
    ((machine c).runFrom s ys).tm = { count := cnt - ys.length, respond := false } ∧
    ∀ o ∈ (machine c).traceFrom s ys, o.error = false ∧ (o.toM s.grant).awr = false ∧
      (o.toM s.grant).wr = false ∧ (o.toM s.grant).bv = false := by
  induction ys with
  | nil => intro s cnt _ hl htm _ _ _; simp [Machine.runFrom, Machine.traceFrom, hl, htm]
  | cons y ys ih =>
    intro s cnt hgn hl htm hlen hct hreq
    obtain ⟨haw, hw, hsil⟩ := hreq y (by simp)
    have hr : s.tm.respond = false := by rw [htm]
    have hpos : cnt ≠ 0 := by simp at hlen; omega
    have hdone : WaitTimer.done s.tm.count = false := by rw [htm]; simp [WaitTimer.done, hpos]
    obtain ⟨o1, o2, o3, o4, n1, n2, n3⟩ := silent_wait_step c ht s y hgn hl hr haw hw hsil
    have hn3 : (next c s y).tm = { count := cnt - 1, respond := false } := by
      rw [n3, hdone, htm]; simp [WaitTimer.next, WaitTimer.done, hpos]
    have ih' := ih (next c s y) (cnt - 1) (by rw [n1]; exact hgn) n2 hn3 (by simp at hlen; omega) (by omega)
      (fun z hz => by rw [n1]; exact hreq z (by simp [hz]))
    obtain ⟨r1, r2, r3, r4⟩ := ih'
    refine ⟨?_, ?_, ?_, ?_⟩
    · show ((machine c).runFrom (next c s y) ys).grant = _
      rw [r1, n1]
    · exact r2
    · show ((machine c).runFrom (next c s y) ys).tm = _
      rw [r3]; simp; omega
    · intro o ho
      simp only [Machine.traceFrom, List.mem_cons] at ho
      rcases ho with rfl | ho
      · exact ⟨by rw [show (machine c).out s y = out c s y from rfl, o4, hdone], o1, o2, o3⟩
      · have := r4 o ho; rw [n1] at this; exact this

end SharedW

/-! ### Shared interconnect, read direction -/

namespace SharedR
variable (c : Cfg)

theorem tRes_some {t : Nat} (ht : c.t = some t) (s : DState) (x : RBusIn) :
    tRes c s x = rOut c.full c.dw s.tm (tIn c s x) := by simp [tRes, ht]

theorem next_tm {t : Nat} (ht : c.t = some t) (s : DState) (x : RBusIn) :
    (next c s x).tm = rNext c.full c.dw t s.tm (tIn c s x) := by simp [next, ht]

def ownerWaits (s : DState) (x : RBusIn) : Bool :=
  !s.tm.respond && ((x.ms s.grant).arv && !((out c s x).toM s.grant).arr)

def waits : DState → List RBusIn → List Bool
  | _, [] => []
  | s, x :: xs => ownerWaits c s x :: waits (next c s x) xs

def waited (xs : List RBusIn) : Nat := WaitTimer.streak (waits c (dInit c) xs)

theorem ownerWaits_eq {t : Nat} (ht : c.t = some t) (s : DState) (x : RBusIn) :
    ownerWaits c s x = rWait s.tm (tIn c s x) := by
  cases hr : s.tm.respond
  · simp [ownerWaits, out, tRes_some c ht, rWait, rWaitCond, rOut, hr, tIn, bus]
  · simp [ownerWaits, rWait, hr]

theorem runFrom_count_spec {t : Nat} (ht : c.t = some t) (xs : List RBusIn) : ∀ (s : DState) (k : Nat),
    s.tm.count = t - min t k →
    ((machine c).runFrom s xs).tm.count = t - min t (WaitTimer.streakFrom k (waits c s xs)) := by
  induction xs with
  | nil => intro s k h; simpa [Machine.runFrom, waits, WaitTimer.streakFrom] using h
  | cons x xs ih =>
    intro s k h
    show ((machine c).runFrom (next c s x) xs).tm.count = _
    have hn : (next c s x).tm.count = t - min t (WaitTimer.streakStep k (ownerWaits c s x)) := by
      rw [next_tm c ht, ownerWaits_eq c ht]; exact rNext_count_spec c.full c.dw t s.tm _ k h
    rw [ih _ _ hn]
    simp [waits, WaitTimer.streakFrom]

theorem run_count_spec {t : Nat} (ht : c.t = some t) (xs : List RBusIn) :
    ((machine c).run xs).tm.count = t - min t (waited c xs) := by
  have h := runFrom_count_spec c ht xs (dInit c) 0 (by simp [dInit, ht, fInit])
  simpa [Machine.run, machine, waited, WaitTimer.streak] using h

theorem grant_lt_step (s : DState) (x : RBusIn) (h : s.grant < c.n) : (next c s x).grant < c.n :=
  RoundRobin.next_lt .ce _ _ h

theorem grant_lt (hn : 0 < c.n) (xs : List RBusIn) : ((machine c).run xs).grant < c.n :=
  Machine.invariant_runFrom (machine c) (fun s => s.grant < c.n) (fun s x h => grant_lt_step c s x h)
    xs (machine c).init hn

theorem respond_holds_grant {t : Nat} (ht : c.t = some t) (s : DState) (x : RBusIn)
    (hr : s.tm.respond = true) (hg : s.grant < c.n) : (next c s x).grant = s.grant := by
  have hce : ce c s x = false := by
    simp only [ce, tRes_some c ht, rOut, hr, if_true, tIn]
    cases (bus s x).arv <;> simp
  simp only [next, hce]
  exact RoundRobin.next_ce_hold _ hg

/-- No slave raises `ar.ready` or `r.valid`. -/
def Silent (x : RBusIn) : Prop := ∀ j, (x.ss j).arr = false ∧ (x.ss j).rv = false

theorem tIn_silent (s : DState) (x : RBusIn) (h : Silent x) :
    (tIn c s x).arr = false ∧ (tIn c s x).rv = false :=
  ⟨orAll_false (fun j => by simp [(h j).1]), orAll_false (fun j => by simp [(h j).2])⟩

theorem silent_wait_step {t : Nat} (ht : c.t = some t) (s : DState) (x : RBusIn)
    (hgn : s.grant < c.n) (hl : s.lock = 0) (hr : s.tm.respond = false)
    (har : (x.ms s.grant).arv = true) (hsil : Silent x) :
    ((out c s x).toM s.grant).arr = false ∧ ((out c s x).toM s.grant).rv = false ∧
    (out c s x).error = WaitTimer.done s.tm.count ∧
    (next c s x).grant = s.grant ∧ (next c s x).lock = 0 ∧
    (next c s x).tm = { count := WaitTimer.next t s.tm.count true, respond := WaitTimer.done s.tm.count } := by
  obtain ⟨h1, h2⟩ := tIn_silent c s x hsil
  have hi : (tIn c s x).arv = true := har
  have hres : (tRes c s x).arr = false ∧ (tRes c s x).rv = false ∧
      (tRes c s x).error = WaitTimer.done s.tm.count := by
    rw [tRes_some c ht]; simp [rOut, hr, h1, h2, rWaitCond, hi]
  have hce : ce c s x = false := by simp [ce, bus, har]
  refine ⟨by simp [out, hres.1], by simp [out, hres.2.1], by simp [out, hres.2.2], ?_, ?_, ?_⟩
  · simp only [next, hce]; exact RoundRobin.next_ce_hold _ hgn
  · simp [next, req, resp, hres.1, hres.2.1, hl]
  · rw [next_tm c ht]; simp [rNext, rWait, rWaitCond, hr, h1, hi, rOut]

theorem silent_absorb_step {t : Nat} (ht : c.t = some t) (s : DState) (x : RBusIn)
    (hgn : s.grant < c.n) (hl : s.lock = 0) (hr : s.tm.respond = true)
    (har : (x.ms s.grant).arv = true) :
    ((out c s x).toM s.grant).arr = true ∧ ((out c s x).toM s.grant).rv = false ∧
    (out c s x).error = false ∧
    (next c s x).grant = s.grant ∧ (next c s x).lock = 1 ∧
    (next c s x).tm = { count := t, respond := true } := by
  have hi : (tIn c s x).arv = true := har
  have hres : (tRes c s x).arr = true ∧ (tRes c s x).rv = false ∧ (tRes c s x).error = false := by
    rw [tRes_some c ht]; simp [rOut, hr, hi]
  refine ⟨by simp [out, hres.1], by simp [out, hres.2.1], by simp [out, hres.2.2],
          respond_holds_grant c ht s x hr hgn, ?_, ?_⟩
  · simp [next, req, resp, hres.1, hres.2.1, hl, bus, har, ctrNext]
  · rw [next_tm c ht]; simp [rNext, rWait, hr, rOut, hi, WaitTimer.next]

theorem silent_r_step {t : Nat} (ht : c.t = some t) (s : DState) (x : RBusIn)
    (hgn : s.grant < c.n) (hl : s.lock = 1) (hr : s.tm.respond = true)
    (har : (x.ms s.grant).arv = false) (hb : (x.ms s.grant).rr = true) :
    ((out c s x).toM s.grant).rv = true ∧ ((out c s x).toM s.grant).rresp = RESP_SLVERR ∧
    ((out c s x).toM s.grant).rdata = ones c.dw ∧ (c.full = true → ((out c s x).toM s.grant).rlast = true) ∧
    (out c s x).error = false ∧
    (next c s x).grant = s.grant ∧ (next c s x).lock = 0 ∧ (next c s x).tm = fInit t := by
  have hi : (tIn c s x).arv = false ∧ (tIn c s x).rr = true := ⟨har, hb⟩
  have hres : (tRes c s x).arr = false ∧ (tRes c s x).rv = true ∧ (tRes c s x).rresp = RESP_SLVERR ∧
      (tRes c s x).rdata = ones c.dw ∧ (c.full = true → (tRes c s x).rlast = true) ∧
      (tRes c s x).error = false := by
    rw [tRes_some c ht]; simp [rOut, hr, hi.1]
    intro hf; simp [hf]
  have hresp : resp c s x = true := by
    simp only [resp, hres.2.1, bus, hb, Bool.true_and]
    cases hf : c.full
    · simp
    · simp [hres.2.2.2.2.1 hf]
  refine ⟨by simp [out, hres.2.1], by simp [out, hres.2.2.1], by simp [out, hres.2.2.2.1], ?_,
          by simp [out, hres.2.2.2.2.2], respond_holds_grant c ht s x hr hgn, ?_, ?_⟩
  · intro hf; simp [out, hres.2.2.2.2.1 hf]
  · simp [next, req, hresp, hres.1, hl, bus, har, ctrNext]
  · rw [next_tm c ht]; simp [rNext, rWait, hr, rOut, hi.1, hi.2, WaitTimer.next, fInit]

theorem silent_waiting {t : Nat} (ht : c.t = some t) (ys : List RBusIn) : ∀ (s : DState) (cnt : Nat),
    s.grant < c.n → s.lock = 0 → s.tm = { count := cnt, respond := false } → ys.length ≤ cnt → cnt ≤ t →
    (∀ y ∈ ys, (y.ms s.grant).arv = true ∧ Silent y) →
    ((machine c).runFrom s ys).grant = s.grant ∧ ((machine c).runFrom s ys).lock = 0 ∧
    ((machine c).runFrom s ys).tm = { count := cnt - ys.length, respond := false } ∧
    ∀ o ∈ (machine c).traceFrom s ys, o.error = false ∧ (o.toM s.grant).arr = false ∧
      (o.toM s.grant).rv = false := by
  induction ys with
  | nil => intro s cnt _ hl htm _ _ _; simp [Machine.runFrom, Machine.traceFrom, hl, htm]
  | cons y ys ih =>
    intro s cnt hgn hl htm hlen hct hreq
    obtain ⟨har, hsil⟩ := hreq y (by simp)
    have hr : s.tm.respond = false := by rw [htm]
    have hpos : cnt ≠ 0 := by simp at hlen; omega
    have hdone : WaitTimer.done s.tm.count = false := by rw [htm]; simp [WaitTimer.done, hpos]
    obtain ⟨o1, o2, o4, n1, n2, n3⟩ := silent_wait_step c ht s y hgn hl hr har hsil
    have hn3 : (next c s y).tm = { count := cnt - 1, respond := false } := by
      rw [n3, hdone, htm]; simp [WaitTimer.next, WaitTimer.done, hpos]
    have ih' := ih (next c s y) (cnt - 1) (by rw [n1]; exact hgn) n2 hn3 (by simp at hlen; omega) (by omega)
      (fun z hz => by rw [n1]; exact hreq z (by simp [hz]))
    obtain ⟨r1, r2, r3, r4⟩ := ih'
    refine ⟨?_, ?_, ?_, ?_⟩
    · show ((machine c).runFrom (next c s y) ys).grant = _
      rw [r1, n1]
    · exact r2
    · show ((machine c).runFrom (next c s y) ys).tm = _
      rw [r3]; simp; omega
    · intro o ho
      simp only [Machine.traceFrom, List.mem_cons] at ho
      rcases ho with rfl | ho
      · exact ⟨by rw [show (machine c).out s y = out c s y from rfl, o4, hdone], o1, o2⟩
      · have := r4 o ho; rw [n1] at this; exact this

end SharedR

end Litex.Timeout.Axi
