import LitexModel.Timeout.Axi
import LitexProofs.WaitTimer
import LitexProofs.RoundRobin
import LitexProofs.Timeout.Wb
/-
  Helper lemmas for the AXI-Lite / AXI timeout FSMs and the shared interconnects built on them.

  Invariant of each direction: `timer.count = t - min t (streak)`, `streak` = number of consecutive preceding
  cycles in which the FSM was in WAIT and its `wait_cond` held (an address/data beat pending, not accepted).
-/
namespace Litex.Timeout.Axi
open Litex
open Litex.Timeout.Wb (orAll orDat gate ones orAll_false orDat_zero)

/-! ### Write FSM alone -/

/-- The `timer.wait` values along a run of the write FSM from `s`. -/
def wWaits (t : Nat) : FState → List WIn → List Bool
  | _, [] => []
  | s, x :: xs => wWait s x :: wWaits t (wNext t s x) xs

theorem wNext_count_spec (t : Nat) (s : FState) (x : WIn) (k : Nat) (h : s.count = t - min t k) :
    (wNext t s x).count = t - min t (WaitTimer.streakStep k (wWait s x)) := by
  simp only [wNext]; rw [h, WaitTimer.next_spec]

theorem wRunFrom_count_spec (t : Nat) (xs : List WIn) : ∀ (s : FState) (k : Nat), s.count = t - min t k →
    ((wTimeout t).runFrom s xs).count = t - min t (WaitTimer.streakFrom k (wWaits t s xs)) := by
  induction xs with
  | nil => intro s k h; simpa [Machine.runFrom, wWaits, WaitTimer.streakFrom] using h
  | cons x xs ih =>
    intro s k h
    show ((wTimeout t).runFrom (wNext t s x) xs).count = _
    rw [ih _ _ (wNext_count_spec t s x k h)]
    simp [wWaits, WaitTimer.streakFrom]

/-- Consecutive preceding WAIT cycles with a pending, unaccepted AW/W beat. -/
def wWaited (t : Nat) (xs : List WIn) : Nat := WaitTimer.streak (wWaits t (fInit t) xs)

theorem wRun_count_spec (t : Nat) (xs : List WIn) :
    ((wTimeout t).run xs).count = t - min t (wWaited t xs) := by
  have h := wRunFrom_count_spec t xs (fInit t) 0 (by simp [fInit])
  simpa [Machine.run, wTimeout, wWaited, WaitTimer.streak] using h

/-! ### Read FSM alone -/

def rWaits (full : Bool) (dw t : Nat) : FState → List RIn → List Bool
  | _, [] => []
  | s, x :: xs => rWait s x :: rWaits full dw t (rNext full dw t s x) xs

theorem rNext_count_spec (full : Bool) (dw t : Nat) (s : FState) (x : RIn) (k : Nat)
    (h : s.count = t - min t k) :
    (rNext full dw t s x).count = t - min t (WaitTimer.streakStep k (rWait s x)) := by
  simp only [rNext]; rw [h, WaitTimer.next_spec]

theorem rRunFrom_count_spec (full : Bool) (dw t : Nat) (xs : List RIn) : ∀ (s : FState) (k : Nat),
    s.count = t - min t k →
    ((rTimeout full dw t).runFrom s xs).count =
      t - min t (WaitTimer.streakFrom k (rWaits full dw t s xs)) := by
  induction xs with
  | nil => intro s k h; simpa [Machine.runFrom, rWaits, WaitTimer.streakFrom] using h
  | cons x xs ih =>
    intro s k h
    show ((rTimeout full dw t).runFrom (rNext full dw t s x) xs).count = _
    rw [ih _ _ (rNext_count_spec full dw t s x k h)]
    simp [rWaits, WaitTimer.streakFrom]

def rWaited (full : Bool) (dw t : Nat) (xs : List RIn) : Nat :=
  WaitTimer.streak (rWaits full dw t (fInit t) xs)

theorem rRun_count_spec (full : Bool) (dw t : Nat) (xs : List RIn) :
    ((rTimeout full dw t).run xs).count = t - min t (rWaited full dw t xs) := by
  have h := rRunFrom_count_spec full dw t xs (fInit t) 0 (by simp [fInit])
  simpa [Machine.run, rTimeout, rWaited, WaitTimer.streak] using h

/-! ### Request counter -/

@[simp] theorem ctrNext_idle (c : Nat) : ctrNext c false false = c := by simp [ctrNext]

theorem ctrNext_req0 : ctrNext 0 true false = 1 := by decide
theorem ctrNext_resp1 : ctrNext 1 false true = 0 := by decide

end Litex.Timeout.Axi
