import LitexModel.Timeout.BusErr
/-
  The saturating bus error counter: value after a history = min (start + pulses) max.
-/
namespace Litex.Timeout.BusErr
open Litex

theorem next_le (w c : Nat) (p : Bool) (h : c ≤ maxVal w) : next w c p ≤ maxVal w := by
  unfold next
  by_cases hc : c = maxVal w
  · simp [hc]
  · cases p <;> simp [hc] <;> omega

theorem next_spec (w c : Nat) (p : Bool) (h : c ≤ maxVal w) (k : Nat) :
    min (next w c p + k) (maxVal w) = min (c + ((if p then 1 else 0) + k)) (maxVal w) := by
  unfold next
  by_cases hc : c = maxVal w
  · cases p <;> simp [hc] <;> omega
  · cases p <;> simp [hc] <;> omega

theorem runFrom_spec (w : Nat) (l : List Bool) : ∀ (i c0 : Nat), c0 ≤ maxVal w →
    (machine w i).runFrom c0 l = min (c0 + pulses l) (maxVal w) := by
  induction l with
  | nil => intro i c0 h; simp [Machine.runFrom, pulses]; omega
  | cons p l ih =>
    intro i c0 h
    show (machine w i).runFrom (next w c0 p) l = _
    rw [ih i _ (next_le w c0 p h), next_spec w c0 p h]
    cases p <;> simp [pulses, List.count_cons] <;> omega

end Litex.Timeout.BusErr
