import LitexModel.Timeout.Soc
import LitexProofs.Timeout.Wb
import LitexProofs.Timeout.Axi
import LitexProofs.Timeout.BusErr
/-
  Helper lemmas for the SoC-level C11 models (`LitexModel/Timeout/Soc.lean`): the bus error counter fed by the
  interconnect's `timeout.error`, simulation between an interconnect with and without its timeout module, and
  the all-behaviour bound on the AXI waiting streak.
-/
namespace Litex.Timeout

/-! ### counting pulses of `a | b` -/

namespace BusErr

theorem pulses_cons (b : Bool) (l : List Bool) : pulses (b :: l) = (if b then 1 else 0) + pulses l := by
  cases b <;> simp [pulses, List.count_cons] <;> omega

/-- inclusion-exclusion for the cycle-wise OR of two pulse trains -/
theorem pulses_or_and (a b : List Bool) :
    pulses (List.zipWith (· || ·) a b) + pulses (List.zipWith (· && ·) a b) =
      pulses (a.take b.length) + pulses (b.take a.length) := by
  induction a generalizing b with
  | nil => simp [pulses]
  | cons x a ih =>
    cases b with
    | nil => simp [pulses]
    | cons y b =>
      simp only [List.zipWith_cons_cons, List.length_cons, List.take_succ_cons, pulses_cons]
      have := ih b
      cases x <;> cases y <;> simp <;> omega

end BusErr

/-! ### Wishbone: interconnect + counter -/

namespace Wb.Soc
open Litex Wb
variable (c : Cfg) (wd : Nat)

/-- `timeout.error` cycle by cycle along a run of the interconnect from `s`. -/
def errors (s : State) (xs : List BusIn) : List Bool := ((Shared.machine c).traceFrom s xs).map (·.error)

theorem runFrom_spec (e0 : Nat) (xs : List BusIn) : ∀ (s : SocState), s.errs ≤ BusErr.maxVal wd →
    ((machine c wd e0).runFrom s xs).ic = (Shared.machine c).runFrom s.ic xs ∧
    ((machine c wd e0).runFrom s xs).errs = min (s.errs + BusErr.pulses (errors c s.ic xs)) (BusErr.maxVal wd) := by
  induction xs with
  | nil => intro s h; simp [Machine.runFrom, errors, Machine.traceFrom, BusErr.pulses]; omega
  | cons x xs ih =>
    intro s h
    obtain ⟨h1, h2⟩ := ih (next c wd s x) (BusErr.next_le wd s.errs _ h)
    refine ⟨h1, ?_⟩
    show ((machine c wd e0).runFrom (next c wd s x) xs).errs = _
    rw [h2]
    show min (BusErr.next wd s.errs (Shared.out c s.ic x).error + BusErr.pulses (errors c (Shared.next c s.ic x) xs)) _ = _
    rw [BusErr.next_spec wd s.errs _ h]
    simp only [errors, Machine.traceFrom, List.map_cons, BusErr.pulses_cons]
    rfl

end Wb.Soc

/-! ### AXI: interconnect + counter -/

namespace Axi.Soc
open Litex Axi
variable (c : Cfg) (wd : Nat)

/-- `ctrl.bus_error` cycle by cycle along a run from `s`. -/
def errors : SocState → List SocIn → List Bool
  | _, [] => []
  | s, x :: xs => busError c s x :: errors (next c wd s x) xs

theorem runFrom_spec (e0 : Nat) (xs : List SocIn) : ∀ (s : SocState), s.errs ≤ BusErr.maxVal wd →
    ((machine c wd e0).runFrom s xs).w = (SharedW.machine c).runFrom s.w (xs.map (·.xw)) ∧
    ((machine c wd e0).runFrom s xs).r = (SharedR.machine c).runFrom s.r (xs.map (·.xr)) ∧
    ((machine c wd e0).runFrom s xs).errs = min (s.errs + BusErr.pulses (errors c wd s xs)) (BusErr.maxVal wd) := by
  induction xs with
  | nil => intro s h; simp [Machine.runFrom, errors, BusErr.pulses]; omega
  | cons x xs ih =>
    intro s h
    obtain ⟨h1, h2, h3⟩ := ih (next c wd s x) (BusErr.next_le wd s.errs _ h)
    refine ⟨h1, h2, ?_⟩
    show ((machine c wd e0).runFrom (next c wd s x) xs).errs = _
    rw [h3]
    show min (BusErr.next wd s.errs (busError c s x) + _) _ = _
    rw [BusErr.next_spec wd s.errs _ h]
    simp only [errors, BusErr.pulses_cons]

/-- The pulse train of the counter is the cycle-wise OR of the write and the read error trains. -/
theorem errors_eq (xs : List SocIn) : ∀ (s : SocState),
    errors c wd s xs =
      List.zipWith (· || ·) (((SharedW.machine c).traceFrom s.w (xs.map (·.xw))).map (·.error))
                            (((SharedR.machine c).traceFrom s.r (xs.map (·.xr))).map (·.error)) := by
  induction xs with
  | nil => intro s; rfl
  | cons x xs ih =>
    intro s
    simp only [errors, List.map_cons, Machine.traceFrom, List.zipWith_cons_cons]
    rw [ih]; rfl

end Axi.Soc

/-! ### Wishbone: the interconnect with a timeout simulates the one without while the timer has not expired -/

namespace Wb.Shared
open Litex Wb
variable (c : Cfg)

/-- `InterconnectShared(timeout_cycles=None)` with otherwise the same parameters. -/
def noT (c : Cfg) : Cfg := { c with t := none }

/-- Same arbiter and decoder registers (the timer register is the only other state). -/
def Sim (s s0 : State) : Prop := s.grant = s0.grant ∧ s.selR = s0.selR

theorem sim_next (s s0 : State) (x : BusIn) (h : Sim s s0) : Sim (next c s x) (next (noT c) s0 x) := by
  obtain ⟨hg, hs⟩ := h
  refine ⟨?_, ?_⟩
  · simp [next, noT, hg]
  · have : sel c s x = sel (noT c) s0 x := funext fun j => by simp [sel, bus, hg, noT]
    simp only [next, hs, this, noT]; rfl

theorem sim_out {t : Nat} (ht : c.t = some t) (s s0 : State) (x : BusIn) (h : Sim s s0)
    (hd : WaitTimer.done s.count = false) :
    (∀ i, (out c s x).toM i = (out (noT c) s0 x).toM i) ∧ (∀ j, (out c s x).toS j = (out (noT c) s0 x).toS j) ∧
    (out c s x).error = false ∧ ownerWaits c s x = ownerWaits (noT c) s0 x := by
  obtain ⟨hg, hs⟩ := h
  have hres : tRes c s x = tRes (noT c) s0 x := by
    rw [tRes_some c ht]
    simp [tRes, noT, tOut, hd, tIn, selMux, sel, bus, hg, hs]
  refine ⟨?_, ?_, ?_, ?_⟩
  · intro i; simp only [out, hres, hg]; rfl
  · intro j; simp [out, sel, bus, hg, noT]
  · show (tRes c s x).error = false
    rw [tRes_some c ht]; simp [tOut, hd]
  · simp only [ownerWaits, out, hres, hg]

theorem init_sim : Sim (init c) (init (noT c)) := ⟨rfl, rfl⟩

/-- If in the reference system (no timeout) no prefix of the history ends in a waiting streak of `t` or more, the
    two systems stay in simulation and their waiting streaks are equal. -/
theorem healthy_sim {t : Nat} (ht : c.t = some t) (xs : List BusIn)
    (hh : ∀ ys zs, xs = ys ++ zs → waited (noT c) ys < t) :
    Sim ((machine c).run xs) ((machine (noT c)).run xs) ∧ waited c xs = waited (noT c) xs := by
  induction xs using Litex.snoc_induction with
  | nil => exact ⟨init_sim c, rfl⟩
  | snoc ys y ih =>
    obtain ⟨hs, hw⟩ := ih (fun a b hab => hh a (b ++ [y]) (by rw [hab, List.append_assoc]))
    have hlt : waited (noT c) ys < t := hh ys [y] rfl
    have hc := run_count_spec c ht ys
    have hd : WaitTimer.done ((machine c).run ys).count = false := by
      rw [hc, hw]; simp [WaitTimer.done]; omega
    have hrun : ∀ (c' : Cfg), (machine c').run (ys ++ [y]) = next c' ((machine c').run ys) y := by
      intro c'; simp [Machine.run, Machine.runFrom_append, Machine.runFrom, machine]
    refine ⟨?_, ?_⟩
    · rw [hrun c, hrun (noT c)]; exact sim_next c _ _ y hs
    · rw [waited_step, waited_step, hw, (sim_out c ht _ _ y hs hd).2.2.2]

end Wb.Shared

/-! ### AXI: all-behaviour bound on the waiting streak, simulation of the timeout-less interconnect -/

namespace Axi.SharedW
open Litex Axi
variable (c : Cfg)

theorem waited_step (xs : List WBusIn) (x : WBusIn) :
    waited c (xs ++ [x]) = WaitTimer.streakStep (waited c xs) (ownerWaits c ((machine c).run xs) x) := by
  have key : ∀ (s : DState) (ys : List WBusIn),
      waits c s (ys ++ [x]) = waits c s ys ++ [ownerWaits c ((machine c).runFrom s ys) x] := by
    intro s ys
    induction ys generalizing s with
    | nil => simp [waits, Machine.runFrom]
    | cons y ys ih => simp [waits, Machine.runFrom, ih, machine]
  simp [waited, WaitTimer.streak, WaitTimer.streakFrom, key, Machine.run, machine, List.foldl_append]

theorem run_snoc (xs : List WBusIn) (x : WBusIn) :
    (machine c).run (xs ++ [x]) = next c ((machine c).run xs) x := by
  simp [Machine.run, Machine.runFrom_append, Machine.runFrom, machine]

/-- For EVERY history (all masters, all slave behaviours): the owner's pending AW/W beat is left unaccepted for at
    most `t + 1` consecutive WAIT cycles, and when the streak is `t + 1` the FSM is in RESPOND. -/
theorem waited_le {t : Nat} (ht : c.t = some t) (xs : List WBusIn) :
    waited c xs ≤ t + 1 ∧ (waited c xs = t + 1 → ((machine c).run xs).tm.respond = true) := by
  induction xs using Litex.snoc_induction with
  | nil => simp [waited, waits, WaitTimer.streak, WaitTimer.streakFrom]
  | snoc ys y ih =>
    obtain ⟨h1, h2⟩ := ih
    have hc := run_count_spec c ht ys
    rw [waited_step, run_snoc]
    generalize hs : (machine c).run ys = s at *
    cases how : ownerWaits c s y
    · simp [WaitTimer.streakStep]
    · simp only [WaitTimer.streakStep, if_true]
      have hw := how
      rw [ownerWaits_eq c ht, wWait] at hw
      simp only [Bool.and_eq_true, Bool.not_eq_true'] at hw
      have hne : waited c ys ≠ t + 1 := fun h => by rw [h2 h] at hw; exact absurd hw.1 (by simp)
      refine ⟨by omega, fun heq => ?_⟩
      have hwt : waited c ys = t := by omega
      rw [next_tm c ht]
      simp [wNext, hw.1, hw.2, WaitTimer.done, hc, hwt]

/-- `AXI(Lite)InterconnectShared(timeout_cycles=None)` with otherwise the same parameters. -/
def noT (c : Cfg) : Cfg := { c with t := none }

def Sim (s s0 : DState) : Prop :=
  s.grant = s0.grant ∧ s.lock = s0.lock ∧ s.selReg = s0.selReg ∧ s.tm.respond = false ∧ s0.tm.respond = false

theorem ownerWaits_noT (s0 : DState) (x : WBusIn) :
    ownerWaits (noT c) s0 x = (!s0.tm.respond && wWaitCond (tIn (noT c) s0 x)) := by
  simp [ownerWaits, out, tRes, noT, wWaitCond, tIn, bus]

theorem sim_step {t : Nat} (ht : c.t = some t) (s s0 : DState) (x : WBusIn) (h : Sim s s0)
    (hne : (out c s x).error = false) :
    (∀ i, (out c s x).toM i = (out (noT c) s0 x).toM i) ∧ (∀ j, (out c s x).toS j = (out (noT c) s0 x).toS j) ∧
    ownerWaits c s x = ownerWaits (noT c) s0 x ∧ Sim (next c s x) (next (noT c) s0 x) := by
  obtain ⟨hg, hl, hs, hr, hr0⟩ := h
  have hin : tIn c s x = tIn (noT c) s0 x := by
    simp [tIn, sel, selOf, bus, hg, hl, hs, noT]
  have herr : (WaitTimer.done s.tm.count && wWaitCond (tIn c s x)) = false := by
    have := hne; simp only [out] at this; rw [tRes_some c ht] at this
    simpa [wOut, hr] using this
  have hres : tRes c s x = tRes (noT c) s0 x := by
    rw [tRes_some c ht]
    have : (tRes (noT c) s0 x) =
        WOut.mk (tIn c s x).awr (tIn c s x).wr (tIn c s x).bv (tIn c s x).bresp false := by simp [tRes, noT, hin]
    rw [this]
    simp only [wOut, hr, herr]
    rfl
  have hnr : (next c s x).tm.respond = false := by
    rw [next_tm c ht]
    simp only [wNext, hr, herr]
    rfl
  refine ⟨?_, ?_, ?_, ?_⟩
  · intro i; simp only [out, hres, hg]
  · intro j; simp [out, sel, selOf, bus, hg, hl, hs, noT]
  · simp only [ownerWaits, out, hres, hg, hr, hr0]
  · refine ⟨?_, ?_, ?_, hnr, ?_⟩
    · have hrr : rrReq c s x = rrReq (noT c) s0 x := by funext i; simp only [rrReq, hres, hg]
      simp only [next, ce, hrr, hres, bus, hg, hl]; rfl
    · simp only [next, req, resp, hres, bus, hg, hl]
    · simp [next, selRegNext, bus, hg, hl, hs, noT]
    · simp [next, noT, hr0]

theorem healthy_sim {t : Nat} (ht : c.t = some t) (xs : List WBusIn)
    (hh : ∀ ys zs, xs = ys ++ zs → waited (noT c) ys ≤ t) :
    Sim ((machine c).run xs) ((machine (noT c)).run xs) ∧ waited c xs = waited (noT c) xs := by
  induction xs using Litex.snoc_induction with
  | nil => exact ⟨⟨rfl, rfl, rfl, rfl, rfl⟩, rfl⟩
  | snoc ys y ih =>
    obtain ⟨hs, hw⟩ := ih (fun a b hab => hh a (b ++ [y]) (by rw [hab, List.append_assoc]))
    have hle : waited (noT c) (ys ++ [y]) ≤ t := hh (ys ++ [y]) [] (by simp)
    have hc := run_count_spec c ht ys
    -- no error in this cycle: an error needs `t ≤ waited ys` and the owner waiting again, i.e. a streak of `t + 1`
    have hne : (out c ((machine c).run ys) y).error = false := by
      cases he : (out c ((machine c).run ys) y).error
      · rfl
      · exfalso
        have he' := he
        simp only [out] at he'
        rw [tRes_some c ht] at he'
        have hr := hs.2.2.2.1
        simp only [wOut, hr, Bool.false_eq_true, if_false, Bool.and_eq_true] at he'
        have hd : t ≤ waited c ys := by
          have := he'.1; simp [WaitTimer.done, hc] at this; omega
        have how : ownerWaits c ((machine c).run ys) y = true := by
          rw [ownerWaits_eq c ht]; simp [wWait, hr, he'.2]
        -- transfer to the reference system needs the outputs to agree, which they do up to `error`:
        have hin : tIn c ((machine c).run ys) y = tIn (noT c) ((machine (noT c)).run ys) y := by
          obtain ⟨hg, hl, hsr, _, _⟩ := hs
          simp [tIn, sel, selOf, bus, hg, hl, hsr, noT]
        have how0 : ownerWaits (noT c) ((machine (noT c)).run ys) y = true := by
          have hw' := how
          rw [ownerWaits_eq c ht] at hw'
          simp only [wWait, hr, Bool.not_false, Bool.true_and] at hw'
          rw [ownerWaits_noT, ← hin, hs.2.2.2.2, hw']; rfl
        rw [waited_step, how0, ← hw] at hle
        simp [WaitTimer.streakStep] at hle; omega
    obtain ⟨_, _, h3, h4⟩ := sim_step c ht _ _ y hs hne
    refine ⟨?_, ?_⟩
    · rw [run_snoc c, run_snoc (noT c)]; exact h4
    · rw [waited_step, waited_step, hw, h3]

end Axi.SharedW

namespace Axi.SharedR
open Litex Axi
variable (c : Cfg)

theorem waited_step (xs : List RBusIn) (x : RBusIn) :
    waited c (xs ++ [x]) = WaitTimer.streakStep (waited c xs) (ownerWaits c ((machine c).run xs) x) := by
  have key : ∀ (s : DState) (ys : List RBusIn),
      waits c s (ys ++ [x]) = waits c s ys ++ [ownerWaits c ((machine c).runFrom s ys) x] := by
    intro s ys
    induction ys generalizing s with
    | nil => simp [waits, Machine.runFrom]
    | cons y ys ih => simp [waits, Machine.runFrom, ih, machine]
  simp [waited, WaitTimer.streak, WaitTimer.streakFrom, key, Machine.run, machine, List.foldl_append]

theorem run_snoc (xs : List RBusIn) (x : RBusIn) :
    (machine c).run (xs ++ [x]) = next c ((machine c).run xs) x := by
  simp [Machine.run, Machine.runFrom_append, Machine.runFrom, machine]

/-- For EVERY history (all masters, all slave behaviours): the owner's pending AR beat is left unaccepted for at
    most `t + 1` consecutive WAIT cycles, and when the streak is `t + 1` the FSM is in RESPOND. -/
theorem waited_le {t : Nat} (ht : c.t = some t) (xs : List RBusIn) :
    waited c xs ≤ t + 1 ∧ (waited c xs = t + 1 → ((machine c).run xs).tm.respond = true) := by
  induction xs using Litex.snoc_induction with
  | nil => simp [waited, waits, WaitTimer.streak, WaitTimer.streakFrom]
  | snoc ys y ih =>
    obtain ⟨h1, h2⟩ := ih
    have hc := run_count_spec c ht ys
    rw [waited_step, run_snoc]
    generalize hs : (machine c).run ys = s at *
    cases how : ownerWaits c s y
    · simp [WaitTimer.streakStep]
    · simp only [WaitTimer.streakStep, if_true]
      have hw := how
      rw [ownerWaits_eq c ht, rWait] at hw
      simp only [Bool.and_eq_true, Bool.not_eq_true'] at hw
      have hne : waited c ys ≠ t + 1 := fun h => by rw [h2 h] at hw; exact absurd hw.1 (by simp)
      refine ⟨by omega, fun heq => ?_⟩
      have hwt : waited c ys = t := by omega
      rw [next_tm c ht]
      simp [rNext, hw.1, hw.2, WaitTimer.done, hc, hwt]

/-- `AXI(Lite)InterconnectShared(timeout_cycles=None)` with otherwise the same parameters. -/
def noT (c : Cfg) : Cfg := { c with t := none }

def Sim (s s0 : DState) : Prop :=
  s.grant = s0.grant ∧ s.lock = s0.lock ∧ s.selReg = s0.selReg ∧ s.tm.respond = false ∧ s0.tm.respond = false

theorem ownerWaits_noT (s0 : DState) (x : RBusIn) :
    ownerWaits (noT c) s0 x = (!s0.tm.respond && rWaitCond (tIn (noT c) s0 x)) := by
  simp [ownerWaits, out, tRes, noT, rWaitCond, tIn, bus]

theorem sim_step {t : Nat} (ht : c.t = some t) (s s0 : DState) (x : RBusIn) (h : Sim s s0)
    (hne : (out c s x).error = false) :
    (∀ i, (out c s x).toM i = (out (noT c) s0 x).toM i) ∧ (∀ j, (out c s x).toS j = (out (noT c) s0 x).toS j) ∧
    ownerWaits c s x = ownerWaits (noT c) s0 x ∧ Sim (next c s x) (next (noT c) s0 x) := by
  obtain ⟨hg, hl, hs, hr, hr0⟩ := h
  have hin : tIn c s x = tIn (noT c) s0 x := by
    simp [tIn, sel, selOf, bus, hg, hl, hs, noT]
  have herr : (WaitTimer.done s.tm.count && rWaitCond (tIn c s x)) = false := by
    have := hne; simp only [out] at this; rw [tRes_some c ht] at this
    simpa [rOut, hr] using this
  have hres : tRes c s x = tRes (noT c) s0 x := by
    rw [tRes_some c ht]
    have : (tRes (noT c) s0 x) =
        ROut.mk (tIn c s x).arr (tIn c s x).rv (tIn c s x).rresp (tIn c s x).rdata (tIn c s x).rlast false := by simp [tRes, noT, hin]
    rw [this]
    simp only [rOut, hr, herr]
    rfl
  have hnr : (next c s x).tm.respond = false := by
    rw [next_tm c ht]
    simp only [rNext, hr, herr]
    rfl
  refine ⟨?_, ?_, ?_, ?_⟩
  · intro i; simp only [out, hres, hg]
  · intro j; simp [out, sel, selOf, bus, hg, hl, hs, noT]
  · simp only [ownerWaits, out, hres, hg, hr, hr0]
  · refine ⟨?_, ?_, ?_, hnr, ?_⟩
    · have hrr : rrReq c s x = rrReq (noT c) s0 x := by funext i; simp only [rrReq, hres, hg]
      simp only [next, ce, hrr, hres, bus, hg, hl]; rfl
    · simp only [next, req, resp, hres, bus, hg, hl]; rfl
    · simp [next, selRegNext, bus, hg, hl, hs, noT]
    · simp [next, noT, hr0]

theorem healthy_sim {t : Nat} (ht : c.t = some t) (xs : List RBusIn)
    (hh : ∀ ys zs, xs = ys ++ zs → waited (noT c) ys ≤ t) :
    Sim ((machine c).run xs) ((machine (noT c)).run xs) ∧ waited c xs = waited (noT c) xs := by
  induction xs using Litex.snoc_induction with
  | nil => exact ⟨⟨rfl, rfl, rfl, rfl, rfl⟩, rfl⟩
  | snoc ys y ih =>
    obtain ⟨hs, hw⟩ := ih (fun a b hab => hh a (b ++ [y]) (by rw [hab, List.append_assoc]))
    have hle : waited (noT c) (ys ++ [y]) ≤ t := hh (ys ++ [y]) [] (by simp)
    have hc := run_count_spec c ht ys
    -- no error in this cycle: an error needs `t ≤ waited ys` and the owner waiting again, i.e. a streak of `t + 1`
    have hne : (out c ((machine c).run ys) y).error = false := by
      cases he : (out c ((machine c).run ys) y).error
      · rfl
      · exfalso
        have he' := he
        simp only [out] at he'
        rw [tRes_some c ht] at he'
        have hr := hs.2.2.2.1
        simp only [rOut, hr, Bool.false_eq_true, if_false, Bool.and_eq_true] at he'
        have hd : t ≤ waited c ys := by
          have := he'.1; simp [WaitTimer.done, hc] at this; omega
        have how : ownerWaits c ((machine c).run ys) y = true := by
          rw [ownerWaits_eq c ht]; simp [rWait, hr, he'.2]
        -- transfer to the reference system needs the outputs to agree, which they do up to `error`:
        have hin : tIn c ((machine c).run ys) y = tIn (noT c) ((machine (noT c)).run ys) y := by
          obtain ⟨hg, hl, hsr, _, _⟩ := hs
          simp [tIn, sel, selOf, bus, hg, hl, hsr, noT]
        have how0 : ownerWaits (noT c) ((machine (noT c)).run ys) y = true := by
          have hw' := how
          rw [ownerWaits_eq c ht] at hw'
          simp only [rWait, hr, Bool.not_false, Bool.true_and] at hw'
          rw [ownerWaits_noT, ← hin, hs.2.2.2.2, hw']; rfl
        rw [waited_step, how0, ← hw] at hle
        simp [WaitTimer.streakStep] at hle; omega
    obtain ⟨_, _, h3, h4⟩ := sim_step c ht _ _ y hs hne
    refine ⟨?_, ?_⟩
    · rw [run_snoc c, run_snoc (noT c)]; exact h4
    · rw [waited_step, waited_step, hw, h3]

end Axi.SharedR

end Litex.Timeout

/-! ### Time-out of any mix of AW / W beats (a lone W before its AW included): step lemmas -/

namespace Litex.Timeout.Axi.SharedW
open Litex Axi
open Litex.Timeout.Wb (orAll_false)
variable (c : Cfg)

/-- One WAIT cycle in which the owner offers an AW and/or a W beat (any of the two alone included) and every slave is
    silent. -/
theorem silent_wait_step_any {t : Nat} (ht : c.t = some t) (s : DState) (x : WBusIn)
    (hgn : s.grant < c.n) (hl : s.lock = 0) (hr : s.tm.respond = false)
    (hoff : ((x.ms s.grant).awv || (x.ms s.grant).wv) = true) (hsil : Silent x) :
    ((out c s x).toM s.grant).awr = false ∧ ((out c s x).toM s.grant).wr = false ∧
    ((out c s x).toM s.grant).bv = false ∧ (out c s x).error = WaitTimer.done s.tm.count ∧
    (next c s x).grant = s.grant ∧ (next c s x).lock = 0 ∧
    (next c s x).tm = { count := WaitTimer.next t s.tm.count true, respond := WaitTimer.done s.tm.count } := by
  obtain ⟨h1, h2, h3⟩ := tIn_silent c s x hsil
  have hwc : wWaitCond (tIn c s x) = true := by
    simp only [wWaitCond, h1, h2]; simpa [tIn, bus] using hoff
  have hres : tRes c s x = { awr := false, wr := false, bv := false, bresp := (tIn c s x).bresp,
                             error := WaitTimer.done s.tm.count } := by
    rw [tRes_some c ht]; simp [wOut, hr, h1, h2, h3, hwc]
  have hce : ce c s x = false := by
    have : ((bus s x).awv || (bus s x).wv) = true := hoff
    simp [ce, this]
  refine ⟨by simp [out, hres], by simp [out, hres], by simp [out, hres], by simp [out, hres], ?_, ?_, ?_⟩
  · simp only [next, hce]; exact RoundRobin.next_ce_hold _ hgn
  · simp [next, req, resp, hres, hl]
  · rw [next_tm c ht]; simp [wNext, wWait, hwc, hr, wOut]

/-- The RESPOND cycle in which whatever is offered is absorbed: the lock counts an absorbed AW, not a lone W. -/
theorem silent_absorb_step_any {t : Nat} (ht : c.t = some t) (s : DState) (x : WBusIn)
    (hgn : s.grant < c.n) (hl : s.lock = 0) (hr : s.tm.respond = true)
    (hoff : ((x.ms s.grant).awv || (x.ms s.grant).wv) = true) :
    ((out c s x).toM s.grant).awr = (x.ms s.grant).awv ∧ ((out c s x).toM s.grant).wr = (x.ms s.grant).wv ∧
    ((out c s x).toM s.grant).bv = false ∧ (out c s x).error = false ∧
    (next c s x).grant = s.grant ∧ (next c s x).lock = (if (x.ms s.grant).awv then 1 else 0) ∧
    (next c s x).tm = { count := t, respond := true } := by
  have hres : tRes c s x = { awr := (x.ms s.grant).awv, wr := (x.ms s.grant).wv, bv := false, bresp := RESP_SLVERR,
                             error := false } := by
    rw [tRes_some c ht]; simp only [wOut, hr, if_true]
    cases ha : (x.ms s.grant).awv <;> cases hw : (x.ms s.grant).wv <;> simp [tIn, bus, ha, hw] at hoff ⊢
  refine ⟨by simp [out, hres], by simp [out, hres], by simp [out, hres], by simp [out, hres],
          respond_holds_grant c ht s x hr hgn, ?_, ?_⟩
  · cases ha : (x.ms s.grant).awv <;> simp [next, req, resp, hres, hl, bus, ha, ctrNext]
  · rw [next_tm c ht]
    cases ha : (x.ms s.grant).awv <;> cases hw : (x.ms s.grant).wv <;>
      simp [wNext, wWait, hr, wOut, tIn, bus, ha, hw, WaitTimer.next] <;> simp [ha, hw] at hoff

/-- The RESPOND cycle in which the forced `B` is taken, with `lock ∈ {0, 1}`: the lock ends at 0 — a `B` delivered
    while nothing was accepted (`lock = 0`) does NOT make the counter underflow (`response & ~empty`). -/
theorem silent_b_step_any {t : Nat} (ht : c.t = some t) (s : DState) (x : WBusIn)
    (hgn : s.grant < c.n) (hl : s.lock ≤ 1) (hr : s.tm.respond = true)
    (haw : (x.ms s.grant).awv = false) (hw : (x.ms s.grant).wv = false) (hb : (x.ms s.grant).br = true) :
    ((out c s x).toM s.grant).bv = true ∧ ((out c s x).toM s.grant).bresp = RESP_SLVERR ∧
    (out c s x).error = false ∧
    (next c s x).grant = s.grant ∧ (next c s x).lock = 0 ∧ (next c s x).tm = fInit t := by
  have hi : (tIn c s x).awv = false ∧ (tIn c s x).wv = false ∧ (tIn c s x).br = true := ⟨haw, hw, hb⟩
  have hres : tRes c s x = { awr := false, wr := false, bv := true, bresp := RESP_SLVERR, error := false } := by
    rw [tRes_some c ht]; simp [wOut, hr, hi.1, hi.2.1]
  refine ⟨by simp [out, hres], by simp [out, hres], by simp [out, hres],
          respond_holds_grant c ht s x hr hgn, ?_, ?_⟩
  · have : s.lock = 0 ∨ s.lock = 1 := by omega
    rcases this with h | h <;> simp [next, req, resp, hres, h, bus, haw, hb, ctrNext]
  · rw [next_tm c ht]; exact by
      simp [wNext, wWait, hr, wOut, hi.1, hi.2.1, hi.2.2, WaitTimer.next, fInit]

theorem silent_waiting_any {t : Nat} (ht : c.t = some t) (ys : List WBusIn) : ∀ (s : DState) (cnt : Nat),
    s.grant < c.n → s.lock = 0 → s.tm = { count := cnt, respond := false } → ys.length ≤ cnt → cnt ≤ t →
    (∀ y ∈ ys, ((y.ms s.grant).awv || (y.ms s.grant).wv) = true ∧ Silent y) →
    ((machine c).runFrom s ys).grant = s.grant ∧ ((machine c).runFrom s ys).lock = 0 ∧
    ((machine c).runFrom s ys).tm = { count := cnt - ys.length, respond := false } ∧
    ∀ o ∈ (machine c).traceFrom s ys, o.error = false ∧ (o.toM s.grant).awr = false ∧
      (o.toM s.grant).wr = false ∧ (o.toM s.grant).bv = false := by
  induction ys with
  | nil => intro s cnt _ hl htm _ _ _; simp [Machine.runFrom, Machine.traceFrom, hl, htm]
  | cons y ys ih =>
    intro s cnt hgn hl htm hlen hct hreq
    obtain ⟨hoff, hsil⟩ := hreq y (by simp)
    have hr : s.tm.respond = false := by rw [htm]
    have hpos : cnt ≠ 0 := by simp at hlen; omega
    have hdone : WaitTimer.done s.tm.count = false := by rw [htm]; simp [WaitTimer.done, hpos]
    obtain ⟨o1, o2, o3, o4, n1, n2, n3⟩ := silent_wait_step_any c ht s y hgn hl hr hoff hsil
    have hn3 : (next c s y).tm = { count := cnt - 1, respond := false } := by
      rw [n3, hdone, htm]; simp [WaitTimer.next, WaitTimer.done, hpos]
    have ih' := ih (next c s y) (cnt - 1) (by rw [n1]; exact hgn) n2 hn3 (by simp at hlen; omega) (by omega)
      (fun z hz => by rw [n1]; exact hreq z (by simp [hz]))
    obtain ⟨r1, r2, r3, r4⟩ := ih'
    refine ⟨?_, ?_, ?_, ?_⟩
    · show ((machine c).runFrom (next c s y) ys).grant = _
      rw [r1, n1]
    · exact r2
    · show ((machine c).runFrom (next c s y) ys).tm = _
      rw [r3]; simp; omega
    · intro o ho
      simp only [Machine.traceFrom, List.mem_cons] at ho
      rcases ho with rfl | ho
      · exact ⟨by rw [show (machine c).out s y = out c s y from rfl, o4, hdone], o1, o2, o3⟩
      · have := r4 o ho; rw [n1] at this; exact this

end Litex.Timeout.Axi.SharedW
