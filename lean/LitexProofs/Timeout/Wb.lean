import LitexModel.Timeout.Wb
import LitexProofs.WaitTimer
import LitexProofs.RoundRobin
/-
  Helper lemmas for the Wishbone timeout (`LitexProps/C11.lean` states the property theorems).

  Central invariant: along every run of `InterconnectShared` the timer register equals
  `t - min t (streak)`, where `streak` counts the consecutive preceding cycles in which the bus owner had
  `cyc & stb` and saw no `ack` (an observation at the owner's port).
-/
namespace Litex.Timeout.Wb
open Litex

theorem orAll_false {k : Nat} {f : Nat → Bool} (h : ∀ j, f j = false) : orAll k f = false := by
  induction k with
  | zero => rfl
  | succ k ih => simp [orAll, ih, h]

theorem orAll_congr {k : Nat} {f g : Nat → Bool} (h : ∀ j, j < k → f j = g j) : orAll k f = orAll k g := by
  induction k with
  | zero => rfl
  | succ k ih =>
    simp only [orAll]
    rw [ih (fun j hj => h j (by omega)), h k (by omega)]

theorem orDat_zero {k : Nat} {f : Nat → Nat} (h : ∀ j, f j = 0) : orDat k f = 0 := by
  induction k with
  | zero => rfl
  | succ k ih => simp [orDat, ih, h]

/-! ### The `Timeout` module alone -/

/-- Per-cycle observation "the watched bus carries a request that is not acknowledged" (after the override). -/
def tObsWait (x : TIn) (o : TOut) : Bool := x.stb && x.cyc && !o.ack

/-- The wait observations along a run of the timeout module from `count`. -/
def tWaits (t dw : Nat) : Nat → List TIn → List Bool
  | _, [] => []
  | c, x :: xs => tObsWait x (tOut dw c x) :: tWaits t dw (tNext t dw c x) xs

theorem timeout_runFrom_spec (t dw : Nat) (xs : List TIn) : ∀ (c k : Nat), c = t - min t k →
    (timeout t dw).runFrom c xs = t - min t (WaitTimer.streakFrom k (tWaits t dw c xs)) := by
  induction xs with
  | nil => intro c k h; simpa [Machine.runFrom, tWaits, WaitTimer.streakFrom] using h
  | cons x xs ih =>
    intro c k h
    show (timeout t dw).runFrom (tNext t dw c x) xs = _
    have hn : tNext t dw c x = t - min t (WaitTimer.streakStep k (tObsWait x (tOut dw c x))) := by
      unfold tNext tWait tObsWait; rw [h, WaitTimer.next_spec]
    rw [ih _ _ hn]
    simp [tWaits, WaitTimer.streakFrom]

/-! ### Shared interconnect -/

namespace Shared
variable (c : Cfg)

/-- Port-level observation: the bus owner (`grant`) has `cyc & stb` and does not see `ack` in this cycle. -/
def ownerWaits (s : State) (x : BusIn) : Bool :=
  (x.ms s.grant).cyc && (x.ms s.grant).stb && !((out c s x).toM s.grant).ack

/-- The owner-wait observations along a run from `s`. -/
def waits : State → List BusIn → List Bool
  | _, [] => []
  | s, x :: xs => ownerWaits c s x :: waits (next c s x) xs

/-- Number of consecutive cycles, up to the end of history `xs` from reset, in which the owner waited. -/
def waited (xs : List BusIn) : Nat := WaitTimer.streak (waits c (init c) xs)

theorem tRes_some {t : Nat} (ht : c.t = some t) (s : State) (x : BusIn) :
    tRes c s x = tOut c.dw s.count (tIn c s x) := by
  simp [tRes, ht]

theorem next_count {t : Nat} (ht : c.t = some t) (s : State) (x : BusIn) :
    (next c s x).count = tNext t c.dw s.count (tIn c s x) := by
  simp [next, ht]

theorem ownerWaits_eq {t : Nat} (ht : c.t = some t) (s : State) (x : BusIn) :
    ownerWaits c s x = tWait c.dw s.count (tIn c s x) := by
  simp only [ownerWaits, out, tRes_some c ht, tWait, tIn, bus, beq_self_eq_true, Bool.and_true]
  cases (x.ms s.grant).cyc <;> cases (x.ms s.grant).stb <;> simp

theorem next_count_spec {t : Nat} (ht : c.t = some t) (s : State) (x : BusIn) (k : Nat)
    (h : s.count = t - min t k) :
    (next c s x).count = t - min t (WaitTimer.streakStep k (ownerWaits c s x)) := by
  rw [next_count c ht, ownerWaits_eq c ht, tNext, h, WaitTimer.next_spec]

theorem runFrom_count_spec {t : Nat} (ht : c.t = some t) (xs : List BusIn) : ∀ (s : State) (k : Nat),
    s.count = t - min t k →
    ((machine c).runFrom s xs).count = t - min t (WaitTimer.streakFrom k (waits c s xs)) := by
  induction xs with
  | nil => intro s k h; simpa [Machine.runFrom, waits, WaitTimer.streakFrom] using h
  | cons x xs ih =>
    intro s k h
    show ((machine c).runFrom (next c s x) xs).count = _
    rw [ih _ _ (next_count_spec c ht s x k h)]
    simp [waits, WaitTimer.streakFrom]

/-- The timer register after any history from reset. -/
theorem run_count_spec {t : Nat} (ht : c.t = some t) (xs : List BusIn) :
    ((machine c).run xs).count = t - min t (waited c xs) := by
  have h := runFrom_count_spec c ht xs (init c) 0 (by simp [init, ht])
  simpa [Machine.run, machine, waited, WaitTimer.streak] using h

/-- `waited` never exceeds `t`: the forced acknowledge ends the streak. -/
theorem waited_step (xs : List BusIn) (x : BusIn) :
    waited c (xs ++ [x]) = WaitTimer.streakStep (waited c xs) (ownerWaits c ((machine c).run xs) x) := by
  have key : ∀ (s : State) (ys : List BusIn),
      waits c s (ys ++ [x]) = waits c s ys ++ [ownerWaits c ((machine c).runFrom s ys) x] := by
    intro s ys
    induction ys generalizing s with
    | nil => simp [waits, Machine.runFrom]
    | cons y ys ih => simp [waits, Machine.runFrom, ih, machine]
  simp [waited, WaitTimer.streak, WaitTimer.streakFrom, key, Machine.run, machine, List.foldl_append]

theorem grant_lt (hn : 0 < c.n) (xs : List BusIn) : ((machine c).run xs).grant < c.n := by
  refine Machine.invariant_runFrom (machine c) (fun s => s.grant < c.n) ?_ xs (machine c).init hn
  intro s x h
  exact RoundRobin.next_lt .withdraw (fun i => (x.ms i).cyc) true h

end Shared
end Litex.Timeout.Wb
