import LitexModel.Packet.FifoAll
/-
  Per-queue abstraction lemmas for the four circuits `stream.SyncFIFO` can build (`QKind`): what a queue
  stores, how one clock edge changes it, and when it is readable.
-/
namespace Litex.Packet
namespace QSt
variable {α : Type}

/-- The entries a queue holds, oldest first. -/
def stored (k : QKind) (s : QSt α) : List α :=
  match k with
  | .never => []
  | .pipe  => if s.v then [s.d] else []
  | .fifo  => s.q
  | .bfifo => (if s.v then [s.d] else []) ++ s.q

/-- The stored entries after the read side of a cycle. -/
def popped (k : QKind) (s : QSt α) (re : Bool) : List α :=
  if re && s.readable k then (s.stored k).tail else s.stored k

/-- **Queue step**: a clock edge removes the head iff `re & readable` and appends `din` iff `we & writable`. -/
theorem stored_next (k : QKind) (depth : Nat) (s : QSt α) (we : Bool) (din : α) (re : Bool) :
    (s.next k depth we din re).stored k =
      s.popped k re ++ (if we && s.writable k depth re then [din] else []) := by
  obtain ⟨q, v, d⟩ := s
  cases k with
  | never => simp [stored, popped, writable]
  | pipe => cases v <;> cases re <;> cases we <;> simp [next, stored, popped, writable, readable]
  | fifo =>
    cases re <;> cases q <;> simp [next, stored, popped, writable, readable] <;> split <;> simp
  | bfifo =>
    cases v <;> cases re <;> cases q <;> simp [next, stored, popped, writable, readable] <;> split <;> simp

/-- A readable queue shows its oldest entry. -/
theorem stored_readable (k : QKind) (s : QSt α) (h : s.readable k = true) :
    s.stored k = s.dout k :: (s.stored k).tail := by
  obtain ⟨q, v, d⟩ := s
  cases k with
  | never => simp [readable] at h
  | pipe => simp [readable] at h; simp [stored, dout, h]
  | fifo => cases q <;> simp [readable] at h; simp [stored, dout]
  | bfifo => simp [readable] at h; simp [stored, dout, h]

theorem stored_ne_nil_of_readable (k : QKind) (s : QSt α) (h : s.readable k = true) : s.stored k ≠ [] := by
  rw [stored_readable k s h]; simp

/-- Wire, `PipeValid` and the fwft FIFO are readable as soon as they hold something. -/
theorem readable_prompt (k : QKind) (hk : k ≠ .bfifo) (s : QSt α) :
    s.readable k = !(s.stored k).isEmpty := by
  obtain ⟨q, v, d⟩ := s
  cases k with
  | never => simp [readable, stored]
  | pipe => cases v <;> simp [readable, stored]
  | fifo => simp [readable, stored]
  | bfifo => exact absurd rfl hk

/-- `SyncFIFOBuffered` is readable after a clock edge iff it held something that was not read in that cycle:
    an entry written in a cycle is readable only two edges later. -/
theorem readable_next_bfifo (depth : Nat) (s : QSt α) (we : Bool) (din : α) (re : Bool) :
    (s.next .bfifo depth we din re).readable .bfifo = !(s.popped .bfifo re).isEmpty := by
  obtain ⟨q, v, d⟩ := s
  cases v <;> cases re <;> cases q <;> simp [next, stored, popped, readable]

/-! ### Occupancy -/

/-- How many entries a queue can hold. -/
def cap (k : QKind) (depth : Nat) : Nat :=
  match k with
  | .never => 0
  | .pipe  => 1
  | .fifo  => depth
  | .bfifo => depth + 1

/-- The inner FIFO never holds more than `depth` entries. -/
def bounded (depth : Nat) (s : QSt α) : Prop := s.q.length ≤ depth

theorem bounded_next (k : QKind) (depth : Nat) (s : QSt α) (we : Bool) (din : α) (re : Bool)
    (h : s.bounded depth) : (s.next k depth we din re).bounded depth := by
  obtain ⟨q, v, d⟩ := s
  unfold bounded at h ⊢
  simp only at h
  have t1 : q.tail.length ≤ q.length := by simp [List.length_tail]
  cases k with
  | never => simpa [next] using h
  | pipe => simp only [next]; split <;> simpa using h
  | fifo =>
    simp only [next]
    split
    · rename_i hc
      simp only [Bool.and_eq_true, bne_iff_ne, ne_eq] at hc
      split <;> simp only [List.length_append, List.length_singleton] <;> omega
    · split <;> omega
  | bfifo =>
    simp only [next]
    split
    · rename_i hc
      simp only [Bool.and_eq_true, bne_iff_ne, ne_eq] at hc
      split <;> simp only [List.length_append, List.length_singleton] <;> omega
    · split <;> omega

theorem stored_length_le (k : QKind) (depth : Nat) (s : QSt α) (h : s.bounded depth) :
    (s.stored k).length ≤ cap k depth := by
  obtain ⟨q, v, d⟩ := s
  unfold bounded at h
  simp only at h
  cases k with
  | never => simp [stored, cap]
  | pipe => cases v <;> simp [stored, cap]
  | fifo => simpa [stored, cap] using h
  | bfifo => cases v <;> simp [stored, cap] <;> omega

end QSt
end Litex.Packet
