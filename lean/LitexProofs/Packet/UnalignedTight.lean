import LitexProofs.Packet.UnalignedStep
/-
  Packetizer, header NOT a multiple of the data width: the framing theorem under the tight (cycle-by-cycle exact)
  environment hypothesis.

  `self.sync += If(source.ready, sink_d.eq(sink))` samples the sink lines in EVERY cycle with `source.ready = 1`,
  also when `sink.valid = 0`.  The sampled value is read only in UNALIGNED-DATA-COPY:
    * `sink_d.last`  — source.valid / source.last / the branch back to IDLE,
    * the top `L` bytes of `sink_d.data` — the low `L` bytes of the next source beat (when not `fsm_from_idle`).
  In IDLE / HEADER-SEND the sampled value is overwritten (by the pending first beat, which the stream contract
  keeps on the lines) before UNALIGNED-DATA-COPY reads it; the header lines are read only in IDLE with
  `sink.valid = 1`.  So a pausing producer has to keep, in the cycles with `valid = 0 ∧ source.ready = 1` strictly
  inside a packet, exactly: `last = 0` and the top `L` bytes of `data` of the beat accepted last.  Nothing about
  cycles with `ready = 0`, nothing about the low `B − L` data bytes, nothing about the header lines.
-/
namespace Litex.Packet
open Litex Litex.Stream Litex.Stream.Elem

/-- What the proof remembers of the past. -/
structure UEnv2 where
  lines : Tok HBeat   -- the sink lines of the previous cycle
  pend  : Bool        -- they were offered and not accepted
  start : Bool        -- the next new beat starts a packet
  acc   : Tok HBeat   -- the beat accepted last (inside a packet: what `sink_d` has to agree with)
deriving DecidableEq

def envStart2 (env : Option UEnv2) : Bool :=
  match env with
  | none => true
  | some v => v.start

def envAcc2 (env : Option UEnv2) (dflt : Tok HBeat) : Tok HBeat :=
  match env with
  | none => dflt
  | some v => v.acc

section env
variable {β σ : Type}

def uenvNext2 (e : Elem HBeat β σ) (s : σ) (env : Option UEnv2) (i : In HBeat) : Option UEnv2 :=
  some { lines := i.tok
         pend := i.valid && !(e.out s i).ready
         start := if i.valid && (e.out s i).ready then i.tok.last else envStart2 env
         acc := if i.valid && (e.out s i).ready then i.tok else envAcc2 env i.tok }

/-- The three assumptions, cycle by cycle: (1) stream contract: a beat offered and not accepted is offered again
    unchanged; (2) TIGHT: in a cycle with `valid = 0` and `source.ready = 1` strictly inside a packet, the `last`
    line is low and the top `L` bytes of the data lines are those of the beat accepted last; (3) no single-beat
    packets (the first beat of a packet does not carry `last`). -/
def UOkStep2 (c : PkCfg) (env : Option UEnv2) (i : In HBeat) : Prop :=
  match env with
  | none => i.valid = true → i.tok.last = false
  | some v =>
    (v.pend = true → i.valid = true ∧ i.tok = v.lines) ∧
    (i.valid = false → i.ready = true → v.start = false →
      i.tok.last = false ∧ resid c (sinkData c i.tok) = resid c (sinkData c v.acc)) ∧
    (i.valid = true → v.pend = false → v.start = true → i.tok.last = false)

def UOk2 (c : PkCfg) (e : Elem HBeat β σ) : σ → Option UEnv2 → List (In HBeat) → Prop
  | _, _, [] => True
  | s, env, i :: is => UOkStep2 c env i ∧ UOk2 c e (e.step s i) (uenvNext2 e s env i) is

def uenvRun2 (e : Elem HBeat β σ) : σ → Option UEnv2 → List (In HBeat) → Option UEnv2
  | _, env, [] => env
  | s, env, i :: is => uenvRun2 e (e.step s i) (uenvNext2 e s env i) is

/-- Executable form of `UOk2` (for concrete examples). -/
def uokStep2B (c : PkCfg) (env : Option UEnv2) (i : In HBeat) : Bool :=
  match env with
  | none => !i.valid || !i.tok.last
  | some v =>
    (!v.pend || (i.valid && decide (i.tok = v.lines))) &&
    (i.valid || !i.ready || v.start ||
      (!i.tok.last && decide (resid c (sinkData c i.tok) = resid c (sinkData c v.acc)))) &&
    (!i.valid || v.pend || !v.start || !i.tok.last)

def uok2B (c : PkCfg) (e : Elem HBeat β σ) : σ → Option UEnv2 → List (In HBeat) → Bool
  | _, _, [] => true
  | s, env, i :: is => uokStep2B c env i && uok2B c e (e.step s i) (uenvNext2 e s env i) is

theorem uokStep2_of_B (c : PkCfg) (env : Option UEnv2) (i : In HBeat) (h : uokStep2B c env i = true) :
    UOkStep2 c env i := by
  unfold uokStep2B at h
  unfold UOkStep2
  cases env with
  | none =>
    simp only at h ⊢
    intro hv; simpa [hv] using h
  | some v =>
    simp only at h ⊢
    simp only [Bool.and_eq_true, Bool.or_eq_true, Bool.not_eq_true', decide_eq_true_eq] at h
    obtain ⟨⟨h1, h2⟩, h3⟩ := h
    refine ⟨?_, ?_, ?_⟩
    · intro hp; rcases h1 with h1 | h1
      · rw [hp] at h1; cases h1
      · exact h1
    · intro hv hr hs
      rcases h2 with ((h2 | h2) | h2) | h2
      · rw [hv] at h2; cases h2
      · rw [hr] at h2; cases h2
      · rw [hs] at h2; cases h2
      · exact h2
    · intro hv hp hs
      rcases h3 with ((h3 | h3) | h3) | h3
      · rw [hv] at h3; cases h3
      · rw [hp] at h3; cases h3
      · rw [hs] at h3; cases h3
      · exact h3

theorem uok2_of_B (c : PkCfg) (e : Elem HBeat β σ) (ins : List (In HBeat)) :
    ∀ s env, uok2B c e s env ins = true → UOk2 c e s env ins := by
  induction ins with
  | nil => intro s env _; trivial
  | cons i is ih =>
    intro s env h
    simp only [uok2B, Bool.and_eq_true] at h
    exact ⟨uokStep2_of_B c env i h.1, ih _ _ h.2⟩

theorem rel_run_uok2 (c : PkCfg) (e : Elem HBeat β σ)
    (R : σ → Option UEnv2 → List (Tok HBeat) → List (Tok β) → Prop)
    (hstep : ∀ s env a d i, R s env a d → UOkStep2 c env i →
      R (e.step s i) (uenvNext2 e s env i) (a ++ e.accNow s i) (d ++ e.delNow s i)) :
    ∀ (ins : List (In HBeat)) s env a d, R s env a d → UOk2 c e s env ins →
      R (e.runFrom s ins) (uenvRun2 e s env ins) (a ++ e.accepted s ins) (d ++ e.delivered s ins) := by
  intro ins
  induction ins with
  | nil => intro s env a d h _; simpa [accepted, delivered, uenvRun2] using h
  | cons i is ih =>
    intro s env a d h hc
    obtain ⟨hc1, hc2⟩ := hc
    have := ih _ _ _ _ (hstep s env a d i h hc1) hc2
    simpa [accepted, delivered, uenvRun2, List.append_assoc] using this

/-! ### The old hypothesis implies the new one -/

/-- The old and the new environment record describe the same history; inside a packet with nothing pending the
    lines the old hypothesis has kept frozen are the beat accepted last. -/
def envSim (env : Option UEnv) (env2 : Option UEnv2) : Prop :=
  match env, env2 with
  | none, none => True
  | some v, some w => w.lines = v.lines ∧ w.pend = v.pend ∧ w.start = v.start ∧
      (v.start = false → w.acc.last = false ∧ (v.pend = false → v.lines = w.acc))
  | _, _ => False

theorem envSim_step (c : PkCfg) (e : Elem HBeat β σ) (s : σ) (env : Option UEnv) (env2 : Option UEnv2)
    (i : In HBeat) (hs : envSim env env2) (hok : UOkStep env i) :
    UOkStep2 c env2 i ∧ envSim (uenvNext e s env i) (uenvNext2 e s env2 i) := by
  cases env with
  | none =>
    cases env2 with
    | some w => exact hs.elim
    | none =>
      refine ⟨hok, ?_⟩
      simp only [envSim, uenvNext, uenvNext2, envStart, envStart2, envAcc2, true_and]
      by_cases hacc : (i.valid && (e.out s i).ready) = true
      · simp [hacc]
      · simp [hacc]
  | some v =>
    cases env2 with
    | none => exact hs.elim
    | some w =>
      obtain ⟨e1, e2, e3, e4⟩ := hs
      obtain ⟨o1, o2, o3⟩ := hok
      refine ⟨⟨?_, ?_, ?_⟩, ?_⟩
      · intro hp; rw [e1]; exact o1 (by rw [← e2]; exact hp)
      · intro hv _ hst
        have hst' : v.start = false := by rw [← e3]; exact hst
        have hp : v.pend = false := by
          cases hp : v.pend with
          | false => rfl
          | true => have := (o1 hp).1; rw [hv] at this; cases this
        have hit := o2 hv hst'
        obtain ⟨a1, a2⟩ := e4 hst'
        have a3 := a2 hp
        rw [hit, a3]; exact ⟨a1, rfl⟩
      · intro hv hp hst
        exact o3 hv (by rw [← e2]; exact hp) (by rw [← e3]; exact hst)
      · simp only [envSim, uenvNext, uenvNext2, envStart, envStart2, envAcc2, true_and]
        by_cases hacc : (i.valid && (e.out s i).ready) = true
        · simp [hacc]
        · simp only [hacc, Bool.false_eq_true, ↓reduceIte]
          refine ⟨e3, ?_⟩
          intro hst
          obtain ⟨a1, a2⟩ := e4 hst
          refine ⟨a1, ?_⟩
          intro hpn
          -- not accepted and not pending: not valid
          have hv : i.valid = false := by
            cases hv : i.valid with
            | false => rfl
            | true =>
              rw [hv] at hacc hpn
              simp only [Bool.true_and] at hacc hpn
              cases hr : (e.out s i).ready <;> simp_all
          have hp : v.pend = false := by
            cases hp : v.pend with
            | false => rfl
            | true => have := (o1 hp).1; rw [hv] at this; cases this
          rw [o2 hv hst]; exact a2 hp

/-- **`UOk → UOk2`**: every input sequence that satisfies the old hypothesis satisfies the tight one. -/
theorem uok2_of_uok (c : PkCfg) (e : Elem HBeat β σ) (ins : List (In HBeat)) :
    ∀ s env env2, envSim env env2 → UOk e s env ins → UOk2 c e s env2 ins := by
  induction ins with
  | nil => intro _ _ _ _ _; trivial
  | cons i is ih =>
    intro s env env2 hs h
    obtain ⟨h1, h2⟩ := envSim_step c e s env env2 i hs h.1
    exact ⟨h1, ih _ _ _ h2 h.2⟩

theorem uok2_of_uok_init (c : PkCfg) (e : Elem HBeat β σ) (ins : List (In HBeat))
    (h : UOk e e.init none ins) : UOk2 c e e.init none ins :=
  uok2_of_uok c e ins e.init none none trivial h

end env

/-! ### The framing relation under the tight hypothesis -/

def envAtStart2 (env : Option UEnv2) : Prop :=
  ∀ v, env = some v → v.start = true ∧ (v.pend = true → v.lines.last = false)

/-- As `uRel`, but `sink_d.data` is tied to the beat accepted last only in its top `L` bytes (`resid`), and not at
    all before the first beat of the packet has been accepted. -/
def uRel2 (c : PkCfg) (s : PkState) (env : Option UEnv2) (a : List (Tok HBeat)) (d : List (Tok Nat)) : Prop :=
  match s.st with
  | .idle => uEnd c none a = none ∧ d.map (maskPad c) = frameU c a ∧ envAtStart2 env
  | .hdr => uEnd c none a = none ∧ s.fromIdle = true ∧
      ∃ v, env = some v ∧ v.pend = true ∧ v.start = true ∧ v.lines.last = false ∧
      1 ≤ s.count ∧ s.count < c.W ∧ s.sr = hdrOf c v.lines / 2 ^ ((s.count - 1) * c.dw) ∧
      s.dLast = false ∧
      d.map (maskPad c) = frameU c a ++ (hdrWords c (hdrOf c v.lines)).take s.count
  | .ucopy =>
    (s.fromIdle = true ∧ uEnd c none a = none ∧ ∃ v, env = some v ∧ v.pend = true ∧ v.start = true ∧
        v.lines.last = false ∧ s.dLast = false ∧
        c.srFrom ((if c.W == 1 then 1 else 2) * c.dw) s.sr = hleft c (hdrOf c v.lines) ∧
        d.map (maskPad c) = frameU c a ++ hdrWords c (hdrOf c v.lines)) ∨
    (s.fromIdle = false ∧ s.dLast = false ∧ d.map (maskPad c) = frameU c a ∧
        ∃ v, env = some v ∧ v.start = false ∧ uEnd c none a = some (sinkData c v.acc) ∧
          resid c s.dData = resid c (sinkData c v.acc)) ∨
    (s.fromIdle = false ∧ s.dLast = true ∧ uEnd c none a = none ∧
        d.map (maskPad c) ++ [flushBeat c s.dData] = frameU c a ∧ envAtStart2 env)
  | .acopy => False

theorem upacketizer_step2 (c : PkCfg) (hc : UnalignedCfg c) (s : PkState) (env : Option UEnv2)
    (a : List (Tok HBeat)) (d : List (Tok Nat)) (i : In HBeat)
    (h : uRel2 c s env a d) (hok : UOkStep2 c env i) :
    uRel2 c ((packetizer c).step s i) (uenvNext2 (packetizer c) s env i)
      (a ++ (packetizer c).accNow s i) (d ++ (packetizer c).delNow s i) := by
  obtain ⟨st, sr, cnt, fi, dd, dl⟩ := s
  obtain ⟨iv, it, ir⟩ := i
  have hal := hc.aligned_eq
  have hcp := hc.copy_eq
  have hW := hc.W_pos
  cases st with
  | idle =>
    simp only [uRel2] at h
    obtain ⟨h1, h2, h3⟩ := h
    have hstart : envStart2 env = true := by
      unfold envStart2
      split
      · rfl
      · rename_i w; exact (h3 w rfl).1
    cases iv with
    | false =>
      cases ir <;>
        simp [uRel2, Elem.step, Elem.accNow, Elem.delNow, Elem.out, packetizer, hal, h1, h2, envAtStart2, uenvNext2,
          hstart]
    | true =>
      -- the beat on offer does not carry `last`
      have hl : it.last = false := by
        cases env with
        | none => exact hok rfl
        | some w =>
          obtain ⟨o1, _, o3⟩ := hok
          obtain ⟨s1, s2⟩ := h3 w rfl
          cases hp : w.pend with
          | true => have := (o1 hp).2; simp only at this; rw [this]; exact s2 hp
          | false => exact o3 rfl hp s1
      cases ir with
      | false =>
        simp [uRel2, Elem.step, Elem.accNow, Elem.delNow, Elem.out, packetizer, hal, h1, h2, envAtStart2, uenvNext2,
          hstart, hl]
      | true =>
        by_cases hw1 : c.W = 1
        · have hws : hdrWords c (hdrOf c it) = [hdrWord c (hdrOf c it) 0] := by simp [hdrWords, hw1]
          simp [uRel2, Elem.step, Elem.accNow, Elem.delNow, Elem.out, packetizer, hal, h1, h2, uenvNext2,
            hstart, hl, hw1, hcp, hws, hdrWord_zero, maskPad]
          simp [PkCfg.srFrom, min_dw_u c hc, hleft, hw1]
        · have ht := hdrWords_take_succ c (hdrOf c it) 0 (by omega)
          simp only [List.take_zero, List.nil_append, Nat.zero_add] at ht
          simp [uRel2, Elem.step, Elem.accNow, Elem.delNow, Elem.out, packetizer, hal, h1, h2, uenvNext2,
            hstart, hl, hw1, ht, hdrWord_zero, maskPad]
          omega
  | hdr =>
    simp only [uRel2] at h
    obtain ⟨h1, hfi, v, henv, hpend, hvs, hvl, hc1, hc2, hsr, hdl, hd⟩ := h
    obtain ⟨vl, vp, vs, va⟩ := v
    simp only at hpend hvs hvl hsr hd
    subst henv hfi hsr hdl hpend hvs
    obtain ⟨o1, _, _⟩ := hok
    obtain ⟨hv, htk⟩ := o1 rfl
    simp only at hv htk
    subst hv htk
    have hmin := min_dw_u c hc
    have hwd : hdrOf c it / 2 ^ ((cnt - 1) * c.dw) / 2 ^ c.dw % 2 ^ c.dw = (hdrWord c (hdrOf c it) cnt).data := by
      rw [sr_shift _ _ _ hc1]; rfl
    cases ir with
    | false =>
      simp [uRel2, Elem.step, Elem.accNow, Elem.delNow, Elem.out, packetizer, hal, h1, uenvNext2, envStart2, hvl,
        hd]
      exact ⟨hc1, hc2⟩
    | true =>
      by_cases hlast : cnt + 1 = c.W
      · have ht := hdrWords_take_succ c (hdrOf c it) cnt hc2
        rw [hlast, hdrWords_take_all] at ht
        have hw1 : c.W ≠ 1 := by omega
        have hm2 := min_2dw_u c hc (by omega)
        simp [uRel2, Elem.step, Elem.accNow, Elem.delNow, Elem.out, packetizer, hal, h1, uenvNext2, envStart2,
          hvl, hd, hlast, hcp, PkCfg.srFrom, hmin, hwd, hw1, hm2, maskPad]
        exact ⟨by rw [sr_shift2 _ _ _ hc1, hlast]; rfl, ht.symm⟩
      · have ht := hdrWords_take_succ c (hdrOf c it) cnt hc2
        have hcm := W_le_cntMod c
        have hmod : (cnt + 1) % c.cntMod = cnt + 1 := Nat.mod_eq_of_lt (by omega)
        simp [uRel2, Elem.step, Elem.accNow, Elem.delNow, Elem.out, packetizer, hal, h1, uenvNext2, envStart2,
          hvl, hd, hlast, PkCfg.srFrom, hmin, hmod, ht, sr_shift _ _ _ hc1, maskPad]
        exact ⟨by omega, rfl⟩
  | ucopy =>
    simp only [uRel2] at h
    rcases h with ⟨hfi, h1, v, henv, hpend, hvs, hvl, hdl, hsr, hd⟩ |
      ⟨hfi, hdl, hd, v, henv, hvs, h1, hres⟩ | ⟨hfi, hdl, h1, hd, h3⟩
    · -- first copy beat: header residue below the first payload bytes
      obtain ⟨vl, vp, vs, va⟩ := v
      simp only at hpend hvs hvl hd hsr
      subst henv hfi hdl hpend hvs
      obtain ⟨o1, _, _⟩ := hok
      obtain ⟨hv, htk⟩ := o1 rfl
      simp only at hv htk
      subst hv htk
      have hfs := frameU_snoc c a it
      rw [h1] at hfs
      have hsr' : c.srFrom ((if c.W = 1 then 1 else 2) * c.dw) sr = hleft c (hdrOf c it) := by simpa using hsr
      cases ir with
      | false =>
        simp [uRel2, Elem.step, Elem.accNow, Elem.delNow, Elem.out, packetizer, hal, h1, uenvNext2, envStart2, hvl,
          hd, hsr']
      | true =>
        simp [uRel2, Elem.step, Elem.accNow, Elem.delNow, Elem.out, packetizer, hal, uenvNext2, hvl, hd, hfs,
          uEnd_append, uNext, uChunk, pkUData_first c hc, hsr', maskPad, sinkData]
    · -- inside the packet
      obtain ⟨vl, vp, vs, va⟩ := v
      simp only at hvs h1 hres
      subst henv hfi hdl hvs
      obtain ⟨o1, o2, _⟩ := hok
      have hfs := frameU_snoc c a it
      rw [h1] at hfs
      cases iv with
      | false =>
        cases ir with
        | false =>
          simp [uRel2, Elem.step, Elem.accNow, Elem.delNow, Elem.out, packetizer, hal, uenvNext2, envStart2, envAcc2,
            h1, hd, hres]
        | true =>
          -- the sampled bubble: only `last` and the top `L` bytes matter
          obtain ⟨e2, e1⟩ := o2 rfl rfl rfl
          simp only [sinkData] at e1 e2
          simp [uRel2, Elem.step, Elem.accNow, Elem.delNow, Elem.out, packetizer, hal, uenvNext2, envStart2, envAcc2,
            h1, hd, e2, e1, sinkData]
      | true =>
        cases ir with
        | false =>
          simp [uRel2, Elem.step, Elem.accNow, Elem.delNow, Elem.out, packetizer, hal, uenvNext2, envStart2, envAcc2,
            h1, hd, hres]
        | true =>
          cases hl : it.last with
          | false =>
            simp [uRel2, Elem.step, Elem.accNow, Elem.delNow, Elem.out, packetizer, hal, uenvNext2, hd, hfs,
              uEnd_append, uNext, uChunk, pkUData_next c hc, maskPad, sinkData, hl, hres]
          | true =>
            simp [uRel2, Elem.step, Elem.accNow, Elem.delNow, Elem.out, packetizer, hal, uenvNext2, hd, hfs,
              uEnd_append, uNext, uChunk, pkUData_next c hc, maskPad, sinkData, hl, flushBeat, envAtStart2, hres]
    · -- flush beat
      subst hfi hdl
      have hstart : envStart2 env = true := by
        unfold envStart2
        split
        · rfl
        · rename_i w; exact (h3 w rfl).1
      have hl : iv = true → it.last = false := by
        intro hiv
        subst hiv
        cases env with
        | none => exact hok rfl
        | some w =>
          obtain ⟨o1, _, o3⟩ := hok
          obtain ⟨s1, s2⟩ := h3 w rfl
          cases hp : w.pend with
          | true => have := (o1 hp).2; simp only at this; rw [this]; exact s2 hp
          | false => exact o3 rfl hp s1
      cases ir with
      | false =>
        cases iv <;>
          simp_all [uRel2, Elem.step, Elem.accNow, Elem.delNow, Elem.out, packetizer, uenvNext2, envAtStart2]
      | true =>
        have hm : ∀ x, maskPad c { data := ubeat c (resid c dd) x, first := false, last := true }
            = flushBeat c dd := by
          intro x
          simp [maskPad, flushBeat, ubeat_mask]
        cases iv <;>
          simp_all [uRel2, Elem.step, Elem.accNow, Elem.delNow, Elem.out, packetizer, uenvNext2, envAtStart2,
            pkUData_next c hc]
  | acopy => simp [uRel2] at h

/-- What `uRel2` says about the delivered stream. -/
theorem uRel2_shape (c : PkCfg) (s : PkState) (env : Option UEnv2) (a : List (Tok HBeat)) (d : List (Tok Nat))
    (h : uRel2 c s env a d) :
    d.map (maskPad c) = frameU c a ∨
    (∃ v k, env = some v ∧ v.pend = true ∧ k ≤ c.W ∧
      d.map (maskPad c) = frameU c a ++ (hdrWords c (hdrOf c v.lines)).take k) ∨
    (∃ x, d.map (maskPad c) ++ [flushBeat c x] = frameU c a) := by
  unfold uRel2 at h
  split at h
  · exact Or.inl h.2.1
  · obtain ⟨_, _, v, he, hp, _, _, _, hk, _, _, hd⟩ := h
    exact Or.inr (Or.inl ⟨v, _, he, hp, Nat.le_of_lt hk, hd⟩)
  · rcases h with ⟨_, _, v, he, hp, _, _, _, _, hd⟩ | ⟨_, _, hd, _⟩ | ⟨_, _, _, hd, _⟩
    · exact Or.inr (Or.inl ⟨v, c.W, he, hp, Nat.le_refl _, by rw [hdrWords_take_all]; exact hd⟩)
    · exact Or.inl hd
    · exact Or.inr (Or.inr ⟨_, hd⟩)
  · exact h.elim

theorem uRel2_init (c : PkCfg) : uRel2 c (packetizer c).init none [] [] := by
  simp [uRel2, packetizer, PkState.reset, uEnd, frameU, frameUAux, envAtStart2]

/-- **packetizer_bytes, header not a multiple of the data width, tight.**  Same conclusion as
    `packetizer_bytes_unaligned_partial`, under `UOk2`: (1) stream contract, (2) in cycles with `valid = 0` and
    `source.ready = 1` strictly inside a packet the `last` line is low and the top `L` data bytes are those of the
    beat accepted last, (3) no single-beat packets. -/
theorem packetizer_bytes_unaligned_tight (c : PkCfg) (hc : UnalignedCfg c) (ins : List (In HBeat))
    (hok : UOk2 c (packetizer c) (packetizer c).init none ins) :
    let e := packetizer c
    let a := e.accepted e.init ins
    let d := e.delivered e.init ins
    d.map (maskPad c) = frameU c a ∨
    (∃ v k, uenvRun2 e e.init none ins = some v ∧ v.pend = true ∧ k ≤ c.W ∧
      d.map (maskPad c) = frameU c a ++ (hdrWords c (hdrOf c v.lines)).take k) ∨
    (∃ x, d.map (maskPad c) ++ [flushBeat c x] = frameU c a) := by
  intro e a d
  have h := rel_run_uok2 c e (uRel2 c) (upacketizer_step2 c hc) ins e.init none [] [] (uRel2_init c) hok
  simp only [List.nil_append] at h
  exact uRel2_shape c _ _ _ _ h

end Litex.Packet
