import LitexProofs.Packet.Arbiter
/-
  Arbiter fairness: the round-robin pointer moves monotonically towards a waiting requester.
-/
namespace Litex.Packet
open Litex Litex.Stream

theorem mod_lt_two (x n : Nat) (h : x < 2 * n) : x % n = if x < n then x else x - n := by
  split
  · rename_i h1; exact Nat.mod_eq_of_lt h1
  · rename_i h1
    rw [Nat.mod_eq_sub_mod (by omega)]
    exact Nat.mod_eq_of_lt (by omega)

/-- `scan` returns the first requesting candidate (offsets `j, j+1, …, j+fuel-1` from `g`), if there is one. -/
theorem rr_scan_first (n g : Nat) (req : Nat → Bool) (fuel : Nat) :
    ∀ j d, j ≤ d → d < j + fuel → req ((g + d) % n) = true →
      ∃ d', j ≤ d' ∧ d' ≤ d ∧ RoundRobin.scan n g req fuel j = (g + d') % n := by
  induction fuel with
  | zero => intro j d h1 h2 _; omega
  | succ f ih =>
    intro j d h1 h2 hr
    simp only [RoundRobin.scan]
    split
    · exact ⟨j, Nat.le_refl _, h1, rfl⟩
    · rename_i hj
      have hne : d ≠ j := by intro h; subst h; exact hj hr
      obtain ⟨d', a1, a2, a3⟩ := ih (j + 1) d (by omega) (by omega) hr
      exact ⟨d', by omega, a2, a3⟩

/-- The pointer never moves away from a requester that is waiting, and every move brings it strictly closer. -/
theorem rr_next_dist (n g k : Nat) (req : Nat → Bool) (hn : 2 ≤ n) (hg : g < n) (hk : k < n)
    (hreq : req k = true) (hgk : g ≠ k) :
    RoundRobin.dist n (RoundRobin.next .withdraw n g req) k ≤ RoundRobin.dist n g k ∧
    (RoundRobin.next .withdraw n g req ≠ g →
      RoundRobin.dist n (RoundRobin.next .withdraw n g req) k < RoundRobin.dist n g k) := by
  unfold RoundRobin.next
  have h1 : ¬ n ≤ 1 := by omega
  simp only [h1, ↓reduceIte, hg]
  split
  · simp
  · -- the current owner does not request: scan
    have hd0 : (g + RoundRobin.dist n g k) % n = k ∧ 1 ≤ RoundRobin.dist n g k ∧ RoundRobin.dist n g k < n := by
      unfold RoundRobin.dist
      rw [mod_lt_two (k + n - g) n (by omega)]
      split
      · rw [mod_lt_two _ n (by omega)]; split <;> omega
      · rw [mod_lt_two _ n (by omega)]; split <;> omega
    obtain ⟨d', a1, a2, a3⟩ := rr_scan_first n g req (n - 1) 1 (RoundRobin.dist n g k) hd0.2.1 (by omega)
      (by rw [hd0.1]; exact hreq)
    unfold RoundRobin.switch
    rw [a3]
    have hdist : RoundRobin.dist n ((g + d') % n) k = RoundRobin.dist n g k - d' := by
      have e0 := hd0
      unfold RoundRobin.dist at e0 a2 ⊢
      rw [mod_lt_two (g + d') n (by omega)]
      rw [mod_lt_two (k + n - g) n (by omega)] at e0 a2 ⊢
      split <;> rename_i hx
      · rw [mod_lt_two _ n (by omega)]
        split at a2 <;> split <;> omega
      · rw [mod_lt_two _ n (by omega)]
        split at a2 <;> split <;> omega
    rw [hdist]
    constructor
    · omega
    · intro _; omega

/-- Number of cycles in which the grant changes while running `ins` from `s`. -/
def arbChanges (n : Nat) (s : ArbState) : List ArbIn → Nat
  | [] => 0
  | i :: is =>
    (if ((arbiter n).next s i).grant ≠ s.grant then 1 else 0) + arbChanges n ((arbiter n).next s i) is

/-- Master `k` does not hold the grant after any cycle of the run. -/
def arbNeverGranted (n k : Nat) (s : ArbState) : List ArbIn → Prop
  | [] => True
  | i :: is => ((arbiter n).next s i).grant ≠ k ∧ arbNeverGranted n k ((arbiter n).next s i) is

/-- A master that is not granted cannot finish a beat, so its request (`Status.ongoing`) is exactly
    `valid ∨ ongoing register`. -/
theorem arbRequest_not_granted (s : ArbState) (i : ArbIn) (k : Nat) (h : s.grant ≠ k) :
    arbRequest s i k = ((i.masters.getD k Beat.idle).valid || s.ongoing.getD k false) := by
  have : (k == s.grant) = false := by simp; omega
  simp [arbRequest, arbStatusIn, status, StatusIn.lastHs, this]

/-- Once a master requests while it is not granted, its `ongoing` register is set. -/
theorem arbiter_request_sticks (n : Nat) (s : ArbState) (i : ArbIn) (k : Nat) (hk : k < n)
    (hr : arbRequest s i k = true) : ((arbiter n).next s i).ongoing.getD k false = true := by
  simp only [arbiter]
  rw [getD_map_range n k _ hk]; exact hr

theorem arbiter_wait_bound (n : Nat) (hn : 2 ≤ n) (k : Nat) (hk : k < n) (ins : List ArbIn) :
    ∀ s : ArbState, s.grant < n → s.grant ≠ k → s.ongoing.getD k false = true →
      arbNeverGranted n k s ins →
      arbChanges n s ins + RoundRobin.dist n ((arbiter n).runFrom s ins).grant k ≤ RoundRobin.dist n s.grant k := by
  induction ins with
  | nil => intro s _ _ _ _; simp [arbChanges, Machine.runFrom]
  | cons i is ih =>
    intro s hg hgk hong hng
    obtain ⟨hng1, hng2⟩ := hng
    have hreq : arbRequest s i k = true := by rw [arbRequest_not_granted s i k hgk, hong]; simp
    have hgn := rr_next_lt n s.grant (fun j => decide (j < n) && arbRequest s i j) hn hg
    have hd := rr_next_dist n s.grant k (fun j => decide (j < n) && arbRequest s i j) hn hg hk
      (by simp [hk, hreq]) hgk
    have hnext : ((arbiter n).next s i).grant =
        RoundRobin.next .withdraw n s.grant (fun j => decide (j < n) && arbRequest s i j) := rfl
    have := ih ((arbiter n).next s i) (by rw [hnext]; exact hgn) hng1
      (arbiter_request_sticks n s i k hk hreq) hng2
    simp only [arbChanges, Machine.runFrom]
    rw [hnext] at this ⊢
    split
    · rename_i hc
      have := hd.2 hc
      omega
    · have := hd.1
      omega

end Litex.Packet
