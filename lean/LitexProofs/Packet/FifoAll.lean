import LitexProofs.Packet.FifoAllStep
import LitexProofs.Packet.FifoBuffered
import LitexProofs.Stream.Sim
/-
  PacketFIFO for every `payload_depth` / `param_depth` / `buffered` (`packetFifoAll pd qd buffered`,
  `qd` = param_depth + 1): atomicity (all instances), the dead depth-0 instance, the connection to the depth ≥ 2
  models `packetFifo` / `packetFifoBuffered` (from reset), and the negative witness of the method before the fix
  of finding C16-packetfifo-buffered-param0 (`buffered`, `payload_depth ≥ 2`, `param_depth = 0`).
-/
namespace Litex.Packet
open Litex.Stream Litex.Stream.Elem

theorem qkind_fifo (n : Nat) (h : 2 ≤ n) : qkind n false = .fifo := by
  unfold qkind; split; · omega
  split; · omega
  rfl

theorem qkind_bfifo (n : Nat) (h : 2 ≤ n) : qkind n true = .bfifo := by
  unfold qkind; split; · omega
  split; · omega
  rfl

theorem qkind_eq_bfifo {n : Nat} {b : Bool} (h : qkind n b = .bfifo) : 2 ≤ n ∧ b = true := by
  unfold qkind at h
  split at h; · cases h
  split at h; · cases h
  split at h
  · exact ⟨by omega, by assumption⟩
  · cases h

/-- Outside `buffered ∧ pd ≥ 2 ∧ qd = 1` the queue pairing keeps "param readable → payload readable". -/
theorem kindsOk_of_not_defect (pd qd : Nat) (buffered : Bool)
    (hnd : ¬ (buffered = true ∧ 2 ≤ pd ∧ qd = 1)) : kindsOk (qkind pd buffered) (qkind qd buffered) := by
  by_cases hkp : qkind pd buffered = .bfifo
  · obtain ⟨h2, hb⟩ := qkind_eq_bfifo hkp
    subst hb
    right
    by_cases h0 : qd = 0
    · right; simp [qkind, h0]
    · have h1 : qd ≠ 1 := fun h1 => hnd ⟨rfl, h2, h1⟩
      left; exact qkind_bfifo qd (by omega)
  · exact Or.inl hkp

theorem pfaRel_init (kp kq : QKind) (pd qd : Nat) : pfaRel kp kq (packetFifoK kp kq pd qd).init [] [] := by
  refine ⟨[], ?_, ?_, ?_, fun ext => by simp⟩
  · cases kp <;> simp [packetFifoK, QSt.stored]
  · cases kq <;> simp [packetFifoK, QSt.stored, paramsOf]
  · intro _; cases kq <;> simp [packetFifoK, QSt.readable]

/-- Occupancy of the inner FIFOs. -/
def pfaBound (pd qd : Nat) (s : PFAState) : Prop := s.pay.bounded pd ∧ s.par.bounded qd

theorem packetFifoK_bound_step (kp kq : QKind) (pd qd : Nat) (s : PFAState) (i : In PBeat)
    (h : pfaBound pd qd s) : pfaBound pd qd ((packetFifoK kp kq pd qd).step s i) := by
  constructor
  · rw [pfa_step_pay]; exact QSt.bounded_next _ _ _ _ _ _ h.1
  · rw [pfa_step_par]; exact QSt.bounded_next _ _ _ _ _ _ h.2

/-- The invariant of all reachable states, for every queue pairing. -/
theorem packetFifoK_reach (kp kq : QKind) (pd qd : Nat) (ins : List (In PBeat)) :
    let e := packetFifoK kp kq pd qd
    pfaRel kp kq (e.runFrom e.init ins) (e.accepted e.init ins) (e.delivered e.init ins) ∧
      pfaBound pd qd (e.runFrom e.init ins) := by
  intro e
  exact rel_run_init e (fun s a d => pfaRel kp kq s a d ∧ pfaBound pd qd s)
    ⟨pfaRel_init kp kq pd qd, by simp [pfaBound, QSt.bounded, e, packetFifoK]⟩
    (fun s a d i h => ⟨packetFifoK_step kp kq pd qd s a d i h.1, packetFifoK_bound_step kp kq pd qd s i h.2⟩)
    ins

/-- **packetfifo_all_atomic**: PacketFIFO of every payload depth `pd ≥ 0`, every param queue depth `qd`
    (= param_depth + 1) and both `buffered` values.  For every input sequence:
    * the delivered beats are a prefix of `annT accepted` (the accepted beats in order, data and last unchanged,
      each with the param presented with the last beat of its own packet);
    * the payload queue stores exactly the accepted, not yet delivered beats;
    * the param queue stores one entry per complete stored packet;
    * `source.valid` only while both the param queue and the payload queue are readable;
    * occupancies: payload at most 0 / 1 / `pd` / `pd + 1` (wire / PipeValid / SyncFIFO / SyncFIFOBuffered),
      likewise for the param queue. -/
theorem packetFifoAll_atomic (pd qd : Nat) (buffered : Bool) (ins : List (In PBeat)) :
    let e := packetFifoAll pd qd buffered
    let kp := qkind pd buffered
    let kq := qkind qd buffered
    let s := e.runFrom e.init ins
    e.delivered e.init ins <+: annT (e.accepted e.init ins) ∧
    (e.accepted e.init ins).length = (e.delivered e.init ins).length + (s.pay.stored kp).length ∧
    (s.par.stored kq).length = ((s.pay.stored kp).filter (fun x => x.2)).length ∧
    (∀ i, (e.out s i).valid = true → s.par.readable kq = true ∧ s.pay.readable kp = true) ∧
    (s.pay.stored kp).length ≤ QSt.cap kp pd ∧ (s.par.stored kq).length ≤ QSt.cap kq qd := by
  intro e kp kq s
  obtain ⟨⟨a2, hpay, hpar, _, hext⟩, hb1, hb2⟩ := packetFifoK_reach kp kq pd qd ins
  have h0 := hext []
  simp only [List.append_nil] at h0
  refine ⟨⟨_, h0.symm⟩, ?_, ?_, ?_, QSt.stored_length_le kp pd _ hb1, QSt.stored_length_le kq qd _ hb2⟩
  · have := congrArg List.length h0
    simp only [List.length_append, annT_length] at this
    show _ = _ + (s.pay.stored kp).length
    rw [show s.pay.stored kp = a2.map payOf from hpay, List.length_map]
    exact this
  · show (s.par.stored kq).length = ((s.pay.stored kp).filter _).length
    rw [show s.pay.stored kp = a2.map payOf from hpay, show s.par.stored kq = paramsOf a2 from hpar]
    exact paramsOf_length a2
  · intro i hv
    have hv' : (s.par.readable kq && s.pay.readable kp) = true := hv
    simpa using hv'

/-- Outside `buffered ∧ pd ≥ 2 ∧ qd = 1` a readable param queue implies a readable payload queue in every
    reachable state: there `source.valid` is "param queue readable", as before the fix. -/
theorem packetFifoAll_readable_inv (pd qd : Nat) (buffered : Bool)
    (hnd : ¬ (buffered = true ∧ 2 ≤ pd ∧ qd = 1)) (ins : List (In PBeat)) :
    let e := packetFifoAll pd qd buffered
    let s := e.runFrom e.init ins
    s.par.readable (qkind qd buffered) = true → s.pay.readable (qkind pd buffered) = true := by
  intro e s
  obtain ⟨⟨a2, _, _, hinv, _⟩, _⟩ := packetFifoK_reach (qkind pd buffered) (qkind qd buffered) pd qd ins
  exact hinv (kindsOk_of_not_defect pd qd buffered hnd)

/-- `source.valid` in a reachable state: the beat shown on the source is the oldest stored payload beat (no
    stale register contents) with the oldest stored param, and the payload queue holds a last beat (a complete
    packet). -/
theorem packetFifoAll_valid_complete (pd qd : Nat) (buffered : Bool) (ins : List (In PBeat)) (i : In PBeat) :
    let e := packetFifoAll pd qd buffered
    let s := e.runFrom e.init ins
    (e.out s i).valid = true →
      (∃ rest, s.pay.stored (qkind pd buffered) =
        ((e.out s i).tok.data.data, (e.out s i).tok.last) :: rest) ∧
      (∃ rest, s.par.stored (qkind qd buffered) = (e.out s i).tok.data.param :: rest) ∧
      ∃ x ∈ s.pay.stored (qkind pd buffered), x.2 = true := by
  intro e s hv
  obtain ⟨_, _, hcnt, hval, _, _⟩ := packetFifoAll_atomic pd qd buffered ins
  obtain ⟨hv', hpr⟩ := hval i hv
  refine ⟨⟨_, QSt.stored_readable _ _ hpr⟩, ⟨_, QSt.stored_readable _ _ hv'⟩, ?_⟩
  have hne := QSt.stored_ne_nil_of_readable _ _ hv'
  have : 0 < ((s.pay.stored (qkind pd buffered)).filter (fun x => x.2)).length := by
    rw [← hcnt]; exact List.length_pos_iff.mpr hne
  obtain ⟨x, hx⟩ := List.exists_mem_of_length_pos this
  simp only [List.mem_filter] at hx
  exact ⟨x, hx.1, hx.2⟩

/-! ### payload_depth = 0 -/

theorem packetFifoK_never_accepted (kq : QKind) (pd qd : Nat) (ins : List (In PBeat)) (s : PFAState) :
    (packetFifoK .never kq pd qd).accepted s ins = [] := by
  induction ins generalizing s with
  | nil => rfl
  | cons i is ih =>
    simp only [Elem.accepted, ih, List.append_nil]
    rw [pfa_accNow]
    simp [pfaWp, QSt.writable]

/-- **packetfifo_depth0_dead**: `PacketFIFO(layout, payload_depth=0, …)` never accepts and never delivers
    anything: from reset, for every input sequence, `sink.ready = 0` and `source.valid = 0`. -/
theorem packetfifo_depth0_dead (qd : Nat) (buffered : Bool) (ins : List (In PBeat)) :
    let e := packetFifoAll 0 qd buffered
    e.accepted e.init ins = [] ∧ e.delivered e.init ins = [] ∧
      ∀ i, (e.out (e.runFrom e.init ins) i).ready = false ∧ (e.out (e.runFrom e.init ins) i).valid = false := by
  intro e
  have hk : qkind 0 buffered = .never := by simp [qkind]
  have hacc : e.accepted e.init ins = [] := by
    show (packetFifoK (qkind 0 buffered) _ 0 qd).accepted _ ins = []
    rw [hk]; exact packetFifoK_never_accepted _ 0 qd ins _
  obtain ⟨hpre, _, _, _, _, _⟩ := packetFifoAll_atomic 0 qd buffered ins
  have hdel : e.delivered e.init ins = [] := by
    have h := hpre
    rw [show (packetFifoAll 0 qd buffered).accepted (packetFifoAll 0 qd buffered).init ins = [] from hacc] at h
    simpa [annT] using h
  refine ⟨hacc, hdel, fun i => ⟨?_, ?_⟩⟩
  · show ((packetFifoK (qkind 0 buffered) (qkind qd buffered) 0 qd).out _ i).ready = false
    rw [pfa_out_ready, hk]; simp [pfaWp, QSt.writable]
  · show ((packetFifoK (qkind 0 buffered) (qkind qd buffered) 0 qd).out _ i).valid = false
    rw [pfa_out_valid, hk]; simp [pfaSv, QSt.readable]

/-! ### Connection to the depth ≥ 2 models

  `packetFifo` / `packetFifoBuffered` (`LitexModel/Packet/Fifo.lean`) keep `source.valid = param readable`.  In all
  their reachable states (more generally: in all states that satisfy their history relation) a readable param
  queue implies a readable payload queue, so there they behave exactly like the fixed machine. -/

/-- Functional simulation under an invariant of the first element. -/
theorem sim_run_inv {α β σ τ : Type} (e1 : Elem α β σ) (e2 : Elem α β τ) (f : σ → τ) (Inv : σ → Prop)
    (hinv : ∀ s i, Inv s → Inv (e1.step s i))
    (hf : ∀ s v t, Inv s → e1.fwd s v t = e2.fwd (f s) v t)
    (hb : ∀ s v t r, Inv s → e1.bwd s v t r = e2.bwd (f s) v t r)
    (hn : ∀ s v t r, Inv s → f (e1.next s v t r) = e2.next (f s) v t r) :
    ∀ (ins : List (In α)) (s : σ), Inv s →
      e1.accepted s ins = e2.accepted (f s) ins ∧ e1.delivered s ins = e2.delivered (f s) ins ∧
      f (e1.runFrom s ins) = e2.runFrom (f s) ins := by
  intro ins
  induction ins with
  | nil => intro s _; simp [accepted, delivered]
  | cons i is ih =>
    intro s hs
    have hout : e1.out s i = e2.out (f s) i := by simp [out, hf _ _ _ hs, hb _ _ _ _ hs]
    have hstep : f (e1.step s i) = e2.step (f s) i := by simp [step, hn _ _ _ _ hs]
    obtain ⟨h1, h2, h3⟩ := ih (e1.step s i) (hinv s i hs)
    simp [accepted, delivered, accNow, delNow, hout, h1, h2, h3, hstep]

/-- The state of `packetFifo` as a state of `packetFifoAll` (output registers unused). -/
def pfaOfPlain (s : PFState) : PFAState :=
  { pay := { q := s.pay, v := false, d := (0, false) }, par := { q := s.par, v := false, d := 0 } }

/-- The state of `packetFifoBuffered` as a state of `packetFifoAll`. -/
def pfaOfBuffered (s : PFBState) : PFAState :=
  { pay := { q := s.payQ, v := s.payV, d := s.payD }, par := { q := s.parQ, v := s.parV, d := s.parD } }

theorem pfaOfPlain_init (pd qd : Nat) :
    pfaOfPlain (packetFifo pd qd).init = (packetFifoAll pd qd false).init := rfl

theorem pfaOfBuffered_init (pd qd : Nat) :
    pfaOfBuffered (packetFifoBuffered pd qd).init = (packetFifoAll pd qd true).init := rfl

/-- The invariant of `packetFifo` under which it coincides with the fixed machine. -/
def pfPlainInv (s : PFState) : Prop := ∃ a d, pfRel s a d
/-- The invariant of `packetFifoBuffered` under which it coincides with the fixed machine. -/
def pfBufInv (s : PFBState) : Prop := ∃ a d, pfbRel s a d

theorem pfPlainInv_init (pd qd : Nat) : pfPlainInv (packetFifo pd qd).init :=
  ⟨[], [], [], by simp [packetFifo], by simp [packetFifo, paramsOf], fun ext => by simp⟩

theorem pfBufInv_init (pd qd : Nat) : pfBufInv (packetFifoBuffered pd qd).init :=
  ⟨[], [], [], by simp [packetFifoBuffered, storedPay], by simp [packetFifoBuffered, storedPar, paramsOf],
    by simp [packetFifoBuffered], fun ext => by simp⟩

theorem pfPlainInv_step (pd qd : Nat) (s : PFState) (i : In PBeat) (h : pfPlainInv s) :
    pfPlainInv ((packetFifo pd qd).step s i) := by
  obtain ⟨a, d, h⟩ := h
  exact ⟨_, _, packetFifo_step pd qd s a d i h⟩

theorem pfBufInv_step (pd qd : Nat) (s : PFBState) (i : In PBeat) (h : pfBufInv s) :
    pfBufInv ((packetFifoBuffered pd qd).step s i) := by
  obtain ⟨a, d, h⟩ := h
  exact ⟨_, _, packetFifoBuffered_step pd qd s a d i h⟩

/-- In `packetFifo` a stored param implies a stored payload beat. -/
theorem pfPlainInv_sv (s : PFState) (h : pfPlainInv s) :
    (!s.par.isEmpty && !s.pay.isEmpty) = !s.par.isEmpty := by
  obtain ⟨a, d, a2, hpay, hpar, _⟩ := h
  rw [hpay, hpar]
  cases a2 with
  | nil => simp [paramsOf]
  | cons t r => simp

/-- In `packetFifoBuffered` a valid param register implies a valid payload register. -/
theorem pfBufInv_sv (s : PFBState) (h : pfBufInv s) : (s.parV && s.payV) = s.parV := by
  obtain ⟨a, d, a2, _, _, hinv, _⟩ := h
  cases hv : s.parV with
  | false => rfl
  | true => simp [hinv hv]

theorem plain_fwd (pd qd : Nat) (s : PFState) (v : Bool) (t : Tok PBeat) (h : pfPlainInv s) :
    (packetFifo pd qd).fwd s v t = (packetFifoK .fifo .fifo pd qd).fwd (pfaOfPlain s) v t := by
  have hsv := pfPlainInv_sv s h
  simp only [packetFifo, packetFifoK, pfaOfPlain, QSt.readable, QSt.dout, hsv]

theorem plain_bwd (pd qd : Nat) (s : PFState) (v : Bool) (t : Tok PBeat) (r : Bool) :
    (packetFifo pd qd).bwd s v t r = (packetFifoK .fifo .fifo pd qd).bwd (pfaOfPlain s) v t r := rfl

theorem plain_next (pd qd : Nat) (s : PFState) (v : Bool) (t : Tok PBeat) (r : Bool) (h : pfPlainInv s) :
    pfaOfPlain ((packetFifo pd qd).next s v t r) = (packetFifoK .fifo .fifo pd qd).next (pfaOfPlain s) v t r := by
  have hsv := pfPlainInv_sv s h
  obtain ⟨pay, par⟩ := s
  simp only at hsv
  simp only [packetFifo, packetFifoK, pfaOfPlain, QSt.next, QSt.readable, QSt.dout, QSt.writable, hsv]
  congr 2
  cases par <;> simp

theorem buffered_fwd (pd qd : Nat) (s : PFBState) (v : Bool) (t : Tok PBeat) (h : pfBufInv s) :
    (packetFifoBuffered pd qd).fwd s v t = (packetFifoK .bfifo .bfifo pd qd).fwd (pfaOfBuffered s) v t := by
  have hsv := pfBufInv_sv s h
  simp only [packetFifoBuffered, packetFifoK, pfaOfBuffered, QSt.readable, QSt.dout, hsv]

theorem buffered_bwd (pd qd : Nat) (s : PFBState) (v : Bool) (t : Tok PBeat) (r : Bool) :
    (packetFifoBuffered pd qd).bwd s v t r =
      (packetFifoK .bfifo .bfifo pd qd).bwd (pfaOfBuffered s) v t r := rfl

theorem buffered_next (pd qd : Nat) (s : PFBState) (v : Bool) (t : Tok PBeat) (r : Bool) (h : pfBufInv s) :
    pfaOfBuffered ((packetFifoBuffered pd qd).next s v t r) =
      (packetFifoK .bfifo .bfifo pd qd).next (pfaOfBuffered s) v t r := by
  have hsv := pfBufInv_sv s h
  obtain ⟨payQ, payV, payD, parQ, parV, parD⟩ := s
  simp only at hsv
  simp only [packetFifoBuffered, packetFifoK, pfaOfBuffered, QSt.next, QSt.readable, QSt.dout, QSt.writable, hsv]
  cases payQ <;> cases parQ <;> simp

/-- **packetFifoAll_eq_plain**: for depths ≥ 2, from every state that satisfies the history relation of
    `packetFifo` (in particular from reset), `packetFifoAll pd qd false` and `packetFifo pd qd` accept and deliver
    the same streams and stay in related states. -/
theorem packetFifoAll_eq_plain (pd qd : Nat) (hp : 2 ≤ pd) (hq : 2 ≤ qd) (ins : List (In PBeat)) (s : PFState)
    (hs : pfPlainInv s) :
    (packetFifo pd qd).accepted s ins = (packetFifoAll pd qd false).accepted (pfaOfPlain s) ins ∧
    (packetFifo pd qd).delivered s ins = (packetFifoAll pd qd false).delivered (pfaOfPlain s) ins ∧
    pfaOfPlain ((packetFifo pd qd).runFrom s ins) = (packetFifoAll pd qd false).runFrom (pfaOfPlain s) ins := by
  unfold packetFifoAll
  rw [qkind_fifo pd hp, qkind_fifo qd hq]
  exact sim_run_inv _ _ pfaOfPlain pfPlainInv (pfPlainInv_step pd qd) (plain_fwd pd qd)
    (fun s v t r _ => plain_bwd pd qd s v t r) (plain_next pd qd) ins s hs

/-- **packetFifoAll_eq_plain_init**: from reset, for every input sequence. -/
theorem packetFifoAll_eq_plain_init (pd qd : Nat) (hp : 2 ≤ pd) (hq : 2 ≤ qd) (ins : List (In PBeat)) :
    (packetFifo pd qd).accepted (packetFifo pd qd).init ins =
      (packetFifoAll pd qd false).accepted (packetFifoAll pd qd false).init ins ∧
    (packetFifo pd qd).delivered (packetFifo pd qd).init ins =
      (packetFifoAll pd qd false).delivered (packetFifoAll pd qd false).init ins := by
  obtain ⟨h1, h2, _⟩ := packetFifoAll_eq_plain pd qd hp hq ins _ (pfPlainInv_init pd qd)
  exact ⟨h1, h2⟩

/-- Outputs and next states agree in related states (under the invariant of `packetFifo`). -/
theorem packetFifoAll_eq_plain_out (pd qd : Nat) (hp : 2 ≤ pd) (hq : 2 ≤ qd) (s : PFState) (i : In PBeat)
    (hs : pfPlainInv s) :
    (packetFifoAll pd qd false).out (pfaOfPlain s) i = (packetFifo pd qd).out s i ∧
    (packetFifoAll pd qd false).step (pfaOfPlain s) i = pfaOfPlain ((packetFifo pd qd).step s i) := by
  unfold packetFifoAll
  rw [qkind_fifo pd hp, qkind_fifo qd hq]
  refine ⟨?_, (plain_next pd qd s i.valid i.tok i.ready hs).symm⟩
  simp [Elem.out, ← plain_fwd pd qd s i.valid i.tok hs, ← plain_bwd]

/-- **packetFifoAll_eq_buffered**: the same for `packetFifoAll pd qd true` and `packetFifoBuffered pd qd`. -/
theorem packetFifoAll_eq_buffered (pd qd : Nat) (hp : 2 ≤ pd) (hq : 2 ≤ qd) (ins : List (In PBeat))
    (s : PFBState) (hs : pfBufInv s) :
    (packetFifoBuffered pd qd).accepted s ins = (packetFifoAll pd qd true).accepted (pfaOfBuffered s) ins ∧
    (packetFifoBuffered pd qd).delivered s ins = (packetFifoAll pd qd true).delivered (pfaOfBuffered s) ins ∧
    pfaOfBuffered ((packetFifoBuffered pd qd).runFrom s ins) =
      (packetFifoAll pd qd true).runFrom (pfaOfBuffered s) ins := by
  unfold packetFifoAll
  rw [qkind_bfifo pd hp, qkind_bfifo qd hq]
  exact sim_run_inv _ _ pfaOfBuffered pfBufInv (pfBufInv_step pd qd) (buffered_fwd pd qd)
    (fun s v t r _ => buffered_bwd pd qd s v t r) (buffered_next pd qd) ins s hs

/-- **packetFifoAll_eq_buffered_init**: from reset, for every input sequence. -/
theorem packetFifoAll_eq_buffered_init (pd qd : Nat) (hp : 2 ≤ pd) (hq : 2 ≤ qd) (ins : List (In PBeat)) :
    (packetFifoBuffered pd qd).accepted (packetFifoBuffered pd qd).init ins =
      (packetFifoAll pd qd true).accepted (packetFifoAll pd qd true).init ins ∧
    (packetFifoBuffered pd qd).delivered (packetFifoBuffered pd qd).init ins =
      (packetFifoAll pd qd true).delivered (packetFifoAll pd qd true).init ins := by
  obtain ⟨h1, h2, _⟩ := packetFifoAll_eq_buffered pd qd hp hq ins _ (pfBufInv_init pd qd)
  exact ⟨h1, h2⟩

theorem packetFifoAll_eq_buffered_out (pd qd : Nat) (hp : 2 ≤ pd) (hq : 2 ≤ qd) (s : PFBState) (i : In PBeat)
    (hs : pfBufInv s) :
    (packetFifoAll pd qd true).out (pfaOfBuffered s) i = (packetFifoBuffered pd qd).out s i ∧
    (packetFifoAll pd qd true).step (pfaOfBuffered s) i = pfaOfBuffered ((packetFifoBuffered pd qd).step s i) := by
  unfold packetFifoAll
  rw [qkind_bfifo pd hp, qkind_bfifo qd hq]
  refine ⟨?_, (buffered_next pd qd s i.valid i.tok i.ready hs).symm⟩
  simp [Elem.out, ← buffered_fwd pd qd s i.valid i.tok hs, ← buffered_bwd]

/-! ### Non-vacuity, the fixed witness, and the method before the fix -/

/-- A single-beat packet passes `PacketFIFO(1)` (payload `PipeValid`, param FIFO of depth 2), non-buffered and
    buffered (the buffered param FIFO shows the param one cycle later). -/
example :
    let t (d p : Nat) (l : Bool) : Tok PBeat := ⟨⟨d, p⟩, false, l⟩
    let idle : In PBeat := ⟨false, t 0 0 false, true⟩
    (packetFifoAll 1 2 false).delivered (packetFifoAll 1 2 false).init [⟨true, t 7 9 true, true⟩, idle] = [t 7 9 true] ∧
    (packetFifoAll 1 2 true).delivered (packetFifoAll 1 2 true).init [⟨true, t 7 9 true, true⟩, idle] = [] ∧
    (packetFifoAll 1 2 true).delivered (packetFifoAll 1 2 true).init [⟨true, t 7 9 true, true⟩, idle, idle]
      = [t 7 9 true] := by decide

/-- Back-to-back single-beat packets through `payload_depth = 1`: the full `PipeValid` accepts the next beat in
    the very cycle in which its content is handed over (and only then), one packet per cycle; also with a
    `PipeValid` param queue (`param_depth = 0`). -/
example :
    let t (d p : Nat) (l : Bool) : Tok PBeat := ⟨⟨d, p⟩, false, l⟩
    let e := packetFifoAll 1 2 false
    let s1 := e.step e.init ⟨true, t 1 11 true, true⟩
    let ins : List (In PBeat) :=
      [⟨true, t 1 11 true, true⟩, ⟨true, t 2 12 true, true⟩, ⟨true, t 3 13 true, true⟩, ⟨false, t 0 0 false, true⟩]
    (e.out s1 ⟨true, t 2 12 true, true⟩).ready = true ∧ (e.out s1 ⟨true, t 2 12 true, false⟩).ready = false ∧
    (e.out s1 ⟨true, t 2 12 true, true⟩).valid = true ∧
    e.accepted e.init ins = [t 1 11 true, t 2 12 true, t 3 13 true] ∧
    e.delivered e.init ins = [t 1 11 true, t 2 12 true, t 3 13 true] ∧
    (packetFifoAll 1 1 false).delivered (packetFifoAll 1 1 false).init ins
      = [t 1 11 true, t 2 12 true, t 3 13 true] ∧
    (packetFifoAll 1 1 true).delivered (packetFifoAll 1 1 true).init ins
      = [t 1 11 true, t 2 12 true, t 3 13 true] := by decide

/-- A two-beat packet does not fit `payload_depth = 1` (store-and-forward limit), a mixed instance
    `PacketFIFO(4, param_depth=1, buffered)` delivers it with the param of its last beat. -/
example :
    let t (d p : Nat) (l : Bool) : Tok PBeat := ⟨⟨d, p⟩, false, l⟩
    let idle : In PBeat := ⟨false, t 0 0 false, true⟩
    let ins : List (In PBeat) := [⟨true, t 1 0 false, true⟩, ⟨true, t 2 9 true, true⟩, ⟨true, t 2 9 true, true⟩,
      idle, idle, idle]
    (packetFifoAll 1 2 false).accepted (packetFifoAll 1 2 false).init ins = [t 1 0 false] ∧
    (packetFifoAll 4 2 true).delivered (packetFifoAll 4 2 true).init ins
      = [t 1 9 false, t 2 9 true, t 2 9 true] := by decide

/-- **packetFifoAll_fixed_witness**: `PacketFIFO(2, param_depth=0, buffered=True)` (payload `SyncFIFOBuffered`,
    param `PipeValid`), the witness input of finding C16-packetfifo-buffered-param0 on the code that exists: the
    param register is valid one cycle after the write, the payload output register two cycles after; the source
    waits for both and delivers exactly the accepted beat. -/
theorem packetFifoAll_fixed_witness :
    let t (d p : Nat) (l : Bool) : Tok PBeat := ⟨⟨d, p⟩, false, l⟩
    let e := packetFifoAll 2 1 true
    let ins : List (In PBeat) := [⟨true, t 107 48 true, true⟩, ⟨false, t 0 0 false, true⟩,
      ⟨false, t 0 0 false, true⟩, ⟨false, t 0 0 false, true⟩]
    e.accepted e.init ins = [t 107 48 true] ∧
    e.delivered e.init ins = [t 107 48 true] ∧
    ((e.runFrom e.init [⟨true, t 107 48 true, true⟩]).par.readable (qkind 1 true) = true ∧
     (e.runFrom e.init [⟨true, t 107 48 true, true⟩]).pay.readable (qkind 2 true) = false ∧
     (e.out (e.runFrom e.init [⟨true, t 107 48 true, true⟩]) ⟨false, t 0 0 false, true⟩).valid = false) := by
  decide

/-- **Negative witness: the method before the fix** (finding C16-packetfifo-buffered-param0, fixed):
    `source.valid = param.source.valid` alone (`packetFifoAllPre`).  One single-beat packet (data 107, param 48) is
    accepted; the param register is valid one cycle later, the payload output register only two cycles later, so
    the source first handed over a beat that was never accepted (stale payload register: data 0, last 0) and
    then the real one: two beats delivered for one accepted, and the prefix property failed. -/
theorem packetFifoPre_defect :
    let t (d p : Nat) (l : Bool) : Tok PBeat := ⟨⟨d, p⟩, false, l⟩
    let e := packetFifoAllPre 2 1 true
    let ins : List (In PBeat) := [⟨true, t 107 48 true, true⟩, ⟨false, t 0 0 false, true⟩,
      ⟨false, t 0 0 false, true⟩, ⟨false, t 0 0 false, true⟩]
    e.accepted e.init ins = [t 107 48 true] ∧
    e.delivered e.init ins = [t 0 48 false, t 107 48 true] ∧
    ¬ (e.delivered e.init ins <+: annT (e.accepted e.init ins)) := by decide

end Litex.Packet
