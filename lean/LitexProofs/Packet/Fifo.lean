import LitexModel.Packet.Fifo
/-
  PacketFIFO: specification functions and the step lemma of the history relation.

  `annT a` is what the source of a correct packet FIFO delivers for the accepted beats `a`: the same beats in
  the same order (data and last unchanged, first = 0), each carrying the param that was presented with the
  *last* beat of its own packet.
-/
namespace Litex.Packet
open Litex.Stream Litex.Stream.Elem

/-- The param of the first `last` beat of `l` (the param the packet that is open at the head of `l` will get). -/
def nextParam : List (Tok PBeat) → Option Nat
  | [] => none
  | t :: r => if t.last then some t.data.param else nextParam r

/-- Every beat annotated with the param of the last beat of its packet (0 while that beat has not arrived). -/
def annT : List (Tok PBeat) → List (Tok PBeat)
  | [] => []
  | t :: r =>
    { data := { data := t.data.data, param := (nextParam (t :: r)).getD 0 }, first := false, last := t.last }
      :: annT r

theorem annT_length (l : List (Tok PBeat)) : (annT l).length = l.length := by
  induction l with
  | nil => rfl
  | cons t r ih => simp [annT, ih]

/-- What the payload FIFO stores of a beat. -/
def payOf (t : Tok PBeat) : Nat × Bool := (t.data.data, t.last)

/-- What the param FIFO stores of a list of beats: the params of the last beats. -/
def paramsOf : List (Tok PBeat) → List Nat
  | [] => []
  | t :: r => if t.last then t.data.param :: paramsOf r else paramsOf r

theorem paramsOf_append (l m : List (Tok PBeat)) : paramsOf (l ++ m) = paramsOf l ++ paramsOf m := by
  induction l with
  | nil => rfl
  | cons t r ih => simp only [List.cons_append, paramsOf]; split <;> simp [ih]

theorem nextParam_of_paramsOf (l ext : List (Tok PBeat)) (p : Nat) (ps : List Nat)
    (h : paramsOf l = p :: ps) : nextParam (l ++ ext) = some p := by
  induction l with
  | nil => simp [paramsOf] at h
  | cons t r ih =>
    simp only [paramsOf] at h
    simp only [List.cons_append, nextParam]
    split
    · rename_i hl; simp [hl] at h; simp [h.1]
    · rename_i hl; simp [hl] at h; exact ih h

theorem paramsOf_length (l : List (Tok PBeat)) :
    (paramsOf l).length = ((l.map payOf).filter (fun x => x.2)).length := by
  induction l with
  | nil => rfl
  | cons t r ih =>
    simp only [paramsOf, List.map_cons, List.filter_cons, payOf]
    split <;> simp_all [payOf]

/-- The history relation: the state holds exactly the accepted, not yet delivered beats `a2`, and whatever
    is accepted in the future (`ext`), the specification for everything accepted is what has been delivered
    followed by the specification for `a2 ++ ext`. -/
def pfRel (s : PFState) (a d : List (Tok PBeat)) : Prop :=
  ∃ a2, s.pay = a2.map payOf ∧ s.par = paramsOf a2 ∧ ∀ ext, annT (a ++ ext) = d ++ annT (a2 ++ ext)

/-- `sink.ready` of the PacketFIFO. -/
def pfReady (pd qd : Nat) (s : PFState) : Bool := s.pay.length != pd && s.par.length != qd

/-- The register update written with a single acceptance condition. -/
theorem packetFifo_step_eq (pd qd : Nat) (s : PFState) (i : In PBeat) :
    (packetFifo pd qd).step s i =
      { pay := (if (i.valid && pfReady pd qd s) then
                 (if (!s.par.isEmpty && i.ready && !s.pay.isEmpty) then s.pay.tail else s.pay) ++ [payOf i.tok]
               else (if (!s.par.isEmpty && i.ready && !s.pay.isEmpty) then s.pay.tail else s.pay))
        par := (if (i.valid && pfReady pd qd s && i.tok.last) then
                 (if (!s.par.isEmpty && (s.pay.headD (0, false)).2 && i.ready) then s.par.tail else s.par)
                   ++ [i.tok.data.param]
               else (if (!s.par.isEmpty && (s.pay.headD (0, false)).2 && i.ready) then s.par.tail else s.par)) } := by
  have e1 : (i.valid && s.par.length != qd && s.pay.length != pd)
      = (i.valid && (s.pay.length != pd && s.par.length != qd)) := by
    cases i.valid <;> cases (s.par.length != qd) <;> cases (s.pay.length != pd) <;> rfl
  have e2 : (i.valid && i.tok.last && s.pay.length != pd && s.par.length != qd)
      = (i.valid && (s.pay.length != pd && s.par.length != qd) && i.tok.last) := by
    cases i.valid <;> cases (s.par.length != qd) <;> cases (s.pay.length != pd) <;> cases i.tok.last <;> rfl
  simp only [Elem.step, packetFifo, pfReady, payOf, e1, e2]
  rfl

theorem packetFifo_accNow (pd qd : Nat) (s : PFState) (i : In PBeat) :
    (packetFifo pd qd).accNow s i = if (i.valid && pfReady pd qd s) then [i.tok] else [] := rfl

theorem packetFifo_step (pd qd : Nat) (s : PFState) (a d : List (Tok PBeat)) (i : In PBeat)
    (h : pfRel s a d) :
    pfRel ((packetFifo pd qd).step s i) (a ++ (packetFifo pd qd).accNow s i)
      (d ++ (packetFifo pd qd).delNow s i) := by
  obtain ⟨a2, hpay, hpar, hext⟩ := h
  obtain ⟨iv, it, ir⟩ := i
  obtain ⟨pay, par⟩ := s
  simp only at hpay hpar
  subst hpay hpar
  -- the delivery half: a relation for the state after the pop
  have hdel : ∃ a3, (if (!(paramsOf a2).isEmpty && ir && !(a2.map payOf).isEmpty) then (a2.map payOf).tail else a2.map payOf) = a3.map payOf ∧
      (if (!(paramsOf a2).isEmpty && ((a2.map payOf).headD (0, false)).2 && ir) then (paramsOf a2).tail else paramsOf a2) = paramsOf a3 ∧
      ∀ ext, annT (a ++ ext) = (d ++ (packetFifo pd qd).delNow ⟨a2.map payOf, paramsOf a2⟩ ⟨iv, it, ir⟩) ++ annT (a3 ++ ext) := by
    cases a2 with
    | nil => exact ⟨[], by simp [paramsOf], by simp [paramsOf], by simpa [Elem.delNow, Elem.out, packetFifo, paramsOf] using hext⟩
    | cons t r =>
      cases hq : paramsOf (t :: r) with
      | nil =>
        refine ⟨t :: r, by simp, by simp [hq], ?_⟩
        simpa [Elem.delNow, Elem.out, packetFifo, hq] using hext
      | cons p ps =>
        cases ir with
        | false =>
          refine ⟨t :: r, by simp, by simp [hq], ?_⟩
          simpa [Elem.delNow, Elem.out, packetFifo, hq] using hext
        | true =>
          refine ⟨r, by simp, ?_, ?_⟩
          · simp only [paramsOf] at hq
            by_cases hl : t.last <;> simp_all [payOf, paramsOf]
          · intro ext
            have hn := nextParam_of_paramsOf (t :: r) ext p ps hq
            rw [hext ext]
            simp only [List.cons_append] at hn
            simp [Elem.delNow, Elem.out, packetFifo, hq, annT, hn, payOf]
  obtain ⟨a3, h1, h2, h3⟩ := hdel
  rw [packetFifo_step_eq, packetFifo_accNow]
  simp only
  rw [h1, h2]
  generalize (packetFifo pd qd).delNow _ _ = D at h3 ⊢
  cases hacc : (iv && pfReady pd qd ⟨a2.map payOf, paramsOf a2⟩)
  · refine ⟨a3, by simp, by simp, ?_⟩
    intro ext
    simpa using h3 ext
  · refine ⟨a3 ++ [it], by simp [payOf], ?_, ?_⟩
    · by_cases hl : it.last <;> simp [hl, paramsOf_append, paramsOf]
    · intro ext
      simpa [List.append_assoc] using h3 ([it] ++ ext)

/-- Occupancy never exceeds the depths the FIFOs were built with. -/
def pfBound (pd qd : Nat) (s : PFState) : Prop := s.pay.length ≤ pd ∧ s.par.length ≤ qd

theorem packetFifo_bound_step (pd qd : Nat) (s : PFState) (i : In PBeat) (h : pfBound pd qd s) :
    pfBound pd qd ((packetFifo pd qd).step s i) := by
  obtain ⟨h1, h2⟩ := h
  rw [packetFifo_step_eq]
  unfold pfBound pfReady
  have t1 : s.pay.tail.length ≤ s.pay.length := by simp [List.length_tail]
  have t2 : s.par.tail.length ≤ s.par.length := by simp [List.length_tail]
  constructor
  · simp only
    split
    · rename_i hc
      simp only [Bool.and_eq_true, bne_iff_ne, ne_eq] at hc
      split <;> simp only [List.length_append, List.length_singleton] <;> omega
    · split <;> omega
  · simp only
    split
    · rename_i hc
      simp only [Bool.and_eq_true, bne_iff_ne, ne_eq] at hc
      split <;> simp only [List.length_append, List.length_singleton] <;> omega
    · split <;> omega

/-- A payload FIFO that is full without holding a complete packet (no param stored) is stuck for good:
    nothing is accepted, nothing is delivered, the state does not change (store-and-forward limit). -/
theorem packetFifo_stuck_step (pd qd : Nat) (s : PFState) (hfull : s.pay.length = pd) (hnone : s.par = [])
    (i : In PBeat) :
    (packetFifo pd qd).step s i = s ∧ (packetFifo pd qd).accNow s i = [] ∧
      (packetFifo pd qd).delNow s i = [] := by
  obtain ⟨pay, par⟩ := s
  simp only at hfull hnone
  subst hnone
  refine ⟨?_, ?_, ?_⟩
  · rw [packetFifo_step_eq]; simp [pfReady, hfull]
  · rw [packetFifo_accNow]; simp [pfReady, hfull]
  · simp [Elem.delNow, Elem.out, packetFifo]

end Litex.Packet
