import LitexProofs.Packet.UnalignedTight
import LitexProofs.Packet.UnalignedRoundTrip
/-
  Unaligned round trip Packetizer → Depacketizer under the tight producer hypothesis `UOk2`.

  The `source.ready` the Packetizer sees inside the composition is the Depacketizer's `sink.ready`; strictly
  inside a packet (the only cycles in which conjunct (2) of `UOkStep2` says anything) the Depacketizer is in
  UNALIGNED-DATA-COPY past its residue beat, where `sink.ready = source.ready`, so the hypothesis can be stated
  on the OUTER `ready` (`urt_ready`).
-/
namespace Litex.Packet
open Litex Litex.Stream Litex.Stream.Elem

theorem uRel2_shape2 (c : PkCfg) (s : PkState) (env : Option UEnv2) (a : List (Tok HBeat)) (d : List (Tok Nat))
    (h : uRel2 c s env a d) :
    d.map (maskPad c) = frameU c a ∨
    (uEnd c none a = none ∧ ∃ t k, k ≤ c.W ∧
      d.map (maskPad c) = frameU c a ++ (hdrWords c (hdrOf c t)).take k) ∨
    (uEnd c none a = none ∧ ∃ x, d.map (maskPad c) ++ [flushBeat c x] = frameU c a) := by
  unfold uRel2 at h
  split at h
  · exact Or.inl h.2.1
  · obtain ⟨h1, _, v, _, _, _, _, _, hk, _, _, hd⟩ := h
    exact Or.inr (Or.inl ⟨h1, v.lines, _, Nat.le_of_lt hk, hd⟩)
  · rcases h with ⟨_, h1, v, _, _, _, _, _, _, hd⟩ | ⟨_, _, hd, _⟩ | ⟨_, _, h1, hd, _⟩
    · exact Or.inr (Or.inl ⟨h1, v.lines, c.W, Nat.le_refl _, by rw [hdrWords_take_all]; exact hd⟩)
    · exact Or.inl hd
    · exact Or.inr (Or.inr ⟨h1, _, hd⟩)
  · exact h.elim

/-- Strictly inside a packet (`start = false`) the Packetizer is in UNALIGNED-DATA-COPY past the first beat and
    everything it has delivered is the framing of what it has accepted. -/
theorem uRel2_inside (c : PkCfg) (s : PkState) (v : UEnv2) (a : List (Tok HBeat)) (d : List (Tok Nat))
    (h : uRel2 c s (some v) a d) (hs : v.start = false) :
    d.map (maskPad c) = frameU c a ∧ ∃ p, uEnd c none a = some p := by
  have hne : ¬ envAtStart2 (some v) := by
    intro h3; have := (h3 v rfl).1; rw [hs] at this; cases this
  unfold uRel2 at h
  split at h
  · exact absurd h.2.2 hne
  · obtain ⟨_, _, w, he, _, hws, _⟩ := h
    cases he; rw [hs] at hws; cases hws
  · rcases h with ⟨_, _, w, he, _, hws, _⟩ | ⟨_, _, hd, w, he, _, h1, _⟩ | ⟨_, _, _, _, h3⟩
    · cases he; rw [hs] at hws; cases hws
    · exact ⟨hd, _, h1⟩
    · exact absurd h3 hne
  · exact h.elim

/-- A beat accepted at a packet boundary does not carry `last`. -/
theorem uRel2_acc_notlast (c : PkCfg) (s : PkState) (env : Option UEnv2)
    (a : List (Tok HBeat)) (d : List (Tok Nat)) (i : In HBeat) (h : uRel2 c s env a d) (hok : UOkStep2 c env i) :
    ∀ t ∈ (packetizer c).accNow s i, uEnd c none a = none → t.last = false := by
  intro t ht hu
  have hti := mem_accNow _ _ _ _ ht
  obtain ⟨st, sr, cnt, fi, dd, dl⟩ := s
  obtain ⟨iv, it, ir⟩ := i
  simp only at hti
  cases st with
  | idle => cases iv <;> simp [Elem.accNow, Elem.out, packetizer] at ht
  | hdr => simp [Elem.accNow, Elem.out, packetizer] at ht
  | acopy => simp [uRel2] at h
  | ucopy =>
    simp only [uRel2] at h
    rcases h with ⟨_, _, v, henv, hpend, _, hvl, _, _, _⟩ | ⟨_, _, _, v, _, _, h1, _⟩ | ⟨_, hdl, _⟩
    · subst henv
      obtain ⟨o1, _, _⟩ := hok
      obtain ⟨hv, htk⟩ := o1 hpend
      simp only at hv htk
      subst hv
      rw [hti, htk]; exact hvl
    · rw [hu] at h1; cases h1
    · have hdl' : dl = true := hdl
      subst hdl'
      cases iv <;> simp [Elem.accNow, Elem.out, packetizer] at ht

/-- The framed stream the Depacketizer has seen so far is well formed. -/
theorem uRel2_mid_wf (c : PkCfg) (hc : UnalignedCfg c) (s : PkState) (env : Option UEnv2)
    (a : List (Tok HBeat)) (mid : List (Tok Nat)) (h : uRel2 c s env a mid) (hJ : rtJ c a) :
    udWellFormed c (.hdr 0 0) (mid.map (maskPad c)) := by
  rcases uRel2_shape2 c s env a mid h with hm | ⟨hu, t, k, hk, hm⟩ | ⟨_, x, hm⟩
  · rw [hm]; exact hJ.1
  · rw [hm, udWellFormed_app]
    refine ⟨hJ.1, ?_⟩
    have h2 := hJ.2
    rw [hu] at h2
    rw [h2.1]
    refine (ud_hdr_prefix c _ ?_ 0 0 ?_ ?_).2
    · intro x hx
      have := List.mem_of_mem_take hx
      simp only [hdrWords, List.mem_map] at this
      obtain ⟨j, _, rfl⟩ := this
      rfl
    · simp [hdrWords]; omega
    · exact Or.inl hc.W_pos
  · have := hJ.1
    rw [← hm, udWellFormed_app] at this
    exact this.1

def urtRel2 (c : PkCfg) (s : PkState × PkState) (env : Option UEnv2) (a d : List (Tok HBeat)) : Prop :=
  ∃ mid, uRel2 c s.1 env a mid ∧ rtJ c a ∧ udRel c s.2 mid d

/-- Strictly inside a packet the Packetizer's `source.ready` (= the Depacketizer's `sink.ready`) is the outer
    `source.ready`. -/
theorem urt_ready (c : PkCfg) (hc : UnalignedCfg c) (s : PkState × PkState) (v : UEnv2)
    (a d : List (Tok HBeat)) (i : In HBeat) (h : urtRel2 c s (some v) a d) (hs : v.start = false) :
    (compInA (packetizer c) (depacketizer c) s i).ready = i.ready := by
  obtain ⟨mid, h1, hJ, h2⟩ := h
  obtain ⟨hm, p, hu⟩ := uRel2_inside c s.1 v a mid h1 hs
  have hwf := uRel2_mid_wf c hc _ _ _ _ h1 hJ
  have hend := (mask_wf c hc _ _ hwf).1
  have hJ2 := hJ.2
  rw [hu] at hJ2
  obtain ⟨hh, pb, _, hpay, _⟩ := hJ2
  rw [hm, hpay] at hend
  obtain ⟨s1, s2⟩ := s
  obtain ⟨st, sr, cnt, fi, dd, dl⟩ := s2
  obtain ⟨_, _, hst⟩ := h2
  simp only at hend hst
  cases st with
  | idle => simp only at hst; rw [hst] at hend; cases hend
  | hdr => simp only at hst; obtain ⟨_, e, _⟩ := hst; rw [e] at hend; cases hend
  | acopy => exact hst.elim
  | ucopy =>
    simp only at hst
    rcases hst with ⟨_, _, _, e, _⟩ | ⟨hfi, _, _⟩
    · rw [e] at hend; cases hend
    · have hfi' : fi = false := hfi
      subst hfi'
      simp [compInA, depacketizer]

theorem upkdpk_step2 (c : PkCfg) (hc : UnalignedCfg c) (s : PkState × PkState) (env : Option UEnv2)
    (a d : List (Tok HBeat)) (i : In HBeat) (h : urtRel2 c s env a d) (hok : UOkStep2 c env i) :
    urtRel2 c ((pkdpk c).step s i) (uenvNext2 (pkdpk c) s env i) (a ++ (pkdpk c).accNow s i)
      (d ++ (pkdpk c).delNow s i) := by
  let iA := compInA (packetizer c) (depacketizer c) s i
  let iB := compInB (packetizer c) (depacketizer c) s i
  -- the hypothesis as seen by the Packetizer (its `ready` is the Depacketizer's `sink.ready`)
  have hokA : UOkStep2 c env iA := by
    cases env with
    | none => exact hok
    | some v =>
      obtain ⟨o1, o2, o3⟩ := hok
      refine ⟨o1, ?_, o3⟩
      intro hv hr hs
      have hrdy : iA.ready = i.ready := urt_ready c hc s v a d i h hs
      exact o2 hv (by rw [← hrdy]; exact hr) hs
  obtain ⟨mid, h1, hJ, h2⟩ := h
  have s1 := upacketizer_step2 c hc s.1 env a mid iA h1 hokA
  -- the round-trip invariant for the extended accepted list
  have hJ' : rtJ c (a ++ (packetizer c).accNow s.1 iA) := by
    have hnl := uRel2_acc_notlast c s.1 env a mid iA h1 hokA
    by_cases hacc : (packetizer c).accNow s.1 iA = []
    · rw [hacc, List.append_nil]; exact hJ
    · have : (packetizer c).accNow s.1 iA = [iA.tok] := by
        unfold Elem.accNow at hacc ⊢
        split
        · rfl
        · rename_i hh; simp [hh] at hacc
      rw [this] at hnl ⊢
      exact rtJ_snoc c hc a iA.tok hJ (fun hu => hnl iA.tok (by simp) hu)
  -- what the packetizer delivers now is well formed after `mid`
  have hwf' := uRel2_mid_wf c hc _ _ _ _ s1 hJ'
  have hwfm := (mask_wf c hc _ _ hwf').2.2
  refine ⟨mid ++ (packetizer c).delNow s.1 iA, s1, hJ', ?_⟩
  have hmid : (packetizer c).delNow s.1 iA = (depacketizer c).accNow s.2 iB := comp_mid _ _ s i
  rw [hmid] at hwfm ⊢
  refine udepacketizer_step c hc s.2 mid d iB h2 ?_
  intro t ht
  by_cases hacc : (depacketizer c).accNow s.2 iB = []
  · rw [hacc] at ht; simp at ht
  · have : (depacketizer c).accNow s.2 iB = [iB.tok] := by
      unfold Elem.accNow at hacc ⊢
      split
      · rfl
      · rename_i hh; simp [hh] at hacc
    rw [this] at ht hwfm
    simp only [List.mem_singleton] at ht
    subst ht
    exact (udWellFormed_append c mid iB.tok _ hwfm).2

/-- What the composed relation says: everything accepted has come out, annotated with its packet's header,
    except possibly the most recently accepted beat (which is still being realigned). -/
theorem urtRel2_concl (c : PkCfg) (hc : UnalignedCfg c) (s : PkState × PkState) (env : Option UEnv2)
    (a d : List (Tok HBeat)) (h : urtRel2 c s env a d) :
    ∃ tail, d ++ tail = annot c a ∧ tail.length ≤ 1 := by
  obtain ⟨mid, h1, hJ, h2⟩ := h
  have hwf := uRel2_mid_wf c hc _ _ _ _ h1 hJ
  have hmask := (mask_wf c hc _ _ hwf).2.1
  have hd : d = deframeU c (mid.map (maskPad c)) := by rw [h2.1]; unfold deframeU; exact hmask.symm
  have hJ2 := hJ.2
  rcases uRel2_shape2 c _ env a mid h1 with hm | ⟨hu, t, k, hk, hm⟩ | ⟨hu, x, hm⟩
  · rw [hm] at hd
    cases hu : uEnd c none a with
    | none => rw [hu] at hJ2; exact ⟨[], by rw [hd, List.append_nil]; exact hJ2.2.2, by simp⟩
    | some p =>
      rw [hu] at hJ2
      obtain ⟨hh, pb, _, _, _, _, e⟩ := hJ2
      exact ⟨_, by rw [hd]; exact e, by simp⟩
  · rw [hu] at hJ2
    rw [hm] at hd
    refine ⟨[], ?_, by simp⟩
    rw [hd, List.append_nil]
    unfold deframeU
    rw [deframeUAux_app, hJ2.1]
    have hnil := (ud_hdr_prefix c ((hdrWords c (hdrOf c t)).take k) (by
      intro x hx
      have := List.mem_of_mem_take hx
      simp only [hdrWords, List.mem_map] at this
      obtain ⟨j, _, rfl⟩ := this
      rfl) 0 0 (by simp [hdrWords]; omega) (Or.inl hc.W_pos)).1
    rw [hnil, List.append_nil]
    exact hJ2.2.2
  · rw [hu] at hJ2
    have e : deframeU c (frameU c a) = d ++ (udStep c (udEnd c (.hdr 0 0) (mid.map (maskPad c))) (flushBeat c x)).2 := by
      rw [← hm, hd]; unfold deframeU; rw [deframeUAux_append]
    exact ⟨(udStep c (udEnd c (.hdr 0 0) (mid.map (maskPad c))) (flushBeat c x)).2, by rw [← e]; exact hJ2.2.2,
      udStep_out_le c _ _⟩

theorem urtRel2_init (c : PkCfg) : urtRel2 c (pkdpk c).init none [] [] := by
  refine ⟨[], ?_, rtJ_nil c, ?_⟩
  · simp [uRel2, pkdpk, Elem.comp, packetizer, PkState.reset, uEnd, frameU, frameUAux, envAtStart2]
  · simp [udRel, pkdpk, Elem.comp, depacketizer, PkState.reset, deframeU, deframeUAux, udEnd, Nat.two_pow_pos]

/-- **pkt_depkt_roundtrip, header not a multiple of the data width, tight.**  Same conclusion as
    `pkt_depkt_roundtrip_unaligned_partial`, under `UOk2` (stated on the composite: `i.ready` is the `source.ready`
    of the Depacketizer; strictly inside a packet that is also what the Packetizer sees). -/
theorem pkt_depkt_roundtrip_unaligned_tight (c : PkCfg) (hc : UnalignedCfg c) (ins : List (In HBeat))
    (hok : UOk2 c (pkdpk c) (pkdpk c).init none ins) :
    ∃ tail, (pkdpk c).delivered (pkdpk c).init ins ++ tail = annot c ((pkdpk c).accepted (pkdpk c).init ins) ∧
      tail.length ≤ 1 := by
  have h := rel_run_uok2 c (pkdpk c) (urtRel2 c) (upkdpk_step2 c hc) ins (pkdpk c).init none [] []
    (urtRel2_init c) hok
  simp only [List.nil_append] at h
  exact urtRel2_concl c hc _ _ _ _ h

end Litex.Packet
