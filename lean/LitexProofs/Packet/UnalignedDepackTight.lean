import LitexProofs.Packet.UnalignedDepack
/-
  Depacketizer, header not a multiple of the data width: the de-framing theorem under the WEAKEST
  well-formedness of the accepted stream that holds for every valid/ready schedule.

  `sink_d` is overwritten by every accepted beat and `sink_d.last` is only read in UNALIGNED-DATA-COPY, so a
  `last` on the header beats `0 … W-2` is ignored by the code (exactly like the aligned Depacketizer ignores
  `last` on header beats).  Only two beats of a packet must not carry `last`:
    * the FINAL header beat `W-1`: UNALIGNED-DATA-COPY is entered with `sink_d.last = 1`, and
      `source.valid.eq(sink_d.last)` (`fsm_from_idle`) offers a spurious beat with `last` *before* the residue
      beat has arrived, then returns to IDLE;
    * the residue beat (beat `W`, finding C16-depacketizer-residue-end).
-/
namespace Litex.Packet
open Litex Litex.Stream Litex.Stream.Elem

/-- The one-beat condition: the final header beat (`k + 1 = W`) and the residue beat do not carry `last`. -/
def udOkBeat (c : PkCfg) (st : UDSt) (t : Tok Nat) : Prop :=
  match st with
  | .hdr k _ => k + 1 = c.W → t.last = false
  | .res _ => t.last = false
  | .pay _ _ => True

/-- Tight well-formedness of the stream accepted by the unaligned Depacketizer. -/
def udWellFormed2 (c : PkCfg) : UDSt → List (Tok Nat) → Prop
  | _, [] => True
  | st, t :: r => udOkBeat c st t ∧ udWellFormed2 c (udStep c st t).1 r

/-- Executable form (for concrete examples). -/
def udOkBeatB (c : PkCfg) (st : UDSt) (t : Tok Nat) : Bool :=
  match st with
  | .hdr k _ => !(k + 1 == c.W) || !t.last
  | .res _ => !t.last
  | .pay _ _ => true

def udWf2B (c : PkCfg) : UDSt → List (Tok Nat) → Bool
  | _, [] => true
  | st, t :: r => udOkBeatB c st t && udWf2B c (udStep c st t).1 r

/-- Executable form of the old predicate (to show that an example is outside the old region). -/
def udWfB (c : PkCfg) : UDSt → List (Tok Nat) → Bool
  | _, [] => true
  | st, t :: r => (match st with | .pay _ _ => true | _ => !t.last) && udWfB c (udStep c st t).1 r

theorem udOkBeat_of_B (c : PkCfg) (st : UDSt) (t : Tok Nat) (h : udOkBeatB c st t = true) : udOkBeat c st t := by
  cases st with
  | hdr k _ =>
    simp only [udOkBeatB, Bool.or_eq_true, Bool.not_eq_true', beq_eq_false_iff_ne, ne_eq] at h
    intro hk
    rcases h with h | h
    · exact absurd hk h
    · exact h
  | res _ => simpa [udOkBeatB, udOkBeat] using h
  | pay _ _ => trivial

theorem udWf2_of_B (c : PkCfg) (l : List (Tok Nat)) : ∀ st, udWf2B c st l = true → udWellFormed2 c st l := by
  induction l with
  | nil => intro st _; trivial
  | cons t r ih =>
    intro st h
    simp only [udWf2B, Bool.and_eq_true] at h
    exact ⟨udOkBeat_of_B c st t h.1, ih _ h.2⟩

theorem udWfB_iff (c : PkCfg) (l : List (Tok Nat)) : ∀ st, udWfB c st l = true ↔ udWellFormed c st l := by
  induction l with
  | nil => intro st; simp [udWfB, udWellFormed]
  | cons t r ih =>
    intro st
    simp only [udWfB, udWellFormed, Bool.and_eq_true, ih]
    cases st <;> simp

/-- The old hypothesis implies the new one: the tight theorem subsumes `depacketizer_bytes_unaligned_partial`. -/
theorem udWellFormed2_of_udWellFormed (c : PkCfg) (l : List (Tok Nat)) :
    ∀ st, udWellFormed c st l → udWellFormed2 c st l := by
  induction l with
  | nil => intro st _; trivial
  | cons t r ih =>
    intro st h
    refine ⟨?_, ih _ h.2⟩
    have h1 := h.1
    cases st <;> simp_all [udOkBeat]

theorem udWellFormed2_append (c : PkCfg) (a : List (Tok Nat)) (t : Tok Nat) :
    ∀ st, udWellFormed2 c st (a ++ [t]) → udWellFormed2 c st a ∧ udOkBeat c (udEnd c st a) t := by
  induction a with
  | nil => intro st h; simpa [udWellFormed2, udEnd] using h.1
  | cons x r ih =>
    intro st h
    simp only [List.cons_append, udWellFormed2] at h
    obtain ⟨h1, h2⟩ := ih _ h.2
    exact ⟨⟨h.1, h1⟩, by simpa [udEnd] using h2⟩

/-- History relation of the unaligned Depacketizer; as `udRel`, but `sink_d.last` is unconstrained while the
    header words are being collected. -/
def udRel2 (c : PkCfg) (s : PkState) (a : List (Tok Nat)) (d : List (Tok HBeat)) : Prop :=
  d = deframeU c a ∧ s.sr < 2 ^ c.hw ∧
  match s.st with
  | .idle => udEnd c (.hdr 0 0) a = .hdr 0 0
  | .hdr => ∃ h, udEnd c (.hdr 0 0) a = .hdr s.count h ∧ 1 ≤ s.count ∧ s.count < c.W ∧
      s.sr / 2 ^ (c.hw - s.count * c.dw) = h ∧ s.fromIdle = true
  | .ucopy =>
    (s.fromIdle = true ∧ s.dLast = false ∧ ∃ h, udEnd c (.hdr 0 0) a = .res h ∧ s.sr / 2 ^ (8 * c.L) = h) ∨
    (s.fromIdle = false ∧ s.dLast = false ∧ udEnd c (.hdr 0 0) a = .pay s.sr s.dData)
  | .acopy => False

theorem udepacketizer_step2 (c : PkCfg) (hc : UnalignedCfg c) (s : PkState)
    (a : List (Tok Nat)) (d : List (Tok HBeat)) (i : In Nat) (h : udRel2 c s a d)
    (hwf : ∀ t ∈ (depacketizer c).accNow s i, udOkBeat c (udEnd c (.hdr 0 0) a) t) :
    udRel2 c ((depacketizer c).step s i) (a ++ (depacketizer c).accNow s i)
      (d ++ (depacketizer c).delNow s i) := by
  obtain ⟨st, sr, cnt, fi, dd, dl⟩ := s
  obtain ⟨iv, it, ir⟩ := i
  have hal := hc.aligned_eq
  have hcp := hc.copy_eq
  have hW := hc.W_pos
  have hLp := hc.L_pos
  have hhw := hc.hw_eq
  obtain ⟨hd, hsr, hst⟩ := h
  simp only at hsr
  subst hd
  have hdlt : it.data % 2 ^ c.dw < 2 ^ c.dw := Nat.mod_lt _ (Nat.two_pow_pos _)
  have hL0 : ¬ c.L = 0 := by omega
  cases st with
  | idle =>
    simp only at hst
    cases iv with
    | false =>
      simp [udRel2, Elem.step, Elem.accNow, Elem.delNow, Elem.out, depacketizer, hal, hst, hsr]
    | true =>
      have hl : 0 + 1 = c.W → it.last = false := by
        have := hwf it (by simp [Elem.accNow, Elem.out, depacketizer])
        rw [hst] at this; exact this
      have hdf : deframeU c (a ++ [it]) = deframeU c a := by
        unfold deframeU; rw [deframeUAux_append, hst]; simp [udStep]
      have hds := udEnd_append c a it (.hdr 0 0)
      rw [hst] at hds
      simp only [udStep, Nat.zero_add, Nat.zero_mul, Nat.pow_zero, Nat.mul_one] at hds
      obtain ⟨m, hm⟩ : ∃ m, c.hw = m + (0 + 1) * c.dw := ⟨c.hw - c.dw, by
        have : 1 * c.dw ≤ c.W * c.dw := Nat.mul_le_mul_right _ hW
        omega⟩
      have hsi := dp_shift_inv c.hw c.dw 0 m sr 0 (it.data % 2 ^ c.dw) hm hsr (by
        have : m + c.dw = c.hw := by omega
        rw [this]; exact Nat.div_eq_of_lt hsr) hdlt
      simp only [Nat.zero_mul, Nat.add_zero, Nat.pow_zero, Nat.mul_one, Nat.zero_add] at hsi
      have hm' : c.hw - c.dw = m := by omega
      by_cases hw1 : c.W = 1
      · have hm8 : m = 8 * c.L := by rw [hw1] at hhw; omega
        have hl' : it.last = false := hl (by omega)
        subst hm8
        simp [udRel2, Elem.step, Elem.accNow, Elem.delNow, Elem.out, depacketizer, hal, hdf, hw1, hL0, hcp,
          PkCfg.dpShift, hds, hm', Nat.mod_eq_of_lt hsi.1, hsi.1, hsi.2, hl']
      · have h1w : 1 < c.W := by omega
        simp [udRel2, Elem.step, Elem.accNow, Elem.delNow, Elem.out, depacketizer, hal, hdf, hw1, hL0,
          PkCfg.dpShift, hds, hm', Nat.mod_eq_of_lt hsi.1, hsi.1, hsi.2, h1w]
        omega
  | hdr =>
    simp only at hst
    obtain ⟨h, hdf0, hc1, hc2, hh, hfi⟩ := hst
    subst hfi
    cases iv with
    | false =>
      simp [udRel2, Elem.step, Elem.accNow, Elem.delNow, Elem.out, depacketizer, hal, hsr, hdf0, hc1, hc2, hh]
    | true =>
      have hl : cnt + 1 = c.W → it.last = false := by
        have := hwf it (by simp [Elem.accNow, Elem.out, depacketizer])
        rw [hdf0] at this; exact this
      have hdf : deframeU c (a ++ [it]) = deframeU c a := by
        unfold deframeU; rw [deframeUAux_append, hdf0]; simp [udStep]
      have hds := udEnd_append c a it (.hdr 0 0)
      rw [hdf0] at hds
      simp only [udStep] at hds
      have hw1 : c.W ≠ 1 := by omega
      obtain ⟨m, hm⟩ : ∃ m, c.hw = m + (cnt + 1) * c.dw := ⟨c.hw - (cnt + 1) * c.dw, by
        have : (cnt + 1) * c.dw ≤ c.W * c.dw := Nat.mul_le_mul_right _ hc2
        omega⟩
      have hsm : (cnt + 1) * c.dw = cnt * c.dw + c.dw := Nat.succ_mul ..
      have hsi := dp_shift_inv c.hw c.dw cnt m sr h (it.data % 2 ^ c.dw) hm hsr (by
        have : m + c.dw = c.hw - cnt * c.dw := by omega
        rw [this]; exact hh) hdlt
      have hm' : c.hw - c.dw = m + cnt * c.dw := by omega
      have hcm := W_le_cntMod c
      by_cases hlast : cnt + 1 = c.W
      · have hm8 : m = 8 * c.L := by rw [← hlast] at hhw; omega
        have hl' : it.last = false := hl hlast
        subst hm8
        simp [udRel2, Elem.step, Elem.accNow, Elem.delNow, Elem.out, depacketizer, hal, hdf, hw1, hcp,
          PkCfg.dpShift, hds, hm', Nat.mod_eq_of_lt hsi.1, hsi.1, hsi.2, hlast, hl']
      · have hmod : (cnt + 1) % c.cntMod = cnt + 1 := Nat.mod_eq_of_lt (by omega)
        have hm2 : c.hw - (cnt + 1) * c.dw = m := by omega
        simp [udRel2, Elem.step, Elem.accNow, Elem.delNow, Elem.out, depacketizer, hal, hdf, hw1,
          PkCfg.dpShift, hds, hm', Nat.mod_eq_of_lt hsi.1, hsi.1, hsi.2, hlast, hmod, hm2]
        omega
  | ucopy =>
    simp only at hst
    rcases hst with ⟨hfi, hdl, h, hdf0, hh⟩ | ⟨hfi, hdl, hdf0⟩
    · subst hfi hdl
      cases iv with
      | false =>
        simp [udRel2, Elem.step, Elem.accNow, Elem.delNow, Elem.out, depacketizer, hal, hsr, hdf0, hh]
      | true =>
        have hl : it.last = false := by
          have := hwf it (by simp [Elem.accNow, Elem.out, depacketizer])
          rw [hdf0] at this; exact this
        have hdf : deframeU c (a ++ [it]) = deframeU c a := by
          unfold deframeU; rw [deframeUAux_append, hdf0]; simp [udStep]
        have hds := udEnd_append c a it (.hdr 0 0)
        rw [hdf0] at hds
        simp only [udStep] at hds
        have hhlt : h < 2 ^ (c.W * c.dw) := by
          rw [← hh]
          apply Nat.div_lt_of_lt_mul
          rw [← Nat.pow_add, Nat.add_comm, ← hhw]; exact hsr
        have hsl := shift_left_eq (c.W * c.dw) (8 * c.L) h (it.data % 2 ^ c.dw) hhlt
        rw [← hhw] at hsl
        have hm' : c.hw - 8 * c.L = c.W * c.dw := by omega
        simp [udRel2, Elem.step, Elem.accNow, Elem.delNow, Elem.out, depacketizer, hal, hdf, hds, hl,
          PkCfg.dpShiftLeft, hh, hm', hsl]
        rw [← hsl]; exact Nat.mod_lt _ (Nat.two_pow_pos c.hw)
    · subst hfi hdl
      have hdf : deframeU c (a ++ [it]) = deframeU c a ++
          [{ data := { data := dbeat c dd (it.data % 2 ^ c.dw), hdr := sr }, first := false, last := it.last }] := by
        unfold deframeU; rw [deframeUAux_append, hdf0]; simp [udStep]
      have hds := udEnd_append c a it (.hdr 0 0)
      rw [hdf0] at hds
      simp only [udStep] at hds
      cases iv with
      | false =>
        simp [udRel2, Elem.step, Elem.accNow, Elem.delNow, Elem.out, depacketizer, hal, hsr, hdf0]
      | true =>
        cases ir with
        | false =>
          simp [udRel2, Elem.step, Elem.accNow, Elem.delNow, Elem.out, depacketizer, hal, hsr, hdf0]
        | true =>
          cases hl : it.last with
          | false =>
            simp [udRel2, Elem.step, Elem.accNow, Elem.delNow, Elem.out, depacketizer, hal, hsr, hdf, hds, hl,
              dpUData_eq c hc]
          | true =>
            simp [udRel2, Elem.step, Elem.accNow, Elem.delNow, Elem.out, depacketizer, hal, hsr, hdf, hds, hl,
              dpUData_eq c hc]
  | acopy => simp at hst

/-- Run lemma: as long as what the Depacketizer accepts is (tightly) well formed, it de-frames. -/
theorem udepacketizer_run2 (c : PkCfg) (hc : UnalignedCfg c) (ins : List (In Nat)) :
    let e := depacketizer c
    udWellFormed2 c (.hdr 0 0) (e.accepted e.init ins) →
      udRel2 c (e.runFrom e.init ins) (e.accepted e.init ins) (e.delivered e.init ins) := by
  intro e
  have h := rel_run_init e (fun s a d => udWellFormed2 c (.hdr 0 0) a → udRel2 c s a d)
    (by
      intro _
      simp [udRel2, e, depacketizer, PkState.reset, deframeU, deframeUAux, udEnd, Nat.two_pow_pos])
    (by
      intro s a d i hR hwf
      by_cases hacc : e.accNow s i = []
      · rw [hacc, List.append_nil] at hwf
        have := udepacketizer_step2 c hc s a d i (hR hwf) (by rw [hacc]; simp)
        exact this
      · have hone : e.accNow s i = [i.tok] := by
          unfold Elem.accNow at hacc ⊢
          split
          · rfl
          · rename_i hh; simp [hh] at hacc
        rw [hone] at hwf
        obtain ⟨w1, w2⟩ := udWellFormed2_append c a i.tok _ hwf
        have := udepacketizer_step2 c hc s a d i (hR w1) (by
          intro t ht; rw [hone] at ht; simp only [List.mem_singleton] at ht; subst ht; exact w2)
        exact this) ins
  exact h

/-- **depacketizer_bytes, header not a multiple of the data width, tight.**  For every input sequence whose
    accepted stream has no `last` on the FINAL header beat (`W-1`) and none on the residue beat (`W`) of any
    packet, the delivered beats are `deframeU accepted`.  A `last` on the header beats `0 … W-2` is allowed (and
    ignored, as in the aligned Depacketizer). -/
theorem depacketizer_bytes_unaligned_tight (c : PkCfg) (hc : UnalignedCfg c) (ins : List (In Nat))
    (hwf : udWellFormed2 c (.hdr 0 0) ((depacketizer c).accepted (depacketizer c).init ins)) :
    (depacketizer c).delivered (depacketizer c).init ins =
      deframeU c ((depacketizer c).accepted (depacketizer c).init ins) :=
  (udepacketizer_run2 c hc ins hwf).1

end Litex.Packet
