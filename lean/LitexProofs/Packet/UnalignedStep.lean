import LitexProofs.Packet.Unaligned
namespace Litex.Packet
open Litex Litex.Stream Litex.Stream.Elem

/-- Facts the relation keeps about the environment at a packet boundary. -/
def envAtStart (env : Option UEnv) : Prop :=
  ∀ v, env = some v → v.start = true ∧ (v.pend = true → v.lines.last = false)

def flushBeat (c : PkCfg) (x : Nat) : Tok Nat :=
  { data := resid c x % 2 ^ (8 * c.L), first := false, last := true }

/-- The framing relation of the unaligned Packetizer. -/
def uRel (c : PkCfg) (s : PkState) (env : Option UEnv) (a : List (Tok HBeat)) (d : List (Tok Nat)) : Prop :=
  match s.st with
  | .idle => uEnd c none a = none ∧ d.map (maskPad c) = frameU c a ∧ envAtStart env
  | .hdr => uEnd c none a = none ∧ s.fromIdle = true ∧
      ∃ v, env = some v ∧ v.pend = true ∧ v.start = true ∧ v.lines.last = false ∧
      1 ≤ s.count ∧ s.count < c.W ∧ s.sr = hdrOf c v.lines / 2 ^ ((s.count - 1) * c.dw) ∧
      s.dData = sinkData c v.lines ∧ s.dLast = false ∧
      d.map (maskPad c) = frameU c a ++ (hdrWords c (hdrOf c v.lines)).take s.count
  | .ucopy =>
    (s.fromIdle = true ∧ uEnd c none a = none ∧ ∃ v, env = some v ∧ v.pend = true ∧ v.start = true ∧
        v.lines.last = false ∧ s.dData = sinkData c v.lines ∧ s.dLast = false ∧
        c.srFrom ((if c.W == 1 then 1 else 2) * c.dw) s.sr = hleft c (hdrOf c v.lines) ∧
        d.map (maskPad c) = frameU c a ++ hdrWords c (hdrOf c v.lines)) ∨
    (s.fromIdle = false ∧ s.dLast = false ∧ uEnd c none a = some s.dData ∧ d.map (maskPad c) = frameU c a ∧
        ∃ v, env = some v ∧ v.start = false ∧
          (v.pend = false → sinkData c v.lines = s.dData ∧ v.lines.last = false)) ∨
    (s.fromIdle = false ∧ s.dLast = true ∧ uEnd c none a = none ∧
        d.map (maskPad c) ++ [flushBeat c s.dData] = frameU c a ∧ envAtStart env)
  | .acopy => False

theorem frameU_snoc (c : PkCfg) (a : List (Tok HBeat)) (t : Tok HBeat) :
    frameU c (a ++ [t]) = frameU c a ++ uChunk c (uEnd c none a) t := frameUAux_append c a t none

theorem maskPad_notlast (c : PkCfg) (x : Nat) :
    maskPad c { data := x, first := false, last := false } = { data := x, first := false, last := false } := by
  simp [maskPad]

theorem min_bl (c : PkCfg) (hc : UnalignedCfg c) : min ((c.B - c.L) * 8) (c.dw - 1) = (c.B - c.L) * 8 := by
  have := hc.dw_eq; have := hc.L_pos; omega

theorem max_l (c : PkCfg) (hc : UnalignedCfg c) : max (8 * c.L) 1 = 8 * c.L := by
  have := hc.L_pos; omega

theorem min_dw_u (c : PkCfg) (hc : UnalignedCfg c) : min c.dw (c.hw - 1) = c.dw := by
  have h1 := hc.hw_eq; have h2 := hc.L_pos
  have : 1 * c.dw ≤ c.W * c.dw := Nat.mul_le_mul_right _ hc.W_pos
  omega

theorem min_2dw_u (c : PkCfg) (hc : UnalignedCfg c) (h2 : 2 ≤ c.W) : min (2 * c.dw) (c.hw - 1) = 2 * c.dw := by
  have h1 := hc.hw_eq; have h3 := hc.L_pos
  have : 2 * c.dw ≤ c.W * c.dw := Nat.mul_le_mul_right _ h2
  omega

/-- Source data in UNALIGNED-DATA-COPY on the first copy beat. -/
theorem pkUData_first (c : PkCfg) (hc : UnalignedCfg c) (st : PkSt) (sr cnt dd : Nat) (dl : Bool) (d : Nat) :
    c.pkUData { st := st, sr := sr, count := cnt, fromIdle := true, dData := dd, dLast := dl } d =
      ubeat c (c.srFrom ((if c.W == 1 then 1 else 2) * c.dw) sr) d := by
  simp [PkCfg.pkUData, max_l c hc, ubeat]

/-- … and on the following ones. -/
theorem pkUData_next (c : PkCfg) (hc : UnalignedCfg c) (st : PkSt) (sr cnt dd : Nat) (dl : Bool) (d : Nat) :
    c.pkUData { st := st, sr := sr, count := cnt, fromIdle := false, dData := dd, dLast := dl } d =
      ubeat c (resid c dd) (if dl then 0 else d) := by
  cases dl <;> simp [PkCfg.pkUData, max_l c hc, min_bl c hc, ubeat, resid]

theorem ubeat_mask (c : PkCfg) (lo x : Nat) : ubeat c lo x % 2 ^ (8 * c.L) = lo % 2 ^ (8 * c.L) := by
  unfold ubeat
  rw [Nat.add_mul_mod_self_left, Nat.mod_mod]

theorem sr_shift2 (h dw cnt : Nat) (hc : 1 ≤ cnt) :
    h / 2 ^ ((cnt - 1) * dw) / 2 ^ (2 * dw) = h / 2 ^ ((cnt + 1) * dw) := by
  obtain ⟨k, rfl⟩ : ∃ k, cnt = k + 1 := ⟨cnt - 1, by omega⟩
  rw [Nat.add_sub_cancel, Nat.div_div_eq_div_mul, ← Nat.pow_add]
  congr 2
  rw [Nat.add_mul, Nat.add_mul, Nat.one_mul]; omega

theorem upacketizer_step (c : PkCfg) (hc : UnalignedCfg c) (s : PkState) (env : Option UEnv)
    (a : List (Tok HBeat)) (d : List (Tok Nat)) (i : In HBeat)
    (h : uRel c s env a d) (hok : UOkStep env i) :
    uRel c ((packetizer c).step s i) (uenvNext (packetizer c) s env i)
      (a ++ (packetizer c).accNow s i) (d ++ (packetizer c).delNow s i) := by
  obtain ⟨st, sr, cnt, fi, dd, dl⟩ := s
  obtain ⟨iv, it, ir⟩ := i
  have hal := hc.aligned_eq
  have hcp := hc.copy_eq
  have hW := hc.W_pos
  cases st with
  | idle =>
    simp only [uRel] at h
    obtain ⟨h1, h2, h3⟩ := h
    have hstart : envStart env = true := by
      unfold envStart
      split
      · rfl
      · rename_i w; exact (h3 w rfl).1
    cases iv with
    | false =>
      cases ir <;>
        simp [uRel, Elem.step, Elem.accNow, Elem.delNow, Elem.out, packetizer, hal, h1, h2, envAtStart, uenvNext,
          hstart]
    | true =>
      -- the beat on offer does not carry `last`
      have hl : it.last = false := by
        cases env with
        | none => exact hok rfl
        | some w =>
          obtain ⟨o1, _, o3⟩ := hok
          obtain ⟨s1, s2⟩ := h3 w rfl
          cases hp : w.pend with
          | true => have := (o1 hp).2; simp only at this; rw [this]; exact s2 hp
          | false => exact o3 rfl hp s1
      cases ir with
      | false =>
        simp [uRel, Elem.step, Elem.accNow, Elem.delNow, Elem.out, packetizer, hal, h1, h2, envAtStart, uenvNext,
          hstart, hl]
      | true =>
        by_cases hw1 : c.W = 1
        · have hws : hdrWords c (hdrOf c it) = [hdrWord c (hdrOf c it) 0] := by simp [hdrWords, hw1]
          simp [uRel, Elem.step, Elem.accNow, Elem.delNow, Elem.out, packetizer, hal, h1, h2, uenvNext,
            hstart, hl, hw1, hcp, hws, hdrWord_zero, maskPad, sinkData]
          simp [PkCfg.srFrom, min_dw_u c hc, hleft, hw1]
        · have ht := hdrWords_take_succ c (hdrOf c it) 0 (by omega)
          simp only [List.take_zero, List.nil_append, Nat.zero_add] at ht
          simp [uRel, Elem.step, Elem.accNow, Elem.delNow, Elem.out, packetizer, hal, h1, h2, uenvNext,
            hstart, hl, hw1, ht, hdrWord_zero, maskPad, sinkData]
          omega
  | hdr =>
    simp only [uRel] at h
    obtain ⟨h1, hfi, v, henv, hpend, hvs, hvl, hc1, hc2, hsr, hdd, hdl, hd⟩ := h
    obtain ⟨vl, vp, vs⟩ := v
    simp only at hpend hvs hvl hsr hdd hd
    subst henv hfi hsr hdd hdl hpend hvs
    obtain ⟨o1, _, _⟩ := hok
    obtain ⟨hv, htk⟩ := o1 rfl
    simp only at hv htk
    subst hv htk
    have hmin := min_dw_u c hc
    have hwd : hdrOf c it / 2 ^ ((cnt - 1) * c.dw) / 2 ^ c.dw % 2 ^ c.dw = (hdrWord c (hdrOf c it) cnt).data := by
      rw [sr_shift _ _ _ hc1]; rfl
    cases ir with
    | false =>
      simp [uRel, Elem.step, Elem.accNow, Elem.delNow, Elem.out, packetizer, hal, h1, uenvNext, envStart, hvl,
        hd]
      exact ⟨hc1, hc2⟩
    | true =>
      by_cases hlast : cnt + 1 = c.W
      · have ht := hdrWords_take_succ c (hdrOf c it) cnt hc2
        rw [hlast, hdrWords_take_all] at ht
        have hw1 : c.W ≠ 1 := by omega
        have hm2 := min_2dw_u c hc (by omega)
        simp [uRel, Elem.step, Elem.accNow, Elem.delNow, Elem.out, packetizer, hal, h1, uenvNext, envStart,
          hvl, hd, hlast, hcp, PkCfg.srFrom, hmin, hwd, hw1, hm2, sinkData, maskPad]
        exact ⟨by rw [sr_shift2 _ _ _ hc1, hlast]; rfl, ht.symm⟩
      · have ht := hdrWords_take_succ c (hdrOf c it) cnt hc2
        have hcm := W_le_cntMod c
        have hmod : (cnt + 1) % c.cntMod = cnt + 1 := Nat.mod_eq_of_lt (by omega)
        simp [uRel, Elem.step, Elem.accNow, Elem.delNow, Elem.out, packetizer, hal, h1, uenvNext, envStart,
          hvl, hd, hlast, PkCfg.srFrom, hmin, hwd, hmod, ht, sr_shift _ _ _ hc1, sinkData, maskPad]
        exact ⟨by omega, rfl⟩
  | ucopy =>
    simp only [uRel] at h
    rcases h with ⟨hfi, h1, v, henv, hpend, hvs, hvl, hdd, hdl, hsr, hd⟩ |
      ⟨hfi, hdl, h1, hd, v, henv, hvs, hvp⟩ | ⟨hfi, hdl, h1, hd, h3⟩
    · -- first copy beat: header residue below the first payload bytes
      obtain ⟨vl, vp, vs⟩ := v
      simp only at hpend hvs hvl hdd hd hsr
      subst henv hfi hdd hdl hpend hvs
      obtain ⟨o1, _, _⟩ := hok
      obtain ⟨hv, htk⟩ := o1 rfl
      simp only at hv htk
      subst hv htk
      have hfs := frameU_snoc c a it
      rw [h1] at hfs
      have hsr' : c.srFrom ((if c.W = 1 then 1 else 2) * c.dw) sr = hleft c (hdrOf c it) := by simpa using hsr
      cases ir with
      | false =>
        simp [uRel, Elem.step, Elem.accNow, Elem.delNow, Elem.out, packetizer, hal, h1, uenvNext, envStart, hvl, hd,
          hsr']
      | true =>
        simp [uRel, Elem.step, Elem.accNow, Elem.delNow, Elem.out, packetizer, hal, uenvNext, hvl, hd, hfs,
          uEnd_append, uNext, uChunk, pkUData_first c hc, hsr', maskPad, sinkData]
    · -- inside the packet
      obtain ⟨vl, vp, vs⟩ := v
      simp only at hvs hvp
      subst henv hfi hdl hvs
      obtain ⟨o1, o2, _⟩ := hok
      have hfs := frameU_snoc c a it
      rw [h1] at hfs
      cases iv with
      | false =>
        have hvp0 : vp = false := by
          cases vp with
          | false => rfl
          | true => exact absurd (o1 rfl).1 (by simp)
        subst hvp0
        have hit : it = vl := o2 rfl rfl
        subst hit
        obtain ⟨e1, e2⟩ := hvp rfl
        simp only [sinkData] at e1
        cases ir <;>
          simp [uRel, Elem.step, Elem.accNow, Elem.delNow, Elem.out, packetizer, hal, uenvNext, envStart, h1, hd, e2,
            e1, sinkData]
      | true =>
        cases ir with
        | false =>
          simp [uRel, Elem.step, Elem.accNow, Elem.delNow, Elem.out, packetizer, hal, uenvNext, envStart, h1, hd]
        | true =>
          cases hl : it.last with
          | false =>
            simp [uRel, Elem.step, Elem.accNow, Elem.delNow, Elem.out, packetizer, hal, uenvNext, hd, hfs,
              uEnd_append, uNext, uChunk, pkUData_next c hc, maskPad, sinkData, hl]
          | true =>
            simp [uRel, Elem.step, Elem.accNow, Elem.delNow, Elem.out, packetizer, hal, uenvNext, hd, hfs,
              uEnd_append, uNext, uChunk, pkUData_next c hc, maskPad, sinkData, hl, flushBeat, envAtStart]
    · -- flush beat
      subst hfi hdl
      have hstart : envStart env = true := by
        unfold envStart
        split
        · rfl
        · rename_i w; exact (h3 w rfl).1
      have hl : iv = true → it.last = false := by
        intro hiv
        subst hiv
        cases env with
        | none => exact hok rfl
        | some w =>
          obtain ⟨o1, _, o3⟩ := hok
          obtain ⟨s1, s2⟩ := h3 w rfl
          cases hp : w.pend with
          | true => have := (o1 hp).2; simp only at this; rw [this]; exact s2 hp
          | false => exact o3 rfl hp s1
      cases ir with
      | false =>
        cases iv <;>
          simp_all [uRel, Elem.step, Elem.accNow, Elem.delNow, Elem.out, packetizer, uenvNext, envAtStart]
      | true =>
        have hm : ∀ x, maskPad c { data := ubeat c (resid c dd) x, first := false, last := true }
            = flushBeat c dd := by
          intro x
          simp [maskPad, flushBeat, ubeat_mask]
        cases iv <;>
          simp_all [uRel, Elem.step, Elem.accNow, Elem.delNow, Elem.out, packetizer, uenvNext, envAtStart,
            pkUData_next c hc]
  | acopy => simp [uRel] at h

/-- What `uRel` says about the delivered stream. -/
theorem uRel_shape (c : PkCfg) (s : PkState) (env : Option UEnv) (a : List (Tok HBeat)) (d : List (Tok Nat))
    (h : uRel c s env a d) :
    d.map (maskPad c) = frameU c a ∨
    (∃ v k, env = some v ∧ v.pend = true ∧ k ≤ c.W ∧
      d.map (maskPad c) = frameU c a ++ (hdrWords c (hdrOf c v.lines)).take k) ∨
    (∃ x, d.map (maskPad c) ++ [flushBeat c x] = frameU c a) := by
  unfold uRel at h
  split at h
  · exact Or.inl h.2.1
  · obtain ⟨_, _, v, he, hp, _, _, _, hk, _, _, _, hd⟩ := h
    exact Or.inr (Or.inl ⟨v, _, he, hp, Nat.le_of_lt hk, hd⟩)
  · rcases h with ⟨_, _, v, he, hp, _, _, _, _, _, hd⟩ | ⟨_, _, _, hd, _⟩ | ⟨_, _, _, hd, _⟩
    · exact Or.inr (Or.inl ⟨v, c.W, he, hp, Nat.le_refl _, by rw [hdrWords_take_all]; exact hd⟩)
    · exact Or.inl hd
    · exact Or.inr (Or.inr ⟨_, hd⟩)
  · exact h.elim

end Litex.Packet
