import LitexProofs.Packet.Packetizer
/-
  Depacketizer, aligned header: de-framing specification and the step lemma of its history relation.
-/
namespace Litex.Packet
open Litex Litex.Stream Litex.Stream.Elem

/-- De-framing (aligned header).  `k` = header words collected so far (`k = W`: inside the payload),
    `h` = the header collected so far (word `j` at bits `[j·dw, (j+1)·dw)`).  `last` on a header beat is
    ignored, as the FSM does. -/
def deframeAux (c : PkCfg) : Nat → Nat → List (Tok Nat) → List (Tok HBeat)
  | _, _, [] => []
  | k, h, t :: r =>
    if k < c.W then deframeAux c (k + 1) (h + (t.data % 2 ^ c.dw) * 2 ^ (k * c.dw)) r
    else { data := { data := t.data % 2 ^ c.dw, hdr := h }, first := false, last := t.last } ::
         deframeAux c (if t.last then 0 else k) (if t.last then 0 else h) r

def deframe (c : PkCfg) (a : List (Tok Nat)) : List (Tok HBeat) := deframeAux c 0 0 a

/-- The de-framing state after consuming `a`. -/
def dfSt (c : PkCfg) : Nat → Nat → List (Tok Nat) → Nat × Nat
  | k, h, [] => (k, h)
  | k, h, t :: r =>
    if k < c.W then dfSt c (k + 1) (h + (t.data % 2 ^ c.dw) * 2 ^ (k * c.dw)) r
    else dfSt c (if t.last then 0 else k) (if t.last then 0 else h) r

theorem deframeAux_append (c : PkCfg) (a : List (Tok Nat)) (t : Tok Nat) :
    ∀ k h, deframeAux c k h (a ++ [t]) = deframeAux c k h a ++
      (if (dfSt c k h a).1 < c.W then []
       else [{ data := { data := t.data % 2 ^ c.dw, hdr := (dfSt c k h a).2 }, first := false, last := t.last }]) := by
  induction a with
  | nil => intro k h; by_cases hk : k < c.W <;> simp [deframeAux, dfSt, hk]
  | cons x r ih =>
    intro k h
    simp only [List.cons_append, deframeAux, dfSt]
    split
    · exact ih _ _
    · simp [ih]

theorem dfSt_append (c : PkCfg) (a : List (Tok Nat)) (t : Tok Nat) :
    ∀ k h, dfSt c k h (a ++ [t]) =
      (if (dfSt c k h a).1 < c.W then
          ((dfSt c k h a).1 + 1, (dfSt c k h a).2 + (t.data % 2 ^ c.dw) * 2 ^ ((dfSt c k h a).1 * c.dw))
       else (if t.last then 0 else (dfSt c k h a).1, if t.last then 0 else (dfSt c k h a).2)) := by
  induction a with
  | nil => intro k h; by_cases hk : k < c.W <;> simp [dfSt, hk]
  | cons x r ih =>
    intro k h
    simp only [List.cons_append, dfSt]
    split
    · exact ih _ _
    · exact ih _ _

/-- One `sr_shift` of the Depacketizer: the top `k` words of `sr` are the words collected so far. -/
theorem dp_shift_inv (hw dw k m sr h d : Nat) (hhw : hw = m + (k + 1) * dw) (hsr : sr < 2 ^ hw)
    (hh : sr / 2 ^ (m + dw) = h) (hd : d < 2 ^ dw) :
    (sr / 2 ^ dw + d * 2 ^ (m + k * dw)) < 2 ^ hw ∧
    (sr / 2 ^ dw + d * 2 ^ (m + k * dw)) / 2 ^ m = h + d * 2 ^ (k * dw) := by
  have e1 : hw = (m + k * dw) + dw := by rw [hhw, Nat.succ_mul]; omega
  have e2 : (2 : Nat) ^ hw = 2 ^ (m + k * dw) * 2 ^ dw := by rw [e1, Nat.pow_add]
  have e3 : (2 : Nat) ^ (m + k * dw) = 2 ^ m * 2 ^ (k * dw) := Nat.pow_add ..
  have e4 : (2 : Nat) ^ (m + dw) = 2 ^ dw * 2 ^ m := by rw [Nat.pow_add, Nat.mul_comm]
  have hA : 0 < 2 ^ m := Nat.two_pow_pos m
  generalize (2 : Nat) ^ (m + k * dw) = P at *
  generalize (2 : Nat) ^ dw = D at *
  have hx : sr / D < P := by
    apply Nat.div_lt_of_lt_mul
    rw [Nat.mul_comm, ← e2]; exact hsr
  constructor
  · have h1 : (d + 1) * P ≤ D * P := Nat.mul_le_mul_right _ hd
    rw [Nat.add_mul, Nat.one_mul] at h1
    rw [e2, Nat.mul_comm P D]
    omega
  · rw [e3, ← Nat.mul_assoc, Nat.mul_right_comm, Nat.add_mul_div_right _ _ hA,
      Nat.div_div_eq_div_mul, ← e4, hh]

/-- The history relation of the aligned Depacketizer. -/
def dpRel (c : PkCfg) (s : PkState) (a : List (Tok Nat)) (d : List (Tok HBeat)) : Prop :=
  d = deframe c a ∧ s.sr < 2 ^ c.hw ∧ s.dLast = false ∧
  match s.st with
  | .idle => dfSt c 0 0 a = (0, 0)
  | .hdr => ∃ h, dfSt c 0 0 a = (s.count, h) ∧ 1 ≤ s.count ∧ s.count < c.W ∧
      s.sr / 2 ^ (c.hw - s.count * c.dw) = h
  | .acopy => dfSt c 0 0 a = (c.W, s.sr)
  | .ucopy => False

theorem depacketizer_step (c : PkCfg) (hc : AlignedCfg c) (s : PkState)
    (a : List (Tok Nat)) (d : List (Tok HBeat)) (i : In Nat) (h : dpRel c s a d) :
    dpRel c ((depacketizer c).step s i) (a ++ (depacketizer c).accNow s i)
      (d ++ (depacketizer c).delNow s i) := by
  obtain ⟨st, sr, cnt, fi, dd, dl⟩ := s
  obtain ⟨iv, it, ir⟩ := i
  have hal := hc.aligned_eq
  have hcp := hc.copy_eq
  have hW := hc.W_pos
  have hL := hc.L_eq
  have hhw := hc.hw_eq
  obtain ⟨hd, hsr, hdl, hst⟩ := h
  simp only at hsr hdl
  subst hdl hd
  have hdlt : it.data % 2 ^ c.dw < 2 ^ c.dw := Nat.mod_lt _ (Nat.two_pow_pos _)
  cases st with
  | idle =>
    simp only at hst
    cases iv with
    | false =>
      simp [dpRel, Elem.step, Elem.accNow, Elem.delNow, Elem.out, depacketizer, hal, hst, hsr]
    | true =>
      have hdf : deframe c (a ++ [it]) = deframe c a := by
        unfold deframe; rw [deframeAux_append, hst]; simp; omega
      have hds := dfSt_append c a it 0 0
      rw [hst] at hds
      have h0 : (0 : Nat) < c.W := by omega
      simp only [h0, ↓reduceIte, Nat.zero_add, Nat.zero_mul, Nat.pow_zero, Nat.mul_one] at hds
      by_cases hw1 : c.W = 1
      · have hhw1 : c.hw = c.dw := by rw [hhw, hw1, Nat.one_mul]
        simp [dpRel, Elem.step, Elem.accNow, Elem.delNow, Elem.out, depacketizer, hal, hdf, hw1, hL, hcp,
          PkCfg.dpShift, hds, hhw1, hdlt]
      · obtain ⟨m, hm⟩ : ∃ m, c.hw = m + (0 + 1) * c.dw := ⟨c.hw - c.dw, by
          have : 1 * c.dw ≤ c.W * c.dw := Nat.mul_le_mul_right _ hW
          omega⟩
        have hsi := dp_shift_inv c.hw c.dw 0 m sr 0 (it.data % 2 ^ c.dw) hm hsr (by
          have : m + c.dw = c.hw := by omega
          rw [this]; exact Nat.div_eq_of_lt hsr) hdlt
        simp only [Nat.zero_mul, Nat.add_zero, Nat.pow_zero, Nat.mul_one, Nat.zero_add] at hsi
        have hm' : c.hw - c.dw = m := by omega
        have h1w : 1 < c.W := by omega
        simp [dpRel, Elem.step, Elem.accNow, Elem.delNow, Elem.out, depacketizer, hal, hdf, hw1, hL,
          PkCfg.dpShift, hds, hm', Nat.mod_eq_of_lt hsi.1, hsi.1, hsi.2, h1w]
  | hdr =>
    simp only at hst
    obtain ⟨h, hdf0, hc1, hc2, hh⟩ := hst
    cases iv with
    | false =>
      simp [dpRel, Elem.step, Elem.accNow, Elem.delNow, Elem.out, depacketizer, hal, hsr, hdf0, hc1, hc2, hh]
    | true =>
      have hdf : deframe c (a ++ [it]) = deframe c a := by
        unfold deframe; rw [deframeAux_append, hdf0]; simp; omega
      have hds := dfSt_append c a it 0 0
      rw [hdf0] at hds
      simp only [hc2, ↓reduceIte] at hds
      have hw1 : c.W ≠ 1 := by omega
      obtain ⟨m, hm⟩ : ∃ m, c.hw = m + (cnt + 1) * c.dw := ⟨c.hw - (cnt + 1) * c.dw, by
        have : (cnt + 1) * c.dw ≤ c.W * c.dw := Nat.mul_le_mul_right _ hc2
        omega⟩
      have hsm : (cnt + 1) * c.dw = cnt * c.dw + c.dw := Nat.succ_mul ..
      have hsi := dp_shift_inv c.hw c.dw cnt m sr h (it.data % 2 ^ c.dw) hm hsr (by
        have : m + c.dw = c.hw - cnt * c.dw := by omega
        rw [this]; exact hh) hdlt
      have hm' : c.hw - c.dw = m + cnt * c.dw := by omega
      have hcm := W_le_cntMod c
      by_cases hlast : cnt + 1 = c.W
      · have hm0 : m = 0 := by
          have : c.hw = (cnt + 1) * c.dw := by rw [hlast]; exact hhw
          omega
        subst hm0
        simp only [Nat.pow_zero, Nat.div_one, Nat.zero_add] at hsi hm'
        simp [dpRel, Elem.step, Elem.accNow, Elem.delNow, Elem.out, depacketizer, hal, hdf, hw1, hcp,
          PkCfg.dpShift, hds, hm', Nat.mod_eq_of_lt hsi.1, hsi.1, hsi.2, hlast]
        have hlt : h + it.data % 2 ^ c.dw * 2 ^ (cnt * c.dw) < 2 ^ c.hw := hsi.2 ▸ hsi.1
        exact ⟨Nat.mod_lt _ (Nat.two_pow_pos _), (Nat.mod_eq_of_lt hlt).symm⟩
      · have hmod : (cnt + 1) % c.cntMod = cnt + 1 := Nat.mod_eq_of_lt (by omega)
        have hm2 : c.hw - (cnt + 1) * c.dw = m := by omega
        simp [dpRel, Elem.step, Elem.accNow, Elem.delNow, Elem.out, depacketizer, hal, hdf, hw1,
          PkCfg.dpShift, hds, hm', Nat.mod_eq_of_lt hsi.1, hsi.1, hsi.2, hlast, hmod, hm2]
        omega
  | acopy =>
    simp only at hst
    have hdf : deframe c (a ++ [it]) = deframe c a ++
        [{ data := { data := it.data % 2 ^ c.dw, hdr := sr }, first := false, last := it.last }] := by
      unfold deframe; rw [deframeAux_append, hst]; simp
    have hds := dfSt_append c a it 0 0
    rw [hst] at hds
    simp only [Nat.lt_irrefl, ↓reduceIte] at hds
    cases iv with
    | false =>
      simp [dpRel, Elem.step, Elem.accNow, Elem.delNow, Elem.out, depacketizer, hal, hsr, hst]
    | true =>
      cases ir with
      | false =>
        simp [dpRel, Elem.step, Elem.accNow, Elem.delNow, Elem.out, depacketizer, hal, hsr, hst]
      | true =>
        cases hl : it.last with
        | false =>
          simp [dpRel, Elem.step, Elem.accNow, Elem.delNow, Elem.out, depacketizer, hal, hsr, hdf, hds, hl]
        | true =>
          simp [dpRel, Elem.step, Elem.accNow, Elem.delNow, Elem.out, depacketizer, hal, hsr, hdf, hds, hl]
  | ucopy => simp at hst

end Litex.Packet
