import LitexProofs.Packet.Packetizer
/-
  Packetizer, header NOT a multiple of the data width (`L = H % B ≠ 0`, `H ≥ B`): specification, environment
  hypotheses and the step lemma of the framing relation.
-/
namespace Litex.Packet
open Litex Litex.Stream Litex.Stream.Elem

/-- The header is at least one beat long and leaves a residue of `L = H % B` bytes. -/
structure UnalignedCfg (c : PkCfg) : Prop where
  hB : 0 < c.B
  hL : c.H % c.B ≠ 0
  hH : c.B ≤ c.H

namespace UnalignedCfg
variable {c : PkCfg}

theorem L_pos (h : UnalignedCfg c) : 1 ≤ c.L := Nat.pos_of_ne_zero h.hL
theorem L_lt (h : UnalignedCfg c) : c.L < c.B := Nat.mod_lt _ h.hB

theorem W_eq (h : UnalignedCfg c) : c.W = c.H / c.B := by
  unfold PkCfg.W PkCfg.hw PkCfg.dw
  exact Nat.mul_div_mul_left _ _ (by omega)

theorem W_pos (h : UnalignedCfg c) : 1 ≤ c.W := by
  rw [h.W_eq]; exact (Nat.one_le_div_iff h.hB).mpr h.hH

theorem H_eq (h : UnalignedCfg c) : c.H = c.W * c.B + c.L := by
  rw [h.W_eq]
  have := Nat.div_add_mod c.H c.B
  unfold PkCfg.L
  rw [Nat.mul_comm]; omega

theorem hw_eq (h : UnalignedCfg c) : c.hw = c.W * c.dw + 8 * c.L := by
  have := h.H_eq
  unfold PkCfg.hw PkCfg.dw
  rw [this, Nat.mul_add, Nat.mul_left_comm]

theorem aligned_eq (h : UnalignedCfg c) : c.aligned = false := by
  have := h.hL
  simp [PkCfg.aligned, PkCfg.L, this]

theorem copy_eq (h : UnalignedCfg c) : c.copy = .ucopy := by simp [PkCfg.copy, h.aligned_eq]

theorem dw_eq (h : UnalignedCfg c) : c.dw = 8 * c.L + (c.B - c.L) * 8 := by
  have := h.L_lt
  unfold PkCfg.dw; omega

end UnalignedCfg

/-- A beat of the realigned stream: low `L` bytes `lo`, upper `B - L` bytes the low bytes of `x`. -/
def ubeat (c : PkCfg) (lo x : Nat) : Nat := lo % 2 ^ (8 * c.L) + 2 ^ (8 * c.L) * (x % 2 ^ (c.dw - 8 * c.L))
/-- The top `L` bytes of a sink beat, carried into the next source beat. -/
def resid (c : PkCfg) (x : Nat) : Nat := x / 2 ^ ((c.B - c.L) * 8)
/-- The `L` header bytes left over after the `W` full header words. -/
def hleft (c : PkCfg) (h : Nat) : Nat := h / 2 ^ (c.W * c.dw)

def sinkData (c : PkCfg) (t : Tok HBeat) : Nat := t.data.data % 2 ^ c.dw

/-- What one accepted beat adds to the framed stream.  `cur = none`: it starts a packet; `some prev`: `prev` is
    the data of the previous beat of the packet.  A last beat is followed by the flush beat carrying its top
    `L` bytes (its upper `B - L` bytes are padding, specified as 0 here and masked in the theorem). -/
def uChunk (c : PkCfg) (cur : Option Nat) (t : Tok HBeat) : List (Tok Nat) :=
  (match cur with
    | none => hdrWords c (hdrOf c t) ++
        [{ data := ubeat c (hleft c (hdrOf c t)) (sinkData c t), first := false, last := false }]
    | some prev => [{ data := ubeat c (resid c prev) (sinkData c t), first := false, last := false }]) ++
  (if t.last then [{ data := resid c (sinkData c t) % 2 ^ (8 * c.L), first := false, last := true }] else [])

def uNext (c : PkCfg) (t : Tok HBeat) : Option Nat := if t.last then none else some (sinkData c t)

/-- Unaligned framing specification. -/
def frameUAux (c : PkCfg) : Option Nat → List (Tok HBeat) → List (Tok Nat)
  | _, [] => []
  | cur, t :: r => uChunk c cur t ++ frameUAux c (uNext c t) r

def frameU (c : PkCfg) (a : List (Tok HBeat)) : List (Tok Nat) := frameUAux c none a

def uEnd (c : PkCfg) : Option Nat → List (Tok HBeat) → Option Nat
  | cur, [] => cur
  | _, t :: r => uEnd c (uNext c t) r

theorem frameUAux_append (c : PkCfg) (a : List (Tok HBeat)) (t : Tok HBeat) :
    ∀ cur, frameUAux c cur (a ++ [t]) = frameUAux c cur a ++ uChunk c (uEnd c cur a) t := by
  induction a with
  | nil => intro cur; simp [frameUAux, uEnd]
  | cons x r ih => intro cur; simp [frameUAux, uEnd, ih]

theorem uEnd_append (c : PkCfg) (a : List (Tok HBeat)) (t : Tok HBeat) :
    ∀ cur, uEnd c cur (a ++ [t]) = uNext c t := by
  induction a with
  | nil => intro cur; simp [uEnd]
  | cons x r ih => intro cur; simp [uEnd, ih]

/-- The padding bytes of a last beat are not specified: compare with them masked. -/
def maskPad (c : PkCfg) (t : Tok Nat) : Tok Nat := if t.last then { t with data := t.data % 2 ^ (8 * c.L) } else t

/-! ### Environment hypotheses -/

/-- What the proof remembers of the previous cycle. -/
structure UEnv where
  lines : Tok HBeat   -- the sink lines
  pend  : Bool        -- they were offered and not accepted
  start : Bool        -- the next new beat starts a packet
deriving DecidableEq

/-- Whether the next new beat starts a packet (true before anything has happened). -/
def envStart (env : Option UEnv) : Bool :=
  match env with
  | none => true
  | some v => v.start

section env
variable {β σ : Type}

def uenvNext (e : Elem HBeat β σ) (s : σ) (env : Option UEnv) (i : In HBeat) : Option UEnv :=
  some { lines := i.tok
         pend := i.valid && !(e.out s i).ready
         start := if i.valid && (e.out s i).ready then i.tok.last
                  else envStart env }

/-- The three assumptions, cycle by cycle: (1) stream contract: a beat offered and not accepted is offered again
    unchanged; (2) a producer that pauses *inside* a packet keeps its lines unchanged; (3) no single-beat
    packets (the first beat of a packet does not carry `last`). -/
def UOkStep (env : Option UEnv) (i : In HBeat) : Prop :=
  match env with
  | none => i.valid = true → i.tok.last = false
  | some v =>
    (v.pend = true → i.valid = true ∧ i.tok = v.lines) ∧
    (i.valid = false → v.start = false → i.tok = v.lines) ∧
    (i.valid = true → v.pend = false → v.start = true → i.tok.last = false)

def UOk (e : Elem HBeat β σ) : σ → Option UEnv → List (In HBeat) → Prop
  | _, _, [] => True
  | s, env, i :: is => UOkStep env i ∧ UOk e (e.step s i) (uenvNext e s env i) is

def uenvRun (e : Elem HBeat β σ) : σ → Option UEnv → List (In HBeat) → Option UEnv
  | _, env, [] => env
  | s, env, i :: is => uenvRun e (e.step s i) (uenvNext e s env i) is

/-- Executable form of `UOk` (for concrete examples). -/
def uokStepB (env : Option UEnv) (i : In HBeat) : Bool :=
  match env with
  | none => !i.valid || !i.tok.last
  | some v =>
    (!v.pend || (i.valid && decide (i.tok = v.lines))) &&
    (i.valid || v.start || decide (i.tok = v.lines)) &&
    (!i.valid || v.pend || !v.start || !i.tok.last)

def uokB (e : Elem HBeat β σ) : σ → Option UEnv → List (In HBeat) → Bool
  | _, _, [] => true
  | s, env, i :: is => uokStepB env i && uokB e (e.step s i) (uenvNext e s env i) is

theorem uokStep_of_B (env : Option UEnv) (i : In HBeat) (h : uokStepB env i = true) : UOkStep env i := by
  unfold uokStepB at h
  unfold UOkStep
  cases env with
  | none =>
    simp only at h ⊢
    intro hv; simpa [hv] using h
  | some v =>
    simp only at h ⊢
    simp only [Bool.and_eq_true, Bool.or_eq_true, Bool.not_eq_true', decide_eq_true_eq] at h
    obtain ⟨⟨h1, h2⟩, h3⟩ := h
    refine ⟨?_, ?_, ?_⟩
    · intro hp; rcases h1 with h1 | h1
      · rw [hp] at h1; cases h1
      · exact h1
    · intro hv hs
      rcases h2 with (h2 | h2) | h2
      · rw [hv] at h2; cases h2
      · rw [hs] at h2; cases h2
      · exact h2
    · intro hv hp hs
      rcases h3 with ((h3 | h3) | h3) | h3
      · rw [hv] at h3; cases h3
      · rw [hp] at h3; cases h3
      · rw [hs] at h3; cases h3
      · exact h3

theorem uok_of_B (e : Elem HBeat β σ) (ins : List (In HBeat)) :
    ∀ s env, uokB e s env ins = true → UOk e s env ins := by
  induction ins with
  | nil => intro s env _; trivial
  | cons i is ih =>
    intro s env h
    simp only [uokB, Bool.and_eq_true] at h
    exact ⟨uokStep_of_B env i h.1, ih _ _ h.2⟩

theorem rel_run_uok (e : Elem HBeat β σ)
    (R : σ → Option UEnv → List (Tok HBeat) → List (Tok β) → Prop)
    (hstep : ∀ s env a d i, R s env a d → UOkStep env i →
      R (e.step s i) (uenvNext e s env i) (a ++ e.accNow s i) (d ++ e.delNow s i)) :
    ∀ (ins : List (In HBeat)) s env a d, R s env a d → UOk e s env ins →
      R (e.runFrom s ins) (uenvRun e s env ins) (a ++ e.accepted s ins) (d ++ e.delivered s ins) := by
  intro ins
  induction ins with
  | nil => intro s env a d h _; simpa [accepted, delivered, uenvRun] using h
  | cons i is ih =>
    intro s env a d h hc
    obtain ⟨hc1, hc2⟩ := hc
    have := ih _ _ _ _ (hstep s env a d i h hc1) hc2
    simpa [accepted, delivered, uenvRun, List.append_assoc] using this

end env

end Litex.Packet
