import LitexModel.Packet.Header
import Mathlib.Tactic.Ring
/-
  Bit-level lemmas behind `header_roundtrip` / `encode_layout`.
-/
namespace Litex.Packet
open Litex

theorem testBit_slice (lo w n i : Nat) : (slice lo w n).testBit i = (decide (i < w) && n.testBit (lo + i)) := by
  unfold slice
  rw [Nat.testBit_mod_two_pow, Nat.testBit_div_two_pow, Nat.add_comm]

theorem setSlice_eq (lo w n v : Nat) :
    setSlice lo w n v = 2 ^ lo * (2 ^ w * (n / 2 ^ (lo + w)) + v % 2 ^ w) + n % 2 ^ lo := by
  unfold setSlice
  rw [Nat.pow_add]
  ring

theorem testBit_setSlice (lo w n v i : Nat) :
    (setSlice lo w n v).testBit i =
      if i < lo then n.testBit i else if i < lo + w then v.testBit (i - lo) else n.testBit i := by
  rw [setSlice_eq, Nat.testBit_two_pow_mul_add _ (Nat.mod_lt _ (Nat.two_pow_pos lo))]
  split
  · rename_i h; simp [Nat.testBit_mod_two_pow, h]
  · rename_i h
    rw [Nat.testBit_two_pow_mul_add _ (Nat.mod_lt _ (Nat.two_pow_pos w))]
    split
    · rename_i h2
      have : i < lo + w := by omega
      simp [Nat.testBit_mod_two_pow, h2, this]
    · rename_i h2
      have : ¬ i < lo + w := by omega
      simp only [this, ↓reduceIte, Nat.testBit_div_two_pow]
      congr 1; omega

theorem slice_setSlice_disjoint (lo w n v lo2 w2 : Nat) (h : lo2 + w2 ≤ lo ∨ lo + w ≤ lo2) :
    slice lo2 w2 (setSlice lo w n v) = slice lo2 w2 n := by
  apply Nat.eq_of_testBit_eq
  intro i
  simp only [testBit_slice, testBit_setSlice]
  by_cases hi : i < w2
  · simp only [hi, decide_true, Bool.true_and]
    rcases h with h | h
    · have : lo2 + i < lo := by omega
      simp [this]
    · have h1 : ¬ lo2 + i < lo := by omega
      have h2 : ¬ lo2 + i < lo + w := by omega
      simp [h1, h2]
  · simp [hi]

theorem setSlice_lt (lo w n v k : Nat) (h : lo + w ≤ k) (hn : n < 2 ^ k) : setSlice lo w n v < 2 ^ k := by
  apply Nat.lt_pow_two_of_testBit
  intro i hi
  rw [testBit_setSlice]
  have h1 : ¬ i < lo := by omega
  have h2 : ¬ i < lo + w := by omega
  simp only [h1, h2, ↓reduceIte]
  exact Nat.testBit_lt_two_pow (Nat.lt_of_lt_of_le hn (Nat.pow_le_pow_right (by omega) hi))

/-! ### `cat` and `reverse_bytes` -/

theorem cat_lt (l : List (Nat × Nat)) : cat l < 2 ^ catWidth l := by
  induction l with
  | nil => simp [cat, catWidth]
  | cons p r ih =>
    obtain ⟨w, v⟩ := p
    simp only [cat, catWidth, Nat.pow_add]
    have h1 : v % 2 ^ w < 2 ^ w := Nat.mod_lt _ (Nat.two_pow_pos w)
    have h3 : 2 ^ w * (cat r + 1) ≤ 2 ^ w * 2 ^ catWidth r := Nat.mul_le_mul_left _ ih
    rw [Nat.mul_add] at h3
    omega

theorem testBit_cat_cons (w v : Nat) (r : List (Nat × Nat)) (j : Nat) :
    (cat ((w, v) :: r)).testBit j = if j < w then v.testBit j else (cat r).testBit (j - w) := by
  simp only [cat]
  rw [Nat.add_comm, Nat.testBit_two_pow_mul_add _ (Nat.mod_lt _ (Nat.two_pow_pos w))]
  split
  · rename_i h; simp [Nat.testBit_mod_two_pow, h]
  · rfl

/-- Byte reversal of `n` whole bytes: the chunk list is `(8, byte i)` for `i = n-1 … 0`. -/
def revB (n x : Nat) : Nat := cat ((List.range n).reverse.map fun i => (8, slice (i * 8) 8 x))

theorem revChunks_whole (n x : Nat) :
    revChunks (8 * n) x = (List.range n).reverse.map fun i => (8, slice (i * 8) 8 x) := by
  unfold revChunks
  have : (8 * n + 7) / 8 = n := by omega
  rw [this]
  apply List.map_congr_left
  intro i hi
  simp only [List.mem_reverse, List.mem_range] at hi
  have : min ((i + 1) * 8) (8 * n) - i * 8 = 8 := by omega
  rw [this]

theorem revBytes_whole (n x : Nat) : revBytes (8 * n) x = revB n x := by
  unfold revBytes revB; rw [revChunks_whole]

theorem testBit_revB (n x j : Nat) :
    (revB n x).testBit j = (decide (j < 8 * n) && x.testBit (8 * (n - 1 - j / 8) + j % 8)) := by
  induction n generalizing j with
  | zero => simp [revB, cat]
  | succ n ih =>
    have hr : revB (n + 1) x = cat ((8, slice (n * 8) 8 x) :: ((List.range n).reverse.map fun i => (8, slice (i * 8) 8 x))) := by
      simp [revB, List.range_succ]
    rw [hr, testBit_cat_cons]
    split
    · rename_i h
      have h1 : j < 8 * (n + 1) := by omega
      have h2 : j / 8 = 0 := by omega
      have h3 : j % 8 = j := by omega
      simp only [testBit_slice, h, decide_true, Bool.true_and, h1, h2, h3]
      congr 1; omega
    · rename_i h
      have := ih (j - 8)
      unfold revB at this
      rw [this]
      by_cases hj : j < 8 * (n + 1)
      · have h1 : j - 8 < 8 * n := by omega
        simp only [h1, hj, decide_true, Bool.true_and]
        congr 1; omega
      · have h1 : ¬ j - 8 < 8 * n := by omega
        simp [h1, hj]

theorem revB_revB (n x : Nat) : revB n (revB n x) = x % 2 ^ (8 * n) := by
  apply Nat.eq_of_testBit_eq
  intro j
  rw [testBit_revB, Nat.testBit_mod_two_pow]
  by_cases hj : j < 8 * n
  · simp only [hj, decide_true, Bool.true_and]
    rw [testBit_revB]
    have h1 : 8 * (n - 1 - j / 8) + j % 8 < 8 * n := by omega
    simp only [h1, decide_true, Bool.true_and]
    congr 1; omega
  · simp [hj]

theorem revBytes_revBytes (w x : Nat) (h : w % 8 = 0) : revBytes w (revBytes w x) = x % 2 ^ w := by
  obtain ⟨n, rfl⟩ : ∃ n, w = 8 * n := ⟨w / 8, by omega⟩
  rw [revBytes_whole, revBytes_whole, revB_revB]

theorem revBytes_small (w x : Nat) (h : w ≤ 8) : revBytes w x = x % 2 ^ w := by
  unfold revBytes revChunks
  by_cases hw : w = 0
  · subst hw; simp [cat, Nat.mod_one]
  · have : (w + 7) / 8 = 1 := by omega
    rw [this]
    have h2 : min ((0 + 1) * 8) w - 0 * 8 = w := by omega
    simp only [List.range_one, List.reverse_cons, List.reverse_nil, List.nil_append, List.map_cons, List.map_nil, h2]
    simp [cat, slice]

/-- The chunks of `reverse_bytes` cover the `w` bits exactly. -/
theorem catWidth_chunks (w x m : Nat) :
    catWidth ((List.range m).reverse.map fun i =>
      (min ((i + 1) * 8) w - i * 8, slice (i * 8) (min ((i + 1) * 8) w - i * 8) x)) = min (m * 8) w := by
  induction m with
  | zero => simp [catWidth]
  | succ m ih =>
    simp only [List.range_succ, List.reverse_append, List.reverse_cons, List.reverse_nil, List.nil_append,
      List.singleton_append, List.map_cons, catWidth, ih]
    omega

theorem revBytes_lt (w x : Nat) : revBytes w x < 2 ^ w := by
  have h := cat_lt (revChunks w x)
  unfold revChunks at h
  rw [catWidth_chunks] at h
  have : min ((w + 7) / 8 * 8) w = w := by omega
  rw [this] at h
  exact h

theorem swapField_lt (swap : Bool) (w x : Nat) : swapField swap w x < 2 ^ w := by
  unfold swapField
  split
  · exact revBytes_lt w x
  · exact Nat.mod_lt _ (Nat.two_pow_pos w)

theorem swapField_swapField (swap : Bool) (w x : Nat) (h : swap = true → (w ≤ 8 ∨ w % 8 = 0)) :
    swapField swap w (swapField swap w x) = x % 2 ^ w := by
  unfold swapField
  cases swap with
  | false => simp
  | true =>
    simp only [↓reduceIte]
    rcases h rfl with h | h
    · rw [revBytes_small w x h, revBytes_small w _ h, Nat.mod_mod]
    · exact revBytes_revBytes w x h

/-! ### encode / decode -/

/-- A field disjoint from everything that is written keeps its bits. -/
theorem slice_encodeFrom_other (swap : Bool) (g : HField) (l : List (HField × Nat)) :
    ∀ (sig : Nat), (∀ p ∈ l, g.disjoint p.1 = true) →
      slice g.start g.width (encodeFrom swap sig l) = slice g.start g.width sig := by
  induction l with
  | nil => intro sig _; rfl
  | cons p r ih =>
    intro sig h
    obtain ⟨f, v⟩ := p
    simp only [encodeFrom]
    rw [ih _ (fun q hq => h q (List.mem_cons_of_mem _ hq))]
    apply slice_setSlice_disjoint
    have := h (f, v) (List.mem_cons_self ..)
    simp only [HField.disjoint, HField.stop, Bool.or_eq_true] at this
    rcases this with h1 | h1
    · exact Or.inl (of_decide_eq_true h1)
    · exact Or.inr (of_decide_eq_true h1)

/-- Every field of a non-overlapping table reads back what was written into its bit range. -/
theorem slice_encodeFrom_mem (swap : Bool) (l : List (HField × Nat)) :
    ∀ (sig : Nat), pairwiseDisjoint (l.map Prod.fst) = true → ∀ p ∈ l,
      slice p.1.start p.1.width (encodeFrom swap sig l) = swapField swap p.1.width p.2 := by
  induction l with
  | nil => intro sig _ p hp; simp at hp
  | cons q r ih =>
    intro sig hd p hp
    obtain ⟨f, v⟩ := q
    simp only [List.map_cons, pairwiseDisjoint, Bool.and_eq_true, List.all_eq_true, List.mem_map,
      forall_exists_index, and_imp, forall_apply_eq_imp_iff₂] at hd
    obtain ⟨hd1, hd2⟩ := hd
    simp only [encodeFrom]
    rcases List.mem_cons.mp hp with hp | hp
    · subst hp
      rw [slice_encodeFrom_other swap f r _ (fun q hq => hd1 q hq)]
      rw [slice_setSlice_same, Nat.mod_eq_of_lt (swapField_lt _ _ _)]
    · exact ih _ hd2 p hp

theorem map_fst_zip_eq (fields : List HField) (vals : List Nat) (hlen : vals.length = fields.length) :
    (fields.zip vals).map Prod.fst = fields := by
  induction fields generalizing vals with
  | nil => simp
  | cons f r ih =>
    cases vals with
    | nil => simp at hlen
    | cons v vs => simp at hlen; simp [ih vs hlen]

/-- `encode_layout`. -/
theorem encode_layout (swap : Bool) (fields : List HField) (vals : List Nat)
    (hlen : vals.length = fields.length) (hd : pairwiseDisjoint fields = true)
    (i : Nat) (hi : i < fields.length) :
    slice (fields[i]).start (fields[i]).width (encode swap fields vals)
      = swapField swap (fields[i]).width (vals[i]'(by omega)) := by
  unfold encode
  have hm : (fields[i], vals[i]'(by omega)) ∈ fields.zip vals := by
    rw [List.mem_iff_getElem]
    exact ⟨i, by simp [hlen, hi], by simp⟩
  have := slice_encodeFrom_mem swap (fields.zip vals) 0 (by rw [map_fst_zip_eq _ _ hlen]; exact hd) _ hm
  simpa using this

/-- `header_roundtrip`. -/
theorem decode_encode (swap : Bool) (fields : List HField) (vals : List Nat)
    (hlen : vals.length = fields.length) (hd : pairwiseDisjoint fields = true)
    (hs : swap = true → ∀ f ∈ fields, f.swappable = true)
    (hv : ∀ p ∈ fields.zip vals, p.2 < 2 ^ p.1.width) :
    decode swap fields (encode swap fields vals) = vals := by
  apply List.ext_getElem
  · simp [decode, hlen]
  · intro i h1 h2
    have hi : i < fields.length := by simpa [decode] using h1
    simp only [decode, List.getElem_map, decodeField]
    rw [encode_layout swap fields vals hlen hd i hi]
    have hm : (fields[i], vals[i]) ∈ fields.zip vals := by
      rw [List.mem_iff_getElem]
      exact ⟨i, by simp [hlen, hi], by simp⟩
    rw [swapField_swapField]
    · exact Nat.mod_eq_of_lt (hv _ hm)
    · intro hsw
      have := hs hsw fields[i] (List.getElem_mem hi)
      simp only [HField.swappable, Bool.or_eq_true, decide_eq_true_eq, beq_iff_eq] at this
      exact this

theorem encodeFrom_lt (swap : Bool) (k : Nat) (l : List (HField × Nat)) :
    ∀ (sig : Nat), sig < 2 ^ k → (∀ p ∈ l, p.1.stop ≤ k) → encodeFrom swap sig l < 2 ^ k := by
  induction l with
  | nil => intro sig h _; exact h
  | cons q r ih =>
    intro sig h hf
    obtain ⟨f, v⟩ := q
    simp only [encodeFrom]
    apply ih
    · apply setSlice_lt _ _ _ _ _ _ h
      have := hf (f, v) (List.mem_cons_self ..)
      simpa [HField.stop] using this
    · exact fun p hp => hf p (List.mem_cons_of_mem _ hp)

/-- The encoded header fits the `len`-byte header signal. -/
theorem encode_lt (swap : Bool) (len : Nat) (fields : List HField) (vals : List Nat)
    (hf : fitsIn len fields = true) : encode swap fields vals < 2 ^ (8 * len) := by
  unfold encode
  apply encodeFrom_lt _ _ _ _ (Nat.two_pow_pos _)
  intro p hp
  have := (List.of_mem_zip hp).1
  simp only [fitsIn, List.all_eq_true, decide_eq_true_eq] at hf
  exact hf _ this

end Litex.Packet
