import LitexProofs.Packet.UnalignedDepackTight
/-
  Kernel-checked boundary examples for `depacketizer_bytes_unaligned_tight`
  (dw = 16, 5-byte header `a1 b2 c3 d4 e5`: `W = 2` header beats, residue `L = 1` byte).
  The packet on the wire: `b2a1 | d4c3 | 11e5 | 3322 | 0044+last` = header, payload bytes `11 22 33 44`, padding.
-/
namespace Litex.Packet
open Litex Litex.Stream Litex.Stream.Elem

/-- Non-vacuity / the newly covered region: `last` on header beat 0 (an EARLY header beat, possible because
    `W = 2`).  The old hypothesis `udWellFormed` is false, the tight one holds, and the packet is delivered
    correctly (`last` on the header beat is ignored). -/
example :
    let c : PkCfg := ⟨2, 5⟩
    let i (d : Nat) (l : Bool) : In Nat := ⟨true, ⟨d, false, l⟩, true⟩
    let ins := [i 0xb2a1 true, i 0xd4c3 false, i 0x11e5 false, i 0x3322 false, i 0x0044 true]
    let acc := (depacketizer c).accepted (depacketizer c).init ins
    UnalignedCfg c ∧ udWellFormed2 c (.hdr 0 0) acc ∧ ¬ udWellFormed c (.hdr 0 0) acc ∧
    (depacketizer c).delivered (depacketizer c).init ins =
      [⟨⟨0x2211, 0xe5d4c3b2a1⟩, false, false⟩, ⟨⟨0x4433, 0xe5d4c3b2a1⟩, false, true⟩] ∧
    deframeU c acc = [⟨⟨0x2211, 0xe5d4c3b2a1⟩, false, false⟩, ⟨⟨0x4433, 0xe5d4c3b2a1⟩, false, true⟩] := by
  refine ⟨⟨by decide, by decide, by decide⟩, udWf2_of_B _ _ _ (by decide), ?_, by decide, by decide⟩
  rw [← udWfB_iff]; decide

/-- Negative witness (excluded case 1, NEW: `last` on the FINAL header beat `W-1`).  UNALIGNED-DATA-COPY is entered
    with `sink_d.last = 1`; `source.valid.eq(sink_d.last)` offers the spurious beat `e5d4` (top byte of the header
    beat, low byte of the residue beat) with `last` and the still incomplete header `d4c3b2a1·00`, the FSM returns
    to IDLE and takes the payload `3322 0044` as the next header.  The specification delivers `2211 4433`. -/
example :
    let c : PkCfg := ⟨2, 5⟩
    let i (d : Nat) (l : Bool) : In Nat := ⟨true, ⟨d, false, l⟩, true⟩
    let ins := [i 0xb2a1 false, i 0xd4c3 true, i 0x11e5 false, i 0x3322 false, i 0x0044 true]
    let acc := (depacketizer c).accepted (depacketizer c).init ins
    udWf2B c (.hdr 0 0) acc = false ∧
    (depacketizer c).delivered (depacketizer c).init ins = [⟨⟨0xe5d4, 0xd4c3b2a100⟩, false, true⟩] ∧
    deframeU c acc = [⟨⟨0x2211, 0xe5d4c3b2a1⟩, false, false⟩, ⟨⟨0x4433, 0xe5d4c3b2a1⟩, false, true⟩] := by
  refine ⟨by decide, by decide, by decide⟩

/-- The same accepted stream is delivered correctly when the consumer happens to stall (`ready = 0`) in the one
    cycle in which the residue beat is accepted (the spurious `valid` is withdrawn again, `sink_d.last` is
    overwritten): whether a `last` on header beat `W-1` does harm depends on the `ready` schedule, so
    `udWellFormed2` is the weakest condition ON THE ACCEPTED STREAM under which the theorem holds for every
    schedule (the first example is a schedule on which it fails). -/
example :
    let c : PkCfg := ⟨2, 5⟩
    let i (d : Nat) (l r : Bool) : In Nat := ⟨true, ⟨d, false, l⟩, r⟩
    let ins := [i 0xb2a1 false true, i 0xd4c3 true true, i 0x11e5 false false, i 0x3322 false true,
                i 0x0044 true true]
    (depacketizer c).delivered (depacketizer c).init ins =
      [⟨⟨0x2211, 0xe5d4c3b2a1⟩, false, false⟩, ⟨⟨0x4433, 0xe5d4c3b2a1⟩, false, true⟩] := by decide

/-- Negative witness (excluded case 2, finding C16-depacketizer-residue-end, here with `W = 2`): `last` on the
    residue beat (a packet of header + 1 payload byte `11`), followed by the packet `f2e1 14d3 2215 0033+last`.
    The payload byte is delivered together with a byte of the NEXT packet's first beat, which is swallowed; the
    next packet is then mis-framed. -/
example :
    let c : PkCfg := ⟨2, 5⟩
    let i (d : Nat) (l : Bool) : In Nat := ⟨true, ⟨d, false, l⟩, true⟩
    let ins := [i 0xb2a1 false, i 0xd4c3 false, i 0x11e5 true,
                i 0xf2e1 false, i 0x14d3 false, i 0x2215 false, i 0x0033 true, i 0 false]
    let acc := (depacketizer c).accepted (depacketizer c).init ins
    udWf2B c (.hdr 0 0) acc = false ∧
    (depacketizer c).delivered (depacketizer c).init ins =
      [⟨⟨0xe111, 0xe5d4c3b2a1⟩, false, true⟩, ⟨⟨0x0000, 0x33221514d3⟩, false, true⟩] := by
  refine ⟨by decide, by decide⟩

end Litex.Packet
