import LitexProofs.Packet.Framing
/-
  Packetizer, aligned header (`H % B = 0`): step lemma of the framing relation.
-/
namespace Litex.Packet
open Litex Litex.Stream Litex.Stream.Elem

/-- The header length is a positive multiple of the beat size. -/
structure AlignedCfg (c : PkCfg) : Prop where
  hB : 0 < c.B
  hH : 0 < c.H
  hal : c.H % c.B = 0

namespace AlignedCfg
variable {c : PkCfg}

theorem W_eq (h : AlignedCfg c) : c.W = c.H / c.B := by
  unfold PkCfg.W PkCfg.hw PkCfg.dw
  exact Nat.mul_div_mul_left _ _ (by omega)

theorem H_eq (h : AlignedCfg c) : c.H = c.W * c.B := by
  rw [h.W_eq]
  have := Nat.div_add_mod c.H c.B
  rw [h.hal] at this
  rw [Nat.mul_comm]; omega

theorem hw_eq (h : AlignedCfg c) : c.hw = c.W * c.dw := by
  unfold PkCfg.hw PkCfg.dw
  have := h.H_eq
  rw [this, Nat.mul_left_comm]

theorem W_pos (h : AlignedCfg c) : 1 ≤ c.W := by
  rw [h.W_eq]
  have := Nat.div_add_mod c.H c.B
  rw [h.hal] at this
  have hH := h.hH
  rcases Nat.eq_zero_or_pos (c.H / c.B) with h0 | h0
  · rw [h0] at this; omega
  · exact h0

theorem L_eq (h : AlignedCfg c) : c.L = 0 := h.hal
theorem aligned_eq (h : AlignedCfg c) : c.aligned = true := by simp [PkCfg.aligned, h.L_eq]
theorem copy_eq (h : AlignedCfg c) : c.copy = .acopy := by simp [PkCfg.copy, h.aligned_eq]
theorem dw_pos (h : AlignedCfg c) : 0 < c.dw := by have := h.hB; unfold PkCfg.dw; omega

end AlignedCfg

theorem W_le_cntMod (c : PkCfg) : c.W ≤ c.cntMod := by
  unfold PkCfg.cntMod bitsFor
  have hm : max c.W 2 - 1 ≠ 0 := by omega
  simp only [hm, ↓reduceIte]
  have := Nat.lt_log2_self (n := max c.W 2 - 1)
  omega

/-- Header signal as latched by the Packetizer. -/
abbrev hdrOf (c : PkCfg) (t : Tok HBeat) : Nat := t.data.hdr % 2 ^ c.hw

/-- The framing relation of the aligned Packetizer.  `p` is the beat the producer is obliged to keep offering. -/
def pkRel (c : PkCfg) (s : PkState) (p : Option (Tok HBeat)) (a : List (Tok HBeat)) (d : List (Tok Nat)) : Prop :=
  match s.st with
  | .idle => endSt true a = true ∧ d = frame c a
  | .hdr => endSt true a = true ∧ ∃ t, p = some t ∧ 1 ≤ s.count ∧ s.count < c.W ∧
      s.sr = hdrOf c t / 2 ^ ((s.count - 1) * c.dw) ∧
      d = frame c a ++ (hdrWords c (hdrOf c t)).take s.count
  | .acopy => (endSt true a = true ∧ ∃ t, p = some t ∧ d = frame c a ++ hdrWords c (hdrOf c t)) ∨
      (endSt true a = false ∧ d = frame c a)
  | .ucopy => False

theorem hdrWords_take_succ (c : PkCfg) (h k : Nat) (hk : k < c.W) :
    (hdrWords c h).take (k + 1) = (hdrWords c h).take k ++ [hdrWord c h k] := by
  unfold hdrWords
  rw [← List.map_take, ← List.map_take, List.take_range, List.take_range]
  have h1 : min (k + 1) c.W = k + 1 := by omega
  have h2 : min k c.W = k := by omega
  rw [h1, h2, List.range_succ, List.map_append]
  rfl

theorem hdrWords_take_all (c : PkCfg) (h : Nat) : (hdrWords c h).take c.W = hdrWords c h := by
  apply List.take_of_length_le
  simp [hdrWords]

theorem frame_snoc (c : PkCfg) (a : List (Tok HBeat)) (t : Tok HBeat) :
    frame c (a ++ [t]) = frame c a ++ ((if endSt true a then hdrWords c (hdrOf c t) else []) ++ [payBeat c t]) :=
  frameAux_append c a t true

theorem hdrWord_zero (c : PkCfg) (h : Nat) :
    hdrWord c h 0 = { data := h % 2 ^ c.dw, first := false, last := false } := by
  simp [hdrWord, slice]

theorem sr_shift (h dw cnt : Nat) (hc : 1 ≤ cnt) :
    h / 2 ^ ((cnt - 1) * dw) / 2 ^ dw = h / 2 ^ (cnt * dw) := by
  obtain ⟨k, rfl⟩ : ∃ k, cnt = k + 1 := ⟨cnt - 1, by omega⟩
  rw [Nat.add_sub_cancel, Nat.div_div_eq_div_mul, ← Nat.pow_add, Nat.succ_mul]

theorem min_dw (c : PkCfg) (hc : AlignedCfg c) (h2 : 2 ≤ c.W) : min c.dw (c.hw - 1) = c.dw := by
  have h1 := hc.hw_eq
  have h3 := hc.dw_pos
  have : 2 * c.dw ≤ c.W * c.dw := Nat.mul_le_mul_right _ h2
  omega

theorem packetizer_step (c : PkCfg) (hc : AlignedCfg c) (s : PkState) (p : Option (Tok HBeat))
    (a : List (Tok HBeat)) (d : List (Tok Nat)) (i : In HBeat)
    (h : pkRel c s p a d) (hp : ∀ t, p = some t → i.valid = true ∧ i.tok = t) :
    pkRel c ((packetizer c).step s i) (pendNext (packetizer c) s i)
      (a ++ (packetizer c).accNow s i) (d ++ (packetizer c).delNow s i) := by
  obtain ⟨st, sr, cnt, fi, dd, dl⟩ := s
  obtain ⟨iv, it, ir⟩ := i
  have hal := hc.aligned_eq
  have hcp := hc.copy_eq
  have hW := hc.W_pos
  cases st with
  | idle =>
    simp only [pkRel] at h
    obtain ⟨h1, h2⟩ := h
    cases iv with
    | false =>
      simp [pkRel, Elem.step, Elem.accNow, Elem.delNow, Elem.out, packetizer, pendNext, hal, h1, h2]
    | true =>
      cases ir with
      | false =>
        simp [pkRel, Elem.step, Elem.accNow, Elem.delNow, Elem.out, packetizer, pendNext, hal, h1, h2]
      | true =>
        by_cases hw1 : c.W = 1
        · have hws : hdrWords c (hdrOf c it) = [hdrWord c (hdrOf c it) 0] := by
            simp [hdrWords, hw1]
          simp [pkRel, Elem.step, Elem.accNow, Elem.delNow, Elem.out, packetizer, pendNext, hal, h1, h2, hw1,
            hcp, hws, hdrWord_zero]
        · have ht := hdrWords_take_succ c (hdrOf c it) 0 (by omega)
          simp only [List.take_zero, List.nil_append, Nat.zero_add] at ht
          simp [pkRel, Elem.step, Elem.accNow, Elem.delNow, Elem.out, packetizer, pendNext, hal, h1, h2, hw1,
            ht, hdrWord_zero]
          omega
  | hdr =>
    simp only [pkRel] at h
    obtain ⟨h1, t, hpt, hc1, hc2, hsr, hd⟩ := h
    obtain ⟨hv, htk⟩ := hp t hpt
    simp only at hv htk
    subst hv htk hpt hsr hd
    have hmin := min_dw c hc (by omega)
    have hwd : hdrOf c it / 2 ^ ((cnt - 1) * c.dw) / 2 ^ c.dw % 2 ^ c.dw = (hdrWord c (hdrOf c it) cnt).data := by
      rw [sr_shift _ _ _ hc1]; rfl
    cases ir with
    | false =>
      simp [pkRel, Elem.step, Elem.accNow, Elem.delNow, Elem.out, packetizer, pendNext, hal, h1]
      exact ⟨hc1, hc2⟩
    | true =>
      by_cases hlast : cnt + 1 = c.W
      · have ht := hdrWords_take_succ c (hdrOf c it) cnt hc2
        rw [hlast, hdrWords_take_all] at ht
        simp [pkRel, Elem.step, Elem.accNow, Elem.delNow, Elem.out, packetizer, pendNext, hal, h1, hlast, hcp,
          PkCfg.srFrom, hmin, hwd]
        exact ht.symm
      · have ht := hdrWords_take_succ c (hdrOf c it) cnt hc2
        have hcm := W_le_cntMod c
        have hmod : (cnt + 1) % c.cntMod = cnt + 1 := Nat.mod_eq_of_lt (by omega)
        simp [pkRel, Elem.step, Elem.accNow, Elem.delNow, Elem.out, packetizer, pendNext, hal, h1, hlast,
          PkCfg.srFrom, hmin, hwd, hmod, ht, sr_shift _ _ _ hc1]
        exact ⟨by omega, rfl⟩
  | acopy =>
    simp only [pkRel] at h
    rcases h with ⟨h1, t, hpt, hd⟩ | ⟨h1, hd⟩
    · obtain ⟨hv, htk⟩ := hp t hpt
      simp only at hv htk
      subst hv htk hpt hd
      have hf := frame_snoc c a it
      rw [h1] at hf
      simp only [↓reduceIte] at hf
      cases ir with
      | false =>
        simp [pkRel, Elem.step, Elem.accNow, Elem.delNow, Elem.out, packetizer, pendNext, hal, h1]
      | true =>
        cases hl : it.last with
        | false =>
          simp [pkRel, Elem.step, Elem.accNow, Elem.delNow, Elem.out, packetizer, pendNext, hal, h1, hl, hf,
            endSt_append, payBeat]
        | true =>
          simp [pkRel, Elem.step, Elem.accNow, Elem.delNow, Elem.out, packetizer, pendNext, hal, h1, hl, hf,
            endSt_append, payBeat]
    · subst hd
      have hf := frame_snoc c a it
      rw [h1] at hf
      simp only [Bool.false_eq_true, ↓reduceIte, List.nil_append] at hf
      cases iv with
      | false =>
        simp [pkRel, Elem.step, Elem.accNow, Elem.delNow, Elem.out, packetizer, pendNext, hal, h1]
      | true =>
        cases ir with
        | false =>
          simp [pkRel, Elem.step, Elem.accNow, Elem.delNow, Elem.out, packetizer, pendNext, hal, h1]
        | true =>
          cases hl : it.last with
          | false =>
            simp [pkRel, Elem.step, Elem.accNow, Elem.delNow, Elem.out, packetizer, pendNext, hal, h1, hl, hf,
              endSt_append, payBeat]
          | true =>
            simp [pkRel, Elem.step, Elem.accNow, Elem.delNow, Elem.out, packetizer, pendNext, hal, h1, hl, hf,
              endSt_append, payBeat]
  | ucopy => simp [pkRel] at h

end Litex.Packet
