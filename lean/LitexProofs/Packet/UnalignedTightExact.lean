import LitexProofs.Packet.UnalignedTightRT
import LitexProofs.Packet.UnalignedDepackTight
/-
  The boundaries of `UOk2` / `udWellFormed2` are exact — for EVERY unaligned configuration, not only on the
  concrete witnesses of `Unaligned*TightEx.lean`.

  Packetizer: take any state strictly inside a packet (UNALIGNED-DATA-COPY, not `fsm_from_idle`, `sink_d.last = 0` —
  what `uRel2` says there; `p` = data of the beat accepted last) and one pause
  cycle `valid = 0, source.ready = 1` showing the lines `t`.  If the producer then offers the next beat `x` and the
  consumer takes it, the beat delivered is the specified one (`ubeat (resid p) x`, no `last`) IF AND ONLY IF `t`
  satisfies conjunct (2) of `UOkStep2`.  So every single violation of (2) has a continuation — allowed by all the
  other conjuncts — on which the delivered stream is wrong.
-/
namespace Litex.Packet
open Litex Litex.Stream Litex.Stream.Elem

theorem ubeat_inj_lo (c : PkCfg) (lo lo' x : Nat) :
    ubeat c lo x = ubeat c lo' x ↔ lo % 2 ^ (8 * c.L) = lo' % 2 ^ (8 * c.L) := by
  unfold ubeat
  constructor
  · intro h; omega
  · intro h; rw [h]

theorem upacketizer_bubble_exact (c : PkCfg) (hc : UnalignedCfg c) (sr cnt dd p : Nat) (t x : Tok HBeat)
    (hp : p < 2 ^ c.dw) :
    let e := packetizer c
    let s : PkState := { st := .ucopy, sr := sr, count := cnt, fromIdle := false, dData := dd, dLast := false }
    -- the pause cycle itself delivers and accepts nothing …
    e.delNow s ⟨false, t, true⟩ = [] ∧ e.accNow s ⟨false, t, true⟩ = [] ∧
    -- … and the next beat comes out right iff the pause cycle obeyed conjunct (2)
    (e.delNow (e.step s ⟨false, t, true⟩) ⟨true, x, true⟩ =
        [{ data := ubeat c (resid c p) (sinkData c x), first := false, last := false }] ↔
      (t.last = false ∧ resid c (sinkData c t) = resid c p)) := by
  intro e s
  have hal := hc.aligned_eq
  have h1 : resid c (sinkData c t) < 2 ^ (8 * c.L) :=
    resid_lt c hc _ (Nat.mod_lt _ (Nat.two_pow_pos _))
  have h2 : resid c p < 2 ^ (8 * c.L) := resid_lt c hc _ hp
  refine ⟨by simp [e, s, Elem.delNow, Elem.out, packetizer], by simp [e, s, Elem.accNow, Elem.out, packetizer], ?_⟩
  cases hl : t.last with
  | true =>
    simp [e, s, Elem.step, Elem.delNow, Elem.out, packetizer, hal, hl]
  | false =>
    simp [e, s, Elem.step, Elem.delNow, Elem.out, packetizer, hal, hl, pkUData_next c hc]
    show ubeat c (resid c (sinkData c t)) (sinkData c x) = ubeat c (resid c p) (sinkData c x) ↔ _
    rw [ubeat_inj_lo, Nat.mod_eq_of_lt h1, Nat.mod_eq_of_lt h2]

/-- A sampled `last` is fatal whatever happens next: from the following cycle on the Packetizer offers a flush
    beat with `last` that the specification does not contain, also while `sink.valid = 0`, for as long as
    `source.ready = 0`; it is handed over in the first cycle with `source.ready = 1`. -/
theorem upacketizer_bubble_last (c : PkCfg) (hc : UnalignedCfg c) (sr cnt dd : Nat) (t : Tok HBeat)
    (hl : t.last = true) (v : Bool) (x : Tok HBeat) (r : Bool) :
    let e := packetizer c
    let s : PkState := { st := .ucopy, sr := sr, count := cnt, fromIdle := false, dData := dd, dLast := false }
    let s' := e.step s ⟨false, t, true⟩
    (e.out s' ⟨v, x, r⟩).valid = true ∧ (e.out s' ⟨v, x, r⟩).tok.last = true ∧
    (r = false → e.step s' ⟨v, x, r⟩ = s') := by
  intro e s s'
  have hal := hc.aligned_eq
  cases r <;> simp [e, s, s', Elem.step, Elem.out, packetizer, hal, hl]

/-- Depacketizer: a `last` on the FINAL header beat leaves the FSM in UNALIGNED-DATA-COPY with `fsm_from_idle` and
    `sink_d.last = 1` (see `udRel2`, where this is the only thing `udOkBeat` is used for on header beats).  In
    that state a beat with `last` is handed over in the first cycle with `source.ready = 1` — whatever the sink
    shows — although the accepted stream has not even completed the header (`deframeU` delivers nothing before
    the beat after the residue beat). -/
theorem udepacketizer_lastW_exact (c : PkCfg) (sr cnt dd : Nat) (v : Bool) (t : Tok Nat) :
    let e := depacketizer c
    let s : PkState := { st := .ucopy, sr := sr, count := cnt, fromIdle := true, dData := dd, dLast := true }
    ∃ b, e.delNow s ⟨v, t, true⟩ = [b] ∧ b.last = true ∧
      (e.step s ⟨v, t, true⟩).st = .idle ∧
      (∀ r, (e.out s ⟨v, t, r⟩).valid = true) := by
  intro e s
  refine ⟨_, by simp [e, s, Elem.delNow, Elem.out, depacketizer]; rfl, ?_, ?_, ?_⟩
  · simp
  · cases v <;> simp [e, s, Elem.step, depacketizer]
  · intro r; simp [e, s, Elem.out, depacketizer]

end Litex.Packet
