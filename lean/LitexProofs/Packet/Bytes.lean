import LitexProofs.Packet.Header
import LitexProofs.Packet.Packetizer
/-
  Byte view of the framed stream: the header words of an aligned header, flattened lane 0 first, are the
  header bytes 0 … H-1.
-/
namespace Litex.Packet
open Litex Litex.Stream

/-- The `n` low bytes of `x`, byte 0 first. -/
def toBytes (n x : Nat) : List Nat := (List.range n).map fun j => slice (8 * j) 8 x

/-- A beat stream flattened to bytes, lane 0 first. -/
def beatBytes (c : PkCfg) (l : List (Tok Nat)) : List Nat := l.flatMap fun t => toBytes c.B t.data

theorem slice_slice (a w b v n : Nat) (h : a + w ≤ v) : slice a w (slice b v n) = slice (b + a) w n := by
  apply Nat.eq_of_testBit_eq
  intro i
  simp only [testBit_slice]
  by_cases hi : i < w
  · have : a + i < v := by omega
    simp [hi, this, Nat.add_assoc]
  · simp [hi]

theorem range_mul_flatMap (W B : Nat) (f : Nat → Nat) :
    (List.range W).flatMap (fun k => (List.range B).map fun j => f (k * B + j)) = (List.range (W * B)).map f := by
  induction W with
  | zero => simp
  | succ W ih =>
    rw [List.range_succ, List.flatMap_append, ih, Nat.succ_mul, List.range_add, List.map_append]
    simp

/-- The header words of an aligned header are the header bytes in order. -/
theorem hdrWords_bytes (c : PkCfg) (hc : AlignedCfg c) (h : Nat) :
    beatBytes c (hdrWords c h) = toBytes c.H h := by
  unfold beatBytes hdrWords toBytes
  rw [List.flatMap_map, hc.H_eq, ← range_mul_flatMap]
  congr 1
  funext k
  apply List.map_congr_left
  intro j hj
  simp only [List.mem_range] at hj
  simp only [hdrWord]
  rw [slice_slice _ _ _ _ _ (by unfold PkCfg.dw; omega)]
  congr 1
  unfold PkCfg.dw
  rw [Nat.mul_add, Nat.mul_left_comm]

/-- Byte layout of a framed packet start: header bytes 0 … H-1, then the bytes of the first payload beat, then
    the rest of the stream. -/
theorem frame_bytes_cons (c : PkCfg) (hc : AlignedCfg c) (t : Tok HBeat) (r : List (Tok HBeat)) :
    beatBytes c (frameAux c true (t :: r)) =
      toBytes c.H (hdrOf c t) ++ toBytes c.B (t.data.data % 2 ^ c.dw) ++ beatBytes c (frameAux c t.last r) := by
  simp only [frameAux, ↓reduceIte]
  unfold beatBytes
  rw [List.flatMap_append, List.flatMap_cons]
  have := hdrWords_bytes c hc (hdrOf c t)
  unfold beatBytes at this
  rw [this]
  simp [payBeat, List.append_assoc]

end Litex.Packet
