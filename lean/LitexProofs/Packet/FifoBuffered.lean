import LitexProofs.Packet.Fifo
/-
  PacketFIFO(buffered=True): history relation and step lemma.
-/
namespace Litex.Packet
open Litex.Stream Litex.Stream.Elem

/-- Beats held by the payload side: output register, then the inner FIFO. -/
def storedPay (s : PFBState) : List (Nat × Bool) := (if s.payV then [s.payD] else []) ++ s.payQ
/-- Params held by the param side. -/
def storedPar (s : PFBState) : List Nat := (if s.parV then [s.parD] else []) ++ s.parQ

def pfbRel (s : PFBState) (a d : List (Tok PBeat)) : Prop :=
  ∃ a2, storedPay s = a2.map payOf ∧ storedPar s = paramsOf a2 ∧ (s.parV = true → s.payV = true) ∧
    ∀ ext, annT (a ++ ext) = d ++ annT (a2 ++ ext)

theorem paramsOf_ne_nil {l : List (Tok PBeat)} (h : paramsOf l ≠ []) : l ≠ [] := by
  intro hl; subst hl; exact h rfl

/-- The state after the read side of one cycle (what `next` does when nothing is written). -/
def pfbPop (s : PFBState) (r : Bool) : PFBState :=
  let rePay := s.parV && r
  let rePar := s.parV && s.payD.2 && r
  let frePay := !s.payQ.isEmpty && (!s.payV || rePay)
  let frePar := !s.parQ.isEmpty && (!s.parV || rePar)
  { payQ := if frePay then s.payQ.tail else s.payQ
    payV := if frePay then true else if rePay then false else s.payV
    payD := if frePay then s.payQ.headD (0, false) else s.payD
    parQ := if frePar then s.parQ.tail else s.parQ
    parV := if frePar then true else if rePar then false else s.parV
    parD := if frePar then s.parQ.headD 0 else s.parD }

theorem pfb_step_eq (pd qd : Nat) (s : PFBState) (i : In PBeat) :
    (packetFifoBuffered pd qd).step s i =
      { pfbPop s i.ready with
        payQ := if (i.valid && (s.payQ.length != pd && s.parQ.length != qd)) then
                  (pfbPop s i.ready).payQ ++ [payOf i.tok] else (pfbPop s i.ready).payQ
        parQ := if (i.valid && (s.payQ.length != pd && s.parQ.length != qd) && i.tok.last) then
                  (pfbPop s i.ready).parQ ++ [i.tok.data.param] else (pfbPop s i.ready).parQ } := by
  have e1 : (i.valid && s.parQ.length != qd && s.payQ.length != pd)
      = (i.valid && (s.payQ.length != pd && s.parQ.length != qd)) := by
    cases i.valid <;> cases (s.parQ.length != qd) <;> cases (s.payQ.length != pd) <;> rfl
  have e2 : (i.valid && i.tok.last && s.payQ.length != pd && s.parQ.length != qd)
      = (i.valid && (s.payQ.length != pd && s.parQ.length != qd) && i.tok.last) := by
    cases i.valid <;> cases (s.parQ.length != qd) <;> cases (s.payQ.length != pd) <;> cases i.tok.last <;> rfl
  simp only [Elem.step, packetFifoBuffered, pfbPop, payOf, e1, e2]

theorem pfb_pop (pd qd : Nat) (s : PFBState) (a d : List (Tok PBeat)) (i : In PBeat) (h : pfbRel s a d) :
    pfbRel (pfbPop s i.ready) a (d ++ (packetFifoBuffered pd qd).delNow s i) := by
  obtain ⟨a2, hpay, hpar, hinv, hext⟩ := h
  obtain ⟨payQ, payV, payD, parQ, parV, parD⟩ := s
  obtain ⟨iv, it, ir⟩ := i
  simp only [storedPay, storedPar] at hpay hpar hinv
  cases parV with
  | false =>
    -- nothing is delivered; the output registers may be refilled
    refine ⟨a2, ?_, ?_, ?_, ?_⟩
    · rw [← hpay]
      cases payV <;> cases payQ <;> simp [pfbPop, storedPay]
    · rw [← hpar]
      cases parQ <;> simp [pfbPop, storedPar]
    · intro hv
      have hq : parQ ≠ [] := by
        cases parQ with
        | nil => simp [pfbPop] at hv
        | cons _ _ => simp
      have ha2 : a2 ≠ [] := paramsOf_ne_nil (by rw [← hpar]; simpa using hq)
      have : (if payV = true then [payD] else []) ++ payQ ≠ [] := by
        rw [hpay]; simpa using ha2
      cases payV <;> cases payQ <;> simp_all [pfbPop]
    · intro ext
      simpa [Elem.delNow, Elem.out, packetFifoBuffered] using hext ext
  | true =>
    have hpv : payV = true := hinv rfl
    subst hpv
    simp only [↓reduceIte, List.singleton_append] at hpay hpar
    cases a2 with
    | nil => simp at hpay
    | cons t rest =>
      simp only [List.map_cons, List.cons.injEq] at hpay
      obtain ⟨hD, hQ⟩ := hpay
      cases ir with
      | false =>
        refine ⟨t :: rest, ?_, ?_, ?_, ?_⟩
        · simp [pfbPop, storedPay, hD, hQ]
        · simp [pfbPop, storedPar, hpar]
        · simp [pfbPop]
        · intro ext
          simpa [Elem.delNow, Elem.out, packetFifoBuffered] using hext ext
      | true =>
        have hlast : payD.2 = t.last := by rw [hD]; rfl
        subst hQ
        cases hl : t.last with
        | true =>
          simp only [paramsOf, hl, ↓reduceIte, List.cons.injEq] at hpar
          obtain ⟨hp1, hp2⟩ := hpar
          refine ⟨rest, ?_, ?_, ?_, ?_⟩
          · cases rest <;> simp [pfbPop, storedPay]
          · rw [← hp2]
            cases parQ <;> simp [pfbPop, storedPar, hlast, hl]
          · intro hv
            have hq : parQ ≠ [] := by
              cases parQ with
              | nil => simp [pfbPop, hlast, hl] at hv
              | cons _ _ => simp
            have hr : rest ≠ [] := paramsOf_ne_nil (by rw [← hp2]; exact hq)
            cases rest with
            | nil => exact absurd rfl hr
            | cons _ _ => simp [pfbPop]
          · intro ext
            have hn := nextParam_of_paramsOf (t :: rest) ext parD parQ (by simp [paramsOf, hl, hp1, hp2])
            rw [hext ext]
            simp only [List.cons_append] at hn
            simp [Elem.delNow, Elem.out, packetFifoBuffered, annT, hn, hD, payOf]
        | false =>
          simp only [paramsOf, hl, Bool.false_eq_true, ↓reduceIte] at hpar
          have hr : rest ≠ [] := paramsOf_ne_nil (by rw [← hpar]; simp)
          refine ⟨rest, ?_, ?_, ?_, ?_⟩
          · cases rest <;> simp [pfbPop, storedPay]
          · rw [← hpar]
            cases parQ <;> simp [pfbPop, storedPar, hlast, hl]
          · intro _
            cases rest with
            | nil => exact absurd rfl hr
            | cons _ _ => simp [pfbPop]
          · intro ext
            have hn := nextParam_of_paramsOf (t :: rest) ext parD parQ (by simp [paramsOf, hl, hpar])
            rw [hext ext]
            simp only [List.cons_append] at hn
            simp [Elem.delNow, Elem.out, packetFifoBuffered, annT, hn, hD, payOf]

theorem packetFifoBuffered_accNow (pd qd : Nat) (s : PFBState) (i : In PBeat) :
    (packetFifoBuffered pd qd).accNow s i =
      if (i.valid && (s.payQ.length != pd && s.parQ.length != qd)) then [i.tok] else [] := rfl

theorem packetFifoBuffered_step (pd qd : Nat) (s : PFBState) (a d : List (Tok PBeat)) (i : In PBeat)
    (h : pfbRel s a d) :
    pfbRel ((packetFifoBuffered pd qd).step s i) (a ++ (packetFifoBuffered pd qd).accNow s i)
      (d ++ (packetFifoBuffered pd qd).delNow s i) := by
  obtain ⟨a3, h1, h2, h3, h4⟩ := pfb_pop pd qd s a d i h
  rw [pfb_step_eq, packetFifoBuffered_accNow]
  generalize (packetFifoBuffered pd qd).delNow s i = D at h4 ⊢
  generalize pfbPop s i.ready = s1 at h1 h2 h3 ⊢
  cases hacc : (i.valid && (s.payQ.length != pd && s.parQ.length != qd))
  · refine ⟨a3, by simpa [storedPay] using h1, by simpa [storedPar] using h2, by simpa using h3, ?_⟩
    intro ext; simpa using h4 ext
  · refine ⟨a3 ++ [i.tok], ?_, ?_, by simpa using h3, ?_⟩
    · simp only [storedPay] at h1 ⊢
      simp [← List.append_assoc, h1]
    · simp only [storedPar] at h2 ⊢
      by_cases hl : i.tok.last <;> simp [hl, paramsOf_append, paramsOf, ← List.append_assoc, h2]
    · intro ext
      simpa [List.append_assoc] using h4 ([i.tok] ++ ext)

/-- Occupancy of the inner FIFOs. -/
def pfbBound (pd qd : Nat) (s : PFBState) : Prop := s.payQ.length ≤ pd ∧ s.parQ.length ≤ qd

theorem packetFifoBuffered_bound_step (pd qd : Nat) (s : PFBState) (i : In PBeat) (h : pfbBound pd qd s) :
    pfbBound pd qd ((packetFifoBuffered pd qd).step s i) := by
  obtain ⟨h1, h2⟩ := h
  rw [pfb_step_eq]
  unfold pfbBound pfbPop
  have t1 : s.payQ.tail.length ≤ s.payQ.length := by simp [List.length_tail]
  have t2 : s.parQ.tail.length ≤ s.parQ.length := by simp [List.length_tail]
  constructor
  · simp only
    split
    · rename_i hc
      simp only [Bool.and_eq_true, bne_iff_ne, ne_eq] at hc
      split <;> simp only [List.length_append, List.length_singleton] <;> omega
    · split <;> omega
  · simp only
    split
    · rename_i hc
      simp only [Bool.and_eq_true, bne_iff_ne, ne_eq] at hc
      split <;> simp only [List.length_append, List.length_singleton] <;> omega
    · split <;> omega

end Litex.Packet
