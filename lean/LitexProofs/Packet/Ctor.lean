import LitexProofs.Packet.Arbiter
/-
  Arbiter / Dispatcher for EVERY port count, as the constructors build them (`arbiterCtor`, `dispatcherCtor`):
  no port (nothing connected), one port (plain `Endpoint.connect`), two or more (round robin / selector logic).
  The transfer logs are defined on the observable outputs of an arbitrary machine with the Arbiter's /
  Dispatcher's ports, so the same predicate is stated for all variants.
-/
namespace Litex.Packet
open Litex Litex.Stream

/-! ### Arbiter -/

/-- The beat handed to the slave in this cycle, tagged with the `grant` output. -/
def arbXferM (M : Machine ArbIn ArbState ArbOut) (s : ArbState) (i : ArbIn) : List (Nat × Beat) :=
  if (M.out s i).slave.valid && i.ready then [((M.out s i).grant, (M.out s i).slave)] else []

def arbLogM (M : Machine ArbIn ArbState ArbOut) (s : ArbState) : List ArbIn → List (Nat × Beat)
  | [] => []
  | i :: is => arbXferM M s i ++ arbLogM M (M.next s i) is

/-- Beats of master `k` accepted (its valid and its ready). -/
def arbAcceptedM (M : Machine ArbIn ArbState ArbOut) (k : Nat) (s : ArbState) : List ArbIn → List Beat
  | [] => []
  | i :: is =>
    (if (i.masters.getD k Beat.idle).valid && ((M.out s i).readys.getD k false)
      then [i.masters.getD k Beat.idle] else []) ++ arbAcceptedM M k (M.next s i) is

theorem arbLogM_arbiter (n : Nat) (ins : List ArbIn) :
    ∀ s, arbLogM (arbiter n) s ins = arbLog n s ins := by
  induction ins with
  | nil => intro s; rfl
  | cons i is ih => intro s; simp only [arbLogM, arbLog, ih]; rfl

theorem arbAcceptedM_arbiter (n k : Nat) (ins : List ArbIn) :
    ∀ s, arbAcceptedM (arbiter n) k s ins = arbAccepted n k s ins := by
  induction ins with
  | nil => intro s; rfl
  | cons i is ih => intro s; simp only [arbAcceptedM, arbAccepted, ih]

theorem arbLogM_empty (ins : List ArbIn) : ∀ s, arbLogM arbiterEmpty s ins = [] := by
  induction ins with
  | nil => intro s; rfl
  | cons i is ih =>
    intro s
    simp only [arbLogM]
    rw [ih]
    simp [arbXferM, arbiterEmpty, Beat.idle]

/-- One master: every transferred beat is master 0's current beat, tagged 0. -/
theorem arbLogM_connect (ins : List ArbIn) :
    ∀ s, arbLogM arbiterConnect s ins =
      (ins.filter fun i => (i.masters.getD 0 Beat.idle).valid && i.ready).map
        fun i => (0, i.masters.getD 0 Beat.idle) := by
  induction ins with
  | nil => intro s; rfl
  | cons i is ih =>
    intro s
    simp only [arbLogM, List.filter_cons]
    rw [ih]
    have e : arbXferM arbiterConnect s i =
        if ((i.masters.getD 0 Beat.idle).valid && i.ready) then [(0, i.masters.getD 0 Beat.idle)] else [] := rfl
    rw [e]
    cases ((i.masters.getD 0 Beat.idle).valid && i.ready) <;> simp

theorem atomicFrom_all_zero (l : List (Nat × Beat)) (h : ∀ x ∈ l, x.1 = 0) :
    ∀ owner, (∀ o, owner = some o → o = 0) → atomicFrom owner l := by
  induction l with
  | nil => intro _ _; trivial
  | cons x r ih =>
    intro owner ho
    obtain ⟨m, b⟩ := x
    have hm : m = 0 := h (m, b) (by simp)
    refine ⟨fun o hoo => by rw [hm, ho o hoo], ?_⟩
    apply ih (fun y hy => h y (by simp [hy]))
    intro o hoo
    split at hoo
    · cases hoo
    · cases hoo; exact hm

/-- **Arbiter, every port count**: the stream handed to the slave never interleaves packets. -/
theorem arbiterCtor_atomic (n : Nat) (ins : List ArbIn) :
    atomicFrom none (arbLogM (arbiterCtor n) (arbiterCtor n).init ins) := by
  match n with
  | 0 => simp only [arbiterCtor]; rw [arbLogM_empty]; trivial
  | 1 =>
    simp only [arbiterCtor]
    rw [arbLogM_connect]
    refine atomicFrom_all_zero _ ?_ none (by simp)
    intro x hx
    simp only [List.mem_map] at hx
    obtain ⟨i, _, rfl⟩ := hx
    rfl
  | n + 2 =>
    simp only [arbiterCtor]
    rw [arbLogM_arbiter]
    exact arbiter_atomic_from (n + 2) (by omega) ins _ none ⟨by simp [arbiter], by simp⟩

/-- **Arbiter, every port count**: per master nothing is lost, duplicated or reordered. -/
theorem arbiterCtor_lossless (n k : Nat) (hk : k < n) (ins : List ArbIn) :
    arbAcceptedM (arbiterCtor n) k (arbiterCtor n).init ins =
      ((arbLogM (arbiterCtor n) (arbiterCtor n).init ins).filter (fun x => x.1 == k)).map (fun x => x.2) := by
  match n with
  | 0 => omega
  | 1 =>
    have hk0 : k = 0 := by omega
    subst hk0
    simp only [arbiterCtor]
    rw [arbLogM_connect]
    generalize arbiterConnect.init = s
    induction ins generalizing s with
    | nil => rfl
    | cons i is ih =>
      simp only [arbAcceptedM, List.filter_cons]
      rw [ih]
      have e : (arbiterConnect.out s i).readys.getD 0 false = i.ready := rfl
      rw [e]
      cases ((i.masters.getD 0 Beat.idle).valid && i.ready) <;> simp
  | n + 2 =>
    simp only [arbiterCtor]
    rw [arbLogM_arbiter, arbAcceptedM_arbiter]
    exact arbiter_accepted_eq (n + 2) (by omega) k hk ins _ (by simp [arbiter])

/-- With a single master the slave port *is* the master port (beat and `ready` passed through unchanged in
    every cycle, `grant` constant 0). -/
theorem arbiter_one_is_wire (s : ArbState) (i : ArbIn) :
    ((arbiterCtor 1).out s i).slave = i.masters.getD 0 Beat.idle ∧
    ((arbiterCtor 1).out s i).readys = [i.ready] ∧ ((arbiterCtor 1).out s i).grant = 0 :=
  ⟨rfl, rfl, rfl⟩

/-! ### Dispatcher -/

/-- The slave that is shown a valid beat in this cycle (read off the slave ports, not the model's selector). -/
def dispDest (o : DispOut) : Option Nat :=
  (List.range o.slaves.length).find? fun k => (o.slaves.getD k Beat.idle).valid

/-- A beat transferred at the master in this cycle: (destination, `sel` input, the beat). -/
def dispXferM (M : Machine DispIn DispState DispOut) (s : DispState) (i : DispIn) :
    List (Option Nat × Nat × Beat) :=
  if i.master.valid && (M.out s i).ready then [(dispDest (M.out s i), i.sel, i.master)] else []

def dispLogM (M : Machine DispIn DispState DispOut) (s : DispState) :
    List DispIn → List (Option Nat × Nat × Beat)
  | [] => []
  | i :: is => dispXferM M s i ++ dispLogM M (M.next s i) is

/-- `routedFrom` for an arbitrary "slave addressed by `sel`" function. -/
def routedFromG (target : Nat → Option Nat) :
    Option (Option Nat) → List (Option Nat × Nat × Beat) → Prop
  | _, [] => True
  | cur, (dest, sel, b) :: r =>
    (match cur with
      | none => dest = target sel
      | some d => dest = d) ∧
    routedFromG target (if b.last then none else some dest) r

theorem routedFromG_dispTarget (m : Nat) (oneHot : Bool) (l : List (Option Nat × Nat × Beat)) :
    ∀ cur, routedFromG (dispTarget m oneHot) cur l ↔ routedFrom m oneHot cur l := by
  induction l with
  | nil => intro cur; simp [routedFromG, routedFrom]
  | cons x r ih =>
    intro cur; obtain ⟨d, sl, b⟩ := x
    simp only [routedFromG, routedFrom, ih]
    cases cur <;> exact Iff.rfl

theorem find?_congr' {α : Type} (l : List α) (p q : α → Bool) (h : ∀ x ∈ l, p x = q x) :
    l.find? p = l.find? q := by
  induction l with
  | nil => rfl
  | cons a r ih =>
    simp only [List.find?_cons, h a (by simp)]
    rw [ih (fun x hx => h x (by simp [hx]))]

/-- What the selector logic's slave ports show: slave `k` sees the beat iff its key matches. -/
theorem dispDest_dispatcher (m : Nat) (oneHot : Bool) (s : DispState) (i : DispIn)
    (hv : i.master.valid = true) :
    dispDest ((dispatcher m oneHot).out s i) = dispTarget m oneHot (dispSel s i) := by
  unfold dispDest dispTarget
  simp only [dispatcher, List.length_map, List.length_range]
  apply find?_congr'
  intro k hk
  have hk' : k < m := by simpa using hk
  simp only [List.getD_eq_getElem?_getD, List.getElem?_map, List.getElem?_range hk', Option.map_some,
    Option.getD_some]
  split
  · rename_i h; simp [h, hv]
  · rename_i h; simp [h, Beat.idle]

theorem dispLogM_dispatcher (m : Nat) (oneHot : Bool) (ins : List DispIn) :
    ∀ s, dispLogM (dispatcher m oneHot) s ins = dispLog m oneHot s ins := by
  induction ins with
  | nil => intro s; rfl
  | cons i is ih =>
    intro s
    simp only [dispLogM, dispLog, ih]
    congr 1
    simp only [dispXferM, dispXfer]
    have hr : ((dispatcher m oneHot).out s i).ready = dispReady m oneHot s i := rfl
    rw [hr]
    cases hv : i.master.valid
    · simp
    · simp only [Bool.true_and]
      rw [dispDest_dispatcher m oneHot s i hv]

theorem dispLogM_empty (ins : List DispIn) : ∀ s, dispLogM dispatcherEmpty s ins = [] := by
  induction ins with
  | nil => intro s; rfl
  | cons i is ih =>
    intro s
    simp only [dispLogM]
    rw [ih]
    simp [dispXferM, dispatcherEmpty]

/-- One slave without `one_hot`: every beat goes to slave 0. -/
theorem dispLogM_connect (ins : List DispIn) :
    ∀ s, ∀ x ∈ dispLogM dispatcherConnect s ins, x.1 = some 0 := by
  induction ins with
  | nil => intro s x hx; simp [dispLogM] at hx
  | cons i is ih =>
    intro s x hx
    simp only [dispLogM, List.mem_append] at hx
    rcases hx with hx | hx
    · simp only [dispXferM] at hx
      split at hx
      · rename_i h
        simp only [Bool.and_eq_true] at h
        simp only [List.mem_singleton] at hx
        subst hx
        simp [dispDest, dispatcherConnect, List.range_succ, h.1]
      · simp at hx
    · exact ih _ x hx

theorem routedFromG_const (d : Option Nat) (l : List (Option Nat × Nat × Beat)) (h : ∀ x ∈ l, x.1 = d) :
    ∀ cur, (∀ c, cur = some c → c = d) → routedFromG (fun _ => d) cur l := by
  induction l with
  | nil => intro _ _; trivial
  | cons x r ih =>
    intro cur hc
    obtain ⟨dest, sl, b⟩ := x
    have hd : dest = d := h (dest, sl, b) (by simp)
    refine ⟨?_, ?_⟩
    · cases cur with
      | none => exact hd
      | some c => simp only; rw [hd, hc c rfl]
    · apply ih (fun y hy => h y (by simp [hy]))
      intro c hcc
      split at hcc
      · cases hcc
      · cases hcc; exact hd

/-- The slave a selector value addresses in the machine the constructor builds. -/
def ctorTarget (m : Nat) (oneHot : Bool) (sel : Nat) : Option Nat :=
  match m, oneHot with
  | 0, _ => none
  | 1, false => some 0
  | m, oh => dispTarget m oh sel

/-- **Dispatcher, every port count, binary and one-hot selector**: the destination of a packet is fixed by the
    first transferred beat (the slave `sel` addresses in that cycle; the only slave for the plain connection) and
    does not change until `last`. -/
theorem dispatcherCtor_atomic (m : Nat) (oneHot : Bool) (ins : List DispIn) :
    routedFromG (ctorTarget m oneHot) none
      (dispLogM (dispatcherCtor m oneHot) (dispatcherCtor m oneHot).init ins) := by
  have gen : routedFromG (dispTarget m oneHot) none
      (dispLogM (dispatcher m oneHot) (dispatcher m oneHot).init ins) := by
    rw [dispLogM_dispatcher, routedFromG_dispTarget]
    exact dispatcher_atomic_from m oneHot ins _ none (by simp [dispInv, dispatcher])
  match m, oneHot with
  | 0, oh =>
    have : dispatcherCtor 0 oh = dispatcherEmpty := by cases oh <;> rfl
    rw [this, dispLogM_empty]; trivial
  | 1, false =>
    show routedFromG (fun _ => some 0) none (dispLogM dispatcherConnect dispatcherConnect.init ins)
    exact routedFromG_const (some 0) _ (dispLogM_connect ins _) none (by simp)
  | 1, true => exact gen
  | m + 2, oh =>
    have h1 : dispatcherCtor (m + 2) oh = dispatcher (m + 2) oh := by cases oh <;> rfl
    have h2 : ctorTarget (m + 2) oh = dispTarget (m + 2) oh := by cases oh <;> rfl
    rw [h1, h2]; exact gen

/-- Without slaves nothing is ever transferred: `master.ready` stays low. -/
theorem dispatcher_zero_dead (oh : Bool) (ins : List DispIn) (s : DispState) (i : DispIn) :
    ((dispatcherCtor 0 oh).out s i).ready = false ∧
    dispLogM (dispatcherCtor 0 oh) (dispatcherCtor 0 oh).init ins = [] := by
  have : dispatcherCtor 0 oh = dispatcherEmpty := by cases oh <;> rfl
  rw [this, dispLogM_empty]; exact ⟨rfl, rfl⟩

/-- With one slave and no `one_hot` the slave port *is* the master port. -/
theorem dispatcher_one_is_wire (s : DispState) (i : DispIn) :
    ((dispatcherCtor 1 false).out s i).slaves = [i.master] ∧
    ((dispatcherCtor 1 false).out s i).ready = i.readys.getD 0 false :=
  ⟨rfl, rfl⟩

end Litex.Packet
