import LitexProofs.Packet.UnalignedStep
import LitexProofs.Packet.Depacketizer
/-
  Depacketizer, header not a multiple of the data width: de-framing specification and step lemma.
-/
namespace Litex.Packet
open Litex Litex.Stream Litex.Stream.Elem

/-- De-framing state of the unaligned Depacketizer (specification side). -/
inductive UDSt where
  | hdr (k : Nat) (h : Nat)        -- `k < W` header words collected into `h`
  | res (h : Nat)                  -- all `W` words collected, the residue beat is next
  | pay (h : Nat) (prev : Nat)     -- inside the payload; `prev` = previous sink beat
deriving DecidableEq, Repr

/-- What the source shows for the sink beat `x` following `prev`: the top `B − L` bytes of `prev` below the low
    `L` bytes of `x`. -/
def dbeat (c : PkCfg) (prev x : Nat) : Nat :=
  (prev / 2 ^ (8 * c.L)) % 2 ^ ((c.B - c.L) * 8) + 2 ^ ((c.B - c.L) * 8) * (x % 2 ^ (c.dw - (c.B - c.L) * 8))

def udStep (c : PkCfg) (st : UDSt) (t : Tok Nat) : UDSt × List (Tok HBeat) :=
  let x := t.data % 2 ^ c.dw
  match st with
  | .hdr k h =>
    let h' := h + x * 2 ^ (k * c.dw)
    (if k + 1 = c.W then .res h' else .hdr (k + 1) h', [])
  | .res h => (.pay (h + (x % 2 ^ (8 * c.L)) * 2 ^ (c.W * c.dw)) x, [])
  | .pay h prev =>
    (if t.last then .hdr 0 0 else .pay h x,
     [{ data := { data := dbeat c prev x, hdr := h }, first := false, last := t.last }])

def deframeUAux (c : PkCfg) : UDSt → List (Tok Nat) → List (Tok HBeat)
  | _, [] => []
  | st, t :: r => (udStep c st t).2 ++ deframeUAux c (udStep c st t).1 r

def deframeU (c : PkCfg) (a : List (Tok Nat)) : List (Tok HBeat) := deframeUAux c (.hdr 0 0) a

def udEnd (c : PkCfg) : UDSt → List (Tok Nat) → UDSt
  | st, [] => st
  | st, t :: r => udEnd c (udStep c st t).1 r

theorem deframeUAux_append (c : PkCfg) (a : List (Tok Nat)) (t : Tok Nat) :
    ∀ st, deframeUAux c st (a ++ [t]) = deframeUAux c st a ++ (udStep c (udEnd c st a) t).2 := by
  induction a with
  | nil => intro st; simp [deframeUAux, udEnd]
  | cons x r ih => intro st; simp [deframeUAux, udEnd, ih]

theorem udEnd_append (c : PkCfg) (a : List (Tok Nat)) (t : Tok Nat) :
    ∀ st, udEnd c st (a ++ [t]) = (udStep c (udEnd c st a) t).1 := by
  induction a with
  | nil => intro st; simp [udEnd]
  | cons x r ih => intro st; simp [udEnd, ih]

/-- The input is well formed for the unaligned Depacketizer: no `last` on a header beat or on the residue beat
    (every packet has at least `W + 2` beats; excludes finding C16-depacketizer-residue-end). -/
def udWellFormed (c : PkCfg) : UDSt → List (Tok Nat) → Prop
  | _, [] => True
  | st, t :: r =>
    (match st with
      | .pay _ _ => True
      | _ => t.last = false) ∧ udWellFormed c (udStep c st t).1 r

theorem udWellFormed_append (c : PkCfg) (a : List (Tok Nat)) (t : Tok Nat) :
    ∀ st, udWellFormed c st (a ++ [t]) →
      udWellFormed c st a ∧ (match udEnd c st a with | .pay _ _ => True | _ => t.last = false) := by
  induction a with
  | nil => intro st h; simpa [udWellFormed, udEnd] using h.1
  | cons x r ih =>
    intro st h
    simp only [List.cons_append, udWellFormed] at h
    obtain ⟨h1, h2⟩ := ih _ h.2
    exact ⟨⟨h.1, h1⟩, by simpa [udEnd] using h2⟩

/-- History relation of the unaligned Depacketizer. -/
def udRel (c : PkCfg) (s : PkState) (a : List (Tok Nat)) (d : List (Tok HBeat)) : Prop :=
  d = deframeU c a ∧ s.sr < 2 ^ c.hw ∧
  match s.st with
  | .idle => udEnd c (.hdr 0 0) a = .hdr 0 0
  | .hdr => ∃ h, udEnd c (.hdr 0 0) a = .hdr s.count h ∧ 1 ≤ s.count ∧ s.count < c.W ∧
      s.sr / 2 ^ (c.hw - s.count * c.dw) = h ∧ s.dLast = false ∧ s.fromIdle = true
  | .ucopy =>
    (s.fromIdle = true ∧ s.dLast = false ∧ ∃ h, udEnd c (.hdr 0 0) a = .res h ∧ s.sr / 2 ^ (8 * c.L) = h) ∨
    (s.fromIdle = false ∧ s.dLast = false ∧ udEnd c (.hdr 0 0) a = .pay s.sr s.dData)
  | .acopy => False

/-- The residue shift: the low `L` bytes of the sink beat complete the header. -/
theorem shift_left_eq (n m h x : Nat) (hh : h < 2 ^ n) :
    (h + x * 2 ^ n) % 2 ^ (n + m) = h + (x % 2 ^ m) * 2 ^ n := by
  rw [Nat.pow_add, Nat.mod_mul, Nat.add_mul_mod_self_right, Nat.mod_eq_of_lt hh,
    Nat.add_mul_div_right _ _ (Nat.two_pow_pos n), Nat.div_eq_of_lt hh, Nat.zero_add, Nat.mul_comm]

theorem dpUData_eq (c : PkCfg) (hc : UnalignedCfg c) (st : PkSt) (sr cnt dd : Nat) (fi dl : Bool) (x : Nat) :
    c.dpUData { st := st, sr := sr, count := cnt, fromIdle := fi, dData := dd, dLast := dl } x =
      dbeat c dd x := by
  simp [PkCfg.dpUData, min_bl c hc, dbeat]

theorem udepacketizer_step (c : PkCfg) (hc : UnalignedCfg c) (s : PkState)
    (a : List (Tok Nat)) (d : List (Tok HBeat)) (i : In Nat) (h : udRel c s a d)
    (hwf : ∀ t ∈ (depacketizer c).accNow s i,
      match udEnd c (.hdr 0 0) a with | .pay _ _ => True | _ => t.last = false) :
    udRel c ((depacketizer c).step s i) (a ++ (depacketizer c).accNow s i)
      (d ++ (depacketizer c).delNow s i) := by
  obtain ⟨st, sr, cnt, fi, dd, dl⟩ := s
  obtain ⟨iv, it, ir⟩ := i
  have hal := hc.aligned_eq
  have hcp := hc.copy_eq
  have hW := hc.W_pos
  have hLp := hc.L_pos
  have hhw := hc.hw_eq
  obtain ⟨hd, hsr, hst⟩ := h
  simp only at hsr
  subst hd
  have hdlt : it.data % 2 ^ c.dw < 2 ^ c.dw := Nat.mod_lt _ (Nat.two_pow_pos _)
  have hL0 : ¬ c.L = 0 := by omega
  cases st with
  | idle =>
    simp only at hst
    cases iv with
    | false =>
      simp [udRel, Elem.step, Elem.accNow, Elem.delNow, Elem.out, depacketizer, hal, hst, hsr]
    | true =>
      have hl : it.last = false := by
        have := hwf it (by simp [Elem.accNow, Elem.out, depacketizer])
        rw [hst] at this; exact this
      have hdf : deframeU c (a ++ [it]) = deframeU c a := by
        unfold deframeU; rw [deframeUAux_append, hst]; simp [udStep]
      have hds := udEnd_append c a it (.hdr 0 0)
      rw [hst] at hds
      simp only [udStep, Nat.zero_add, Nat.zero_mul, Nat.pow_zero, Nat.mul_one] at hds
      obtain ⟨m, hm⟩ : ∃ m, c.hw = m + (0 + 1) * c.dw := ⟨c.hw - c.dw, by
        have : 1 * c.dw ≤ c.W * c.dw := Nat.mul_le_mul_right _ hW
        omega⟩
      have hsi := dp_shift_inv c.hw c.dw 0 m sr 0 (it.data % 2 ^ c.dw) hm hsr (by
        have : m + c.dw = c.hw := by omega
        rw [this]; exact Nat.div_eq_of_lt hsr) hdlt
      simp only [Nat.zero_mul, Nat.add_zero, Nat.pow_zero, Nat.mul_one, Nat.zero_add] at hsi
      have hm' : c.hw - c.dw = m := by omega
      by_cases hw1 : c.W = 1
      · have hm8 : m = 8 * c.L := by rw [hw1] at hhw; omega
        subst hm8
        simp [udRel, Elem.step, Elem.accNow, Elem.delNow, Elem.out, depacketizer, hal, hdf, hw1, hL0, hcp,
          PkCfg.dpShift, hds, hm', Nat.mod_eq_of_lt hsi.1, hsi.1, hsi.2, hl]
      · have h1w : 1 < c.W := by omega
        simp [udRel, Elem.step, Elem.accNow, Elem.delNow, Elem.out, depacketizer, hal, hdf, hw1, hL0,
          PkCfg.dpShift, hds, hm', Nat.mod_eq_of_lt hsi.1, hsi.1, hsi.2, h1w, hl]
        omega
  | hdr =>
    simp only at hst
    obtain ⟨h, hdf0, hc1, hc2, hh, hdl, hfi⟩ := hst
    subst hdl hfi
    cases iv with
    | false =>
      simp [udRel, Elem.step, Elem.accNow, Elem.delNow, Elem.out, depacketizer, hal, hsr, hdf0, hc1, hc2, hh]
    | true =>
      have hl : it.last = false := by
        have := hwf it (by simp [Elem.accNow, Elem.out, depacketizer])
        rw [hdf0] at this; exact this
      have hdf : deframeU c (a ++ [it]) = deframeU c a := by
        unfold deframeU; rw [deframeUAux_append, hdf0]; simp [udStep]
      have hds := udEnd_append c a it (.hdr 0 0)
      rw [hdf0] at hds
      simp only [udStep] at hds
      have hw1 : c.W ≠ 1 := by omega
      obtain ⟨m, hm⟩ : ∃ m, c.hw = m + (cnt + 1) * c.dw := ⟨c.hw - (cnt + 1) * c.dw, by
        have : (cnt + 1) * c.dw ≤ c.W * c.dw := Nat.mul_le_mul_right _ hc2
        omega⟩
      have hsm : (cnt + 1) * c.dw = cnt * c.dw + c.dw := Nat.succ_mul ..
      have hsi := dp_shift_inv c.hw c.dw cnt m sr h (it.data % 2 ^ c.dw) hm hsr (by
        have : m + c.dw = c.hw - cnt * c.dw := by omega
        rw [this]; exact hh) hdlt
      have hm' : c.hw - c.dw = m + cnt * c.dw := by omega
      have hcm := W_le_cntMod c
      by_cases hlast : cnt + 1 = c.W
      · have hm8 : m = 8 * c.L := by rw [← hlast] at hhw; omega
        subst hm8
        simp [udRel, Elem.step, Elem.accNow, Elem.delNow, Elem.out, depacketizer, hal, hdf, hw1, hcp,
          PkCfg.dpShift, hds, hm', Nat.mod_eq_of_lt hsi.1, hsi.1, hsi.2, hlast, hl]
      · have hmod : (cnt + 1) % c.cntMod = cnt + 1 := Nat.mod_eq_of_lt (by omega)
        have hm2 : c.hw - (cnt + 1) * c.dw = m := by omega
        simp [udRel, Elem.step, Elem.accNow, Elem.delNow, Elem.out, depacketizer, hal, hdf, hw1,
          PkCfg.dpShift, hds, hm', Nat.mod_eq_of_lt hsi.1, hsi.1, hsi.2, hlast, hmod, hm2, hl]
        omega
  | ucopy =>
    simp only at hst
    rcases hst with ⟨hfi, hdl, h, hdf0, hh⟩ | ⟨hfi, hdl, hdf0⟩
    · subst hfi hdl
      cases iv with
      | false =>
        simp [udRel, Elem.step, Elem.accNow, Elem.delNow, Elem.out, depacketizer, hal, hsr, hdf0, hh]
      | true =>
        have hl : it.last = false := by
          have := hwf it (by simp [Elem.accNow, Elem.out, depacketizer])
          rw [hdf0] at this; exact this
        have hdf : deframeU c (a ++ [it]) = deframeU c a := by
          unfold deframeU; rw [deframeUAux_append, hdf0]; simp [udStep]
        have hds := udEnd_append c a it (.hdr 0 0)
        rw [hdf0] at hds
        simp only [udStep] at hds
        have hhlt : h < 2 ^ (c.W * c.dw) := by
          rw [← hh]
          apply Nat.div_lt_of_lt_mul
          rw [← Nat.pow_add, Nat.add_comm, ← hhw]; exact hsr
        have hsl := shift_left_eq (c.W * c.dw) (8 * c.L) h (it.data % 2 ^ c.dw) hhlt
        rw [← hhw] at hsl
        have hm' : c.hw - 8 * c.L = c.W * c.dw := by omega
        simp [udRel, Elem.step, Elem.accNow, Elem.delNow, Elem.out, depacketizer, hal, hdf, hds, hl,
          PkCfg.dpShiftLeft, hh, hm', hsl]
        rw [← hsl]; exact Nat.mod_lt _ (Nat.two_pow_pos c.hw)
    · subst hfi hdl
      have hdf : deframeU c (a ++ [it]) = deframeU c a ++
          [{ data := { data := dbeat c dd (it.data % 2 ^ c.dw), hdr := sr }, first := false, last := it.last }] := by
        unfold deframeU; rw [deframeUAux_append, hdf0]; simp [udStep]
      have hds := udEnd_append c a it (.hdr 0 0)
      rw [hdf0] at hds
      simp only [udStep] at hds
      cases iv with
      | false =>
        simp [udRel, Elem.step, Elem.accNow, Elem.delNow, Elem.out, depacketizer, hal, hsr, hdf0]
      | true =>
        cases ir with
        | false =>
          simp [udRel, Elem.step, Elem.accNow, Elem.delNow, Elem.out, depacketizer, hal, hsr, hdf0]
        | true =>
          cases hl : it.last with
          | false =>
            simp [udRel, Elem.step, Elem.accNow, Elem.delNow, Elem.out, depacketizer, hal, hsr, hdf, hds, hl,
              dpUData_eq c hc]
          | true =>
            simp [udRel, Elem.step, Elem.accNow, Elem.delNow, Elem.out, depacketizer, hal, hsr, hdf, hds, hl,
              dpUData_eq c hc]
  | acopy => simp at hst

end Litex.Packet
