import LitexModel.Packet.Packetizer
/-
  Packet framing: specification functions (`frame`, `deframe`, `annot`), the producer contract as a predicate
  on input sequences, and the induction principle for history relations under that contract.
-/
namespace Litex.Packet
open Litex Litex.Stream Litex.Stream.Elem

/-! ### The producer contract -/

section contract
variable {α β σ : Type}

/-- What the producer is obliged to offer in the next cycle: the token it offered and that was not accepted. -/
def pendNext (e : Elem α β σ) (s : σ) (i : In α) : Option (Tok α) :=
  if i.valid && !(e.out s i).ready then some i.tok else none

/-- The input sequence obeys the stream contract on the sink side: a token offered and not accepted is offered
    again, unchanged, in the next cycle.  Nothing is required of the lines while `valid = 0`, of `source.ready`,
    or of when the producer starts offering. -/
def Compliant (e : Elem α β σ) : σ → Option (Tok α) → List (In α) → Prop
  | _, _, [] => True
  | s, pend, i :: is =>
    (∀ t, pend = some t → i.valid = true ∧ i.tok = t) ∧ Compliant e (e.step s i) (pendNext e s i) is

/-- The obligation left after running `ins`. -/
def pendRun (e : Elem α β σ) : σ → Option (Tok α) → List (In α) → Option (Tok α)
  | _, pend, [] => pend
  | s, _, i :: is => pendRun e (e.step s i) (pendNext e s i) is

/-- History-relation induction under the producer contract. -/
theorem rel_run_compliant (e : Elem α β σ)
    (R : σ → Option (Tok α) → List (Tok α) → List (Tok β) → Prop)
    (hstep : ∀ s p a d i, R s p a d → (∀ t, p = some t → i.valid = true ∧ i.tok = t) →
      R (e.step s i) (pendNext e s i) (a ++ e.accNow s i) (d ++ e.delNow s i)) :
    ∀ (ins : List (In α)) (s : σ) (p : Option (Tok α)) (a : List (Tok α)) (d : List (Tok β)),
      R s p a d → Compliant e s p ins →
      R (e.runFrom s ins) (pendRun e s p ins) (a ++ e.accepted s ins) (d ++ e.delivered s ins) := by
  intro ins
  induction ins with
  | nil => intro s p a d h _; simpa [accepted, delivered, pendRun] using h
  | cons i is ih =>
    intro s p a d h hc
    obtain ⟨hc1, hc2⟩ := hc
    have := ih (e.step s i) _ _ _ (hstep s p a d i h hc1) hc2
    simpa [accepted, delivered, pendRun, List.append_assoc] using this

/-- Executable form of `Compliant` (for concrete examples). -/
def compliantB [DecidableEq α] (e : Elem α β σ) : σ → Option (Tok α) → List (In α) → Bool
  | _, _, [] => true
  | s, pend, i :: is =>
    (match pend with
      | none => true
      | some t => i.valid && decide (i.tok = t)) && compliantB e (e.step s i) (pendNext e s i) is

theorem compliant_of_B [DecidableEq α] (e : Elem α β σ) (ins : List (In α)) :
    ∀ s p, compliantB e s p ins = true → Compliant e s p ins := by
  induction ins with
  | nil => intro s p _; trivial
  | cons i is ih =>
    intro s p h
    simp only [compliantB, Bool.and_eq_true] at h
    refine ⟨?_, ih _ _ h.2⟩
    intro t ht
    subst ht
    simpa using h.1

end contract

/-! ### Framing specification -/

/-- Header word `k` (a `dw`-bit slice of the header signal). -/
def hdrWord (c : PkCfg) (h k : Nat) : Tok Nat :=
  { data := slice (k * c.dw) c.dw h, first := false, last := false }

/-- The `W` header beats of a packet with header signal `h`. -/
def hdrWords (c : PkCfg) (h : Nat) : List (Tok Nat) := (List.range c.W).map (hdrWord c h)

/-- What the payload beat `t` looks like on the framed stream. -/
def payBeat (c : PkCfg) (t : Tok HBeat) : Tok Nat :=
  { data := t.data.data % 2 ^ c.dw, first := false, last := t.last }

/-- Framing (aligned header): every packet (a run of beats ending with `last`) is preceded by the header words
    of the header presented with its first beat.  `st` = the next beat starts a packet. -/
def frameAux (c : PkCfg) : Bool → List (Tok HBeat) → List (Tok Nat)
  | _, [] => []
  | st, t :: r =>
    (if st then hdrWords c (t.data.hdr % 2 ^ c.hw) else []) ++ payBeat c t :: frameAux c t.last r

def frame (c : PkCfg) (a : List (Tok HBeat)) : List (Tok Nat) := frameAux c true a

/-- Whether the beat following `a` starts a packet. -/
def endSt : Bool → List (Tok HBeat) → Bool
  | st, [] => st
  | _, t :: r => endSt t.last r

theorem frameAux_append (c : PkCfg) (a : List (Tok HBeat)) (t : Tok HBeat) :
    ∀ st, frameAux c st (a ++ [t]) =
      frameAux c st a ++ ((if endSt st a then hdrWords c (t.data.hdr % 2 ^ c.hw) else []) ++ [payBeat c t]) := by
  induction a with
  | nil => intro st; simp [frameAux, endSt]; rfl
  | cons x r ih => intro st; simp [frameAux, endSt, ih]; rfl

theorem endSt_append (a : List (Tok HBeat)) (t : Tok HBeat) : ∀ st, endSt st (a ++ [t]) = t.last := by
  induction a with
  | nil => intro st; simp [endSt]
  | cons x r ih => intro st; simp [endSt, ih]

end Litex.Packet
