import LitexModel.Packet.FifoAll
import LitexProofs.Packet.Fifo
import LitexProofs.Packet.FifoQueue
/-
  PacketFIFO over queues of every kind (`packetFifoK` / `packetFifoAll`): history relation and step lemma,
  derived only from the per-queue abstraction lemmas of `FifoQueue.lean`.
-/
namespace Litex.Packet
open Litex.Stream Litex.Stream.Elem

/-- The queue pairings in which a readable param queue implies a readable payload queue (there the term
    `& payload.source.valid` of `source.valid` changes nothing).  Excluded: a `SyncFIFOBuffered` payload queue (readable two edges after the write) next to a
    param queue that is readable one edge after the write (`PipeValid`, fwft FIFO). -/
def kindsOk (kp kq : QKind) : Prop := kp ≠ .bfifo ∨ kq = .bfifo ∨ kq = .never

instance (kp kq : QKind) : Decidable (kindsOk kp kq) := by unfold kindsOk; infer_instance

/-- The history relation (same shape as `pfRel` / `pfbRel`): the queues hold exactly the accepted, not yet
    delivered beats `a2`, for the pairings `kindsOk` a readable param queue implies a readable payload queue,
    and whatever is accepted in the
    future (`ext`), the specification for everything accepted is what has been delivered followed by the
    specification for `a2 ++ ext`. -/
def pfaRel (kp kq : QKind) (s : PFAState) (a d : List (Tok PBeat)) : Prop :=
  ∃ a2, s.pay.stored kp = a2.map payOf ∧ s.par.stored kq = paramsOf a2 ∧
    (kindsOk kp kq → s.par.readable kq = true → s.pay.readable kp = true) ∧
    ∀ ext, annT (a ++ ext) = d ++ annT (a2 ++ ext)

/-- `source.valid`. -/
def pfaSv (kp kq : QKind) (s : PFAState) : Bool := s.par.readable kq && s.pay.readable kp
/-- `payload.source.ready`. -/
def pfaRePay (kp kq : QKind) (s : PFAState) (r : Bool) : Bool := pfaSv kp kq s && r
/-- `param.source.ready`. -/
def pfaRePar (kp kq : QKind) (s : PFAState) (r : Bool) : Bool := pfaSv kp kq s && (s.pay.dout kp).2 && r
/-- `payload.sink.ready`. -/
def pfaWp (kp kq : QKind) (pd : Nat) (s : PFAState) (r : Bool) : Bool := s.pay.writable kp pd (pfaRePay kp kq s r)
/-- `param.sink.ready`. -/
def pfaWq (kp kq : QKind) (qd : Nat) (s : PFAState) (r : Bool) : Bool := s.par.writable kq qd (pfaRePar kp kq s r)

theorem pfa_step_pay (kp kq : QKind) (pd qd : Nat) (s : PFAState) (i : In PBeat) :
    ((packetFifoK kp kq pd qd).step s i).pay =
      s.pay.next kp pd (i.valid && pfaWq kp kq qd s i.ready) (payOf i.tok) (pfaRePay kp kq s i.ready) := rfl

theorem pfa_step_par (kp kq : QKind) (pd qd : Nat) (s : PFAState) (i : In PBeat) :
    ((packetFifoK kp kq pd qd).step s i).par =
      s.par.next kq qd (i.valid && i.tok.last && pfaWp kp kq pd s i.ready) i.tok.data.param
        (pfaRePar kp kq s i.ready) := rfl

theorem pfa_accNow (kp kq : QKind) (pd qd : Nat) (s : PFAState) (i : In PBeat) :
    (packetFifoK kp kq pd qd).accNow s i =
      if (i.valid && (pfaWp kp kq pd s i.ready && pfaWq kp kq qd s i.ready)) then [i.tok] else [] := rfl

theorem pfa_delNow (kp kq : QKind) (pd qd : Nat) (s : PFAState) (i : In PBeat) :
    (packetFifoK kp kq pd qd).delNow s i =
      if (pfaSv kp kq s && i.ready) then
        [{ data := { data := (s.pay.dout kp).1, param := s.par.dout kq }, first := false,
           last := (s.pay.dout kp).2 }]
      else [] := rfl

theorem pfa_out_ready (kp kq : QKind) (pd qd : Nat) (s : PFAState) (i : In PBeat) :
    ((packetFifoK kp kq pd qd).out s i).ready = (pfaWp kp kq pd s i.ready && pfaWq kp kq qd s i.ready) := rfl

theorem pfa_out_valid (kp kq : QKind) (pd qd : Nat) (s : PFAState) (i : In PBeat) :
    ((packetFifoK kp kq pd qd).out s i).valid = pfaSv kp kq s := rfl

theorem paramsOf_ne_nil' {l : List (Tok PBeat)} (h : paramsOf l ≠ []) : l ≠ [] := by
  intro hl; subst hl; exact h rfl

/-- The delivery half of a cycle on the level of the stored lists. -/
theorem pfa_del_half (a d a2 : List (Tok PBeat)) (hext : ∀ ext, annT (a ++ ext) = d ++ annT (a2 ++ ext))
    (pop : Bool) (x : Nat × Bool) (p : Nat)
    (hx : pop = true → a2.map payOf = x :: (a2.map payOf).tail)
    (hp : pop = true → paramsOf a2 = p :: (paramsOf a2).tail) :
    ∃ a3, (if pop then (a2.map payOf).tail else a2.map payOf) = a3.map payOf ∧
      (if (pop && x.2) then (paramsOf a2).tail else paramsOf a2) = paramsOf a3 ∧
      ∀ ext, annT (a ++ ext) =
        (d ++ (if pop then [{ data := { data := x.1, param := p }, first := false, last := x.2 }] else []))
          ++ annT (a3 ++ ext) := by
  cases pop with
  | false => exact ⟨a2, by simp, by simp, by simpa using hext⟩
  | true =>
    cases a2 with
    | nil => simp at hx
    | cons t rest =>
      have hx' := hx rfl
      have hp' := hp rfl
      simp only [List.map_cons, List.tail_cons, List.cons.injEq, and_true] at hx'
      subst hx'
      refine ⟨rest, by simp, ?_, ?_⟩
      · by_cases hl : t.last <;> simp [payOf, paramsOf, hl]
      · intro ext
        have hn := nextParam_of_paramsOf (t :: rest) ext p _ hp'
        rw [hext ext]
        simp only [List.cons_append] at hn
        simp [annT, hn, payOf]

theorem packetFifoK_step (kp kq : QKind) (pd qd : Nat) (s : PFAState)
    (a d : List (Tok PBeat)) (i : In PBeat) (h : pfaRel kp kq s a d) :
    pfaRel kp kq ((packetFifoK kp kq pd qd).step s i) (a ++ (packetFifoK kp kq pd qd).accNow s i)
      (d ++ (packetFifoK kp kq pd qd).delNow s i) := by
  obtain ⟨a2, hpay, hpar, hinv, hext⟩ := h
  -- the read side
  have hpopPay : s.pay.popped kp (pfaRePay kp kq s i.ready) =
      if (pfaSv kp kq s && i.ready) then (a2.map payOf).tail else a2.map payOf := by
    unfold QSt.popped pfaRePay pfaSv
    rw [hpay]
    cases s.par.readable kq <;> cases s.pay.readable kp <;> cases i.ready <;> rfl
  have hpopPar : s.par.popped kq (pfaRePar kp kq s i.ready) =
      if ((pfaSv kp kq s && i.ready) && (s.pay.dout kp).2) then (paramsOf a2).tail else paramsOf a2 := by
    unfold QSt.popped pfaRePar pfaSv
    rw [hpar]
    cases s.par.readable kq <;> cases s.pay.readable kp <;> cases i.ready <;> cases (s.pay.dout kp).2 <;> rfl
  obtain ⟨a3, h1, h2, h3⟩ := pfa_del_half a d a2 hext (pfaSv kp kq s && i.ready) (s.pay.dout kp)
    (s.par.dout kq)
    (fun hpop => by
      simp only [pfaSv, Bool.and_eq_true] at hpop
      rw [← hpay]; exact QSt.stored_readable kp s.pay hpop.1.2)
    (fun hpop => by
      simp only [pfaSv, Bool.and_eq_true] at hpop
      rw [← hpar]; exact QSt.stored_readable kq s.par hpop.1.1)
  rw [← hpopPay] at h1
  rw [← hpopPar] at h2
  rw [← pfa_delNow kp kq pd qd s i] at h3
  -- the write side
  have epay : (i.valid && pfaWq kp kq qd s i.ready && s.pay.writable kp pd (pfaRePay kp kq s i.ready))
      = (i.valid && (pfaWp kp kq pd s i.ready && pfaWq kp kq qd s i.ready)) := by
    unfold pfaWp
    cases i.valid <;> cases pfaWq kp kq qd s i.ready <;> cases s.pay.writable kp pd (pfaRePay kp kq s i.ready) <;> rfl
  have epar : (i.valid && i.tok.last && pfaWp kp kq pd s i.ready &&
        s.par.writable kq qd (pfaRePar kp kq s i.ready))
      = (i.valid && (pfaWp kp kq pd s i.ready && pfaWq kp kq qd s i.ready) && i.tok.last) := by
    unfold pfaWq
    cases i.valid <;> cases i.tok.last <;> cases pfaWp kp kq pd s i.ready <;>
      cases s.par.writable kq qd (pfaRePar kp kq s i.ready) <;> rfl
  have hpay' := QSt.stored_next kp pd s.pay (i.valid && pfaWq kp kq qd s i.ready) (payOf i.tok)
    (pfaRePay kp kq s i.ready)
  have hpar' := QSt.stored_next kq qd s.par (i.valid && i.tok.last && pfaWp kp kq pd s i.ready)
    i.tok.data.param (pfaRePar kp kq s i.ready)
  rw [← pfa_step_pay kp kq pd qd s i, epay, h1] at hpay'
  rw [← pfa_step_par kp kq pd qd s i, epar, h2] at hpar'
  rw [pfa_accNow]
  generalize (packetFifoK kp kq pd qd).delNow s i = D at h3 ⊢
  -- the list the new state stores
  have hrel : ∃ a2', ((packetFifoK kp kq pd qd).step s i).pay.stored kp = a2'.map payOf ∧
      ((packetFifoK kp kq pd qd).step s i).par.stored kq = paramsOf a2' ∧
      (∃ m, a2' = a3 ++ m) ∧
      ∀ ext, annT ((a ++ if (i.valid && (pfaWp kp kq pd s i.ready && pfaWq kp kq qd s i.ready)) then [i.tok]
        else []) ++ ext) = (d ++ D) ++ annT (a2' ++ ext) := by
    cases hacc : (i.valid && (pfaWp kp kq pd s i.ready && pfaWq kp kq qd s i.ready))
    · rw [hacc] at hpay' hpar'
      refine ⟨a3, by simpa using hpay', by simpa using hpar', ⟨[], by simp⟩, ?_⟩
      intro ext; simpa using h3 ext
    · rw [hacc] at hpay' hpar'
      refine ⟨a3 ++ [i.tok], by simpa using hpay', ?_, ⟨[i.tok], rfl⟩, ?_⟩
      · rw [hpar']
        by_cases hl : i.tok.last <;> simp [hl, paramsOf_append, paramsOf]
      · intro ext
        simpa [List.append_assoc] using h3 ([i.tok] ++ ext)
  obtain ⟨a2', hp1, hp2, ⟨m, hm⟩, hp3⟩ := hrel
  refine ⟨a2', hp1, hp2, ?_, hp3⟩
  -- a readable param queue implies a readable payload queue
  intro hk hv
  have hne : a2' ≠ [] := paramsOf_ne_nil' (by rw [← hp2]; exact QSt.stored_ne_nil_of_readable kq _ hv)
  by_cases hkp : kp = .bfifo
  · rcases hk with hk | hk | hk
    · exact absurd hkp hk
    · subst hkp hk
      rw [pfa_step_pay, QSt.readable_next_bfifo, h1]
      rw [pfa_step_par, QSt.readable_next_bfifo, h2] at hv
      have : a3 ≠ [] := paramsOf_ne_nil' (by simpa using hv)
      simpa using this
    · subst hk
      simp [QSt.readable] at hv
  · rw [QSt.readable_prompt kp hkp, hp1]
    simpa using hne

end Litex.Packet
