import LitexProofs.Packet.UnalignedDepack
import LitexProofs.Packet.RoundTrip
/-
  Unaligned round trip: de-framing the unaligned framing gives back every beat but the one in flight.
-/
namespace Litex.Packet
open Litex Litex.Stream Litex.Stream.Elem

theorem deframeUAux_app (c : PkCfg) (x y : List (Tok Nat)) :
    ∀ st, deframeUAux c st (x ++ y) = deframeUAux c st x ++ deframeUAux c (udEnd c st x) y := by
  induction x with
  | nil => intro st; simp [deframeUAux, udEnd]
  | cons t r ih => intro st; simp [deframeUAux, udEnd, ih]

theorem udEnd_app (c : PkCfg) (x y : List (Tok Nat)) :
    ∀ st, udEnd c st (x ++ y) = udEnd c (udEnd c st x) y := by
  induction x with
  | nil => intro st; simp [udEnd]
  | cons t r ih => intro st; simp [udEnd, ih]

theorem udWellFormed_app (c : PkCfg) (x y : List (Tok Nat)) :
    ∀ st, udWellFormed c st (x ++ y) ↔ udWellFormed c st x ∧ udWellFormed c (udEnd c st x) y := by
  induction x with
  | nil => intro st; simp [udWellFormed, udEnd]
  | cons t r ih => intro st; simp [udWellFormed, udEnd, ih, and_assoc]

/-- The padding bytes of a last beat are invisible to a Depacketizer fed with well-formed packets. -/
theorem udStep_maskPad (c : PkCfg) (hc : UnalignedCfg c) (h prev : Nat) (t : Tok Nat) :
    udStep c (.pay h prev) (maskPad c t) = udStep c (.pay h prev) t := by
  unfold maskPad
  split
  · rename_i hl
    have hk : c.dw - (c.B - c.L) * 8 = 8 * c.L := by have := hc.dw_eq; omega
    have hle : 8 * c.L ≤ c.dw := by have := hc.dw_eq; omega
    have e1 : t.data % 2 ^ (8 * c.L) % 2 ^ c.dw % 2 ^ (8 * c.L) = t.data % 2 ^ c.dw % 2 ^ (8 * c.L) := by
      rw [Nat.mod_mod_of_dvd _ (Nat.pow_dvd_pow 2 hle), Nat.mod_mod_of_dvd _ (Nat.pow_dvd_pow 2 hle), Nat.mod_mod]
    simp [udStep, dbeat, hk, hl, e1]
  · rfl

theorem mask_wf (c : PkCfg) (hc : UnalignedCfg c) (l : List (Tok Nat)) :
    ∀ st, udWellFormed c st (l.map (maskPad c)) →
      udEnd c st (l.map (maskPad c)) = udEnd c st l ∧
      deframeUAux c st (l.map (maskPad c)) = deframeUAux c st l ∧ udWellFormed c st l := by
  induction l with
  | nil => intro st _; simp [udEnd, deframeUAux, udWellFormed]
  | cons t r ih =>
    intro st h
    simp only [List.map_cons, udWellFormed] at h
    obtain ⟨h1, h2⟩ := h
    have hlast : (maskPad c t).last = t.last := by unfold maskPad; split <;> rfl
    have hstep : udStep c st (maskPad c t) = udStep c st t := by
      cases st with
      | pay h prev => exact udStep_maskPad c hc h prev t
      | hdr k h =>
        have : t.last = false := by rw [← hlast]; exact h1
        simp [maskPad, this]
      | res h =>
        have : t.last = false := by rw [← hlast]; exact h1
        simp [maskPad, this]
    rw [hstep] at h2
    obtain ⟨i1, i2, i3⟩ := ih _ h2
    refine ⟨by simp [udEnd, hstep, i1], by simp [deframeUAux, hstep, i2], ?_⟩
    simp only [udWellFormed]
    exact ⟨by cases st <;> simp_all, i3⟩

/-! ### Arithmetic of the realignment -/

section arith
variable (c : PkCfg) (hc : UnalignedCfg c)
include hc

theorem k_facts : c.dw = 8 * c.L + (c.B - c.L) * 8 ∧ c.dw - 8 * c.L = (c.B - c.L) * 8 ∧
    c.dw - (c.B - c.L) * 8 = 8 * c.L := by
  have := hc.dw_eq; omega

theorem ubeat_lt (lo d : Nat) : ubeat c lo d < 2 ^ c.dw := by
  unfold ubeat
  have h1 : lo % 2 ^ (8 * c.L) < 2 ^ (8 * c.L) := Nat.mod_lt _ (Nat.two_pow_pos _)
  have h2 : d % 2 ^ (c.dw - 8 * c.L) < 2 ^ (c.dw - 8 * c.L) := Nat.mod_lt _ (Nat.two_pow_pos _)
  have e : (2 : Nat) ^ c.dw = 2 ^ (8 * c.L) * 2 ^ (c.dw - 8 * c.L) := by
    rw [← Nat.pow_add]; congr 1; have := (k_facts c hc).1; omega
  rw [e]
  have h3 : 2 ^ (8 * c.L) * (d % 2 ^ (c.dw - 8 * c.L) + 1) ≤ 2 ^ (8 * c.L) * 2 ^ (c.dw - 8 * c.L) :=
    Nat.mul_le_mul_left _ h2
  rw [Nat.mul_add, Nat.mul_one] at h3
  omega

theorem ubeat_high (lo d : Nat) : ubeat c lo d / 2 ^ (8 * c.L) = d % 2 ^ ((c.B - c.L) * 8) := by
  unfold ubeat
  rw [Nat.add_mul_div_left _ _ (Nat.two_pow_pos _), Nat.div_eq_of_lt (Nat.mod_lt _ (Nat.two_pow_pos _)),
    Nat.zero_add, (k_facts c hc).2.1]

theorem resid_lt (p : Nat) (hp : p < 2 ^ c.dw) : resid c p < 2 ^ (8 * c.L) := by
  unfold resid
  apply Nat.div_lt_of_lt_mul
  rw [← Nat.pow_add]
  have : (c.B - c.L) * 8 + 8 * c.L = c.dw := by have := (k_facts c hc).1; omega
  rw [this]; exact hp

/-- Re-assembling a payload beat from the two source beats that carry it. -/
theorem dbeat_ubeat (pb p lo d : Nat) (hp : p < 2 ^ c.dw)
    (hpb : (pb / 2 ^ (8 * c.L)) % 2 ^ ((c.B - c.L) * 8) = p % 2 ^ ((c.B - c.L) * 8))
    (hlo : lo % 2 ^ (8 * c.L) = resid c p) :
    dbeat c pb (ubeat c lo d % 2 ^ c.dw) = p := by
  unfold dbeat
  rw [Nat.mod_eq_of_lt (ubeat_lt c hc lo d), (k_facts c hc).2.2, ubeat_mask, hpb, hlo]
  unfold resid
  exact Nat.mod_add_div p _

theorem hleft_lt (h : Nat) (hh : h < 2 ^ c.hw) : hleft c h < 2 ^ (8 * c.L) := by
  unfold hleft
  apply Nat.div_lt_of_lt_mul
  rw [← Nat.pow_add, ← hc.hw_eq]; exact hh

end arith

/-- Collecting the header words `j, j+1, …, W-1` of `h` (no output, no `last`, ends before the residue beat). -/
theorem ud_collect (c : PkCfg) (h : Nat) (n : Nat) :
    ∀ j, j + (n + 1) = c.W →
      udEnd c (.hdr j (h % 2 ^ (j * c.dw))) ((List.range' j (n + 1)).map (hdrWord c h)) =
        .res (h % 2 ^ (c.W * c.dw)) ∧
      deframeUAux c (.hdr j (h % 2 ^ (j * c.dw))) ((List.range' j (n + 1)).map (hdrWord c h)) = [] ∧
      udWellFormed c (.hdr j (h % 2 ^ (j * c.dw))) ((List.range' j (n + 1)).map (hdrWord c h)) := by
  induction n with
  | zero =>
    intro j hj
    have e : h % 2 ^ (j * c.dw) + (hdrWord c h j).data % 2 ^ c.dw * 2 ^ (j * c.dw) = h % 2 ^ ((j + 1) * c.dw) := by
      simp only [hdrWord, slice, Nat.mod_mod]
      rw [Nat.succ_mul, Nat.pow_add, Nat.mod_mul, Nat.mul_comm (2 ^ (j * c.dw))]
    have hj' : j + 1 = c.W := by omega
    simp [List.range'_succ, udEnd, deframeUAux, udWellFormed, udStep, hj', e, hdrWord]
    rw [← hj', ← e]; simp [hdrWord]
  | succ n ih =>
    intro j hj
    have hjw : ¬ j + 1 = c.W := by omega
    have e : h % 2 ^ (j * c.dw) + (hdrWord c h j).data % 2 ^ c.dw * 2 ^ (j * c.dw) = h % 2 ^ ((j + 1) * c.dw) := by
      simp only [hdrWord, slice, Nat.mod_mod]
      rw [Nat.succ_mul, Nat.pow_add, Nat.mod_mul, Nat.mul_comm (2 ^ (j * c.dw))]
    obtain ⟨i1, i2, i3⟩ := ih (j + 1) (by omega)
    rw [List.range'_succ, List.map_cons]
    simp only [udEnd, deframeUAux, udWellFormed, udStep, hjw, ↓reduceIte, e, List.nil_append]
    exact ⟨i1, i2, by simp [hdrWord], i3⟩

theorem ud_hdrWords (c : PkCfg) (hc : UnalignedCfg c) (h : Nat) :
    udEnd c (.hdr 0 0) (hdrWords c h) = .res (h % 2 ^ (c.W * c.dw)) ∧
    deframeUAux c (.hdr 0 0) (hdrWords c h) = [] ∧ udWellFormed c (.hdr 0 0) (hdrWords c h) := by
  have hW := hc.W_pos
  have := ud_collect c h (c.W - 1) 0 (by omega)
  simp only [Nat.zero_mul, Nat.pow_zero, Nat.mod_one] at this
  have e : c.W - 1 + 1 = c.W := by omega
  rw [e] at this
  rw [hdrWords, List.range_eq_range']
  exact this

/-- A prefix of the header words: no output, well formed. -/
theorem ud_hdr_prefix (c : PkCfg) (l : List (Tok Nat)) (hl : ∀ t ∈ l, t.last = false) :
    ∀ k h, k + l.length ≤ c.W → k < c.W ∨ l = [] →
      deframeUAux c (.hdr k h) l = [] ∧ udWellFormed c (.hdr k h) l := by
  induction l with
  | nil => intro k h _ _; simp [deframeUAux, udWellFormed]
  | cons t r ih =>
    intro k h hk _
    simp only [List.length_cons] at hk
    have ht : t.last = false := hl t (List.mem_cons_self ..)
    simp only [deframeUAux, udWellFormed, udStep, List.nil_append, ht, true_and]
    by_cases hkw : k + 1 = c.W
    · have : r = [] := by
        cases r with
        | nil => rfl
        | cons _ _ => simp at hk; omega
      subst this
      simp [deframeUAux, udWellFormed]
    · simp only [hkw, ↓reduceIte]
      exact ih (fun t ht => hl t (List.mem_cons_of_mem _ ht)) _ _ (by omega) (Or.inl (by omega))

/-! ### The round-trip invariant -/

def annotEnd (c : PkCfg) : Option Nat → List (Tok HBeat) → Option Nat
  | cur, [] => cur
  | cur, t :: r => annotEnd c (if t.last then none else some (cur.getD (hdrOf c t))) r

theorem annotAux_append (c : PkCfg) (a : List (Tok HBeat)) (t : Tok HBeat) :
    ∀ cur, annotAux c cur (a ++ [t]) = annotAux c cur a ++
      [{ data := { data := t.data.data % 2 ^ c.dw, hdr := (annotEnd c cur a).getD (hdrOf c t) },
         first := false, last := t.last }] := by
  induction a with
  | nil => intro cur; simp [annotAux, annotEnd]
  | cons x r ih => intro cur; simp [annotAux, annotEnd, ih]

theorem annotEnd_append (c : PkCfg) (a : List (Tok HBeat)) (t : Tok HBeat) :
    ∀ cur, annotEnd c cur (a ++ [t]) =
      if t.last then none else some ((annotEnd c cur a).getD (hdrOf c t)) := by
  induction a with
  | nil => intro cur; simp [annotEnd]
  | cons x r ih => intro cur; simp [annotEnd, ih]

/-- What de-framing the framed stream of `a` has reached. -/
def rtJ (c : PkCfg) (a : List (Tok HBeat)) : Prop :=
  udWellFormed c (.hdr 0 0) (frameU c a) ∧
  match uEnd c none a with
  | none => udEnd c (.hdr 0 0) (frameU c a) = .hdr 0 0 ∧ annotEnd c none a = none ∧
      deframeU c (frameU c a) = annot c a
  | some p => ∃ h pb, annotEnd c none a = some h ∧ udEnd c (.hdr 0 0) (frameU c a) = .pay h pb ∧
      (pb / 2 ^ (8 * c.L)) % 2 ^ ((c.B - c.L) * 8) = p % 2 ^ ((c.B - c.L) * 8) ∧ p < 2 ^ c.dw ∧
      deframeU c (frameU c a) ++ [{ data := { data := p, hdr := h }, first := false, last := false }] = annot c a

theorem flush_as_ubeat (c : PkCfg) (x : Nat) : resid c x % 2 ^ (8 * c.L) = ubeat c (resid c x) 0 := by
  simp [ubeat]

theorem rtJ_snoc (c : PkCfg) (hc : UnalignedCfg c) (a : List (Tok HBeat)) (t : Tok HBeat)
    (hJ : rtJ c a) (hns : uEnd c none a = none → t.last = false) : rtJ c (a ++ [t]) := by
  obtain ⟨hwf, hm⟩ := hJ
  have hkf := k_facts c hc
  have hdt : sinkData c t < 2 ^ c.dw := Nat.mod_lt _ (Nat.two_pow_pos _)
  unfold rtJ
  rw [frameU_snoc, uEnd_append]
  cases hu : uEnd c none a with
  | none =>
    rw [hu] at hm
    obtain ⟨m1, m2, m3⟩ := hm
    have hl : t.last = false := hns hu
    obtain ⟨c1, c2, c3⟩ := ud_hdrWords c hc (hdrOf c t)
    have hhl : hdrOf c t < 2 ^ c.hw := Nat.mod_lt _ (Nat.two_pow_pos _)
    have hx : ubeat c (hleft c (hdrOf c t)) (sinkData c t) % 2 ^ c.dw =
        ubeat c (hleft c (hdrOf c t)) (sinkData c t) := Nat.mod_eq_of_lt (ubeat_lt c hc _ _)
    have hhdr : hdrOf c t % 2 ^ (c.W * c.dw) + hleft c (hdrOf c t) * 2 ^ (c.W * c.dw) = hdrOf c t := by
      unfold hleft; exact Nat.mod_add_div' _ _
    have hlo : hleft c (hdrOf c t) % 2 ^ (8 * c.L) = hleft c (hdrOf c t) :=
      Nat.mod_eq_of_lt (hleft_lt c hc _ hhl)
    refine ⟨?_, ?_⟩
    · rw [udWellFormed_app]
      refine ⟨hwf, ?_⟩
      rw [m1]
      simp only [uChunk, hl, Bool.false_eq_true, ↓reduceIte, List.append_nil]
      rw [udWellFormed_app]
      exact ⟨c3, by rw [c1]; simp [udWellFormed]⟩
    · simp only [uNext, hl, Bool.false_eq_true, ↓reduceIte]
      refine ⟨hdrOf c t, ubeat c (hleft c (hdrOf c t)) (sinkData c t), ?_, ?_, ?_, hdt, ?_⟩
      · rw [annotEnd_append, m2]; simp [hl]
      · rw [udEnd_app, m1]
        simp only [uChunk, hl, Bool.false_eq_true, ↓reduceIte, List.append_nil]
        rw [udEnd_app, c1]
        simp only [udEnd, udStep, hx, ubeat_mask, hlo, hhdr]
      · rw [ubeat_high c hc, Nat.mod_mod]
      · unfold deframeU at m3 ⊢
        rw [deframeUAux_app, m1, m3]
        simp only [uChunk, hl, Bool.false_eq_true, ↓reduceIte, List.append_nil]
        rw [deframeUAux_app, c2, c1]
        simp only [deframeUAux, udStep, List.nil_append, List.append_nil]
        unfold annot
        rw [annotAux_append, m2]
        simp [hl, sinkData]
  | some p =>
    rw [hu] at hm
    obtain ⟨h, pb, m1, m2, m3, m4, m5⟩ := hm
    have hrl : resid c p % 2 ^ (8 * c.L) = resid c p := Nat.mod_eq_of_lt (resid_lt c hc p m4)
    have hdb : dbeat c pb (ubeat c (resid c p) (sinkData c t) % 2 ^ c.dw) = p :=
      dbeat_ubeat c hc pb p (resid c p) (sinkData c t) m4 m3 hrl
    have hx : ubeat c (resid c p) (sinkData c t) % 2 ^ c.dw = ubeat c (resid c p) (sinkData c t) :=
      Nat.mod_eq_of_lt (ubeat_lt c hc _ _)
    have hhigh : (ubeat c (resid c p) (sinkData c t) / 2 ^ (8 * c.L)) % 2 ^ ((c.B - c.L) * 8) =
        sinkData c t % 2 ^ ((c.B - c.L) * 8) := by rw [ubeat_high c hc, Nat.mod_mod]
    cases hl : t.last with
    | false =>
      refine ⟨?_, ?_⟩
      · rw [udWellFormed_app]
        refine ⟨hwf, ?_⟩
        rw [m2]
        simp [uChunk, hl, udWellFormed]
      · simp only [uNext, hl, Bool.false_eq_true, ↓reduceIte]
        refine ⟨h, ubeat c (resid c p) (sinkData c t), ?_, ?_, hhigh, hdt, ?_⟩
        · rw [annotEnd_append, m1]; simp [hl]
        · rw [udEnd_app, m2]
          simp [uChunk, hl, udEnd, udStep, hx]
        · unfold deframeU at m5 ⊢
          rw [deframeUAux_app, m2]
          simp only [uChunk, hl, Bool.false_eq_true, ↓reduceIte, List.append_nil, deframeUAux, udStep, hdb]
          unfold annot at m5 ⊢
          rw [annotAux_append, m1, ← m5]
          simp [hl, sinkData]
    | true =>
      have hdb2 : dbeat c (ubeat c (resid c p) (sinkData c t))
          (resid c (sinkData c t) % 2 ^ (8 * c.L) % 2 ^ c.dw) = sinkData c t := by
        rw [flush_as_ubeat]
        exact dbeat_ubeat c hc _ (sinkData c t) (resid c (sinkData c t)) 0 hdt hhigh
          (Nat.mod_eq_of_lt (resid_lt c hc _ hdt))
      have hdb' := hdb
      rw [hx] at hdb'
      simp only [sinkData] at hdb' hdb2
      refine ⟨?_, ?_⟩
      · rw [udWellFormed_app]
        refine ⟨hwf, ?_⟩
        rw [m2]
        simp [uChunk, hl, udWellFormed, udStep]
      · simp only [uNext, hl, ↓reduceIte]
        refine ⟨?_, ?_, ?_⟩
        · rw [udEnd_app, m2]
          simp [uChunk, hl, udEnd, udStep, hx]
        · rw [annotEnd_append]; simp [hl]
        · unfold deframeU at m5 ⊢
          rw [deframeUAux_app, m2]
          simp only [uChunk, hl, ↓reduceIte, List.singleton_append, deframeUAux, udStep, hx,
            List.append_nil]
          unfold annot at m5 ⊢
          rw [annotAux_append, m1, ← m5]
          simp [hl, sinkData, hdb', hdb2]

theorem rtJ_nil (c : PkCfg) : rtJ c [] := by
  simp [rtJ, frameU, frameUAux, udWellFormed, uEnd, udEnd, annotEnd, deframeU, deframeUAux, annot, annotAux]

/-! ### The composite -/

theorem uRel_shape2 (c : PkCfg) (s : PkState) (env : Option UEnv) (a : List (Tok HBeat)) (d : List (Tok Nat))
    (h : uRel c s env a d) :
    d.map (maskPad c) = frameU c a ∨
    (uEnd c none a = none ∧ ∃ t k, k ≤ c.W ∧
      d.map (maskPad c) = frameU c a ++ (hdrWords c (hdrOf c t)).take k) ∨
    (uEnd c none a = none ∧ ∃ x, d.map (maskPad c) ++ [flushBeat c x] = frameU c a) := by
  unfold uRel at h
  split at h
  · exact Or.inl h.2.1
  · obtain ⟨h1, _, v, _, _, _, _, _, hk, _, _, _, hd⟩ := h
    exact Or.inr (Or.inl ⟨h1, v.lines, _, Nat.le_of_lt hk, hd⟩)
  · rcases h with ⟨_, h1, v, _, _, _, _, _, _, _, hd⟩ | ⟨_, _, _, hd, _⟩ | ⟨_, _, h1, hd, _⟩
    · exact Or.inr (Or.inl ⟨h1, v.lines, c.W, Nat.le_refl _, by rw [hdrWords_take_all]; exact hd⟩)
    · exact Or.inl hd
    · exact Or.inr (Or.inr ⟨h1, _, hd⟩)
  · exact h.elim

theorem mem_accNow {α β σ : Type} (e : Elem α β σ) (s : σ) (i : In α) (t : Tok α) (h : t ∈ e.accNow s i) :
    t = i.tok := by
  unfold Elem.accNow at h
  split at h
  · simpa using h
  · simp at h

/-- A beat accepted at a packet boundary does not carry `last` (hypothesis (3) of `UOk`, as seen by the FSM). -/
theorem uRel_acc_notlast (c : PkCfg) (hc : UnalignedCfg c) (s : PkState) (env : Option UEnv)
    (a : List (Tok HBeat)) (d : List (Tok Nat)) (i : In HBeat) (h : uRel c s env a d) (hok : UOkStep env i) :
    ∀ t ∈ (packetizer c).accNow s i, uEnd c none a = none → t.last = false := by
  intro t ht hu
  have hti := mem_accNow _ _ _ _ ht
  obtain ⟨st, sr, cnt, fi, dd, dl⟩ := s
  obtain ⟨iv, it, ir⟩ := i
  simp only at hti
  cases st with
  | idle => cases iv <;> simp [Elem.accNow, Elem.out, packetizer] at ht
  | hdr => simp [Elem.accNow, Elem.out, packetizer] at ht
  | acopy => simp [uRel] at h
  | ucopy =>
    simp only [uRel] at h
    rcases h with ⟨_, _, v, henv, hpend, _, hvl, _, _, _, _⟩ | ⟨_, _, h1, _⟩ | ⟨_, hdl, _⟩
    · subst henv
      obtain ⟨o1, _, _⟩ := hok
      obtain ⟨hv, htk⟩ := o1 hpend
      simp only at hv htk
      subst hv
      rw [hti, htk]; exact hvl
    · rw [hu] at h1; cases h1
    · have hdl' : dl = true := hdl
      subst hdl'
      cases iv <;> simp [Elem.accNow, Elem.out, packetizer] at ht

/-- The framed stream the Depacketizer has seen so far is well formed. -/
theorem uRel_mid_wf (c : PkCfg) (hc : UnalignedCfg c) (s : PkState) (env : Option UEnv)
    (a : List (Tok HBeat)) (mid : List (Tok Nat)) (h : uRel c s env a mid) (hJ : rtJ c a) :
    udWellFormed c (.hdr 0 0) (mid.map (maskPad c)) := by
  rcases uRel_shape2 c s env a mid h with hm | ⟨hu, t, k, hk, hm⟩ | ⟨_, x, hm⟩
  · rw [hm]; exact hJ.1
  · rw [hm, udWellFormed_app]
    refine ⟨hJ.1, ?_⟩
    have h2 := hJ.2
    rw [hu] at h2
    rw [h2.1]
    refine (ud_hdr_prefix c _ ?_ 0 0 ?_ ?_).2
    · intro x hx
      have := List.mem_of_mem_take hx
      simp only [hdrWords, List.mem_map] at this
      obtain ⟨j, _, rfl⟩ := this
      rfl
    · simp [hdrWords]; omega
    · exact Or.inl hc.W_pos
  · have := hJ.1
    rw [← hm, udWellFormed_app] at this
    exact this.1

def urtRel (c : PkCfg) (s : PkState × PkState) (env : Option UEnv) (a d : List (Tok HBeat)) : Prop :=
  ∃ mid, uRel c s.1 env a mid ∧ rtJ c a ∧ udRel c s.2 mid d

theorem upkdpk_step (c : PkCfg) (hc : UnalignedCfg c) (s : PkState × PkState) (env : Option UEnv)
    (a d : List (Tok HBeat)) (i : In HBeat) (h : urtRel c s env a d) (hok : UOkStep env i) :
    urtRel c ((pkdpk c).step s i) (uenvNext (pkdpk c) s env i) (a ++ (pkdpk c).accNow s i)
      (d ++ (pkdpk c).delNow s i) := by
  obtain ⟨mid, h1, hJ, h2⟩ := h
  let iA := compInA (packetizer c) (depacketizer c) s i
  let iB := compInB (packetizer c) (depacketizer c) s i
  have hokA : UOkStep env iA := hok
  have s1 := upacketizer_step c hc s.1 env a mid iA h1 hokA
  -- the round-trip invariant for the extended accepted list
  have hJ' : rtJ c (a ++ (packetizer c).accNow s.1 iA) := by
    have hnl := uRel_acc_notlast c hc s.1 env a mid iA h1 hokA
    by_cases hacc : (packetizer c).accNow s.1 iA = []
    · rw [hacc, List.append_nil]; exact hJ
    · have : (packetizer c).accNow s.1 iA = [iA.tok] := by
        unfold Elem.accNow at hacc ⊢
        split
        · rfl
        · rename_i hh; simp [hh] at hacc
      rw [this] at hnl ⊢
      exact rtJ_snoc c hc a iA.tok hJ (fun hu => hnl iA.tok (by simp) hu)
  -- what the packetizer delivers now is well formed after `mid`
  have hwf' := uRel_mid_wf c hc _ _ _ _ s1 hJ'
  have hwfm := (mask_wf c hc _ _ hwf').2.2
  refine ⟨mid ++ (packetizer c).delNow s.1 iA, s1, hJ', ?_⟩
  have hmid : (packetizer c).delNow s.1 iA = (depacketizer c).accNow s.2 iB := comp_mid _ _ s i
  rw [hmid] at hwfm ⊢
  refine udepacketizer_step c hc s.2 mid d iB h2 ?_
  intro t ht
  by_cases hacc : (depacketizer c).accNow s.2 iB = []
  · rw [hacc] at ht; simp at ht
  · have : (depacketizer c).accNow s.2 iB = [iB.tok] := by
      unfold Elem.accNow at hacc ⊢
      split
      · rfl
      · rename_i hh; simp [hh] at hacc
    rw [this] at ht hwfm
    simp only [List.mem_singleton] at ht
    subst ht
    exact (udWellFormed_append c mid iB.tok _ hwfm).2

theorem udStep_out_le (c : PkCfg) (st : UDSt) (t : Tok Nat) : (udStep c st t).2.length ≤ 1 := by
  cases st <;> simp [udStep]

/-- What the composed relation says: everything accepted has come out, annotated with its packet's header,
    except possibly the most recently accepted beat (which is still being realigned). -/
theorem urtRel_concl (c : PkCfg) (hc : UnalignedCfg c) (s : PkState × PkState) (env : Option UEnv)
    (a d : List (Tok HBeat)) (h : urtRel c s env a d) :
    ∃ tail, d ++ tail = annot c a ∧ tail.length ≤ 1 := by
  obtain ⟨mid, h1, hJ, h2⟩ := h
  have hwf := uRel_mid_wf c hc _ _ _ _ h1 hJ
  have hmask := (mask_wf c hc _ _ hwf).2.1
  have hd : d = deframeU c (mid.map (maskPad c)) := by rw [h2.1]; unfold deframeU; exact hmask.symm
  have hJ2 := hJ.2
  rcases uRel_shape2 c _ env a mid h1 with hm | ⟨hu, t, k, hk, hm⟩ | ⟨hu, x, hm⟩
  · rw [hm] at hd
    cases hu : uEnd c none a with
    | none => rw [hu] at hJ2; exact ⟨[], by rw [hd, List.append_nil]; exact hJ2.2.2, by simp⟩
    | some p =>
      rw [hu] at hJ2
      obtain ⟨hh, pb, _, _, _, _, e⟩ := hJ2
      exact ⟨_, by rw [hd]; exact e, by simp⟩
  · rw [hu] at hJ2
    rw [hm] at hd
    refine ⟨[], ?_, by simp⟩
    rw [hd, List.append_nil]
    unfold deframeU
    rw [deframeUAux_app, hJ2.1]
    have hnil := (ud_hdr_prefix c ((hdrWords c (hdrOf c t)).take k) (by
      intro x hx
      have := List.mem_of_mem_take hx
      simp only [hdrWords, List.mem_map] at this
      obtain ⟨j, _, rfl⟩ := this
      rfl) 0 0 (by simp [hdrWords]; omega) (Or.inl hc.W_pos)).1
    rw [hnil, List.append_nil]
    exact hJ2.2.2
  · rw [hu] at hJ2
    have e : deframeU c (frameU c a) = d ++ (udStep c (udEnd c (.hdr 0 0) (mid.map (maskPad c))) (flushBeat c x)).2 := by
      rw [← hm, hd]; unfold deframeU; rw [deframeUAux_append]
    exact ⟨(udStep c (udEnd c (.hdr 0 0) (mid.map (maskPad c))) (flushBeat c x)).2, by rw [← e]; exact hJ2.2.2,
      udStep_out_le c _ _⟩

/-- Run lemma of the unaligned Depacketizer: as long as what it accepts is well formed, it de-frames. -/
theorem udepacketizer_run (c : PkCfg) (hc : UnalignedCfg c) (ins : List (In Nat)) :
    let e := depacketizer c
    udWellFormed c (.hdr 0 0) (e.accepted e.init ins) →
      udRel c (e.runFrom e.init ins) (e.accepted e.init ins) (e.delivered e.init ins) := by
  intro e
  have h := rel_run_init e (fun s a d => udWellFormed c (.hdr 0 0) a → udRel c s a d)
    (by
      intro _
      simp [udRel, e, depacketizer, PkState.reset, deframeU, deframeUAux, udEnd, Nat.two_pow_pos])
    (by
      intro s a d i hR hwf
      by_cases hacc : e.accNow s i = []
      · rw [hacc, List.append_nil] at hwf
        have := udepacketizer_step c hc s a d i (hR hwf) (by rw [hacc]; simp)
        exact this
      · have hone : e.accNow s i = [i.tok] := by
          unfold Elem.accNow at hacc ⊢
          split
          · rfl
          · rename_i hh; simp [hh] at hacc
        rw [hone] at hwf
        obtain ⟨w1, w2⟩ := udWellFormed_append c a i.tok _ hwf
        have := udepacketizer_step c hc s a d i (hR w1) (by
          intro t ht; rw [hone] at ht; simp only [List.mem_singleton] at ht; subst ht; exact w2)
        exact this) ins
  exact h

theorem urtRel_init (c : PkCfg) : urtRel c (pkdpk c).init none [] [] := by
  refine ⟨[], ?_, rtJ_nil c, ?_⟩
  · simp [uRel, pkdpk, Elem.comp, packetizer, PkState.reset, uEnd, frameU, frameUAux, envAtStart]
  · simp [udRel, pkdpk, Elem.comp, depacketizer, PkState.reset, deframeU, deframeUAux, udEnd, Nat.two_pow_pos]

end Litex.Packet
