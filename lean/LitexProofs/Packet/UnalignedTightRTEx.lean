import LitexProofs.Packet.UnalignedTightRT
/-
  Kernel-checked boundary examples for `pkt_depkt_roundtrip_unaligned_tight`
  (dw = 16, 3-byte header `a1 b2 c3`; the packet `2211 4433 6655+last` with pause cycles after its first beat).
-/
namespace Litex.Packet
open Litex Litex.Stream Litex.Stream.Elem

/-- Non-vacuity / newly covered region: three pause cycles — all lines change with `ready = 0`, the low data byte
    and the header lines change with `ready = 1`, all lines change again with `ready = 0`.  `UOk` is false, `UOk2`
    holds, the packet comes back complete, every beat with header `0xc3b2a1`. -/
example :
    let c : PkCfg := ⟨2, 3⟩
    let e := pkdpk c
    let i (v : Bool) (d h : Nat) (l rdy : Bool) : In HBeat := ⟨v, ⟨⟨d, h⟩, false, l⟩, rdy⟩
    let ins := [i true 0x2211 0xc3b2a1 false true, i true 0x2211 0xc3b2a1 false true,
                i false 0x9999 0 true false, i false 0x2299 0x777777 false true, i false 0x8888 0 true false,
                i true 0x4433 0xc3b2a1 false true, i true 0x6655 0xc3b2a1 true true,
                i false 0 0 false true, i false 0 0 false true]
    UOk2 c e e.init none ins ∧ uokB e e.init none ins = false ∧
    e.delivered e.init ins =
      [⟨⟨0x2211, 0xc3b2a1⟩, false, false⟩, ⟨⟨0x4433, 0xc3b2a1⟩, false, false⟩, ⟨⟨0x6655, 0xc3b2a1⟩, false, true⟩] ∧
    e.delivered e.init ins = annot c (e.accepted e.init ins) := by
  refine ⟨uok2_of_B _ _ _ _ _ (by decide), by decide, by decide, by decide⟩

/-- Exactness, data part: one pause cycle with `ready = 1`, `last = 0`, only the TOP byte changed
    (`2211 → 9911`): the first payload beat comes back as `9911`. -/
example :
    let c : PkCfg := ⟨2, 3⟩
    let e := pkdpk c
    let i (v : Bool) (d h : Nat) (l rdy : Bool) : In HBeat := ⟨v, ⟨⟨d, h⟩, false, l⟩, rdy⟩
    let ins := [i true 0x2211 0xc3b2a1 false true, i true 0x2211 0xc3b2a1 false true,
                i false 0x9911 0xc3b2a1 false true,
                i true 0x4433 0xc3b2a1 false true, i true 0x6655 0xc3b2a1 true true,
                i false 0 0 false true, i false 0 0 false true]
    uok2B c e e.init none ins = false ∧
    e.delivered e.init ins =
      [⟨⟨0x9911, 0xc3b2a1⟩, false, false⟩, ⟨⟨0x4433, 0xc3b2a1⟩, false, false⟩, ⟨⟨0x6655, 0xc3b2a1⟩, false, true⟩] ∧
    annot c (e.accepted e.init ins) =
      [⟨⟨0x2211, 0xc3b2a1⟩, false, false⟩, ⟨⟨0x4433, 0xc3b2a1⟩, false, false⟩, ⟨⟨0x6655, 0xc3b2a1⟩, false, true⟩] := by
  refine ⟨by decide, by decide, by decide⟩

/-- Exactness, `last` part: one pause cycle with `ready = 1`, data kept, `last` line high: the packet is cut after
    its first beat (delivered with `last`), the rest is lost / mis-framed. -/
example :
    let c : PkCfg := ⟨2, 3⟩
    let e := pkdpk c
    let i (v : Bool) (d h : Nat) (l rdy : Bool) : In HBeat := ⟨v, ⟨⟨d, h⟩, false, l⟩, rdy⟩
    let ins := [i true 0x2211 0xc3b2a1 false true, i true 0x2211 0xc3b2a1 false true,
                i false 0x2211 0xc3b2a1 true true,
                i true 0x4433 0xc3b2a1 false true, i true 0x6655 0xc3b2a1 true true,
                i false 0 0 false true, i false 0 0 false true]
    uok2B c e e.init none ins = false ∧
    e.delivered e.init ins = [⟨⟨0x2211, 0xc3b2a1⟩, false, true⟩, ⟨⟨0, 0xc3b2a1⟩, false, true⟩] ∧
    annot c (e.accepted e.init ins) = [⟨⟨0x2211, 0xc3b2a1⟩, false, false⟩] := by
  refine ⟨by decide, by decide, by decide⟩

end Litex.Packet
