import LitexProofs.Packet.Depacketizer
/-
  Packetizer ⟫ Depacketizer (aligned header): de-framing a framed stream gives back every beat with the header
  of its packet; the composed history relation.
-/
namespace Litex.Packet
open Litex Litex.Stream Litex.Stream.Elem

theorem deframeAux_app (c : PkCfg) (x y : List (Tok Nat)) :
    ∀ k h, deframeAux c k h (x ++ y) =
      deframeAux c k h x ++ deframeAux c (dfSt c k h x).1 (dfSt c k h x).2 y := by
  induction x with
  | nil => intro k h; simp [deframeAux, dfSt]
  | cons t r ih =>
    intro k h
    simp only [List.cons_append, deframeAux, dfSt]
    split
    · exact ih _ _
    · simp [ih]

theorem dfSt_app (c : PkCfg) (x y : List (Tok Nat)) :
    ∀ k h, dfSt c k h (x ++ y) = dfSt c (dfSt c k h x).1 (dfSt c k h x).2 y := by
  induction x with
  | nil => intro k h; simp [dfSt]
  | cons t r ih =>
    intro k h
    simp only [List.cons_append, dfSt]
    split
    · exact ih _ _
    · exact ih _ _

/-- Header beats produce no output. -/
theorem deframeAux_hdr_nil (c : PkCfg) (l : List (Tok Nat)) :
    ∀ k h, k + l.length ≤ c.W → deframeAux c k h l = [] := by
  induction l with
  | nil => intro k h _; rfl
  | cons t r ih =>
    intro k h hk
    simp only [List.length_cons] at hk
    have : k < c.W := by omega
    simp only [deframeAux, this, ↓reduceIte]
    exact ih _ _ (by omega)

/-- Collecting the header words `j, j+1, …` of `h` rebuilds `h`. -/
theorem dfSt_collect (c : PkCfg) (h : Nat) (n : Nat) :
    ∀ j, j + n = c.W →
      dfSt c j (h % 2 ^ (j * c.dw)) ((List.range' j n).map (hdrWord c h)) = (c.W, h % 2 ^ (c.W * c.dw)) := by
  induction n with
  | zero => intro j hj; simp at hj; subst hj; simp [dfSt]
  | succ n ih =>
    intro j hj
    have hjw : j < c.W := by omega
    simp only [List.range'_succ, List.map_cons, dfSt, hjw, ↓reduceIte]
    have := ih (j + 1) (by omega)
    have e : h % 2 ^ (j * c.dw) + (hdrWord c h j).data % 2 ^ c.dw * 2 ^ (j * c.dw) = h % 2 ^ ((j + 1) * c.dw) := by
      simp only [hdrWord, slice, Nat.mod_mod]
      rw [Nat.succ_mul, Nat.pow_add, Nat.mod_mul, Nat.mul_comm (2 ^ (j * c.dw))]
    rw [e]
    exact this

theorem dfSt_hdrWords (c : PkCfg) (h : Nat) (hh : h < 2 ^ (c.W * c.dw)) :
    dfSt c 0 0 (hdrWords c h) = (c.W, h) := by
  have := dfSt_collect c h c.W 0 (by omega)
  simp only [Nat.zero_mul, Nat.pow_zero, Nat.mod_one] at this
  rw [hdrWords, List.range_eq_range', this, Nat.mod_eq_of_lt hh]

/-- What a Packetizer followed by the matching Depacketizer must deliver for the accepted beats: every beat
    (data truncated to the data width, `last` unchanged) with the header signal presented with the *first* beat
    of its packet.  `cur` = header of the packet in progress. -/
def annotAux (c : PkCfg) : Option Nat → List (Tok HBeat) → List (Tok HBeat)
  | _, [] => []
  | cur, t :: r =>
    { data := { data := t.data.data % 2 ^ c.dw, hdr := cur.getD (hdrOf c t) }, first := false, last := t.last } ::
      annotAux c (if t.last then none else some (cur.getD (hdrOf c t))) r

def annot (c : PkCfg) (a : List (Tok HBeat)) : List (Tok HBeat) := annotAux c none a

theorem hdrOf_lt (c : PkCfg) (hc : AlignedCfg c) (t : Tok HBeat) : hdrOf c t < 2 ^ (c.W * c.dw) := by
  rw [← hc.hw_eq]; exact Nat.mod_lt _ (Nat.two_pow_pos _)

/-- De-framing a framed stream: output and final state, from a packet boundary and from inside a packet. -/
theorem deframe_frame_aux (c : PkCfg) (hc : AlignedCfg c) (a : List (Tok HBeat)) :
    (deframeAux c 0 0 (frameAux c true a) = annotAux c none a ∧
      (endSt true a = true → dfSt c 0 0 (frameAux c true a) = (0, 0))) ∧
    (∀ hcur, deframeAux c c.W hcur (frameAux c false a) = annotAux c (some hcur) a ∧
      (endSt false a = true → dfSt c c.W hcur (frameAux c false a) = (0, 0))) := by
  induction a with
  | nil => simp [frameAux, deframeAux, annotAux, endSt, dfSt]
  | cons t r ih =>
    obtain ⟨⟨ih1, ih2⟩, ih3⟩ := ih
    have hW : ¬ c.W < c.W := Nat.lt_irrefl _
    constructor
    · have hst := dfSt_hdrWords c (hdrOf c t) (hdrOf_lt c hc t)
      have hnil := deframeAux_hdr_nil c (hdrWords c (hdrOf c t)) 0 0 (by simp [hdrWords])
      simp only [frameAux, ↓reduceIte, deframeAux_app, dfSt_app, hst, hnil, List.nil_append, deframeAux, dfSt,
        hW, annotAux, endSt, payBeat, Nat.mod_mod, Option.getD_none]
      cases hl : t.last with
      | true => simp [ih1]; exact ih2
      | false => simp [(ih3 (hdrOf c t)).1]; exact (ih3 (hdrOf c t)).2
    · intro hcur
      simp only [frameAux, Bool.false_eq_true, ↓reduceIte, List.nil_append, deframeAux, dfSt,
        hW, annotAux, endSt, payBeat, Nat.mod_mod, Option.getD_some]
      cases hl : t.last with
      | true => simp [ih1]; exact ih2
      | false => simp [(ih3 hcur).1]; exact (ih3 hcur).2

theorem deframe_frame (c : PkCfg) (hc : AlignedCfg c) (a : List (Tok HBeat)) :
    deframe c (frame c a) = annot c a := (deframe_frame_aux c hc a).1.1

/-- Header words that run ahead of the payload do not show at the Depacketizer's source. -/
theorem deframe_frame_ahead (c : PkCfg) (hc : AlignedCfg c) (a : List (Tok HBeat)) (x : List (Tok Nat))
    (hend : endSt true a = true) (hx : x.length ≤ c.W) :
    deframe c (frame c a ++ x) = annot c a := by
  unfold deframe frame
  rw [deframeAux_app, (deframe_frame_aux c hc a).1.2 hend, (deframe_frame_aux c hc a).1.1,
    deframeAux_hdr_nil c x 0 0 (by omega)]
  simp [annot]

/-- `packetizer.source.connect(depacketizer.sink)`. -/
def pkdpk (c : PkCfg) : Elem HBeat HBeat (PkState × PkState) := (packetizer c).comp (depacketizer c)

def rtRel (c : PkCfg) (s : PkState × PkState) (p : Option (Tok HBeat)) (a d : List (Tok HBeat)) : Prop :=
  ∃ mid, pkRel c s.1 p a mid ∧ dpRel c s.2 mid d

theorem pkdpk_step (c : PkCfg) (hc : AlignedCfg c) (s : PkState × PkState) (p : Option (Tok HBeat))
    (a d : List (Tok HBeat)) (i : In HBeat) (h : rtRel c s p a d)
    (hp : ∀ t, p = some t → i.valid = true ∧ i.tok = t) :
    rtRel c ((pkdpk c).step s i) (pendNext (pkdpk c) s i) (a ++ (pkdpk c).accNow s i)
      (d ++ (pkdpk c).delNow s i) := by
  obtain ⟨mid, h1, h2⟩ := h
  refine ⟨mid ++ (packetizer c).delNow s.1 (compInA (packetizer c) (depacketizer c) s i), ?_, ?_⟩
  · exact packetizer_step c hc s.1 p a mid (compInA (packetizer c) (depacketizer c) s i) h1 hp
  · have := depacketizer_step c hc s.2 mid d (compInB (packetizer c) (depacketizer c) s i) h2
    rw [comp_mid]
    exact this

/-- What `pkRel` says about the delivered stream, state by state. -/
theorem pkRel_shape (c : PkCfg) (s : PkState) (p : Option (Tok HBeat)) (a : List (Tok HBeat))
    (d : List (Tok Nat)) (h : pkRel c s p a d) :
    d = frame c a ∨ (endSt true a = true ∧ ∃ t k, p = some t ∧ k ≤ c.W ∧
      d = frame c a ++ (hdrWords c (hdrOf c t)).take k) := by
  unfold pkRel at h
  split at h
  · exact Or.inl h.2
  · obtain ⟨h1, t, hp, _, hk, _, hd⟩ := h
    exact Or.inr ⟨h1, t, _, hp, Nat.le_of_lt hk, hd⟩
  · rcases h with ⟨h1, t, hp, hd⟩ | ⟨_, hd⟩
    · exact Or.inr ⟨h1, t, c.W, hp, Nat.le_refl _, by rw [hdrWords_take_all]; exact hd⟩
    · exact Or.inl hd
  · exact h.elim

end Litex.Packet
