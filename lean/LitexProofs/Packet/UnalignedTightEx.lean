import LitexProofs.Packet.UnalignedTight
/-
  Kernel-checked boundary examples for `packetizer_bytes_unaligned_tight`
  (dw = 16, 3-byte header `a1 b2 c3`: `W = 1`, residue `L = 1` byte; the configuration of the negative witnesses in
  `LitexProps/C16.lean`).  The packet `2211 4433 6655+last` with ONE pause cycle (`valid = 0`) after its first
  beat; correct framing: `b2a1 | 11c3 | 3322 | 5544 | 66 pad +last`.
-/
namespace Litex.Packet
open Litex Litex.Stream Litex.Stream.Elem

/-- Non-vacuity / newly covered region (a): in the pause cycle ALL lines change (data `9999`, `last = 1`, header
    lines `0`) while `source.ready = 0`: nothing is sampled.  The old hypothesis `UOk` is false, the tight one
    holds, the framing is correct. -/
example :
    let c : PkCfg := ⟨2, 3⟩
    let e := packetizer c
    let i (v : Bool) (d h : Nat) (l rdy : Bool) : In HBeat := ⟨v, ⟨⟨d, h⟩, false, l⟩, rdy⟩
    let ins := [i true 0x2211 0xc3b2a1 false true, i true 0x2211 0xc3b2a1 false true,
                i false 0x9999 0 true false,
                i true 0x4433 0xc3b2a1 false true, i true 0x6655 0xc3b2a1 true true, i false 0 0 false true]
    UnalignedCfg c ∧ UOk2 c e e.init none ins ∧ uokB e e.init none ins = false ∧
    (e.delivered e.init ins).map (maskPad c) =
      [⟨0xb2a1, false, false⟩, ⟨0x11c3, false, false⟩, ⟨0x3322, false, false⟩, ⟨0x5544, false, false⟩,
       ⟨0x66, false, true⟩] ∧
    frameU c (e.accepted e.init ins) =
      [⟨0xb2a1, false, false⟩, ⟨0x11c3, false, false⟩, ⟨0x3322, false, false⟩, ⟨0x5544, false, false⟩,
       ⟨0x66, false, true⟩] := by
  refine ⟨⟨by decide, by decide, by decide⟩, uok2_of_B _ _ _ _ _ (by decide), by decide, by decide, by decide⟩

/-- Non-vacuity / newly covered region (b): pause cycle with `source.ready = 1` (the lines ARE sampled into
    `sink_d`); the LOW `B − L = 1` data byte changes (`2211 → 2299`) and the header lines change
    (`c3b2a1 → 777777`), the top `L = 1` byte and `last = 0` are kept.  `UOk` false, `UOk2` true, framing correct. -/
example :
    let c : PkCfg := ⟨2, 3⟩
    let e := packetizer c
    let i (v : Bool) (d h : Nat) (l rdy : Bool) : In HBeat := ⟨v, ⟨⟨d, h⟩, false, l⟩, rdy⟩
    let ins := [i true 0x2211 0xc3b2a1 false true, i true 0x2211 0xc3b2a1 false true,
                i false 0x2299 0x777777 false true,
                i true 0x4433 0xc3b2a1 false true, i true 0x6655 0xc3b2a1 true true, i false 0 0 false true]
    UOk2 c e e.init none ins ∧ uokB e e.init none ins = false ∧
    (e.delivered e.init ins).map (maskPad c) =
      [⟨0xb2a1, false, false⟩, ⟨0x11c3, false, false⟩, ⟨0x3322, false, false⟩, ⟨0x5544, false, false⟩,
       ⟨0x66, false, true⟩] ∧
    (e.delivered e.init ins).map (maskPad c) = frameU c (e.accepted e.init ins) := by
  refine ⟨uok2_of_B _ _ _ _ _ (by decide), by decide, by decide, by decide⟩

/-- … and (c): several pause cycles, lines changing freely whenever `ready = 0`, low byte changing when
    `ready = 1`. -/
example :
    let c : PkCfg := ⟨2, 3⟩
    let e := packetizer c
    let i (v : Bool) (d h : Nat) (l rdy : Bool) : In HBeat := ⟨v, ⟨⟨d, h⟩, false, l⟩, rdy⟩
    let ins := [i true 0x2211 0xc3b2a1 false true, i true 0x2211 0xc3b2a1 false true,
                i false 0x9999 0 true false, i false 0x2299 0 false true, i false 0x8888 0 true false,
                i true 0x4433 0xc3b2a1 false true, i true 0x6655 0xc3b2a1 true true, i false 0 0 false true]
    UOk2 c e e.init none ins ∧ uokB e e.init none ins = false ∧
    (e.delivered e.init ins).map (maskPad c) = frameU c (e.accepted e.init ins) := by
  refine ⟨uok2_of_B _ _ _ _ _ (by decide), by decide, by decide⟩

/-- Exactness of conjunct (2), data part: ONE pause cycle with `ready = 1`, `last = 0`, in which only the TOP `L`
    byte changes (`2211 → 9911`): `UOk2` is violated and the third delivered beat carries the bubble's byte
    (`3399` instead of `3322`) — finding C16-packetizer-unaligned-bubble. -/
example :
    let c : PkCfg := ⟨2, 3⟩
    let e := packetizer c
    let i (v : Bool) (d h : Nat) (l rdy : Bool) : In HBeat := ⟨v, ⟨⟨d, h⟩, false, l⟩, rdy⟩
    let ins := [i true 0x2211 0xc3b2a1 false true, i true 0x2211 0xc3b2a1 false true,
                i false 0x9911 0xc3b2a1 false true,
                i true 0x4433 0xc3b2a1 false true, i true 0x6655 0xc3b2a1 true true, i false 0 0 false true]
    uok2B c e e.init none ins = false ∧
    (e.delivered e.init ins).map (maskPad c) =
      [⟨0xb2a1, false, false⟩, ⟨0x11c3, false, false⟩, ⟨0x3399, false, false⟩, ⟨0x5544, false, false⟩,
       ⟨0x66, false, true⟩] ∧
    frameU c (e.accepted e.init ins) =
      [⟨0xb2a1, false, false⟩, ⟨0x11c3, false, false⟩, ⟨0x3322, false, false⟩, ⟨0x5544, false, false⟩,
       ⟨0x66, false, true⟩] := by
  refine ⟨by decide, by decide, by decide⟩

/-- Exactness of conjunct (2), `last` part: ONE pause cycle with `ready = 1` in which the data lines are kept and
    only the `last` line is high: `UOk2` is violated, the packet is cut after its first beat by a spurious flush
    beat `22 +last`, the beat `4433` is lost and the rest is framed as a new packet — finding
    C16-packetizer-unaligned-bubble. -/
example :
    let c : PkCfg := ⟨2, 3⟩
    let e := packetizer c
    let i (v : Bool) (d h : Nat) (l rdy : Bool) : In HBeat := ⟨v, ⟨⟨d, h⟩, false, l⟩, rdy⟩
    let ins := [i true 0x2211 0xc3b2a1 false true, i true 0x2211 0xc3b2a1 false true,
                i false 0x2211 0xc3b2a1 true true,
                i true 0x4433 0xc3b2a1 false true, i true 0x6655 0xc3b2a1 true true, i false 0 0 false true]
    uok2B c e e.init none ins = false ∧
    (e.delivered e.init ins).map (maskPad c) =
      [⟨0xb2a1, false, false⟩, ⟨0x11c3, false, false⟩, ⟨0x22, false, true⟩, ⟨0xb2a1, false, false⟩,
       ⟨0xc3, false, true⟩] ∧
    frameU c (e.accepted e.init ins) = [⟨0xb2a1, false, false⟩, ⟨0x11c3, false, false⟩] := by
  refine ⟨by decide, by decide, by decide⟩

end Litex.Packet
