import LitexModel.Packet.HeaderClip
import LitexProofs.Packet.Header
/-
  `packet.Header` with its length (`encodeL` / `decodeL`): agreement with the unclipped model on headers that
  fit, the round trip for well-formed headers, and the exact behaviour of ILL-FORMED headers (overlapping
  fields: the last writer wins; fields reaching beyond the header: clipped / dropped).
  All statements are for arbitrary field tables (induction over the list).
-/
namespace Litex.Packet
open Litex

/-! ### clipping -/

theorem clip_start (n : Nat) (f : HField) : (f.clip n).start = min f.start n := by
  simp [HField.clip, HField.start]

theorem clip_width (n : Nat) (f : HField) : (f.clip n).width = min f.stop n - min f.start n := rfl

theorem clip_stop_le (n : Nat) (f : HField) : (f.clip n).stop ≤ n := by
  simp only [HField.stop, clip_start, clip_width]; omega

theorem clip_width_le (n : Nat) (f : HField) : (f.clip n).width ≤ f.width := by
  simp only [HField.stop, clip_width]; omega

/-- A field inside the header is not clipped. -/
theorem clip_of_fits (n : Nat) (f : HField) (h : f.stop ≤ n) :
    (f.clip n).start = f.start ∧ (f.clip n).width = f.width := by
  simp only [HField.stop, clip_start, clip_width] at *; omega

/-- A field entirely beyond the header is clipped to the empty range `[n, n)`. -/
theorem clip_of_beyond (n : Nat) (f : HField) (h : n ≤ f.start) :
    (f.clip n).start = n ∧ (f.clip n).width = 0 := by
  simp only [HField.stop, clip_start, clip_width] at *; omega

/-- A partly clipped field keeps the bits `[start, n)`. -/
theorem clip_of_straddle (n : Nat) (f : HField) (h1 : f.start ≤ n) (h2 : n ≤ f.stop) :
    (f.clip n).start = f.start ∧ (f.clip n).width = n - f.start := by
  simp only [HField.stop, clip_start, clip_width] at *; omega

/-- Clipping keeps disjoint fields disjoint. -/
theorem disjoint_iff (f g : HField) : f.disjoint g = true ↔ (f.stop ≤ g.start ∨ g.stop ≤ f.start) := by
  unfold HField.disjoint
  rw [Bool.or_eq_true]
  exact ⟨fun h => h.imp of_decide_eq_true of_decide_eq_true, fun h => h.imp decide_eq_true decide_eq_true⟩

theorem clip_disjoint (n : Nat) (f g : HField) (h : f.disjoint g = true) :
    (f.clip n).disjoint (g.clip n) = true := by
  rw [disjoint_iff] at *
  simp only [HField.stop, clip_start, clip_width] at *
  omega

theorem setSlice_mod (lo w n v : Nat) : setSlice lo w n (v % 2 ^ w) = setSlice lo w n v := by
  unfold setSlice; rw [Nat.mod_mod]

theorem setSlice_zero_width (lo n v : Nat) : setSlice lo 0 n v = n := by
  unfold setSlice
  simp only [Nat.pow_zero, Nat.mod_one, Nat.zero_mul, Nat.add_zero]
  rw [Nat.mul_comm]; exact Nat.mod_add_div n (2 ^ lo)

/-! ### `encodeFromL` as `encodeFrom` over clipped ranges with pre-swapped values -/

theorem encodeFromL_eq_encodeFrom (n : Nat) (swap : Bool) (l : List (HField × Nat)) :
    ∀ sig, encodeFromL n swap sig l
      = encodeFrom false sig (l.map fun p => (p.1.clip n, swapField swap p.1.width p.2)) := by
  induction l with
  | nil => intro sig; rfl
  | cons p r ih =>
    intro sig
    obtain ⟨f, v⟩ := p
    simp only [encodeFromL, List.map_cons, encodeFrom]
    rw [ih]
    congr 1
    simp only [swapField, Bool.false_eq_true, ↓reduceIte]
    rw [setSlice_mod]

theorem encodeFromL_append (n : Nat) (swap : Bool) (a b : List (HField × Nat)) :
    ∀ sig, encodeFromL n swap sig (a ++ b) = encodeFromL n swap (encodeFromL n swap sig a) b := by
  induction a with
  | nil => intro sig; rfl
  | cons p r ih => intro sig; obtain ⟨f, v⟩ := p; simp only [List.cons_append, encodeFromL]; rw [ih]

theorem encodeFrom_append (swap : Bool) (a b : List (HField × Nat)) :
    ∀ sig, encodeFrom swap sig (a ++ b) = encodeFrom swap (encodeFrom swap sig a) b := by
  induction a with
  | nil => intro sig; rfl
  | cons p r ih => intro sig; obtain ⟨f, v⟩ := p; simp only [List.cons_append, encodeFrom]; rw [ih]

/-! ### B.1  headers that fit: the clipped functions are the unclipped ones -/

theorem encodeFromL_eq_of_fits (n : Nat) (swap : Bool) (l : List (HField × Nat)) :
    ∀ sig, (∀ p ∈ l, p.1.stop ≤ n) → encodeFromL n swap sig l = encodeFrom swap sig l := by
  induction l with
  | nil => intro sig _; rfl
  | cons p r ih =>
    intro sig h
    obtain ⟨f, v⟩ := p
    simp only [encodeFromL, encodeFrom]
    obtain ⟨h1, h2⟩ := clip_of_fits n f (h (f, v) (List.mem_cons_self ..))
    rw [h1, h2]
    exact ih _ (fun q hq => h q (List.mem_cons_of_mem _ hq))

/-- **encodeL_eq_encode**. -/
theorem encodeL_eq_encode (len : Nat) (swap : Bool) (fields : List HField) (vals : List Nat)
    (hf : fitsIn len fields = true) : encodeL len swap fields vals = encode swap fields vals := by
  unfold encodeL encode
  apply encodeFromL_eq_of_fits
  intro p hp
  simp only [fitsIn, List.all_eq_true, decide_eq_true_eq] at hf
  exact hf _ (List.of_mem_zip hp).1

theorem decodeFieldL_eq_of_fits (n : Nat) (swap : Bool) (sig : Nat) (f : HField) (h : f.stop ≤ n) :
    decodeFieldL n swap sig f = decodeField swap sig f := by
  obtain ⟨h1, h2⟩ := clip_of_fits n f h
  simp only [decodeFieldL, decodeField, h1, h2]

/-- **decodeL_eq_decode** (no bound on `sig` is needed: bits beyond the fields are never read). -/
theorem decodeL_eq_decode (len : Nat) (swap : Bool) (fields : List HField) (sig : Nat)
    (hf : fitsIn len fields = true) : decodeL len swap fields sig = decode swap fields sig := by
  unfold decodeL decode
  apply List.map_congr_left
  intro f hm
  simp only [fitsIn, List.all_eq_true, decide_eq_true_eq] at hf
  exact decodeFieldL_eq_of_fits _ _ _ _ (hf f hm)

theorem encodeFromL_lt (n : Nat) (swap : Bool) (l : List (HField × Nat)) :
    ∀ sig, sig < 2 ^ n → encodeFromL n swap sig l < 2 ^ n := by
  induction l with
  | nil => intro sig h; exact h
  | cons p r ih =>
    intro sig h
    obtain ⟨f, v⟩ := p
    simp only [encodeFromL]
    apply ih
    exact setSlice_lt _ _ _ _ _ (clip_stop_le n f) h

/-- **encodeL_lt**: the header signal never exceeds its `8·len` bits — for EVERY table, also ill-formed ones. -/
theorem encodeL_lt (len : Nat) (swap : Bool) (fields : List HField) (vals : List Nat) :
    encodeL len swap fields vals < 2 ^ (8 * len) :=
  encodeFromL_lt _ _ _ _ (Nat.two_pow_pos _)

/-- **header_roundtrip_len**: every well-formed header of length `len` round-trips. -/
theorem header_roundtrip_len (len : Nat) (swap : Bool) (fields : List HField) (vals : List Nat)
    (hlen : vals.length = fields.length) (hd : pairwiseDisjoint fields = true)
    (hf : fitsIn len fields = true)
    (hs : swap = true → ∀ f ∈ fields, f.swappable = true)
    (hv : ∀ p ∈ fields.zip vals, p.2 < 2 ^ p.1.width) :
    decodeL len swap fields (encodeL len swap fields vals) = vals := by
  rw [encodeL_eq_encode len swap fields vals hf, decodeL_eq_decode len swap fields _ hf]
  exact decode_encode swap fields vals hlen hd hs hv

/-! ### B.2  overlap: the last writer wins -/

theorem covers_iff (f : HField) (j : Nat) : f.covers j = true ↔ f.start ≤ j ∧ j < f.start + f.width := by
  unfold HField.covers
  rw [Bool.and_eq_true]
  exact ⟨fun h => ⟨of_decide_eq_true h.1, of_decide_eq_true h.2⟩, fun h => ⟨decide_eq_true h.1, decide_eq_true h.2⟩⟩

/-- Bits not covered by any written field keep their value. -/
theorem testBit_encodeFromL_none (n : Nat) (swap : Bool) (j : Nat) (l : List (HField × Nat)) :
    ∀ sig, (∀ p ∈ l, (p.1.clip n).covers j = false) →
      (encodeFromL n swap sig l).testBit j = sig.testBit j := by
  induction l with
  | nil => intro sig _; rfl
  | cons p r ih =>
    intro sig h
    obtain ⟨f, v⟩ := p
    simp only [encodeFromL]
    rw [ih _ (fun q hq => h q (List.mem_cons_of_mem _ hq)), testBit_setSlice]
    have hc := h (f, v) (List.mem_cons_self ..)
    have : ¬ ((f.clip n).start ≤ j ∧ j < (f.clip n).start + (f.clip n).width) := by
      rw [← covers_iff]; simp [hc]
    split
    · rfl
    · split
      · omega
      · rfl

/-- **Last writer wins, bit level.**  In ANY table (overlaps allowed, fields beyond the length allowed), a bit
    covered by field `(f, v)` and by no LATER field holds the corresponding bit of `f`'s (swapped) value —
    whatever earlier fields wrote there. -/
theorem testBit_encodeFromL_last_writer (n : Nat) (swap : Bool) (j : Nat) (pre post : List (HField × Nat))
    (f : HField) (v sig : Nat) (hc : (f.clip n).covers j = true)
    (hpost : ∀ p ∈ post, (p.1.clip n).covers j = false) :
    (encodeFromL n swap sig (pre ++ (f, v) :: post)).testBit j
      = (swapField swap f.width v).testBit (j - (f.clip n).start) := by
  rw [encodeFromL_append]
  simp only [encodeFromL]
  rw [testBit_encodeFromL_none n swap j post _ hpost, testBit_setSlice]
  rw [covers_iff] at hc
  have h1 : ¬ j < (f.clip n).start := by omega
  simp [h1, hc.2]

/-- **Last writer wins, field level.**  If all LATER fields are disjoint from `f` (earlier ones may overlap
    it), `f`'s clipped bit range holds the low bits of its (swapped) value. -/
theorem slice_encodeFromL_later_disjoint (n : Nat) (swap : Bool) (pre post : List (HField × Nat))
    (f : HField) (v sig : Nat)
    (hpost : ∀ p ∈ post, (f.clip n).disjoint (p.1.clip n) = true) :
    slice (f.clip n).start (f.clip n).width (encodeFromL n swap sig (pre ++ (f, v) :: post))
      = swapField swap f.width v % 2 ^ (f.clip n).width := by
  rw [encodeFromL_append]
  simp only [encodeFromL]
  rw [encodeFromL_eq_encodeFrom, slice_encodeFrom_other false (f.clip n), slice_setSlice_same]
  intro p hp
  simp only [List.mem_map] at hp
  obtain ⟨q, hq, rfl⟩ := hp
  exact hpost q hq

/-- The same for the unclipped model. -/
theorem slice_encodeFrom_later_disjoint (swap : Bool) (pre post : List (HField × Nat))
    (f : HField) (v sig : Nat) (hpost : ∀ p ∈ post, f.disjoint p.1 = true) :
    slice f.start f.width (encodeFrom swap sig (pre ++ (f, v) :: post)) = swapField swap f.width v := by
  rw [encodeFrom_append]
  simp only [encodeFrom]
  rw [slice_encodeFrom_other swap f post _ hpost, slice_setSlice_same,
    Nat.mod_eq_of_lt (swapField_lt _ _ _)]

/-! index-based forms -/

theorem zip_split (fields : List HField) (vals : List Nat) (hlen : vals.length = fields.length)
    (i : Nat) (hi : i < fields.length) :
    fields.zip vals = (fields.zip vals).take i ++ (fields[i], vals[i]'(by omega)) :: (fields.zip vals).drop (i + 1) := by
  have hz : i < (fields.zip vals).length := by simp [hlen, hi]
  have : (fields[i], vals[i]'(by omega)) = (fields.zip vals)[i] := by simp
  rw [this, List.getElem_cons_drop hz, List.take_append_drop]

theorem mem_drop_zip (fields : List HField) (vals : List Nat) (i : Nat) (p : HField × Nat)
    (hp : p ∈ (fields.zip vals).drop (i + 1)) :
    ∃ k, ∃ (hk : k < fields.length), i < k ∧ p.1 = fields[k] := by
  rw [List.mem_iff_getElem] at hp
  obtain ⟨k, hk, rfl⟩ := hp
  simp only [List.length_drop, List.length_zip] at hk
  refine ⟨i + 1 + k, by omega, by omega, ?_⟩
  simp [List.getElem_drop]

/-- **encodeL_bit_last_writer**: in every table, bit `j` of the header holds the bit of the LAST field (table
    order = sorted field names) that covers it. -/
theorem encodeL_bit_last_writer (len : Nat) (swap : Bool) (fields : List HField) (vals : List Nat)
    (hlen : vals.length = fields.length) (i : Nat) (hi : i < fields.length) (j : Nat)
    (hc : ((fields[i]).clip (8 * len)).covers j = true)
    (hlater : ∀ k (hk : k < fields.length), i < k → ((fields[k]).clip (8 * len)).covers j = false) :
    (encodeL len swap fields vals).testBit j
      = (swapField swap (fields[i]).width (vals[i]'(by omega))).testBit (j - ((fields[i]).clip (8 * len)).start) := by
  unfold encodeL
  rw [zip_split fields vals hlen i hi]
  apply testBit_encodeFromL_last_writer _ _ _ _ _ _ _ _ hc
  intro p hp
  obtain ⟨k, hk, hik, hpk⟩ := mem_drop_zip fields vals i p hp
  rw [hpk]; exact hlater k hk hik

/-- **encodeL_field_later_disjoint**: field `i` reads back exactly what was written into its (clipped) range
    as soon as no LATER field overlaps it; earlier overlapping fields do not matter. -/
theorem encodeL_field_later_disjoint (len : Nat) (swap : Bool) (fields : List HField) (vals : List Nat)
    (hlen : vals.length = fields.length) (i : Nat) (hi : i < fields.length)
    (hlater : ∀ k (hk : k < fields.length), i < k →
      ((fields[i]).clip (8 * len)).disjoint ((fields[k]).clip (8 * len)) = true) :
    slice ((fields[i]).clip (8 * len)).start ((fields[i]).clip (8 * len)).width (encodeL len swap fields vals)
      = swapField swap (fields[i]).width (vals[i]'(by omega)) % 2 ^ ((fields[i]).clip (8 * len)).width := by
  unfold encodeL
  rw [zip_split fields vals hlen i hi]
  apply slice_encodeFromL_later_disjoint
  intro p hp
  obtain ⟨k, hk, hik, hpk⟩ := mem_drop_zip fields vals i p hp
  rw [hpk]; exact hlater k hk hik

/-- **encode_field_later_disjoint** (unclipped model, no length): the same. -/
theorem encode_field_later_disjoint (swap : Bool) (fields : List HField) (vals : List Nat)
    (hlen : vals.length = fields.length) (i : Nat) (hi : i < fields.length)
    (hlater : ∀ k (hk : k < fields.length), i < k → (fields[i]).disjoint (fields[k]) = true) :
    slice (fields[i]).start (fields[i]).width (encode swap fields vals)
      = swapField swap (fields[i]).width (vals[i]'(by omega)) := by
  unfold encode
  rw [zip_split fields vals hlen i hi]
  apply slice_encodeFrom_later_disjoint
  intro p hp
  obtain ⟨k, hk, hik, hpk⟩ := mem_drop_zip fields vals i p hp
  rw [hpk]; exact hlater k hk hik

/-- **encode_last_field**: the LAST field of any table always reads back exactly (no hypothesis at all). -/
theorem encode_last_field (swap : Bool) (pre : List HField) (f : HField) (vals : List Nat) (v : Nat)
    (hlen : vals.length = pre.length) :
    slice f.start f.width (encode swap (pre ++ [f]) (vals ++ [v])) = swapField swap f.width v := by
  unfold encode
  rw [List.zip_append hlen.symm]
  exact slice_encodeFrom_later_disjoint swap _ [] f v 0 (by simp)

/-- **encodeL_last_field**: with the length: the last field's clipped range holds the low bits of its value. -/
theorem encodeL_last_field (len : Nat) (swap : Bool) (pre : List HField) (f : HField) (vals : List Nat) (v : Nat)
    (hlen : vals.length = pre.length) :
    slice (f.clip (8 * len)).start (f.clip (8 * len)).width (encodeL len swap (pre ++ [f]) (vals ++ [v]))
      = swapField swap f.width v % 2 ^ (f.clip (8 * len)).width := by
  unfold encodeL
  rw [List.zip_append hlen.symm]
  exact slice_encodeFromL_later_disjoint _ swap _ [] f v 0 (by simp)

/-! ### B.2  decode ∘ encode, field by field -/

/-- **decodeL_encodeL_getElem** (general formula, any table): if no LATER field overlaps field `i` (inside the
    header), decoding returns the value swapped at the full width, truncated to the clipped width `cw`, and
    swapped again at the CLIPPED width. -/
theorem decodeL_encodeL_getElem (len : Nat) (swap : Bool) (fields : List HField) (vals : List Nat)
    (hlen : vals.length = fields.length) (i : Nat) (hi : i < fields.length)
    (hlater : ∀ k (hk : k < fields.length), i < k →
      ((fields[i]).clip (8 * len)).disjoint ((fields[k]).clip (8 * len)) = true) :
    (decodeL len swap fields (encodeL len swap fields vals))[i]'(by simp [decodeL, hi])
      = swapField swap ((fields[i]).clip (8 * len)).width
          (swapField swap (fields[i]).width (vals[i]'(by omega)) % 2 ^ ((fields[i]).clip (8 * len)).width) := by
  simp only [decodeL, List.getElem_map, decodeFieldL, decodeField]
  rw [encodeL_field_later_disjoint len swap fields vals hlen i hi hlater]

/-- **decodeL_encodeL_field**: field `i` round-trips whenever it lies inside the header and all LATER fields are
    disjoint from it — earlier fields may overlap it, other fields may stick out of the header. -/
theorem decodeL_encodeL_field (len : Nat) (swap : Bool) (fields : List HField) (vals : List Nat)
    (hlen : vals.length = fields.length) (i : Nat) (hi : i < fields.length)
    (hlater : ∀ k (hk : k < fields.length), i < k → (fields[i]).disjoint (fields[k]) = true)
    (hfit : (fields[i]).stop ≤ 8 * len)
    (hs : swap = true → (fields[i]).swappable = true)
    (hv : vals[i]'(by omega) < 2 ^ (fields[i]).width) :
    (decodeL len swap fields (encodeL len swap fields vals))[i]'(by simp [decodeL, hi]) = vals[i]'(by omega) := by
  rw [decodeL_encodeL_getElem len swap fields vals hlen i hi
    (fun k hk hik => clip_disjoint _ _ _ (hlater k hk hik))]
  obtain ⟨_, h2⟩ := clip_of_fits (8 * len) (fields[i]) hfit
  rw [h2, Nat.mod_eq_of_lt (swapField_lt _ _ _), swapField_swapField, Nat.mod_eq_of_lt hv]
  intro hsw
  have := hs hsw
  simp only [HField.swappable, Bool.or_eq_true, decide_eq_true_eq, beq_iff_eq] at this
  exact this

/-- The same on the unclipped model. -/
theorem decode_encode_field (swap : Bool) (fields : List HField) (vals : List Nat)
    (hlen : vals.length = fields.length) (i : Nat) (hi : i < fields.length)
    (hlater : ∀ k (hk : k < fields.length), i < k → (fields[i]).disjoint (fields[k]) = true)
    (hs : swap = true → (fields[i]).swappable = true)
    (hv : vals[i]'(by omega) < 2 ^ (fields[i]).width) :
    (decode swap fields (encode swap fields vals))[i]'(by simp [decode, hi]) = vals[i]'(by omega) := by
  simp only [decode, List.getElem_map, decodeField]
  rw [encode_field_later_disjoint swap fields vals hlen i hi hlater, swapField_swapField, Nat.mod_eq_of_lt hv]
  intro hsw
  have := hs hsw
  simp only [HField.swappable, Bool.or_eq_true, decide_eq_true_eq, beq_iff_eq] at this
  exact this

/-! ### B.2  fields beyond the header length -/

/-- **Clipped field, no swap**: the low `cw` bits of the value come back, the top bits are lost. -/
theorem decodeL_encodeL_clipped_noswap (len : Nat) (fields : List HField) (vals : List Nat)
    (hlen : vals.length = fields.length) (i : Nat) (hi : i < fields.length)
    (hlater : ∀ k (hk : k < fields.length), i < k →
      ((fields[i]).clip (8 * len)).disjoint ((fields[k]).clip (8 * len)) = true) :
    (decodeL len false fields (encodeL len false fields vals))[i]'(by simp [decodeL, hi])
      = vals[i]'(by omega) % 2 ^ ((fields[i]).clip (8 * len)).width := by
  rw [decodeL_encodeL_getElem len false fields vals hlen i hi hlater]
  simp only [swapField, Bool.false_eq_true, ↓reduceIte, Nat.mod_mod]
  exact Nat.mod_mod_of_dvd _ (Nat.pow_dvd_pow 2 (clip_width_le _ _))

/-- Reversing `a` bytes, keeping the low `b ≤ a` bytes and reversing those gives the TOP `b` bytes. -/
theorem revB_trunc_revB (a b v : Nat) (hab : b ≤ a) :
    revB b (revB a v % 2 ^ (8 * b)) = v % 2 ^ (8 * a) / 2 ^ (8 * (a - b)) := by
  apply Nat.eq_of_testBit_eq
  intro j
  rw [testBit_revB, Nat.testBit_mod_two_pow, testBit_revB, Nat.testBit_div_two_pow, Nat.testBit_mod_two_pow]
  by_cases hj : j < 8 * b
  · have h1 : 8 * (b - 1 - j / 8) + j % 8 < 8 * b := by omega
    have h2 : 8 * (b - 1 - j / 8) + j % 8 < 8 * a := by omega
    have h3 : j + 8 * (a - b) < 8 * a := by omega
    simp only [hj, h1, h2, h3, decide_true, Bool.true_and]
    congr 1; omega
  · have h3 : ¬ j + 8 * (a - b) < 8 * a := by omega
    simp [hj, h3]

/-- **Clipped field, swapped, whole bytes** (`width = 8a`, `8b` bits remain inside the header): the TOP `b` bytes
    of the value come back (shifted down); the low `a - b` bytes are lost.  (Not the low bits as without swap:
    `reverse_bytes` at full width on encode puts the most significant byte first, at the clipped width on
    decode it reverses only what is left.) -/
theorem decodeL_encodeL_clipped_swap_bytes (len : Nat) (fields : List HField) (vals : List Nat)
    (hlen : vals.length = fields.length) (i : Nat) (hi : i < fields.length)
    (hlater : ∀ k (hk : k < fields.length), i < k →
      ((fields[i]).clip (8 * len)).disjoint ((fields[k]).clip (8 * len)) = true)
    (a b : Nat) (ha : (fields[i]).width = 8 * a) (hb : ((fields[i]).clip (8 * len)).width = 8 * b) :
    (decodeL len true fields (encodeL len true fields vals))[i]'(by simp [decodeL, hi])
      = vals[i]'(by omega) % 2 ^ (8 * a) / 2 ^ (8 * (a - b)) := by
  rw [decodeL_encodeL_getElem len true fields vals hlen i hi hlater]
  have hab : b ≤ a := by have := clip_width_le (8 * len) (fields[i]); omega
  rw [ha, hb]
  simp only [swapField, ↓reduceIte]
  rw [revBytes_whole, revBytes_whole, revB_trunc_revB a b _ hab]

/-- **Field entirely beyond the header** (`start ≥ 8·len`): decodes to 0, with and without swap … -/
theorem decodeFieldL_beyond (len : Nat) (swap : Bool) (sig : Nat) (f : HField) (h : 8 * len ≤ f.start) :
    decodeFieldL (8 * len) swap sig f = 0 := by
  obtain ⟨_, h2⟩ := clip_of_beyond (8 * len) f h
  simp only [decodeFieldL, decodeField, h2, swapField]
  split
  · rw [revBytes_small 0 _ (by omega)]; simp [Nat.mod_one]
  · simp [Nat.mod_one]

/-- … and is not written at all by encode. -/
theorem encodeFromL_beyond_skip (n : Nat) (swap : Bool) (sig : Nat) (f : HField) (v : Nat)
    (rest : List (HField × Nat)) (h : n ≤ f.start) :
    encodeFromL n swap sig ((f, v) :: rest) = encodeFromL n swap sig rest := by
  obtain ⟨_, h2⟩ := clip_of_beyond n f h
  simp only [encodeFromL, h2, setSlice_zero_width]

/-- Encoding ignores every field that starts beyond the header. -/
theorem encodeFromL_filter_beyond (n : Nat) (swap : Bool) (l : List (HField × Nat)) :
    ∀ sig, encodeFromL n swap sig l = encodeFromL n swap sig (l.filter fun p => decide (p.1.start < n)) := by
  induction l with
  | nil => intro sig; rfl
  | cons p r ih =>
    intro sig
    obtain ⟨f, v⟩ := p
    by_cases h : f.start < n
    · simp only [List.filter_cons, h, decide_true, ↓reduceIte, encodeFromL]; rw [ih]
    · rw [encodeFromL_beyond_skip n swap sig f v r (by omega), ih]
      simp [h]

/-! ### B.2 / B.3  kernel-checked witnesses and non-vacuity -/

/-- Negative witness, overlap: an EARLIER field overlapped by a later one does not round-trip
    (`a = (0,0,8)`, `b = (0,4,8)`, 2-byte header, `a = 0xff`, `b = 0`: `a` reads back `0x0f`). -/
theorem overlap_earlier_field_lost :
    decodeL 2 false [⟨0, 0, 8⟩, ⟨0, 4, 8⟩] (encodeL 2 false [⟨0, 0, 8⟩, ⟨0, 4, 8⟩] [0xff, 0]) = [0x0f, 0] := by decide

/-- … while with the two fields in the other table order the (now later) field does: non-vacuity of
    `decodeL_encodeL_field` with an overlapping EARLIER field. -/
example :
    let fields : List HField := [⟨0, 4, 8⟩, ⟨0, 0, 8⟩]
    pairwiseDisjoint fields = false ∧ (fields[1]).stop ≤ 8 * 2 ∧
    decodeL 2 false fields (encodeL 2 false fields [0, 0xff]) = [0x0f, 0xff] := by decide

/-- Real-code witness (checked by the harness): 2-byte header, field `(1,0,16)` reaches 8 bits beyond it.
    No swap: `0xabcd` is stored as `0xcd00` and read back as `0xcd`; swap: stored as `0xab00`, read back `0xab`. -/
example : encodeL 2 false [⟨1, 0, 16⟩] [0xabcd] = 0xcd00 ∧ decodeL 2 false [⟨1, 0, 16⟩] 0xcd00 = [0xcd] ∧
          encodeL 2 true [⟨1, 0, 16⟩] [0xabcd] = 0xab00 ∧ decodeL 2 true [⟨1, 0, 16⟩] 0xab00 = [0xab] := by decide

/-- Negative witness, clipped + swapped with a clipped width that is not a whole number of bytes: field
    `(0,4,24)` in a 2-byte header (12 bits remain), value `0xabcdef`: stored `0xdab0`, read back `0xabd` —
    neither the low 12 bits (`0xdef`) nor the top 12 bits (`0xabc`) of the value. -/
theorem clipped_swap_odd_no_formula :
    encodeL 2 true [⟨0, 4, 24⟩] [0xabcdef] = 0xdab0 ∧
    decodeL 2 true [⟨0, 4, 24⟩] (encodeL 2 true [⟨0, 4, 24⟩] [0xabcdef]) = [0xabd] := by decide

/-- Field beyond the header: `(2,0,8)` in a 2-byte header is neither written nor read. -/
example : encodeL 2 true [⟨2, 0, 8⟩, ⟨0, 0, 8⟩] [0xab, 0xcd] = 0xcd ∧
          decodeL 2 true [⟨2, 0, 8⟩, ⟨0, 0, 8⟩] 0xabcd = [0, 0xcd] := by decide

/-- Non-vacuity of `header_roundtrip_len`: the header of `test/test_packet.py` (31 bytes) is well-formed; and
    non-vacuity of the clipped theorems: in a 30-byte header its first field `(15,0,128)` is clipped to 120
    bits (15 bytes) and no later field overlaps it. -/
example :
    let fields : List HField := [⟨15, 0, 128⟩, ⟨1, 0, 16⟩, ⟨3, 0, 32⟩, ⟨7, 0, 64⟩, ⟨0, 0, 8⟩]
    pairwiseDisjoint fields = true ∧ fitsIn 31 fields = true ∧ fitsIn 30 fields = false ∧
    (∀ f ∈ fields, f.swappable = true) ∧
    ((fields[0]).clip (8 * 30)).width = 8 * 15 ∧ (fields[0]).width = 8 * 16 := by decide

/-! ### C. `get_field` -/

/-- The width check rejects exactly the names whose selected part is not `width` bits long. -/
theorem getField_error_iff (W : Nat) (k : FKind) (w : Nat) :
    (∃ e, getField W k w = .error e) ↔ (k.range W w).2 ≠ w := by
  unfold getField
  split <;> simp_all

theorem getField_ok_iff (W : Nat) (k : FKind) (w : Nat) (r : Nat × Nat) :
    getField W k w = .ok r ↔ ((k.range W w).2 = w ∧ r = k.range W w) := by
  unfold getField
  split
  · rename_i h
    constructor
    · intro e; exact ⟨h, (Except.ok.inj e).symm⟩
    · rintro ⟨_, rfl⟩; rfl
  · rename_i h
    constructor
    · intro e; cases e
    · rintro ⟨h', _⟩; exact absurd h' h

/-- Plain name: accepted iff `len(obj.name) = width`. -/
theorem getField_plain (W w : Nat) : getField W .plain w = if W = w then .ok (0, W) else .error "Width mismatch" := rfl

/-- `x_lsb`: accepted iff `obj.x` has at least `width` bits (it is `obj.x[:width]`, clipped to `len(obj.x)`). -/
theorem getField_lsb_ok_iff (W w : Nat) : getField W .lsb w = .ok (0, w) ↔ w ≤ W := by
  rw [getField_ok_iff]; simp only [FKind.range]
  constructor
  · intro h; omega
  · intro h; have : min w W = w := by omega
    simp [this]

/-- `x_msb`: accepted iff `obj.x` has at least `2·width` bits (or `width = 0`). -/
theorem getField_msb_ok_iff (W w : Nat) : (∃ r, getField W .msb w = .ok r) ↔ (2 * w ≤ W ∨ w = 0) := by
  constructor
  · rintro ⟨r, h⟩; rw [getField_ok_iff] at h; simp only [FKind.range] at h; omega
  · intro h; refine ⟨_, (getField_ok_iff _ _ _ _).mpr ⟨?_, rfl⟩⟩; simp only [FKind.range]; omega

/-- Two halves of a `2w`-bit value put back together. -/
theorem setSlice_halves (w x : Nat) (hx : x < 2 ^ (2 * w)) :
    setSlice w w (setSlice 0 w 0 (slice 0 w x)) (slice w w x) = x := by
  apply Nat.eq_of_testBit_eq
  intro j
  simp only [testBit_setSlice, testBit_slice, Nat.zero_add, Nat.not_lt_zero, ↓reduceIte, Nat.sub_zero,
    Nat.zero_testBit]
  by_cases h1 : j < w
  · simp [h1]
  · by_cases h2 : j < w + w
    · have : j - w < w := by omega
      simp only [h1, h2, ↓reduceIte, this, decide_true, Bool.true_and]
      congr 1; omega
    · simp only [h1, h2, ↓reduceIte]
      rw [Nat.testBit_lt_two_pow (Nat.lt_of_lt_of_le hx (Nat.pow_le_pow_right (by omega) (by omega)))]

/-- **lsb_msb_roundtrip**: a record signal `x` of `2w` bits carried by the two header fields `x_lsb`, `x_msb`
    (each `w` bits wide, anywhere in the header, disjoint, inside the header, swappable if swapped) is encoded
    without exception and decoded back to exactly `x`. -/
theorem lsb_msb_roundtrip (len : Nat) (swap : Bool) (fl fm : HField) (w x : Nat)
    (hl : fl.width = w) (hm : fm.width = w) (hd : fl.disjoint fm = true)
    (hfl : fl.stop ≤ 8 * len) (hfm : fm.stop ≤ 8 * len)
    (hs : swap = true → fl.swappable = true ∧ fm.swappable = true)
    (hx : x < 2 ^ (2 * w)) :
    let tbl : List NField := [⟨fl, 0, .lsb⟩, ⟨fm, 0, .msb⟩]
    ∃ sig, encodeObj len swap tbl [(2 * w, x)] = .ok sig ∧ sig < 2 ^ (8 * len) ∧
      decodeObj len swap tbl [2 * w] sig = .ok [x] := by
  intro tbl
  have hgl : getField (2 * w) .lsb w = .ok (0, w) := (getField_lsb_ok_iff _ _).mpr (by omega)
  have hgm : getField (2 * w) .msb w = .ok (w, w) := by
    rw [getField_ok_iff]; simp only [FKind.range]
    have h1 : min (2 * w) (2 * w) - min w (2 * w) = w := by omega
    have h2 : min w (2 * w) = w := by omega
    rw [h1, h2]; exact ⟨rfl, rfl⟩
  refine ⟨encodeL len swap [fl, fm] [slice 0 w x, slice w w x], ?_, encodeL_lt _ _ _ _, ?_⟩
  · simp [encodeObj, tbl, getFieldRec, hl, hm, hgl, hgm, List.mapM_cons, List.mapM_nil, bind, Except.bind, pure, Except.pure]
  · have hrt := header_roundtrip_len len swap [fl, fm] [slice 0 w x, slice w w x] rfl
      (by simp [pairwiseDisjoint, hd])
      (by simp [fitsIn, hfl, hfm])
      (by intro h f hf; simp at hf; rcases hf with rfl | rfl; exact (hs h).1; exact (hs h).2)
      (by intro p hp; simp at hp; rcases hp with rfl | rfl
          · simp only [hl]; exact slice_lt _ _ _
          · simp only [hm]; exact slice_lt _ _ _)
    simp [decodeObj, tbl, getFieldRec, hl, hm, hgl, hgm, List.mapM_cons, List.mapM_nil, bind, Except.bind, pure, Except.pure,
      hrt, writeAll, setSlice_halves w x hx]

/-- Non-vacuity + the real-code witness: `x = 0xabcdef12` (32 bits) through `x_lsb = (0,0,16)`, `x_msb = (2,0,16)`
    in a 4-byte swapped header is stored as `0xcdab12ef`; a 15-bit `x` under 8-bit `x_lsb`/`x_msb` is rejected
    (`x_msb` selects 7 bits); the record of `get_layout()` has no signal `x` at all. -/
example :
    encodeObj 4 true [⟨⟨0, 0, 16⟩, 0, .lsb⟩, ⟨⟨2, 0, 16⟩, 0, .msb⟩] [(32, 0xabcdef12)] = .ok 0xcdab12ef ∧
    decodeObj 4 true [⟨⟨0, 0, 16⟩, 0, .lsb⟩, ⟨⟨2, 0, 16⟩, 0, .msb⟩] [32] 0xcdab12ef = .ok [0xabcdef12] ∧
    encodeObj 2 true [⟨⟨0, 0, 8⟩, 0, .lsb⟩, ⟨⟨1, 0, 8⟩, 0, .msb⟩] [(15, 0)] = .error "Width mismatch" ∧
    getField 15 .msb 8 = .error "Width mismatch" ∧ getField 16 .msb 8 = .ok (8, 8) ∧
    encodeObj 2 true [⟨⟨0, 0, 8⟩, 2, .lsb⟩, ⟨⟨1, 0, 8⟩, 2, .msb⟩] [(8, 0), (8, 0)] = .error "AttributeError" := by
  decide

end Litex.Packet
